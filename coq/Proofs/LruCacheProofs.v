(* C40 -- proofs about the model of LruQueue / DefaultCacheState (Model/LruCache.v).
   Everything is for arbitrary states satisfying the invariant and arbitrary operation histories. *)
From Coq Require Import Lia Permutation.
From DF Require Import Base.Prelude Model.LruCache.
Open Scope Z_scope.

(* ------------------------------------------------------------------ key equality *)
Lemma key_eqb_eq a b : key_eqb a b = true <-> a = b.
Proof.
  destruct a as [i s t], b as [i' s' t']; unfold key_eqb; cbn [k_id k_size k_tab].
  rewrite !andb_true_iff, !Z.eqb_eq. split.
  - intros [[-> ->] H]. f_equal.
    destruct t, t'; cbn in H; try discriminate; auto. apply Z.eqb_eq in H; subst; auto.
  - intros H; inversion H; subst. repeat split; auto.
    destruct t'; cbn; auto. apply Z.eqb_refl.
Qed.
Lemma key_eqb_refl k : key_eqb k k = true.
Proof. apply key_eqb_eq; reflexivity. Qed.
Lemma key_eqb_neq a b : key_eqb a b = false <-> a <> b.
Proof.
  split; intros H.
  - intros E. apply key_eqb_eq in E. congruence.
  - destruct (key_eqb a b) eqn:E; auto. apply key_eqb_eq in E; contradiction.
Qed.
Lemma key_eqb_sym a b : key_eqb a b = key_eqb b a.
Proof.
  destruct (key_eqb a b) eqn:E.
  - apply key_eqb_eq in E; subst. symmetry; apply key_eqb_refl.
  - apply key_eqb_neq in E. symmetry. apply key_eqb_neq. congruence.
Qed.

Ltac keq a b :=
  let E := fresh "E" in
  destruct (key_eqb a b) eqn:E; [apply key_eqb_eq in E; subst | apply key_eqb_neq in E].

(* ------------------------------------------------------------------ small list facts *)
Lemma nodup_app_l {A} (a b : list A) : NoDup (a ++ b) -> NoDup a.
Proof.
  induction a; cbn; intros H. constructor.
  inversion H; subst. constructor; auto. intros X; apply H2, in_or_app; auto.
Qed.

Lemma filter_id {A} (P : A -> bool) l : (forall x, In x l -> P x = true) -> filter P l = l.
Proof.
  induction l; cbn; intros H; auto.
  rewrite (H a) by auto. f_equal. apply IHl. intros; apply H; auto.
Qed.

Lemma keys_app a b : keys (a ++ b) = keys a ++ keys b.
Proof. apply map_app. Qed.

Lemma qsum_app a b : qsum (a ++ b) = qsum a + qsum b.
Proof. induction a as [|[k e] a IH]; cbn [qsum app]; lia. Qed.

(* ------------------------------------------------------------------ subsequences *)
Lemma subseq_nil {A} (r : list A) : subseq [] r.
Proof. induction r; constructor; auto. Qed.
Lemma subseq_refl {A} (l : list A) : subseq l l.
Proof. induction l; [constructor | apply ss_take; auto]. Qed.
Lemma subseq_trans {A} (a b c : list A) : subseq a b -> subseq b c -> subseq a c.
Proof.
  intros H1 H2. revert a H1. induction H2; intros a H1.
  - auto.
  - constructor; auto.
  - inversion H1; subst.
    + apply ss_skip; auto.
    + apply ss_take; auto.
Qed.
Lemma subseq_filter {A} (P : A -> bool) l r : subseq l r -> subseq (filter P l) (filter P r).
Proof.
  induction 1; cbn.
  - constructor.
  - destruct (P x); [apply ss_skip|]; auto.
  - destruct (P x); [apply ss_take|]; auto.
Qed.
Lemma subseq_prefix {A} (a b : list A) : subseq a (a ++ b).
Proof. induction a; cbn. apply subseq_nil. apply ss_take; auto. Qed.
Lemma subseq_in {A} (l r : list A) x : subseq l r -> In x l -> In x r.
Proof. induction 1; cbn; intuition. Qed.

(* ------------------------------------------------------------------ LruQueue *)
Lemma peek_in k q e : lq_peek k q = Some e -> In (k, e) q.
Proof.
  induction q as [|[k' e'] q IH]; cbn; intros H. discriminate.
  keq k' k. inversion H; subst; auto. auto.
Qed.

Lemma peek_in_keys k q e : lq_peek k q = Some e -> In k (keys q).
Proof. intros H. apply peek_in in H. apply in_map_iff. exists (k, e); auto. Qed.

Lemma peek_none k q : lq_peek k q = None <-> ~ In k (keys q).
Proof.
  induction q as [|[k' e'] q IH]; cbn. intuition.
  keq k' k.
  - split; intros H. discriminate. exfalso; apply H; auto.
  - rewrite IH. intuition.
Qed.

Lemma peek_nodup k e q : NoDup (keys q) -> In (k, e) q -> lq_peek k q = Some e.
Proof.
  induction q as [|[k' e'] q IH]; cbn; intros N H. contradiction.
  inversion N; subst. destruct H as [H|H].
  - inversion H; subst. rewrite key_eqb_refl; auto.
  - keq k' k.
    + exfalso. apply H2. apply in_map_iff. exists (k, e); auto.
    + auto.
Qed.

Lemma del_absent k q : lq_peek k q = None -> lq_del k q = q.
Proof.
  induction q as [|[k' e'] q IH]; cbn; intros H; auto.
  keq k' k. discriminate. f_equal; auto.
Qed.

Lemma keys_del k q :
  NoDup (keys q) -> keys (lq_del k q) = filter (fun k' => negb (key_eqb k' k)) (keys q).
Proof.
  induction q as [|[k' e'] q IH]; cbn; intros N; auto.
  inversion N; subst. keq k' k; cbn.
  - symmetry. apply filter_id. intros x Hx. apply negb_true_iff, key_eqb_neq. intros ->; auto.
  - f_equal; auto.
Qed.

Lemma del_sum k q e : lq_peek k q = Some e -> qsum (lq_del k q) = qsum q - k_size k - vsz e.
Proof.
  induction q as [|[k' e'] q IH]; cbn [lq_peek lq_del qsum]; intros H. discriminate.
  keq k' k.
  - inversion H; subst. lia.
  - cbn [qsum]. rewrite IH by auto. lia.
Qed.

Lemma del_incl k q x : In x (lq_del k q) -> In x q.
Proof.
  induction q as [|[k' e'] q IH]; cbn; auto.
  keq k' k; cbn; intuition.
Qed.

Lemma del_subseq k q : subseq (keys (lq_del k q)) (keys q).
Proof.
  induction q as [|[k' e'] q IH]; cbn. constructor.
  keq k' k; cbn.
  - apply ss_skip. apply subseq_refl.
  - apply ss_take; auto.
Qed.

Lemma subseq_nodup {A} (l r : list A) : subseq l r -> NoDup r -> NoDup l.
Proof.
  induction 1; intros N; auto.
  - inversion N; auto.
  - inversion N; subst. constructor; auto. intros X. apply H2. eapply subseq_in; eauto.
Qed.

Lemma del_nodup k q : NoDup (keys q) -> NoDup (keys (lq_del k q)).
Proof. apply subseq_nodup, del_subseq. Qed.

Lemma del_notin k q : NoDup (keys q) -> ~ In k (keys (lq_del k q)).
Proof.
  intros N. rewrite keys_del by auto. rewrite filter_In. intros [_ H].
  rewrite key_eqb_refl in H. discriminate.
Qed.

Lemma peek_del_other k k' q : k' <> k -> lq_peek k' (lq_del k q) = lq_peek k' q.
Proof.
  intros D. induction q as [|[k0 e0] q IH]; cbn; auto.
  keq k0 k.
  - keq k k'. congruence. auto.
  - cbn. rewrite IH. auto.
Qed.

Lemma peek_del_same k q : NoDup (keys q) -> lq_peek k (lq_del k q) = None.
Proof. intros N. apply peek_none, del_notin; auto. Qed.

Lemma peek_prefix k a b e : lq_peek k a = Some e -> lq_peek k (a ++ b) = Some e.
Proof.
  induction a as [|[k0 e0] a IH]; cbn; intros H. discriminate.
  destruct (key_eqb k0 k); auto.
Qed.

(* moving an entry to the front does not change what any key maps to *)
Lemma peek_move_front k e q k' :
  lq_peek k q = Some e -> lq_peek k' ((k, e) :: lq_del k q) = lq_peek k' q.
Proof.
  intros H. cbn. keq k k'. auto. apply peek_del_other; congruence.
Qed.

Lemma lq_get_spec k q :
  NoDup (keys q) ->
  lq_get k q = match lq_peek k q with
               | Some e => (Some e, (k, e) :: lq_del k q)
               | None => (None, q)
               end.
Proof.
  intros N. unfold lq_get, lq_remove. destruct (lq_peek k q) as [e|] eqn:P.
  - unfold lq_put, lq_remove. cbn [snd]. cbn [lq_peek]. rewrite key_eqb_refl.
    (* put removes k once more: a no-op, k is no longer queued *)
    rewrite (del_absent k (lq_del k q)) by (apply peek_del_same; auto). reflexivity.
  - rewrite del_absent by auto. rewrite P. reflexivity.
Qed.

(* ---- pop takes the last element of the recency list *)
Lemma last_key_snoc q k e : last_key (q ++ [(k, e)]) = Some k.
Proof.
  induction q as [|[k0 e0] q IH]; cbn [app last_key]. reflexivity.
  destruct (q ++ [(k, e)]) eqn:Q.
  - exfalso. eapply app_cons_not_nil. symmetry. exact Q.
  - exact IH.
Qed.

Lemma peek_snoc q k e : ~ In k (keys q) -> lq_peek k (q ++ [(k, e)]) = Some e.
Proof.
  induction q as [|[k0 e0] q IH]; cbn; intros H.
  - rewrite key_eqb_refl; auto.
  - keq k0 k. exfalso; auto. apply IH. auto.
Qed.

Lemma del_snoc q k e : ~ In k (keys q) -> lq_del k (q ++ [(k, e)]) = q.
Proof.
  induction q as [|[k0 e0] q IH]; cbn; intros H.
  - rewrite key_eqb_refl; auto.
  - keq k0 k. exfalso; auto. f_equal. apply IH. auto.
Qed.

Lemma nodup_snoc_notin q k e : NoDup (keys (q ++ [(k, e)])) -> ~ In k (keys q).
Proof.
  rewrite keys_app. cbn. intros N. apply NoDup_remove_2 in N. rewrite app_nil_r in N. exact N.
Qed.

Lemma pop_snoc q k e :
  NoDup (keys (q ++ [(k, e)])) -> lq_pop (q ++ [(k, e)]) = Some (k, e, q).
Proof.
  intros N. pose proof (nodup_snoc_notin _ _ _ N) as X.
  unfold lq_pop, lq_remove. rewrite last_key_snoc, peek_snoc, del_snoc by auto. reflexivity.
Qed.

(* ------------------------------------------------------------------ invariant *)
Definition sizes_ok (q : queue) : Prop :=
  Forall (fun p : key * entry => 0 <= k_size (fst p) /\ 0 <= vsz (snd p)) q.

(* what holds before the eviction loop runs *)
Record PreInv (st : state) : Prop := {
  pre_nodup : NoDup (keys (s_q st));
  pre_used : s_used st = qsum (s_q st);
  pre_limit : 0 <= s_limit st;
  pre_sizes : sizes_ok (s_q st) }.

(* what holds between operations *)
Record Inv (st : state) : Prop := {
  inv_pre : PreInv st;
  inv_le : s_used st <= s_limit st }.

Lemma sizes_ok_qsum q : sizes_ok q -> 0 <= qsum q.
Proof.
  induction q as [|[k e] q IH]; cbn [qsum]; intros H. lia.
  inversion H; subst. cbn in H2. specialize (IH H3). lia.
Qed.

Lemma sizes_ok_in q k e : sizes_ok q -> In (k, e) q -> 0 <= k_size k /\ 0 <= vsz e.
Proof. intros H I. eapply Forall_forall in H; eauto. exact H. Qed.

Lemma sizes_ok_del k q : sizes_ok q -> sizes_ok (lq_del k q).
Proof.
  intros H. apply Forall_forall. intros x I. apply del_incl in I.
  eapply Forall_forall in H; eauto.
Qed.

(* ------------------------------------------------------------------ eviction *)
(* evict_entries removes a suffix of the recency list -- the least recently used entries -- and the
   shortest one that brings the accounted size within the limit *)
Definition evict_result (st st' : state) : Prop :=
  exists pre suf,
    s_q st = pre ++ suf /\ s_q st' = pre /\ s_used st' = qsum pre /\ s_used st' <= s_limit st /\
    s_limit st' = s_limit st /\ s_ttl st' = s_ttl st /\
    (suf = [] \/ exists x suf', suf = x :: suf' /\ s_limit st < qsum (pre ++ [x])).

Lemma evict_loop_spec : forall n st,
  (length (s_q st) < n)%nat -> NoDup (keys (s_q st)) -> s_used st = qsum (s_q st) -> 0 <= s_limit st ->
  evict_result st (evict_loop n st).
Proof.
  induction n; intros st L N U LIM. lia.
  cbn [evict_loop]. destruct (s_used st >? s_limit st) eqn:G.
  - apply Z.gtb_lt in G.
    destruct (s_q st) as [|x0 q0] eqn:Q.
    { cbn [qsum] in U. lia. }
    destruct (exists_last (l := x0 :: q0)) as [q1 [[k e] Q1]]. discriminate.
    rewrite Q1 in *. clear Q1 x0 q0.
    rewrite pop_snoc by auto.
    set (st1 := mkState q1 (h_del k (s_hits st)) (s_limit st) (s_used st - k_size k - vsz e) (s_ttl st)).
    assert (L1 : (length (s_q st1) < n)%nat).
    { cbn [s_q st1]. rewrite app_length in L. cbn in L. lia. }
    assert (N1 : NoDup (keys (s_q st1))).
    { cbn [s_q st1]. rewrite keys_app in N. eapply nodup_app_l; eauto. }
    assert (U1 : s_used st1 = qsum (s_q st1)).
    { cbn [s_q s_used st1]. rewrite U, qsum_app. cbn [qsum]. lia. }
    destruct (IHn st1 L1 N1 U1 LIM) as (pre & suf & A & B & C & D & E & F & H).
    cbn [s_q s_limit s_ttl st1] in *.
    exists pre, (suf ++ [(k, e)]). subst q1. rewrite app_assoc. repeat split; auto.
    right. destruct H as [-> | (x & suf' & -> & H)].
    + exists (k, e), []. split; auto. rewrite app_nil_r in U. cbn [app]. lia.
    + exists x, (suf' ++ [(k, e)]). split; auto.
  - rewrite Z.gtb_ltb, Z.ltb_ge in G.
    exists (s_q st), []. rewrite app_nil_r. repeat split; auto; try lia.
Qed.

Lemma evict_spec st : PreInv st -> evict_result st (c_evict st).
Proof.
  intros [N U L S]. unfold c_evict. apply evict_loop_spec; auto.
Qed.

Lemma evict_inv st : PreInv st -> Inv (c_evict st).
Proof.
  intros P. destruct (evict_spec st P) as (pre & suf & A & B & C & D & E & F & _).
  destruct P as [N U L S]. rewrite A in *.
  split; [split|]; rewrite ?B, ?C, ?E; auto.
  - rewrite keys_app in N. eapply nodup_app_l; eauto.
  - apply Forall_app in S. apply S.
  - rewrite C in D. auto.
Qed.

(* the "cannot happen" arm of evict_entries is indeed unreachable: the loop only ever pops *)
Lemma evict_subseq st : PreInv st -> subseq (keys (s_q (c_evict st))) (keys (s_q st)).
Proof.
  intros P. destruct (evict_spec st P) as (pre & suf & A & B & _).
  rewrite A, B, keys_app. apply subseq_prefix.
Qed.

(* ------------------------------------------------------------------ every operation keeps the invariant *)
Lemma remove_inv st k : Inv st -> Inv (fst (c_remove st k)).
Proof.
  intros [[N U L S] LE]. unfold c_remove, lq_remove.
  destruct (lq_peek k (s_q st)) as [e|] eqn:P; cbn [fst].
  - pose proof (sizes_ok_in _ _ _ S (peek_in _ _ _ P)) as [K V].
    split; [split|]; cbn [s_q s_used s_limit]; auto.
    + apply del_nodup; auto.
    + rewrite (del_sum _ _ _ P). lia.
    + apply sizes_ok_del; auto.
    + lia.
  - split; [split|]; auto.
Qed.

Lemma move_front_pre st k e :
  PreInv st -> lq_peek k (s_q st) = Some e ->
  PreInv (mkState ((k, e) :: lq_del k (s_q st)) (s_hits st) (s_limit st) (s_used st) (s_ttl st)).
Proof.
  intros [N U L S] P. split; cbn [s_q s_used s_limit]; auto.
  - cbn. constructor. apply del_notin; auto. apply del_nodup; auto.
  - cbn [qsum]. rewrite (del_sum _ _ _ P). lia.
  - constructor. apply (sizes_ok_in _ _ _ S (peek_in _ _ _ P)). apply sizes_ok_del; auto.
Qed.

Lemma c_get_unfold st k now :
  NoDup (keys (s_q st)) ->
  c_get st k now =
  match lq_peek k (s_q st) with
  | None => (st, None)
  | Some e =>
      let q1 := (k, e) :: lq_del k (s_q st) in
      if expired e now
      then (mkState (lq_del k (s_q st)) (h_del k (s_hits st)) (s_limit st)
                    (s_used st - k_size k - vsz e) (s_ttl st), None)
      else (mkState q1 (h_incr k (s_hits st)) (s_limit st) (s_used st) (s_ttl st), Some (e_val e))
  end.
Proof.
  intros N. unfold c_get. rewrite lq_get_spec by auto.
  destruct (lq_peek k (s_q st)) as [e|] eqn:P.
  - cbn zeta. destruct (expired e now); auto.
    unfold c_remove, lq_remove. cbn [s_q s_hits s_limit s_used s_ttl lq_peek lq_del].
    rewrite key_eqb_refl. reflexivity.
  - destruct st; reflexivity.
Qed.

Lemma get_inv st k now : Inv st -> Inv (fst (c_get st k now)).
Proof.
  intros I. pose proof I as [[N U L S] LE]. rewrite c_get_unfold by auto.
  destruct (lq_peek k (s_q st)) as [e|] eqn:P; auto.
  cbn zeta. destruct (expired e now); cbn [fst].
  - pose proof (remove_inv st k I) as R. unfold c_remove, lq_remove in R. rewrite P in R. exact R.
  - pose proof (move_front_pre st k e (inv_pre _ I) P) as [N' U' L' S'].
    split; [split|]; cbn [s_q s_used s_limit] in *; auto.
Qed.

Lemma contains_inv st k now : Inv st -> Inv (fst (c_contains st k now)).
Proof.
  intros I. unfold c_contains. destruct (lq_peek k (s_q st)) as [e|]; auto.
  destruct (expired e now); auto. cbn [fst]. apply remove_inv; auto.
Qed.

Lemma put_pre st k v now :
  Inv st -> 0 <= k_size k -> 0 <= v_size v ->
  let e := mkEntry v (option_map (fun t => now + t) (s_ttl st)) in
  let old := lq_peek k (s_q st) in
  PreInv (mkState ((k, e) :: lq_del k (s_q st)) (h_set k 0 (s_hits st)) (s_limit st)
                  (match old with
                   | Some oe => s_used st + (k_size k + v_size v) - k_size k - vsz oe
                   | None => s_used st + (k_size k + v_size v)
                   end) (s_ttl st)).
Proof.
  intros [[N U L S] LE] K V e old. split; cbn [s_q s_used s_limit]; auto.
  - cbn. constructor. apply del_notin; auto. apply del_nodup; auto.
  - cbn [qsum]. unfold old. destruct (lq_peek k (s_q st)) as [oe|] eqn:P.
    + rewrite (del_sum _ _ _ P). unfold vsz at 2. cbn [e_val e]. lia.
    + rewrite del_absent by auto. unfold vsz. cbn [e_val e]. lia.
  - constructor. cbn. unfold vsz; cbn. lia. apply sizes_ok_del; auto.
Qed.

Lemma c_put_unfold st k v now :
  c_put st k v now =
  if v_size v =? 0 then (st, None)
  else if k_size k + v_size v >? s_limit st then c_remove st k
  else
    let e := mkEntry v (option_map (fun t => now + t) (s_ttl st)) in
    let old := lq_peek k (s_q st) in
    (c_evict (mkState ((k, e) :: lq_del k (s_q st)) (h_set k 0 (s_hits st)) (s_limit st)
                  (match old with
                   | Some oe => s_used st + (k_size k + v_size v) - k_size k - vsz oe
                   | None => s_used st + (k_size k + v_size v)
                   end) (s_ttl st)),
     option_map e_val old).
Proof. reflexivity. Qed.

Lemma put_inv st k v now :
  Inv st -> 0 <= k_size k -> 0 <= v_size v -> Inv (fst (c_put st k v now)).
Proof.
  intros I K V. rewrite c_put_unfold.
  destruct (v_size v =? 0); auto.
  destruct (k_size k + v_size v >? s_limit st). apply remove_inv; auto.
  cbn zeta. cbn [fst]. apply evict_inv. apply put_pre; auto.
Qed.

Lemma set_limit_inv st l : Inv st -> 0 <= l -> Inv (c_set_limit st l).
Proof.
  intros [[N U L S] LE] H. apply evict_inv. split; auto.
Qed.

Lemma remove_all_inv ks : forall st, Inv st -> Inv (remove_all st ks).
Proof.
  induction ks; cbn; intros st I; auto. apply IHks. apply remove_inv; auto.
Qed.

Lemma init_inv limit ttl : 0 <= limit -> Inv (init limit ttl).
Proof.
  intros H. split; [split|]; cbn; auto; try lia. constructor. constructor.
Qed.

Lemma step_inv w o : Inv (w_st w) -> op_wf o -> Inv (w_st (fst (step w o))).
Proof.
  intros I W. destruct o; cbn [step].
  - pose proof (get_inv (w_st w) k (w_now w) I). destruct (c_get (w_st w) k (w_now w)); auto.
  - pose proof (contains_inv (w_st w) k (w_now w) I). destruct (c_contains (w_st w) k (w_now w)); auto.
  - destruct W as [K V]. pose proof (put_inv (w_st w) k v (w_now w) I K V).
    destruct (c_put (w_st w) k v (w_now w)); auto.
  - pose proof (remove_inv (w_st w) k I). destruct (c_remove (w_st w) k); auto.
  - cbn. destruct I as [[N U L S] LE]. split; [split|]; cbn; auto. constructor. constructor.
  - cbn. apply set_limit_inv; auto.
  - cbn. destruct I as [[N U L S] LE]. split; [split|]; cbn; auto.
  - cbn. auto.
  - cbn. apply remove_all_inv; auto.
Qed.

Lemma run_inv ops : forall w, Inv (w_st w) -> Forall op_wf ops -> Inv (w_st (run w ops)).
Proof.
  induction ops; cbn; intros w I W; auto.
  inversion W; subst. apply IHops; auto. apply step_inv; auto.
Qed.

(* ------------------------------------------------------------------ LRU order *)
Lemma remove_keys st k :
  keys (s_q (fst (c_remove st k))) = keys (lq_del k (s_q st)).
Proof.
  unfold c_remove, lq_remove. destruct (lq_peek k (s_q st)) eqn:P; cbn [fst s_q]; auto.
  rewrite del_absent; auto.
Qed.

Lemma remove_all_cons st a ks : remove_all st (a :: ks) = remove_all (fst (c_remove st a)) ks.
Proof. reflexivity. Qed.

Lemma remove_all_subseq ks : forall st, subseq (keys (s_q (remove_all st ks))) (keys (s_q st)).
Proof.
  induction ks; intros st. apply subseq_refl.
  rewrite remove_all_cons.
  eapply subseq_trans. apply IHks. rewrite remove_keys. apply del_subseq.
Qed.

(* how one operation changes the recency list: an operation that is not a use only deletes entries;
   a use of k moves k to the front (if it stays cached at all) and otherwise only deletes entries *)
Lemma step_keys w o :
  Inv (w_st w) -> op_wf o ->
  let q := s_q (w_st w) in
  let q' := s_q (w_st (fst (step w o))) in
  match touch o with
  | None => subseq (keys q') (keys q)
  | Some k => subseq (keys q') (k :: keys (lq_del k q))
  end.
Proof.
  intros I W q q'. pose proof I as [[N U L S] LE].
  destruct o; cbn [touch]; subst q q'; cbn [step].
  - (* get *)
    rewrite c_get_unfold by auto. destruct (lq_peek k (s_q (w_st w))) as [e|] eqn:P.
    + cbn zeta. destruct (expired e (w_now w)); cbn [fst w_st s_q].
      * apply ss_skip, subseq_refl.
      * cbn. apply subseq_refl.
    + cbn [fst w_st]. rewrite del_absent by auto. apply ss_skip, subseq_refl.
  - (* contains *)
    unfold c_contains. destruct (lq_peek k (s_q (w_st w))) as [e|] eqn:P; cbn [fst w_st].
    + destruct (expired e (w_now w)); cbn [fst w_st]. rewrite remove_keys. apply del_subseq.
      apply subseq_refl.
    + apply subseq_refl.
  - (* put *)
    destruct W as [K V]. rewrite c_put_unfold. destruct (v_size v =? 0) eqn:Z0.
    + cbn [fst w_st]. apply subseq_refl.
    + destruct (k_size k + v_size v >? s_limit (w_st w)).
      * pose proof (remove_keys (w_st w) k) as R. destruct (c_remove (w_st w) k). cbn [fst w_st] in *.
        rewrite R. apply ss_skip, subseq_refl.
      * cbn zeta. cbn [fst w_st].
        eapply subseq_trans. apply evict_subseq. apply put_pre; auto.
        cbn [s_q]. cbn. apply subseq_refl.
  - (* remove *)
    pose proof (remove_keys (w_st w) k) as R. destruct (c_remove (w_st w) k). cbn [fst w_st] in *.
    rewrite R. apply del_subseq.
  - cbn. apply subseq_nil.
  - cbn [fst w_st]. unfold c_set_limit. eapply subseq_trans. apply evict_subseq.
    split; auto. cbn [s_q]. apply subseq_refl.
  - cbn. apply subseq_refl.
  - cbn. apply subseq_refl.
  - cbn [fst w_st]. apply remove_all_subseq.
Qed.

Lemma rec_step_nodup r o : NoDup r -> NoDup (rec_step r o).
Proof.
  intros N. unfold rec_step. destruct (touch o) as [k|]; auto.
  constructor.
  - rewrite filter_In. intros [_ H]. rewrite key_eqb_refl in H. discriminate.
  - apply NoDup_filter; auto.
Qed.

Lemma step_order w o r :
  Inv (w_st w) -> op_wf o -> subseq (keys (s_q (w_st w))) r ->
  subseq (keys (s_q (w_st (fst (step w o))))) (rec_step r o).
Proof.
  intros I W H. pose proof (step_keys w o I W) as SK. cbn zeta in SK.
  unfold rec_step. destruct (touch o) as [k|].
  - eapply subseq_trans. exact SK. apply ss_take.
    rewrite keys_del by (destruct I as [[N _ _ _] _]; auto).
    apply subseq_filter; auto.
  - eapply subseq_trans; eauto.
Qed.

Lemma run_order ops : forall w r,
  Inv (w_st w) -> Forall op_wf ops -> NoDup r -> subseq (keys (s_q (w_st w))) r ->
  subseq (keys (s_q (w_st (run w ops)))) (fold_left rec_step ops r) /\ NoDup (fold_left rec_step ops r).
Proof.
  induction ops; cbn [run fold_left]; intros w r I W N H. auto.
  inversion W; subst. apply IHops; auto.
  - apply step_inv; auto.
  - apply rec_step_nodup; auto.
  - apply step_order; auto.
Qed.

(* a duplicate-free subsequence is determined by its members: the queue IS the recency list
   restricted to the cached keys *)
Lemma subseq_nodup_filter (l r : list key) :
  subseq l r -> NoDup r ->
  l = filter (fun k => existsb (key_eqb k) l) r.
Proof.
  induction 1; intros N; cbn.
  - reflexivity.
  - inversion N; subst.
    assert (X : existsb (key_eqb x) l = false).
    { destruct (existsb (key_eqb x) l) eqn:E; auto. apply existsb_exists in E.
      destruct E as (y & Iy & Ey). apply key_eqb_eq in Ey. subst y.
      exfalso. apply H2. eapply subseq_in; eauto. }
    rewrite X. auto.
  - inversion N; subst. rewrite key_eqb_refl. cbn. f_equal.
    rewrite (IHsubseq H3) at 1. apply filter_ext_in. intros a Ia.
    keq a x. contradiction. reflexivity.
Qed.

(* ------------------------------------------------------------------ refinement: the cache is a sub-map of
   the ideal unbounded map (it may forget -- evict -- but never invents or keeps what the ideal map lost) *)
Definition Sub (w : world) (s : sworld) : Prop :=
  (forall k e, lq_peek k (s_q (w_st w)) = Some e -> sp_map s k = Some e) /\
  s_limit (w_st w) = sp_limit s /\ s_ttl (w_st w) = sp_ttl s /\ w_now w = sp_now s.

Lemma sm_expire_other m k now k' : k' <> k -> sm_expire m k now k' = m k'.
Proof.
  intros D. unfold sm_expire. destruct (m k) as [e|]; auto. destruct (expired e now); auto.
  unfold sm_del. keq k' k. contradiction. auto.
Qed.

Lemma remove_peek st k k' e :
  NoDup (keys (s_q st)) ->
  lq_peek k' (s_q (fst (c_remove st k))) = Some e -> k' <> k /\ lq_peek k' (s_q st) = Some e.
Proof.
  intros N. unfold c_remove, lq_remove. destruct (lq_peek k (s_q st)) as [e0|] eqn:P; cbn [fst s_q]; intros H.
  - assert (D : k' <> k). { intros ->. rewrite peek_del_same in H by auto. discriminate. }
    split; auto. rewrite peek_del_other in H; auto.
  - split; auto. intros ->. congruence.
Qed.

Lemma remove_all_peek ks : forall st k' e,
  Inv st -> lq_peek k' (s_q (remove_all st ks)) = Some e -> ~ In k' ks /\ lq_peek k' (s_q st) = Some e.
Proof.
  induction ks; intros st k' e I H. cbn in *; auto.
  rewrite remove_all_cons in H. apply IHks in H; [|apply remove_inv; auto].
  destruct H as [NI H]. apply remove_peek in H; [|destruct I as [[N _ _ _] _]; auto].
  destruct H as [D H]. split; auto. cbn. intros [X|X]; auto.
Qed.

Lemma evict_peek st k e :
  PreInv st -> lq_peek k (s_q (c_evict st)) = Some e -> lq_peek k (s_q st) = Some e.
Proof.
  intros P H. destruct (evict_spec st P) as (pre & suf & A & B & _).
  rewrite A. rewrite B in H. apply peek_prefix; auto.
Qed.

Lemma step_sub w s o :
  Inv (w_st w) -> op_wf o -> Sub w s -> Sub (fst (step w o)) (sp_step s o).
Proof.
  intros I W (M & EL & ET & EN). pose proof I as [[N U L S] LE].
  destruct o; cbn [step sp_step].
  - (* get *)
    rewrite c_get_unfold by auto. destruct (lq_peek k (s_q (w_st w))) as [e|] eqn:P.
    + cbn zeta. rewrite <- EN. pose proof (M _ _ P) as MK.
      destruct (expired e (w_now w)) eqn:X; cbn [fst]; split; cbn [w_st w_now s_q s_limit s_ttl sp_map sp_limit sp_ttl sp_now]; auto.
      * intros k' e' H.
        assert (D : k' <> k). { intros ->. rewrite peek_del_same in H by auto. discriminate. }
        rewrite peek_del_other in H by auto. rewrite sm_expire_other by auto. auto.
      * intros k' e' H. rewrite peek_move_front in H by auto.
        unfold sm_expire. rewrite MK, X. auto.
    + cbn [fst]. split; cbn [w_st w_now sp_map sp_limit sp_ttl sp_now]; auto.
      intros k' e' H. rewrite sm_expire_other; auto. intros ->. congruence.
  - (* contains *)
    unfold c_contains. destruct (lq_peek k (s_q (w_st w))) as [e|] eqn:P.
    + rewrite <- EN. pose proof (M _ _ P) as MK.
      destruct (expired e (w_now w)) eqn:X; cbn [fst]; split; cbn [w_st w_now sp_map sp_limit sp_ttl sp_now]; auto.
      * intros k' e' H. apply remove_peek in H; auto. destruct H as [D H].
        rewrite sm_expire_other by auto. auto.
      * unfold c_remove, lq_remove. rewrite P. cbn [fst s_limit s_ttl]. auto.
      * intros k' e' H. unfold sm_expire. rewrite MK, X. auto.
    + cbn [fst]. split; cbn [w_st w_now sp_map sp_limit sp_ttl sp_now]; auto.
      intros k' e' H. rewrite sm_expire_other; auto. intros ->. congruence.
  - (* put *)
    destruct W as [K V]. rewrite c_put_unfold. rewrite <- EL, <- ET, <- EN.
    destruct (v_size v =? 0). { cbn [fst]. split; auto. }
    destruct (k_size k + v_size v >? s_limit (w_st w)).
    + split; cbn [sp_map sp_limit sp_ttl sp_now].
      * intros k' e' H. cbn [fst w_st] in H.
        assert (H' : lq_peek k' (s_q (fst (c_remove (w_st w) k))) = Some e')
          by (destruct (c_remove (w_st w) k); exact H).
        apply remove_peek in H'; auto. destruct H' as [D H']. unfold sm_del. keq k' k. contradiction. auto.
      * unfold c_remove, lq_remove. destruct (lq_peek k (s_q (w_st w))); cbn; auto.
    + cbn zeta. cbn [fst]. pose proof (put_pre (w_st w) k v (w_now w) I K V) as PP. cbn zeta in PP.
      destruct (evict_spec _ PP) as (pre & suf & A & B & C & D & E & F & _).
      split; cbn [w_st w_now sp_map sp_limit sp_ttl sp_now]; auto.
      intros k' e' H. apply evict_peek in H; auto. cbn [s_q lq_peek] in H.
      unfold sm_set. rewrite (key_eqb_sym k' k). destruct (key_eqb k k') eqn:X; auto.
      apply key_eqb_neq in X. rewrite peek_del_other in H by congruence. auto.
  - (* remove *)
    split; cbn [sp_map sp_limit sp_ttl sp_now].
    + intros k' e' H. cbn [fst w_st] in H.
      assert (H' : lq_peek k' (s_q (fst (c_remove (w_st w) k))) = Some e')
        by (destruct (c_remove (w_st w) k); exact H).
      apply remove_peek in H'; auto. destruct H' as [D H']. unfold sm_del. keq k' k. contradiction. auto.
    + unfold c_remove, lq_remove. destruct (lq_peek k (s_q (w_st w))); cbn; auto.
  - split; cbn; auto; intros; discriminate.
  - (* set limit *)
    cbn [fst]. split; cbn [w_st w_now sp_map sp_limit sp_ttl sp_now]; auto.
    + intros k e H. unfold c_set_limit in H. apply evict_peek in H; auto. split; auto.
    + unfold c_set_limit.
      assert (PP : PreInv (mkState (s_q (w_st w)) (s_hits (w_st w)) l (s_used (w_st w)) (s_ttl (w_st w)))) by (split; auto).
      destruct (evict_spec _ PP) as (pre & suf & A & B & C & D & E & F & _). cbn [s_limit s_ttl] in E, F.
      rewrite E, F. auto.
  - split; cbn; auto.
  - split; cbn; auto. repeat split; auto. lia.
  - (* drop table *)
    cbn [fst]. split; cbn [w_st w_now sp_map sp_limit sp_ttl sp_now].
    + intros k e H. unfold c_drop_table in H. apply remove_all_peek in H; auto.
      destruct H as [NI H]. destruct (tab_matches t k) eqn:T; auto.
      exfalso. apply NI. apply filter_In. split; auto. eapply peek_in_keys; eauto.
    + unfold c_drop_table. generalize (filter (tab_matches t) (keys (s_q (w_st w)))). intros ks.
      assert (G : forall ks st, s_limit (remove_all st ks) = s_limit st /\ s_ttl (remove_all st ks) = s_ttl st).
      { clear. induction ks; intros st. cbn; auto. rewrite remove_all_cons.
        destruct (IHks (fst (c_remove st a))) as [X Y]. rewrite X, Y.
        unfold c_remove, lq_remove. destruct (lq_peek a (s_q st)); cbn; auto. }
      destruct (G ks (w_st w)) as [X Y]. rewrite X, Y. auto.
Qed.

Lemma run_sub ops : forall w s,
  Inv (w_st w) -> Forall op_wf ops -> Sub w s -> Sub (run w ops) (sp_run s ops).
Proof.
  induction ops; cbn [run sp_run fold_left]; intros w s I W H; auto.
  inversion W; subst. apply IHops; auto. apply step_inv; auto. apply step_sub; auto.
Qed.

Lemma start_sub limit ttl : Sub (start limit ttl) (sp_start limit ttl).
Proof. split; cbn; auto; intros; discriminate. Qed.

(* ------------------------------------------------------------------ where a binding of the ideal map comes from *)
Lemma sp_keep s o k e :
  kills k o = false -> sp_map (sp_step s o) k = Some e -> sp_map s k = Some e.
Proof.
  destruct o; cbn [kills sp_step sp_map]; intros KL H; auto.
  - unfold sm_expire in H. destruct (sp_map s k0) as [e0|]; auto. destruct (expired e0 (sp_now s)); auto.
    unfold sm_del in H. destruct (key_eqb k k0); auto. discriminate.
  - unfold sm_expire in H. destruct (sp_map s k0) as [e0|]; auto. destruct (expired e0 (sp_now s)); auto.
    unfold sm_del in H. destruct (key_eqb k k0); auto. discriminate.
  - destruct (v_size v =? 0); auto. cbn [negb] in KL. rewrite andb_true_r in KL.
    destruct (k_size k0 + v_size v >? sp_limit s); cbn [sp_map] in H; unfold sm_del, sm_set in H;
      rewrite KL in H; auto.
  - unfold sm_del in H. rewrite KL in H. auto.
  - discriminate.
  - rewrite KL in H. auto.
Qed.

Lemma sp_made s o k e :
  kills k o = true -> sp_map (sp_step s o) k = Some e ->
  exists v, o = OPut k v /\ v_size v <> 0 /\ k_size k + v_size v <= sp_limit s /\
            e = mkEntry v (option_map (fun t => sp_now s + t) (sp_ttl s)).
Proof.
  destruct o; cbn [kills sp_step sp_map]; intros KL H; try discriminate.
  - apply andb_true_iff in KL. destruct KL as [KE NZ]. apply key_eqb_eq in KE. subst k0.
    apply negb_true_iff in NZ. rewrite NZ in H.
    destruct (k_size k + v_size v >? sp_limit s) eqn:G; cbn [sp_map] in H; unfold sm_del, sm_set in H;
      rewrite key_eqb_refl in H; try discriminate.
    exists v. repeat split; auto.
    + apply Z.eqb_neq; auto.
    + rewrite Z.gtb_ltb, Z.ltb_ge in G. auto.
    + congruence.
  - unfold sm_del in H. rewrite KL in H. discriminate.
  - rewrite KL in H. discriminate.
Qed.

Definition unkilled (k : key) (ops : list op) : Prop := forallb (fun o => negb (kills k o)) ops = true.

Lemma sp_run_snoc s ops o : sp_run s (ops ++ [o]) = sp_step (sp_run s ops) o.
Proof. unfold sp_run. rewrite fold_left_app. reflexivity. Qed.

Lemma sp_provenance ops : forall s0 k e,
  sp_map (sp_run s0 ops) k = Some e ->
  (sp_map s0 k = Some e /\ unkilled k ops) \/
  exists ops1 v ops2,
    ops = ops1 ++ OPut k v :: ops2 /\ v_size v <> 0 /\
    k_size k + v_size v <= sp_limit (sp_run s0 ops1) /\
    e = mkEntry v (option_map (fun t => sp_now (sp_run s0 ops1) + t) (sp_ttl (sp_run s0 ops1))) /\
    unkilled k ops2.
Proof.
  induction ops as [|o ops IH] using rev_ind; intros s0 k e H.
  - left. split; auto. reflexivity.
  - rewrite sp_run_snoc in H. destruct (kills k o) eqn:KL.
    + right. destruct (sp_made _ _ _ _ KL H) as (v & -> & NZ & FIT & E).
      exists ops, v, []. repeat split; auto.
    + apply sp_keep in H; auto. destruct (IH _ _ _ H) as [[A B] | (ops1 & v & ops2 & -> & NZ & FIT & E & UK)].
      * left. split; auto. unfold unkilled in *. rewrite forallb_app, B. cbn. rewrite KL. reflexivity.
      * right. exists ops1, v, (ops2 ++ [o]). repeat split; auto.
        -- rewrite <- app_assoc. reflexivity.
        -- unfold unkilled in *. rewrite forallb_app, UK. cbn. rewrite KL. reflexivity.
Qed.

(* ------------------------------------------------------------------ a hit is explained by the history *)
Lemma get_some st k now st' v :
  NoDup (keys (s_q st)) -> c_get st k now = (st', Some v) ->
  exists e, lq_peek k (s_q st) = Some e /\ e_val e = v /\ expired e now = false.
Proof.
  intros N. rewrite c_get_unfold by auto. destruct (lq_peek k (s_q st)) as [e|]; [|discriminate].
  cbn zeta. destruct (expired e now) eqn:X; intros H; inversion H; subst. exists e; auto.
Qed.

Lemma get_complete st k now e :
  NoDup (keys (s_q st)) -> lq_peek k (s_q st) = Some e -> expired e now = false ->
  snd (c_get st k now) = Some (e_val e).
Proof. intros N P X. rewrite c_get_unfold by auto. rewrite P. cbn zeta. rewrite X. reflexivity. Qed.

Lemma run_app w a b : run w (a ++ b) = run (run w a) b.
Proof. unfold run. apply fold_left_app. Qed.

Lemma forall_app_l {A} (P : A -> Prop) a b : Forall P (a ++ b) -> Forall P a.
Proof. intros H. apply Forall_app in H. apply H. Qed.

Lemma start_inv limit ttl : 0 <= limit -> Inv (w_st (start limit ttl)).
Proof. apply init_inv. Qed.

Theorem hit_provenance limit ttl ops k v w' :
  0 <= limit -> Forall op_wf ops ->
  step (run (start limit ttl) ops) (OGet k) = (w', RVal (Some v)) ->
  exists ops1 ops2,
    ops = ops1 ++ OPut k v :: ops2 /\
    unkilled k ops2 /\
    let w1 := run (start limit ttl) ops1 in
    v_size v <> 0 /\ k_size k + v_size v <= s_limit (w_st w1) /\
    match s_ttl (w_st w1) with
    | Some t => w_now (run (start limit ttl) ops) <= w_now w1 + t
    | None => True
    end.
Proof.
  intros L W H.
  pose proof (run_inv ops (start limit ttl) (start_inv limit ttl L) W) as I.
  pose proof (run_sub ops _ _ (start_inv limit ttl L) W (start_sub limit ttl)) as (M & _ & _ & EN).
  cbn [step] in H. destruct (c_get _ k _) as [st' r] eqn:G. inversion H; subst.
  apply get_some in G; [|destruct I as [[N _ _ _] _]; auto].
  destruct G as (e & P & EV & X). apply M in P.
  apply sp_provenance in P. destruct P as [[A _] | (ops1 & v0 & ops2 & -> & NZ & FIT & E & UK)].
  { cbn in A. discriminate. }
  subst e. cbn [e_val] in EV. subst v0. exists ops1, ops2. split; auto. split; auto. cbn zeta.
  pose proof (run_sub ops1 _ _ (start_inv limit ttl L) (forall_app_l _ _ _ W) (start_sub limit ttl))
    as (_ & EL1 & ET1 & EN1).
  rewrite EL1, ET1, EN1. repeat split; auto.
  unfold expired in X. cbn [e_exp] in X.
  destruct (sp_ttl (sp_run (sp_start limit ttl) ops1)) as [t|]; cbn [option_map] in X; auto.
  rewrite Z.gtb_ltb, Z.ltb_ge in X. exact X.
Qed.

(* ------------------------------------------------------------------ an accepted put is retained *)
Lemma put_retained st k v now :
  Inv st -> 0 <= k_size k -> 0 <= v_size v -> v_size v <> 0 -> k_size k + v_size v <= s_limit st ->
  lq_peek k (s_q (fst (c_put st k v now))) = Some (mkEntry v (option_map (fun t => now + t) (s_ttl st))).
Proof.
  intros I K V NZ FIT. rewrite c_put_unfold.
  apply Z.eqb_neq in NZ. rewrite NZ.
  assert (G : (k_size k + v_size v >? s_limit st) = false) by (rewrite Z.gtb_ltb, Z.ltb_ge; auto).
  rewrite G. cbn zeta. cbn [fst].
  pose proof (put_pre st k v now I K V) as PP. cbn zeta in PP.
  destruct (evict_spec _ PP) as (pre & suf & A & B & C & D & E & F & MIN).
  rewrite B. cbn [s_q s_limit] in A, MIN.
  destruct pre as [|p pre].
  - cbn [app] in A. destruct MIN as [-> | (x & suf' & -> & M)]. discriminate.
    inversion A; subst x. cbn [app qsum] in M. unfold vsz in M. cbn [e_val] in M. lia.
  - cbn [app] in A. inversion A; subst p. cbn [lq_peek]. rewrite key_eqb_refl. reflexivity.
Qed.

Lemma put_then_get w k v :
  Inv (w_st w) -> 0 <= k_size k -> 0 <= v_size v -> v_size v <> 0 ->
  k_size k + v_size v <= s_limit (w_st w) ->
  match s_ttl (w_st w) with Some t => 0 <= t | None => True end ->
  snd (step (fst (step w (OPut k v))) (OGet k)) = RVal (Some v).
Proof.
  intros I K V NZ FIT T.
  pose proof (put_retained (w_st w) k v (w_now w) I K V NZ FIT) as P.
  pose proof (put_inv (w_st w) k v (w_now w) I K V) as I'.
  cbn [step]. destruct (c_put (w_st w) k v (w_now w)) as [st1 r1]. cbn [fst w_st w_now] in *.
  destruct I' as [[N _ _ _] _].
  pose proof (get_complete st1 k (w_now w) _ N P) as G.
  assert (X : expired (mkEntry v (option_map (fun t => w_now w + t) (s_ttl (w_st w)))) (w_now w) = false).
  { unfold expired. cbn [e_exp]. destruct (s_ttl (w_st w)); cbn [option_map]; auto.
    rewrite Z.gtb_ltb, Z.ltb_ge. lia. }
  specialize (G X). destruct (c_get st1 k (w_now w)). cbn [snd e_val] in *. subst. reflexivity.
Qed.

(* ------------------------------------------------------------------ validity rule + caller protocol *)
Lemma is_valid_for_iff v cur : is_valid_for v cur = true <-> v_meta v = cur.
Proof.
  unfold is_valid_for. destruct (v_meta v) as [a b c], cur as [a' b' c']. cbn.
  rewrite !andb_true_iff, !Z.eqb_eq. split.
  - intros [[-> ->] ->]. reflexivity.
  - intros H; inversion H; auto.
Qed.

Lemma lookup_cases w k cur fresh :
  let w1 := fst (step w (OGet k)) in
  (exists v, snd (step w (OGet k)) = RVal (Some v) /\ is_valid_for v cur = true /\
             lookup w k cur fresh = (w1, (true, v))) \/
  ((forall v, snd (step w (OGet k)) = RVal (Some v) -> is_valid_for v cur = false) /\
   lookup w k cur fresh = (fst (step w1 (OPut k fresh)), (false, fresh))).
Proof.
  cbn zeta. unfold lookup. destruct (step w (OGet k)) as [w1 r] eqn:S. cbn [fst snd].
  destruct r as [[v|]| |].
  - destruct (is_valid_for v cur) eqn:X.
    + left. exists v. auto.
    + right. split; auto. intros v' E. inversion E; subst; auto.
  - right. split; auto. intros v' E. discriminate.
  - right. split; auto. intros v' E. discriminate.
  - right. split; auto. intros v' E. discriminate.
Qed.

(* whatever the caller ends up using was computed for the file as it is now *)
Lemma lookup_current w k cur fresh w' hit r :
  lookup w k cur fresh = (w', (hit, r)) -> v_meta fresh = cur -> v_meta r = cur.
Proof.
  intros H F. destruct (lookup_cases w k cur fresh) as [(v & _ & X & E) | [_ E]]; rewrite E in H; inversion H; subst; auto.
  apply is_valid_for_iff; auto.
Qed.

Lemma lookup_hit w k cur fresh w' r :
  NoDup (keys (s_q (w_st w))) -> lookup w k cur fresh = (w', (true, r)) ->
  v_meta r = cur /\
  exists e, lq_peek k (s_q (w_st w)) = Some e /\ e_val e = r /\ expired e (w_now w) = false.
Proof.
  intros N H. destruct (lookup_cases w k cur fresh) as [(v & G & X & E) | [_ E]]; rewrite E in H; inversion H; subst.
  split. apply is_valid_for_iff; auto.
  cbn [step] in G. destruct (c_get (w_st w) k (w_now w)) as [st' o] eqn:CG. cbn [snd] in G. inversion G; subst.
  eapply get_some; eauto.
Qed.

(* a client history is the primitive history it performed *)
Lemma lookup_world w k cur fresh :
  fst (lookup w k cur fresh) =
  run w (if fst (snd (lookup w k cur fresh)) then [OGet k] else [OGet k; OPut k fresh]).
Proof.
  destruct (lookup_cases w k cur fresh) as [(v & _ & _ & E) | [_ E]]; rewrite E; reflexivity.
Qed.

Lemma crun_trace cs : forall w, crun w cs = run w (trace_of w cs).
Proof.
  induction cs as [|c cs IH]; intros w. reflexivity.
  destruct c as [o | k cur fresh]; cbn [crun fold_left trace_of cstep].
  - destruct (step w o) as [w1 r] eqn:S. cbn [fst]. change (fold_left _ cs w1) with (crun w1 cs).
    rewrite IH. cbn [run fold_left]. rewrite S. reflexivity.
  - pose proof (lookup_world w k cur fresh) as LW.
    destruct (lookup w k cur fresh) as [w1 [h r]] eqn:LK. cbn [fst snd] in *.
    change (fold_left _ cs w1) with (crun w1 cs). rewrite IH, run_app, <- LW. reflexivity.
Qed.

Lemma trace_wf cs : forall w,
  Forall cop_wf cs ->
  Forall op_wf (trace_of w cs).
Proof.
  induction cs as [|c cs IH]; intros w W; cbn [trace_of]. constructor.
  inversion W; subst. destruct c as [o | k cur fresh].
  - constructor; auto.
  - destruct (lookup w k cur fresh) as [w1 [h r]]. apply Forall_app. split; auto.
    destruct h.
    + constructor. exact I. constructor.
    + constructor. exact I. constructor. exact H1. constructor.
Qed.

(* ------------------------------------------------------------------ drop_table_entries *)
Lemma remove_all_other ks : forall st k, ~ In k ks -> lq_peek k (s_q (remove_all st ks)) = lq_peek k (s_q st).
Proof.
  induction ks; intros st k NI. reflexivity.
  rewrite remove_all_cons, IHks by (cbn in NI; tauto).
  unfold c_remove, lq_remove. destruct (lq_peek a (s_q st)); cbn [fst s_q]; auto.
  apply peek_del_other. cbn in NI. intros ->. tauto.
Qed.

Lemma drop_table_gone st t k :
  Inv st -> tab_matches t k = true -> lq_peek k (s_q (c_drop_table st t)) = None.
Proof.
  intros I T. destruct (lq_peek k (s_q (c_drop_table st t))) as [e|] eqn:P; auto.
  unfold c_drop_table in P. apply remove_all_peek in P; auto. destruct P as [NI P].
  exfalso. apply NI. apply filter_In. split; auto. eapply peek_in_keys; eauto.
Qed.

Lemma drop_table_frame st t k :
  tab_matches t k = false -> lq_peek k (s_q (c_drop_table st t)) = lq_peek k (s_q st).
Proof.
  intros T. unfold c_drop_table. apply remove_all_other. rewrite filter_In. intros [_ X]. congruence.
Qed.

(* the order in which drop_table_entries removes the collected keys (HashMap iteration order in the
   Rust) does not matter *)
Lemma lq_del_comm a b q : lq_del a (lq_del b q) = lq_del b (lq_del a q).
Proof.
  induction q as [|[k e] q IH]; cbn; auto.
  destruct (key_eqb k b) eqn:B, (key_eqb k a) eqn:A; cbn; rewrite ?A, ?B; auto.
  - apply key_eqb_eq in A, B. subst. reflexivity.
  - rewrite IH. reflexivity.
Qed.
Lemma h_del_comm a b h : h_del a (h_del b h) = h_del b (h_del a h).
Proof.
  induction h as [|[k n] h IH]; cbn; auto.
  destruct (key_eqb k b) eqn:B, (key_eqb k a) eqn:A; cbn; rewrite ?A, ?B; auto.
  rewrite IH. reflexivity.
Qed.

Lemma c_remove_comm st a b :
  fst (c_remove (fst (c_remove st a)) b) = fst (c_remove (fst (c_remove st b)) a).
Proof.
  keq a b. reflexivity.
  unfold c_remove, lq_remove.
  destruct (lq_peek a (s_q st)) as [ea|] eqn:PA, (lq_peek b (s_q st)) as [eb|] eqn:PB;
    cbn [fst s_q s_hits s_limit s_used s_ttl];
    rewrite ?(peek_del_other a b), ?(peek_del_other b a), ?PA, ?PB by congruence;
    cbn [fst s_q s_hits s_limit s_used s_ttl]; auto.
  f_equal. apply lq_del_comm. apply h_del_comm. lia.
Qed.

Lemma remove_all_perm ks ks' : Permutation ks ks' -> forall st, remove_all st ks = remove_all st ks'.
Proof.
  induction 1; intros st; auto.
  - rewrite !remove_all_cons. auto.
  - rewrite !remove_all_cons. rewrite c_remove_comm. reflexivity.
  - rewrite IHPermutation1. auto.
Qed.

(* ================================================================== statements used by Props/C40.v *)
Lemma budget_history limit ttl ops :
  0 <= limit -> Forall op_wf ops ->
  let st := w_st (run (start limit ttl) ops) in
  s_used st = qsum (s_q st) /\ 0 <= s_used st <= s_limit st /\ NoDup (keys (s_q st)).
Proof.
  intros L W st. pose proof (run_inv ops _ (start_inv limit ttl L) W) as [[N U LIM S] LE].
  fold st in N, U, LIM, S, LE. repeat split; auto. rewrite U. apply sizes_ok_qsum; auto.
Qed.

Lemma budget_client_history limit ttl cs :
  0 <= limit -> Forall cop_wf cs ->
  let st := w_st (crun (start limit ttl) cs) in
  s_used st = qsum (s_q st) /\ 0 <= s_used st <= s_limit st /\ NoDup (keys (s_q st)).
Proof.
  intros L W. rewrite crun_trace. apply budget_history; auto. apply trace_wf; auto.
Qed.

Lemma lru_order_history limit ttl ops :
  0 <= limit -> Forall op_wf ops ->
  let q := s_q (w_st (run (start limit ttl) ops)) in
  subseq (keys q) (recency ops) /\ NoDup (recency ops) /\
  keys q = filter (fun k => existsb (key_eqb k) (keys q)) (recency ops).
Proof.
  intros L W q.
  destruct (run_order ops (start limit ttl) [] (start_inv limit ttl L) W (NoDup_nil _) (subseq_nil _)) as [A B].
  split; auto. split; auto. apply subseq_nodup_filter; auto.
Qed.

Lemma evict_lru st :
  NoDup (keys (s_q st)) -> s_used st = qsum (s_q st) -> 0 <= s_limit st ->
  exists pre suf,
    s_q st = pre ++ suf /\ s_q (c_evict st) = pre /\ s_used (c_evict st) = qsum pre /\
    qsum pre <= s_limit st /\
    (suf = [] \/ exists x suf', suf = x :: suf' /\ s_limit st < qsum (pre ++ [x])).
Proof.
  intros N U L. destruct (evict_loop_spec (S (length (s_q st))) st) as (pre & suf & A & B & C & D & _ & _ & M); auto.
  exists pre, suf. unfold c_evict. repeat split; auto. rewrite <- C. auto.
Qed.

Lemma put_evicts_lru st k v now :
  Inv st -> 0 <= k_size k -> 0 <= v_size v -> v_size v <> 0 -> k_size k + v_size v <= s_limit st ->
  let e := mkEntry v (option_map (fun t => now + t) (s_ttl st)) in
  exists pre suf,
    lq_del k (s_q st) = pre ++ suf /\ s_q (fst (c_put st k v now)) = (k, e) :: pre /\
    (suf = [] \/ exists x suf', suf = x :: suf' /\ s_limit st < qsum ((k, e) :: pre ++ [x])).
Proof.
  intros I K V NZ FIT e. rewrite c_put_unfold.
  apply Z.eqb_neq in NZ. rewrite NZ.
  assert (G : (k_size k + v_size v >? s_limit st) = false) by (rewrite Z.gtb_ltb, Z.ltb_ge; auto).
  rewrite G. cbn zeta. cbn [fst].
  pose proof (put_pre st k v now I K V) as PP. cbn zeta in PP.
  destruct (evict_spec _ PP) as (pre & suf & A & B & C & D & E & F & MIN).
  rewrite B. cbn [s_q s_limit] in A, MIN.
  destruct pre as [|p pre].
  - cbn [app] in A. destruct MIN as [-> | (x & suf' & -> & M)]. discriminate.
    inversion A; subst x. cbn [app qsum] in M. unfold vsz in M. cbn [e_val] in M. lia.
  - cbn [app] in A. inversion A; subst p. exists pre, suf. split; auto.
Qed.

Lemma set_limit_evicts_lru st l :
  Inv st -> 0 <= l ->
  exists pre suf,
    s_q st = pre ++ suf /\ s_q (c_set_limit st l) = pre /\
    (suf = [] \/ exists x suf', suf = x :: suf' /\ l < qsum (pre ++ [x])).
Proof.
  intros [[N U L S] LE] H. unfold c_set_limit.
  destruct (evict_lru (mkState (s_q st) (s_hits st) l (s_used st) (s_ttl st))) as (pre & suf & A & B & _ & _ & M); auto.
  exists pre, suf. auto.
Qed.

Lemma refines_ideal_map limit ttl ops :
  0 <= limit -> Forall op_wf ops ->
  let w := run (start limit ttl) ops in
  let s := sp_run (sp_start limit ttl) ops in
  (forall k e, lq_peek k (s_q (w_st w)) = Some e -> sp_map s k = Some e) /\
  (forall k v w', step w (OGet k) = (w', RVal (Some v)) -> sp_get s k = Some v) /\
  (forall k w', step w (OContains k) = (w', RBool true) -> exists v, sp_get s k = Some v).
Proof.
  intros L W w s.
  pose proof (run_inv ops _ (start_inv limit ttl L) W) as [[N _ _ _] _]. fold w in N.
  pose proof (run_sub ops _ _ (start_inv limit ttl L) W (start_sub limit ttl)) as (M & _ & _ & EN).
  fold w in M, EN. fold s in M, EN.
  split; auto. split.
  - intros k v w' H. cbn [step] in H. destruct (c_get (w_st w) k (w_now w)) as [st' r] eqn:G.
    inversion H; subst. apply get_some in G; auto. destruct G as (e & P & <- & X).
    unfold sp_get. rewrite (M _ _ P), <- EN, X. reflexivity.
  - intros k w' H. cbn [step] in H. unfold c_contains in H.
    destruct (lq_peek k (s_q (w_st w))) as [e|] eqn:P; [|inversion H].
    destruct (expired e (w_now w)) eqn:X; inversion H.
    exists (e_val e). unfold sp_get. rewrite (M _ _ P), <- EN, X. reflexivity.
Qed.

Lemma live_entry_is_returned st k now e :
  NoDup (keys (s_q st)) -> lq_peek k (s_q st) = Some e -> expired e now = false ->
  snd (c_get st k now) = Some (e_val e).
Proof. exact (get_complete st k now e). Qed.

Lemma drop_table_effective st t :
  Inv st ->
  (forall k, tab_matches t k = true -> lq_peek k (s_q (c_drop_table st t)) = None) /\
  (forall k, tab_matches t k = false -> lq_peek k (s_q (c_drop_table st t)) = lq_peek k (s_q st)).
Proof.
  intros I. split; intros k T. apply drop_table_gone; auto. apply drop_table_frame; auto.
Qed.

Lemma client_history_is_primitive cs w : crun w cs = run w (trace_of w cs).
Proof. apply crun_trace. Qed.
