(* C29 -- proofs about the Precision algebra, with_fetch and the monitor. *)
From Coq Require Import ZArith List Bool Lia.
From DF Require Import Base.Prelude Model.PrecisionAlg.
Import ListNotations.
Open Scope Z_scope.

Lemma checked_some : forall r v, checked r = Some v -> v = r /\ 0 <= r <= USIZE_MAX.
Proof.
  unfold checked; intros r v H.
  destruct (0 <=? r) eqn:A; destruct (r <=? USIZE_MAX) eqn:B; cbn in H; try discriminate.
  injection H as <-. apply Z.leb_le in A. apply Z.leb_le in B. lia.
Qed.

Lemma checked_in_range : forall r, 0 <= r <= USIZE_MAX -> checked r = Some r.
Proof.
  unfold checked; intros r [A B]. apply Z.leb_le in A. apply Z.leb_le in B. now rewrite A, B.
Qed.

(* ---------------------------------------------------------------- arithmetic *)
(* a result is Exact ONLY IF both operands are Exact, and then it is the exact arithmetic result, in range *)
Theorem arith_exact_only_from_exact : forall f a b r,
  arith f a b = Exact r ->
  exists x y, a = Exact x /\ b = Exact y /\ r = f x y /\ 0 <= r <= USIZE_MAX.
Proof.
  intros f a b r H. destruct a as [x|x|]; destruct b as [y|y|]; cbn in H; try discriminate.
  destruct (checked (f x y)) as [v|] eqn:C; try discriminate.
  injection H as <-. apply checked_some in C. destruct C as [-> R].
  exists x, y. repeat split; try reflexivity; lia.
Qed.

Theorem arith_exact_complete : forall f x y,
  0 <= f x y <= USIZE_MAX -> arith f (Exact x) (Exact y) = Exact (f x y).
Proof. intros f x y R. cbn. now rewrite checked_in_range. Qed.

Theorem arith_overflow_downgrades : forall f x y,
  ~ (0 <= f x y <= USIZE_MAX) -> arith f (Exact x) (Exact y) = Inexact (saturate (f x y)).
Proof.
  intros f x y R. cbn. unfold checked.
  destruct (0 <=? f x y) eqn:A; destruct (f x y <=? USIZE_MAX) eqn:B; cbn; try reflexivity.
  apply Z.leb_le in A. apply Z.leb_le in B. lia.
Qed.

(* semantic form: true claims about two measured quantities give a true claim about their sum / difference / product *)
Theorem exact_add_sound : forall a b va vb,
  claim_true a va -> claim_true b vb -> claim_true (p_add a b) (va + vb).
Proof.
  intros a b va vb Ha Hb n H. apply arith_exact_only_from_exact in H.
  destruct H as (x & y & -> & -> & -> & _). rewrite (Ha x eq_refl), (Hb y eq_refl). reflexivity.
Qed.

Theorem exact_sub_sound : forall a b va vb,
  claim_true a va -> claim_true b vb -> claim_true (p_sub a b) (va - vb).
Proof.
  intros a b va vb Ha Hb n H. apply arith_exact_only_from_exact in H.
  destruct H as (x & y & -> & -> & -> & _). rewrite (Ha x eq_refl), (Hb y eq_refl). reflexivity.
Qed.

Theorem exact_mul_sound : forall a b va vb,
  claim_true a va -> claim_true b vb -> claim_true (p_mul a b) (va * vb).
Proof.
  intros a b va vb Ha Hb n H. apply arith_exact_only_from_exact in H.
  destruct H as (x & y & -> & -> & -> & _). rewrite (Ha x eq_refl), (Hb y eq_refl). reflexivity.
Qed.

Theorem pick_exact_only_from_exact : forall f a b r,
  pick f a b = Exact r -> exists x y, a = Exact x /\ b = Exact y /\ r = f x y.
Proof.
  intros f a b r H. destruct a as [x|x|]; destruct b as [y|y|]; cbn in H; try discriminate.
  injection H as <-. exists x, y. auto.
Qed.

Theorem exact_min_max_sound : forall a b va vb,
  claim_true a va -> claim_true b vb ->
  claim_true (p_min a b) (Z.min va vb) /\ claim_true (p_max a b) (Z.max va vb).
Proof.
  intros a b va vb Ha Hb. split; intros n H; apply pick_exact_only_from_exact in H;
    destruct H as (x & y & -> & -> & ->); rewrite (Ha x eq_refl), (Hb y eq_refl); reflexivity.
Qed.

Theorem to_inexact_never_exact : forall p, is_exact (to_inexact p) = false /\ get_value (to_inexact p) = get_value p.
Proof. intros [n|n|]; cbn; auto. Qed.

(* ---------------------------------------------------------------- with_fetch *)
Lemma zlen_skipn : forall {A} (l : list A) k, 0 <= k -> zlen (skipn (Z.to_nat k) l) = Z.max 0 (zlen l - k).
Proof.
  intros A l k Hk. unfold zlen. rewrite skipn_length. lia.
Qed.

Lemma zlen_firstn : forall {A} (l : list A) k, 0 <= k -> zlen (firstn (Z.to_nat k) l) = Z.min k (zlen l).
Proof.
  intros A l k Hk. unfold zlen. rewrite firstn_length. lia.
Qed.

Lemma zlen_limit : forall {A} (l : list A) skip fetch, 0 <= skip -> (forall f, fetch = Some f -> 0 <= f) ->
  zlen (limit skip fetch l) =
  match fetch with Some f => Z.min f (Z.max 0 (zlen l - skip)) | None => Z.max 0 (zlen l - skip) end.
Proof.
  intros A l skip fetch Hs Hf. unfold limit. destruct fetch as [f|].
  - rewrite zlen_firstn by (apply Hf; reflexivity). now rewrite zlen_skipn.
  - now apply zlen_skipn.
Qed.

(* If the input row count claim is true (Exact n means the input has exactly n rows), then the row count that
   with_fetch reports for ONE partition is true of the limited output: Exact m means exactly m rows come out.
   All four arithmetic branches, fetch absent or present, any skip. *)
Theorem with_fetch_sound : forall {A} (rows : list A) nr fetch skip,
  claim_true nr (zlen rows) -> zlen rows <= USIZE_MAX ->
  0 <= skip -> (forall f, fetch = Some f -> 0 <= f <= USIZE_MAX) ->
  claim_true (fst (with_fetch nr fetch skip 1)) (zlen (limit skip fetch rows)).
Proof.
  intros A rows nr fetch skip Hc Hmax Hs Hf m H.
  assert (Hf' : forall f, fetch = Some f -> 0 <= f) by (intros f E; specialize (Hf f E); lia).
  rewrite (zlen_limit rows skip fetch Hs Hf').
  assert (Hlen : 0 <= zlen rows) by (unfold zlen; lia).
  unfold with_fetch in H.
  destruct nr as [n|n|].
  - (* Exact n *)
    specialize (Hc n eq_refl). subst n.
    destruct fetch as [f|]; [specialize (Hf f eq_refl)|].
    + destruct (skip =? 0) eqn:S0; cbn [is_exact] in H;
      (destruct (zlen rows <=? skip) eqn:B1; [cbn in H; injection H as <-; apply Z.leb_le in B1; lia|]);
      apply Z.leb_gt in B1.
      * apply Z.eqb_eq in S0. subst skip.
        destruct (zlen rows <=? f) eqn:B2; cbn [andb fst] in H.
        -- injection H as <-. apply Z.leb_le in B2. lia.
        -- apply Z.leb_gt in B2. rewrite Z.sub_0_r in H.
           rewrite (proj2 (Z.leb_gt _ _) B2) in H. rewrite Z.mul_1_r in H.
           rewrite checked_in_range in H by lia. cbn in H. injection H as <-. lia.
      * rewrite andb_false_r in H.
        destruct (zlen rows - skip <=? f) eqn:B3; rewrite Z.mul_1_r in H.
        -- apply Z.leb_le in B3. rewrite checked_in_range in H by lia. cbn in H. injection H as <-. lia.
        -- apply Z.leb_gt in B3. rewrite checked_in_range in H by lia. cbn in H. injection H as <-. lia.
    + destruct (skip =? 0) eqn:S0.
      * cbn in H. injection H as <-. apply Z.eqb_eq in S0. lia.
      * cbn [is_exact] in H.
        destruct (zlen rows <=? skip) eqn:B1; [cbn in H; injection H as <-; apply Z.leb_le in B1; lia|].
        apply Z.leb_gt in B1. rewrite andb_false_r in H.
        destruct (zlen rows - skip <=? USIZE_MAX) eqn:B3; rewrite Z.mul_1_r in H.
        -- rewrite checked_in_range in H by lia. cbn in H. injection H as <-. lia.
        -- apply Z.leb_gt in B3. lia.
  - (* Inexact: never yields Exact *)
    exfalso. destruct fetch as [f|]; destruct (skip =? 0); cbn [is_exact] in H;
      try (cbn in H; discriminate);
      repeat match type of H with
             | context [if ?c then _ else _] => destruct c
             end; cbn in H;
      try discriminate;
      repeat match type of H with
             | context [checked ?x] => destruct (checked x)
             end; cbn in H; discriminate.
  - exfalso. destruct fetch as [f|]; destruct (skip =? 0); cbn in H; try discriminate;
      repeat match type of H with
             | context [checked ?x] => destruct (checked x)
             end; cbn in H; discriminate.
Qed.

(* When with_fetch hands the statistics back untouched (column statistics keep their exactness) on a TRUE Exact row
   count, the limit indeed keeps every row, so exact column statistics stay exact. *)
Theorem with_fetch_kept_sound : forall {A} (rows : list A) n fetch skip,
  n = zlen rows -> 0 <= skip -> (forall f, fetch = Some f -> 0 <= f) ->
  snd (with_fetch (Exact n) fetch skip 1) = true -> limit skip fetch rows = rows.
Proof.
  intros A rows n fetch skip -> Hs Hf H. unfold with_fetch in H. unfold limit.
  destruct fetch as [f|]; [specialize (Hf f eq_refl)|].
  - destruct (skip =? 0) eqn:S0.
    + apply Z.eqb_eq in S0. subst skip. cbn [is_exact] in H.
      destruct (zlen rows <=? 0) eqn:B1; [cbn in H; discriminate|].
      destruct (zlen rows <=? f) eqn:B2; cbn [andb snd] in H.
      * apply Z.leb_le in B2. cbn [Z.to_nat skipn]. apply firstn_all2. unfold zlen in B2. lia.
      * destruct (zlen rows - 0 <=? f); cbn in H; discriminate.
    + cbn [is_exact] in H. rewrite andb_false_r in H.
      destruct (zlen rows <=? skip); [cbn in H; discriminate|].
      destruct (zlen rows - skip <=? f); cbn in H; discriminate.
  - destruct (skip =? 0) eqn:S0.
    + apply Z.eqb_eq in S0. subst skip. reflexivity.
    + cbn [is_exact] in H. rewrite andb_false_r in H.
      destruct (zlen rows <=? skip); [cbn in H; discriminate|].
      destruct (zlen rows - skip <=? USIZE_MAX); cbn in H; discriminate.
Qed.

(* ... but on an INEXACT row count the same branch also hands the column statistics back untouched, although the limit
   may cut rows off: exact column statistics of the input are then reported as exact for a different output. *)
Theorem with_fetch_keeps_column_exactness_on_inexact_count :
  exists (rows : list Z) n fetch,
    snd (with_fetch (Inexact n) (Some fetch) 0 1) = true /\ limit 0 (Some fetch) rows <> rows.
Proof.
  exists [1; 2; 3; 4; 5], 2, 3. split; [reflexivity|]. cbv. discriminate.
Qed.

(* ---------------------------------------------------------------- monitor *)
Lemma claim_ok_iff : forall c, claim_ok c = true <-> claim_true (fst c) (snd c).
Proof.
  intros [p v]; unfold claim_ok, claim_true; cbn. destruct p as [n|n|].
  - rewrite Z.eqb_eq. split; [intros E m H; injection H as <-; exact E|intros H; apply H; reflexivity].
  - split; [intros _ m H; discriminate|reflexivity].
  - split; [intros _ m H; discriminate|reflexivity].
Qed.

Theorem monitor_sound : forall cs, monitor_ok cs = true <-> claims_exact cs.
Proof.
  intros cs. unfold monitor_ok, claims_exact. rewrite forallb_forall, Forall_forall.
  split; intros H c Hin; apply claim_ok_iff, H, Hin.
Qed.
