(* C26: FileGroupPartitioner::repartition_evenly_by_size cuts every source file into consecutive,
   non-empty, disjoint ranges that cover the file's effective range; grouping keeps every entry. *)
From Coq Require Import List ZArith Bool Lia.
From DF Require Import Base.Prelude Model.Boundary.
Import ListNotations.
Open Scope Z_scope.

Local Ltac Zify.zify_post_hook ::= Z.div_mod_to_equations.

Definition ent_file (en : entry) : Z := snd (fst (fst en)).
Definition ent_range (en : entry) : Z * Z := (snd (fst en), snd en).
Definition ent_drop (en : entry) : Z * Z * Z := (snd (fst (fst en)), snd (fst en), snd en).

Lemma split_one_spec : forall fuel tps fidx idx cur rs fe,
  0 <= cur < tps -> rs <= fe -> (Z.to_nat (fe - rs) < fuel)%nat ->
  exists l idx' cur',
    split_one fuel tps fidx idx cur rs fe = Some (l, (idx', cur')) /\
    0 <= cur' < tps /\
    chain rs fe (map ent_range l) /\
    Forall (fun en => ent_file en = fidx) l.
Proof.
  induction fuel as [|fuel IH]; intros tps fidx idx cur rs fe Hcur Hle Hfuel; [lia|].
  cbn [split_one]. destruct (Z.ltb_spec rs fe) as [Hlt|Hge].
  - destruct (Z.ltb_spec tps cur); [lia|].
    remember (Z.min (rs + (tps - cur)) fe) as re eqn:Ere.
    assert (Hre : rs < re <= fe) by lia.
    destruct (Z.leb_spec tps (cur + (re - rs))) as [Hfull|Hpart].
    + destruct (IH tps fidx (idx + 1) 0 re fe) as (l & idx' & cur' & E & Hc & Hch & Hf); try lia.
      rewrite E. exists ((idx, fidx, rs, re) :: l), idx', cur'.
      split; [reflexivity|]. split; [exact Hc|]. split.
      * cbn [map chain]. unfold ent_range at 1. cbn [fst snd]. repeat split; auto; lia.
      * constructor; auto.
    + destruct (IH tps fidx idx (cur + (re - rs)) re fe) as (l & idx' & cur' & E & Hc & Hch & Hf); try lia.
      rewrite E. exists ((idx, fidx, rs, re) :: l), idx', cur'.
      split; [reflexivity|]. split; [exact Hc|]. split.
      * cbn [map chain]. unfold ent_range at 1. cbn [fst snd]. repeat split; auto; lia.
      * constructor; auto.
  - exists [], idx, cur. split; [reflexivity|]. split; [exact Hcur|]. split.
    + cbn [map chain]. lia.
    + constructor.
Qed.

Lemma filter_all {A} (P : A -> bool) l : Forall (fun x => P x = true) l -> filter P l = l.
Proof. induction 1; cbn; auto. rewrite H. now f_equal. Qed.

Lemma filter_none {A} (P : A -> bool) l : Forall (fun x => P x = false) l -> filter P l = [].
Proof. induction 1; cbn; auto. now rewrite H. Qed.

Lemma split_files_spec : forall files tps fidx idx cur,
  0 <= cur < tps -> Forall (fun f => fst f <= snd f) files ->
  exists l,
    split_files tps fidx idx cur files = Some l /\
    (forall k f, nth_error files k = Some f ->
       chain (fst f) (snd f)
         (map ent_range (filter (fun en => ent_file en =? fidx + Z.of_nat k) l))) /\
    Forall (fun en => fidx <= ent_file en) l.
Proof.
  induction files as [|[rs fe] r IH]; intros tps fidx idx cur Hcur Hwf.
  - exists []. repeat split; auto. intros [|k] f H; discriminate.
  - inversion Hwf as [|? ? Hle Hwf']; subst. cbn [fst snd] in Hle. cbn [split_files].
    destruct (split_one_spec (S (Z.to_nat (fe - rs))) tps fidx idx cur rs fe)
      as (l1 & idx' & cur' & E1 & Hc' & Hch & Hf1); try lia.
    rewrite E1.
    destruct (IH tps (fidx + 1) idx' cur' Hc' Hwf') as (l2 & E2 & Hk & Hf2).
    rewrite E2. exists (l1 ++ l2). split; auto. split.
    + intros k f Hn. rewrite filter_app, map_app. destruct k as [|k]; cbn [nth_error] in Hn.
      * inversion Hn; subst. cbn [fst snd].
        rewrite (filter_all _ l1), (filter_none _ l2), app_nil_r; auto.
        -- eapply Forall_impl; [|exact Hf2]. cbn beta. intros en H. apply Z.eqb_neq. lia.
        -- eapply Forall_impl; [|exact Hf1]. cbn beta. intros en H. apply Z.eqb_eq. lia.
      * rewrite (filter_none _ l1).
        -- cbn [app]. specialize (Hk k f Hn).
           replace (fidx + Z.of_nat (S k)) with (fidx + 1 + Z.of_nat k) by lia. exact Hk.
        -- eapply Forall_impl; [|exact Hf1]. cbn beta. intros en H. apply Z.eqb_neq. lia.
    + apply Forall_app. split.
      * eapply Forall_impl; [|exact Hf1]. cbn beta. intros en H. lia.
      * eapply Forall_impl; [|exact Hf2]. cbn beta. intros en H. lia.
Qed.

(* `.chunk_by(partition index)` keeps every entry, in order *)
Lemma group_entries_flat es : concat (map snd (group_entries es)) = map ent_drop es.
Proof.
  induction es as [|[[[idx f] s] e] r IH]; auto.
  cbn [group_entries map]. unfold ent_drop at 1. cbn [fst snd].
  destruct (group_entries r) as [|[idx' g] gs].
  - cbn [map concat snd app] in *. now rewrite <- IH.
  - destruct (idx =? idx'); cbn [map concat snd app] in *; now rewrite <- IH.
Qed.

Lemma filter_map {A B} (f : A -> B) (P : B -> bool) l :
  filter P (map f l) = map f (filter (fun x => P (f x)) l).
Proof. induction l as [|x l IH]; cbn; auto. destruct (P (f x)); cbn; now rewrite IH. Qed.

Lemma total_size_nonneg files : Forall (fun f => fst f <= snd f) files -> 0 <= total_size files.
Proof. unfold total_size. induction 1; cbn [fold_right]; lia. Qed.

Theorem repartition_no_panic n min_size files :
  1 <= n -> Forall (fun f => fst f <= snd f) files ->
  repartition_evenly n min_size files <> SPanic.
Proof.
  intros Hn Hwf. unfold repartition_evenly, split_entries.
  pose proof (total_size_nonneg files Hwf) as Ht.
  destruct ((total_size files <? min_size) || (total_size files =? 0)) eqn:G; [discriminate|].
  apply orb_false_iff in G as [_ G]. apply Z.eqb_neq in G.
  destruct (Z.eqb_spec n 0); [lia|].
  destruct (split_files_spec files ((total_size files + n - 1) / n) 0 0 0) as (l & E & _); auto.
  - split; [lia|]. apply Z.div_str_pos. lia.
  - rewrite E. discriminate.
Qed.

Theorem repartition_ranges_chain n min_size files gs :
  1 <= n -> Forall (fun f => fst f <= snd f) files ->
  repartition_evenly n min_size files = SGroups gs ->
  forall k f, nth_error files k = Some f ->
    chain (fst f) (snd f)
      (map (fun x : Z * Z * Z => (snd (fst x), snd x))
           (filter (fun x : Z * Z * Z => fst (fst x) =? Z.of_nat k) (concat gs))).
Proof.
  intros Hn Hwf R k f Hk. unfold repartition_evenly, split_entries in R.
  pose proof (total_size_nonneg files Hwf) as Ht.
  destruct ((total_size files <? min_size) || (total_size files =? 0)) eqn:G; [discriminate|].
  apply orb_false_iff in G as [_ G]. apply Z.eqb_neq in G.
  destruct (Z.eqb_spec n 0); [lia|].
  destruct (split_files_spec files ((total_size files + n - 1) / n) 0 0 0) as (l & E & Hc & _); auto.
  - split; [lia|]. apply Z.div_str_pos. lia.
  - rewrite E in R. inversion R; subst gs. rewrite group_entries_flat, filter_map, map_map.
    specialize (Hc k f Hk). cbn [Z.add] in Hc. exact Hc.
Qed.
