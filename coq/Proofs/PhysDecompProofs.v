(* C02 -- proofs about the physical decomposition operators of Model/PhysDecomp.v: splits, filter / project,
   sorted merge, limits, partitioned hash join, UNION ALL.  (Aggregation is in Proofs/PhysDecompAgg.v.) *)
From Coq Require Import List ZArith Bool Lia Permutation Sorting.Sorted.
From DF Require Import Base.Prelude Model.RefSQL Proofs.RefSQLLaws Model.PhysDecomp.
Import ListNotations.
Open Scope Z_scope.

(* ------------------------------------------------------------------ generic list facts *)
Lemma perm_filter : forall {A} (f : A -> bool) l l', Permutation l l' -> Permutation (filter f l) (filter f l').
Proof.
  induction 1; simpl; auto.
  - destruct (f x); auto.
  - destruct (f x), (f y); auto. apply perm_swap.
  - etransitivity; eauto.
Qed.

Lemma concat_map_app_perm : forall {A I} (g h : I -> list A) s,
  Permutation (concat (map (fun i => g i ++ h i) s)) (concat (map g s) ++ concat (map h s)).
Proof.
  induction s as [|a s IH]; simpl; [constructor|].
  rewrite <- !app_assoc. apply Permutation_app_head.
  etransitivity; [apply Permutation_app_head; exact IH|].
  apply Permutation_app_swap_app.
Qed.

Lemma concat_single_at : forall {A} (x : A) k n s,
  concat (map (fun i => if Nat.eqb k i then [x] else []) (seq s n)) =
  if (Nat.leb s k && Nat.ltb k (s + n))%bool then [x] else [].
Proof.
  induction n as [|n IH]; intros s; simpl.
  - destruct (Nat.leb_spec s k), (Nat.ltb_spec k (s + 0)); simpl; auto; lia.
  - rewrite IH.
    destruct (Nat.eqb_spec k s), (Nat.leb_spec s k), (Nat.ltb_spec k (s + S n)), (Nat.leb_spec (S s) k), (Nat.ltb_spec k (S s + n));
      simpl; auto; lia.
Qed.

(* the classes of any function into [0, n) partition a list *)
Lemma classes_perm : forall {A} (f : A -> nat) n (l : list A),
  (forall x, In x l -> (f x < n)%nat) ->
  Permutation (concat (map (fun i => filter (fun x => Nat.eqb (f x) i) l) (seq 0 n))) l.
Proof.
  induction l as [|x l IH]; intros H.
  - simpl. induction (seq 0 n); simpl; auto.
  - etransitivity.
    + assert (E : map (fun i => filter (fun y => Nat.eqb (f y) i) (x :: l)) (seq 0 n) =
                  map (fun i => (if Nat.eqb (f x) i then [x] else []) ++ filter (fun y => Nat.eqb (f y) i) l) (seq 0 n)).
      { apply map_ext. intros i. simpl. destruct (Nat.eqb (f x) i); reflexivity. }
      rewrite E. apply concat_map_app_perm.
    + rewrite concat_single_at. assert (f x < n)%nat by (apply H; left; auto).
      destruct (Nat.leb_spec 0 (f x)), (Nat.ltb_spec (f x) (0 + n)); try lia. simpl.
      constructor. apply IH. intros; apply H; right; auto.
Qed.

Theorem hash_split_is_split : forall {A} (h : A -> nat) n (l : list A), n <> 0%nat -> is_split l (hash_split h n l).
Proof.
  intros. unfold is_split, hash_split, parts_of, hash_part.
  apply (classes_perm (fun x => Nat.modulo (h x) n)). intros. apply Nat.mod_upper_bound; auto.
Qed.

Theorem round_robin_is_split : forall {A} n (l : list A), n <> 0%nat -> is_split l (round_robin n l).
Proof.
  intros. unfold is_split, round_robin. rewrite <- concat_map.
  etransitivity; [apply Permutation_map; apply hash_split_is_split; auto|].
  rewrite map_snd_combine; auto. apply seq_length.
Qed.

Lemma chunks_f_concat : forall {A} fuel n (l : list A), (1 <= n)%nat -> (length l <= fuel)%nat -> concat (chunks_f fuel n l) = l.
Proof.
  induction fuel as [|f IH]; intros n l Hn Hl.
  - destruct l; simpl in *; [reflexivity | lia].
  - destruct l as [|a l]; [reflexivity|]. cbn [chunks_f concat].
    rewrite IH; auto; [apply firstn_skipn|]. rewrite skipn_length. cbn [length] in *. lia.
Qed.
Theorem chunks_is_split : forall {A} n (l : list A), concat (chunks n l) = l /\ is_split l (chunks n l).
Proof.
  intros. assert (E : concat (chunks n l) = l) by (apply chunks_f_concat; lia).
  split; auto. unfold is_split; rewrite E; reflexivity.
Qed.

(* two levels (partitions of batches) are a split as soon as each level is one *)
Theorem flatten2_split : forall {A} (l : list A) parts (pb : list (list (list A))),
  is_split l parts -> Forall2 (fun p b => is_split p b) parts pb -> Permutation (flatten2 pb) l.
Proof.
  intros A l parts pb H F. unfold flatten2. etransitivity; [|exact H]. clear H.
  induction F; simpl; [constructor|]. apply Permutation_app; auto.
Qed.

(* ------------------------------------------------------------------ filter / project *)
Theorem filter_distributes : forall (p : row -> bool) (parts : list rel) R,
  is_split R parts -> Permutation (concat (map (filter p) parts)) (filter p R).
Proof. intros. rewrite concat_filter_map. apply perm_filter; auto. Qed.

Theorem filter_distributes_batches : forall (p : row -> bool) (pb : list (list rel)),
  flatten2 (map (map (filter p)) pb) = filter p (flatten2 pb).
Proof.
  intros. unfold flatten2. rewrite <- concat_filter_map, !map_map. f_equal. apply map_ext. intros; apply concat_filter_map.
Qed.

Theorem project_distributes : forall (f : row -> row) (parts : list rel) R,
  is_split R parts -> Permutation (concat (map (map f) parts)) (map f R).
Proof. intros. rewrite <- concat_map. apply Permutation_map; auto. Qed.

Lemma mapM_app : forall {A B} (f : A -> res B) a b,
  mapM f (a ++ b) = (x <- mapM f a;; y <- mapM f b;; Ok (x ++ y)).
Proof.
  induction a as [|u a IH]; intros b; simpl.
  - destruct (mapM f b); reflexivity.
  - destruct (f u); simpl; auto. rewrite IH. destruct (mapM f a); simpl; auto. destruct (mapM f b); reflexivity.
Qed.
Lemma mapM_concat : forall {A B} (f : A -> res B) ls,
  mapM f (concat ls) = (xs <- mapM (mapM f) ls;; Ok (concat xs)).
Proof.
  induction ls as [|a ls IH]; simpl; auto. rewrite mapM_app, IH.
  destruct (mapM f a); simpl; auto. destruct (mapM (mapM f) ls); reflexivity.
Qed.

(* with RefSQL's error monad: per-partition evaluation returns exactly what the undivided evaluation returns,
   including which error is reported *)
Theorem filter_m_distributes : forall (p : row -> res tv) (parts : list rel),
  (ps <- filter_parts p parts;; Ok (concat ps)) = filter_m p (concat parts).
Proof.
  intros p. unfold filter_parts. induction parts as [|a parts IH]; [reflexivity|].
  cbn [mapM concat]. unfold filter_m at 3. rewrite mapM_app.
  unfold filter_m at 1. destruct (mapM p a) as [ya|] eqn:Ea; simpl; auto.
  unfold filter_m in IH at 2. destruct (mapM p (concat parts)); simpl in *.
  - destruct (mapM (filter_m p) parts); simpl in *; [|discriminate]. inversion IH. rewrite filter_app. congruence.
  - destruct (mapM (filter_m p) parts); simpl in *; [discriminate|auto].
Qed.
Theorem project_m_distributes : forall (f : row -> res row) (parts : list rel),
  (ps <- project_parts f parts;; Ok (concat ps)) = mapM f (concat parts).
Proof. intros. unfold project_parts. symmetry. apply mapM_concat. Qed.

Lemma mapM_all_ok : forall {A B} (f : A -> res B) l, (forall x, In x l -> exists y, f x = Ok y) -> exists ys, mapM f l = Ok ys.
Proof.
  induction l as [|a l IH]; intros H; simpl; [eauto|].
  destruct (H a) as [y Hy]; [left; auto|]. rewrite Hy; simpl.
  destruct IH as [ys E]; [intros; apply H; right; auto|]. rewrite E; simpl; eauto.
Qed.
(* ... and for an arbitrary split (any arrival order): the same bag, and failure exactly when the reference fails *)
Theorem filter_m_split : forall (p : row -> res tv) (parts : list rel) R R',
  is_split R parts -> filter_m p R = Ok R' ->
  exists ps, filter_parts p parts = Ok ps /\ Permutation (concat ps) R'.
Proof.
  intros p parts R R' S H. unfold filter_m in H.
  destruct (mapM p R) as [ys|] eqn:E; simpl in H; [|discriminate]. inversion H; subst; clear H.
  pose proof (filter_m_distributes p parts) as D. unfold filter_m in D.
  destruct (mapM_all_ok p (concat parts)) as [zs Z].
  { intros x Hx. eapply mapM_ok_all; eauto. eapply Permutation_in; eauto. }
  rewrite Z in D. simpl in D. destruct (filter_parts p parts) as [ps|]; simpl in D; [|discriminate].
  exists ps; split; auto. inversion D as [D1]. rewrite D1. apply perm_filter; auto.
Qed.

(* ------------------------------------------------------------------ UNION ALL *)
Theorem union_all_partitions : forall (Lp Rp : list rel) L R,
  is_split L Lp -> is_split R Rp -> is_split (set_op SUnion true L R) (Lp ++ Rp).
Proof. intros. unfold is_split in *. cbn [set_op]. rewrite concat_app. apply Permutation_app; auto. Qed.

(* ------------------------------------------------------------------ sorted merge *)
Section MergeLaws.
  Context {A : Type} (leb : A -> A -> bool).
  Hypothesis leb_total : forall a b, leb a b = false -> leb b a = true.
  Let le := fun a b => leb a b = true.

  Lemma merge2_nil_r : forall a, merge2 leb a [] = a.
  Proof. destruct a; reflexivity. Qed.

  Lemma merge2_perm : forall a b, Permutation (merge2 leb a b) (a ++ b).
  Proof.
    induction a as [|x a IHa]; intros b; [destruct b; reflexivity|].
    induction b as [|y b IHb]; [rewrite app_nil_r; reflexivity|].
    cbn [merge2]. destruct (leb x y).
    - simpl. constructor. apply IHa.
    - etransitivity; [apply perm_skip; exact IHb|]. simpl.
      change (Permutation ([y] ++ x :: a ++ b) (x :: a ++ [y] ++ b)).
      etransitivity; [|apply perm_skip; apply Permutation_app_swap_app]. simpl. apply perm_swap.
  Qed.

  Lemma merge2_HdRel : forall z a b, HdRel le z a -> HdRel le z b -> HdRel le z (merge2 leb a b).
  Proof.
    intros z a b Ha Hb. destruct a as [|x a]; [destruct b; auto|]. destruct b as [|y b]; [auto|].
    cbn [merge2]. destruct (leb x y); constructor; [inversion Ha | inversion Hb]; auto.
  Qed.

  Lemma merge2_Sorted : forall a b, Sorted le a -> Sorted le b -> Sorted le (merge2 leb a b).
  Proof.
    induction a as [|x a IHa]; intros b Sa Sb; [destruct b; auto|].
    induction b as [|y b IHb]; [auto|].
    cbn [merge2]. destruct (leb x y) eqn:E.
    - inversion Sa; subst. constructor; [apply IHa; auto|].
      apply merge2_HdRel; auto; constructor; exact E.
    - inversion Sb; subst. constructor; [apply IHb; auto|].
      change (HdRel le y (merge2 leb (x :: a) b)). apply merge2_HdRel; auto;
      constructor; apply leb_total; auto.
  Qed.

  Lemma kmerge_perm : forall runs, Permutation (kmerge leb runs) (concat runs).
  Proof.
    induction runs; simpl; [constructor|]. etransitivity; [apply merge2_perm|]. apply Permutation_app_head; auto.
  Qed.
  Lemma kmerge_Sorted : forall runs, Forall (Sorted le) runs -> Sorted le (kmerge leb runs).
  Proof. induction 1; simpl; [constructor|]. apply merge2_Sorted; auto. Qed.

  (* per-partition sort + sort-preserving merge returns a sorted permutation of the whole input, for any split *)
  Theorem sort_merge_sorted_perm : forall parts l,
    is_split l parts -> Permutation (sort_merge leb parts) l /\ Sorted le (sort_merge leb parts).
  Proof.
    intros parts l S. unfold sort_merge. split.
    - etransitivity; [apply kmerge_perm|]. etransitivity; [|exact S].
      clear S. induction parts; simpl; [constructor|]. apply Permutation_app; auto. apply isort_perm.
    - apply kmerge_Sorted. apply Forall_forall. intros r Hr. apply in_map_iff in Hr. destruct Hr as [p [<- _]].
      apply isort_Sorted; auto.
  Qed.

  (* the first n rows of a merge depend only on the first n rows of each run (no sortedness needed) *)
  Lemma merge2_firstn_gen : forall n i j a b, (n <= i)%nat -> (n <= j)%nat ->
    firstn n (merge2 leb (firstn i a) (firstn j b)) = firstn n (merge2 leb a b).
  Proof.
    induction n as [|n IH]; intros i j a b Hi Hj; [reflexivity|].
    destruct i as [|i]; [lia|]. destruct j as [|j]; [lia|].
    destruct a as [|x a].
    - cbn [firstn]. destruct b as [|y b]; [reflexivity|]. cbn [firstn merge2].
      f_equal. rewrite firstn_firstn. f_equal. lia.
    - destruct b as [|y b].
      + cbn [firstn]. rewrite !merge2_nil_r. cbn [firstn]. f_equal. rewrite firstn_firstn. f_equal; lia.
      + cbn [firstn merge2]. destruct (leb x y).
        * cbn [firstn]. f_equal. change (y :: firstn j b) with (firstn (S j) (y :: b)). apply IH; lia.
        * cbn [firstn]. f_equal.
          change (firstn n (merge2 leb (firstn (S i) (x :: a)) (firstn j b)) = firstn n (merge2 leb (x :: a) b)).
          apply IH; lia.
  Qed.
  Lemma merge2_firstn : forall n a b,
    firstn n (merge2 leb (firstn n a) (firstn n b)) = firstn n (merge2 leb a b).
  Proof. intros; apply merge2_firstn_gen; lia. Qed.

  Theorem kmerge_local_global_limit : forall n runs,
    firstn n (kmerge leb (map (firstn n) runs)) = firstn n (kmerge leb runs).
  Proof.
    induction runs as [|r runs IH]; [reflexivity|]. cbn [map kmerge fold_right].
    fold (kmerge leb (map (firstn n) runs)). fold (kmerge leb runs).
    rewrite <- merge2_firstn, firstn_firstn, Nat.min_id, IH, merge2_firstn. reflexivity.
  Qed.

  (* TopK per partition + merge with fetch = the first n rows of the fully sorted, merged whole *)
  Theorem topk_merge_is_prefix : forall n parts,
    topk_merge leb n parts = firstn n (sort_merge leb parts).
  Proof.
    intros. unfold topk_merge, sort_merge. rewrite <- (kmerge_local_global_limit n (map (isort leb) parts)), map_map. reflexivity.
  Qed.
End MergeLaws.

(* ------------------------------------------------------------------ LIMIT without ORDER BY *)
Lemma firstn_app_firstn : forall {A} n (a b : list A), firstn n (firstn n a ++ b) = firstn n (a ++ b).
Proof.
  induction n; intros; [reflexivity|]. destruct a; simpl; [reflexivity|]. f_equal; auto.
Qed.
Lemma firstn_app_firstn_r : forall {A} n (a b : list A), firstn n (a ++ firstn n b) = firstn n (a ++ b).
Proof.
  intros. rewrite !firstn_app. f_equal. rewrite firstn_firstn. f_equal. lia.
Qed.
Theorem concat_local_global_limit : forall {A} n (parts : list (list A)),
  firstn n (concat (map (firstn n) parts)) = firstn n (concat parts).
Proof.
  induction parts as [|p parts IH]; [reflexivity|]. simpl.
  rewrite firstn_app_firstn, <- firstn_app_firstn_r, IH, firstn_app_firstn_r. reflexivity.
Qed.

(* local limit (skip + fetch) on every partition, then the global limit = the reference LIMIT / OFFSET of the
   coalesced partitions *)
Theorem limit_local_global_ok : forall off n (parts : list rel),
  limit_local_global off n parts = limit_offset off (Some n) (concat parts).
Proof.
  intros. unfold limit_local_global, limit_offset.
  rewrite !firstn_skipn_comm. f_equal.
  rewrite (Nat.add_comm (Z.to_nat off)). replace (Z.to_nat n + Z.to_nat off)%nat with (Z.to_nat off + Z.to_nat n)%nat by lia.
  apply concat_local_global_limit.
Qed.

(* ------------------------------------------------------------------ partitioned hash join *)
Lemma concat_all_nil : forall {A I} (F : I -> list A) s, (forall j, In j s -> F j = []) -> concat (map F s) = [].
Proof. induction s; simpl; intros H; auto. rewrite H, IHs; auto. Qed.
Lemma concat_only : forall {A} (F : nat -> list A) s i,
  NoDup s -> In i s -> (forall j, In j s -> j <> i -> F j = []) -> concat (map F s) = F i.
Proof.
  induction s as [|a s IH]; intros i N Hi H; [destruct Hi|]. inversion N; subst. simpl. destruct Hi as [->|Hi].
  - rewrite concat_all_nil, app_nil_r; auto. intros j Hj. apply H; [right; auto | intros ->; auto].
  - rewrite (H a); [|left; auto | intros ->; auto]. simpl. apply IH; auto. intros j Hj Hn. apply H; [right; auto | auto].
Qed.

Lemma flat_map_ext_In : forall {A B} (f g : A -> list B) l, (forall x, In x l -> f x = g x) -> flat_map f l = flat_map g l.
Proof. induction l; simpl; intros H; auto. rewrite H, IHl; auto. Qed.
Lemma inner_join_concat_l : forall on (Lps : list rel) R,
  inner_join on (concat Lps) R = concat (map (fun p => inner_join on p R) Lps).
Proof.
  intros. unfold inner_join. induction Lps; [reflexivity|]. cbn [concat map]. rewrite flat_map_app. f_equal. exact IHLps.
Qed.
Lemma inner_join_perm_l : forall on L L' R, Permutation L L' -> Permutation (inner_join on L R) (inner_join on L' R).
Proof. intros. unfold inner_join. apply Permutation_flat_map; auto. Qed.
Lemma inner_join_perm_r : forall on L R R', Permutation R R' -> Permutation (inner_join on L R) (inner_join on L R').
Proof.
  intros on L R R' P. unfold inner_join. induction L; simpl; [constructor|].
  apply Permutation_app; auto. apply Permutation_map. apply perm_filter; auto.
Qed.

(* For an equi-join ([on l r] implies equal join keys; NULL keys never match, extra conjuncts are allowed): if
   both sides are partitioned by ANY function [assign] of the join key, the partition-wise joins together return
   the bag the undivided join returns.  [Lp i] / [Rp i] are arbitrary (any order inside a partition). *)
Theorem hash_join_partitioned : forall {K} (on : row -> row -> bool) (kl kr : row -> K) (assign : K -> nat)
    (Lp Rp : nat -> rel) n L R,
  (forall l r, on l r = true -> kl l = kr r) ->
  is_split L (parts_of Lp n) -> is_split R (parts_of Rp n) ->
  key_respecting kl assign Lp n -> key_respecting kr assign Rp n ->
  Permutation (join_parts on Lp Rp n) (inner_join on L R).
Proof.
  intros K on kl kr assign Lp Rp n L R Heq SL SR KL KR. unfold join_parts, is_split, parts_of in *.
  etransitivity; [|apply inner_join_perm_l; exact SL].
  etransitivity; [|apply inner_join_perm_r; exact SR].
  rewrite inner_join_concat_l, map_map.
  assert (E : map (fun i => inner_join on (Lp i) (Rp i)) (seq 0 n) =
              map (fun i => inner_join on (Lp i) (concat (map Rp (seq 0 n)))) (seq 0 n)).
  { apply map_ext_in. intros i Hi. apply in_seq in Hi. unfold inner_join. apply flat_map_ext_In. intros l Hl.
    f_equal. rewrite <- concat_filter_map, map_map.
    symmetry. apply (concat_only (fun j => filter (on l) (Rp j))); [apply seq_NoDup | apply in_seq; lia |].
    intros j Hj Hne. apply in_seq in Hj.
    destruct (filter (on l) (Rp j)) as [|r rs] eqn:F; auto. exfalso.
    assert (Hr : In r (filter (on l) (Rp j))) by (rewrite F; left; auto).
    apply filter_In in Hr. destruct Hr as [Hr Ho].
    apply Hne. rewrite <- (KR j r), <- (KL i l); try lia; auto. f_equal. symmetry; auto. }
  rewrite E. reflexivity.
Qed.

(* the concrete instance: both sides hash-partitioned on the key by the same hash function and partition count *)
Theorem hash_join_hash_split : forall {K} (on : row -> row -> bool) (kl kr : row -> K) (h : K -> nat) n L R,
  n <> 0%nat -> (forall l r, on l r = true -> kl l = kr r) ->
  Permutation (join_parts on (hash_part (fun l => h (kl l)) n L) (hash_part (fun r => h (kr r)) n R) n) (inner_join on L R).
Proof.
  intros K on kl kr h n L R Hn Heq.
  apply (hash_join_partitioned on kl kr (fun k => Nat.modulo (h k) n)); auto.
  - apply (hash_split_is_split (fun l => h (kl l))); auto.
  - apply (hash_split_is_split (fun r => h (kr r))); auto.
  - intros i x Hi Hx. apply filter_In in Hx. destruct Hx as [_ Hx]. apply Nat.eqb_eq in Hx; auto.
  - intros i x Hi Hx. apply filter_In in Hx. destruct Hx as [_ Hx]. apply Nat.eqb_eq in Hx; auto.
Qed.

(* ------------------------------------------------------------------ the tie: runs that agree with the reference agree with each other *)
Theorem agreeing_runs_same_bag : forall (R o1 o2 : rel), bag_eqb o1 R = true -> bag_eqb o2 R = true -> Permutation o1 o2.
Proof. intros R o1 o2 H1 H2. apply bag_eqb_iff in H1, H2. etransitivity; [exact H1 | symmetry; exact H2]. Qed.

Lemma keyseq_eqb_length : forall ds a b, keyseq_eqb ds a b = true -> length a = length b.
Proof.
  induction a as [|x a IH]; destruct b as [|y b]; simpl; intros H; try discriminate; auto.
  destruct (keys_cmp ds x y); try discriminate. f_equal; auto.
Qed.
