(* C22 -- proofs about Model/Pruning.v: pruning never skips a container that has a matching row. *)
From Coq Require Import Lia.
From DF Require Import Base.Prelude Model.Pruning.
Open Scope Z_scope.

(* ------------------------------------------------------------------ three-valued logic *)
Lemma and3_false : forall a b, and3 a b = Some false -> a = Some false \/ b = Some false.
Proof. intros [[|]|] [[|]|]; cbn; intros; auto; discriminate. Qed.

Lemma and3_true : forall a b, and3 a b = Some true -> a = Some true /\ b = Some true.
Proof. intros [[|]|] [[|]|]; cbn; intros; auto; discriminate. Qed.

Lemma or3_false : forall a b, or3 a b = Some false -> a = Some false /\ b = Some false.
Proof. intros [[|]|] [[|]|]; cbn; intros; auto; discriminate. Qed.

Lemma or3_true : forall a b, or3 a b = Some true -> a = Some true \/ b = Some true.
Proof. intros [[|]|] [[|]|]; cbn; intros; auto; discriminate. Qed.

Lemma or3_true_l : forall b, or3 (Some true) b = Some true.
Proof. intros [[|]|]; reflexivity. Qed.

Lemma or3_true_r : forall a, or3 a (Some true) = Some true.
Proof. intros [[|]|]; reflexivity. Qed.

(* the constant folding of the AND / OR arms does not change the value *)
Lemma is_true_spec : forall e, is_true e = true -> e = STrue.
Proof. intros [[[|]|]| | | | | | | |]; cbn; intros; try discriminate; reflexivity. Qed.

Lemma is_false_spec : forall e, is_false e = true -> e = SFalse.
Proof. intros [[[|]|]| | | | | | | |]; cbn; intros; try discriminate; reflexivity. Qed.

Lemma mk_and_eval : forall st l r, seval st (mk_and l r) = and3 (seval st l) (seval st r).
Proof.
  intros st l r. unfold mk_and.
  destruct (is_false l) eqn:Fl.
  { apply is_false_spec in Fl. subst. cbn. reflexivity. }
  destruct (is_false r) eqn:Fr.
  { apply is_false_spec in Fr. subst. cbn. destruct (seval st l) as [[|]|]; reflexivity. }
  cbn [orb].
  destruct (is_true l) eqn:Tl.
  { apply is_true_spec in Tl. subst. cbn. destruct (seval st r) as [[|]|]; reflexivity. }
  destruct (is_true r) eqn:Tr.
  { apply is_true_spec in Tr. subst. cbn. destruct (seval st l) as [[|]|]; reflexivity. }
  reflexivity.
Qed.

Lemma mk_or_eval : forall st l r, seval st (mk_or l r) = or3 (seval st l) (seval st r).
Proof.
  intros st l r. unfold mk_or.
  destruct (is_true l) eqn:Tl.
  { apply is_true_spec in Tl. subst. cbn. reflexivity. }
  destruct (is_true r) eqn:Tr.
  { apply is_true_spec in Tr. subst. cbn. destruct (seval st l) as [[|]|]; reflexivity. }
  cbn [orb].
  destruct (is_false l) eqn:Fl.
  { apply is_false_spec in Fl. subst. cbn. destruct (seval st r) as [[|]|]; reflexivity. }
  destruct (is_false r) eqn:Fr.
  { apply is_false_spec in Fr. subst. cbn. destruct (seval st l) as [[|]|]; reflexivity. }
  reflexivity.
Qed.

(* ------------------------------------------------------------------ counting NULLs *)
Lemma filter_len_le : forall A (f : A -> bool) l, (length (filter f l) <= length l)%nat.
Proof. induction l as [|a l IH]; cbn; [lia|]. destruct (f a); cbn; lia. Qed.

Lemma count_nulls_le : forall rows cr, (count_nulls rows cr <= length rows)%nat.
Proof. intros. unfold count_nulls. apply filter_len_le. Qed.

Lemma count_nulls_pos : forall rows cr r,
  In r rows -> is_null_at r cr = true -> (1 <= count_nulls rows cr)%nat.
Proof.
  intros rows cr r Hin Hn. unfold count_nulls.
  assert (In r (filter (fun r => is_null_at r cr) rows)) as H by (apply filter_In; auto).
  destruct (filter (fun r => is_null_at r cr) rows); [destruct H | cbn; lia].
Qed.

Lemma count_nulls_lt : forall rows cr r,
  In r rows -> is_null_at r cr = false -> (count_nulls rows cr < length rows)%nat.
Proof.
  unfold count_nulls. induction rows as [|a rows IH]; intros cr r Hin Hn; [destruct Hin|].
  cbn [filter length]. destruct Hin as [->|Hin].
  - rewrite Hn. pose proof (filter_len_le _ (fun r => is_null_at r cr) rows). lia.
  - specialize (IH cr r Hin Hn). destruct (is_null_at a cr); cbn [length]; lia.
Qed.

(* what validity says about one row of the container *)
Lemma valid_has_non_nulls : forall rows st cr r,
  valid_stats rows st -> In r rows -> is_null_at r cr = false ->
  seval st (has_non_nulls cr) <> Some false.
Proof.
  intros rows st cr r V Hin Hn. cbn.
  destruct (null_count st cr) as [k|] eqn:Ek; [|cbn; discriminate].
  destruct (src st) as [n|] eqn:En; [|cbn; discriminate].
  apply (v_nc _ _ V) in Ek. apply (v_rc _ _ V) in En.
  pose proof (count_nulls_lt rows cr r Hin Hn).
  cbn. destruct (Z.eqb_spec k n); cbn; [lia | discriminate].
Qed.

Lemma valid_has_nulls : forall rows st cr r,
  valid_stats rows st -> In r rows -> is_null_at r cr = true ->
  seval st (has_nulls cr) <> Some false.
Proof.
  intros rows st cr r V Hin Hn. cbn.
  destruct (null_count st cr) as [k|] eqn:Ek; [|cbn; discriminate].
  apply (v_nc _ _ V) in Ek.
  pose proof (count_nulls_pos rows cr r Hin Hn).
  cbn. destruct (Z.ltb_spec 0 k); cbn; [discriminate | lia].
Qed.

(* ------------------------------------------------------------------ comparisons: one lemma per operator *)
Ltac zb :=
  repeat match goal with
         | |- context [?a =? ?b] => destruct (Z.eqb_spec a b)
         | |- context [?a <=? ?b] => destruct (Z.leb_spec a b)
         | |- context [?a <? ?b] => destruct (Z.ltb_spec a b)
         | H : context [?a =? ?b] |- _ => destruct (Z.eqb_spec a b)
         | H : context [?a <=? ?b] |- _ => destruct (Z.leb_spec a b)
         | H : context [?a <? ?b] |- _ => destruct (Z.ltb_spec a b)
         end.

Ltac inst :=
  repeat match goal with
         | H : forall m, Some ?v = Some m -> _ |- _ => specialize (H _ eq_refl)
         | H : forall m, None = Some m -> _ |- _ => clear H
         end.

(* A row holds the non-null value x in column c: the statistics predicate for `c o l`
   cannot be FALSE when `x o l` is TRUE.  Hmin/Hmax/Hnn are what validity gives for that row. *)
Lemma rw_cmp_sound_value : forall st o c l x,
  (forall m, imin (ist st c) = Some m -> m <= x) ->
  (forall m, imax (ist st c) = Some m -> x <= m) ->
  seval st (has_non_nulls (CI c)) <> Some false ->
  cmp3 o (Some x) l = Some true ->
  seval st (rw_cmp o c l) <> Some false.
Proof.
  intros st o c l x Hmin Hmax Hnn Hc.
  cbn in Hnn.
  destruct o; cbn in *;
    destruct (imin (ist st c)) as [mn|]; destruct (imax (ist st c)) as [mx|];
    destruct (inc (ist st c)) as [k|]; destruct (src st) as [n|];
    destruct l as [y|]; cbn in *; inst; try discriminate;
    zb; cbn in *; try discriminate; try congruence; try lia.
Qed.

(* A row is NULL in column c: only IS [NOT] DISTINCT FROM can be TRUE on it. *)
Lemma rw_cmp_sound_null : forall st o c l,
  seval st (has_nulls (CI c)) <> Some false ->
  cmp3 o None l = Some true ->
  seval st (rw_cmp o c l) <> Some false.
Proof.
  intros st o c l Hn Hc.
  cbn in Hn.
  destruct o; cbn in *; try discriminate;
    destruct (imin (ist st c)) as [mn|]; destruct (imax (ist st c)) as [mx|];
    destruct (inc (ist st c)) as [k|]; destruct (src st) as [n|];
    destruct l as [y|]; cbn in *; try discriminate;
    zb; cbn in *; try discriminate; try congruence; try lia.
Qed.

Lemma rw_cmp_sound : forall rows st o c l r,
  valid_stats rows st -> In r rows ->
  cmp3 o (geti r c) l = Some true ->
  seval st (rw_cmp o c l) <> Some false.
Proof.
  intros rows st o c l r V Hin Hc.
  destruct (geti r c) as [x|] eqn:Ex.
  - apply rw_cmp_sound_value with (x := x); auto.
    + intros m Hm. exact (v_imin _ _ V c m Hm r x Hin Ex).
    + intros m Hm. exact (v_imax _ _ V c m Hm r x Hin Ex).
    + apply valid_has_non_nulls with (rows := rows) (r := r); auto. cbn. rewrite Ex. reflexivity.
  - apply rw_cmp_sound_null; auto.
    apply valid_has_nulls with (rows := rows) (r := r); auto. cbn. rewrite Ex. reflexivity.
Qed.

(* literal op column is column (swap op) literal *)
Lemma cmp3_swap : forall o a b, cmp3 o a b = cmp3 (swap o) b a.
Proof.
  intros o [x|] [y|]; destruct o; cbn; try reflexivity;
    rewrite ?(Z.eqb_sym x y); reflexivity.
Qed.

(* ------------------------------------------------------------------ Boolean columns *)
Lemma bcol_sound : forall rows st c r,
  valid_stats rows st -> In r rows -> getb r c = Some true ->
  seval st (SOr (SBMin c) (SBMax c)) <> Some false.
Proof.
  intros rows st c r V Hin Hb H. cbn in H. apply or3_false in H. destruct H as [_ Hmax].
  pose proof (v_bmax _ _ V c false Hmax r true Hin Hb) as L. cbn in L. discriminate.
Qed.

Lemma not_bcol_sound : forall rows st c r,
  valid_stats rows st -> In r rows -> getb r c = Some false ->
  seval st (SNot (SAnd (SBMin c) (SBMax c))) <> Some false.
Proof.
  intros rows st c r V Hin Hb H. cbn in H.
  destruct (and3 (bmin (bst st c)) (bmax (bst st c))) as [[|]|] eqn:E; cbn in H; try discriminate.
  apply and3_true in E. destruct E as [Hmin _].
  pose proof (v_bmin _ _ V c true Hmin r false Hin Hb) as L. cbn in L. discriminate.
Qed.

(* ------------------------------------------------------------------ IN lists *)
(* the rewrite of an IN list is the rewrite of the OR / AND chain the code builds from it *)
Lemma rw_chain_fold : forall c (neg : bool) (r : list (option Z)) (acc : pred),
  fold_left (fun acc l' => if neg then mk_and acc (rw_cmp ONe c l') else mk_or acc (rw_cmp OEq c l')) r (rewrite acc)
  = rewrite (fold_left (fun acc l' => if neg then PAnd acc (PCmp ONe c l') else POr acc (PCmp OEq c l')) r acc).
Proof.
  intros c neg r. induction r as [|a r IH]; intros acc; [reflexivity|].
  cbn [fold_left]. destruct neg; rewrite <- IH; reflexivity.
Qed.

Lemma rw_in_chain : forall c ls neg,
  (1 <= length ls <= MAX_IN_LIST_SIZE)%nat ->
  exists q, in_chain c ls neg = Some q /\ rw_in c ls neg = rewrite q.
Proof.
  intros c ls neg Hlen. destruct ls as [|l r]; [cbn in Hlen; lia|].
  unfold in_chain, rw_in.
  destruct (Nat.leb_spec (length (l :: r)) MAX_IN_LIST_SIZE) as [_|Hgt]; [|lia].
  eexists. split; [reflexivity|].
  pose proof (rw_chain_fold c neg r) as G.
  specialize (G (PCmp (if neg then ONe else OEq) c l)). cbn [rewrite] in G. exact G.
Qed.

(* value of the rewritten chain *)
Lemma rw_in_pos_eval : forall st c r acc,
  seval st (fold_left (fun acc l' => mk_or acc (rw_cmp OEq c l')) r acc) = Some false ->
  seval st acc = Some false /\ forall l, In l r -> seval st (rw_cmp OEq c l) = Some false.
Proof.
  induction r as [|a r IH]; intros acc H; cbn [fold_left] in H.
  - split; [exact H | intros l []].
  - apply IH in H. destruct H as [H1 H2]. rewrite mk_or_eval in H1. apply or3_false in H1.
    destruct H1 as [Ha Hb]. split; [exact Ha|]. intros l [<-|Hl]; auto.
Qed.

Lemma rw_in_neg_eval : forall st c r acc,
  seval st (fold_left (fun acc l' => mk_and acc (rw_cmp ONe c l')) r acc) = Some false ->
  seval st acc = Some false \/ exists l, In l r /\ seval st (rw_cmp ONe c l) = Some false.
Proof.
  induction r as [|a r IH]; intros acc H; cbn [fold_left] in H.
  - left. exact H.
  - apply IH in H. destruct H as [H|[l [Hl H]]].
    + rewrite mk_and_eval in H. apply and3_false in H. destruct H as [H|H]; [left; exact H|].
      right. exists a. split; [left; reflexivity | exact H].
    + right. exists l. split; [right; exact Hl | exact H].
Qed.

Lemma in3_true : forall v ls, in3 v ls = Some true -> exists x, v = Some x /\ In (Some x) ls.
Proof.
  intros [x|] ls H; cbn in H; [|discriminate]. exists x. split; [reflexivity|].
  destruct (existsb _ ls) eqn:E.
  - apply existsb_exists in E. destruct E as [[y|] [Hy Hxy]]; [|discriminate].
    apply Z.eqb_eq in Hxy. subst. exact Hy.
  - destruct (existsb isnone ls); discriminate.
Qed.

Lemma in3_false : forall v ls, in3 v ls = Some false ->
  exists x, v = Some x /\ forall l, In l ls -> exists y, l = Some y /\ x <> y.
Proof.
  intros [x|] ls H; cbn in H; [|discriminate]. exists x. split; [reflexivity|].
  destruct (existsb _ ls) eqn:E; [discriminate|].
  destruct (existsb isnone ls) eqn:E2; [discriminate|].
  intros l Hl. destruct l as [y|].
  - exists y. split; [reflexivity|]. intros ->.
    assert (existsb (fun l => match l with Some y0 => y =? y0 | None => false end) ls = true) as C.
    { apply existsb_exists. exists (Some y). split; [exact Hl | apply Z.eqb_refl]. }
    congruence.
  - assert (existsb isnone ls = true) as C by (apply existsb_exists; exists None; auto). congruence.
Qed.

Lemma rw_in_sound : forall rows st c ls neg r,
  valid_stats rows st -> In r rows ->
  eval r (PIn c ls neg) = Some true ->
  seval st (rw_in c ls neg) <> Some false.
Proof.
  intros rows st c ls neg r V Hin He Hs.
  destruct ls as [|l0 ls']; [cbn in Hs; discriminate|].
  unfold rw_in in Hs.
  destruct (length (l0 :: ls') <=? MAX_IN_LIST_SIZE)%nat; [|cbn in Hs; discriminate].
  cbn [eval] in He. destruct neg.
  - (* NOT IN: every c != l must be TRUE on the row *)
    destruct (in3 (geti r c) (l0 :: ls')) as [[|]|] eqn:E; cbn in He; try discriminate.
    apply in3_false in E. destruct E as [x [Ex Hall]].
    assert (forall l, In l (l0 :: ls') -> seval st (rw_cmp ONe c l) <> Some false) as G.
    { intros l Hl. destruct (Hall l Hl) as [y [-> Hxy]].
      apply rw_cmp_sound with (rows := rows) (r := r); auto.
      rewrite Ex. cbn. destruct (Z.eqb_spec x y); [contradiction | reflexivity]. }
    apply rw_in_neg_eval in Hs. destruct Hs as [Hs|[l [Hl Hs]]].
    + exact (G l0 (or_introl eq_refl) Hs).
    + exact (G l (or_intror Hl) Hs).
  - (* IN: some c = l is TRUE on the row *)
    apply in3_true in He. destruct He as [x [Ex Hl]].
    assert (seval st (rw_cmp OEq c (Some x)) <> Some false) as G.
    { apply rw_cmp_sound with (rows := rows) (r := r); auto.
      rewrite Ex. cbn. rewrite Z.eqb_refl. reflexivity. }
    apply rw_in_pos_eval in Hs. destruct Hs as [H0 Hr].
    destruct Hl as [E0|Hl]; [subst l0; exact (G H0) | exact (G (Hr _ Hl))].
Qed.

(* the chain predicate is TRUE on a row whenever the IN predicate is (so rewriting the chain,
   as the code does, is a rewrite of the IN predicate) *)
Lemma or_chain_true : forall r c ls acc,
  eval r acc = Some true \/ (exists l, In l ls /\ cmp3 OEq (geti r c) l = Some true) ->
  eval r (fold_left (fun acc l' => POr acc (PCmp OEq c l')) ls acc) = Some true.
Proof.
  induction ls as [|a ls IH]; intros acc H; cbn [fold_left].
  - destruct H as [H|[l [[] _]]]. exact H.
  - apply IH. destruct H as [H|[l [[<-|Hl] Hc]]].
    + left. cbn [eval]. rewrite H. apply or3_true_l.
    + left. cbn [eval]. rewrite Hc. apply or3_true_r.
    + right. exists l. auto.
Qed.

Lemma and_chain_true : forall r c ls acc,
  eval r acc = Some true -> (forall l, In l ls -> cmp3 ONe (geti r c) l = Some true) ->
  eval r (fold_left (fun acc l' => PAnd acc (PCmp ONe c l')) ls acc) = Some true.
Proof.
  induction ls as [|a ls IH]; intros acc H Hall; cbn [fold_left]; [exact H|].
  apply IH.
  - cbn [eval]. rewrite H, (Hall a (or_introl eq_refl)). reflexivity.
  - intros l Hl. apply Hall. right. exact Hl.
Qed.

Lemma in_chain_true : forall r c ls neg q,
  in_chain c ls neg = Some q -> eval r (PIn c ls neg) = Some true -> eval r q = Some true.
Proof.
  intros r c ls neg q Hq He. destruct ls as [|l0 ls]; [discriminate|].
  cbn in Hq. injection Hq as <-. cbn [eval] in He. destruct neg.
  - destruct (in3 (geti r c) (l0 :: ls)) as [[|]|] eqn:E; cbn in He; try discriminate.
    apply in3_false in E. destruct E as [x [Ex Hall]].
    assert (forall l, In l (l0 :: ls) -> cmp3 ONe (geti r c) l = Some true) as G.
    { intros l Hl. destruct (Hall l Hl) as [y [-> Hxy]]. rewrite Ex. cbn.
      destruct (Z.eqb_spec x y); [contradiction | reflexivity]. }
    apply and_chain_true.
    + cbn [eval]. apply G. left. reflexivity.
    + intros l Hl. apply G. right. exact Hl.
  - apply in3_true in He. destruct He as [x [Ex Hl]].
    assert (cmp3 OEq (geti r c) (Some x) = Some true) as G by (rewrite Ex; cbn; rewrite Z.eqb_refl; reflexivity).
    apply or_chain_true. destruct Hl as [E0|Hl].
    + left. subst l0. exact G.
    + right. exists (Some x). auto.
Qed.

(* ------------------------------------------------------------------ the main theorem *)
Lemma rewrite_sound : forall p rows st r,
  valid_stats rows st -> In r rows ->
  eval r p = Some true -> seval st (rewrite p) <> Some false.
Proof.
  induction p as [b|c|p IH|cr|cr|o c l|o l c|p IHp q IHq|p IHp q IHq|c ls neg];
    intros rows st r V Hin He.
  - (* literal *) cbn in He. subst b. cbn. discriminate.
  - (* Boolean column *) cbn in He. cbn [rewrite]. apply bcol_sound with (rows := rows) (r := r); auto.
  - (* NOT *)
    destruct p; cbn [rewrite]; try (cbn; discriminate).
    cbn in He. destruct (getb r c) as [[|]|] eqn:Eb; cbn in He; try discriminate.
    apply not_bcol_sound with (rows := rows) (r := r); auto.
  - (* IS NULL *) cbn in He. injection He as He. cbn [rewrite].
    apply valid_has_nulls with (rows := rows) (r := r); auto.
  - (* IS NOT NULL *) cbn in He. injection He as He. cbn [rewrite].
    apply valid_has_non_nulls with (rows := rows) (r := r); auto.
    destruct (is_null_at r cr); [discriminate | reflexivity].
  - (* column op literal *) cbn [rewrite]. cbn in He. apply rw_cmp_sound with (rows := rows) (r := r); auto.
  - (* literal op column *) cbn [rewrite]. cbn in He. rewrite cmp3_swap in He.
    apply rw_cmp_sound with (rows := rows) (r := r); auto.
  - (* AND *) cbn [rewrite]. rewrite mk_and_eval. cbn in He. apply and3_true in He. destruct He as [Hp Hq].
    intros H. apply and3_false in H. destruct H as [H|H].
    + exact (IHp rows st r V Hin Hp H).
    + exact (IHq rows st r V Hin Hq H).
  - (* OR *) cbn [rewrite]. rewrite mk_or_eval. cbn in He. apply or3_true in He.
    intros H. apply or3_false in H. destruct H as [H1 H2]. destruct He as [Hp|Hq].
    + exact (IHp rows st r V Hin Hp H1).
    + exact (IHq rows st r V Hin Hq H2).
  - (* IN list *) cbn [rewrite]. apply rw_in_sound with (rows := rows) (r := r); auto.
Qed.

Theorem prune_sound : forall p rows st,
  valid_stats rows st -> prune st p = false ->
  forall r, In r rows -> eval r p <> Some true.
Proof.
  intros p rows st V Hp r Hin He. unfold prune in Hp.
  destruct (seval st (rewrite p)) as [[|]|] eqn:E; try discriminate.
  exact (rewrite_sound p rows st r V Hin He E).
Qed.

(* unknown statistics never prune by themselves: with no statistic known only a literal FALSE
   (or a conjunction/disjunction folding to it) is skipped *)
Definition no_stats : stats := {| si := []; sb := []; src := None |}.

Lemma valid_no_stats : forall rows, valid_stats rows no_stats.
Proof.
  intros rows. constructor; intros.
  - discriminate.
  - destruct cr as [[|c]|[|c]]; discriminate.
  - destruct c; discriminate.
  - destruct c; discriminate.
  - destruct c; discriminate.
  - destruct c; discriminate.
Qed.

(* ------------------------------------------------------------------ the decidable validity check is sound *)
Lemma forallb_idx_nth : forall A (f : nat -> A -> bool) l i d c,
  forallb_idx f i l = true -> (c < length l)%nat -> f (i + c)%nat (nth c l d) = true.
Proof.
  induction l as [|x l IH]; intros i d c H Hc; [cbn in Hc; lia|].
  cbn in H. apply andb_prop in H. destruct H as [Hx Hl].
  destruct c as [|c]; cbn [nth].
  - rewrite Nat.add_0_r. exact Hx.
  - replace (i + S c)%nat with (S i + c)%nat by lia. apply IH; [exact Hl | cbn in Hc; lia].
Qed.

Lemma valid_statsb_sound : forall rows st, valid_statsb rows st = true -> valid_stats rows st.
Proof.
  intros rows st H. unfold valid_statsb in H.
  apply andb_prop in H. destruct H as [H Hb]. apply andb_prop in H. destruct H as [Hrc Hi].
  assert (Ii : forall c, valid_icolb rows c (ist st c) = true).
  { intros c. unfold ist. destruct (Nat.lt_ge_cases c (length (si st))) as [L|L].
    - apply (forallb_idx_nth _ _ _ 0%nat unk_i c Hi L).
    - rewrite nth_overflow by exact L. reflexivity. }
  assert (Ib : forall c, valid_bcolb rows c (bst st c) = true).
  { intros c. unfold bst. destruct (Nat.lt_ge_cases c (length (sb st))) as [L|L].
    - apply (forallb_idx_nth _ _ _ 0%nat unk_b c Hb L).
    - rewrite nth_overflow by exact L. reflexivity. }
  constructor.
  - intros n En. rewrite En in Hrc. apply Z.eqb_eq. exact Hrc.
  - intros [c|c] k Ek; cbn in Ek.
    + specialize (Ii c). unfold valid_icolb in Ii. rewrite Ek in Ii.
      apply andb_prop in Ii. destruct Ii as [_ Ii]. apply Z.eqb_eq. exact Ii.
    + specialize (Ib c). unfold valid_bcolb in Ib. rewrite Ek in Ib.
      apply andb_prop in Ib. destruct Ib as [_ Ib]. apply Z.eqb_eq. exact Ib.
  - intros c m Em r x Hin Ex. specialize (Ii c). unfold valid_icolb in Ii. rewrite Em in Ii.
    apply andb_prop in Ii. destruct Ii as [Ii _]. apply andb_prop in Ii. destruct Ii as [Ii _].
    rewrite forallb_forall in Ii. specialize (Ii r Hin). rewrite Ex in Ii. apply Z.leb_le. exact Ii.
  - intros c m Em r x Hin Ex. specialize (Ii c). unfold valid_icolb in Ii. rewrite Em in Ii.
    apply andb_prop in Ii. destruct Ii as [Ii _]. apply andb_prop in Ii. destruct Ii as [_ Ii].
    rewrite forallb_forall in Ii. specialize (Ii r Hin). rewrite Ex in Ii. apply Z.leb_le. exact Ii.
  - intros c m Em r x Hin Ex. specialize (Ib c). unfold valid_bcolb in Ib. rewrite Em in Ib.
    apply andb_prop in Ib. destruct Ib as [Ib _]. apply andb_prop in Ib. destruct Ib as [Ib _].
    rewrite forallb_forall in Ib. specialize (Ib r Hin). rewrite Ex in Ib.
    destruct m, x; cbn in *; auto; discriminate.
  - intros c m Em r x Hin Ex. specialize (Ib c). unfold valid_bcolb in Ib. rewrite Em in Ib.
    apply andb_prop in Ib. destruct Ib as [Ib _]. apply andb_prop in Ib. destruct Ib as [_ Ib].
    rewrite forallb_forall in Ib. specialize (Ib r Hin). rewrite Ex in Ib.
    destruct m, x; cbn in *; auto; discriminate.
Qed.
