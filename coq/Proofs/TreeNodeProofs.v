(* C42 -- proofs about Model/TreeNode.v (unbounded: induction over trees / child lists). *)
From Coq Require Import List ZArith Bool Lia Btauto.
From DF Require Import Base.Prelude Model.TreeNode.
Import ListNotations.
Open Scope Z_scope.

(* ------------------------------------------------------------------ induction principle for rose trees *)
Section TreeInd.
  Variable P : tree -> Prop.
  Hypothesis HNode : forall l cs, Forall P cs -> P (Node l cs).
  Fixpoint tree_induction (t : tree) : P t :=
    match t with
    | Node l cs =>
        HNode l cs ((fix go (cs : list tree) : Forall P cs :=
                       match cs with
                       | [] => Forall_nil P
                       | c :: r => Forall_cons c (tree_induction c) (go r)
                       end) cs)
    end.
End TreeInd.

(* ------------------------------------------------------------------ the log monad *)
Lemma bind_ret_l {A B} (a : A) (k : A -> M B) : bind (ret a) k = k a.
Proof. unfold bind, ret. destruct (k a). reflexivity. Qed.
Lemma bind_pair {A B} (lg : list event) (a : A) (k : A -> M B) :
  bind (lg, a) k = (lg ++ fst (k a), snd (k a)).
Proof. unfold bind. destruct (k a). reflexivity. Qed.
Lemma surj {A} (m : M A) : m = (fst m, snd m).
Proof. destruct m; reflexivity. Qed.

(* ================================================================== 1. the Fixpoints are the Rust expressions *)
(* fn apply_impl: f(node)?.visit_children(|| node.apply_children(|c| apply_impl(c, f))) *)
Lemma apply_rust_eq f t :
  apply f t = bind (vcall PDown f t) (fun r => visit_children r (fun _ => apply_children (apply f) t)).
Proof. destruct t; reflexivity. Qed.

(* fn visit: visitor.f_down(self)?.visit_children(|| self.apply_children(|c| c.visit(visitor)))?
                    .visit_parent(|| visitor.f_up(self)) *)
Lemma visit_rust_eq fd fu t :
  visit fd fu t =
  bind (vcall PDown fd t) (fun r =>
  bind (visit_children r (fun _ => apply_children (visit fd fu) t)) (fun rc =>
  visit_parent rc (fun _ => vcall PUp fu t))).
Proof. destruct t; reflexivity. Qed.

(* fn transform_down_impl: f(node)?.transform_children(|n| n.map_children(|c| transform_down_impl(c, f))) *)
Lemma transform_down_rust_eq im f t :
  transform_down im f t =
  bind (rcall PDown f t) (fun t1 => transform_children t1 (map_children im (transform_down im f))).
Proof. destruct t as [l cs]. cbn. destruct (f l) as [[l' ch] r]. destruct r; reflexivity. Qed.

(* fn transform_up_impl: node.map_children(|c| transform_up_impl(c, f))?.transform_parent(f) *)
Lemma transform_up_rust_eq im f t :
  transform_up im f t =
  bind (map_children im (transform_up im f) t) (fun t1 => transform_parent t1 (rcall PUp f)).
Proof. destruct t; reflexivity. Qed.

(* handle_transform_recursion!(f_down(node), recurse, f_up) *)
Lemma transform_down_up_rust_eq im fd fu t :
  transform_down_up im fd fu t =
  bind (rcall PDown fd t) (fun t1 =>
  bind (transform_children t1 (map_children im (transform_down_up im fd fu))) (fun t2 =>
  transform_parent t2 (rcall PUp fu))).
Proof. destruct t as [l cs]. cbn. destruct (fd l) as [[l' ch] r]. destruct r; reflexivity. Qed.

(* ================================================================== 2. apply / exists *)
Lemma downs_app a b : downs (a ++ b) = downs a ++ downs b.
Proof. apply map_app. Qed.
Lemma has_stop_app f a b : has_stop f (a ++ b) = has_stop f a || has_stop f b.
Proof. apply existsb_app. Qed.
Lemma upto_stop_app f a b :
  upto_stop f (a ++ b) = if has_stop f a then upto_stop f a else a ++ upto_stop f b.
Proof.
  induction a as [|x a IH]; [reflexivity|].
  cbn [app upto_stop has_stop existsb]. fold (has_stop f a). rewrite IH.
  destruct (f x); cbn [is_stop orb]; try reflexivity; destruct (has_stop f a); reflexivity.
Qed.

Definition apply_spec_of (f : vcb) (l : list Z) : M tnr :=
  (downs (upto_stop f l), if has_stop f l then Stop else Continue).

Lemma apply_children_spec f cs :
  Forall (fun c => apply f c = apply_spec_of f (pruned f c)) cs ->
  apply_until_stop_from (apply f) Continue cs = apply_spec_of f (flat_map (pruned f) cs).
Proof.
  induction 1 as [|c r Hc Hr IH]; [reflexivity|].
  cbn [apply_until_stop_from flat_map]. rewrite Hc. unfold apply_spec_of at 1.
  rewrite bind_pair. unfold apply_spec_of.
  rewrite upto_stop_app, has_stop_app.
  destruct (has_stop f (pruned f c)) eqn:E.
  - cbn. rewrite app_nil_r. reflexivity.
  - cbn [orb]. fold (apply_until_stop_from (apply f)). rewrite IH. unfold apply_spec_of. cbn [fst snd].
    rewrite downs_app.
    assert (upto_stop f (pruned f c) = pruned f c) as ->.
    { pose proof (upto_stop_app f (pruned f c) []) as H0. rewrite E, !app_nil_r in H0. exact H0. }
    reflexivity.
Qed.

(* apply visits exactly: the pre-order list, pruned below every Jump/Stop node, cut after the first Stop;
   it returns Stop iff a Stop was met and Continue otherwise (never Jump). *)
Theorem apply_contract f t :
  apply f t = (downs (upto_stop f (pruned f t)), if has_stop f (pruned f t) then Stop else Continue).
Proof.
  change (apply f t = apply_spec_of f (pruned f t)).
  induction t as [l cs IH] using tree_induction.
  cbn [apply pruned]. rewrite bind_pair. unfold apply_spec_of.
  cbn [upto_stop has_stop existsb downs map].
  destruct (f l) eqn:E; cbn [visit_children is_stop orb].
  - unfold apply_until_stop. rewrite (apply_children_spec f cs IH). reflexivity.
  - reflexivity.
  - reflexivity.
Qed.

Lemma pruned_all_continue f t : (forall l, f l = Continue) -> pruned f t = preorder t.
Proof.
  intro H. induction t as [l cs IH] using tree_induction. cbn. rewrite H. f_equal.
  induction IH as [|c r Hc _ IHr]; [reflexivity|]. cbn. rewrite Hc, IHr. reflexivity.
Qed.
Lemma upto_stop_none f l : has_stop f l = false -> upto_stop f l = l.
Proof.
  intro H. pose proof (upto_stop_app f l []) as H0. rewrite H, !app_nil_r in H0. exact H0.
Qed.
Lemma has_stop_all_continue f l : (forall x, f x = Continue) -> has_stop f l = false.
Proof. intro H. induction l; [reflexivity|]. cbn. rewrite H. exact IHl. Qed.

(* with an always-Continue callback apply visits every node, in pre-order *)
Theorem apply_preorder f t :
  (forall l, f l = Continue) -> apply f t = (downs (preorder t), Continue).
Proof.
  intro H. rewrite apply_contract, (pruned_all_continue f t H).
  rewrite (has_stop_all_continue f _ H), upto_stop_none by (apply has_stop_all_continue; exact H).
  reflexivity.
Qed.

(* exists *)
Definition hitf (p : Z -> bool) : vcb := fun l => if p l then Stop else Continue.
Lemma upto_first_app p a b :
  upto_first p (a ++ b) = if existsb p a then upto_first p a else a ++ upto_first p b.
Proof.
  induction a as [|x a IH]; [reflexivity|]. cbn. rewrite IH.
  destruct (p x); [reflexivity|]. cbn. destruct (existsb p a); reflexivity.
Qed.
Lemma hit_stop p l : has_stop (hitf p) l = existsb p l.
Proof. induction l; [reflexivity|]. cbn. unfold hitf at 1. destruct (p a); cbn; [reflexivity|exact IHl]. Qed.
Lemma hit_upto p l : upto_stop (hitf p) l = upto_first p l.
Proof. induction l; [reflexivity|]. cbn. unfold hitf at 1. destruct (p a); cbn; [reflexivity|]. rewrite IHl. reflexivity. Qed.
Lemma hit_pruned p t :
  upto_first p (pruned (hitf p) t) = upto_first p (preorder t) /\
  existsb p (pruned (hitf p) t) = existsb p (preorder t).
Proof.
  induction t as [l cs IH] using tree_induction. cbn. unfold hitf at 1 3. destruct (p l) eqn:E; cbn.
  - split; reflexivity.
  - assert (upto_first p (flat_map (pruned (hitf p)) cs) = upto_first p (flat_map preorder cs) /\
            existsb p (flat_map (pruned (hitf p)) cs) = existsb p (flat_map preorder cs)) as [H1 H2].
    { induction IH as [|c r [Hc1 Hc2] _ [IH1 IH2]]; [split; reflexivity|]. cbn.
      rewrite !upto_first_app, !existsb_app, Hc1, Hc2, IH1, IH2.
      split; [|reflexivity].
      destruct (existsb p (preorder c)) eqn:E2; [reflexivity|].
      f_equal.
      (* no hit in c: nothing is pruned in c *)
      clear -E2. revert E2. induction c as [l cs IH] using tree_induction. cbn. unfold hitf at 1.
      destruct (p l); cbn; [discriminate|]. intro H. f_equal.
      induction IH as [|c r Hc _ IHr]; [reflexivity|]. cbn in *. rewrite existsb_app in H.
      apply orb_false_iff in H as [Ha Hb]. rewrite (Hc Ha), (IHr Hb). reflexivity. }
    rewrite H1, H2. split; reflexivity.
Qed.
Lemma existsb_upto_first p l : existsb p (upto_first p l) = existsb p l.
Proof.
  induction l; [reflexivity|]. cbn [upto_first]. destruct (p a) eqn:E; cbn [existsb]; rewrite E; cbn [orb];
    [reflexivity|exact IHl].
Qed.

Lemma existsb_downs p l : existsb (fun e : event => p (snd e)) (downs l) = existsb p l.
Proof. induction l; [reflexivity|]. cbn [downs map existsb snd]. fold (downs l). rewrite IHl. reflexivity. Qed.

(* exists(p) = "some node satisfies p"; p is evaluated in pre-order and never after the first hit *)
Theorem exists_contract p t :
  exists_ p t = (downs (upto_first p (preorder t)), existsb p (preorder t)).
Proof.
  unfold exists_. change (fun l => if p l then Stop else Continue) with (hitf p).
  rewrite apply_contract. rewrite hit_upto. destruct (hit_pruned p t) as [H1 H2]. rewrite H1.
  f_equal. rewrite existsb_downs. apply existsb_upto_first.
Qed.

(* ------------------------------------------------------------------ normal forms of the model's clauses *)
Lemma tp_unfold fu l' cs' c r :
  transform_parent (mkT (Node l' cs') c r) (rcall PUp fu) =
  match r with
  | Continue => let '(l'', ch2, r2) := fu l' in ([(PUp, l')], mkT (Node l'' cs') (ch2 || c) r2)
  | _ => ([], mkT (Node l' cs') c r)
  end.
Proof.
  destruct r; try reflexivity.
  unfold transform_parent, or_flag, rcall, bind, ret. cbn [rec data changed].
  destruct (fu l') as [[l'' ch2] r2]. reflexivity.
Qed.

Lemma mco_vec_unfold kk l cs :
  map_children_on IVec kk l cs =
  let (lc, rc) := map_until_stop_from kk Continue false cs in
  (lc, mkT (Node l (data rc)) (changed rc) (rec rc)).
Proof.
  unfold map_children_on, map_until_stop_and_collect, bind, ret.
  destruct (map_until_stop_from kk Continue false cs) as [lc rc]. rewrite app_nil_r. reflexivity.
Qed.

Lemma tdu_unfold im fd fu l cs :
  transform_down_up im fd fu (Node l cs) =
  let '(l', ch, r) := fd l in
  match r with
  | Continue =>
      let (lc, rc) := map_children_on im (transform_down_up im fd fu) l' cs in
      let (lu, ru) := transform_parent (mkT (data rc) (changed rc || ch) (rec rc)) (rcall PUp fu) in
      ((PDown, l) :: lc ++ lu, ru)
  | Jump =>
      let (lu, ru) := transform_parent (mkT (Node l' cs) ch Continue) (rcall PUp fu) in
      ((PDown, l) :: lu, ru)
  | Stop => ([(PDown, l)], mkT (Node l' cs) ch Stop)
  end.
Proof.
  cbn [transform_down_up]. destruct (fd l) as [[l' ch] r].
  destruct r; unfold transform_children, or_flag, bind, ret; cbn [rec data changed].
  - destruct (map_children_on im (transform_down_up im fd fu) l' cs) as [lc rc].
    rewrite app_nil_r.
    destruct (transform_parent _ _) as [lu ru]. reflexivity.
  - destruct (transform_parent _ _) as [lu ru]. reflexivity.
  - reflexivity.
Qed.

(* ================================================================== 3. the combined contract: scan automaton *)
Section Scan.
  Variables fd fu : rcb.
  Notation scan' := (scan fd fu).
  Notation k := (transform_down_up IVec fd fu).

  Lemma scan_app s a b : scan' s (a ++ b) = scan' (scan' s a) b.
  Proof. apply fold_left_app. Qed.
  Lemma scan_cons s e r : scan' s (e :: r) = scan' (step fd fu s e) r.
  Proof. reflexivity. Qed.

  Definition inert (m : mode) : Prop := match m with Halt | Skip _ => True | _ => False end.
  Definition live (m : mode) : Prop := m = Run \/ m = UpJ.

  (* in Skip / Halt mode nothing is invoked and every node keeps its label *)
  Lemma scan_inert_list cs :
    Forall (fun t => forall m stk lg po, inert m ->
              scan' (mkS m stk lg po) (brackets t) = mkS m stk lg (po ++ postorder t)) cs ->
    forall m stk lg po, inert m ->
      scan' (mkS m stk lg po) (flat_map brackets cs) = mkS m stk lg (po ++ flat_map postorder cs).
  Proof.
    induction 1 as [|c r Hc _ IH]; intros m stk lg po Hm.
    - cbn. rewrite app_nil_r. reflexivity.
    - cbn [flat_map]. rewrite scan_app, (Hc _ _ _ _ Hm), (IH _ _ _ _ Hm), app_assoc. reflexivity.
  Qed.
  Lemma scan_inert t : forall m stk lg po, inert m ->
    scan' (mkS m stk lg po) (brackets t) = mkS m stk lg (po ++ postorder t).
  Proof.
    induction t as [l cs IH] using tree_induction. intros m stk lg po Hm.
    cbn [brackets postorder]. rewrite scan_cons, scan_app.
    destruct m as [|d| |]; try contradiction; cbn [step s_mode s_stk s_log s_post].
    - rewrite (scan_inert_list cs IH (Skip (S d))) by exact I.
      cbn. rewrite app_assoc. reflexivity.
    - rewrite (scan_inert_list cs IH Halt) by exact I.
      cbn. rewrite app_assoc. reflexivity.
  Qed.

  Definition tdu_ok (t : tree) : Prop :=
    let r := k t in
    (forall m stk lg po, live m ->
       scan' (mkS m stk lg po) (brackets t) =
       mkS (mode_of (rec (snd r))) stk (lg ++ fst r) (po ++ postorder (data (snd r))))
    /\ shape (data (snd r)) = shape t
    /\ changed (snd r) = existsb (reported fd fu) (fst r).

  Lemma mus_stop {A} (f : A -> M (Tr A)) tr l : map_until_stop_from f Stop tr l = ([], mkT l tr Stop).
  Proof. induction l as [|x l IH]; [reflexivity|]. cbn [map_until_stop_from]. rewrite IH. reflexivity. Qed.

  Lemma mus_ok cs : Forall tdu_ok cs -> forall last tr,
    let r := map_until_stop_from k last tr cs in
    (forall stk lg po,
       scan' (mkS (mode_of last) stk lg po) (flat_map brackets cs) =
       mkS (mode_of (rec (snd r))) stk (lg ++ fst r) (po ++ flat_map postorder (data (snd r))))
    /\ map shape (data (snd r)) = map shape cs
    /\ changed (snd r) = tr || existsb (reported fd fu) (fst r).
  Proof.
    induction 1 as [|c r0 Hc _ IH]; intros last tr.
    - cbn. repeat split; try (intros; rewrite !app_nil_r; reflexivity). rewrite orb_false_r. reflexivity.
    - destruct last.
      3:{ rewrite mus_stop. cbn [fst snd data changed rec mode_of existsb flat_map].
          repeat split; [|rewrite orb_false_r; reflexivity].
          intros. rewrite scan_app, scan_inert by exact I.
          rewrite (scan_inert_list r0) by (try exact I; apply Forall_forall; intros; apply scan_inert; assumption).
          rewrite !app_nil_r, app_assoc. reflexivity. }
      all: cbn [map_until_stop_from];
        destruct Hc as (Hc1 & Hc2 & Hc3);
        destruct (k c) as [lc resc] eqn:Ec; cbn [fst snd] in Hc1, Hc2, Hc3;
        cbn [bind];
        specialize (IH (rec resc) (tr || changed resc));
        destruct (map_until_stop_from k (rec resc) (tr || changed resc) r0) as [lr restr] eqn:Er;
        cbn [fst snd] in IH; destruct IH as (I1 & I2 & I3);
        cbn [bind ret fst snd data changed rec flat_map map];
        (repeat split;
         [ intros stk lg po; rewrite scan_app, Hc1 by (unfold live; cbn; auto); rewrite I1;
           rewrite !app_nil_r, !app_assoc; reflexivity
         | rewrite Hc2, I2; reflexivity
         | rewrite I3, Hc3, app_nil_r, existsb_app; btauto ]).
  Qed.

  Lemma tnr_of_mode_of r : tnr_of (mode_of r) = r.
  Proof. destruct r; reflexivity. Qed.

  Lemma tdu_ok_all t : tdu_ok t.
  Proof.
    induction t as [l cs IH] using tree_induction.
    unfold tdu_ok. rewrite tdu_unfold. cbn [brackets].
    destruct (fd l) as [[l' ch] r] eqn:Ed.
    pose proof (mus_ok cs IH Continue false) as Hm. cbn zeta in Hm.
    assert (Hrep : reported fd fu (PDown, l) = ch) by (cbn; rewrite Ed; reflexivity).
    assert (Hinert : forall m stk lg po, inert m ->
              scan' (mkS m stk lg po) (flat_map brackets cs) = mkS m stk lg (po ++ flat_map postorder cs))
      by (apply scan_inert_list, Forall_forall; intros; apply scan_inert; assumption).
    assert (Hstep : forall m stk lg po, live m ->
              step fd fu (mkS m stk lg po) (BD l) =
              mkS (match r with Continue => Run | Jump => Skip 0 | Stop => Halt end) (l' :: stk) (lg ++ [(PDown, l)]) po)
      by (intros m stk lg po [-> | ->]; cbn; rewrite Ed; reflexivity).
    destruct r.
    - (* f_down says Continue *)
      rewrite mco_vec_unfold.
      destruct (map_until_stop_from k Continue false cs) as [lc rc] eqn:Ec.
      cbn [fst snd] in Hm. destruct Hm as (M1 & M2 & M3).
      destruct rc as [cs' chc rr]. cbn [data changed rec] in *.
      rewrite tp_unfold.
      destruct rr.
      + destruct (fu l') as [[l'' ch2] r2] eqn:Eu. cbn [fst snd data changed rec].
        repeat split.
        * intros m stk lg po Hl. rewrite scan_cons, scan_app, Hstep by exact Hl.
          change Run with (mode_of Continue). rewrite M1. cbn. rewrite Eu. cbn.
          repeat rewrite <- app_assoc. reflexivity.
        * cbn. rewrite M2. reflexivity.
        * rewrite M3. cbn [existsb]. rewrite !existsb_app. cbn [existsb]. rewrite Hrep.
          assert (reported fd fu (PUp, l') = ch2) as -> by (cbn; rewrite Eu; reflexivity). cbn. btauto.
      + cbn [fst snd data changed rec]. repeat split.
        * intros m stk lg po Hl. rewrite scan_cons, scan_app, Hstep by exact Hl.
          change Run with (mode_of Continue). rewrite M1. cbn.
          rewrite !app_nil_r. repeat rewrite <- app_assoc. reflexivity.
        * cbn. rewrite M2. reflexivity.
        * rewrite M3, app_nil_r. cbn [existsb]. rewrite Hrep. cbn. btauto.
      + cbn [fst snd data changed rec]. repeat split.
        * intros m stk lg po Hl. rewrite scan_cons, scan_app, Hstep by exact Hl.
          change Run with (mode_of Continue). rewrite M1. cbn.
          rewrite !app_nil_r. repeat rewrite <- app_assoc. reflexivity.
        * cbn. rewrite M2. reflexivity.
        * rewrite M3, app_nil_r. cbn [existsb]. rewrite Hrep. cbn. btauto.
    - (* f_down says Jump: children shortcut, f_up of the node still runs *)
      rewrite tp_unfold.
      destruct (fu l') as [[l'' ch2] r2] eqn:Eu. cbn [fst snd data changed rec].
      repeat split.
      + intros m stk lg po Hl. rewrite scan_cons, scan_app, Hstep by exact Hl.
        rewrite Hinert by exact I.
        cbn. rewrite Eu. cbn. repeat rewrite <- app_assoc. reflexivity.
      + cbn [existsb]. rewrite Hrep.
        assert (reported fd fu (PUp, l') = ch2) as -> by (cbn; rewrite Eu; reflexivity). btauto.
    - (* f_down says Stop *)
      cbn [fst snd data changed rec].
      repeat split.
      + intros m stk lg po Hl. rewrite scan_cons, scan_app, Hstep by exact Hl.
        rewrite Hinert by exact I.
        cbn. repeat rewrite <- app_assoc. reflexivity.
      + cbn [existsb]. rewrite Hrep. btauto.
  Qed.
End Scan.

(* ================================================================== 4. the three map_children implementations *)
Section MapLog.
  (* a projection of logs that is a monoid morphism (identity, or a filter) *)
  Variable h : list event -> list event.
  Hypothesis h_nil : h [] = [].
  Hypothesis h_app : forall a b, h (a ++ b) = h a ++ h b.

  Lemma mus_maplog (f g : tree -> M (Tr tree)) cs :
    Forall (fun c => f c = (h (fst (g c)), snd (g c))) cs ->
    forall last tr,
      map_until_stop_from f last tr cs =
      (h (fst (map_until_stop_from g last tr cs)), snd (map_until_stop_from g last tr cs)).
  Proof.
    induction 1 as [|c r Hc _ IH]; intros last tr.
    - cbn. rewrite h_nil. reflexivity.
    - destruct last; cbn [map_until_stop_from].
      1,2: rewrite Hc; destruct (g c) as [lc resc]; cbn [fst snd bind];
           rewrite IH; destruct (map_until_stop_from g (rec resc) (tr || changed resc) r) as [lr restr];
           cbn [fst snd bind ret]; rewrite !app_nil_r, h_app; reflexivity.
      rewrite IH. destruct (map_until_stop_from g Stop tr r) as [lr restr].
      cbn [fst snd bind ret]. rewrite !app_nil_r. reflexivity.
  Qed.

  Lemma mco_maplog im (f g : tree -> M (Tr tree)) l cs :
    Forall (fun c => f c = (h (fst (g c)), snd (g c))) cs ->
    map_children_on im f l cs = (h (fst (map_children_on im g l cs)), snd (map_children_on im g l cs)).
  Proof.
    intro H. pose proof (mus_maplog f g cs H Continue false) as E.
    unfold map_children_on, map_until_stop_and_collect.
    destruct im; [| destruct cs; [cbn; rewrite h_nil; reflexivity|] ..];
      rewrite E; destruct (map_until_stop_from g Continue false _) as [lr restr];
      cbn [fst snd bind ret]; try destruct (changed restr); cbn [fst snd bind ret]; rewrite !app_nil_r; reflexivity.
  Qed.
End MapLog.

Lemma mco_ext im (f g : tree -> M (Tr tree)) l cs :
  Forall (fun c => f c = g c) cs -> map_children_on im f l cs = map_children_on im g l cs.
Proof.
  intro H. rewrite (mco_maplog (fun x => x) eq_refl (fun _ _ => eq_refl) im f g).
  - symmetry. apply surj.
  - eapply Forall_impl; [|exact H]. cbn. intros a ->. apply surj.
Qed.

Lemma mco_concrete_vec (kk : tree -> M (Tr tree)) l cs :
  map_children_on IConcrete kk l cs = map_children_on IVec kk l cs.
Proof. destruct cs; reflexivity. Qed.

(* the result of map_children is the same node with (possibly) new children *)
Lemma mco_node im kk l cs : exists cs', data (snd (map_children_on im kk l cs)) = Node l cs'.
Proof.
  unfold map_children_on, map_until_stop_and_collect.
  destruct im; [| destruct cs; [eexists; reflexivity|] ..];
    destruct (map_until_stop_from kk Continue false _) as [lr restr]; cbn [bind ret snd];
    try destruct (changed restr); cbn; eexists; reflexivity.
Qed.

Theorem tdu_concrete_eq_vec fd fu t :
  transform_down_up IConcrete fd fu t = transform_down_up IVec fd fu t.
Proof.
  induction t as [l cs IH] using tree_induction. rewrite !tdu_unfold.
  destruct (fd l) as [[l' ch] r]. destruct r; try reflexivity.
  rewrite mco_concrete_vec, (mco_ext IVec _ _ l' cs IH). reflexivity.
Qed.

(* honest callbacks: an unreported result is an unchanged tree *)
Lemma honest_same f l : honest f -> flag_of f l = false -> new_label f l = l.
Proof.
  intros H E. destruct (Z.eq_dec (new_label f l) l) as [e|n]; [exact e|].
  rewrite (H l n) in E. discriminate.
Qed.

Section Honest.
  Variables fd fu : rcb.
  Hypothesis Hd : honest fd.
  Hypothesis Hu : honest fu.
  Notation k := (transform_down_up IVec fd fu).

  Lemma mus_unchanged cs :
    Forall (fun c => changed (snd (k c)) = false -> data (snd (k c)) = c) cs ->
    forall last tr, changed (snd (map_until_stop_from k last tr cs)) = false ->
                    tr = false /\ data (snd (map_until_stop_from k last tr cs)) = cs.
  Proof.
    induction 1 as [|c r Hc _ IH]; intros last tr.
    - cbn. auto.
    - destruct last; cbn [map_until_stop_from].
      3:{ rewrite mus_stop. cbn. auto. }
      all: destruct (k c) as [lc resc]; cbn [fst snd bind] in *;
           specialize (IH (rec resc) (tr || changed resc));
           destruct (map_until_stop_from k (rec resc) (tr || changed resc) r) as [lr restr];
           cbn [fst snd bind ret data changed] in *; intro E; destruct (IH E) as [E1 E2];
           apply orb_false_iff in E1 as [-> E1]; rewrite (Hc E1), E2; auto.
  Qed.

  Lemma tdu_unchanged t : changed (snd (k t)) = false -> data (snd (k t)) = t.
  Proof.
    induction t as [l cs IH] using tree_induction. rewrite tdu_unfold.
    pose proof (honest_same fd l Hd) as Sd. unfold flag_of, new_label in Sd.
    destruct (fd l) as [[l' ch] r]. cbn [fst snd] in Sd.
    destruct r.
    - rewrite mco_vec_unfold.
      pose proof (mus_unchanged cs IH Continue false) as Hm.
      destruct (map_until_stop_from k Continue false cs) as [lc rc]. cbn [fst snd] in Hm.
      destruct rc as [cs' chc rr]. cbn [data changed rec] in *.
      rewrite tp_unfold.
      pose proof (honest_same fu l' Hu) as Su. unfold flag_of, new_label in Su.
      destruct rr; [destruct (fu l') as [[l'' ch2] r2]; cbn [fst snd] in Su|..];
        cbn [fst snd data changed]; intro E;
        repeat (apply orb_false_iff in E; destruct E as [? E]); subst;
        try rewrite (Su eq_refl); rewrite (Sd eq_refl); destruct Hm as [_ ->]; reflexivity.
    - rewrite tp_unfold.
      pose proof (honest_same fu l' Hu) as Su. unfold flag_of, new_label in Su.
      destruct (fu l') as [[l'' ch2] r2]; cbn [fst snd] in Su.
      cbn [fst snd data changed]. intro E. apply orb_false_iff in E as [-> ->].
      rewrite (Su eq_refl), (Sd eq_refl). reflexivity.
    - cbn [fst snd data changed]. intros ->. rewrite (Sd eq_refl). reflexivity.
  Qed.

  (* Arc<dyn> map_children (rebuild only when a child reported a change) agrees with the others *)
  Theorem tdu_dyn_eq_vec t : transform_down_up IDyn fd fu t = transform_down_up IVec fd fu t.
  Proof.
    induction t as [l cs IH] using tree_induction. rewrite !tdu_unfold.
    destruct (fd l) as [[l' ch] r]. destruct r; try reflexivity.
    assert (map_children_on IDyn (transform_down_up IDyn fd fu) l' cs = map_children_on IVec k l' cs) as ->;
      [|reflexivity].
    rewrite (mco_ext IDyn _ _ l' cs IH).
    unfold map_children_on, map_until_stop_and_collect.
    destruct cs as [|c0 cs0]; [reflexivity|].
    pose proof (mus_unchanged (c0 :: cs0)) as Hm.
    specialize (Hm (proj2 (Forall_forall _ _) (fun x _ => tdu_unchanged x)) Continue false).
    destruct (map_until_stop_from k Continue false (c0 :: cs0)) as [lc rc]. cbn [fst snd] in Hm.
    cbn [bind]. destruct (changed rc) eqn:E; [reflexivity|].
    destruct (Hm eq_refl) as [_ ->]. cbn [ret]. destruct rc; cbn in *. subst. reflexivity.
  Qed.
End Honest.

(* ================================================================== 5. transform_down / transform_up / visit
   are projections of the combined traversal *)
Lemma td_unfold im f l cs :
  transform_down im f (Node l cs) =
  let '(l', ch, r) := f l in
  match r with
  | Continue =>
      let (lc, rc) := map_children_on im (transform_down im f) l' cs in
      ((PDown, l) :: lc, mkT (data rc) (changed rc || ch) (rec rc))
  | Jump => ([(PDown, l)], mkT (Node l' cs) ch Continue)
  | Stop => ([(PDown, l)], mkT (Node l' cs) ch Stop)
  end.
Proof.
  cbn [transform_down]. destruct (f l) as [[l' ch] r].
  destruct r; unfold transform_children, or_flag, bind, ret; cbn [rec data changed]; try reflexivity.
  destruct (map_children_on im (transform_down im f) l' cs) as [lc rc]. rewrite app_nil_r. reflexivity.
Qed.

Lemma tu_unfold im f l cs :
  transform_up im f (Node l cs) =
  let (lc, rc) := map_children_on im (transform_up im f) l cs in
  let (lu, ru) := transform_parent rc (rcall PUp f) in (lc ++ lu, ru).
Proof.
  cbn [transform_up]. unfold bind.
  destruct (map_children_on im (transform_up im f) l cs) as [lc rc]. reflexivity.
Qed.

Lemma filter_down_app (a b : list event) : filter is_down (a ++ b) = filter is_down a ++ filter is_down b.
Proof. apply filter_app. Qed.
Lemma filter_up_app (a b : list event) : filter is_up (a ++ b) = filter is_up a ++ filter is_up b.
Proof. apply filter_app. Qed.

(* transform_down(f) = transform_down_up(f, identity) without the f_up events *)
Theorem transform_down_as_down_up im f t :
  transform_down im f t =
  (filter is_down (fst (transform_down_up im f id_cb t)), snd (transform_down_up im f id_cb t)).
Proof.
  induction t as [l cs IH] using tree_induction. rewrite td_unfold, tdu_unfold.
  destruct (f l) as [[l' ch] r]. destruct r.
  - rewrite (mco_maplog (filter is_down) eq_refl filter_down_app im _ _ l' cs IH).
    destruct (mco_node im (transform_down_up im f id_cb) l' cs) as [cs' Hn].
    destruct (map_children_on im (transform_down_up im f id_cb) l' cs) as [lc rc]. cbn [fst snd] in *.
    rewrite Hn, tp_unfold. unfold id_cb.
    destruct rc as [d c r]; cbn [data changed rec] in *; subst d.
    destruct r; cbn [fst snd filter is_down]; rewrite ?app_nil_r, ?filter_down_app; cbn; rewrite ?app_nil_r;
      reflexivity.
  - rewrite tp_unfold. reflexivity.
  - reflexivity.
Qed.

(* transform_up(f) = transform_down_up(identity, f) without the f_down events *)
Theorem transform_up_as_down_up im f t :
  transform_up im f t =
  (filter is_up (fst (transform_down_up im id_cb f t)), snd (transform_down_up im id_cb f t)).
Proof.
  induction t as [l cs IH] using tree_induction. rewrite tu_unfold, tdu_unfold.
  change (id_cb l) with (l, false, Continue). cbv iota beta.
  rewrite (mco_maplog (filter is_up) eq_refl filter_up_app im _ _ l cs IH).
  destruct (mco_node im (transform_down_up im id_cb f) l cs) as [cs' Hn].
  destruct (map_children_on im (transform_down_up im id_cb f) l cs) as [lc rc]. cbn [fst snd] in *.
  destruct rc as [d c r]; cbn [data changed rec] in *; subst d. rewrite orb_false_r.
  rewrite tp_unfold.
  destruct r; [destruct (f l) as [[l'' ch2] r2]|..]; cbn [fst snd filter is_up is_down negb];
    rewrite ?filter_up_app; cbn; rewrite ?app_nil_r; reflexivity.
Qed.

(* visit = rewrite with callbacks that change nothing *)
Lemma visit_unfold fd fu l cs :
  visit fd fu (Node l cs) =
  match fd l with
  | Continue =>
      let (lc, rc) := apply_until_stop_from (visit fd fu) Continue cs in
      match rc with
      | Continue => ((PDown, l) :: lc ++ [(PUp, l)], fu l)
      | _ => ((PDown, l) :: lc, rc)
      end
  | Jump => ([(PDown, l); (PUp, l)], fu l)
  | Stop => ([(PDown, l)], Stop)
  end.
Proof.
  cbn [visit]. unfold bind, visit_children, visit_parent, apply_until_stop, ret.
  destruct (fd l); try reflexivity.
  destruct (apply_until_stop_from (visit fd fu) Continue cs) as [lc rc].
  destruct rc; rewrite ?app_nil_r; reflexivity.
Qed.

Section VisitAsRewrite.
  Variables fd fu : vcb.
  Notation k := (transform_down_up IVec (vlift fd) (vlift fu)).
  Definition visit_rel (c : tree) : Prop :=
    visit fd fu c = (fst (k c), rec (snd (k c))) /\ data (snd (k c)) = c /\ changed (snd (k c)) = false.

  Lemma aus_mus cs : Forall visit_rel cs -> forall last tr, last <> Stop ->
    apply_until_stop_from (visit fd fu) last cs =
      (fst (map_until_stop_from k last tr cs), rec (snd (map_until_stop_from k last tr cs)))
    /\ data (snd (map_until_stop_from k last tr cs)) = cs
    /\ changed (snd (map_until_stop_from k last tr cs)) = tr.
  Proof.
    induction 1 as [|c r (Hc1 & Hc2 & Hc3) _ IH]; intros last tr Hl.
    - cbn. auto.
    - assert (E : map_until_stop_from k last tr (c :: r) =
                  bind (k c) (fun res =>
                  bind (map_until_stop_from k (rec res) (tr || changed res) r) (fun rest =>
                  ret (mkT (data res :: data rest) (changed rest) (rec rest)))))
        by (destruct last; [reflexivity|reflexivity|contradiction]).
      rewrite E. cbn [apply_until_stop_from]. rewrite Hc1.
      destruct (k c) as [lc resc]. cbn [fst snd bind] in *. rewrite Hc3, orb_false_r.
      destruct (rec resc) eqn:Er.
      3:{ rewrite mus_stop. cbn. rewrite Hc2, app_nil_r. auto. }
      all: specialize (IH (rec resc) tr); rewrite Er in IH;
           destruct IH as (I1 & I2 & I3); [discriminate|];
           fold (apply_until_stop_from (visit fd fu)); rewrite I1;
           destruct (map_until_stop_from k _ tr r) as [lr restr];
           cbn [fst snd bind ret data changed rec] in *; rewrite Hc2, I2, I3, app_nil_r; auto.
  Qed.

  Lemma visit_rel_all t : visit_rel t.
  Proof.
    induction t as [l cs IH] using tree_induction. unfold visit_rel.
    rewrite visit_unfold, tdu_unfold. change (vlift fd l) with (l, false, fd l). cbv iota beta.
    destruct (fd l).
    - rewrite mco_vec_unfold.
      destruct (aus_mus cs IH Continue false) as (A1 & A2 & A3); [discriminate|].
      rewrite A1.
      destruct (map_until_stop_from k Continue false cs) as [lc rc]. cbn [fst snd] in *.
      destruct rc as [d c r]; cbn [data changed rec] in *; subst.
      rewrite tp_unfold. change (vlift fu l) with (l, false, fu l). cbv iota beta.
      destruct r; cbn [fst snd data changed rec orb]; rewrite ?app_nil_r; auto.
    - rewrite tp_unfold. change (vlift fu l) with (l, false, fu l). cbv iota beta. cbn [fst snd data changed rec orb]. auto.
    - cbn [fst snd data changed rec]. auto.
  Qed.
End VisitAsRewrite.

Theorem visit_as_rewrite fd fu t :
  visit fd fu t =
  (fst (transform_down_up IVec (vlift fd) (vlift fu) t), rec (snd (transform_down_up IVec (vlift fd) (vlift fu) t))).
Proof. exact (proj1 (visit_rel_all fd fu t)). Qed.

(* ================================================================== 6. packaged contracts *)
Lemma honest_id : honest id_cb.
Proof. intros l H. exfalso. apply H. reflexivity. Qed.

Lemma tdu_im_eq_vec im fd fu t :
  impl_ok im fd fu -> transform_down_up im fd fu t = transform_down_up IVec fd fu t.
Proof.
  intro H. destruct im.
  - reflexivity.
  - apply tdu_concrete_eq_vec.
  - destruct (H eq_refl) as [Hd Hu]. apply tdu_dyn_eq_vec; assumption.
Qed.

(* THE COMBINED CONTRACT: transform_down_up / rewrite behave exactly like the documented linear scan:
   same callback invocations in the same order, same final directive, the output tree has the input's
   shape and exactly the labels the scan assigns, and `transformed` is the OR of the reported flags. *)
Theorem rewrite_contract im fd fu t :
  impl_ok im fd fu ->
  let r := transform_down_up im fd fu t in
  let s := scan_tree fd fu t in
  fst r = s_log s /\ rec (snd r) = tnr_of (s_mode s) /\
  shape (data (snd r)) = shape t /\ postorder (data (snd r)) = s_post s /\
  changed (snd r) = existsb (reported fd fu) (fst r).
Proof.
  intro H. cbv zeta. rewrite (tdu_im_eq_vec im fd fu t H).
  destruct (tdu_ok_all fd fu t) as (S1 & S2 & S3).
  unfold scan_tree. rewrite (S1 Run [] [] []) by (left; reflexivity).
  cbn [s_log s_mode s_post app]. rewrite tnr_of_mode_of. auto.
Qed.

Theorem visit_contract fd fu t :
  let r := visit fd fu t in
  let s := scan_tree (vlift fd) (vlift fu) t in
  fst r = s_log s /\ snd r = tnr_of (s_mode s).
Proof.
  cbv zeta. rewrite visit_as_rewrite. cbn [fst snd].
  destruct (rewrite_contract IVec (vlift fd) (vlift fu) t) as (A & B & _); [discriminate|]. auto.
Qed.

Theorem transform_down_contract im f t :
  impl_ok im f id_cb ->
  let r := transform_down im f t in
  let s := scan_tree f id_cb t in
  fst r = filter is_down (s_log s) /\ rec (snd r) = tnr_of (s_mode s) /\
  shape (data (snd r)) = shape t /\ postorder (data (snd r)) = s_post s /\
  changed (snd r) = existsb (reported f id_cb) (fst r).
Proof.
  intro H. cbv zeta. rewrite transform_down_as_down_up. cbn [fst snd].
  destruct (rewrite_contract im f id_cb t H) as (A & B & C & D & E).
  rewrite <- A. repeat split; try assumption. rewrite E.
  (* the dropped f_up events report nothing *)
  generalize (fst (transform_down_up im f id_cb t)). intro lg.
  induction lg as [|[[|] x] lg IH]; cbn; [reflexivity| |]; rewrite IH; reflexivity.
Qed.

Theorem transform_up_contract im f t :
  impl_ok im id_cb f ->
  let r := transform_up im f t in
  let s := scan_tree id_cb f t in
  fst r = filter is_up (s_log s) /\ rec (snd r) = tnr_of (s_mode s) /\
  shape (data (snd r)) = shape t /\ postorder (data (snd r)) = s_post s /\
  changed (snd r) = existsb (reported id_cb f) (fst r).
Proof.
  intro H. cbv zeta. rewrite transform_up_as_down_up. cbn [fst snd].
  destruct (rewrite_contract im id_cb f t H) as (A & B & C & D & E).
  rewrite <- A. repeat split; try assumption. rewrite E.
  generalize (fst (transform_down_up im id_cb f t)). intro lg.
  induction lg as [|[[|] x] lg IH]; cbn; [reflexivity| |]; rewrite IH; reflexivity.
Qed.

(* ------------------------------------------------------------------ a tree is determined by shape + post-order labels *)
Lemma postorder_length_shape t : length (postorder t) = length (postorder (shape t)).
Proof.
  induction t as [l cs IH] using tree_induction. cbn. rewrite !app_length. f_equal.
  induction IH as [|c r Hc _ IHr]; [reflexivity|]. cbn. rewrite !app_length, Hc, IHr. reflexivity.
Qed.
Lemma app_inv_len {A} (a c b d : list A) : length a = length c -> a ++ b = c ++ d -> a = c /\ b = d.
Proof.
  revert c. induction a as [|x a IH]; intros [|y c] L E; try discriminate; [auto|].
  cbn in *. injection E as -> E. injection L as L. destruct (IH c L E) as [-> ->]. auto.
Qed.
Theorem shape_postorder_exact a : forall b, shape a = shape b -> postorder a = postorder b -> a = b.
Proof.
  induction a as [l cs IH] using tree_induction. intros [l0 cs0] Hs Hp. cbn in Hs, Hp.
  injection Hs as Hs. apply app_inj_tail in Hp as [Hp ->]. f_equal.
  revert cs0 Hs Hp. induction IH as [|c r Hc _ IHr]; intros [|c0 r0] Hs Hp; try discriminate; [reflexivity|].
  cbn in Hs, Hp. injection Hs as Hs1 Hs2.
  apply app_inv_len in Hp as [P1 P2].
  - rewrite (Hc c0 Hs1 P1), (IHr r0 Hs2 P2). reflexivity.
  - rewrite (postorder_length_shape c), (postorder_length_shape c0), Hs1. reflexivity.
Qed.

(* ------------------------------------------------------------------ every callback says Continue *)
Section AllContinue.
  Variables fd fu : rcb.
  Hypothesis Hd : forall l, dir_of fd l = Continue.
  Hypothesis Hu : forall l, dir_of fu l = Continue.
  Notation k := (transform_down_up IVec fd fu).
  Notation g := (fun l => new_label fu (new_label fd l)).
  Definition ac_rel (t : tree) : Prop :=
    fst (k t) = full_log fd t /\ data (snd (k t)) = relabel g t /\ rec (snd (k t)) = Continue.

  Lemma mus_all_continue cs : Forall ac_rel cs -> forall tr,
    fst (map_until_stop_from k Continue tr cs) = flat_map (full_log fd) cs /\
    data (snd (map_until_stop_from k Continue tr cs)) = map (relabel g) cs /\
    rec (snd (map_until_stop_from k Continue tr cs)) = Continue.
  Proof.
    induction 1 as [|c r (C1 & C2 & C3) _ IH]; intro tr; [cbn; auto|].
    cbn [map_until_stop_from]. destruct (k c) as [lc resc]. cbn [fst snd bind] in *.
    rewrite C3. specialize (IH (tr || changed resc)).
    destruct (map_until_stop_from k Continue (tr || changed resc) r) as [lr restr].
    cbn [bind fst snd ret data rec flat_map map] in *. destruct IH as (I1 & I2 & I3).
    rewrite app_nil_r, C1, C2, I1, I2, I3. auto.
  Qed.

  Lemma all_continue_vec t : ac_rel t.
  Proof.
    induction t as [l cs IH] using tree_induction. unfold ac_rel. rewrite tdu_unfold.
    destruct (fd l) as [[l' ch] r] eqn:E.
    assert (Nd : new_label fd l = l') by (unfold new_label; rewrite E; reflexivity).
    assert (r = Continue) by (pose proof (Hd l) as D; unfold dir_of in D; rewrite E in D; exact D). subst r.
    rewrite mco_vec_unfold.
    destruct (mus_all_continue cs IH false) as (M1 & M2 & M3).
    destruct (map_until_stop_from k Continue false cs) as [lc rc]. cbn [fst snd] in *.
    destruct rc as [d c r]; cbn [data changed rec] in *; subst lc d r.
    rewrite tp_unfold.
    destruct (fu l') as [[l'' ch2] r2] eqn:E2.
    assert (Nu : new_label fu l' = l'') by (unfold new_label; rewrite E2; reflexivity).
    assert (r2 = Continue) by (pose proof (Hu l') as D; unfold dir_of in D; rewrite E2 in D; exact D). subst r2.
    cbn [fst snd data rec relabel full_log]. rewrite Nd, Nu. repeat split.
  Qed.
End AllContinue.

Theorem all_continue_contract im fd fu t :
  impl_ok im fd fu ->
  (forall l, dir_of fd l = Continue) -> (forall l, dir_of fu l = Continue) ->
  let r := transform_down_up im fd fu t in
  fst r = full_log fd t /\
  data (snd r) = relabel (fun l => new_label fu (new_label fd l)) t /\
  rec (snd r) = Continue.
Proof.
  intros H Hd Hu. cbv zeta. rewrite (tdu_im_eq_vec im fd fu t H). exact (all_continue_vec fd fu Hd Hu t).
Qed.

Lemma full_log_downs fd t : filter is_down (full_log fd t) = downs (preorder t).
Proof.
  induction t as [l cs IH] using tree_induction. cbn. f_equal. rewrite filter_down_app. cbn. rewrite app_nil_r.
  induction IH as [|c r Hc _ IHr]; [reflexivity|]. cbn. rewrite filter_down_app, Hc, IHr. unfold downs.
  rewrite map_app. reflexivity.
Qed.
Lemma full_log_ups t : filter is_up (full_log id_cb t) = ups (postorder t).
Proof.
  induction t as [l cs IH] using tree_induction. cbn. rewrite filter_up_app. cbn. unfold ups. rewrite map_app. cbn.
  f_equal.
  induction IH as [|c r Hc _ IHr]; [reflexivity|]. cbn. rewrite filter_up_app, Hc, IHr. unfold ups.
  rewrite map_app. reflexivity.
Qed.
Lemma relabel_id t : relabel (fun l => l) t = t.
Proof.
  induction t as [l cs IH] using tree_induction. cbn. f_equal.
  induction IH as [|c r Hc _ IHr]; [reflexivity|]. cbn. rewrite Hc, IHr. reflexivity.
Qed.
Lemma relabel_compose f g t : relabel g (relabel f t) = relabel (fun l => g (f l)) t.
Proof.
  induction t as [l cs IH] using tree_induction. cbn. f_equal. rewrite map_map.
  induction IH as [|c r Hc _ IHr]; [reflexivity|]. cbn. rewrite Hc, IHr. reflexivity.
Qed.

(* transform_down with all-Continue: f sees every node in pre-order; result = every label replaced *)
Theorem transform_down_preorder im f t :
  impl_ok im f id_cb -> (forall l, dir_of f l = Continue) ->
  let r := transform_down im f t in
  fst r = downs (preorder t) /\ data (snd r) = relabel (new_label f) t /\ rec (snd r) = Continue.
Proof.
  intros H Hd. cbv zeta. rewrite transform_down_as_down_up. cbn [fst snd].
  destruct (all_continue_contract im f id_cb t H Hd (fun _ => eq_refl)) as (A & B & C).
  rewrite A, B, C, full_log_downs. auto.
Qed.

(* transform_up with all-Continue: f sees every node in post-order *)
Theorem transform_up_postorder im f t :
  impl_ok im id_cb f -> (forall l, dir_of f l = Continue) ->
  let r := transform_up im f t in
  fst r = ups (postorder t) /\ data (snd r) = relabel (new_label f) t /\ rec (snd r) = Continue.
Proof.
  intros H Hu. cbv zeta. rewrite transform_up_as_down_up. cbn [fst snd].
  destruct (all_continue_contract im id_cb f t H (fun _ => eq_refl) Hu) as (A & B & C).
  rewrite A, B, C, full_log_ups. auto.
Qed.

(* doc: "behaves the same as calling transform_down followed by transform_up on the same node"
   -- true for the produced tree when no callback jumps or stops *)
Theorem down_up_is_down_then_up im fd fu t :
  impl_ok im fd fu ->
  (forall l, dir_of fd l = Continue) -> (forall l, dir_of fu l = Continue) ->
  data (snd (transform_down_up im fd fu t)) =
  data (snd (transform_up im fu (data (snd (transform_down im fd t))))).
Proof.
  intros H Hd Hu.
  assert (H1 : impl_ok im fd id_cb) by (intro E; destruct (H E); split; [assumption|apply honest_id]).
  assert (H2 : impl_ok im id_cb fu) by (intro E; destruct (H E); split; [apply honest_id|assumption]).
  destruct (all_continue_contract im fd fu t H Hd Hu) as (_ & -> & _).
  destruct (transform_down_preorder im fd t H1 Hd) as (_ & -> & _).
  destruct (transform_up_postorder im fu (relabel (new_label fd) t) H2 Hu) as (_ & -> & _).
  rewrite relabel_compose. reflexivity.
Qed.

(* ------------------------------------------------------------------ callbacks that never change a label *)
Lemma same_label_honest f : (forall l, new_label f l = l) -> honest f.
Proof. intros H l N. exfalso. apply N, H. Qed.

Section SameLabels.
  Variables fd fu : rcb.
  Hypothesis Hd : forall l, new_label fd l = l.
  Hypothesis Hu : forall l, new_label fu l = l.
  Notation k := (transform_down_up IVec fd fu).
  Lemma mus_same cs : Forall (fun c => data (snd (k c)) = c) cs ->
    forall last tr, data (snd (map_until_stop_from k last tr cs)) = cs.
  Proof.
    induction 1 as [|c r Hc _ IH]; intros last tr; [reflexivity|].
    destruct last; cbn [map_until_stop_from].
    3:{ rewrite mus_stop. reflexivity. }
    all: destruct (k c) as [lc resc]; cbn [fst snd bind] in *;
         specialize (IH (rec resc) (tr || changed resc));
         destruct (map_until_stop_from k (rec resc) (tr || changed resc) r) as [lr restr];
         cbn [bind fst snd ret data] in *; rewrite Hc, IH; reflexivity.
  Qed.
  Lemma same_vec t : data (snd (k t)) = t.
  Proof.
    induction t as [l cs IH] using tree_induction. rewrite tdu_unfold.
    pose proof (Hd l) as D. unfold new_label in D.
    destruct (fd l) as [[l' ch] r]. cbn [fst snd] in D. subst l'.
    pose proof (Hu l) as U. unfold new_label in U.
    destruct r.
    - rewrite mco_vec_unfold. pose proof (mus_same cs IH Continue false) as Hm.
      destruct (map_until_stop_from k Continue false cs) as [lc rc]. cbn [fst snd] in Hm.
      destruct rc as [d c r]; cbn [data changed rec] in *; subst.
      rewrite tp_unfold. destruct r; [destruct (fu l) as [[l'' ch2] r2]; cbn in U; subst|..]; reflexivity.
    - rewrite tp_unfold. destruct (fu l) as [[l'' ch2] r2]; cbn in U; subst. reflexivity.
    - reflexivity.
  Qed.
End SameLabels.

(* whatever the directives and flags: if no callback changes a label the tree comes back unchanged *)
Theorem unchanged_labels_same_tree im fd fu t :
  (forall l, new_label fd l = l) -> (forall l, new_label fu l = l) ->
  data (snd (transform_down_up im fd fu t)) = t.
Proof.
  intros Hd Hu. rewrite tdu_im_eq_vec.
  - apply same_vec; assumption.
  - intros _. split; apply same_label_honest; assumption.
Qed.

(* identity callbacks: every node gets f_down and f_up, tree unchanged, transformed = false *)
Theorem identity_rewrite im t :
  transform_down_up im id_cb id_cb t = (full_log id_cb t, mkT t false Continue).
Proof.
  assert (H : impl_ok im id_cb id_cb) by (intros _; split; apply honest_id).
  destruct (all_continue_contract im id_cb id_cb t H (fun _ => eq_refl) (fun _ => eq_refl)) as (A & B & C).
  destruct (rewrite_contract im id_cb id_cb t H) as (_ & _ & _ & _ & E).
  rewrite (surj (transform_down_up im id_cb id_cb t)). rewrite A in *. f_equal.
  destruct (snd (transform_down_up im id_cb id_cb t)) as [d c r]. cbn [data changed rec] in *.
  rewrite B, C, E. change (fun l => new_label id_cb (new_label id_cb l)) with (fun l : Z => l).
  rewrite relabel_id. f_equal.
  generalize (full_log id_cb t). intro lg. induction lg as [|[[|] x] lg IH]; cbn; auto.
Qed.

(* ================================================================== 7. grouped sibling containers (Expr-style nodes) *)
Section GTreeInd.
  Variable P : gtree -> Prop.
  Hypothesis HNode : forall l gs, Forall (Forall P) gs -> P (GNode l gs).
  Fixpoint gtree_induction (t : gtree) : P t :=
    match t with
    | GNode l gs =>
        HNode l gs
          ((fix go (gs : list (list gtree)) : Forall (Forall P) gs :=
              match gs with
              | [] => Forall_nil _
              | g :: r =>
                  Forall_cons g
                    ((fix go1 (g : list gtree) : Forall P g :=
                        match g with
                        | [] => Forall_nil P
                        | c :: r1 => Forall_cons c (gtree_induction c) (go1 r1)
                        end) g)
                    (go r)
              end) gs)
    end.
End GTreeInd.

Lemma bind_assoc {A B C} (m : M A) (f : A -> M B) (g : B -> M C) :
  bind (bind m f) g = bind m (fun a => bind (f a) g).
Proof.
  unfold bind. destruct m as [l1 a]. destruct (f a) as [l2 b]. destruct (g b) as [l3 c].
  rewrite app_assoc. reflexivity.
Qed.
Lemma bind_ext {A B} (m : M A) (f g : A -> M B) : (forall a, f a = g a) -> bind m f = bind m g.
Proof. intro H. unfold bind. destruct m as [l a]. rewrite H. reflexivity. Qed.
Lemma bind_ret_r {A} (m : M A) : bind m ret = m.
Proof. unfold bind, ret. destruct m. rewrite app_nil_r. reflexivity. Qed.

Lemma aus_nonempty_last {A} (f : A -> M tnr) a b l :
  l <> [] -> apply_until_stop_from f a l = apply_until_stop_from f b l.
Proof. destruct l; [contradiction|reflexivity]. Qed.

Lemma aus_app {A} (f : A -> M tnr) a b : forall last, last <> Stop ->
  apply_until_stop_from f last (a ++ b) =
  bind (apply_until_stop_from f last a)
       (fun t => match t with Stop => ret Stop | _ => apply_until_stop_from f t b end).
Proof.
  induction a as [|x a IH]; intros last Hl.
  - cbn [app apply_until_stop_from]. rewrite bind_ret_l. destruct last; try reflexivity. contradiction.
  - cbn [app apply_until_stop_from]. rewrite bind_assoc. apply bind_ext. intros t.
    destruct t; try (apply IH; discriminate). rewrite bind_ret_l. reflexivity.
Qed.

(* the tuple-of-containers walk is the plain left-to-right walk over all children iff no non-empty
   container is followed only by empty ones *)
Theorem apply_groups_flat {A} (f : A -> M tnr) gs :
  groups_ok gs = true -> apply_groups f gs = apply_until_stop f (concat gs).
Proof.
  induction gs as [|g rest IH]; [reflexivity|].
  intro H. cbn [apply_groups groups_ok concat] in *.
  destruct rest as [|g1 rr]; [cbn; rewrite app_nil_r; reflexivity|].
  apply andb_true_iff in H as [H1 H2]. specialize (IH H1).
  unfold apply_until_stop. rewrite aus_app by discriminate.
  fold (apply_groups f). apply orb_true_iff in H2 as [H2|H2].
  - apply bind_ext. intros t.
    assert (N : concat (g1 :: rr) <> []) by (destruct (concat (g1 :: rr)); [discriminate|congruence]).
    destruct t; cbn [visit_sibling]; try reflexivity; rewrite IH; unfold apply_until_stop;
      apply aus_nonempty_last; exact N.
  - destruct g; [|discriminate]. cbn [apply_until_stop_from]. rewrite !bind_ret_l. cbn [visit_sibling].
    exact IH.
Qed.

Lemma aus_map_flatten (kg : gtree -> M tnr) (kf : tree -> M tnr) g :
  Forall (fun c => kg c = kf (flatten c)) g ->
  forall last, apply_until_stop_from kg last g = apply_until_stop_from kf last (map flatten g).
Proof.
  induction 1 as [|c r Hc _ IH]; intro last; [reflexivity|].
  cbn [map apply_until_stop_from]. rewrite Hc. apply bind_ext. intros t. destruct t; try apply IH. reflexivity.
Qed.
Lemma apply_groups_ext {A} (f g : A -> M tnr) gs :
  Forall (Forall (fun c => f c = g c)) gs -> apply_groups f gs = apply_groups g gs.
Proof.
  induction 1 as [|x r Hx _ IH]; [reflexivity|].
  assert (E : forall last, apply_until_stop_from f last x = apply_until_stop_from g last x).
  { clear -Hx. induction Hx as [|c r Hc _ IH]; intro last; [reflexivity|].
    cbn [apply_until_stop_from]. rewrite Hc. apply bind_ext. intros t. destruct t; try apply IH. reflexivity. }
  cbn [apply_groups]. unfold apply_until_stop. rewrite E. destruct r; [reflexivity|].
  apply bind_ext. intros t. destruct t; cbn [visit_sibling]; try reflexivity; exact IH.
Qed.

Lemma concat_map_flatten gs : flat_map (map flatten) gs = map flatten (concat gs).
Proof. induction gs as [|g r IH]; [reflexivity|]. cbn. rewrite IH, map_app. reflexivity. Qed.

Lemma gapply_groups_as_flat (kg : gtree -> M tnr) (kf : tree -> M tnr) gs :
  groups_ok gs = true ->
  Forall (Forall (fun c => kg c = kf (flatten c))) gs ->
  apply_groups kg gs = apply_until_stop kf (flat_map (map flatten) gs).
Proof.
  intros Hok H. rewrite apply_groups_flat by exact Hok. rewrite concat_map_flatten.
  unfold apply_until_stop. apply aus_map_flatten.
  clear Hok. induction H as [|g r Hg _ IH]; [constructor|]. cbn. apply Forall_app. split; assumption.
Qed.

Lemma well_grouped_inv l gs :
  well_grouped (GNode l gs) = true ->
  groups_ok gs = true /\ Forall (Forall (fun c => well_grouped c = true)) gs.
Proof.
  cbn [well_grouped]. intro H. apply andb_true_iff in H as [H1 H2]. split; [exact H1|].
  rewrite forallb_forall in H2. apply Forall_forall. intros g Hg. apply Forall_forall. intros c Hc.
  specialize (H2 g Hg). rewrite forallb_forall in H2. exact (H2 c Hc).
Qed.

Lemma Forall2_mp {A} (P Q : A -> Prop) gs :
  Forall (Forall (fun c => P c -> Q c)) gs -> Forall (Forall P) gs -> Forall (Forall Q) gs.
Proof.
  induction 1 as [|g r Hg _ IH]; intro H; [constructor|]. inversion H; subst. constructor; [|apply IH; assumption].
  clear -Hg H2. induction Hg as [|c r Hc _ IH]; [constructor|]. inversion H2; subst. constructor; auto.
Qed.

(* on a well-grouped Expr-style tree apply and visit are the flat-tree apply and visit, hence satisfy
   apply_contract / visit_contract *)
Theorem gapply_well_grouped f t : well_grouped t = true -> gapply f t = apply f (flatten t).
Proof.
  induction t as [l gs IH] using gtree_induction. intro W. destruct (well_grouped_inv l gs W) as [Hok Hw].
  cbn [gapply apply flatten]. apply bind_ext. intros r. destruct r; cbn [visit_children]; try reflexivity.
  apply gapply_groups_as_flat; [exact Hok|]. exact (Forall2_mp _ _ gs IH Hw).
Qed.
Theorem gvisit_well_grouped fd fu t : well_grouped t = true -> gvisit fd fu t = visit fd fu (flatten t).
Proof.
  induction t as [l gs IH] using gtree_induction. intro W. destruct (well_grouped_inv l gs W) as [Hok Hw].
  cbn [gvisit visit flatten]. apply bind_ext. intros r.
  assert (E : apply_groups (gvisit fd fu) gs = apply_until_stop (visit fd fu) (flat_map (map flatten) gs))
    by (apply gapply_groups_as_flat; [exact Hok|exact (Forall2_mp _ _ gs IH Hw)]).
  destruct r; cbn [visit_children]; rewrite ?E; reflexivity.
Qed.

(* ------------------------------------------------------------------ map_groups *)
Lemma tr_eta {A} (r : Tr A) : mkT (data r) (changed r) (rec r) = r.
Proof. destruct r; reflexivity. Qed.

Lemma mus_tr_shift {A} (f : A -> M (Tr A)) l : forall last tr,
  map_until_stop_from f last tr l =
  (fst (map_until_stop_from f last false l),
   mkT (data (snd (map_until_stop_from f last false l)))
       (tr || changed (snd (map_until_stop_from f last false l)))
       (rec (snd (map_until_stop_from f last false l)))).
Proof.
  induction l as [|x l IH]; intros last tr.
  - cbn. rewrite orb_false_r. reflexivity.
  - destruct last; cbn [map_until_stop_from].
    3:{ rewrite (IH Stop tr). destruct (map_until_stop_from f Stop false l) as [lr rr].
        cbn [bind ret fst snd data changed rec]. reflexivity. }
    all: destruct (f x) as [lx rx]; cbn [bind];
         rewrite (IH (rec rx) (tr || changed rx)), (IH (rec rx) (false || changed rx));
         destruct (map_until_stop_from f (rec rx) false l) as [lr rr];
         cbn [bind ret fst snd data changed rec]; f_equal; f_equal; btauto.
Qed.

Lemma mus_nonempty_last {A} (f : A -> M (Tr A)) a b tr l :
  l <> [] -> a <> Stop -> b <> Stop -> map_until_stop_from f a tr l = map_until_stop_from f b tr l.
Proof. destruct l; [contradiction|]. destruct a, b; try contradiction; reflexivity. Qed.

Lemma mus_app {A} (f : A -> M (Tr A)) a b : forall last tr,
  map_until_stop_from f last tr (a ++ b) =
  bind (map_until_stop_from f last tr a) (fun ra =>
  bind (map_until_stop_from f (rec ra) (changed ra) b) (fun rb =>
  ret (mkT (data ra ++ data rb) (changed rb) (rec rb)))).
Proof.
  induction a as [|x a IH]; intros last tr.
  - cbn [app map_until_stop_from]. rewrite bind_ret_l. cbn [data changed rec app].
    rewrite <- (bind_ret_r (map_until_stop_from f last tr b)) at 1. apply bind_ext. intros rb.
    rewrite tr_eta. reflexivity.
  - destruct last; cbn [app map_until_stop_from].
    3:{ rewrite IH, !bind_assoc. apply bind_ext. intros ra. rewrite bind_ret_l, bind_assoc.
        cbn [data changed rec]. apply bind_ext. intros rb. rewrite bind_ret_l. reflexivity. }
    all: rewrite !bind_assoc; apply bind_ext; intros rx; rewrite IH, !bind_assoc; apply bind_ext; intros ra;
         rewrite bind_ret_l, bind_assoc; cbn [data changed rec]; apply bind_ext; intros rb;
         rewrite bind_ret_l; reflexivity.
Qed.

(* the tuple-of-containers map is the plain left-to-right map over all children (same invocations,
   same children, same flag, same final directive) iff no non-empty container is followed only by empty ones *)
Theorem map_groups_flat {A} (f : A -> M (Tr A)) gs :
  groups_ok gs = true ->
  let X := map_groups f gs in
  let Y := map_until_stop_and_collect f (concat gs) in
  fst X = fst Y /\ concat (data (snd X)) = data (snd Y) /\
  changed (snd X) = changed (snd Y) /\ rec (snd X) = rec (snd Y).
Proof.
  induction gs as [|g rest IH]; [cbn; auto|].
  intro H. cbv zeta. cbn [map_groups groups_ok concat] in *.
  destruct rest as [|g1 rr].
  - unfold map_until_stop_and_collect. cbn [concat]. rewrite app_nil_r.
    destruct (map_until_stop_from f Continue false g) as [l0 r0]. cbn. rewrite !app_nil_r. auto.
  - apply andb_true_iff in H as [H1 H2]. specialize (IH H1). cbv zeta in IH.
    fold (map_groups f) in *.
    unfold map_until_stop_and_collect in *. rewrite mus_app.
    destruct (map_until_stop_from f Continue false g) as [l0 r0] eqn:E0. cbn [bind].
    destruct (rec r0) eqn:Er.
    3:{ rewrite mus_stop. cbn. rewrite !app_nil_r. auto. }
    all: rewrite mus_tr_shift.
    2:{ assert (EZ : map_until_stop_from f Jump false (concat (g1 :: rr)) =
                     map_until_stop_from f Continue false (concat (g1 :: rr))).
        { apply orb_true_iff in H2 as [H2|H2].
          - apply mus_nonempty_last; try discriminate.
            destruct (concat (g1 :: rr)); [discriminate|congruence].
          - destruct g; [|discriminate]. cbn in E0. injection E0 as <- <-. discriminate. }
        rewrite EZ. clear EZ.
        destruct IH as (I1 & I2 & I3 & I4);
        destruct (map_groups f (g1 :: rr)) as [l1 r1];
        destruct (map_until_stop_from f Continue false (concat (g1 :: rr))) as [l2 r2];
        cbn [bind ret fst snd data changed rec concat] in *; subst;
        rewrite !app_nil_r, I2, I3, I4, orb_comm; auto. }
    destruct IH as (I1 & I2 & I3 & I4);
    destruct (map_groups f (g1 :: rr)) as [l1 r1];
    destruct (map_until_stop_from f Continue false (concat (g1 :: rr))) as [l2 r2];
    cbn [bind ret fst snd data changed rec concat] in *; subst;
    rewrite !app_nil_r, I2, I3, I4, orb_comm; auto.
Qed.

(* ------------------------------------------------------------------ rewriting well-grouped Expr-style trees *)
Lemma gtp_unfold fu l' gs' c r :
  transform_parent (mkT (GNode l' gs') c r) (grcall PUp fu) =
  match r with
  | Continue => let '(l'', ch2, r2) := fu l' in ([(PUp, l')], mkT (GNode l'' gs') (ch2 || c) r2)
  | _ => ([], mkT (GNode l' gs') c r)
  end.
Proof.
  destruct r; try reflexivity.
  unfold transform_parent, or_flag, grcall, bind, ret. cbn [rec data changed].
  destruct (fu l') as [[l'' ch2] r2]. reflexivity.
Qed.

Lemma gmco_unfold kk l gs :
  gmap_children_on kk l gs =
  let (lc, rc) := map_groups kk gs in (lc, mkT (GNode l (data rc)) (changed rc) (rec rc)).
Proof.
  unfold gmap_children_on, bind, ret. destruct (map_groups kk gs) as [lc rc]. rewrite app_nil_r. reflexivity.
Qed.

Lemma gtdu_unfold fd fu l gs :
  gtransform_down_up fd fu (GNode l gs) =
  let '(l', ch, r) := fd l in
  match r with
  | Continue =>
      let (lc, rc) := gmap_children_on (gtransform_down_up fd fu) l' gs in
      let (lu, ru) := transform_parent (mkT (data rc) (changed rc || ch) (rec rc)) (grcall PUp fu) in
      ((PDown, l) :: lc ++ lu, ru)
  | Jump =>
      let (lu, ru) := transform_parent (mkT (GNode l' gs) ch Continue) (grcall PUp fu) in
      ((PDown, l) :: lu, ru)
  | Stop => ([(PDown, l)], mkT (GNode l' gs) ch Stop)
  end.
Proof.
  cbn [gtransform_down_up]. destruct (fd l) as [[l' ch] r].
  destruct r; unfold transform_children, or_flag, bind, ret; cbn [rec data changed].
  - destruct (gmap_children_on (gtransform_down_up fd fu) l' gs) as [lc rc].
    rewrite app_nil_r.
    destruct (transform_parent _ _) as [lu ru]. reflexivity.
  - destruct (transform_parent _ _) as [lu ru]. reflexivity.
  - reflexivity.
Qed.

Lemma mus_map_flatten (kg : gtree -> M (Tr gtree)) (kf : tree -> M (Tr tree)) g :
  Forall (fun c => gres_rel (kg c) (kf (flatten c))) g ->
  forall last tr,
    let X := map_until_stop_from kg last tr g in
    let Y := map_until_stop_from kf last tr (map flatten g) in
    fst X = fst Y /\ map flatten (data (snd X)) = data (snd Y) /\
    changed (snd X) = changed (snd Y) /\ rec (snd X) = rec (snd Y).
Proof.
  induction 1 as [|c r (C1 & C2 & C3 & C4) _ IH]; intros last tr; [cbn; auto|].
  cbv zeta. destruct last; cbn [map map_until_stop_from].
  3:{ rewrite !mus_stop. cbn. auto. }
  all: destruct (kg c) as [lc rc]; destruct (kf (flatten c)) as [lc' rc']; cbn [fst snd bind] in *; subst lc';
       rewrite C3, C4; specialize (IH (rec rc') (tr || changed rc')); cbv zeta in IH;
       destruct IH as (I1 & I2 & I3 & I4);
       destruct (map_until_stop_from kg (rec rc') (tr || changed rc') r) as [lr rr];
       destruct (map_until_stop_from kf (rec rc') (tr || changed rc') (map flatten r)) as [lr' rr'];
       cbn [fst snd bind ret data changed rec map] in *; subst; rewrite C2, I2; auto.
Qed.

Lemma Forall_concat {A} (P : A -> Prop) gs : Forall (Forall P) gs -> Forall P (concat gs).
Proof. induction 1 as [|g r Hg _ IH]; [constructor|]. cbn. apply Forall_app. split; assumption. Qed.

Theorem gtdu_well_grouped fd fu t :
  well_grouped t = true ->
  gres_rel (gtransform_down_up fd fu t) (transform_down_up IVec fd fu (flatten t)).
Proof.
  induction t as [l gs IH] using gtree_induction. intro W. destruct (well_grouped_inv l gs W) as [Hok Hw].
  pose proof (Forall2_mp _ _ gs IH Hw) as IH'. clear IH Hw.
  cbn [flatten]. rewrite gtdu_unfold, tdu_unfold. unfold gres_rel.
  destruct (fd l) as [[l' ch] r]. destruct r.
  - rewrite gmco_unfold, mco_vec_unfold.
    destruct (map_groups_flat (gtransform_down_up fd fu) gs Hok) as (G1 & G2 & G3 & G4).
    pose proof (mus_map_flatten _ _ (concat gs) (Forall_concat _ gs IH') Continue false) as F.
    cbv zeta in F. destruct F as (F1 & F2 & F3 & F4).
    unfold map_until_stop_and_collect in *. rewrite concat_map_flatten.
    destruct (map_groups (gtransform_down_up fd fu) gs) as [lc rc].
    destruct (map_until_stop_from (gtransform_down_up fd fu) Continue false (concat gs)) as [lm rm].
    destruct (map_until_stop_from (transform_down_up IVec fd fu) Continue false (map flatten (concat gs))) as [lf rf].
    cbn [fst snd data changed rec] in *. subst lc lm.
    rewrite gtp_unfold, tp_unfold. rewrite G4, F4, G3, F3.
    assert (D : flat_map (map flatten) (data rc) = data rf)
      by (rewrite concat_map_flatten, G2; exact F2).
    destruct (rec rf); [destruct (fu l') as [[l'' ch2] r2]|..]; cbn [fst snd data changed rec flatten];
      rewrite D; auto.
  - rewrite gtp_unfold, tp_unfold. destruct (fu l') as [[l'' ch2] r2]. cbn. auto.
  - cbn. auto.
Qed.

Lemma gtd_unfold f l gs :
  gtransform_down f (GNode l gs) =
  let '(l', ch, r) := f l in
  match r with
  | Continue =>
      let (lc, rc) := gmap_children_on (gtransform_down f) l' gs in
      ((PDown, l) :: lc, mkT (data rc) (changed rc || ch) (rec rc))
  | Jump => ([(PDown, l)], mkT (GNode l' gs) ch Continue)
  | Stop => ([(PDown, l)], mkT (GNode l' gs) ch Stop)
  end.
Proof.
  cbn [gtransform_down]. destruct (f l) as [[l' ch] r].
  destruct r; unfold transform_children, or_flag, bind, ret; cbn [rec data changed]; try reflexivity.
  destruct (gmap_children_on (gtransform_down f) l' gs) as [lc rc]. rewrite app_nil_r. reflexivity.
Qed.
Lemma gtu_unfold f l gs :
  gtransform_up f (GNode l gs) =
  let (lc, rc) := gmap_children_on (gtransform_up f) l gs in
  let (lu, ru) := transform_parent rc (grcall PUp f) in (lc ++ lu, ru).
Proof.
  cbn [gtransform_up]. unfold bind.
  destruct (gmap_children_on (gtransform_up f) l gs) as [lc rc]. reflexivity.
Qed.

(* common step: children of a well-grouped node, grouped vs flat *)
Lemma gchildren_rel (kg : gtree -> M (Tr gtree)) (kf : tree -> M (Tr tree)) l gs :
  groups_ok gs = true ->
  Forall (Forall (fun c => gres_rel (kg c) (kf (flatten c)))) gs ->
  gres_rel (gmap_children_on kg l gs) (map_children_on IVec kf l (flat_map (map flatten) gs)).
Proof.
  intros Hok IH'. rewrite gmco_unfold, mco_vec_unfold. unfold gres_rel.
  destruct (map_groups_flat kg gs Hok) as (G1 & G2 & G3 & G4).
  pose proof (mus_map_flatten _ _ (concat gs) (Forall_concat _ gs IH') Continue false) as F.
  cbv zeta in F. destruct F as (F1 & F2 & F3 & F4).
  unfold map_until_stop_and_collect in *. rewrite concat_map_flatten.
  destruct (map_groups kg gs) as [lc rc].
  destruct (map_until_stop_from kg Continue false (concat gs)) as [lm rm].
  destruct (map_until_stop_from kf Continue false (map flatten (concat gs))) as [lf rf].
  cbn [fst snd data changed rec flatten] in *. subst lc lm.
  rewrite concat_map_flatten, G2, F2, G3, F3, G4, F4. auto.
Qed.

Theorem gtd_well_grouped f t :
  well_grouped t = true -> gres_rel (gtransform_down f t) (transform_down IVec f (flatten t)).
Proof.
  induction t as [l gs IH] using gtree_induction. intro W. destruct (well_grouped_inv l gs W) as [Hok Hw].
  pose proof (Forall2_mp _ _ gs IH Hw) as IH'. clear IH Hw.
  cbn [flatten]. rewrite gtd_unfold, td_unfold.
  destruct (f l) as [[l' ch] r]. destruct r; [|unfold gres_rel; cbn; auto ..].
  destruct (gchildren_rel _ _ l' gs Hok IH') as (A & B & C & D).
  destruct (gmap_children_on (gtransform_down f) l' gs) as [lc rc].
  destruct (map_children_on IVec (transform_down IVec f) l' (flat_map (map flatten) gs)) as [lf rf].
  unfold gres_rel. cbn [fst snd data changed rec] in *. subst. rewrite B, C, D. auto.
Qed.

Theorem gtu_well_grouped f t :
  well_grouped t = true -> gres_rel (gtransform_up f t) (transform_up IVec f (flatten t)).
Proof.
  induction t as [l gs IH] using gtree_induction. intro W. destruct (well_grouped_inv l gs W) as [Hok Hw].
  pose proof (Forall2_mp _ _ gs IH Hw) as IH'. clear IH Hw.
  cbn [flatten]. rewrite gtu_unfold, tu_unfold.
  pose proof (gchildren_rel _ _ l gs Hok IH') as R.
  rewrite gmco_unfold, mco_vec_unfold in *.
  destruct (map_groups (gtransform_up f) gs) as [lc rc].
  destruct (map_until_stop_from (transform_up IVec f) Continue false (flat_map (map flatten) gs)) as [lf rf].
  destruct R as (A & B & C & D). cbn [fst snd data changed rec flatten] in *. subst lc.
  injection B as B. rewrite gtp_unfold, tp_unfold, C, D. unfold gres_rel.
  destruct (rec rf); [destruct (f l) as [[l'' ch2] r2]|..]; cbn [fst snd data changed rec flatten]; rewrite ?B; auto.
Qed.

(* ------------------------------------------------------------------ ... and the contract FAILS on trees that are not
   well grouped.  Witness: CASE WHEN 95 THEN <410> END (no base expression, no ELSE):
   GNode 500 [[] ; [GNode 95 []] ; [GNode 410 []] ; []].  f_up answers Jump on the THEN branch (410), the last
   child, so by the TreeNodeRecursion documentation f_up of the parent must be bypassed and the walk ends with
   Jump; the empty ELSE container resets the Jump to Continue and f_up(500) is invoked. *)
Definition case_no_else : gtree := GNode 500 [[]; [GNode 95 []]; [GNode 410 []]; []].
Definition up_jump_410 : vcb := vtab [(410, Jump)].
Definition rw_up_jump_410 : rcb := rtab [(410, (410, false, Jump))].

Theorem trailing_empty_container_refuted :
  exists (t : gtree) (fd fu : vcb) (rd ru : rcb),
    well_grouped t = false /\
    (* what the documented contract prescribes (linear scan of the flat tree) *)
    s_log (scan_tree (vlift fd) (vlift fu) (flatten t)) =
      [(PDown, 500); (PDown, 95); (PUp, 95); (PDown, 410); (PUp, 410)] /\
    tnr_of (s_mode (scan_tree (vlift fd) (vlift fu) (flatten t))) = Jump /\
    (* what the container composition does: f_up(500) is invoked and the walk ends with Continue *)
    gvisit fd fu t =
      ([(PDown, 500); (PDown, 95); (PUp, 95); (PDown, 410); (PUp, 410); (PUp, 500)], Continue) /\
    fst (gtransform_down_up rd ru t) =
      [(PDown, 500); (PDown, 95); (PUp, 95); (PDown, 410); (PUp, 410); (PUp, 500)] /\
    s_log (scan_tree rd ru (flatten t)) = [(PDown, 500); (PDown, 95); (PUp, 95); (PDown, 410); (PUp, 410)] /\
    (* apply_children: "Ok(TreeNodeRecursion) from the last invocation of f" would be Jump *)
    gapply_children (gvcall PDown fu) t = ([(PDown, 95); (PDown, 410)], Continue).
Proof.
  exists case_no_else, (vtab []), up_jump_410, id_cb, rw_up_jump_410.
  vm_compute. repeat split.
Qed.
