(* C42 -- proofs about Model/TreeNode.v (unbounded: induction over trees / child lists). *)
From Coq Require Import List ZArith Bool Lia Btauto.
From DF Require Import Base.Prelude Model.TreeNode.
Import ListNotations.
Open Scope Z_scope.

(* ------------------------------------------------------------------ induction principle for rose trees *)
Section TreeInd.
  Variable P : tree -> Prop.
  Hypothesis HNode : forall l cs, Forall P cs -> P (Node l cs).
  Fixpoint tree_induction (t : tree) : P t :=
    match t with
    | Node l cs =>
        HNode l cs ((fix go (cs : list tree) : Forall P cs :=
                       match cs with
                       | [] => Forall_nil P
                       | c :: r => Forall_cons c (tree_induction c) (go r)
                       end) cs)
    end.
End TreeInd.

(* ------------------------------------------------------------------ the log monad *)
Lemma bind_ret_l {A B} (a : A) (k : A -> M B) : bind (ret a) k = k a.
Proof. unfold bind, ret. destruct (k a). reflexivity. Qed.
Lemma bind_pair {A B} (lg : list event) (a : A) (k : A -> M B) :
  bind (lg, a) k = (lg ++ fst (k a), snd (k a)).
Proof. unfold bind. destruct (k a). reflexivity. Qed.
Lemma surj {A} (m : M A) : m = (fst m, snd m).
Proof. destruct m; reflexivity. Qed.

(* ================================================================== 1. the Fixpoints are the Rust expressions *)
(* fn apply_impl: f(node)?.visit_children(|| node.apply_children(|c| apply_impl(c, f))) *)
Lemma apply_rust_eq f t :
  apply f t = bind (vcall PDown f t) (fun r => visit_children r (fun _ => apply_children (apply f) t)).
Proof. destruct t; reflexivity. Qed.

(* fn visit: visitor.f_down(self)?.visit_children(|| self.apply_children(|c| c.visit(visitor)))?
                    .visit_parent(|| visitor.f_up(self)) *)
Lemma visit_rust_eq fd fu t :
  visit fd fu t =
  bind (vcall PDown fd t) (fun r =>
  bind (visit_children r (fun _ => apply_children (visit fd fu) t)) (fun rc =>
  visit_parent rc (fun _ => vcall PUp fu t))).
Proof. destruct t; reflexivity. Qed.

(* fn transform_down_impl: f(node)?.transform_children(|n| n.map_children(|c| transform_down_impl(c, f))) *)
Lemma transform_down_rust_eq im f t :
  transform_down im f t =
  bind (rcall PDown f t) (fun t1 => transform_children t1 (map_children im (transform_down im f))).
Proof. destruct t as [l cs]. cbn. destruct (f l) as [[l' ch] r]. destruct r; reflexivity. Qed.

(* fn transform_up_impl: node.map_children(|c| transform_up_impl(c, f))?.transform_parent(f) *)
Lemma transform_up_rust_eq im f t :
  transform_up im f t =
  bind (map_children im (transform_up im f) t) (fun t1 => transform_parent t1 (rcall PUp f)).
Proof. destruct t; reflexivity. Qed.

(* handle_transform_recursion!(f_down(node), recurse, f_up) *)
Lemma transform_down_up_rust_eq im fd fu t :
  transform_down_up im fd fu t =
  bind (rcall PDown fd t) (fun t1 =>
  bind (transform_children t1 (map_children im (transform_down_up im fd fu))) (fun t2 =>
  transform_parent t2 (rcall PUp fu))).
Proof. destruct t as [l cs]. cbn. destruct (fd l) as [[l' ch] r]. destruct r; reflexivity. Qed.

(* ================================================================== 2. apply / exists *)
Lemma downs_app a b : downs (a ++ b) = downs a ++ downs b.
Proof. apply map_app. Qed.
Lemma has_stop_app f a b : has_stop f (a ++ b) = has_stop f a || has_stop f b.
Proof. apply existsb_app. Qed.
Lemma upto_stop_app f a b :
  upto_stop f (a ++ b) = if has_stop f a then upto_stop f a else a ++ upto_stop f b.
Proof.
  induction a as [|x a IH]; [reflexivity|].
  cbn [app upto_stop has_stop existsb]. fold (has_stop f a). rewrite IH.
  destruct (f x); cbn [is_stop orb]; try reflexivity; destruct (has_stop f a); reflexivity.
Qed.

Definition apply_spec_of (f : vcb) (l : list Z) : M tnr :=
  (downs (upto_stop f l), if has_stop f l then Stop else Continue).

Lemma apply_children_spec f cs :
  Forall (fun c => apply f c = apply_spec_of f (pruned f c)) cs ->
  apply_until_stop_from (apply f) Continue cs = apply_spec_of f (flat_map (pruned f) cs).
Proof.
  induction 1 as [|c r Hc Hr IH]; [reflexivity|].
  cbn [apply_until_stop_from flat_map]. rewrite Hc. unfold apply_spec_of at 1.
  rewrite bind_pair. unfold apply_spec_of.
  rewrite upto_stop_app, has_stop_app.
  destruct (has_stop f (pruned f c)) eqn:E.
  - cbn. rewrite app_nil_r. reflexivity.
  - cbn [orb]. fold (apply_until_stop_from (apply f)). rewrite IH. unfold apply_spec_of. cbn [fst snd].
    rewrite downs_app.
    assert (upto_stop f (pruned f c) = pruned f c) as ->.
    { pose proof (upto_stop_app f (pruned f c) []) as H0. rewrite E, !app_nil_r in H0. exact H0. }
    reflexivity.
Qed.

(* apply visits exactly: the pre-order list, pruned below every Jump/Stop node, cut after the first Stop;
   it returns Stop iff a Stop was met and Continue otherwise (never Jump). *)
Theorem apply_contract f t :
  apply f t = (downs (upto_stop f (pruned f t)), if has_stop f (pruned f t) then Stop else Continue).
Proof.
  change (apply f t = apply_spec_of f (pruned f t)).
  induction t as [l cs IH] using tree_induction.
  cbn [apply pruned]. rewrite bind_pair. unfold apply_spec_of.
  cbn [upto_stop has_stop existsb downs map].
  destruct (f l) eqn:E; cbn [visit_children is_stop orb].
  - unfold apply_until_stop. rewrite (apply_children_spec f cs IH). reflexivity.
  - reflexivity.
  - reflexivity.
Qed.

Lemma pruned_all_continue f t : (forall l, f l = Continue) -> pruned f t = preorder t.
Proof.
  intro H. induction t as [l cs IH] using tree_induction. cbn. rewrite H. f_equal.
  induction IH as [|c r Hc _ IHr]; [reflexivity|]. cbn. rewrite Hc, IHr. reflexivity.
Qed.
Lemma upto_stop_none f l : has_stop f l = false -> upto_stop f l = l.
Proof.
  intro H. pose proof (upto_stop_app f l []) as H0. rewrite H, !app_nil_r in H0. exact H0.
Qed.
Lemma has_stop_all_continue f l : (forall x, f x = Continue) -> has_stop f l = false.
Proof. intro H. induction l; [reflexivity|]. cbn. rewrite H. exact IHl. Qed.

(* with an always-Continue callback apply visits every node, in pre-order *)
Theorem apply_preorder f t :
  (forall l, f l = Continue) -> apply f t = (downs (preorder t), Continue).
Proof.
  intro H. rewrite apply_contract, (pruned_all_continue f t H).
  rewrite (has_stop_all_continue f _ H), upto_stop_none by (apply has_stop_all_continue; exact H).
  reflexivity.
Qed.

(* exists *)
Definition hitf (p : Z -> bool) : vcb := fun l => if p l then Stop else Continue.
Lemma upto_first_app p a b :
  upto_first p (a ++ b) = if existsb p a then upto_first p a else a ++ upto_first p b.
Proof.
  induction a as [|x a IH]; [reflexivity|]. cbn. rewrite IH.
  destruct (p x); [reflexivity|]. cbn. destruct (existsb p a); reflexivity.
Qed.
Lemma hit_stop p l : has_stop (hitf p) l = existsb p l.
Proof. induction l; [reflexivity|]. cbn. unfold hitf at 1. destruct (p a); cbn; [reflexivity|exact IHl]. Qed.
Lemma hit_upto p l : upto_stop (hitf p) l = upto_first p l.
Proof. induction l; [reflexivity|]. cbn. unfold hitf at 1. destruct (p a); cbn; [reflexivity|]. rewrite IHl. reflexivity. Qed.
Lemma hit_pruned p t :
  upto_first p (pruned (hitf p) t) = upto_first p (preorder t) /\
  existsb p (pruned (hitf p) t) = existsb p (preorder t).
Proof.
  induction t as [l cs IH] using tree_induction. cbn. unfold hitf at 1 3. destruct (p l) eqn:E; cbn.
  - split; reflexivity.
  - assert (upto_first p (flat_map (pruned (hitf p)) cs) = upto_first p (flat_map preorder cs) /\
            existsb p (flat_map (pruned (hitf p)) cs) = existsb p (flat_map preorder cs)) as [H1 H2].
    { induction IH as [|c r [Hc1 Hc2] _ [IH1 IH2]]; [split; reflexivity|]. cbn.
      rewrite !upto_first_app, !existsb_app, Hc1, Hc2, IH1, IH2.
      split; [|reflexivity].
      destruct (existsb p (preorder c)) eqn:E2; [reflexivity|].
      f_equal.
      (* no hit in c: nothing is pruned in c *)
      clear -E2. revert E2. induction c as [l cs IH] using tree_induction. cbn. unfold hitf at 1.
      destruct (p l); cbn; [discriminate|]. intro H. f_equal.
      induction IH as [|c r Hc _ IHr]; [reflexivity|]. cbn in *. rewrite existsb_app in H.
      apply orb_false_iff in H as [Ha Hb]. rewrite (Hc Ha), (IHr Hb). reflexivity. }
    rewrite H1, H2. split; reflexivity.
Qed.
Lemma existsb_upto_first p l : existsb p (upto_first p l) = existsb p l.
Proof.
  induction l; [reflexivity|]. cbn [upto_first]. destruct (p a) eqn:E; cbn [existsb]; rewrite E; cbn [orb];
    [reflexivity|exact IHl].
Qed.

Lemma existsb_downs p l : existsb (fun e : event => p (snd e)) (downs l) = existsb p l.
Proof. induction l; [reflexivity|]. cbn. rewrite IHl. reflexivity. Qed.

(* exists(p) = "some node satisfies p"; p is evaluated in pre-order and never after the first hit *)
Theorem exists_contract p t :
  exists_ p t = (downs (upto_first p (preorder t)), existsb p (preorder t)).
Proof.
  unfold exists_. change (fun l => if p l then Stop else Continue) with (hitf p).
  rewrite apply_contract. rewrite hit_upto. destruct (hit_pruned p t) as [H1 H2]. rewrite H1.
  f_equal. rewrite existsb_downs. apply existsb_upto_first.
Qed.
