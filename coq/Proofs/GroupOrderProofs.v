(* C06 -- proofs about the ordered aggregation bookkeeping (Model/GroupOrder.v). *)
From Coq Require Import List ZArith Bool Lia Permutation Arith Sorted.
From DF Require Import Base.Prelude Model.RefSQL Proofs.RefSQLLaws Model.PhysDecomp Proofs.PhysDecompProofs
     Proofs.PhysDecompAgg Proofs.PhysDecompGroup Model.GroupOrder.
Import ListNotations.
Local Open Scope nat_scope.

(* ------------------------------------------------------------------ clustered lists *)
Section Clustered.
  Context {S : Type}.
  Implicit Types (l : list S).

  Lemma clustered_prefix : forall a b : list S, clustered (a ++ b) -> clustered a.
  Proof.
    intros a b C pre x post E Hin. apply (C pre x (post ++ b)); auto. rewrite E, <- app_assoc. reflexivity.
  Qed.
  Lemma clustered_suffix : forall a b : list S, clustered (a ++ b) -> clustered b.
  Proof.
    intros a b C pre x post E Hin. destruct (C (a ++ pre) x post) as [pre' E'].
    - rewrite E, <- app_assoc. reflexivity.
    - apply in_or_app; right; auto.
    - destruct (exists_last (l := pre)) as [p0 [z Ez]]; [intros ->; destruct Hin|].
      subst pre. rewrite app_assoc in E'. apply app_inj_tail in E'. destruct E' as [_ ->]. exists p0; reflexivity.
  Qed.
  (* a value different from its predecessor has never occurred before *)
  Lemma clustered_fresh : forall (pre : list S) (z x : S) (post : list S),
    clustered ((pre ++ [z]) ++ x :: post) -> x <> z -> ~ In x (pre ++ [z]).
  Proof.
    intros pre z x post C Hne Hin. destruct (C (pre ++ [z]) x post eq_refl Hin) as [pre' E].
    apply app_inj_tail in E. destruct E as [_ E]. congruence.
  Qed.
  (* a value that is not the current one never comes back *)
  Lemma clustered_closed : forall (rest seen : list S) (z x : S),
    clustered ((seen ++ [z]) ++ rest) -> In x (seen ++ [z]) -> x <> z -> ~ In x rest.
  Proof.
    induction rest as [|r rest IH]; intros seen z x C Hin Hne Hr; [destruct Hr|].
    destruct Hr as [->|Hr].
    - exact (clustered_fresh seen z x rest C Hne Hin).
    - assert (Hxr : x <> r).
      { intros ->. exact (clustered_fresh seen z r rest C Hne Hin). }
      apply (IH (seen ++ [z]) r x); auto.
      + rewrite <- app_assoc. exact C.
      + apply in_or_app; left; auto.
  Qed.

  (* sorted (w.r.t. any antisymmetric relation, e.g. a lexicographic order on the key) implies clustered *)
  Lemma sorted_clustered : forall (R : S -> S -> Prop),
    (forall a b, R a b -> R b a -> a = b) ->
    forall l, StronglySorted R l -> clustered l.
  Proof.
    intros R anti l SS pre x post E Hin.
    destruct (exists_last (l := pre)) as [p0 [z Ez]]; [intros ->; destruct Hin|]. subst pre.
    assert (z = x); [|subst; exists p0; reflexivity].
    apply in_app_or in Hin. destruct Hin as [Hin|[->|[]]]; [|reflexivity].
    apply in_split in Hin. destruct Hin as [q1 [q2 ->]].
    rewrite E in SS. clear E.
    (* l = (q1 ++ x :: q2) ++ [z] ++ x :: post *)
    assert (G : forall (a b : list S), StronglySorted R (a ++ b) -> StronglySorted R b).
    { induction a; intros b H; auto. inversion H; subst. auto. }
    rewrite <- !app_assoc in SS. apply G in SS. cbn [app] in SS. inversion SS as [|? ? S1 F1]; subst.
    assert (Rxz : R x z). { rewrite Forall_forall in F1. apply F1. apply in_or_app; right. left; reflexivity. }
    apply G in S1. cbn [app] in S1. inversion S1 as [|? ? S2 F2]; subst.
    assert (Rzx : R z x). { rewrite Forall_forall in F2. apply F2. left; reflexivity. }
    apply anti; auto.
  Qed.
End Clustered.

(* ------------------------------------------------------------------ interning *)
Section Intern.
  Context {A : Type}.
  Implicit Types (gs ga gb : groups A) (b : list (row * A)) (k : row) (x : A).

  Lemma row_neq_eqb : forall k k', k <> k' -> row_eqb k k' = false.
  Proof. intros k k' H. destruct (row_eqb k k') eqn:E; auto. apply row_eqb_eq in E. contradiction. Qed.

  Lemma add_row_app_r : forall k x ga gb, ~ In k (map fst ga) -> add_row k x (ga ++ gb) = ga ++ add_row k x gb.
  Proof.
    induction ga as [|[k' xs] ga IH]; intros gb H; [reflexivity|]. cbn [app add_row].
    rewrite row_neq_eqb; [|intros ->; apply H; left; reflexivity].
    f_equal. apply IH. intros X; apply H; right; exact X.
  Qed.
  Lemma add_row_absent : forall k x gs, ~ In k (map fst gs) -> add_row k x gs = gs ++ [(k, [x])].
  Proof. intros. rewrite <- (app_nil_r gs) at 1. rewrite add_row_app_r; auto. Qed.
  Lemma key_index_app_r : forall k ga gb, ~ In k (map fst ga) -> key_index k (ga ++ gb) = length ga + key_index k gb.
  Proof.
    induction ga as [|[k' xs] ga IH]; intros gb H; [reflexivity|]. cbn [app key_index length].
    rewrite row_neq_eqb; [|intros ->; apply H; left; reflexivity].
    rewrite IH; [reflexivity|]. intros X; apply H; right; exact X.
  Qed.
  Lemma key_index_absent : forall k gs, ~ In k (map fst gs) -> key_index k gs = length gs.
  Proof. intros. rewrite <- (app_nil_r gs) at 1. rewrite key_index_app_r; auto. Qed.
  Lemma key_index_present : forall k gs, In k (map fst gs) -> key_index k gs < length gs.
  Proof.
    induction gs as [|[k' xs] gs IH]; intros H; [destruct H|]. cbn [key_index length].
    destruct (row_eqb k k') eqn:E; [lia|]. destruct H as [H|H].
    - cbn in H. subst. rewrite row_eqb_refl in E. discriminate.
    - apply IH in H. lia.
  Qed.

  Lemma add_row_keys_in : forall k x gs k0, In k0 (map fst (add_row k x gs)) <-> In k0 (map fst gs) \/ k0 = k.
  Proof.
    induction gs as [|[k' xs] gs IH]; intros k0; cbn [add_row].
    - cbn. intuition.
    - destruct (row_eqb k k') eqn:E.
      + apply row_eqb_eq in E; subst. cbn. intuition.
      + cbn [map fst In]. rewrite IH. intuition.
  Qed.
  Lemma add_row_present_len : forall k x gs, In k (map fst gs) -> length (add_row k x gs) = length gs.
  Proof.
    induction gs as [|[k' xs] gs IH]; intros H; [destruct H|]. cbn [add_row].
    destruct (row_eqb k k') eqn:E; [reflexivity|]. cbn [length]. f_equal. apply IH.
    destruct H as [H|H]; auto. cbn in H; subst. rewrite row_eqb_refl in E; discriminate.
  Qed.
  Lemma add_row_len_le : forall k x gs, length gs <= length (add_row k x gs).
  Proof.
    induction gs as [|[k' xs] gs IH]; cbn [add_row length]; [lia|].
    destruct (row_eqb k k'); cbn [length]; lia.
  Qed.
  Lemma add_row_absent_len : forall k x gs, ~ In k (map fst gs) -> length (add_row k x gs) = S (length gs).
  Proof. intros. rewrite add_row_absent; auto. rewrite app_length. cbn. lia. Qed.
  Lemma in_keys_dec : forall k gs, {In k (map fst gs)} + {~ In k (map fst gs)}.
  Proof.
    intros. destruct (existsb (row_eqb k) (map fst gs)) eqn:E.
    - left. apply existsb_exists in E. destruct E as [k' [H E]]. apply row_eqb_eq in E; subst; auto.
    - right. intros H. assert (existsb (row_eqb k) (map fst gs) = true); [|congruence].
      apply existsb_exists. exists k; split; auto. apply row_eqb_refl.
  Qed.

  Lemma intern_all_app : forall b1 b2 gs, intern_all gs (b1 ++ b2) = intern_all (intern_all gs b1) b2.
  Proof. induction b1 as [|[k x] b1 IH]; intros; cbn [app intern_all]; auto. Qed.
  Lemma intern_all_app_r : forall b ga gb, (forall p, In p b -> ~ In (fst p) (map fst ga)) ->
    intern_all (ga ++ gb) b = ga ++ intern_all gb b.
  Proof.
    induction b as [|[k x] b IH]; intros ga gb H; [reflexivity|]. cbn [intern_all].
    rewrite add_row_app_r; [|apply (H (k, x)); left; reflexivity].
    apply IH. intros p Hp. apply H. right; exact Hp.
  Qed.
  Lemma batch_indices_app_r : forall b ga gb, (forall p, In p b -> ~ In (fst p) (map fst ga)) ->
    batch_indices (ga ++ gb) b = map (fun i => length ga + i) (batch_indices gb b).
  Proof.
    induction b as [|[k x] b IH]; intros ga gb H; [reflexivity|]. cbn [batch_indices map].
    rewrite key_index_app_r; [|apply (H (k, x)); left; reflexivity].
    rewrite add_row_app_r; [|apply (H (k, x)); left; reflexivity].
    f_equal. apply IH. intros p Hp. apply H. right; exact Hp.
  Qed.
  Lemma intern_keys_in : forall b gs k0, In k0 (map fst (intern_all gs b)) <-> In k0 (map fst gs) \/ In k0 (map fst b).
  Proof.
    induction b as [|[k x] b IH]; intros gs k0; cbn [intern_all map fst In]; [tauto|].
    rewrite IH, add_row_keys_in. intuition.
  Qed.
  Lemma intern_len_le : forall b gs, length gs <= length (intern_all gs b).
  Proof.
    induction b as [|[k x] b IH]; intros gs; cbn [intern_all]; [lia|].
    specialize (IH (add_row k x gs)). pose proof (add_row_len_le k x gs). lia.
  Qed.
  (* a batch that creates no group only contains keys of the table *)
  Lemma intern_same_len : forall b gs, length (intern_all gs b) = length gs ->
    forall p, In p b -> In (fst p) (map fst gs).
  Proof.
    induction b as [|[k x] b IH]; intros gs H p Hp; [destruct Hp|]. cbn [intern_all] in H.
    pose proof (intern_len_le b (add_row k x gs)) as L1. pose proof (add_row_len_le k x gs) as L2.
    assert (Hk : In k (map fst gs)).
    { destruct (in_keys_dec k gs) as [Y|N]; auto. apply (add_row_absent_len k x) in N. lia. }
    destruct Hp as [<-|Hp]; [exact Hk|].
    assert (Hin : In (fst p) (map fst (add_row k x gs))).
    { apply IH; auto. rewrite add_row_present_len in *; auto. }
    apply add_row_keys_in in Hin. destruct Hin as [Hin| ->]; auto.
  Qed.
  Lemma intern_all_fresh : forall b gs, (forall p, In p b -> ~ In (fst p) (map fst gs)) ->
    intern_all gs b = gs ++ fs_groups b.
  Proof. intros. rewrite <- (app_nil_r gs) at 1. apply intern_all_app_r; auto. Qed.
  Lemma batch_indices_fresh_hd : forall k x b gs, ~ In k (map fst gs) ->
    nth_error (batch_indices gs ((k, x) :: b)) 0 = Some (length gs).
  Proof. intros. cbn [batch_indices nth_error]. rewrite key_index_absent; auto. Qed.
  Lemma batch_indices_app : forall b1 b2 gs,
    batch_indices gs (b1 ++ b2) = batch_indices gs b1 ++ batch_indices (intern_all gs b1) b2.
  Proof. induction b1 as [|[k x] b1 IH]; intros; cbn [app batch_indices intern_all]; [reflexivity|]. f_equal. apply IH. Qed.
  Lemma batch_indices_len : forall b gs, length (batch_indices gs b) = length b.
  Proof. induction b as [|[k x] b IH]; intros; cbn [batch_indices length]; auto. Qed.

  (* ---- the content of the table: NoDup keys, members in arrival order *)
  Lemma add_row_nodup : forall k x gs, NoDup (map fst gs) -> NoDup (map fst (add_row k x gs)).
  Proof.
    intros k x gs N. destruct (in_keys_dec k gs) as [Y|Nk].
    - assert (E : map fst (add_row k x gs) = map fst gs); [|rewrite E; auto].
      clear N. induction gs as [|[k' xs] gs IH]; [destruct Y|]. cbn [add_row].
      destruct (row_eqb k k') eqn:E; [reflexivity|]. cbn [map fst]. f_equal. apply IH.
      destruct Y as [Y|Y]; auto. cbn in Y; subst. rewrite row_eqb_refl in E; discriminate.
    - rewrite add_row_absent; auto. rewrite map_app. cbn [map fst].
      apply nodup_app; auto.
      + constructor; [intros []|constructor].
      + intros y Hy [<-|[]]. contradiction.
  Qed.
  Lemma intern_nodup : forall b gs, NoDup (map fst gs) -> NoDup (map fst (intern_all gs b)).
  Proof. induction b as [|[k x] b IH]; intros; cbn [intern_all]; auto. apply IH. apply add_row_nodup; auto. Qed.
  Lemma fs_groups_nodup : forall l : list (row * A), NoDup (map fst (fs_groups l)).
  Proof. intros. apply intern_nodup. constructor. Qed.

  Lemma add_row_content : forall (c : row -> list A) k x gs,
    NoDup (map fst gs) -> (forall g, In g gs -> snd g = c (fst g)) -> (~ In k (map fst gs) -> c k = []) ->
    forall g, In g (add_row k x gs) -> snd g = if row_eqb (fst g) k then c (fst g) ++ [x] else c (fst g).
  Proof.
    induction gs as [|[k' xs] gs IH]; intros N Hc Hk g Hg; cbn [add_row] in Hg.
    - destruct Hg as [<-|[]]. cbn [fst snd]. rewrite row_eqb_refl, Hk; auto.
    - cbn [map fst] in N. inversion N as [|? ? Hn Hd]; subst.
      destruct (row_eqb k k') eqn:E.
      + apply row_eqb_eq in E; subst k'. destruct Hg as [<-|Hg]; cbn [fst snd].
        * rewrite row_eqb_refl. f_equal. apply (Hc (k, xs)). left; reflexivity.
        * destruct (row_eqb (fst g) k) eqn:E2.
          -- apply row_eqb_eq in E2. exfalso. apply Hn. rewrite <- E2. apply in_map; auto.
          -- apply Hc. right; auto.
      + destruct Hg as [<-|Hg]; cbn [fst snd].
        * rewrite row_eqb_sym, E. apply (Hc (k', xs)). left; reflexivity.
        * apply IH; auto.
          -- intros g' Hg'. apply Hc. right; auto.
          -- intros X. apply Hk. cbn [map fst]. intros [Y|Y]; [subst; rewrite row_eqb_refl in E; discriminate | auto].
  Qed.

  Lemma members_snoc : forall k k' x (l : list (row * A)),
    members k (l ++ [(k', x)]) = if row_eqb k k' then members k l ++ [x] else members k l.
  Proof.
    intros. rewrite members_app. unfold members at 2. cbn [filter fst]. destruct (row_eqb k k'); cbn [map snd]; auto.
    rewrite app_nil_r. reflexivity.
  Qed.
  Lemma fs_groups_snoc : forall (l : list (row * A)) k x, fs_groups (l ++ [(k, x)]) = add_row k x (fs_groups l).
  Proof. intros. unfold fs_groups. rewrite intern_all_app. reflexivity. Qed.
  Lemma fs_groups_keys : forall (l : list (row * A)) k, In k (map fst (fs_groups l)) <-> In k (map fst l).
  Proof. intros. unfold fs_groups. rewrite intern_keys_in. cbn. tauto. Qed.
  Lemma fs_groups_members : forall (l : list (row * A)) g, In g (fs_groups l) -> snd g = members (fst g) l.
  Proof.
    induction l as [|[k x] l IH] using rev_ind; intros g Hg; [destruct Hg|].
    rewrite fs_groups_snoc in Hg. rewrite members_snoc.
    apply (add_row_content (fun k0 => members k0 l) k x (fs_groups l)); auto.
    - apply fs_groups_nodup.
    - intros X. apply members_notin. intros Y. apply X. apply fs_groups_keys; auto.
  Qed.
  Lemma fs_groups_In : forall (l : list (row * A)) k xs,
    In (k, xs) (fs_groups l) <-> In k (map fst l) /\ xs = members k l.
  Proof.
    intros l k xs. split.
    - intros H. split.
      + apply fs_groups_keys. apply (in_map fst) in H. exact H.
      + apply fs_groups_members in H. exact H.
    - intros [Hk ->]. apply fs_groups_keys in Hk. apply in_map_iff in Hk. destruct Hk as [g [<- Hg]].
      rewrite <- (fs_groups_members _ _ Hg). destruct g; exact Hg.
  Qed.
  (* the first-seen grouping is the definition's grouping, as a bag (and group by group: same members, same order) *)
  Lemma fs_groups_group_pairs : forall l : list (row * A), Permutation (fs_groups l) (group_pairs l).
  Proof.
    intros l. apply keyed_perm.
    - apply fs_groups_nodup.
    - apply group_keys_nodup.
    - intros [k xs]. rewrite fs_groups_In. split.
      + intros [Hk ->]. apply group_pairs_keys in Hk. apply in_map_iff in Hk. destruct Hk as [g [<- Hg]].
        rewrite <- (group_pairs_members _ _ Hg). destruct g; exact Hg.
      + intros H. split.
        * apply group_pairs_keys. apply (in_map fst) in H. exact H.
        * apply group_pairs_members in H. exact H.
  Qed.
End Intern.

(* ------------------------------------------------------------------ small list facts *)
Lemma firstn_plus : forall {T} (n m : nat) (l : list T), firstn (n + m) l = firstn n l ++ firstn m (skipn n l).
Proof. induction n; intros m l; [reflexivity|]. destruct l; cbn [plus firstn skipn app]; [destruct m; reflexivity|]. f_equal. apply IHn. Qed.
Lemma skipn_plus : forall {T} (n m : nat) (l : list T), skipn m (skipn n l) = skipn (n + m) l.
Proof. induction n; intros m l; [reflexivity|]. destruct l; cbn [plus skipn]; [destruct m; reflexivity|]. apply IHn. Qed.
Lemma firstn_app_exact : forall {T} (a b : list T), firstn (length a) (a ++ b) = a.
Proof. induction a; intros; cbn; [reflexivity|]. f_equal. apply IHa. Qed.
Lemma skipn_app_exact : forall {T} (a b : list T), skipn (length a) (a ++ b) = b.
Proof. induction a; intros; cbn; [reflexivity|]. apply IHa. Qed.

Lemma last_in_suffix : forall {T} (pre suf s0 : list T) z, suf <> [] -> pre ++ suf = s0 ++ [z] -> In z suf.
Proof.
  intros T pre suf s0 z Hne E. destruct (exists_last Hne) as [s' [zb ->]].
  rewrite app_assoc in E. apply app_inj_tail in E. destruct E as [_ ->]. apply in_or_app; right; left; reflexivity.
Qed.
Lemma key_in_groups : forall {A} (k : row) (gs : groups A), In k (map fst gs) -> exists g, In g gs /\ fst g = k.
Proof. intros A k gs H. apply in_map_iff in H. destruct H as [g [E H]]. exists g; auto. Qed.

(* the start of the last run of equal consecutive rows *)
Lemma last_range_start_spec : forall l : list row, l <> [] ->
  exists l1 x l2, l = l1 ++ x :: l2 /\ length l1 = last_range_start l /\ (forall y, In y l2 -> y = x) /\
                  (l1 = [] \/ exists l0 y, l1 = l0 ++ [y] /\ y <> x).
Proof.
  induction l as [|x l IH]; intros Hne; [contradiction|]. cbn [last_range_start].
  destruct (forallb (row_eqb x) l) eqn:F.
  - exists [], x, l. repeat split; auto. intros y Hy. rewrite forallb_forall in F. apply F in Hy. apply row_eqb_eq in Hy. auto.
  - assert (Hl : l <> []) by (intros ->; discriminate). destruct (IH Hl) as [l1 [x' [l2 [E [L [Q D]]]]]].
    exists (x :: l1), x', l2. repeat split; auto.
    + rewrite E. reflexivity.
    + cbn [length]. rewrite L. reflexivity.
    + right. destruct D as [->|[l0 [y [-> Hy]]]].
      * exists [], x. split; auto. intros ->. cbn [app] in E. subst l.
        assert (forallb (row_eqb x') (x' :: l2) = true); [|congruence].
        apply forallb_forall. intros y [<-|Hy]; [apply row_eqb_refl|]. apply Q in Hy. subst. apply row_eqb_refl.
      * exists (x :: l0), y. split; auto.
Qed.

(* ------------------------------------------------------------------ the invariant of early emission *)
Section Safe.
  Context {A : Type} (sk : row -> row).
  Definition skp (p : row * A) : row := sk (fst p).
  Implicit Types (seen b : list (row * A)) (E gs : groups A) (c : nat).

  (* E = the groups emitted so far, gs = the groups in the table, c = how many leading groups of the table the
     ordering state allows to emit *)
  Record inv seen E gs c : Prop := {
    inv_cat : E ++ gs = fs_groups seen;
    inv_c : c <= length gs;
    inv_closed : forall g s0 z, seen = s0 ++ [z] -> In g (E ++ firstn c gs) -> sk (fst g) <> skp z;
    inv_active : forall g s0 z, seen = s0 ++ [z] -> In g (skipn c gs) -> sk (fst g) = skp z
  }.

  Lemma inv_nil : inv [] [] [] 0.
  Proof. constructor; cbn; auto; intros g s0 z H; destruct s0; discriminate. Qed.

  Lemma group_key_seen : forall seen (g : row * list A), In g (fs_groups seen) -> In (sk (fst g)) (map skp seen).
  Proof.
    intros seen g Hg. apply (in_map fst) in Hg. apply (proj1 (fs_groups_keys _ _)) in Hg. apply in_map_iff in Hg.
    destruct Hg as [p [E Hp]]. apply in_map_iff. exists p. split; auto. unfold skp. rewrite E. reflexivity.
  Qed.

  Lemma fresh_after : forall (pre : list (row * A)) z x post,
    clustered (map skp ((pre ++ [z]) ++ x :: post)) -> skp x <> skp z -> ~ In (skp x) (map skp (pre ++ [z])).
  Proof.
    intros pre z x post C Hne. rewrite !map_app in C. cbn [map] in C. rewrite map_app. cbn [map].
    apply (clustered_fresh (map skp pre) (skp z) (skp x) (map skp post)); auto.
  Qed.

  (* a group that may be emitted (or was emitted) never receives a later row *)
  Lemma closed_absent : forall seen E gs c b, inv seen E gs c -> clustered (map skp (seen ++ b)) ->
    forall g p, In g (E ++ firstn c gs) -> In p b -> skp p <> sk (fst g).
  Proof.
    intros seen E gs c b I C g p Hg Hp Heq.
    assert (Hfs : In g (fs_groups seen)).
    { rewrite <- (inv_cat _ _ _ _ I). apply in_app_or in Hg. apply in_or_app. destruct Hg as [Hg|Hg]; auto.
      right. rewrite <- (firstn_skipn c gs). apply in_or_app; left; exact Hg. }
    destruct (exists_last (l := seen)) as [s0 [z Ez]].
    { intros ->. destruct Hfs. }
    pose proof (inv_closed _ _ _ _ I g s0 z Ez Hg) as Hne.
    apply group_key_seen in Hfs. rewrite Ez, map_app in Hfs. cbn [map] in Hfs.
    rewrite Ez, !map_app in C. cbn [map] in C.
    apply (clustered_closed (map skp b) (map skp s0) (skp z) (sk (fst g)) C Hfs Hne).
    rewrite <- Heq. apply in_map. exact Hp.
  Qed.

  Lemma inv_emit : forall seen E gs c n, inv seen E gs c -> n <= c ->
    inv seen (E ++ firstn n gs) (skipn n gs) (c - n).
  Proof.
    intros seen E gs c n I Hn. pose proof (inv_c _ _ _ _ I) as Hc.
    assert (F : firstn n gs ++ firstn (c - n) (skipn n gs) = firstn c gs).
    { rewrite <- firstn_plus. f_equal. lia. }
    assert (K : skipn (c - n) (skipn n gs) = skipn c gs).
    { rewrite skipn_plus. f_equal. lia. }
    constructor.
    - rewrite <- app_assoc, firstn_skipn. apply (inv_cat _ _ _ _ I).
    - rewrite skipn_length. lia.
    - intros g s0 z Ez Hg. apply (inv_closed _ _ _ _ I g s0 z Ez). rewrite <- app_assoc, F in Hg. exact Hg.
    - intros g s0 z Ez Hg. apply (inv_active _ _ _ _ I g s0 z Ez). rewrite K in Hg. exact Hg.
  Qed.

  (* what one input batch does to the table, and the two ways the ordering columns can continue *)
  Definition same_run seen b : Prop := exists s0 z, seen = s0 ++ [z] /\ forall p, In p b -> skp p = skp z.
  Definition fresh_run seen gs b c' : Prop :=
    exists b1 p2 b2, b = b1 ++ p2 :: b2 /\ length b1 = last_range_start (map skp b) /\
      (forall p, In p b2 -> skp p = skp p2) /\ ~ In (skp p2) (map skp (seen ++ b1)) /\
      c' = length (intern_all gs b1) /\ ~ In (fst p2) (map fst (intern_all gs b1)) /\
      intern_all gs b = intern_all gs b1 ++ fs_groups (p2 :: b2).

  Lemma inv_batch : forall seen E gs c b, inv seen E gs c -> clustered (map skp (seen ++ b)) -> b <> [] ->
    (same_run seen b /\ last_range_start (map skp b) = 0 /\ inv (seen ++ b) E (intern_all gs b) c) \/
    (exists c', fresh_run seen gs b c' /\ ~ same_run seen b /\ c <= c' /\ inv (seen ++ b) E (intern_all gs b) c').
  Proof.
    intros seen E gs c b I C Hb.
    assert (CA : forall g p, In g (E ++ firstn c gs) -> In p b -> fst p <> fst g).
    { intros g p Hg Hp Heq. apply (closed_absent seen E gs c b I C g p Hg Hp). unfold skp. rewrite Heq. reflexivity. }
    assert (Hm : map skp b <> []) by (destruct b; [contradiction | discriminate]).
    destruct (last_range_start_spec (map skp b) Hm) as [l1 [x [l2 [El [Ll [Q D]]]]]].
    apply map_eq_app in El. destruct El as [b1 [b' [Eb [E1 E2]]]].
    apply map_eq_cons in E2. destruct E2 as [p2 [b2 [-> [Ex E2]]]]. subst l1 l2 x.
    rewrite map_length in Ll.
    assert (Q' : forall p, In p b2 -> skp p = skp p2). { intros p Hp. apply Q. apply in_map. exact Hp. }
    clear Q.
    (* is the last run of the batch the continuation of the run the previous batch ended in? *)
    assert (Dec : (b1 = [] /\ exists s0 z, seen = s0 ++ [z] /\ skp z = skp p2) \/
                  ~ In (skp p2) (map skp (seen ++ b1))).
    { destruct D as [D|[l0 [y [El Hy]]]].
      - apply map_eq_nil in D. subst b1. destruct seen as [|s seen'] eqn:Es.
        + right. cbn. intros [].
        + destruct (exists_last (l := s :: seen')) as [s0 [z Ez]]; [discriminate|]. rewrite Ez in *.
          destruct (row_eqb (skp z) (skp p2)) eqn:Eq.
          * apply row_eqb_eq in Eq. left. split; auto. exists s0, z. auto.
          * right. rewrite app_nil_r. rewrite Eb in C. cbn [app] in C.
            apply (fresh_after s0 z p2 b2 C). intros X. rewrite X, row_eqb_refl in Eq. discriminate.
      - right. apply map_eq_app in El. destruct El as [b0 [by_ [-> [<- Ey]]]].
        apply map_eq_cons in Ey. destruct Ey as [py [bn [-> [<- En]]]]. apply map_eq_nil in En. subst bn.
        rewrite Eb in C.
        replace (seen ++ (b0 ++ [py]) ++ p2 :: b2) with (((seen ++ b0) ++ [py]) ++ p2 :: b2) in C
          by (rewrite <- !app_assoc; reflexivity).
        replace (seen ++ b0 ++ [py]) with ((seen ++ b0) ++ [py]) by (rewrite <- !app_assoc; reflexivity).
        apply (fresh_after (seen ++ b0) py p2 b2 C). intros X. apply Hy. symmetry. exact X. }
    pose proof (inv_c _ _ _ _ I) as Hc.
    destruct Dec as [[-> [s0 [z [Ez Hz]]]]|NF].
    - (* the batch continues the current run *)
      cbn [app] in Eb. cbn [length] in Ll.
      assert (SR : forall p, In p b -> skp p = skp z).
      { intros p Hp. rewrite Eb in Hp. destruct Hp as [<-|Hp]; [symmetry; exact Hz|]. rewrite Q'; auto. }
      left. split; [exists s0, z; auto|]. split; [symmetry; exact Ll|].
      assert (GS : intern_all gs b = firstn c gs ++ intern_all (skipn c gs) b).
      { rewrite <- (firstn_skipn c gs) at 1. apply intern_all_app_r. intros p Hp Hk.
        apply key_in_groups in Hk. destruct Hk as [g [Hg Eg]]. apply (CA g p); auto. apply in_or_app; right; auto. }
      assert (ES : intern_all (E ++ gs) b = E ++ intern_all gs b).
      { apply intern_all_app_r. intros p Hp Hk.
        apply key_in_groups in Hk. destruct Hk as [g [Hg Eg]]. apply (CA g p); auto. apply in_or_app; left; auto. }
      assert (Lf : length (firstn c gs) = c) by (apply firstn_length_le; exact Hc).
      constructor.
      + unfold fs_groups. rewrite intern_all_app. fold (fs_groups seen). rewrite <- (inv_cat _ _ _ _ I). symmetry. exact ES.
      + pose proof (intern_len_le b gs). lia.
      + intros g s0' z' Ez' Hg. apply (last_in_suffix seen b s0' z' Hb) in Ez'. rewrite (SR z' Ez').
        apply (inv_closed _ _ _ _ I g s0 z Ez). rewrite GS in Hg. rewrite <- Lf in Hg at 1. rewrite firstn_app_exact in Hg. exact Hg.
      + intros g s0' z' Ez' Hg. apply (last_in_suffix seen b s0' z' Hb) in Ez'. rewrite (SR z' Ez').
        rewrite GS in Hg. rewrite <- Lf in Hg at 1. rewrite skipn_app_exact in Hg.
        apply (in_map fst) in Hg. apply intern_keys_in in Hg. destruct Hg as [Hg|Hg].
        * apply key_in_groups in Hg. destruct Hg as [g0 [Hg0 Eg0]]. rewrite <- Eg0.
          apply (inv_active _ _ _ _ I g0 s0 z Ez Hg0).
        * apply in_map_iff in Hg. destruct Hg as [p [Ep Hp]]. rewrite <- Ep. apply (SR p Hp).
    - (* the last run of the batch starts with a value of the ordering columns never seen before *)
      right. set (G1 := intern_all gs b1). exists (length G1).
      assert (Hsub : forall p, In p b1 -> In p b). { intros p Hp. rewrite Eb. apply in_or_app; left; auto. }
      assert (ES1 : intern_all (E ++ gs) b1 = E ++ G1).
      { apply intern_all_app_r. intros p Hp Hk.
        apply key_in_groups in Hk. destruct Hk as [g [Hg Eg]]. apply (CA g p); auto. apply in_or_app; left; auto. }
      assert (FS1 : fs_groups (seen ++ b1) = E ++ G1).
      { unfold fs_groups. rewrite intern_all_app. fold (fs_groups seen). rewrite <- (inv_cat _ _ _ _ I). exact ES1. }
      assert (KS : forall g, In g (E ++ G1) -> In (sk (fst g)) (map skp (seen ++ b1))).
      { intros g Hg. apply group_key_seen. rewrite FS1. exact Hg. }
      assert (R2 : forall p, In p (p2 :: b2) -> skp p = skp p2).
      { intros p [<-|Hp]; auto. }
      assert (AB : forall p, In p (p2 :: b2) -> ~ In (fst p) (map fst (E ++ G1))).
      { intros p Hp Hk. apply key_in_groups in Hk. destruct Hk as [g [Hg Eg]]. apply NF.
        rewrite <- (R2 p Hp). unfold skp at 1. rewrite <- Eg. apply KS. exact Hg. }
      assert (AB1 : forall p, In p (p2 :: b2) -> ~ In (fst p) (map fst G1)).
      { intros p Hp Hk. apply (AB p Hp). rewrite map_app. apply in_or_app; right; exact Hk. }
      assert (G2 : intern_all gs b = G1 ++ fs_groups (p2 :: b2)).
      { rewrite Eb, intern_all_app. fold G1. apply intern_all_fresh. exact AB1. }
      assert (Z2 : forall s0' z', seen ++ b = s0' ++ [z'] -> skp z' = skp p2).
      { intros s0' z' Ez'. rewrite Eb, app_assoc in Ez'. apply last_in_suffix in Ez'; [|discriminate]. apply R2; auto. }
      split; [|split; [|split]].
      + exists b1, p2, b2. repeat split; auto. apply AB1. left; reflexivity.
      + intros [s0 [z [Ez SR]]]. apply NF. rewrite (SR p2); [|rewrite Eb; apply in_or_app; right; left; reflexivity].
        apply in_map. rewrite Ez. apply in_or_app; left. apply in_or_app; right. left; reflexivity.
      + pose proof (intern_len_le b1 gs). fold G1 in H. lia.
      + rewrite G2. constructor.
        * transitivity (intern_all (fs_groups (seen ++ b1)) (p2 :: b2)).
          -- rewrite FS1, (intern_all_fresh (p2 :: b2) (E ++ G1) AB), app_assoc. reflexivity.
          -- unfold fs_groups. rewrite Eb, app_assoc. symmetry. apply intern_all_app.
        * rewrite app_length. lia.
        * intros g s0' z' Ez' Hg. rewrite (Z2 s0' z' Ez'). rewrite firstn_app_exact in Hg.
          intros X. apply NF. rewrite <- X. apply KS. exact Hg.
        * intros g s0' z' Ez' Hg. rewrite (Z2 s0' z' Ez'). rewrite skipn_app_exact in Hg.
          apply (in_map fst) in Hg. apply (proj1 (fs_groups_keys _ _)) in Hg. apply in_map_iff in Hg.
          destruct Hg as [p [Ep Hp]]. rewrite <- Ep. apply (R2 p Hp).
  Qed.
End Safe.

Lemma intern_present_len : forall {A} (b : list (row * A)) (gs : groups A),
  (forall p, In p b -> In (fst p) (map fst gs)) -> length (intern_all gs b) = length gs.
Proof.
  induction b as [|[k x] b IH]; intros gs H; [reflexivity|]. cbn [intern_all].
  rewrite IH.
  - apply add_row_present_len. apply (H (k, x)). left; reflexivity.
  - intros p Hp. apply add_row_keys_in. left. apply H. right; exact Hp.
Qed.
Lemma fs_groups_nonempty : forall {A} (p : row * A) b, 1 <= length (fs_groups (p :: b)).
Proof.
  intros A [k x] b. unfold fs_groups. cbn [intern_all add_row].
  pose proof (intern_len_le b [(k, [x])]) as H. cbn [length] in H. exact H.
Qed.
Lemma fs_groups_one_key : forall {A} (p : row * A) b, (forall q, In q b -> fst q = fst p) -> length (fs_groups (p :: b)) = 1.
Proof.
  intros A [k x] b H. unfold fs_groups. cbn [intern_all add_row]. rewrite intern_present_len; [reflexivity|].
  intros q Hq. cbn [map fst]. left. symmetry. apply (H q Hq).
Qed.
Lemma nth_error_mid : forall {T} (a : list T) x b, nth_error (a ++ x :: b) (length a) = Some x.
Proof. intros. rewrite nth_error_app2; [|lia]. rewrite Nat.sub_diag. reflexivity. Qed.

(* ------------------------------------------------------------------ GroupOrderingPartial keeps the invariant *)
Section PartialSafe.
  Context {A : Type} (idx : list nat).
  Let sk := proj idx.

  Definition sinvP (seen : list (row * A)) (gs : groups A) (c : nat) (o : gord) : Prop :=
    match o with
    | OPartial idx' PStart => idx' = idx /\ seen = []
    | OPartial idx' (PInProgress cs skey cur) =>
        idx' = idx /\ cs = c /\ (exists s0 z, seen = s0 ++ [z] /\ skey = skp sk z) /\ cur + 1 = length gs /\ c <= cur
    | _ => False
    end.

  Lemma push_okP : forall seen E gs c o b,
    inv sk seen E gs c -> sinvP seen gs c o -> clustered (map (skp sk) (seen ++ b)) ->
    exists o' c', ot_push b (OTab gs o) = Some (OTab (intern_all gs b) o') /\
                  inv sk (seen ++ b) E (intern_all gs b) c' /\ sinvP (seen ++ b) (intern_all gs b) c' o'.
  Proof.
    intros seen E gs c o b I SI C.
    destruct b as [|p0 b0] eqn:Eb0.
    { exists o, c. rewrite app_nil_r. unfold ot_push. cbn [ot_gs ot_ord intern_all]. rewrite Nat.ltb_irrefl. auto. }
    rewrite <- Eb0 in *. assert (Hb : b <> []) by (rewrite Eb0; discriminate). clear Eb0 p0 b0.
    pose proof (intern_len_le b gs) as Lge.
    assert (MM : map (proj idx) (map fst b) = map (skp sk) b) by (rewrite map_map; reflexivity).
    unfold ot_push. cbn [ot_gs ot_ord].
    destruct (inv_batch sk seen E gs c b I C Hb) as [[SR [L0 I']]|[c' [FR [NSR [Hcc I']]]]].
    - (* same run *)
      destruct SR as [s0 [z [Ez SR]]].
      destruct o as [|idx' st|]; try contradiction. destruct st as [|cs skey cur|]; try contradiction.
      { destruct SI as [_ ->]. destruct s0; discriminate. }
      destruct SI as [-> [-> [[s0' [z' [Ez' ->]]] [Hcur Hle]]]].
      assert (z' = z). { rewrite Ez in Ez'. apply app_inj_tail in Ez'. destruct Ez'; auto. } subst z'.
      assert (Hlast : exists s1 zb, seen ++ b = s1 ++ [zb] /\ skp sk z = skp sk zb).
      { destruct (exists_last Hb) as [b' [zb Ezb]]. exists (seen ++ b'), zb. split.
        - rewrite Ezb, app_assoc. reflexivity.
        - symmetry. apply SR. rewrite Ezb. apply in_or_app; right; left; reflexivity. }
      destruct (Nat.ltb (length gs) (length (intern_all gs b))) eqn:L.
      + apply Nat.ltb_lt in L. cbn [gord_new_groups]. unfold gop_new_groups.
        destruct (length (intern_all gs b)) as [|m] eqn:Em; [lia|].
        rewrite MM, L0. destruct b as [|[k0 x0] b0]; [contradiction|].
        cbn [batch_indices map nth_error].
        assert (R0 : skp sk (k0, x0) = skp sk z) by (apply SR; left; reflexivity).
        rewrite R0, row_eqb_refl. cbn [Nat.eqb andb option_map].
        exists (OPartial idx (PInProgress c (skp sk z) m)), c. split; [reflexivity|]. split; [exact I'|].
        cbn [sinvP]. repeat split; auto; try lia.
        all: try (destruct Hlast as [s1 [zb [E1 E2]]]; exists s1, zb; auto).
      + apply Nat.ltb_ge in L. exists (OPartial idx (PInProgress c (skp sk z) cur)), c. split; [reflexivity|].
        split; [exact I'|]. cbn [sinvP]. repeat split; auto; try lia.
        all: try (destruct Hlast as [s1 [zb [E1 E2]]]; exists s1, zb; auto).
    - (* fresh run *)
      destruct FR as [b1 [p2 [b2 [Eb [Lp [R2 [NF [Ec' [NK G2]]]]]]]]].
      pose proof (fs_groups_nonempty p2 b2) as L1. pose proof (intern_len_le b1 gs) as L2.
      assert (Lgt : length gs < length (intern_all gs b)) by (rewrite G2, app_length; lia).
      apply Nat.ltb_lt in Lgt. rewrite Lgt. apply Nat.ltb_lt in Lgt.
      cbn [gord_new_groups].
      assert (Hlast : exists s1 zb, seen ++ b = s1 ++ [zb] /\ skp sk p2 = skp sk zb).
      { destruct (exists_last (l := p2 :: b2)) as [b' [zb Ezb]]; [discriminate|]. exists (seen ++ b1 ++ b'), zb. split.
        - rewrite Eb, Ezb, !app_assoc. reflexivity.
        - assert (Hin : In zb (p2 :: b2)) by (rewrite Ezb; apply in_or_app; right; left; reflexivity).
          destruct Hin as [->|Hin]; auto. symmetry. apply R2; auto. }
      destruct o as [|idx' st|]; try contradiction.
      assert (Ei : idx' = idx) by (destruct st; try contradiction; destruct SI; auto). subst idx'.
      cbn [gord_new_groups]. unfold gop_new_groups.
      destruct (length (intern_all gs b)) as [|m] eqn:Em; [lia|].
      rewrite MM, <- Lp.
      assert (N1 : nth_error (batch_indices gs b) (length b1) = Some c').
      { rewrite Eb, batch_indices_app. destruct p2 as [k2 x2]. cbn [batch_indices].
        rewrite <- (batch_indices_len b1 gs). rewrite nth_error_mid. rewrite key_index_absent; [subst c'; reflexivity | auto]. }
      assert (N2 : nth_error (map (skp sk) b) (length b1) = Some (skp sk p2)).
      { rewrite Eb, map_app. cbn [map]. rewrite <- (map_length (skp sk) b1). apply nth_error_mid. }
      rewrite N1, N2.
      assert (Hm : c' <= m). { rewrite G2, app_length in Em. lia. }
      destruct st as [|cs skey cur|]; try contradiction.
      + cbn [option_map].
        exists (OPartial idx (PInProgress c' (skp sk p2) m)), c'. split; [reflexivity|]. split; [exact I'|].
        cbn [sinvP]. repeat split; auto; try lia. all: try (destruct Hlast as [s1 [zb [E1 E2]]]; exists s1, zb; auto).
      + destruct SI as [_ [-> [[s0 [z [Ez ->]]] [Hcur Hle]]]].
        destruct (Nat.eqb (length b1) 0 && row_eqb (skp sk z) (skp sk p2)) eqn:Cond.
        * exfalso. apply andb_prop in Cond. destruct Cond as [C1 C2]. apply Nat.eqb_eq in C1. apply row_eqb_eq in C2.
          apply NSR. exists s0, z. split; auto. intros p Hp. rewrite Eb in Hp.
          destruct b1; [|discriminate]. cbn [app] in Hp. destruct Hp as [<-|Hp]; auto. rewrite R2; auto.
        * cbn [option_map].
          exists (OPartial idx (PInProgress c' (skp sk p2) m)), c'. split; [reflexivity|]. split; [exact I'|].
          cbn [sinvP]. repeat split; auto; try lia. all: try (destruct Hlast as [s1 [zb [E1 E2]]]; exists s1, zb; auto).
  Qed.

  Lemma emit_okP : forall bs seen E gs c o, inv sk seen E gs c -> sinvP seen gs c o ->
    exists n o', n <= c /\ ot_emit bs (OTab gs o) = Some (firstn n gs, OTab (skipn n gs) o') /\
                 sinvP seen (skipn n gs) (c - n) o'.
  Proof.
    intros bs seen E gs c o I SI.
    assert (Z : exists n o', n <= c /\ Some (@nil (row * list A), OTab gs o) = Some (firstn n gs, OTab (skipn n gs) o') /\
                             sinvP seen (skipn n gs) (c - n) o').
    { exists 0, o. rewrite Nat.sub_0_r. cbn [firstn skipn]. auto with arith. }
    unfold ot_emit. cbn [ot_gs ot_ord]. destruct gs as [|g gs1] eqn:Eg; [exact Z|]. rewrite <- Eg in *.
    destruct o as [|idx' st|]; try contradiction. destruct st as [|cs skey cur|]; try contradiction; cbn [gord_emit_to gop_emit_to].
    - exact Z.
    - destruct (Nat.eqb cs 0) eqn:E0; [exact Z|]. apply Nat.eqb_neq in E0.
      destruct SI as [-> [-> [Hz [Hcur Hle]]]]. cbn [clamp_emit_to gord_remove_groups gop_remove_groups].
      set (n := Nat.min c bs).
      assert (Hn : n <= c) by (unfold n; lia).
      assert (B : Nat.leb n cur && Nat.leb n c = true).
      { apply andb_true_intro. split; apply Nat.leb_le; lia. }
      rewrite B. cbn [option_map].
      exists n, (OPartial idx (PInProgress (c - n) skey (cur - n))). split; [exact Hn|]. split; [reflexivity|].
      cbn [sinvP]. repeat split; auto; try lia. rewrite skipn_length. lia.
  Qed.
End PartialSafe.

(* ------------------------------------------------------------------ GroupOrderingFull keeps the invariant *)
Section FullSafe.
  Context {A : Type}.
  Let sk := fun k : row => k.

  Definition sinvF (seen : list (row * A)) (gs : groups A) (c : nat) (o : gord) : Prop :=
    match o with
    | OFull FStart => seen = []
    | OFull (FInProgress cur) => cur = c /\ cur + 1 = length gs /\ seen <> []
    | _ => False
    end.

  Lemma push_okF : forall seen E gs c o b,
    inv sk seen E gs c -> sinvF seen gs c o -> clustered (map (skp sk) (seen ++ b)) ->
    exists o' c', ot_push b (OTab gs o) = Some (OTab (intern_all gs b) o') /\
                  inv sk (seen ++ b) E (intern_all gs b) c' /\ sinvF (seen ++ b) (intern_all gs b) c' o'.
  Proof.
    intros seen E gs c o b I SI C.
    destruct b as [|p0 b0] eqn:Eb0.
    { exists o, c. rewrite app_nil_r. unfold ot_push. cbn [ot_gs ot_ord intern_all]. rewrite Nat.ltb_irrefl. auto. }
    rewrite <- Eb0 in *. assert (Hb : b <> []) by (rewrite Eb0; discriminate). clear Eb0 p0 b0.
    pose proof (intern_len_le b gs) as Lge.
    assert (Hne : seen ++ b <> []). { intros X. apply app_eq_nil in X. destruct X; contradiction. }
    unfold ot_push. cbn [ot_gs ot_ord].
    destruct (inv_batch sk seen E gs c b I C Hb) as [[SR [L0 I']]|[c' [FR [NSR [Hcc I']]]]].
    - (* same run: every row of the batch belongs to the last group *)
      destruct SR as [s0 [z [Ez SR]]].
      assert (Same : length (intern_all gs b) = length gs).
      { apply intern_present_len. intros p Hp.
        assert (Hk : In (fst z) (map fst (E ++ gs))).
        { rewrite (inv_cat _ _ _ _ _ I). apply fs_groups_keys. rewrite Ez, map_app. apply in_or_app; right; left; reflexivity. }
        replace (fst p) with (fst z) by (symmetry; apply (SR p Hp)).
        apply key_in_groups in Hk. destruct Hk as [g [Hg Eg]].
        rewrite <- (firstn_skipn c gs), app_assoc in Hg. apply in_app_or in Hg. destruct Hg as [Hg|Hg].
        - exfalso. apply (inv_closed _ _ _ _ _ I g s0 z Ez Hg). unfold skp, sk. exact Eg.
        - rewrite <- Eg. apply in_map. rewrite <- (firstn_skipn c gs). apply in_or_app; right; exact Hg. }
      rewrite Same, Nat.ltb_irrefl.
      exists o, c. split; [reflexivity|]. split; [exact I'|].
      destruct o as [| |st]; try contradiction. destruct st as [|cur|]; try contradiction.
      + cbn [sinvF] in SI. subst seen. destruct s0; discriminate.
      + cbn [sinvF] in *. destruct SI as [-> [Hcur _]]. repeat split; auto. lia.
    - destruct FR as [b1 [p2 [b2 [Eb [Lp [R2 [NF [Ec' [NK G2]]]]]]]]].
      assert (L1 : length (fs_groups (p2 :: b2)) = 1).
      { apply fs_groups_one_key. intros q Hq. apply (R2 q Hq). }
      pose proof (intern_len_le b1 gs) as L2.
      assert (Lgt : length gs < length (intern_all gs b)) by (rewrite G2, app_length; lia).
      apply Nat.ltb_lt in Lgt. rewrite Lgt. apply Nat.ltb_lt in Lgt.
      destruct o as [| |st]; try contradiction. cbn [gord_new_groups]. unfold gof_new_groups.
      destruct (length (intern_all gs b)) as [|m] eqn:Em; [lia|].
      assert (Hm : m = c'). { rewrite G2, app_length in Em. lia. }
      destruct st as [|cur|]; try contradiction.
      + cbn [option_map]. exists (OFull (FInProgress m)), c'. split; [reflexivity|]. split; [exact I'|].
        cbn [sinvF]. repeat split; auto; try lia.
      + cbn [sinvF] in SI. destruct SI as [-> [Hcur _]].
        assert (Lc : Nat.leb c m = true) by (apply Nat.leb_le; lia). rewrite Lc. cbn [option_map].
        exists (OFull (FInProgress m)), c'. split; [reflexivity|]. split; [exact I'|].
        cbn [sinvF]. repeat split; auto; try lia.
  Qed.

  Lemma emit_okF : forall bs seen E gs c o, inv sk seen E gs c -> sinvF seen gs c o ->
    exists n o', n <= c /\ ot_emit bs (OTab gs o) = Some (firstn n gs, OTab (skipn n gs) o') /\
                 sinvF seen (skipn n gs) (c - n) o'.
  Proof.
    intros bs seen E gs c o I SI.
    assert (Z : exists n o', n <= c /\ Some (@nil (row * list A), OTab gs o) = Some (firstn n gs, OTab (skipn n gs) o') /\
                             sinvF seen (skipn n gs) (c - n) o').
    { exists 0, o. rewrite Nat.sub_0_r. cbn [firstn skipn]. auto with arith. }
    unfold ot_emit. cbn [ot_gs ot_ord]. destruct gs as [|g gs1] eqn:Eg; [exact Z|]. rewrite <- Eg in *.
    destruct o as [| |st]; try contradiction. destruct st as [|cur|]; try contradiction; cbn [gord_emit_to gof_emit_to].
    - exact Z.
    - destruct (Nat.eqb cur 0) eqn:E0; [exact Z|]. apply Nat.eqb_neq in E0.
      cbn [sinvF] in SI. destruct SI as [-> [Hcur Hs]]. cbn [clamp_emit_to gord_remove_groups gof_remove_groups].
      set (n := Nat.min c bs).
      assert (Hn : n <= c) by (unfold n; lia).
      assert (B : Nat.leb n c = true) by (apply Nat.leb_le; lia).
      rewrite B. cbn [option_map].
      exists n, (OFull (FInProgress (c - n))). split; [exact Hn|]. split; [reflexivity|].
      cbn [sinvF]. repeat split; auto. rewrite skipn_length. lia.
  Qed.
End FullSafe.

(* ------------------------------------------------------------------ runs of the ordered table *)
Section Run.
  Context {A : Type} (sk : row -> row) (sinv : list (row * A) -> groups A -> nat -> gord -> Prop) (bs : nat).
  Context (push_ok : forall seen E gs c o b,
              inv sk seen E gs c -> sinv seen gs c o -> clustered (map (skp sk) (seen ++ b)) ->
              exists o' c', ot_push b (OTab gs o) = Some (OTab (intern_all gs b) o') /\
                            inv sk (seen ++ b) E (intern_all gs b) c' /\ sinv (seen ++ b) (intern_all gs b) c' o').
  Context (emit_ok : forall seen E gs c o, inv sk seen E gs c -> sinv seen gs c o ->
              exists n o', n <= c /\ ot_emit bs (OTab gs o) = Some (firstn n gs, OTab (skipn n gs) o') /\
                           sinv seen (skipn n gs) (c - n) o').

  Lemma feed_run : forall (evs : list (ev A)) seen E gs c o,
    Forall is_feed evs -> inv sk seen E gs c -> sinv seen gs c o ->
    clustered (map (skp sk) (seen ++ evs_input evs)) ->
    exists outs gs' c' o', ot_run bs evs (OTab gs o) = Some (outs, OTab gs' o') /\
      inv sk (seen ++ evs_input evs) (E ++ concat outs) gs' c' /\ sinv (seen ++ evs_input evs) gs' c' o'.
  Proof.
    induction evs as [|e evs IH]; intros seen E gs c o F I SI C.
    - exists [], gs, c, o. cbn [ot_run evs_input map concat]. rewrite !app_nil_r. auto.
    - inversion F as [|? ? Fe Fr]; subst. unfold evs_input in *. cbn [map concat] in *. fold (evs_input evs) in *.
      destruct e as [b| | |]; try contradiction; cbn [ev_input] in *.
      + rewrite app_assoc in C. destruct (push_ok seen E gs c o b I SI (clustered_prefix _ _ (eq_ind _ _ C _ (map_app _ _ _))))
          as [o1 [c1 [P [I1 S1]]]].
        destruct (IH (seen ++ b) E (intern_all gs b) c1 o1 Fr I1 S1 C) as [outs [gs' [c' [o' [R [I2 S2]]]]]].
        exists ([] :: outs), gs', c', o'. cbn [ot_run]. rewrite P. cbn [option_map]. rewrite R. cbn [option_map fst snd concat app].
        rewrite app_assoc. auto.
      + cbn [app] in *. destruct (emit_ok seen E gs c o I SI) as [n [o1 [Hn [P S1]]]].
        pose proof (inv_emit sk seen E gs c n I Hn) as I1.
        destruct (IH seen (E ++ firstn n gs) (skipn n gs) (c - n) o1 Fr I1 S1 C) as [outs [gs' [c' [o' [R [I2 S2]]]]]].
        exists (firstn n gs :: outs), gs', c', o'. cbn [ot_run]. rewrite P. rewrite R. cbn [option_map fst snd concat].
        rewrite app_assoc. auto.
  Qed.
End Run.

(* after input_done: every emit attempt hands out the next batch_size groups until the table is empty *)
Lemma drain_run : forall {A} bs n (gs : groups A) o, 1 <= bs -> gord_emit_to o = Some EAll -> length gs <= n ->
  exists outs, ot_run bs (repeat EvEmit n) (OTab gs o) = Some (outs, OTab [] o) /\ concat outs = gs.
Proof.
  intros A bs. induction n as [|n IH]; intros gs o Hbs He Hl.
  - destruct gs; [|cbn in Hl; lia]. exists []. auto.
  - cbn [repeat ot_run]. unfold ot_emit. cbn [ot_gs ot_ord]. destruct gs as [|g gs1] eqn:Eg.
    + destruct (IH [] o Hbs He) as [outs [R Co]]; [cbn; lia|]. rewrite R. exists ([] :: outs). auto.
    + rewrite <- Eg in *. rewrite He. cbn [clamp_emit_to]. destruct (Nat.leb (length gs) bs) eqn:L.
      * destruct (IH [] o Hbs He) as [outs [R Co]]; [cbn; lia|]. rewrite R. exists (gs :: outs).
        cbn [option_map fst snd concat]. rewrite Co, app_nil_r. auto.
      * apply Nat.leb_gt in L.
        destruct (IH (skipn bs gs) o Hbs He) as [outs [R Co]]; [rewrite skipn_length; lia|]. rewrite R.
        exists (firstn bs gs :: outs). cbn [option_map fst snd concat]. rewrite Co, firstn_skipn. auto.
Qed.

Lemma ot_run_app : forall {A} bs (e1 e2 : list (ev A)) t o1 t1 o2 t2,
  ot_run bs e1 t = Some (o1, t1) -> ot_run bs e2 t1 = Some (o2, t2) -> ot_run bs (e1 ++ e2) t = Some (o1 ++ o2, t2).
Proof.
  intros A bs. induction e1 as [|e e1 IH]; intros e2 t o1 t1 o2 t2 R1 R2; cbn [ot_run app] in *.
  - inversion R1; subst. exact R2.
  - destruct (match e with EvBatch b => _ | EvEmit => _ | EvDone => _ | EvTake => _ end) as [[o t']|]; [|discriminate].
    destruct (ot_run bs e1 t') as [[os t'']|] eqn:R; [|discriminate]. cbn [option_map fst snd] in R1. inversion R1; subst.
    rewrite (IH e2 t' os t1 o2 t2 R R2). reflexivity.
Qed.

(* ------------------------------------------------------------------ the theorems about ordered aggregation *)
Lemma intern_len_ub : forall {A} (b : list (row * A)) gs, length (intern_all gs b) <= length gs + length b.
Proof.
  induction b as [|[k x] b IH]; intros gs; cbn [intern_all length]; [lia|].
  specialize (IH (add_row k x gs)).
  assert (length (add_row k x gs) <= S (length gs)).
  { destruct (in_keys_dec k gs) as [Y|N]; [rewrite add_row_present_len; auto | rewrite add_row_absent_len; auto]. }
  lia.
Qed.

Section Ordered.
  Context {A : Type}.

  Lemma feed_any : forall full idx bs (evs : list (ev A)),
    Forall is_feed evs -> sorted_on full idx (evs_input evs) ->
    exists outs gs' c' o', ot_run bs evs (OTab [] (ord_start full idx)) = Some (outs, OTab gs' o') /\
      inv (ord_sk full idx) (evs_input evs) (concat outs) gs' c' /\
      gord_input_done o' = gord_input_done (ord_start full idx).
  Proof.
    intros full idx bs evs F S. unfold sorted_on in S. destruct full; cbn [ord_start ord_sk] in *.
    - destruct (feed_run (fun k => k) sinvF bs push_okF (emit_okF bs) evs [] [] [] 0 (OFull FStart) F (inv_nil _) eq_refl S)
        as [outs [gs' [c' [o' [R [I SI]]]]]].
      exists outs, gs', c', o'. split; [exact R|]. split; [exact I|].
      destruct o' as [| |st]; try contradiction. reflexivity.
    - destruct (feed_run (proj idx) (sinvP idx) bs (push_okP idx) (emit_okP idx bs) evs [] [] [] 0 (OPartial idx PStart) F
                         (inv_nil _) (conj eq_refl eq_refl) S)
        as [outs [gs' [c' [o' [R [I SI]]]]]].
      exists outs, gs', c', o'. split; [exact R|]. split; [exact I|].
      destruct o' as [|idx' st|]; try contradiction. destruct st; try contradiction; destruct SI as [-> _]; reflexivity.
  Qed.

  (* EARLY EMISSION IS SAFE.  Whatever the batching and whenever emission is attempted: no panic; every group that has
     been emitted contains exactly the rows with its key of the WHOLE input -- those already consumed and those that
     only arrive later ([rest]) --, in particular no later row has the key of an emitted group; and nothing is lost:
     emitted groups ++ groups still in the table = the first-seen grouping of the consumed input. *)
  Theorem early_emit_safe_proof : forall full idx bs (evs : list (ev A)) rest,
    Forall is_feed evs -> sorted_on full idx (evs_input evs ++ rest) ->
    exists outs t, ot_run bs evs (OTab [] (ord_start full idx)) = Some (outs, t) /\
      (forall g, In g (concat outs) ->
         snd g = members (fst g) (evs_input evs ++ rest) /\ forall p, In p rest -> fst p <> fst g) /\
      concat outs ++ ot_gs t = fs_groups (evs_input evs).
  Proof.
    intros full idx bs evs rest F S.
    assert (S1 : sorted_on full idx (evs_input evs)).
    { unfold sorted_on in *. rewrite map_app in S. apply clustered_prefix in S. exact S. }
    destruct (feed_any full idx bs evs F S1) as [outs [gs' [c' [o' [R [I _]]]]]].
    exists outs, (OTab gs' o'). split; [exact R|]. split; [|apply (inv_cat _ _ _ _ _ I)].
    intros g Hg.
    assert (NL : forall p, In p rest -> fst p <> fst g).
    { intros p Hp Heq. apply (closed_absent _ _ _ _ _ rest I S g p); auto.
      - apply in_or_app; left; exact Hg.
      - unfold skp. rewrite Heq. reflexivity. }
    split; [|exact NL].
    rewrite members_app. rewrite (members_notin (fst g) rest).
    - rewrite app_nil_r. apply fs_groups_members. rewrite <- (inv_cat _ _ _ _ _ I). apply in_or_app; left; exact Hg.
    - intros Hk. apply in_map_iff in Hk. destruct Hk as [p [Ep Hp]]. apply (NL p Hp Ep).
  Qed.

  (* ... and at the end of the input everything is emitted: the concatenation of all output batches IS the
     first-seen grouping of the input (one entry per distinct key, in order of first occurrence, each with all its
     rows in input order), and the table is empty. *)
  Theorem ordered_stream_exact_proof : forall full idx bs (evs : list (ev A)) n,
    1 <= bs -> Forall is_feed evs -> sorted_on full idx (evs_input evs) -> length (evs_input evs) <= n ->
    exists outs, ot_run bs (evs ++ EvDone :: repeat EvEmit n) (OTab [] (ord_start full idx))
                 = Some (outs, OTab [] (gord_input_done (ord_start full idx))) /\
                 concat outs = fs_groups (evs_input evs).
  Proof.
    intros full idx bs evs n Hbs F S Hn.
    destruct (feed_any full idx bs evs F S) as [outs [gs' [c' [o' [R [I D]]]]]].
    assert (Hl : length gs' <= n).
    { pose proof (inv_cat _ _ _ _ _ I) as Ec. apply (f_equal (@length _)) in Ec. rewrite app_length in Ec.
      pose proof (intern_len_ub (evs_input evs) (@nil (row * list A))) as U. unfold fs_groups in Ec. cbn [length] in U. lia. }
    assert (He : gord_emit_to (gord_input_done o') = Some EAll).
    { rewrite D. destruct full; reflexivity. }
    destruct (drain_run bs n gs' (gord_input_done o') Hbs He Hl) as [outs2 [R2 C2]].
    exists (outs ++ [] :: outs2). split.
    - rewrite <- D. apply (ot_run_app bs evs (EvDone :: repeat EvEmit n) _ outs (OTab gs' o')); auto.
      cbn [ot_run]. unfold ot_done. cbn [ot_gs ot_ord]. rewrite R2. reflexivity.
    - rewrite concat_app. cbn [concat app]. rewrite C2. apply (inv_cat _ _ _ _ _ I).
  Qed.
End Ordered.

(* ------------------------------------------------------------------ strategies as corollaries of C02's exchange theorem *)
Lemma final_of_states : forall fn (l : list (row * value)) parts S,
  is_split l parts -> agg_dom fn (map snd l) -> Permutation S (concat (map (partial_groups fn) parts)) ->
  Permutation (final_groups fn S) (ref_groups fn l).
Proof.
  intros fn l parts S SL Hd P.
  pose proof (group_partitioned_final fn (fun _ => 0) l parts (fun _ => S) 1 SL Hd) as G.
  cbn [seq map concat parts_of] in G. rewrite !app_nil_r in G. apply G.
  - unfold is_split. cbn [parts_of seq map concat]. rewrite app_nil_r. exact P.
  - intros i x Hi _. lia.
Qed.

Lemma perm_concat_map : forall {X Y} (f g : X -> list Y) (ls : list X),
  (forall x, Permutation (f x) (g x)) -> Permutation (concat (map f ls)) (concat (map g ls)).
Proof. induction ls; intros H; cbn [map concat]; [constructor|]. apply Permutation_app; auto. Qed.

Theorem spill_merge_eq_proof : forall fn leb (l : list (row * value)) segs,
  is_split l segs -> agg_dom fn (map snd l) -> Permutation (spill_merge fn leb segs) (ref_groups fn l).
Proof.
  intros fn leb l segs SL Hd. unfold spill_merge, spill_runs. apply (final_of_states fn l segs); auto.
  etransitivity; [apply kmerge_perm|].
  apply (perm_concat_map (fun s => isort leb (partial_groups fn s)) (partial_groups fn)). intros x. apply isort_perm.
Qed.

Definition skip_parts (ps : list (row * value) * list (row * value)) : list (list (row * value)) :=
  fst ps :: map (fun p => [p]) (snd ps).
Lemma concat_singletons : forall {X} (l : list X), concat (map (fun p => [p]) l) = l.
Proof. induction l; cbn; [reflexivity|]. f_equal. exact IHl. Qed.
Lemma skip_partial_out_parts : forall fn ps,
  skip_partial_out fn ps = concat (map (partial_groups fn) (skip_parts ps)).
Proof.
  intros fn [pre suf]. unfold skip_partial_out, skip_parts. cbn [fst snd map concat]. f_equal.
  induction suf as [|[k v] suf IH]; [reflexivity|]. cbn [map concat]. rewrite <- IH. reflexivity.
Qed.
Lemma concat_concat_map : forall {X Y} (f : X -> list (list Y)) (ls : list X),
  concat (concat (map f ls)) = concat (map (fun x => concat (f x)) ls).
Proof. induction ls; cbn [map concat]; [reflexivity|]. rewrite concat_app, IHls. reflexivity. Qed.

(* skipped partial aggregation, any point of the switch in every input partition, any key-respecting exchange *)
Theorem skip_partial_eq_proof : forall fn (assign : row -> nat) (l : list (row * value)) pss
    (T : nat -> list (row * res pstate)) n,
  is_split l (map (fun ps => fst ps ++ snd ps) pss) -> agg_dom fn (map snd l) ->
  is_split (concat (map (skip_partial_out fn) pss)) (parts_of T n) -> key_respecting fst assign T n ->
  Permutation (concat (map (fun i => final_groups fn (T i)) (seq 0 n))) (ref_groups fn l).
Proof.
  intros fn assign l pss T n SL Hd ST KR.
  apply (group_partitioned_final fn assign l (concat (map skip_parts pss)) T n); auto.
  - unfold is_split in *. rewrite concat_concat_map.
    replace (map (fun x => concat (skip_parts x)) pss) with (map (fun ps => fst ps ++ snd ps) pss); [exact SL|].
    apply map_ext. intros [pre suf]. unfold skip_parts. cbn [fst snd concat]. rewrite concat_singletons. reflexivity.
  - replace (concat (map (partial_groups fn) (concat (map skip_parts pss)))) with (concat (map (skip_partial_out fn) pss));
      [exact ST|].
    rewrite concat_map, map_map, concat_concat_map. f_equal. apply map_ext. intros ps. apply skip_partial_out_parts.
Qed.
Theorem skip_partial_single_proof : forall fn (l : list (row * value)) pss,
  is_split l (map (fun ps => fst ps ++ snd ps) pss) -> agg_dom fn (map snd l) ->
  Permutation (final_groups fn (concat (map (skip_partial_out fn) pss))) (ref_groups fn l).
Proof.
  intros fn l pss SL Hd.
  pose proof (skip_partial_eq_proof fn (fun _ => 0) l pss (fun _ => concat (map (skip_partial_out fn) pss)) 1 SL Hd) as G.
  cbn [seq map concat parts_of] in G. rewrite !app_nil_r in G. apply G.
  - unfold is_split. cbn [parts_of seq map concat]. rewrite app_nil_r. reflexivity.
  - intros i x Hi _. lia.
Qed.

(* ---- the ordered stages composed with the two-phase law *)
Lemma seg_out_eq : forall {A} full idx bs (evs : list (ev A)),
  Forall is_feed evs -> sorted_on full idx (evs_input evs) -> seg_out full idx bs evs = fs_groups (evs_input evs).
Proof.
  intros A full idx bs evs F S.
  destruct (early_emit_safe_proof full idx bs evs [] F) as [outs [t [R [_ Cat]]]]; [rewrite app_nil_r; exact S|].
  unfold seg_out. rewrite (ot_run_app bs evs [EvTake] _ outs t [ot_gs t] (snd (ot_take t)) R eq_refl).
  rewrite concat_app. cbn [concat]. rewrite app_nil_r. exact Cat.
Qed.
Lemma states_of_fs : forall fn (l : list (row * value)), Permutation (states_of fn (fs_groups l)) (partial_groups fn l).
Proof. intros. unfold states_of, partial_groups. apply Permutation_map. apply fs_groups_group_pairs. Qed.
Lemma values_of_fs : forall fn (l : list (row * value)), Permutation (values_of fn (fs_groups l)) (ref_groups fn l).
Proof. intros. unfold values_of, ref_groups. apply Permutation_map. apply fs_groups_group_pairs. Qed.
Lemma finals_of_fs : forall fn (S : list (row * res pstate)), Permutation (finals_of fn (fs_groups S)) (final_groups fn S).
Proof. intros. unfold finals_of, final_groups. apply Permutation_map. apply fs_groups_group_pairs. Qed.

(* ordered partial stage (early emission + take_state_batch under memory pressure) over ANY segmentation of ANY
   partitioning of the input, then a final stage over the concatenated states *)
Theorem ordered_partial_final_proof : forall fn full idx bs (l : list (row * value)) (evss : list (list (ev value))),
  Forall (fun evs => Forall is_feed evs /\ sorted_on full idx (evs_input evs)) evss ->
  is_split l (map evs_input evss) -> agg_dom fn (map snd l) ->
  Permutation (final_groups fn (concat (map (fun evs => states_of fn (seg_out full idx bs evs)) evss))) (ref_groups fn l).
Proof.
  intros fn full idx bs l evss Fa SL Hd. apply (final_of_states fn l (map evs_input evss)); auto.
  clear SL Hd. rewrite map_map. induction evss as [|evs evss IH]; cbn [map concat]; [constructor|].
  inversion Fa as [|? ? [F S] Fr]; subst. apply Permutation_app; [|apply IH; auto].
  rewrite seg_out_eq; auto. apply states_of_fs.
Qed.

(* ------------------------------------------------------------------ the executable test of the sortedness hypothesis *)
Lemma clusteredb_from_sound : forall (l pre : list row) prev seen,
  ((prev = None /\ pre = []) \/ exists p0 z, pre = p0 ++ [z] /\ prev = Some z) ->
  (forall y, In y seen <-> In y pre) -> clustered pre ->
  clusteredb_from prev seen l = true -> clustered (pre ++ l).
Proof.
  induction l as [|x l IH]; intros pre prev seen HP HS C H; [rewrite app_nil_r; exact C|].
  cbn [clusteredb_from] in H. apply andb_prop in H. destruct H as [H1 H2].
  replace (pre ++ x :: l) with ((pre ++ [x]) ++ l) by (rewrite <- app_assoc; reflexivity).
  apply (IH (pre ++ [x]) (Some x) (x :: seen)); auto.
  - right. exists pre, x. auto.
  - intros y. cbn [In]. rewrite in_app_iff, HS. cbn [In]. tauto.
  - intros p y post E Hin.
    destruct (exists_last (l := y :: post)) as [q [w Ew]]; [discriminate|].
    rewrite Ew, app_assoc in E. apply app_inj_tail in E. destruct E as [E1 E2]. subst w.
    destruct q as [|y' q].
    + cbn [app] in Ew. injection Ew as Ey Ep. rewrite app_nil_r in E1. rewrite <- E1 in Hin. rewrite Ey in *.
      apply orb_prop in H1. destruct H1 as [H1|H1].
      * destruct HP as [[Hp1 Hp2]|[p0 [z [Hp1 Hp2]]]]; [rewrite Hp1 in H1; discriminate|].
        rewrite Hp2 in H1. apply row_eqb_eq in H1. rewrite H1 in Hp1. rewrite <- E1, Hp1. exists p0; reflexivity.
      * exfalso. apply negb_true_iff in H1. assert (existsb (row_eqb x) seen = true); [|congruence].
        apply existsb_exists. exists x. split; [apply HS; exact Hin | apply row_eqb_refl].
    + cbn [app] in Ew. injection Ew as Ey Ep. rewrite <- Ey in *. apply (C p y q); auto.
Qed.
Lemma clusteredb_sound : forall l : list row, clusteredb l = true -> clustered l.
Proof.
  intros l H. apply (clusteredb_from_sound l [] None []); auto.
  - intros y; tauto.
  - intros pre x post E. destruct pre; discriminate.
Qed.

(* ------------------------------------------------------------------ GROUPING SETS: one table over the expanded rows = the union of the per-set aggregations *)
Lemma grouped_app_disjoint : forall {A B} (F : list A -> B) (a b : list (row * A)),
  (forall k, In k (map fst a) -> ~ In k (map fst b)) ->
  Permutation (grouped F (a ++ b)) (grouped F a ++ grouped F b).
Proof.
  intros A B F a b D. apply keyed_perm.
  - apply grouped_nodup.
  - rewrite map_app. apply nodup_app; try apply grouped_nodup.
    intros k Ha Hb. apply grouped_keys in Ha. apply grouped_keys in Hb. exact (D k Ha Hb).
  - intros [k v]. rewrite in_app_iff, !grouped_In, map_app, in_app_iff, members_app. split.
    + intros [[Ha|Hb] ->].
      * left. split; auto. rewrite (members_notin k b (D k Ha)), app_nil_r. reflexivity.
      * right. split; auto. rewrite (members_notin k a); [reflexivity|]. intros Ha. exact (D k Ha Hb).
    + intros [[Ha ->]|[Hb ->]].
      * split; auto. rewrite (members_notin k b (D k Ha)), app_nil_r. reflexivity.
      * split; auto. rewrite (members_notin k a); [reflexivity|]. intros Ha. exact (D k Ha Hb).
Qed.
Lemma grouped_concat_disjoint : forall {A B} (F : list A -> B) (ls : list (list (row * A))),
  ForallOrdPairs (fun a b => forall k, In k (map fst a) -> ~ In k (map fst b)) ls ->
  Permutation (grouped F (concat ls)) (concat (map (grouped F) ls)).
Proof.
  intros A B F ls H. induction H as [|a ls Ha Hl IH]; [constructor|]. cbn [concat map].
  etransitivity; [apply grouped_app_disjoint | apply Permutation_app_head; exact IH].
  intros k Hk Hc. rewrite concat_map, in_concat in Hc. destruct Hc as [ks [Hks Hin]].
  apply in_map_iff in Hks. destruct Hks as [b [<- Hb]]. rewrite Forall_forall in Ha. exact (Ha b Hb k Hk Hin).
Qed.
Lemma set_rows_key_id : forall {A} (mo : list bool * Z) (l : list (row * A)) k,
  In k (map fst (set_rows mo l)) -> exists k0, k = k0 ++ [VInt (set_id (fst mo) (snd mo))].
Proof.
  intros A mo l k H. unfold set_rows in H. rewrite map_map in H. apply in_map_iff in H. destruct H as [p [<- _]].
  cbn [fst]. eexists; reflexivity.
Qed.
Lemma ord_pairs_of_nodup : forall {X Y} (f : X -> Y) (R : X -> X -> Prop) (l : list X),
  NoDup (map f l) -> (forall a b, f a <> f b -> R a b) -> ForallOrdPairs R l.
Proof.
  intros X Y f R l. induction l as [|a l IH]; intros N H; [constructor|]. cbn [map] in N. inversion N as [|? ? Hn Hd]; subst.
  constructor; [|apply IH; auto]. apply Forall_forall. intros b Hb. apply H. intros E. apply Hn. rewrite E. apply in_map. exact Hb.
Qed.

(* for a non-empty input, provided the grouping ids of the sets are pairwise distinct (they are when all masks have the
   same length <= 64 - bits(max ordinal): group_id_array) *)
Theorem grouping_sets_union_proof : forall fn (ms : list (list bool)) (l : list (row * value)),
  l <> [] -> NoDup (map (fun mo : list bool * Z => set_id (fst mo) (snd mo)) (with_ordinals [] ms)) ->
  Permutation (grouping_sets_exec fn ms l) (grouping_sets_def fn ms l).
Proof.
  intros fn ms l Hl N. unfold grouping_sets_exec, grouping_sets_def, grouping_sets_rows, grouping_sets_groups.
  rewrite ref_groups_grouped.
  assert (E : map (fun g : row * list value => (fst g, agg_apply fn (snd g)))
                  (concat (map (fun mo => set_groups mo l) (with_ordinals [] ms)))
              = concat (map (grouped (agg_apply fn)) (map (fun mo => set_rows mo l) (with_ordinals [] ms)))).
  { rewrite concat_map, !map_map. f_equal. apply map_ext. intros mo. unfold set_groups, grouped.
    destruct l; [contradiction|reflexivity]. }
  rewrite E. apply grouped_concat_disjoint.
  set (f := fun mo : list bool * Z => set_id (fst mo) (snd mo)) in *.
  assert (P : ForallOrdPairs (fun a b : list bool * Z =>
               forall k, In k (map fst (set_rows a l)) -> ~ In k (map fst (set_rows b l))) (with_ordinals [] ms)).
  { apply (ord_pairs_of_nodup f); auto. intros a b Hne k Ha Hb.
    apply set_rows_key_id in Ha. apply set_rows_key_id in Hb. destruct Ha as [ka Ea], Hb as [kb Eb].
    rewrite Ea in Eb. apply app_inj_tail in Eb. destruct Eb as [_ Eb]. inversion Eb. apply Hne. assumption. }
  clear -P. induction P as [|a ls Ha Hl IH]; [constructor|]. cbn [map]. constructor; auto.
  apply Forall_forall. intros b Hb. apply in_map_iff in Hb. destruct Hb as [mo [<- Hmo]].
  rewrite Forall_forall in Ha. exact (Ha mo Hmo).
Qed.
