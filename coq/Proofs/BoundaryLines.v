(* C26: records (lines) of a file, the records owned by a byte range, and their relation to
   slice file (nls s) (nls e). *)
From Coq Require Import List ZArith Bool Lia.
From DF Require Import Base.Prelude Model.Boundary Proofs.BoundaryLists.
Import ListNotations.
Open Scope Z_scope.

(* ------------------------------------------------------------------ split_lines *)

Lemma split_lines_concat t l : concat (split_lines t l) = l.
Proof.
  induction l as [|b r IH]; cbn [split_lines]; auto.
  destruct (b =? t).
  - cbn [concat app]. now rewrite IH.
  - destruct (split_lines t r) as [|ln rest]; cbn [concat app] in *.
    + now rewrite <- IH.
    + now rewrite <- IH.
Qed.

Lemma split_lines_nonempty t l : Forall (fun ln => ln <> []) (split_lines t l).
Proof.
  induction l as [|b r IH]; cbn [split_lines]; auto.
  destruct (b =? t).
  - constructor; auto. discriminate.
  - destruct (split_lines t r) as [|ln rest].
    + constructor; auto. discriminate.
    + inversion IH; subst. constructor; auto. discriminate.
Qed.

(* a run without terminator is one record *)
Lemma split_noterm t l : l <> [] -> find_term t l = None -> split_lines t l = [l].
Proof.
  induction l as [|b r IH]; intros Hne F; [contradiction|].
  cbn [find_term] in F. cbn [split_lines].
  destruct (b =? t); [discriminate|].
  destruct r as [|b' r']; [reflexivity|].
  destruct (find_term t (b' :: r')) eqn:F'; [discriminate|].
  rewrite IH; auto. discriminate.
Qed.

(* the first record ends at the first terminator *)
Lemma split_hit t body rest :
  find_term t body = None ->
  split_lines t (body ++ t :: rest) = (body ++ [t]) :: split_lines t rest.
Proof.
  induction body as [|b r IH]; intros F.
  - cbn [app split_lines]. now rewrite Z.eqb_refl.
  - cbn [find_term] in F. cbn [app split_lines].
    destruct (b =? t); [discriminate|].
    destruct (find_term t r) eqn:F'; [discriminate|].
    rewrite IH; auto.
Qed.

(* ------------------------------------------------------------------ number_lines *)

Lemma number_lines_snd p ls : map snd (number_lines p ls) = ls.
Proof. revert p. induction ls as [|ln r IH]; intros p; cbn; auto. now rewrite IH. Qed.

Lemma number_lines_ge p0 ls pl : In pl (number_lines p0 ls) -> p0 <= fst pl.
Proof.
  revert p0. induction ls as [|ln r IH]; intros p0 H; cbn [number_lines] in H; [contradiction|].
  destruct H as [<-|H]; cbn [fst]; [lia|].
  apply IH in H. pose proof (zlen_nonneg ln). lia.
Qed.

Lemma number_lines_lt p0 ls pl :
  Forall (fun ln => ln <> []) ls -> In pl (number_lines p0 ls) -> fst pl < p0 + zlen (concat ls).
Proof.
  revert p0. induction ls as [|ln r IH]; intros p0 Hne H; cbn [number_lines] in H; [contradiction|].
  inversion Hne; subst. cbn [concat]. rewrite zlen_app.
  pose proof (zlen_nonneg (concat r)).
  destruct H as [<-|H]; cbn [fst].
  - destruct ln; [contradiction|]. rewrite zlen_cons. pose proof (zlen_nonneg ln). lia.
  - apply IH in H; auto. lia.
Qed.

(* positions are non-decreasing: a range boundary cuts the numbered records in two *)
Lemma filter_range_nil a b p0 ls :
  b <= p0 -> filter (fun pl => in_range a b (fst pl)) (number_lines p0 ls) = [].
Proof.
  revert p0. induction ls as [|ln r IH]; intros p0 H; cbn [number_lines filter fst]; auto.
  pose proof (zlen_nonneg ln).
  unfold in_range at 1. destruct (Z.ltb_spec p0 b); [lia|]. rewrite andb_false_r.
  apply IH. lia.
Qed.

Lemma filter_range_empty a b (nl : list (Z * list Z)) :
  b <= a -> filter (fun pl => in_range a b (fst pl)) nl = [].
Proof.
  intros H. induction nl as [|pl nl IH]; cbn [filter]; auto.
  unfold in_range at 1.
  destruct (Z.leb_spec a (fst pl)); destruct (Z.ltb_spec (fst pl) b); cbn [andb]; auto; lia.
Qed.

Lemma filter_range_split a b c p0 ls :
  a <= b <= c ->
  filter (fun pl => in_range a c (fst pl)) (number_lines p0 ls) =
  filter (fun pl => in_range a b (fst pl)) (number_lines p0 ls) ++
  filter (fun pl => in_range b c (fst pl)) (number_lines p0 ls).
Proof.
  intros H. revert p0. induction ls as [|ln r IH]; intros p0; cbn [number_lines filter fst]; auto.
  pose proof (zlen_nonneg ln) as Hl.
  destruct (Z.lt_ge_cases p0 b) as [Hlt|Hge].
  - assert (E1 : in_range b c p0 = false).
    { unfold in_range. destruct (Z.leb_spec b p0); [lia|reflexivity]. }
    assert (E2 : in_range a c p0 = in_range a b p0).
    { unfold in_range. destruct (Z.ltb_spec p0 c); destruct (Z.ltb_spec p0 b); auto; lia. }
    rewrite E1, E2, IH. destruct (in_range a b p0); reflexivity.
  - assert (E1 : in_range a b p0 = false).
    { unfold in_range. destruct (Z.ltb_spec p0 b); [lia|]. apply andb_false_r. }
    assert (E2 : in_range a c p0 = in_range b c p0).
    { unfold in_range. destruct (Z.leb_spec a p0); destruct (Z.leb_spec b p0); auto; lia. }
    rewrite E1, E2, IH, (filter_range_nil a b) by lia. reflexivity.
Qed.

(* ------------------------------------------------------------------ records before an offset *)

Lemma find_term_none_skipn t l n : find_term t l = None -> find_term t (skipn n l) = None.
Proof.
  intros F. rewrite <- (firstn_skipn n l) in F. now apply find_term_none_app in F.
Qed.

Lemma slice_app_l (a b : list Z) x :
  0 <= x -> slice (a ++ b) 0 (zlen a + x) = a ++ slice b 0 x.
Proof.
  intros H. unfold slice. cbn [Z.to_nat skipn]. rewrite !Z.sub_0_r.
  replace (Z.to_nat (zlen a + x)) with (length a + Z.to_nat x)%nat by (unfold zlen; lia).
  rewrite firstn_app_2. reflexivity.
Qed.

(* scanning in the part after a prefix *)
Lemma eol_shift t pre rest x :
  0 <= x -> eol t (pre ++ rest) (zlen pre + x) = zlen pre + eol t rest x.
Proof.
  intros H. unfold eol.
  replace (Z.to_nat (zlen pre + x)) with (length pre + Z.to_nat x)%nat by (unfold zlen; lia).
  rewrite skipn_app, skipn_all2 by lia. cbn [app].
  replace (length pre + Z.to_nat x - length pre)%nat with (Z.to_nat x) by lia.
  destruct (find_term t (skipn (Z.to_nat x) rest)); [lia|]. apply zlen_app.
Qed.

(* the records that start before offset q are the prefix of the file up to the first record
   start >= q.  Stated for a suffix [l] of the file that begins at a record start [p0]. *)
Lemma eol_nonneg t f x : 0 <= x -> 0 <= eol t f x.
Proof. intros H. unfold eol. destruct (find_term t _); [lia|]. apply zlen_nonneg. Qed.

Lemma slice_nil a b : slice [] a b = [].
Proof. unfold slice. now rewrite skipn_nil, firstn_nil. Qed.

Lemma lines_before t : forall n l, (length l <= n)%nat -> forall p0 q,
  concat (map snd (filter (fun pl => fst pl <? q) (number_lines p0 (split_lines t l)))) =
  slice l 0 (nls t l (q - p0)).
Proof.
  induction n as [|n IH]; intros l Hn p0 q.
  { destruct l; [|cbn in Hn; lia]. now rewrite slice_nil. }
  destruct l as [|b0 l0]; [now rewrite slice_nil|]. set (l := b0 :: l0) in *.
  destruct (find_term t l) as [k|] eqn:F.
  - (* first record = firstn k l ++ [t] *)
    destruct (find_term_some t l k F) as (Lk & Sl & Nb).
    set (body := firstn k l) in *. set (rest := skipn (S k) l) in *.
    assert (Hk : zlen body = Z.of_nat k).
    { unfold zlen, body. rewrite firstn_length. lia. }
    assert (Hrest : (length rest <= n)%nat).
    { unfold rest. rewrite skipn_length. lia. }
    rewrite Sl at 1. rewrite split_hit by auto.
    cbn [number_lines filter fst]. rewrite zlen_app, Hk. change (zlen [t]) with 1.
    specialize (IH rest Hrest (p0 + (Z.of_nat k + 1)) q).
    assert (Hl : l = (body ++ [t]) ++ rest) by (rewrite <- app_assoc; exact Sl).
    assert (Hbt : zlen (body ++ [t]) = Z.of_nat k + 1) by (rewrite zlen_app, Hk; reflexivity).
    destruct (Z.ltb_spec p0 q) as [Hlt|Hge].
    + cbn [map concat snd]. rewrite IH.
      destruct (Z.le_gt_cases (q - p0 - 1) (Z.of_nat k)) as [Hin|Hout].
      * (* q falls inside the first record: next record start is right after it *)
        rewrite (nls_nonpos t rest) by lia. rewrite (slice_empty rest) by lia. rewrite app_nil_r.
        rewrite nls_pos by lia.
        assert (E : eol t l (q - p0 - 1) = Z.of_nat k + 1).
        { destruct (find_term t (slice l (q - p0 - 1) (Z.of_nat k))) eqn:F2.
          - exfalso. assert (F3 : find_term t (slice l 0 (Z.of_nat k)) = None).
            { unfold slice. cbn [Z.to_nat skipn]. rewrite Z.sub_0_r, Nat2Z.id. exact Nb. }
            rewrite <- (slice_app l 0 (q - p0 - 1) (Z.of_nat k)) in F3 by lia.
            apply find_term_none_app in F3 as [_ F3]. congruence.
          - rewrite (eol_skip t l (q - p0 - 1) (Z.of_nat k)); auto; try lia.
            + unfold eol. rewrite Nat2Z.id.
              replace (skipn k l) with (t :: rest).
              * rewrite find_term_cons_hit. lia.
              * rewrite Sl at 1. unfold body. rewrite skipn_app, skipn_all2.
                2:{ rewrite firstn_length. lia. }
                rewrite firstn_length. replace (k - Nat.min k (length l))%nat with O by lia.
                reflexivity.
            + unfold zlen. lia. }
        replace (q - p0 - 1) with (q - p0 - 1) in E by lia. rewrite E.
        rewrite Hl at 1. rewrite <- Hbt. rewrite <- (Z.add_0_r (zlen (body ++ [t]))).
        rewrite slice_app_l by lia. rewrite slice_empty by lia. now rewrite app_nil_r.
      * (* q is past the first record *)
        rewrite (nls_pos t rest) by lia. rewrite nls_pos by lia.
        replace (q - p0 - 1) with (zlen (body ++ [t]) + (q - (p0 + (Z.of_nat k + 1)) - 1)) by lia.
        rewrite Hl at 1 2. rewrite eol_shift by lia. rewrite slice_app_l.
        -- reflexivity.
        -- apply eol_nonneg. lia.
    + cbn [map concat]. rewrite IH.
      rewrite (nls_nonpos t rest) by lia. rewrite (nls_nonpos t l) by lia.
      now rewrite !slice_empty by lia.
  - (* no terminator: the whole suffix is one record *)
    rewrite split_noterm by (auto; discriminate).
    cbn [number_lines filter fst].
    destruct (Z.ltb_spec p0 q) as [Hlt|Hge]; cbn [map concat snd].
    + rewrite app_nil_r. rewrite nls_pos by lia.
      unfold eol. rewrite find_term_none_skipn by auto. now rewrite slice_all by lia.
    + rewrite nls_nonpos by lia. now rewrite slice_empty by lia.
Qed.

Lemma filter_lt_is_range (q : Z) ls :
  filter (fun pl : Z * list Z => fst pl <? q) (number_lines 0 ls) =
  filter (fun pl => in_range 0 q (fst pl)) (number_lines 0 ls).
Proof.
  apply filter_ext_in. intros pl Hin. apply number_lines_ge in Hin.
  unfold in_range. destruct (Z.leb_spec 0 (fst pl)); [reflexivity|lia].
Qed.

(* the records owned by [s,e) are the bytes from the first record start >= s to the first
   record start >= e *)
Theorem owned_slice t file s e :
  0 <= s -> concat (owned t file s e) = slice file (nls t file s) (nls t file e).
Proof.
  intros Hs. unfold owned.
  destruct (Z.le_gt_cases s e) as [Hse|Hes].
  - pose proof (lines_before t (length file) file (Nat.le_refl _) 0 e) as He.
    pose proof (lines_before t (length file) file (Nat.le_refl _) 0 s) as Hs'.
    rewrite Z.sub_0_r in He, Hs'. rewrite filter_lt_is_range in He, Hs'.
    rewrite (filter_range_split 0 s e) in He by lia.
    rewrite map_app, concat_app, Hs' in He.
    rewrite <- (slice_app file 0 (nls t file s) (nls t file e)) in He.
    + now apply app_inv_head in He.
    + pose proof (nls_bounds t file s). lia.
    + now apply nls_mono.
  - rewrite (slice_empty file) by (apply nls_mono; lia).
    rewrite filter_range_empty by lia. reflexivity.
Qed.

(* consecutive ranges own all records, each exactly once, in order *)
Lemma chain_le a b rs : chain a b rs -> a <= b.
Proof.
  revert a. induction rs as [|[x y] r IH]; intros a H; cbn [chain] in H; [lia|].
  destruct H as (-> & Hlt & H). apply IH in H. lia.
Qed.

Theorem owned_chain t file a b rs :
  chain a b rs ->
  concat (map (fun r => owned t file (fst r) (snd r)) rs) =
  map snd (filter (fun pl => in_range a b (fst pl)) (number_lines 0 (split_lines t file))).
Proof.
  revert a. induction rs as [|[x y] r IH]; intros a H; cbn [chain] in H.
  - subst. cbn [map concat]. rewrite filter_range_empty by lia. reflexivity.
  - destruct H as (-> & Hlt & H). cbn [map concat fst snd]. rewrite (IH y H).
    pose proof (chain_le _ _ _ H).
    unfold owned. rewrite <- map_app. f_equal. symmetry. apply filter_range_split. lia.
Qed.
