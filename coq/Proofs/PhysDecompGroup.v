(* C02 -- GROUP BY: partial aggregation per input partition, exchange of the (key, state) pairs by ANY key-respecting
   assignment (one partition, hash of the key, any arrival order), final aggregation per exchange partition
   = the reference GROUP BY (RefSQL's group_pairs + agg_apply) as a bag. *)
From Coq Require Import List ZArith Bool Lia Permutation.
From DF Require Import Base.Prelude Model.RefSQL Proofs.RefSQLLaws Model.PhysDecomp Proofs.PhysDecompProofs Proofs.PhysDecompAgg.
Import ListNotations.
Open Scope Z_scope.

Section Members.
  Context {A : Type}.
  Implicit Types (l : list (row * A)) (k : row).

  Lemma members_app : forall k l l', members k (l ++ l') = members k l ++ members k l'.
  Proof. intros. unfold members. rewrite filter_app, map_app. reflexivity. Qed.
  Lemma members_concat : forall k (ls : list (list (row * A))), members k (concat ls) = concat (map (members k) ls).
  Proof. induction ls; simpl; auto. rewrite members_app, IHls. reflexivity. Qed.
  Lemma members_perm : forall k l l', Permutation l l' -> Permutation (members k l) (members k l').
  Proof. intros. unfold members. apply Permutation_map. apply perm_filter; auto. Qed.
  Lemma members_cons : forall k k' (x : A) l,
    members k ((k', x) :: l) = if row_eqb k k' then x :: members k l else members k l.
  Proof. intros. unfold members. cbn [filter fst]. destruct (row_eqb k k'); reflexivity. Qed.
  Lemma members_notin : forall k l, ~ In k (map fst l) -> members k l = [].
  Proof.
    induction l as [|[k' x] l IH]; intros H; [reflexivity|]. rewrite members_cons.
    destruct (row_eqb k k') eqn:E.
    - apply row_eqb_eq in E; subst. exfalso; apply H; left; reflexivity.
    - apply IH. intros X; apply H; right; exact X.
  Qed.
  Lemma members_nodup : forall k (v : A) l, NoDup (map fst l) -> In (k, v) l -> members k l = [v].
  Proof.
    induction l as [|[k' x] l IH]; intros N H; [destruct H|]. cbn [map fst] in N. inversion N as [|? ? Hn Hd]; subst.
    rewrite members_cons. destruct H as [E|H].
    - inversion E; subst. rewrite row_eqb_refl. f_equal. apply members_notin; auto.
    - destruct (row_eqb k k') eqn:E.
      + apply row_eqb_eq in E; subst. exfalso. apply Hn. apply (in_map fst) in H. exact H.
      + apply IH; auto.
  Qed.

  (* group_pairs: keys, and the members of each group in input order *)
  Lemma group_pairs_keys : forall l k, In k (map fst (group_pairs l)) <-> In k (map fst l).
  Proof.
    induction l as [|[k' x] l IH]; intros k; [simpl; tauto|]. cbn [group_pairs]. rewrite insert_group_keys, IH.
    simpl. intuition.
  Qed.
  Lemma insert_group_content : forall (c : row -> list A) k (x : A) gs,
    NoDup (map fst gs) -> (forall g, In g gs -> snd g = c (fst g)) -> (~ In k (map fst gs) -> c k = []) ->
    forall g, In g (insert_group k x gs) -> snd g = if row_eqb (fst g) k then x :: c (fst g) else c (fst g).
  Proof.
    induction gs as [|[k' xs] gs IH]; intros N Hc Hk g Hg; cbn [insert_group] in Hg.
    - destruct Hg as [<-|[]]. cbn [fst snd]. rewrite row_eqb_refl, Hk; auto.
    - cbn [map fst] in N. inversion N as [|? ? Hn Hd]; subst.
      destruct (row_eqb k k') eqn:E.
      + apply row_eqb_eq in E; subst k'. destruct Hg as [<-|Hg]; cbn [fst snd].
        * rewrite row_eqb_refl. f_equal. apply (Hc (k, xs)). left; reflexivity.
        * destruct (row_eqb (fst g) k) eqn:E2.
          -- apply row_eqb_eq in E2. exfalso. apply Hn. rewrite <- E2. apply in_map; auto.
          -- apply Hc. right; auto.
      + destruct Hg as [<-|Hg]; cbn [fst snd].
        * rewrite row_eqb_sym, E. apply (Hc (k', xs)). left; reflexivity.
        * apply IH; auto.
          -- intros g' Hg'. apply Hc. right; auto.
          -- intros X. apply Hk. cbn [map fst]. intros [Y|Y]; [subst; rewrite row_eqb_refl in E; discriminate | auto].
  Qed.
  Lemma group_pairs_members : forall l g, In g (group_pairs l) -> snd g = members (fst g) l.
  Proof.
    induction l as [|[k x] l IH]; intros g Hg; [destruct Hg|]. cbn [group_pairs] in Hg.
    rewrite members_cons.
    apply (insert_group_content (fun k0 => members k0 l) k x (group_pairs l)); auto.
    - apply group_keys_nodup.
    - intros X. apply members_notin. intros Y. apply X. apply group_pairs_keys; auto.
  Qed.

  (* a grouped computation: one output per group, a function of the group's members *)
  Definition grouped {B} (F : list A -> B) (l : list (row * A)) : list (row * B) :=
    map (fun g => (fst g, F (snd g))) (group_pairs l).
  Lemma grouped_fst : forall {B} (F : list A -> B) l, map fst (grouped F l) = map fst (group_pairs l).
  Proof. intros. unfold grouped. rewrite map_map. reflexivity. Qed.
  Lemma grouped_nodup : forall {B} (F : list A -> B) l, NoDup (map fst (grouped F l)).
  Proof. intros. rewrite grouped_fst. apply group_keys_nodup. Qed.
  Lemma grouped_keys : forall {B} (F : list A -> B) l k, In k (map fst (grouped F l)) <-> In k (map fst l).
  Proof. intros. rewrite grouped_fst. apply group_pairs_keys. Qed.
  Lemma grouped_In : forall {B} (F : list A -> B) l k v,
    In (k, v) (grouped F l) <-> In k (map fst l) /\ v = F (members k l).
  Proof.
    intros B F l k v. unfold grouped. rewrite in_map_iff. split.
    - intros [g [E Hg]]. inversion E; subst. split.
      + apply group_pairs_keys. apply in_map; auto.
      + rewrite (group_pairs_members _ _ Hg). reflexivity.
    - intros [Hk ->]. apply group_pairs_keys in Hk. apply in_map_iff in Hk. destruct Hk as [g [<- Hg]].
      exists g. split; auto. rewrite (group_pairs_members _ _ Hg). reflexivity.
  Qed.
End Members.

Lemma members_grouped : forall {A B} (F : list A -> B) (l : list (row * A)) k,
  members k (grouped F l) = if existsb (row_eqb k) (map fst l) then [F (members k l)] else [].
Proof.
  intros. destruct (existsb (row_eqb k) (map fst l)) eqn:E.
  - apply existsb_exists in E. destruct E as [k' [Hk E]]. apply row_eqb_eq in E; subst k'.
    apply members_nodup; [apply grouped_nodup | apply grouped_In; auto].
  - apply members_notin. rewrite grouped_keys. intros Hk.
    assert (existsb (row_eqb k) (map fst l) = true) by (apply existsb_exists; exists k; split; auto; apply row_eqb_refl).
    congruence.
Qed.

Lemma keyed_perm : forall {B} (l1 l2 : list (row * B)),
  NoDup (map fst l1) -> NoDup (map fst l2) -> (forall p, In p l1 <-> In p l2) -> Permutation l1 l2.
Proof. intros. apply NoDup_Permutation; auto; eapply NoDup_map_inv; eauto. Qed.

Lemma nodup_app : forall {K} (a b : list K), NoDup a -> NoDup b -> (forall x, In x a -> ~ In x b) -> NoDup (a ++ b).
Proof.
  induction a as [|x a IH]; intros b Na Nb H; simpl; auto. inversion Na; subst. constructor.
  - rewrite in_app_iff. intros [X|X]; [auto | apply (H x); [left; auto | auto]].
  - apply IH; auto. intros y Hy. apply H. right; auto.
Qed.
Lemma NoDup_concat_map : forall {K} (G : nat -> list K) s,
  NoDup s -> (forall i, In i s -> NoDup (G i)) ->
  (forall i j k, In i s -> In j s -> In k (G i) -> In k (G j) -> i = j) -> NoDup (concat (map G s)).
Proof.
  induction s as [|a s IH]; intros N H1 H2; simpl; [constructor|]. inversion N; subst.
  apply nodup_app.
  - apply H1; left; auto.
  - apply IH; auto. + intros; apply H1; right; auto. + intros i j k Hi Hj; apply H2; right; auto.
  - intros x Hx Hc. apply in_concat in Hc. destruct Hc as [y [Hy Hxy]]. apply in_map_iff in Hy. destruct Hy as [j [<- Hj]].
    assert (a = j) by (apply (H2 a j x); auto; [left; auto | right; auto]). subst; auto.
Qed.
Lemma perm_concat : forall {A} (ls ls' : list (list A)), Permutation ls ls' -> Permutation (concat ls) (concat ls').
Proof.
  induction 1; simpl; auto.
  - apply Permutation_app_head; auto.
  - rewrite !app_assoc. apply Permutation_app_tail. apply Permutation_app_comm.
  - etransitivity; eauto.
Qed.
Lemma mapM_id_map : forall {A B} (f : A -> res B) l, mapM (fun s => s) (map f l) = mapM f l.
Proof. induction l; simpl; auto. destruct (f a); simpl; auto. rewrite IHl. reflexivity. Qed.

(* the three operators of Model/PhysDecomp.v are grouped computations *)
Definition Ffin (fn : agg_fn) (ss : list (res pstate)) : res value :=
  x <- mapM (fun s => s) ss;; agg_final fn (agg_merge_all fn x).
Lemma ref_groups_grouped : forall fn l, ref_groups fn l = grouped (agg_apply fn) l.
Proof. reflexivity. Qed.
Lemma partial_groups_grouped : forall fn p, partial_groups fn p = grouped (agg_partial fn) p.
Proof. reflexivity. Qed.
Lemma final_groups_grouped : forall fn S, final_groups fn S = grouped (Ffin fn) S.
Proof. reflexivity. Qed.
Lemma Ffin_map : forall fn parts, Ffin fn (map (agg_partial fn) parts) = agg_two_phase fn parts.
Proof. intros. unfold Ffin, agg_two_phase. rewrite mapM_id_map. reflexivity. Qed.

Lemma agg_dom_members : forall fn (l : list (row * value)) k, agg_dom fn (map snd l) -> agg_dom fn (members k l).
Proof.
  intros fn l k H. assert (G : Forall plain (map snd l) -> Forall plain (members k l)).
  { intros F. apply Forall_forall. intros x Hx. unfold members in Hx. apply in_map_iff in Hx.
    destruct Hx as [p [<- Hp]]. apply filter_In in Hp. eapply Forall_forall in F; [exact F|]. apply in_map; tauto. }
  destruct fn; simpl in *; auto.
Qed.

(* keys and states that the partial stage sends to the exchange *)
Lemma partial_keys : forall fn (parts : list (list (row * value))) k,
  In k (map fst (concat (map (partial_groups fn) parts))) <-> In k (map fst (concat parts)).
Proof.
  induction parts as [|p ps IH]; intros k; [simpl; tauto|]. cbn [map concat]. rewrite !map_app, !in_app_iff, IH.
  rewrite partial_groups_grouped, grouped_keys. tauto.
Qed.
Lemma members_partials : forall fn k (parts : list (list (row * value))),
  exists parts', members k (concat (map (partial_groups fn) parts)) = map (agg_partial fn) parts' /\
                 concat parts' = members k (concat parts).
Proof.
  induction parts as [|p ps [ps' [E1 E2]]]; [exists []; split; reflexivity|].
  cbn [map concat]. rewrite !members_app, partial_groups_grouped, members_grouped, E1.
  destruct (existsb (row_eqb k) (map fst p)) eqn:E.
  - exists (members k p :: ps'). split; [reflexivity|]. simpl. rewrite E2. reflexivity.
  - exists ps'. split; [reflexivity|]. rewrite E2. rewrite (members_notin k p); [reflexivity|].
    intros Hk. assert (existsb (row_eqb k) (map fst p) = true) by (apply existsb_exists; exists k; split; auto; apply row_eqb_refl).
    congruence.
Qed.

(* ------------------------------------------------------------------ the general theorem *)
Theorem group_partitioned_final : forall fn (assign : row -> nat) (l : list (row * value)) parts
    (T : nat -> list (row * res pstate)) n,
  is_split l parts -> agg_dom fn (map snd l) ->
  is_split (concat (map (partial_groups fn) parts)) (parts_of T n) ->
  key_respecting fst assign T n ->
  Permutation (concat (map (fun i => final_groups fn (T i)) (seq 0 n))) (ref_groups fn l).
Proof.
  intros fn assign l parts T n SL Hd ST KR. unfold is_split, parts_of in *.
  set (S := concat (map (partial_groups fn) parts)) in *.
  (* keys *)
  assert (K : forall k, In k (map fst l) <-> exists i, (i < n)%nat /\ In k (map fst (T i))).
  { intros k. transitivity (In k (map fst (concat parts))).
    { split; apply Permutation_in; apply Permutation_map; [symmetry|]; auto. }
    rewrite <- (partial_keys fn). fold S. transitivity (In k (map fst (concat (map T (seq 0 n))))).
    { split; apply Permutation_in; apply Permutation_map; [symmetry|]; auto. }
    rewrite concat_map, map_map, in_concat. split.
    - intros [y [Hy Hk]]. apply in_map_iff in Hy. destruct Hy as [i [<- Hi]]. apply in_seq in Hi. exists i; split; [lia | auto].
    - intros [i [Hi Hk]]. exists (map fst (T i)). split; auto. apply in_map_iff. exists i; split; auto. apply in_seq; lia. }
  (* values *)
  assert (V : forall i k, (i < n)%nat -> In k (map fst (T i)) -> Ffin fn (members k (T i)) = agg_apply fn (members k l)).
  { intros i k Hi Hk.
    assert (A1 : assign k = i).
    { apply in_map_iff in Hk. destruct Hk as [x [<- Hx]]. apply (KR i x); auto. }
    assert (M : members k (concat (map T (seq 0 n))) = members k (T i)).
    { rewrite members_concat, map_map.
      apply (concat_only (fun j => members k (T j))); [apply seq_NoDup | apply in_seq; lia |].
      intros j Hj Hne. apply in_seq in Hj. apply members_notin. intros Hkj.
      apply in_map_iff in Hkj. destruct Hkj as [x [Ex Hx]]. apply Hne.
      rewrite <- (KR j x), Ex; auto. lia. }
    destruct (members_partials fn k parts) as [ps' [E1 E2]]. fold S in E1.
    assert (P : Permutation (members k (T i)) (map (agg_partial fn) ps')).
    { rewrite <- M, <- E1. apply members_perm; auto. }
    apply Permutation_map_inv in P. destruct P as [ps'' [E3 P]].
    rewrite E3, Ffin_map. apply agg_two_phase_split; [|apply agg_dom_members; auto].
    unfold is_split. etransitivity; [apply perm_concat; symmetry; exact P|].
    rewrite E2. apply members_perm; auto. }
  apply keyed_perm.
  - rewrite concat_map, map_map. apply (NoDup_concat_map (fun i => map fst (final_groups fn (T i)))).
    + apply seq_NoDup.
    + intros. rewrite final_groups_grouped. apply grouped_nodup.
    + intros i j k Hi Hj Hki Hkj. apply in_seq in Hi, Hj. rewrite final_groups_grouped, grouped_keys in Hki, Hkj.
      apply in_map_iff in Hki, Hkj. destruct Hki as [x [Ex Hx]], Hkj as [y [Ey Hy]].
      rewrite <- (KR i x), <- (KR j y), Ex, Ey; auto; lia.
  - rewrite ref_groups_grouped. apply grouped_nodup.
  - intros [k v]. rewrite ref_groups_grouped, grouped_In, in_concat. split.
    + intros [y [Hy Hkv]]. apply in_map_iff in Hy. destruct Hy as [i [<- Hi]]. apply in_seq in Hi.
      rewrite final_groups_grouped, grouped_In in Hkv. destruct Hkv as [Hk ->]. split.
      * apply K. exists i; split; [lia | auto].
      * apply V; auto; lia.
    + intros [Hk ->]. apply K in Hk. destruct Hk as [i [Hi Hk]].
      exists (final_groups fn (T i)). split; [apply in_map_iff; exists i; split; auto; apply in_seq; lia|].
      rewrite final_groups_grouped, grouped_In. split; auto. symmetry. apply V; auto.
Qed.

(* partial per partition -> CoalescePartitions -> Final *)
Theorem group_two_phase_ok : forall fn (l : list (row * value)) parts,
  is_split l parts -> agg_dom fn (map snd l) -> Permutation (group_two_phase fn parts) (ref_groups fn l).
Proof.
  intros fn l parts SL Hd. unfold group_two_phase.
  pose proof (group_partitioned_final fn (fun _ => 0%nat) l parts
                (fun _ => concat (map (partial_groups fn) parts)) 1 SL Hd) as G.
  cbn [seq map concat parts_of] in G. rewrite !app_nil_r in G. apply G.
  - unfold is_split. cbn [parts_of seq map concat]. rewrite app_nil_r. reflexivity.
  - intros i x Hi _. lia.
Qed.

(* partial per partition -> RepartitionExec(Hash(group key), n) -> FinalPartitioned per partition *)
Theorem group_three_phase_ok : forall fn (assign : row -> nat) n (l : list (row * value)) parts,
  n <> 0%nat -> is_split l parts -> agg_dom fn (map snd l) ->
  Permutation (group_three_phase fn assign n parts) (ref_groups fn l).
Proof.
  intros fn assign n l parts Hn SL Hd. unfold group_three_phase, hash_split, parts_of. rewrite map_map.
  apply (group_partitioned_final fn (fun k => Nat.modulo (assign k) n) l parts); auto.
  - apply (hash_split_is_split (fun p : row * res pstate => assign (fst p))); auto.
  - intros i x Hi Hx. unfold hash_part in Hx. apply filter_In in Hx. destruct Hx as [_ Hx]. apply Nat.eqb_eq in Hx; auto.
Qed.
