(* C16 -- proofs about Model/SpillPool.v at CALL granularity: every statement quantifies over all interleavings of
   push_batch / drop / poll_next calls (each call atomic), any number of writers, any schedule length. *)
From DF Require Import Base.Prelude Model.SpillPool Model.SpillPoolFine.
From Coq Require Import Lia PeanoNat Permutation.
Open Scope Z_scope.

(* ------------------------------------------------------------------ list updates *)
Lemma upd_length {A} i (g : A -> A) l : length (upd i g l) = length l.
Proof. revert i; induction l; intros [|i]; cbn; auto. Qed.

Lemma nth_upd_same {A} i (g : A -> A) l d : (i < length l)%nat -> nth i (upd i g l) d = g (nth i l d).
Proof. revert i; induction l; intros [|i] H; cbn in *; try lia; auto. apply IHl; lia. Qed.

Lemma nth_upd_other {A} i j (g : A -> A) l d : i <> j -> nth j (upd i g l) d = nth j l d.
Proof. revert i j; induction l; intros [|i] [|j] H; cbn; auto; try congruence. Qed.

Lemma map_upd_same {A B} (h : A -> B) g i l : (forall x, h (g x) = h x) -> map h (upd i g l) = map h l.
Proof. intro H; revert i; induction l; intros [|i]; cbn; auto; f_equal; auto. Qed.

Lemma map_upd {A B} (h : A -> B) g g' i l : (forall x, h (g x) = g' (h x)) -> map h (upd i g l) = upd i g' (map h l).
Proof. intro H; revert i; induction l; intros [|i]; cbn; auto; f_equal; auto. Qed.

Lemma firstn_upd {A} q i (g : A -> A) l : (q <= i)%nat -> firstn q (upd i g l) = firstn q l.
Proof. revert q i; induction l; intros [|q] [|i] H; cbn; auto; try lia. f_equal; apply IHl; lia. Qed.

Lemma concat_upd_last i (b : Z) l :
  S i = length l -> concat (upd i (fun x => x ++ [b]) l) = concat l ++ [b].
Proof.
  revert i; induction l; intros i H; cbn in *; try lia.
  destruct i; cbn.
  - destruct l; cbn in *; try lia. rewrite !app_nil_r. reflexivity.
  - rewrite IHl by lia. rewrite app_assoc. reflexivity.
Qed.

Lemma firstn_S_nth {A} q (l : list A) d : (q < length l)%nat -> firstn (S q) l = firstn q l ++ [nth q l d].
Proof. revert q; induction l; intros [|q] H; cbn in *; try lia; auto. f_equal. apply IHl; lia. Qed.

Lemma skipn_nth_cons {A} q (l : list A) d : (q < length l)%nat -> skipn q l = nth q l d :: skipn (S q) l.
Proof. revert q; induction l; intros [|q] H; cbn in *; try lia; auto. apply IHl; lia. Qed.

(* ------------------------------------------------------------------ views of the store *)
Definition BL (p : pool) := map f_batches (store p).
Definition FL (p : pool) := map f_finished (store p).

Lemma getf_batches p i : f_batches (getf p i) = nth i (BL p) [].
Proof. unfold getf, BL. change (@nil Z) with (f_batches dfile). symmetry; apply map_nth. Qed.
Lemma getf_finished p i : f_finished (getf p i) = nth i (FL p) true.
Proof. unfold getf, FL. change true with (f_finished dfile). symmetry; apply map_nth. Qed.
Lemma BL_length p : length (BL p) = length (store p).
Proof. apply map_length. Qed.
Lemma FL_length p : length (FL p) = length (store p).
Proof. apply map_length. Qed.

(* ------------------------------------------------------------------ the structural invariant *)
Record InvS' (B : list (list Z)) (F : list bool) (q : nat) (ow : list nat) (wc : nat) (c : bool) (r : nat)
             (app yl : list Z) : Prop := {
  i_len : length B = length F;
  i_q : (q <= length B)%nat;
  i_cur : c = true -> (q < length B)%nat;
  i_cur0 : c = false -> r = 0%nat;
  i_rd : (r <= length (nth q B []))%nat;
  i_pop : forall i, (i < q)%nat -> nth i F true = true;
  i_y : yl = concat (firstn q B) ++ firstn r (nth q B []);
  i_app : concat B = app;
  i_open : forall i, In i ow -> S i = length B /\ nth i F true = false;
  i_open1 : (length ow <= 1)%nat;
  i_unf : forall i, (i < length B)%nat -> nth i F true = false -> In i ow;
  i_wc : wc = 0%nat -> ow = [] }.

Definition InvS (p : pool) : Prop :=
  InvS' (BL p) (FL p) (qfront p) (openw p) (wcount p) (cur p) (rread p) (appended p) (yielded p).

(* a writer holds file [i] (popped from open_write_files, or just created): it is the last file and the only
   unfinished one *)
Record HInvS' (B : list (list Z)) (F : list bool) (q : nat) (i : nat) (wc : nat) (c : bool) (r : nat)
              (app yl : list Z) : Prop := {
  h_len : length B = length F;
  h_q : (q <= length B)%nat;
  h_cur : c = true -> (q < length B)%nat;
  h_cur0 : c = false -> r = 0%nat;
  h_rd : (r <= length (nth q B []))%nat;
  h_pop : forall j, (j < q)%nat -> nth j F true = true;
  h_y : yl = concat (firstn q B) ++ firstn r (nth q B []);
  h_app : concat B = app;
  h_last : S i = length B;
  h_unfin : nth i F true = false;
  h_only : forall j, (j < length B)%nat -> nth j F true = false -> j = i;
  h_wc : wc <> 0%nat }.

Definition HInvS (p : pool) (i : nat) : Prop :=
  openw p = [] /\
  HInvS' (BL p) (FL p) (qfront p) i (wcount p) (cur p) (rread p) (appended p) (yielded p).

Lemma nth_app_last {A} (l : list A) x d q : (q <= length l)%nat -> nth q (l ++ [x]) d = if Nat.eqb q (length l) then x else nth q l d.
Proof.
  intro H. destruct (Nat.eqb_spec q (length l)).
  - subst. rewrite app_nth2 by lia. rewrite Nat.sub_diag. reflexivity.
  - apply app_nth1; lia.
Qed.

(* take an open file *)
Lemma take_inv B F q i ow wc c r app yl :
  InvS' B F q (i :: ow) wc c r app yl -> ow = [] /\ HInvS' B F q i wc c r app yl.
Proof.
  intros [].
  assert (ow = []) by (destruct ow; cbn in *; auto; lia). subst.
  split; auto.
  destruct (i_open0 i (or_introl eq_refl)) as [Hl Hf].
  constructor; auto.
  - intros j Hj Hn. destruct (i_unf0 j Hj Hn) as [|[]]; auto.
  - intro Hw. specialize (i_wc0 Hw). discriminate.
Qed.

(* publish a new file *)
Lemma publish_inv B F q wc c r app yl :
  InvS' B F q [] wc c r app yl -> wc <> 0%nat ->
  HInvS' (B ++ [[]]) (F ++ [false]) q (length B) wc c r app yl.
Proof.
  intros [] Hw.
  assert (Hfin : forall j, (j < length B)%nat -> nth j F true = true).
  { intros j Hj. destruct (nth j F true) eqn:E; auto. destruct (i_unf0 j Hj E). }
  assert (Hn : nth q (B ++ [[]]) [] = nth q B []).
  { rewrite nth_app_last by lia. destruct (Nat.eqb_spec q (length B)); auto. subst. symmetry; apply nth_overflow; lia. }
  constructor; auto.
  - rewrite !app_length; cbn; lia.
  - rewrite app_length; cbn; lia.
  - intro Hc. rewrite app_length; cbn. specialize (i_cur1 Hc). lia.
  - rewrite Hn; auto.
  - intros j Hj. rewrite app_nth1 by lia. auto.
  - rewrite Hn. rewrite firstn_app. replace (q - length B)%nat with 0%nat by lia. cbn. rewrite app_nil_r. auto.
  - rewrite concat_app. cbn. rewrite app_nil_r. auto.
  - rewrite app_length; cbn; lia.
  - rewrite i_len0. rewrite nth_app_last by lia. rewrite Nat.eqb_refl. reflexivity.
  - intros j Hj Hf. rewrite app_length in Hj; cbn in Hj.
    destruct (Nat.eq_dec j (length B)); auto.
    rewrite app_nth1 in Hf by lia. rewrite Hfin in Hf by lia. discriminate.
Qed.

(* seal the held file (failed append, rotation) *)
Lemma seal_inv B F q i wc c r app yl :
  HInvS' B F q i wc c r app yl -> InvS' B (upd i (fun _ => true) F) q [] wc c r app yl.
Proof.
  intros [].
  assert (Hall : forall j, (j < length B)%nat -> nth j (upd i (fun _ => true) F) true = true).
  { intros j Hj. destruct (Nat.eq_dec i j).
    - subst. rewrite nth_upd_same by lia. reflexivity.
    - rewrite nth_upd_other by auto. destruct (nth j F true) eqn:E; auto. specialize (h_only0 j Hj E). congruence. }
  constructor; auto.
  - rewrite upd_length; auto.
  - intros j Hj. apply Hall. lia.
  - intros j [].
  - intros j Hj Hf. rewrite Hall in Hf by auto. discriminate.
Qed.

(* append to the held file *)
Lemma append_inv B F q i wc c r app yl b :
  HInvS' B F q i wc c r app yl ->
  HInvS' (upd i (fun x => x ++ [b]) B) F q i wc c r (app ++ [b]) yl.
Proof.
  intros [].
  assert (Hqi : (q <= i)%nat).
  { destruct (le_lt_dec q i); auto. rewrite h_pop0 in h_unfin0 by auto. discriminate. }
  assert (Hn : nth q (upd i (fun x => x ++ [b]) B) [] = if Nat.eqb q i then nth q B [] ++ [b] else nth q B []).
  { destruct (Nat.eqb_spec q i).
    - subst q. rewrite nth_upd_same by lia. reflexivity.
    - apply nth_upd_other. auto. }
  constructor; auto.
  - rewrite upd_length; auto.
  - rewrite upd_length; auto.
  - rewrite upd_length; auto.
  - rewrite Hn. destruct (Nat.eqb q i); auto. rewrite app_length; cbn; lia.
  - rewrite firstn_upd by auto. rewrite Hn. destruct (Nat.eqb q i); auto.
    rewrite firstn_app. replace (r - length (nth q B []))%nat with 0%nat by lia. cbn. rewrite app_nil_r. auto.
  - rewrite concat_upd_last by auto. congruence.
  - rewrite upd_length; auto.
  - rewrite upd_length; auto.
Qed.

(* put the held file back *)
Lemma putback_inv B F q i wc c r app yl :
  HInvS' B F q i wc c r app yl -> InvS' B F q [i] wc c r app yl.
Proof.
  intros []. constructor; auto.
  - intros j [<-|[]]. auto.
  - intros j Hj Hf. left. symmetry. auto.
  - intro. contradiction.
Qed.

Lemma InvS'_wc B F q ow wc wc' c r app yl :
  InvS' B F q ow wc c r app yl -> (wc' = 0%nat -> ow = []) -> InvS' B F q ow wc' c r app yl.
Proof. intros [] H. constructor; auto. Qed.

(* ------------------------------------------------------------------ the sections preserve the invariant *)
Lemma BL_finish p i : map f_batches (upd i f_finish (store p)) = BL p.
Proof. apply map_upd_same. reflexivity. Qed.
Lemma FL_finish p i : map f_finished (upd i f_finish (store p)) = upd i (fun _ => true) (FL p).
Proof. apply map_upd. reflexivity. Qed.
Lemma BL_clear s i : map f_batches (upd i f_clear_waker s) = map f_batches s.
Proof. apply map_upd_same. reflexivity. Qed.
Lemma FL_clear s i : map f_finished (upd i f_clear_waker s) = map f_finished s.
Proof. apply map_upd_same. reflexivity. Qed.
Lemma BL_setw s i : map f_batches (upd i f_set_waker s) = map f_batches s.
Proof. apply map_upd_same. reflexivity. Qed.
Lemma FL_setw s i : map f_finished (upd i f_set_waker s) = map f_finished s.
Proof. apply map_upd_same. reflexivity. Qed.
Lemma BL_append p i b sz : map f_batches (upd i (f_append b sz) (store p)) = upd i (fun x => x ++ [b]) (BL p).
Proof. apply map_upd. reflexivity. Qed.
Lemma FL_append p i b sz : map f_finished (upd i (f_append b sz) (store p)) = FL p.
Proof. apply map_upd_same. reflexivity. Qed.

Lemma InvS_fire b p : InvS (fire b p) <-> InvS p.
Proof. destruct b; reflexivity. Qed.
Lemma HInvS_fire b p i : HInvS (fire b p) i <-> HInvS p i.
Proof. destruct b; reflexivity. Qed.

Lemma InvS_file_wake i p : InvS (file_wake i p) <-> InvS p.
Proof.
  unfold file_wake. rewrite InvS_fire. unfold InvS, BL, FL; cbn. rewrite BL_clear, FL_clear. reflexivity.
Qed.
Lemma HInvS_file_wake i j p : HInvS (file_wake i p) j <-> HInvS p j.
Proof.
  unfold file_wake. rewrite HInvS_fire. unfold HInvS, BL, FL; cbn. rewrite BL_clear, FL_clear. reflexivity.
Qed.
Lemma InvS_pool_wake p : InvS (pool_wake p) <-> InvS p.
Proof. unfold pool_wake. rewrite InvS_fire. reflexivity. Qed.
Lemma HInvS_pool_wake p i : HInvS (pool_wake p) i <-> HInvS p i.
Proof. unfold pool_wake. rewrite HInvS_fire. reflexivity. Qed.

Lemma get_file_inv p :
  InvS p -> wcount p <> 0%nat -> HInvS (snd (get_file p)) (fst (get_file p)).
Proof.
  intros H Hw. unfold get_file, sec_take. destruct (openw p) as [|i ow] eqn:E.
  - cbn [sec_publish fst snd]. rewrite HInvS_pool_wake. unfold HInvS, BL, FL; cbn.
    split; auto. rewrite !map_app; cbn. rewrite <- (BL_length p).
    apply publish_inv; auto. unfold InvS in H. rewrite E in H. exact H.
  - cbn [fst snd]. unfold InvS in H. rewrite E in H. apply take_inv in H. destruct H as [-> H].
    split; auto.
Qed.

Lemma sec_append_inv p i thr b sz flt :
  HInvS p i ->
  match sec_append true thr i b sz flt p with
  | (ADone _, p3) => InvS p3
  | (APutBack, p3) => HInvS p3 i
  end.
Proof.
  intros [Ho H]. unfold sec_append.
  rewrite getf_finished. rewrite (h_unfin _ _ _ _ _ _ _ _ _ H). cbn [negb andb].
  destruct (is_fail_append flt).
  - cbn [orb]. rewrite InvS_file_wake. unfold InvS, BL, FL; cbn. rewrite BL_finish, FL_finish, Ho.
    apply seal_inv with (i := i). exact H.
  - set (p1 := log_append b (set_store (upd i (f_append b sz) (store p)) p)).
    assert (H1 : HInvS p1 i).
    { split; auto. unfold p1, BL, FL; cbn. rewrite BL_append, FL_append. apply append_inv. exact H. }
    destruct (f_size (getf (file_wake i p1) i) >? thr).
    + cbn [orb]. destruct H1 as [Ho1 H1].
      assert (H2 := proj2 (HInvS_file_wake i i p1) (conj Ho1 H1)). destruct H2 as [Ho2 H2].
      unfold InvS, BL, FL; cbn. rewrite BL_finish, FL_finish, Ho2. apply seal_inv with (i := i). exact H2.
    + apply HInvS_file_wake. exact H1.
Qed.

Lemma putback_pool_inv p i : HInvS p i -> InvS (sec_putback i p).
Proof.
  intros [Ho H]. unfold InvS, sec_putback; cbn. rewrite Ho. cbn. apply putback_inv. exact H.
Qed.

Lemma do_push_inv p thr b rows sz flt :
  InvS p -> wcount p <> 0%nat -> InvS (snd (do_push true thr b rows sz flt p)).
Proof.
  intros H Hw. unfold do_push. destruct (rows =? 0); auto.
  pose proof (get_file_inv p H Hw) as Hg. destruct (get_file p) as [i p2]. cbn [fst snd] in Hg.
  pose proof (sec_append_inv p2 i thr b sz flt Hg) as Ha.
  destruct (sec_append true thr i b sz flt p2) as [[ok|] p3]; cbn [snd]; auto.
  apply putback_pool_inv; auto.
Qed.

Lemma do_drop_inv p : InvS p -> wcount p <> 0%nat -> InvS (do_drop p).
Proof.
  intros H Hw. unfold do_drop, sec_drop_dec. cbn [wcount set_wcount openw].
  destruct (Nat.eqb_spec (pred (wcount p)) 0).
  - destruct (openw p) as [|i ow] eqn:E.
    + rewrite InvS_pool_wake. unfold InvS; cbn. rewrite E. unfold InvS in H; rewrite E in H.
      eapply InvS'_wc; eauto.
    + unfold InvS in H. rewrite E in H. apply take_inv in H. destruct H as [-> H].
      cbn [fold_left]. unfold sec_drop_wake. rewrite InvS_pool_wake. unfold sec_finalize.
      rewrite InvS_file_wake. unfold InvS, BL, FL; cbn. rewrite BL_finish, FL_finish.
      eapply InvS'_wc. apply seal_inv with (i := i). exact H. auto.
  - unfold InvS; cbn. eapply InvS'_wc; eauto. intro; lia.
Qed.

(* ------------------------------------------------------------------ reader sections *)
Lemma read_inv B F q ow wc r app yl :
  InvS' B F q ow wc true r app yl -> (r < length (nth q B []))%nat ->
  InvS' B F q ow wc true (S r) app (yl ++ [nth r (nth q B []) 0]).
Proof.
  intros [] Hr. constructor; auto.
  - discriminate.
  - rewrite (firstn_S_nth r _ 0) by auto. rewrite app_assoc. congruence.
Qed.

Lemma pop_inv B F q ow wc r app yl :
  InvS' B F q ow wc true r app yl -> ~ (r < length (nth q B []))%nat -> nth q F true = true ->
  InvS' B F (S q) ow wc false 0 app yl.
Proof.
  intros [] Hr Hf. specialize (i_cur1 eq_refl).
  constructor; auto.
  - discriminate.
  - lia.
  - intros i Hi. destruct (Nat.eq_dec i q); [subst; auto | apply i_pop0; lia].
  - change (firstn 0 (nth (S q) B [])) with (@nil Z). rewrite app_nil_r. rewrite (firstn_S_nth q _ []) by auto.
    rewrite concat_app. cbn. rewrite app_nil_r.
    rewrite i_y0. f_equal. apply firstn_all2. lia.
Qed.

Lemma attach_inv B F q ow wc r app yl :
  InvS' B F q ow wc false r app yl -> (q < length B)%nat -> InvS' B F q ow wc true 0 app yl.
Proof.
  intros [] Hq. specialize (i_cur2 eq_refl). subst r.
  constructor; auto; try discriminate; try lia.
Qed.

Lemma InvS_cur p c : cur p = c ->
  InvS p -> InvS' (BL p) (FL p) (qfront p) (openw p) (wcount p) c (rread p) (appended p) (yielded p).
Proof. intros <-. auto. Qed.

(* the reader is parked on the front file / on the pool *)
Definition parkA (p : pool) : Prop :=
  cur p = true /\ f_waker (getf p (qfront p)) = true /\
  rread p = length (f_batches (getf p (qfront p))) /\ f_finished (getf p (qfront p)) = false.
Definition parkB (p : pool) : Prop :=
  cur p = false /\ qfront p = length (store p) /\ wcount p <> 0%nat /\ pwaker p = true.

Definition rem' (B : list (list Z)) (q r : nat) : list Z := skipn r (concat (skipn q B)).
Lemma remaining_rem p : remaining p = rem' (BL p) (qfront p) (rread p).
Proof. unfold remaining, flat, rem', BL. rewrite skipn_map. reflexivity. Qed.
Lemma rem_pop B q r : (q < length B)%nat -> r = length (nth q B []) -> rem' B q r = rem' B (S q) 0.
Proof.
  intros Hq ->. unfold rem'. rewrite (skipn_nth_cons q B []) by auto. cbn [concat].
  rewrite skipn_app, skipn_all, Nat.sub_diag. reflexivity.
Qed.
Lemma rem_read B q r : (q < length B)%nat -> (r < length (nth q B []))%nat ->
  rem' B q r = nth r (nth q B []) 0 :: rem' B q (S r).
Proof.
  intros Hq Hr. unfold rem'. rewrite (skipn_nth_cons q B []) by auto. cbn [concat].
  rewrite !skipn_app. replace (r - length (nth q B []))%nat with 0%nat by lia.
  replace (S r - length (nth q B []))%nat with 0%nat by lia. cbn [skipn].
  rewrite (skipn_nth_cons r _ 0) by auto. reflexivity.
Qed.
Lemma rem_end B q r : (length B <= q)%nat -> rem' B q r = [].
Proof.
  intro H. unfold rem'. replace (skipn q B) with (@nil (list Z)) by (symmetry; apply skipn_all2; auto).
  cbn. apply skipn_nil.
Qed.

Definition measure (p : pool) : nat := (2 * (length (store p) - qfront p) + (if cur p then 1 else 2))%nat.

Lemma getf_upd_same p i g : (i < length (store p))%nat -> getf (set_store (upd i g (store p)) p) i = g (getf p i).
Proof. intro H. unfold getf; cbn. apply nth_upd_same; auto. Qed.

Definition poll_post (p : pool) (r : pollres) (p' : pool) : Prop :=
  InvS p' /\ wcount p' = wcount p /\ woken p' = woken p /\ appended p' = appended p /\
  BL p' = BL p /\ FL p' = FL p /\ openw p' = openw p /\ rpending p' = rpending p /\
  match r with
  | PBatch b => remaining p = b :: remaining p' /\ yielded p' = yielded p ++ [b]
  | PPending => (parkA p' \/ parkB p') /\ remaining p' = remaining p /\ yielded p' = yielded p
  | PEof => cur p' = false /\ qfront p' = length (store p') /\ wcount p' = 0%nat /\ remaining p = [] /\ yielded p' = yielded p
  | PFuel => False
  end.

Lemma poll_post_trans p p1 r p' :
  wcount p1 = wcount p -> woken p1 = woken p -> appended p1 = appended p -> BL p1 = BL p -> FL p1 = FL p ->
  openw p1 = openw p -> rpending p1 = rpending p ->
  remaining p1 = remaining p -> yielded p1 = yielded p ->
  poll_post p1 r p' -> poll_post p r p'.
Proof.
  intros E1 E2 E3 E4 E5 E6 E7 E8 E9 (H & A1 & A2 & A3 & A4 & A5 & A6 & A7 & Hr).
  unfold poll_post. split; [exact H|]. repeat split; try congruence.
  destruct r; auto; rewrite <- ?E8, <- ?E9; auto.
Qed.

Lemma poll_loop_spec fuel io : forall p, InvS p -> (measure p <= fuel)%nat ->
  poll_post p (fst (poll_loop fuel io p)) (snd (poll_loop fuel io p)).
Proof.
  induction fuel; intros p H Hm.
  { unfold measure in Hm. destruct (cur p); lia. }
  cbn [poll_loop]. destruct (cur p) eqn:Ec.
  - pose proof (i_cur _ _ _ _ _ _ _ _ _ H Ec) as Hq. rewrite BL_length in Hq.
    unfold sec_file_check. rewrite getf_batches, getf_finished.
    destruct (Nat.ltb_spec (rread p) (length (nth (qfront p) (BL p) []))) as [Hr|Hr].
    + cbn [sec_read fst snd]. rewrite getf_batches.
      assert (H' := H). apply (InvS_cur _ _ Ec) in H'. apply read_inv in H'; auto.
      unfold poll_post.
      assert (Hrem : remaining p = nth (rread p) (nth (qfront p) (BL p) []) 0 :: rem' (BL p) (qfront p) (S (rread p))).
      { rewrite remaining_rem. apply rem_read; auto. rewrite BL_length; auto. }
      split; [unfold InvS; destruct io; cbn; rewrite Ec; exact H'|].
      destruct io; (repeat split; auto); rewrite Hrem; f_equal; rewrite remaining_rem; reflexivity.
    + destruct (nth (qfront p) (FL p) true) eqn:Ef.
      * assert (H' := H). apply (InvS_cur _ _ Ec) in H'. apply pop_inv in H'; auto; try lia.
        eapply (poll_post_trans p (sec_pop p)); try reflexivity.
        -- rewrite !remaining_rem. cbn. symmetry. apply rem_pop. rewrite BL_length; auto.
           pose proof (i_rd _ _ _ _ _ _ _ _ _ H). lia.
        -- apply IHfuel; auto. unfold measure in *. cbn. rewrite Ec in Hm. lia.
      * cbn [fst snd]. unfold poll_post.
        set (p' := sec_reg_pool (set_store (upd (qfront p) f_set_waker (store p)) p)).
        assert (HB : BL p' = BL p) by (unfold p', sec_reg_pool, BL; cbn; apply BL_setw).
        assert (HF : FL p' = FL p) by (unfold p', sec_reg_pool, FL; cbn; apply FL_setw).
        assert (Hs : InvS p').
        { unfold InvS. rewrite HB, HF. exact H. }
        split; [exact Hs|]. repeat split; auto.
        -- left. unfold parkA. change (cur p') with (cur p). change (qfront p') with (qfront p). change (rread p') with (rread p).
           assert (Hg : getf p' (qfront p) = f_set_waker (getf p (qfront p))).
           { unfold p', sec_reg_pool, getf; cbn. apply nth_upd_same; auto. }
           rewrite Hg. cbn. rewrite getf_batches, getf_finished.
           pose proof (i_rd _ _ _ _ _ _ _ _ _ H). repeat split; auto. lia.
        -- rewrite !remaining_rem, HB. reflexivity.
  - unfold sec_next_file. destruct (Nat.ltb_spec (qfront p) (length (store p))) as [Hq|Hq].
    + assert (H' := H). apply (InvS_cur _ _ Ec) in H'. apply attach_inv in H'; [|rewrite BL_length; auto].
      pose proof (i_cur0 _ _ _ _ _ _ _ _ _ H Ec) as Hr0.
      eapply (poll_post_trans p (set_reader (qfront p) true 0 p)); try reflexivity.
      -- rewrite !remaining_rem. cbn. rewrite Hr0. reflexivity.
      -- apply IHfuel; auto. unfold measure in *. cbn. rewrite Ec in Hm. lia.
    + pose proof (i_q _ _ _ _ _ _ _ _ _ H) as Hq'. rewrite BL_length in Hq'.
      destruct (Nat.eqb_spec (wcount p) 0); cbn [fst snd]; unfold poll_post.
      * split; [exact H|]. repeat split; auto. lia. rewrite remaining_rem. apply rem_end. rewrite BL_length; auto.
      * split; [exact H|]. repeat split; auto. right. unfold parkB; cbn. repeat split; auto. lia.
Qed.

Definition poll_res (p : pool) (r : pollres) (p' : pool) : Prop :=
  match r with
  | PBatch b => remaining p = b :: remaining p' /\ yielded p' = yielded p ++ [b]
  | PPending => (parkA p' \/ parkB p') /\ remaining p' = remaining p /\ yielded p' = yielded p
  | PEof => cur p' = false /\ qfront p' = length (store p') /\ wcount p' = 0%nat /\ remaining p = [] /\ yielded p' = yielded p
  | PFuel => False
  end.

Lemma do_poll_spec io p : InvS p ->
  InvS (snd (do_poll io p)) /\ wcount (snd (do_poll io p)) = wcount p /\ appended (snd (do_poll io p)) = appended p /\
  BL (snd (do_poll io p)) = BL p /\ FL (snd (do_poll io p)) = FL p /\ openw (snd (do_poll io p)) = openw p /\
  rpending (snd (do_poll io p)) = is_pending (fst (do_poll io p)) /\ woken (snd (do_poll io p)) = false /\
  poll_res p (fst (do_poll io p)) (snd (do_poll io p)).
Proof.
  intro H. unfold do_poll.
  pose proof (poll_loop_spec (poll_fuel p) io (set_flags false false p) H) as Hp.
  destruct (poll_loop (poll_fuel p) io (set_flags false false p)) as [r p1]. cbn [fst snd] in *.
  assert (Hm : (measure (set_flags false false p) <= poll_fuel p)%nat).
  { unfold measure, poll_fuel; cbn. destruct (cur p); lia. }
  specialize (Hp Hm). destruct Hp as (A0 & A1 & A2 & A3 & A4 & A5 & A6 & A7 & Hr).
  split; [exact A0|]. split; [exact A1|]. split; [exact A3|]. split; [exact A4|]. split; [exact A5|].
  split; [exact A6|]. split; [reflexivity|]. split; [exact A2|].
  unfold poll_res. destruct r; exact Hr.
Qed.

Lemma do_poll_inv io p : InvS p -> InvS (snd (do_poll io p)).
Proof. intro H. apply (do_poll_spec io p H). Qed.

(* ------------------------------------------------------------------ wake-ups *)
(* writer calls never touch rpending and never reset woken *)
Definition wm (p p' : pool) : Prop := rpending p' = rpending p /\ (woken p = true -> woken p' = true).
Lemma wm_refl p : wm p p.
Proof. split; auto. Qed.
Lemma wm_trans p q r : wm p q -> wm q r -> wm p r.
Proof. intros [A B] [C D]. split; [congruence | auto]. Qed.
Lemma wm_fire b p : wm p (fire b p).
Proof. destruct b; split; cbn; auto. Qed.
Lemma wm_file_wake i p : wm p (file_wake i p).
Proof. unfold file_wake. eapply wm_trans; [|apply wm_fire]. split; auto. Qed.
Lemma wm_pool_wake p : wm p (pool_wake p).
Proof. unfold pool_wake. eapply wm_trans; [|apply wm_fire]. split; auto. Qed.
Lemma wm_set_store s p : wm p (set_store s p).
Proof. split; auto. Qed.
Lemma wm_set_openw s p : wm p (set_openw s p).
Proof. split; auto. Qed.

Lemma wm_get_file p : wm p (snd (get_file p)).
Proof.
  unfold get_file, sec_take. destruct (openw p); cbn [snd sec_publish].
  - eapply wm_trans; [apply (wm_set_store (store p ++ [new_file]))|apply wm_pool_wake].
  - apply wm_set_openw.
Qed.

Lemma wm_sec_append rep thr i b sz flt p : wm p (snd (sec_append rep thr i b sz flt p)).
Proof.
  unfold sec_append.
  destruct (negb (f_finished (getf p i)) && is_fail_append flt).
  - destruct rep; cbn [snd]; [|apply wm_refl].
    eapply wm_trans; [apply (wm_set_store (upd i f_finish (store p)))|apply wm_file_wake].
  - set (p1 := if negb (f_finished (getf p i)) then log_append b (set_store (upd i (f_append b sz) (store p)) p) else p).
    assert (W1 : wm p p1) by (unfold p1; destruct (negb (f_finished (getf p i))); split; auto).
    assert (W2 : wm p (file_wake i p1)) by (eapply wm_trans; [exact W1|apply wm_file_wake]).
    destruct (f_size (getf (file_wake i p1) i) >? thr); cbn [snd]; auto.
    destruct (rep || negb (negb (f_finished (getf p i)) && is_fail_finish flt)); cbn [snd]; auto;
    try (eapply wm_trans; [exact W2|apply wm_set_store]).
Qed.

Lemma wm_do_push rep thr b rows sz flt p : wm p (snd (do_push rep thr b rows sz flt p)).
Proof.
  unfold do_push. destruct (rows =? 0); [apply wm_refl|].
  pose proof (wm_get_file p) as W1. destruct (get_file p) as [i p2]. cbn [snd] in W1.
  pose proof (wm_sec_append rep thr i b sz flt p2) as W2.
  destruct (sec_append rep thr i b sz flt p2) as [[ok|] p3]; cbn [snd] in *.
  - eapply wm_trans; eauto.
  - eapply wm_trans; [eapply wm_trans; eauto|apply wm_set_openw].
Qed.

Lemma wm_fold_finalize fs : forall p, wm p (fold_left (fun q i => sec_finalize i q) fs p).
Proof.
  induction fs; intro p; cbn [fold_left]; [apply wm_refl|].
  eapply wm_trans; [|apply IHfs]. unfold sec_finalize.
  eapply wm_trans; [apply (wm_set_store (upd a f_finish (store p)))|apply wm_file_wake].
Qed.

Lemma wm_do_drop p : wm p (do_drop p).
Proof.
  unfold do_drop, sec_drop_dec.
  assert (W0 : wm p (set_wcount (pred (wcount p)) p)) by (split; auto).
  destruct (Nat.eqb (wcount (set_wcount (pred (wcount p)) p)) 0); auto.
  destruct (openw (set_wcount (pred (wcount p)) p)) eqn:E.
  - eapply wm_trans; [exact W0|apply wm_pool_wake].
  - unfold sec_drop_wake. eapply wm_trans; [|apply wm_pool_wake].
    eapply wm_trans; [|apply wm_fold_finalize]. eapply wm_trans; [exact W0|apply wm_set_openw].
Qed.

Lemma file_wake_fires i p : f_waker (getf p i) = true -> woken (file_wake i p) = true.
Proof. unfold file_wake. intros ->. reflexivity. Qed.
Lemma pool_wake_fires p : pwaker p = true -> woken (pool_wake p) = true.
Proof. unfold pool_wake. intros ->. reflexivity. Qed.

Lemma sec_append_fires thr i b sz flt p :
  f_finished (getf p i) = false -> f_waker (getf p i) = true -> (i < length (store p))%nat ->
  woken (snd (sec_append true thr i b sz flt p)) = true.
Proof.
  intros Hf Hw Hi. unfold sec_append. rewrite Hf. cbn [negb andb orb].
  destruct (is_fail_append flt); cbn [snd].
  - apply file_wake_fires. rewrite getf_upd_same by auto. exact Hw.
  - set (p1 := log_append b (set_store (upd i (f_append b sz) (store p)) p)).
    assert (W : woken (file_wake i p1) = true).
    { apply file_wake_fires. unfold p1, getf; cbn. rewrite nth_upd_same by auto. exact Hw. }
    destruct (f_size (getf (file_wake i p1) i) >? thr); cbn [snd]; exact W.
Qed.

(* the invariant about a parked reader: it waits for something that has really not happened yet *)
Definition IPark (p : pool) : Prop := parked p = true -> parkA p \/ parkB p.

Lemma parked_wm p p' : wm p p' -> parked p' = true -> parked p = true /\ woken p' = false.
Proof.
  intros [A B]. unfold parked. rewrite A. destruct (rpending p); cbn; try discriminate.
  destruct (woken p'); cbn; try discriminate. destruct (woken p); auto; try (specialize (B eq_refl); discriminate).
Qed.

Lemma parkA_open p : InvS p -> parkA p -> openw p = [qfront p] /\ (qfront p < length (store p))%nat.
Proof.
  intros H (Hc & Hw & Hr & Hf).
  pose proof (i_cur _ _ _ _ _ _ _ _ _ H Hc) as Hq.
  rewrite getf_finished in Hf.
  pose proof (i_unf _ _ _ _ _ _ _ _ _ H _ Hq Hf) as Hin.
  pose proof (i_open1 _ _ _ _ _ _ _ _ _ H) as H1.
  rewrite BL_length in Hq. split; auto.
  destruct (openw p) as [|a [|b l]]; cbn in *; try lia; try contradiction.
  destruct Hin as [->|[]]. reflexivity.
Qed.

Lemma parkB_open p : InvS p -> parkB p -> openw p = [].
Proof.
  intros H (Hc & Hq & Hw & Hp).
  destruct (openw p) as [|i l] eqn:E; auto.
  destruct (i_open _ _ _ _ _ _ _ _ _ H i) as [Hl Hf]; [rewrite E; left; auto|].
  rewrite (i_pop _ _ _ _ _ _ _ _ _ H i) in Hf; [discriminate|].
  rewrite BL_length in Hl. lia.
Qed.

Lemma push_unparks p thr b rows sz flt :
  InvS p -> parkA p \/ parkB p -> (rows =? 0) = false ->
  woken (snd (do_push true thr b rows sz flt p)) = true.
Proof.
  intros H Hp Hrows. unfold do_push. rewrite Hrows.
  assert (Hg : exists i p2, get_file p = (i, p2) /\
             (woken p2 = true \/ (f_finished (getf p2 i) = false /\ f_waker (getf p2 i) = true /\ (i < length (store p2))%nat))).
  { destruct Hp as [Ha|Hb].
    - destruct (parkA_open p H Ha) as [Eo Hq]. destruct Ha as (Hc & Hw & Hr & Hf).
      exists (qfront p), (set_openw [] p). unfold get_file, sec_take. rewrite Eo. split; auto.
    - pose proof (parkB_open p H Hb) as Eo. destruct Hb as (Hc & Hq & Hw & Hpw).
      unfold get_file, sec_take. rewrite Eo. cbn [sec_publish]. eexists _, _. split; [reflexivity|].
      left. apply pool_wake_fires. exact Hpw. }
  destruct Hg as (i & p2 & Eg & Hcase). rewrite Eg.
  assert (W : woken (snd (sec_append true thr i b sz flt p2)) = true).
  { destruct Hcase as [Hw|(Hf & Hw & Hi)].
    - apply (wm_sec_append true thr i b sz flt p2). exact Hw.
    - apply sec_append_fires; auto. }
  destruct (sec_append true thr i b sz flt p2) as [[ok|] p3]; cbn [snd] in *; auto.
Qed.

Lemma do_push_park p thr b rows sz flt :
  InvS p -> IPark p -> IPark (snd (do_push true thr b rows sz flt p)).
Proof.
  intros H Hp Hpk.
  destruct (parked_wm _ _ (wm_do_push true thr b rows sz flt p) Hpk) as [Hp0 Hw].
  destruct (rows =? 0) eqn:Er.
  - unfold do_push in *. rewrite Er in *. cbn [snd] in *. auto.
  - rewrite (push_unparks p thr b rows sz flt H (Hp Hp0) Er) in Hw. discriminate.
Qed.

Lemma do_drop_park p : InvS p -> wcount p <> 0%nat -> IPark p -> IPark (do_drop p).
Proof.
  intros H Hwc Hp Hpk.
  destruct (parked_wm _ _ (wm_do_drop p) Hpk) as [Hp0 Hw].
  specialize (Hp Hp0).
  unfold do_drop, sec_drop_dec in *. cbn [wcount set_wcount openw] in *.
  destruct (Nat.eqb_spec (pred (wcount p)) 0) as [Hl|Hl].
  - (* last writer: the reader is woken *)
    exfalso. destruct Hp as [Ha|Hb].
    + destruct (parkA_open p H Ha) as [Eo Hq]. destruct Ha as (Hc & Hwk & Hr & Hf).
      rewrite Eo in Hw. cbn [fold_left] in Hw. unfold sec_drop_wake in Hw.
      assert (W : woken (sec_finalize (qfront p) (set_openw [] (set_wcount (pred (wcount p)) p))) = true).
      { unfold sec_finalize. apply file_wake_fires.
        unfold getf; cbn. rewrite nth_upd_same by auto. exact Hwk. }
      apply (wm_pool_wake _) in W. congruence.
    + pose proof (parkB_open p H Hb) as Eo. destruct Hb as (Hc & Hq & Hw' & Hpw).
      rewrite Eo in Hw. rewrite pool_wake_fires in Hw; [discriminate|exact Hpw].
  - destruct Hp as [Ha|Hb]; [left; exact Ha|right].
    destruct Hb as (Hc & Hq & Hw' & Hpw). repeat split; auto.
Qed.

Lemma do_poll_park io p : InvS p -> IPark (snd (do_poll io p)).
Proof.
  intros H Hpk. destruct (do_poll_spec io p H) as (_ & _ & _ & _ & _ & _ & Hrp & Hwk & Hr).
  unfold parked in Hpk. rewrite Hrp in Hpk.
  destruct (fst (do_poll io p)); cbn in Hpk; try discriminate.
  apply Hr.
Qed.

(* a parked reader that polls again is still Pending: nothing it waits for has happened *)
Lemma park_poll_pending io p : parkA p \/ parkB p -> fst (do_poll io p) = PPending.
Proof.
  intro Hp. unfold do_poll, poll_fuel.
  replace (2 * (length (store p) - qfront p) + 2)%nat with (S (2 * (length (store p) - qfront p) + 1)) by lia.
  cbn [poll_loop]. change (cur (set_flags false false p)) with (cur p).
  destruct Hp as [(Hc & Hw & Hr & Hf)|(Hc & Hq & Hw & Hpw)]; rewrite Hc.
  - unfold sec_file_check. change (getf (set_flags false false p)) with (getf p).
    change (rread (set_flags false false p)) with (rread p). change (qfront (set_flags false false p)) with (qfront p).
    rewrite Hr, Nat.ltb_irrefl, Hf. reflexivity.
  - unfold sec_next_file. change (qfront (set_flags false false p)) with (qfront p).
    change (store (set_flags false false p)) with (store p). change (wcount (set_flags false false p)) with (wcount p).
    rewrite Hq, Nat.ltb_irrefl. destruct (Nat.eqb_spec (wcount p) 0); [contradiction|reflexivity].
Qed.

(* ------------------------------------------------------------------ runs *)
Lemma step_inv thr p o p' x : step true thr p o = Some (p', x) -> InvS p -> InvS p'.
Proof.
  destruct o as [w b rows sz flt | w | io]; cbn [step].
  - destruct (Nat.eqb_spec (wcount p) 0); try discriminate.
    pose proof (do_push_inv p thr b rows sz flt) as Hp.
    destruct (do_push true thr b rows sz flt p) as [ok p1]. intros E H. inversion E; subst. apply Hp; auto.
  - destruct (Nat.eqb_spec (wcount p) 0); try discriminate.
    intros E H. inversion E; subst. apply do_drop_inv; auto.
  - pose proof (do_poll_inv io p) as Hp. destruct (do_poll io p) as [r p1].
    intros E H. inversion E; subst. apply Hp; auto.
Qed.

Lemma run_cons rep thr p o ops p' outs :
  run rep thr p (o :: ops) = Some (p', outs) ->
  exists p1 x outs', step rep thr p o = Some (p1, x) /\ run rep thr p1 ops = Some (p', outs') /\ outs = x :: outs'.
Proof.
  cbn [run]. destruct (step rep thr p o) as [[p1 x]|]; [|intro E; discriminate E].
  destruct (run rep thr p1 ops) as [[p2 xs]|] eqn:E2; [|intro E; discriminate E].
  intro E; inversion E; subst. exists p1, x, xs. auto.
Qed.

Lemma run_inv thr ops : forall p p' outs, run true thr p ops = Some (p', outs) -> InvS p -> InvS p'.
Proof.
  induction ops; intros p p' outs E H.
  - inversion E; subst; auto.
  - apply run_cons in E. destruct E as (p1 & x & outs' & Es & Er & _).
    eapply IHops; eauto. eapply step_inv; eauto.
Qed.

Lemma init_inv nw : InvS (init nw).
Proof.
  unfold InvS; cbn. constructor; cbn; auto; try lia; try discriminate; try (intros ? []); try (intros; lia).
Qed.

(* what the reader has delivered plus what it still has to deliver is what was appended *)
Lemma yielded_remaining p : InvS p -> yielded p ++ remaining p = appended p.
Proof.
  intros []. unfold remaining, flat. rewrite <- i_app0, i_y0.
  rewrite <- (firstn_skipn (qfront p) (BL p)) at 3. rewrite concat_app, <- app_assoc. f_equal.
  change (map f_batches (skipn (qfront p) (store p))) with (map f_batches (skipn (qfront p) (store p))).
  rewrite <- skipn_map. fold (BL p).
  destruct (Nat.eq_dec (qfront p) (length (BL p))) as [E|E].
  - rewrite (nth_overflow (BL p)) in * by lia. cbn in i_rd0.
    assert (rread p = 0%nat) by lia. rewrite H. cbn. reflexivity.
  - rewrite (skipn_nth_cons (qfront p) (BL p) []) by lia. cbn [concat].
    rewrite skipn_app. replace (rread p - length (nth (qfront p) (BL p) []))%nat with 0%nat by lia.
    cbn [skipn]. rewrite app_assoc, firstn_skipn. reflexivity.
Qed.

(* ------------------------------------------------------------------ the full invariant along runs *)
Definition Inv (p : pool) : Prop := InvS p /\ IPark p.

Lemma step_Inv thr p o p' x : step true thr p o = Some (p', x) -> Inv p -> Inv p'.
Proof.
  intros E [H Hp]. split; [eapply step_inv; eauto|].
  destruct o as [w b rows sz flt | w | io]; cbn [step] in E.
  - destruct (Nat.eqb_spec (wcount p) 0); try discriminate.
    pose proof (do_push_park p thr b rows sz flt H Hp) as Hk.
    destruct (do_push true thr b rows sz flt p) as [ok p1]. inversion E; subst. exact Hk.
  - destruct (Nat.eqb_spec (wcount p) 0); try discriminate.
    inversion E; subst. apply do_drop_park; auto.
  - pose proof (do_poll_park io p H) as Hk. destruct (do_poll io p) as [r p1].
    inversion E; subst. exact Hk.
Qed.

Lemma run_Inv thr ops : forall p p' outs, run true thr p ops = Some (p', outs) -> Inv p -> Inv p'.
Proof.
  induction ops; intros p p' outs E H.
  - inversion E; subst; auto.
  - apply run_cons in E. destruct E as (p1 & x & outs' & Es & Er & _).
    eapply IHops; eauto. eapply step_Inv; eauto.
Qed.

Lemma init_Inv nw : Inv (init nw).
Proof. split; [apply init_inv|]. intro H. discriminate H. Qed.

(* ------------------------------------------------------------------ bookkeeping: appended log, writer count *)
Lemma appended_fire b p : appended (fire b p) = appended p.
Proof. destruct b; reflexivity. Qed.
Lemma wcount_fire b p : wcount (fire b p) = wcount p.
Proof. destruct b; reflexivity. Qed.
Lemma appended_file_wake i p : appended (file_wake i p) = appended p.
Proof. unfold file_wake. rewrite appended_fire. reflexivity. Qed.
Lemma wcount_file_wake i p : wcount (file_wake i p) = wcount p.
Proof. unfold file_wake. rewrite wcount_fire. reflexivity. Qed.
Lemma appended_pool_wake p : appended (pool_wake p) = appended p.
Proof. unfold pool_wake. rewrite appended_fire. reflexivity. Qed.
Lemma wcount_pool_wake p : wcount (pool_wake p) = wcount p.
Proof. unfold pool_wake. rewrite wcount_fire. reflexivity. Qed.

Lemma get_file_keeps p : appended (snd (get_file p)) = appended p /\ wcount (snd (get_file p)) = wcount p.
Proof.
  unfold get_file, sec_take. destruct (openw p); cbn [snd sec_publish].
  - rewrite appended_pool_wake, wcount_pool_wake. split; reflexivity.
  - split; reflexivity.
Qed.

Lemma sec_append_keeps rep thr i b sz flt p : wcount (snd (sec_append rep thr i b sz flt p)) = wcount p.
Proof.
  unfold sec_append.
  destruct (negb (f_finished (getf p i)) && is_fail_append flt).
  - destruct rep; cbn [snd]; auto. rewrite wcount_file_wake. reflexivity.
  - set (p1 := if negb (f_finished (getf p i)) then log_append b (set_store (upd i (f_append b sz) (store p)) p) else p).
    assert (W1 : wcount p1 = wcount p) by (unfold p1; destruct (negb (f_finished (getf p i))); reflexivity).
    destruct (f_size (getf (file_wake i p1) i) >? thr); cbn [snd].
    + destruct (rep || negb (negb (f_finished (getf p i)) && is_fail_finish flt)); cbn [snd];
        cbn [wcount set_store]; rewrite wcount_file_wake; exact W1.
    + rewrite wcount_file_wake; exact W1.
Qed.

Lemma do_push_wcount rep thr b rows sz flt p : wcount (snd (do_push rep thr b rows sz flt p)) = wcount p.
Proof.
  unfold do_push. destruct (rows =? 0); auto.
  destruct (get_file_keeps p) as [_ W1]. destruct (get_file p) as [i p2]. cbn [snd] in W1.
  pose proof (sec_append_keeps rep thr i b sz flt p2) as W2.
  destruct (sec_append rep thr i b sz flt p2) as [[ok|] p3]; cbn [snd] in *; [congruence|].
  unfold sec_putback; cbn. congruence.
Qed.

Lemma fold_finalize_wcount fs : forall p, wcount (fold_left (fun q i => sec_finalize i q) fs p) = wcount p.
Proof.
  induction fs; intro p; cbn [fold_left]; auto. rewrite IHfs. unfold sec_finalize. rewrite wcount_file_wake. reflexivity.
Qed.

Lemma do_drop_wcount p : wcount (do_drop p) = pred (wcount p).
Proof.
  unfold do_drop, sec_drop_dec. cbn [wcount set_wcount openw].
  destruct (Nat.eqb (pred (wcount p)) 0); auto.
  destruct (openw p); [apply wcount_pool_wake|].
  unfold sec_drop_wake. rewrite wcount_pool_wake, fold_finalize_wcount. reflexivity.
Qed.

Lemma sec_append_appended thr i b sz flt p :
  HInvS p i ->
  appended (snd (sec_append true thr i b sz flt p)) = appended p ++ (if is_fail_append flt then [] else [b]) /\
  (match fst (sec_append true thr i b sz flt p) with ADone true | APutBack => is_fail_append flt = false | _ => True end).
Proof.
  intros [Ho H]. unfold sec_append.
  rewrite getf_finished. rewrite (h_unfin _ _ _ _ _ _ _ _ _ H). cbn [negb andb orb].
  destruct (is_fail_append flt); cbn [fst snd].
  - rewrite appended_file_wake. cbn. rewrite app_nil_r. auto.
  - set (p1 := log_append b (set_store (upd i (f_append b sz) (store p)) p)).
    destruct (f_size (getf (file_wake i p1) i) >? thr); cbn [fst snd].
    + cbn [appended set_store]. rewrite appended_file_wake. split; [reflexivity|]. destruct (negb (is_fail_finish flt)); auto.
    + rewrite appended_file_wake. split; reflexivity.
Qed.

Lemma do_push_appended thr b rows sz flt p :
  InvS p -> wcount p <> 0%nat ->
  appended (snd (do_push true thr b rows sz flt p)) = appended p ++ durable [Push 0 b rows sz flt] /\
  (fst (do_push true thr b rows sz flt p) = true -> (rows =? 0) = false -> is_fail_append flt = false).
Proof.
  intros H Hw. unfold do_push, durable. cbn [flat_map]. rewrite app_nil_r.
  destruct (rows =? 0) eqn:Er; cbn [orb fst snd].
  - rewrite app_nil_r. split; auto. intros _ D; discriminate D.
  - pose proof (get_file_inv p H Hw) as Hg. destruct (get_file_keeps p) as [A1 _].
    destruct (get_file p) as [i p2]. cbn [fst snd] in *.
    destruct (sec_append_appended thr i b sz flt p2 Hg) as [A2 A3].
    destruct (sec_append true thr i b sz flt p2) as [[ok|] p3]; cbn [fst snd] in *.
    + split; [congruence|]. intros -> _. exact A3.
    + split; [cbn; congruence|]. intros _ _. exact A3.
Qed.

Lemma durable_cons o ops : durable (o :: ops) = durable [o] ++ durable ops.
Proof. unfold durable. cbn [flat_map]. rewrite app_nil_r. reflexivity. Qed.

Lemma durable_w w w' b rows sz flt : durable [Push w b rows sz flt] = durable [Push w' b rows sz flt].
Proof. reflexivity. Qed.

Lemma fold_finalize_appended fs : forall p, appended (fold_left (fun q i => sec_finalize i q) fs p) = appended p.
Proof.
  induction fs; intro p; cbn [fold_left]; auto. rewrite IHfs. unfold sec_finalize. rewrite appended_file_wake. reflexivity.
Qed.

Lemma do_drop_appended p : appended (do_drop p) = appended p.
Proof.
  unfold do_drop, sec_drop_dec. cbn [wcount set_wcount openw].
  destruct (Nat.eqb (pred (wcount p)) 0); auto.
  destruct (openw p); [rewrite appended_pool_wake; reflexivity|].
  unfold sec_drop_wake. rewrite appended_pool_wake, fold_finalize_appended. reflexivity.
Qed.

Lemma step_log thr p o p' x : step true thr p o = Some (p', x) -> InvS p ->
  appended p' = appended p ++ durable [o] /\ (wcount p' + count_drops [o] = wcount p)%nat.
Proof.
  destruct o as [w b rows sz flt | w | io]; cbn [step]; intros E H.
  - destruct (Nat.eqb_spec (wcount p) 0); try discriminate.
    destruct (do_push_appended thr b rows sz flt p H n) as [A _].
    pose proof (do_push_wcount true thr b rows sz flt p) as W.
    destruct (do_push true thr b rows sz flt p) as [ok p1]. inversion E; subst. cbn [snd] in *.
    split; [rewrite A; reflexivity|]. cbn. lia.
  - destruct (Nat.eqb_spec (wcount p) 0); try discriminate. inversion E; subst.
    rewrite do_drop_wcount, do_drop_appended. cbn. rewrite app_nil_r. split; [reflexivity|lia].
  - destruct (do_poll_spec io p H) as (_ & W & A & _). destruct (do_poll io p) as [r p1].
    inversion E; subst. cbn [snd] in *. cbn. rewrite app_nil_r. split; [exact A|lia].
Qed.

Lemma count_drops_cons o ops : count_drops (o :: ops) = (count_drops [o] + count_drops ops)%nat.
Proof. unfold count_drops. cbn. destruct o; reflexivity. Qed.

Lemma run_log thr ops : forall p p' outs, run true thr p ops = Some (p', outs) -> InvS p ->
  appended p' = appended p ++ durable ops /\ (wcount p' + count_drops ops = wcount p)%nat.
Proof.
  induction ops; intros p p' outs E H.
  - inversion E; subst. cbn. rewrite app_nil_r. split; [reflexivity|lia].
  - apply run_cons in E. destruct E as (p1 & x & outs' & Es & Er & _).
    destruct (step_log _ _ _ _ _ Es H) as [A1 W1].
    destruct (IHops _ _ _ Er (step_inv _ _ _ _ _ Es H)) as [A2 W2].
    rewrite durable_cons, count_drops_cons. split; [rewrite A2, A1, app_assoc; reflexivity|lia].
Qed.

(* a push that returned Ok (non-empty batch) is durable *)
Lemma ok_pushes_durable thr ops : forall p p' outs, run true thr p ops = Some (p', outs) -> InvS p ->
  forall b, In b (ok_pushes ops outs) -> In b (durable ops).
Proof.
  induction ops; intros p p' outs E H b Hin.
  - inversion E; subst. destruct Hin.
  - apply run_cons in E. destruct E as (p1 & x & outs' & Es & Er & ->).
    rewrite durable_cons. apply in_or_app.
    pose proof (IHops _ _ _ Er (step_inv _ _ _ _ _ Es H) b) as IH.
    destruct a as [w b0 rows sz flt | w | io]; cbn [ok_pushes] in Hin.
    + cbn [step] in Es. destruct (Nat.eqb_spec (wcount p) 0); try discriminate.
      destruct (do_push_appended thr b0 rows sz flt p H n) as [_ A].
      destruct (do_push true thr b0 rows sz flt p) as [ok p2]. inversion Es; subst. cbn [fst] in A.
      destruct ok; cbn [andb] in Hin; auto.
      destruct (rows =? 0) eqn:Er0; cbn [negb] in Hin; auto.
      destruct Hin as [<-|Hin]; auto. left. unfold durable; cbn. rewrite Er0, (A eq_refl eq_refl). cbn. auto.
    + destruct x; auto.
    + destruct x; auto.
Qed.

(* ------------------------------------------------------------------ draining after the last writer is gone *)
Lemma no_park_when_dropped p : InvS p -> wcount p = 0%nat -> parkA p \/ parkB p -> False.
Proof.
  intros H Hw [Ha|(_ & _ & Hn & _)]; [|contradiction].
  destruct (parkA_open p H Ha) as [Eo _].
  rewrite (i_wc _ _ _ _ _ _ _ _ _ H Hw) in Eo. discriminate.
Qed.

Lemma drain n : forall p, InvS p -> wcount p = 0%nat -> length (remaining p) = n ->
  exists p', poll_many (S n) p = (map PBatch (remaining p) ++ [PEof], p') /\
             InvS p' /\ yielded p' = appended p /\ wcount p' = 0%nat /\ queue_empty p' = true.
Proof.
  induction n; intros p H Hw Hl.
  - cbn [poll_many].
    destruct (do_poll_spec false p H) as (A0 & A1 & A2 & _ & _ & _ & _ & _ & Hr).
    destruct (do_poll false p) as [r p1]. cbn [fst snd] in *.
    destruct r; unfold poll_res in Hr.
    + destruct Hr as [Hr _]. rewrite Hr in Hl. discriminate.
    + exfalso. destruct Hr as [Hr _]. apply (no_park_when_dropped p1); auto. congruence.
    + destruct Hr as (_ & Hq & _ & Hrem & Hy).
      exists p1. rewrite Hrem. cbn. split; auto. split; auto. split; [|split; [congruence|]].
      * pose proof (yielded_remaining p H) as Y. rewrite Hrem, app_nil_r in Y. congruence.
      * unfold queue_empty. rewrite Hq. apply Nat.eqb_refl.
    + contradiction.
  - cbn [poll_many].
    destruct (do_poll_spec false p H) as (A0 & A1 & A2 & _ & _ & _ & _ & _ & Hr).
    destruct (do_poll false p) as [r p1]. cbn [fst snd] in *.
    destruct r; unfold poll_res in Hr.
    + destruct Hr as [Hr Hy]. rewrite Hr in Hl. cbn in Hl.
      destruct (IHn p1 A0 ltac:(congruence) ltac:(lia)) as (p' & E & I' & Y' & W' & Q').
      fold poll_many. change (poll_many (S n) p1) with (poll_many (S n) p1) in E.
      cbn [poll_many] in E. cbn [poll_many]. rewrite E. exists p'. rewrite Hr. cbn [map app].
      split; auto. split; auto. split; [congruence|auto].
    + exfalso. destruct Hr as [Hr _]. apply (no_park_when_dropped p1); auto. congruence.
    + destruct Hr as (_ & _ & _ & Hrem & _). rewrite Hrem in Hl. discriminate.
    + contradiction.
Qed.

(* ------------------------------------------------------------------ the property theorems (call granularity) *)
Section Theorems.
  Variables (nw : nat) (thr : Z) (ops : list op) (p : pool) (outs : list out).
  Hypothesis Hrun : run true thr (init nw) ops = Some (p, outs).

  Let HI : Inv p := run_Inv thr ops _ _ _ Hrun (init_Inv nw).
  Let HL := run_log thr ops _ _ _ Hrun (init_inv nw).

  Lemma appended_durable : appended p = durable ops.
  Proof. destruct HL as [A _]. exact A. Qed.

  (* delivered so far ++ still to deliver = the durable pushes, in call order *)
  Lemma fifo_calls : yielded p ++ remaining p = durable ops.
  Proof. rewrite <- appended_durable. apply yielded_remaining. apply HI. Qed.

  Lemma writers_left : (wcount p + count_drops ops = nw)%nat.
  Proof. destruct HL as [_ W]. exact W. Qed.

  Lemma multiset_calls b : (count_occ Z.eq_dec (yielded p) b <= count_occ Z.eq_dec (durable ops) b)%nat.
  Proof. rewrite <- fifo_calls. rewrite count_occ_app. lia. Qed.

  Lemma parked_still_pending io : parked p = true -> fst (do_poll io p) = PPending.
  Proof. intro Hp. apply park_poll_pending. apply (proj2 HI Hp). Qed.

  Lemma not_parked_when_all_dropped : wcount p = 0%nat -> parked p = false.
  Proof.
    intro Hw. destruct (parked p) eqn:E; auto. exfalso.
    apply (no_park_when_dropped p (proj1 HI) Hw). apply (proj2 HI E).
  Qed.

  Lemma forallb_nth (l : list file) : (forall i, (i < length l)%nat -> nth i (map f_finished l) true = true) -> forallb f_finished l = true.
  Proof.
    induction l; intro Hn; cbn; auto.
    assert (Ha : f_finished a = true) by (apply (Hn 0%nat); cbn; lia). rewrite Ha. cbn.
    apply IHl. intros i Hi. apply (Hn (S i)). cbn; lia.
  Qed.

  Lemma eof_only_after_all io p' : do_poll io p = (PEof, p') ->
    wcount p = 0%nat /\ count_drops ops = nw /\ yielded p' = durable ops /\
    queue_empty p' = true /\ all_finished p' = true /\
    (forall b, In b (ok_pushes ops outs) -> In b (yielded p')).
  Proof.
    intro E. destruct (do_poll_spec io p (proj1 HI)) as (A0 & A1 & A2 & _ & _ & _ & _ & _ & Hr).
    rewrite E in *. cbn [fst snd] in *. destruct Hr as (Hc & Hq & Hw & Hrem & Hy).
    assert (W0 : wcount p = 0%nat) by congruence.
    assert (Y : yielded p' = durable ops).
    { rewrite Hy. rewrite <- fifo_calls, Hrem, app_nil_r. reflexivity. }
    split; auto. split; [pose proof writers_left; lia|]. split; auto.
    split; [unfold queue_empty; rewrite Hq; apply Nat.eqb_refl|].
    split.
    - unfold all_finished. apply forallb_nth. intros i Hi. apply (i_pop _ _ _ _ _ _ _ _ _ A0). lia.
    - intros b Hb. rewrite Y. eapply ok_pushes_durable; eauto. apply init_inv.
  Qed.

  Lemma no_hang_after_drops : wcount p = 0%nat ->
    exists p', poll_many (S (length (remaining p))) p = (map PBatch (remaining p) ++ [PEof], p') /\
               yielded p' = durable ops /\ queue_empty p' = true.
  Proof.
    intro Hw. destruct (drain _ p (proj1 HI) Hw eq_refl) as (p' & E & _ & Y & _ & Q).
    exists p'. split; auto. split; auto. rewrite Y. apply appended_durable.
  Qed.
End Theorems.

(* ------------------------------------------------------------------ the pinned upstream behaviour hangs *)
Definition hang_ops : list op :=
  [Push 0 1 3 128 NoFault; Push 0 2 250 1088 FailAppend; Push 0 3 3 128 NoFault; DropW 0; Poll false; Poll false].

Lemma poll_fix p : do_poll false p = (PPending, p) -> forall n, poll_many n p = (repeat PPending n, p).
Proof. intros E n. induction n; cbn [poll_many repeat]; auto. rewrite E, IHn. reflexivity. Qed.

Lemma upstream_hangs :
  exists p outs, run false (2 ^ 40) (init 1) hang_ops = Some (p, outs) /\
    wcount p = 0%nat /\ In 3 (ok_pushes hang_ops outs) /\ yielded p = [1] /\ parked p = true /\
    forall n, poll_many n p = (repeat PPending n, p).
Proof.
  destruct (run false (2 ^ 40) (init 1) hang_ops) as [[p outs]|] eqn:E; [|vm_compute in E; discriminate].
  exists p, outs. vm_compute in E. inversion E; subst. clear E.
  split; [reflexivity|]. split; [reflexivity|]. split; [cbn; auto|]. split; [reflexivity|]. split; [reflexivity|].
  apply poll_fix. vm_compute. reflexivity.
Qed.

(* the same history on the repaired code: the reader gets batches 1 and 3 and end-of-stream *)
Lemma repaired_same_history :
  exists p outs, run true (2 ^ 40) (init 1) (hang_ops ++ [Poll false]) = Some (p, outs) /\
    outs = [OPush true 0; OPush false 0; OPush true 0; ODrop 0; OPoll (PBatch 1); OPoll (PBatch 3); OPoll PEof].
Proof. eexists _, _. split; vm_compute; reflexivity. Qed.

Lemma durable_attempted ops b : In b (durable ops) -> In b (attempted ops).
Proof.
  unfold durable, attempted. rewrite !in_flat_map. intros (o & Ho & Hb). exists o. split; auto.
  destruct o; auto. destruct (rows =? 0); cbn [orb] in *; auto. destruct (is_fail_append flt); auto. destruct Hb.
Qed.

(* the statements of Props/C16.v *)
Lemma spsc_fifo_calls thr ops p outs :
  run true thr (init 1) ops = Some (p, outs) ->
  yielded p ++ remaining p = durable ops /\
  (forall io p', do_poll io p = (PEof, p') -> yielded p' = durable ops /\ wcount p = 0%nat /\ count_drops ops = 1%nat).
Proof.
  intro H. split; [eapply fifo_calls; eauto|]. intros io p' E.
  destruct (eof_only_after_all _ _ _ _ _ H io p' E) as (A & B & C & _). auto.
Qed.

Lemma mpsc_multiset_calls nw thr ops p outs :
  run true thr (init nw) ops = Some (p, outs) ->
  (forall b, (count_occ Z.eq_dec (yielded p) b <= count_occ Z.eq_dec (durable ops) b)%nat) /\
  (forall io p', do_poll io p = (PEof, p') -> Permutation (yielded p') (durable ops)).
Proof.
  intro H. split; [intro b; eapply multiset_calls; eauto|]. intros io p' E.
  destruct (eof_only_after_all _ _ _ _ _ H io p' E) as (_ & _ & C & _). rewrite C. apply Permutation_refl.
Qed.

Lemma ok_push_is_durable nw thr ops p outs :
  run true thr (init nw) ops = Some (p, outs) ->
  forall b, In b (ok_pushes ops outs) -> In b (durable ops) /\ In b (attempted ops).
Proof.
  intros H b Hb. assert (In b (durable ops)) by (eapply ok_pushes_durable; eauto; apply init_inv).
  split; auto. apply durable_attempted; auto.
Qed.

(* ------------------------------------------------------------------ fine-grained model: a witness, not a theorem about all schedules *)
(* mpsc_channel documents no ordering guarantee; indeed, once pushes of two writers overlap, even the order of ONE
   writer's batches is not preserved: writer 0 pushes 1 then 2, writer 1 pushes 3; batch 2 is delivered before batch 1 *)
Definition order_progs : list (list wop) :=
  [[WPush 1 3 128 NoFault; WPush 2 3 128 NoFault; WDrop]; [WPush 3 3 128 NoFault; WDrop]].
Definition order_sched : list nat := ([2; 2; 1; 1; 2; 2; 1; 1; 1; 1; 1; 1; 2; 2; 2; 2] ++ repeat 0 21)%nat.
Lemma mpsc_order_witness :
  exists sched, let st := frun true (2 ^ 40) sched (finit order_progs) in
    got_eof st = true /\ yielded (fpool st) = [3; 2; 1] /\ enabled st = [].
Proof. exists order_sched. vm_compute. repeat split; reflexivity. Qed.
