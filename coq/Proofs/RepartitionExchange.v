(* C10 -- the partitioner on whole batches (all three schemes) and the abstract exchange under any interleaving *)
From Coq Require Import List ZArith Bool Arith Lia Sorted Permutation.
From DF Require Import Base.Prelude Base.Bits Gen.StrengthReduced Proofs.StrengthReducedProofs
  Model.Repartition Proofs.RepartitionProofs Proofs.RepartitionRouting.
Import ListNotations.
Close Scope Z_scope.
Open Scope nat_scope.

(* ================================================================== H. partition_iter on a batch *)
Lemma sub_rows_map_filter {R} (g : R -> nat) p : forall b, sub_rows (map g b) b p = filter (fun r => g r =? p) b.
Proof. induction b as [|r b IH]; simpl; auto. destruct (g r =? p); now rewrite IH. Qed.

(* the output partition of a row: the routing definition *)
Definition part_of (s : scheme) (next : Z) (r : xrow) : nat :=
  match s with
  | SHash n => Z.to_nat (xhash r mod Z.of_nat n)
  | SRoundRobin _ => Z.to_nat next
  | SRange os sps => range_partition_id (xkey r) sps os
  end.

(* side conditions under which the code does not panic / overflow *)
Definition scheme_ok (s : scheme) (next : Z) (b : list xrow) : Prop :=
  match s with
  | SHash n => 1 <= n /\ (Z.of_nat n < 2 ^ 64)%Z /\ Forall (fun r => (0 <= xhash r < 2 ^ 64)%Z) b
  | SRoundRobin n => (0 <= next < n)%Z
  | SRange _ _ => True
  end.

Lemma rows_for_single {R} p q (b : list R) : rows_for p [(q, b)] = if q =? p then b else [].
Proof. unfold rows_for. simpl. destruct (q =? p); now rewrite ?app_nil_r. Qed.

Lemma filter_all_true {R} (f : R -> bool) l : (forall x, f x = true) -> filter f l = l.
Proof. intros H. induction l as [|a l IH]; simpl; auto. now rewrite H, IH. Qed.
Lemma filter_all_false {R} (f : R -> bool) l : (forall x, f x = false) -> filter f l = [].
Proof. intros H. induction l as [|a l IH]; simpl; auto. now rewrite H. Qed.

(* grouped_take_eq_filter at the level of partition_iter: the rows handed to output p are exactly the rows of the batch
   whose routing function value is p, in input order; and the (partition, rows) pairs come in increasing partition order
   with no empty batch among them (hash / range with split points). *)
Theorem pstep_rows : forall s next b, scheme_ok s next b ->
  exists next' outs, pstep s next b = Some (next', outs) /\
    forall p, p < scheme_outputs s -> rows_for p outs = filter (fun r => part_of s next r =? p) b.
Proof.
  intros [n | n | os sps] next b OK; simpl in OK.
  - destruct OK as (H1 & H2 & F). simpl pstep.
    rewrite hash_indices_spec; auto; [|rewrite Forall_map; exact F].
    eexists; eexists; split; [reflexivity|]. intros p Hp. simpl in Hp.
    rewrite map_map. rewrite rows_for_grouped_take by (now rewrite map_length) || assumption.
    apply (sub_rows_map_filter (fun r => Z.to_nat (xhash r mod Z.of_nat n))).
  - simpl. eexists; eexists; split; [reflexivity|]. intros p Hp. rewrite rows_for_single.
    destruct (Z.to_nat next =? p); [now rewrite filter_all_true|now rewrite filter_all_false].
  - simpl pstep. destruct sps as [|s0 sps'].
    + eexists; eexists; split; [reflexivity|]. intros p Hp. simpl in Hp. assert (p = 0) as -> by lia.
      rewrite rows_for_single. simpl. now rewrite filter_all_true.
    + set (sps := s0 :: sps') in *. eexists; eexists; split; [reflexivity|]. intros p Hp.
      unfold range_indices, range_parts. rewrite map_map.
      rewrite rows_for_grouped_take by (now rewrite map_length) || assumption.
      apply (sub_rows_map_filter (fun r => range_partition_id (xkey r) sps os)).
Qed.

Lemma part_of_below s next b r : scheme_ok s next b -> In r b -> part_of s next r < scheme_outputs s.
Proof.
  destruct s as [n | n | os sps]; simpl; intros OK I.
  - destruct OK as (H1 & H2 & F). assert (0 <= xhash r mod Z.of_nat n < Z.of_nat n)%Z by (apply Z.mod_pos_bound; lia). lia.
  - lia.
  - pose proof (range_partition_id_bound (xkey r) sps os). lia.
Qed.

(* partitioning a list by a key with values below n, block after block, is a permutation of the list *)
Lemma flat_map_insert {X} (g : nat -> list X) a k : forall ps, NoDup ps ->
  Permutation (flat_map (fun p => if k =? p then a :: g p else g p) ps)
              (if in_dec Nat.eq_dec k ps then a :: flat_map g ps else flat_map g ps).
Proof.
  induction ps as [|q ps IH]; intros ND; simpl; auto.
  inversion ND; subst. specialize (IH H2).
  destruct (Nat.eq_dec q k) as [E|E].
  - subst q. rewrite Nat.eqb_refl. destruct (in_dec Nat.eq_dec k ps); [contradiction|].
    simpl. constructor. apply Permutation_app_head. exact IH.
  - assert ((k =? q) = false) as F by (apply Nat.eqb_neq; congruence). rewrite F.
    destruct (in_dec Nat.eq_dec k ps).
    + rewrite IH. symmetry. apply Permutation_middle.
    + apply Permutation_app_head. exact IH.
Qed.

Lemma perm_by_key {X} (f : X -> nat) n : forall l, Forall (fun x => f x < n) l ->
  Permutation (flat_map (fun p => filter (fun x => f x =? p) l) (seq 0 n)) l.
Proof.
  induction l as [|a l IH]; intros F.
  - simpl. induction (seq 0 n); simpl; auto.
  - inversion F; subst. specialize (IH H2). simpl filter.
    eapply perm_trans.
    { apply (flat_map_insert (fun p => filter (fun x => f x =? p) l) a (f a) (seq 0 n) (seq_NoDup n 0)). }
    destruct (in_dec Nat.eq_dec (f a) (seq 0 n)) as [I|N].
    + now constructor.
    + exfalso. apply N. apply in_seq. lia.
Qed.

(* every row of the batch is handed to exactly one output, once *)
Theorem pstep_exactly_once : forall s next b, scheme_ok s next b ->
  exists next' outs, pstep s next b = Some (next', outs) /\
    Permutation (flat_map (fun p => rows_for p outs) (seq 0 (scheme_outputs s))) b.
Proof.
  intros s next b OK. destruct (pstep_rows s next b OK) as (next' & outs & E & H).
  exists next', outs. split; auto.
  rewrite (flat_map_ext_in' _ (fun p => filter (fun r => part_of s next r =? p) b)).
  - apply perm_by_key. apply Forall_forall. intros r I. eapply part_of_below; eauto.
  - intros p Hp. apply in_seq in Hp. apply H. lia.
Qed.

(* hash_equal_keys_same_output: whatever the hash function of the key columns is *)
Theorem hash_equal_keys : forall (hashf : key -> Z) n b next, 1 <= n -> (Z.of_nat n < 2 ^ 64)%Z ->
  (forall k, (0 <= hashf k < 2 ^ 64)%Z) -> Forall (fun r => xhash r = hashf (xkey r)) b ->
  exists outs, pstep (SHash n) next b = Some (next, outs) /\
    forall r1 r2 p, In r1 b -> In r2 b -> xkey r1 = xkey r2 -> p < n ->
      In r1 (rows_for p outs) -> In r2 (rows_for p outs).
Proof.
  intros hashf n b next H1 H2 Hh F.
  assert (scheme_ok (SHash n) next b) as OK.
  { simpl. repeat split; auto. eapply Forall_impl; [|exact F]. intros r E. simpl in E. rewrite E. apply Hh. }
  destruct (pstep_rows _ _ _ OK) as (next' & outs & E & H). exists outs.
  assert (next' = next) as -> by (simpl in E; destruct (hash_indices n (map xhash b)); congruence).
  split; auto. intros r1 r2 p I1 I2 K Hp J. rewrite H in * by assumption.
  apply filter_In in J as [_ J]. apply filter_In. split; auto.
  rewrite Forall_forall in F. simpl in *. rewrite (F r2 I2), <- K, <- (F r1 I1). exact J.
Qed.

(* range: rows whose keys compare Equal go to the same output; the output index is monotone in the key *)
Theorem range_equal_keys : forall os sps b next outs, pstep (SRange os sps) next b = Some (next, outs) ->
  forall r1 r2 p, In r1 b -> In r2 b -> length (xkey r1) = length (xkey r2) ->
    compare_rows (xkey r1) (xkey r2) os = Eq -> p < S (length sps) ->
    In r1 (rows_for p outs) -> In r2 (rows_for p outs).
Proof.
  intros os sps b next outs E r1 r2 p I1 I2 L C Hp J.
  destruct (pstep_rows (SRange os sps) next b I) as (next' & outs' & E' & H).
  rewrite E in E'. injection E' as <- <-. rewrite H in * by assumption.
  apply filter_In in J as [_ J]. apply filter_In. split; auto. simpl in *.
  now rewrite <- (range_id_equal_keys os sps _ _ L C).
Qed.

(* sub-sequences of a sorted stream are sorted: what preserve_order feeds its k-way merge with (the merge is C08's) *)
Lemma filter_sorted {X} (le : X -> X -> Prop) f l : StronglySorted le l -> StronglySorted le (filter f l).
Proof. apply StronglySorted_filter. Qed.

(* ================================================================== I. the abstract exchange *)
Section ExchangeProofs.
  Variable R St : Type.
  Variable step : St -> list R -> St * list (nat * list R).
  Variable inputs : nat -> list (list R).
  Variable s0 : nat -> St.
  Notation xst := (xst R St).
  Notation prun := (prun R St step).
  Notation xrun := (xrun R St step inputs s0).

  Lemma prun_snoc p : forall bs s b,
    prun s (bs ++ [b]) p =
    let '(s1, r1) := prun s bs p in
    match b with
    | [] => (s1, r1)
    | _ => let '(s', outs) := step s1 b in (s', r1 ++ rows_for p outs)
    end.
  Proof.
    induction bs as [|c bs IH]; intros s b.
    - simpl. destruct b; auto. destruct (step s (r :: b)) as [s' outs]. now rewrite app_nil_r.
    - destruct c as [|r c].
      + simpl. apply IH.
      + change (prun s (((r :: c) :: bs) ++ [b]) p) with
          (let '(s', outs) := step s (r :: c) in let '(s'', rest) := prun s' (bs ++ [b]) p in (s'', rows_for p outs ++ rest)).
        change (prun s ((r :: c) :: bs) p) with
          (let '(s', outs) := step s (r :: c) in let '(s'', rest) := prun s' bs p in (s'', rows_for p outs ++ rest)).
        destruct (step s (r :: c)) as [s' outs]. rewrite IH. destruct (prun s' bs p) as [s1 r1].
        destruct b; auto. destruct (step s1 (r0 :: b)) as [s2 outs2]. now rewrite app_assoc.
  Qed.

  Lemma prun_state_indep p q : forall bs s, fst (prun s bs p) = fst (prun s bs q).
  Proof.
    induction bs as [|c bs IH]; intros s; auto. destruct c as [|r c]; simpl; auto.
    destruct (step s (r :: c)) as [s' outs]. specialize (IH s').
    destruct (prun s' bs p), (prun s' bs q). simpl in *. auto.
  Qed.

  Lemma firstn_snoc {X} : forall (l : list X) k b, nth_error l k = Some b -> firstn (S k) l = firstn k l ++ [b].
  Proof.
    induction l as [|a l IH]; intros [|k] b H; simpl in H; try discriminate.
    - injection H as ->. reflexivity.
    - simpl. f_equal. apply IH. exact H.
  Qed.

  Lemma from_input_app i (q1 q2 : list (nat * R)) : from_input R i (q1 ++ q2) = from_input R i q1 ++ from_input R i q2.
  Proof. unfold from_input. now rewrite filter_app, map_app. Qed.
  Lemma from_input_tag i j (rows : list R) :
    from_input R i (map (fun r => (j, r)) rows) = if j =? i then rows else [].
  Proof.
    unfold from_input. induction rows as [|r rows IH]; simpl; [destruct (j =? i); auto|].
    destruct (j =? i) eqn:E; simpl; rewrite IH; auto.
  Qed.

  Lemma xrun_snoc sched e : xrun (sched ++ [e]) = xstep R St step inputs (xrun sched) e.
  Proof. unfold Repartition.xrun. now rewrite fold_left_app. Qed.

  Lemma steps_of_snoc i sched e :
    steps_of i (sched ++ [e]) = steps_of i sched + match e with Step j => if j =? i then 1 else 0 | Drop _ => 0 end.
  Proof.
    unfold steps_of. rewrite filter_app, app_length. f_equal. destruct e as [j|p]; simpl; auto. destruct (j =? i); auto.
  Qed.

  (* the invariant of every reachable state *)
  Definition xinv (sched : list ev) (st : xst) : Prop :=
    (forall i, x_pos st i = Nat.min (steps_of i sched) (length (inputs i))) /\
    (forall i p, fst (prun (s0 i) (firstn (x_pos st i) (inputs i)) p) = x_ps st i) /\
    (forall p, never_dropped p sched -> x_drop st p = false) /\
    (forall i p, never_dropped p sched ->
        from_input R i (x_q st p) = snd (prun (s0 i) (firstn (x_pos st i) (inputs i)) p)) /\
    (forall p e, In e (x_q st p) -> inputs (fst e) <> []).

  Lemma never_dropped_snoc p sched e : never_dropped p (sched ++ [e]) <-> never_dropped p sched /\ e <> Drop p.
  Proof.
    unfold never_dropped. split.
    - intros H. split; [intros x I; apply H, in_or_app; auto|apply H, in_or_app; right; now left].
    - intros [H1 H2] x I. apply in_app_or in I as [I|[<-|[]]]; auto.
  Qed.

  Lemma xinv_run : forall sched, xinv sched (xrun sched).
  Proof.
    induction sched as [|e sched IH] using rev_ind.
    - unfold Repartition.xrun, xinv. simpl. repeat split; auto.
    - rewrite xrun_snoc. set (st := xrun sched) in *. destruct IH as (P & PS & D & Q & T).
      destruct e as [j|dp].
      + (* Step j *)
        simpl xstep. destruct (nth_error (inputs j) (x_pos st j)) as [b|] eqn:NE.
        * assert (x_pos st j < length (inputs j)) as Lj by (apply nth_error_Some; congruence).
          pose proof (firstn_snoc _ _ _ NE) as FS.
          assert (forall i, Nat.min (steps_of i (sched ++ [Step j])) (length (inputs i)) =
                            if i =? j then S (x_pos st i) else x_pos st i) as POS.
          { intros i. rewrite steps_of_snoc. rewrite (Nat.eqb_sym j i).
            destruct (Nat.eqb_spec i j) as [->|N]; rewrite P in *; lia. }
          destruct b as [|r b].
          -- (* empty batch: skipped *)
             unfold xinv. simpl. repeat split.
             ++ intros i. rewrite POS. unfold upd. destruct (i =? j) eqn:E; auto. apply Nat.eqb_eq in E. now subst.
             ++ intros i p. unfold upd. destruct (Nat.eqb_spec i j) as [->|N]; auto.
                rewrite FS, prun_snoc. specialize (PS j p). destruct (prun (s0 j) (firstn (x_pos st j) (inputs j)) p). auto.
             ++ intros p ND. apply never_dropped_snoc in ND as [ND _]. auto.
             ++ intros i p ND. apply never_dropped_snoc in ND as [ND _]. unfold upd.
                destruct (Nat.eqb_spec i j) as [->|N]; auto.
                rewrite FS, prun_snoc. specialize (Q j p ND). destruct (prun (s0 j) (firstn (x_pos st j) (inputs j)) p). auto.
             ++ exact T.
          -- destruct (step (x_ps st j) (r :: b)) as [s' outs] eqn:ST.
             unfold xinv. simpl. repeat split.
             ++ intros i. rewrite POS. unfold upd. destruct (i =? j) eqn:E; auto. apply Nat.eqb_eq in E. now subst.
             ++ intros i p. unfold upd. destruct (Nat.eqb_spec i j) as [->|N]; auto.
                rewrite FS, prun_snoc. specialize (PS j p). destruct (prun (s0 j) (firstn (x_pos st j) (inputs j)) p) as [s1 r1].
                simpl in PS. subst s1. rewrite ST. reflexivity.
             ++ intros p ND. apply never_dropped_snoc in ND as [ND _]. auto.
             ++ intros i p ND. apply never_dropped_snoc in ND as [ND _]. rewrite (D p ND).
                rewrite from_input_app, from_input_tag. unfold upd. rewrite (Nat.eqb_sym j i).
                destruct (Nat.eqb_spec i j) as [->|N].
                ** rewrite FS, prun_snoc. specialize (Q j p ND). specialize (PS j p).
                   destruct (prun (s0 j) (firstn (x_pos st j) (inputs j)) p) as [s1 r1].
                   simpl in PS, Q. subst s1. rewrite ST. simpl. now rewrite Q.
                ** rewrite app_nil_r. auto.
             ++ intros p e I. destruct (x_drop st p); [eauto|].
                apply in_app_or in I as [I|I]; [eauto|].
                apply in_map_iff in I as (x & <- & _). simpl. intros Z. rewrite Z in NE. destruct (x_pos st j); discriminate.
        * (* input exhausted *)
          assert (length (inputs j) <= x_pos st j) as Lj by (apply nth_error_None; exact NE).
          unfold xinv. repeat split; auto.
          -- intros i. rewrite steps_of_snoc, P. rewrite P in Lj. destruct (Nat.eqb_spec j i) as [->|N]; lia.
          -- intros p ND. apply never_dropped_snoc in ND as [ND _]. auto.
          -- intros i p ND. apply never_dropped_snoc in ND as [ND _]. auto.
      + (* Drop dp *)
        unfold xinv. simpl. repeat split; auto.
        * intros i. rewrite steps_of_snoc, P. lia.
        * intros p ND. apply never_dropped_snoc in ND as [ND NE]. unfold upd.
          destruct (Nat.eqb_spec p dp) as [->|N]; [congruence|auto].
        * intros i p ND. apply never_dropped_snoc in ND as [ND NE]. unfold upd.
          destruct (Nat.eqb_spec p dp) as [->|N]; [congruence|auto].
        * intros p e. unfold upd. destruct (p =? dp); [intros []|eauto].
  Qed.

  (* a list of tagged entries is a permutation of its per-tag sub-sequences, block after block *)
  Lemma tagged_perm m : forall q : list (nat * R), Forall (fun e => fst e < m) q ->
    Permutation q (flat_map (fun i => map (fun r => (i, r)) (from_input R i q)) (seq 0 m)).
  Proof.
    intros q F. symmetry. eapply perm_trans; [|apply (perm_by_key (@fst nat R) m q F)].
    apply Permutation_refl'. apply flat_map_ext_in'. intros i _. unfold from_input.
    induction q as [|[t r] q IH]; simpl; auto. inversion F; subst.
    destruct (Nat.eqb_spec t i) as [->|N]; simpl; rewrite IH; auto.
  Qed.

  (* exchange_exactly_once *)
  Theorem exchange_delivers : forall m sched p,
    (forall i, m <= i -> inputs i = []) -> never_dropped p sched ->
    let st := xrun sched in
    let got i := snd (prun (s0 i) (firstn (Nat.min (steps_of i sched) (length (inputs i))) (inputs i)) p) in
    (forall i, from_input R i (x_q st p) = got i) /\
    Permutation (x_q st p) (flat_map (fun i => map (fun r => (i, r)) (got i)) (seq 0 m)).
  Proof.
    intros m sched p Hm ND st got. destruct (xinv_run sched) as (P & PS & D & Q & T). fold st in P, PS, D, Q, T.
    assert (forall i, from_input R i (x_q st p) = got i) as G.
    { intros i. unfold got. rewrite <- P. apply Q. exact ND. }
    split; auto.
    rewrite <- (flat_map_ext_in' (fun i => map (fun r => (i, r)) (from_input R i (x_q st p)))) by (intros; now rewrite G).
    apply tagged_perm. apply Forall_forall. intros e I. specialize (T p e I).
    destruct (le_lt_dec m (fst e)) as [C|C]; auto. exfalso. apply T. apply Hm. exact C.
  Qed.

  (* once every input task has run to the end, output p holds everything routed to it *)
  Corollary exchange_complete : forall m sched p,
    (forall i, m <= i -> inputs i = []) -> never_dropped p sched ->
    (forall i, i < m -> length (inputs i) <= steps_of i sched) ->
    let st := xrun sched in
    (forall i, from_input R i (x_q st p) = snd (prun (s0 i) (inputs i) p)) /\
    Permutation (x_q st p) (flat_map (fun i => map (fun r => (i, r)) (snd (prun (s0 i) (inputs i) p))) (seq 0 m)).
  Proof.
    intros m sched p Hm ND C st. destruct (exchange_delivers m sched p Hm ND) as [A B]. fold st in A, B.
    assert (forall i, firstn (Nat.min (steps_of i sched) (length (inputs i))) (inputs i) = inputs i) as FN.
    { intros i. destruct (le_lt_dec m i) as [L|L].
      - rewrite (Hm i L). now destruct (Nat.min _ _).
      - specialize (C i L). rewrite Nat.min_r by assumption. apply firstn_all. }
    split.
    - intros i. rewrite A, FN. reflexivity.
    - rewrite B. apply Permutation_refl'. apply flat_map_ext_in'. intros i _. now rewrite FN.
  Qed.

  (* dropping other outputs does not change what output p receives from each input *)
  Corollary exchange_drop_independent : forall sched p i, never_dropped p sched ->
    let no_drops := filter (fun e => match e with Step _ => true | Drop _ => false end) sched in
    from_input R i (x_q (xrun sched) p) = from_input R i (x_q (xrun no_drops) p).
  Proof.
    intros sched p i ND no_drops.
    destruct (xinv_run sched) as (P & _ & _ & Q & _). destruct (xinv_run no_drops) as (P' & _ & _ & Q' & _).
    assert (never_dropped p no_drops) as ND'.
    { intros e I. apply filter_In in I as [I _]. auto. }
    rewrite Q, Q' by assumption. rewrite P, P'.
    assert (steps_of i no_drops = steps_of i sched) as ->; auto.
    unfold steps_of, no_drops. clear. induction sched as [|[j|q] sched IH]; simpl; auto.
    destruct (j =? i); simpl; auto.
  Qed.
End ExchangeProofs.

(* the checker's `routed` (pull_from_input over the concrete partitioner) is the exchange's prun for that partitioner *)
Definition tstep (sc : scheme) (next : Z) (b : list xrow) : Z * list (nat * list xrow) :=
  match pstep sc next b with Some r => r | None => (next, []) end.

Lemma routed_prun sc p : forall batches next l,
  routed sc next batches p = Some l -> snd (prun xrow Z (tstep sc) next batches p) = l.
Proof.
  induction batches as [|b r IH]; intros next l H.
  - simpl in *. congruence.
  - destruct b as [|x b]; [simpl in *; auto|].
    change (routed sc next ((x :: b) :: r) p) with
      (match pstep sc next (x :: b) with
       | Some (next', outs) => match routed sc next' r p with Some rest => Some (rows_for p outs ++ rest) | None => None end
       | None => None end) in H.
    change (prun xrow Z (tstep sc) next ((x :: b) :: r) p) with
      (let '(s', outs) := tstep sc next (x :: b) in let '(s'', rest) := prun xrow Z (tstep sc) s' r p in (s'', rows_for p outs ++ rest)).
    unfold tstep at 1. destruct (pstep sc next (x :: b)) as [[next' outs]|]; [|discriminate].
    destruct (routed sc next' r p) as [rest|] eqn:E; [|discriminate]. injection H as <-.
    specialize (IH next' rest E). destruct (prun xrow Z (tstep sc) next' r p). simpl in *. now subst.
Qed.

(* ================================================================== J. preserve_order: per-input streams stay sorted *)
Lemma SS_app {X} (le : X -> X -> Prop) : forall A B,
  StronglySorted le (A ++ B) <-> StronglySorted le A /\ StronglySorted le B /\ (forall x y, In x A -> In y B -> le x y).
Proof.
  induction A as [|a A IH]; intros B; simpl.
  - split; [intros H; repeat split; auto; [constructor|intros x y []]|intros (_ & H & _); exact H].
  - split.
    + intros H. inversion H; subst. apply IH in H2 as (S1 & S2 & C). rewrite Forall_forall in H3. repeat split; auto.
      * constructor; auto. apply Forall_forall. intros x I. apply H3, in_or_app. auto.
      * intros x y [<-|I] J; [apply H3, in_or_app; auto|auto].
    + intros (S1 & S2 & C). inversion S1; subst. constructor.
      * apply IH. repeat split; auto.
      * apply Forall_forall. intros x I. apply in_app_or in I as [I|I]; [rewrite Forall_forall in H2; auto|auto].
Qed.

(* side conditions for a whole input: partition counts in range, every hash a u64, round-robin index in range *)
Definition input_ok (s : scheme) (next : Z) (batches : list (list xrow)) : Prop :=
  match s with
  | SHash n => 1 <= n /\ (Z.of_nat n < 2 ^ 64)%Z /\ Forall (Forall (fun r => (0 <= xhash r < 2 ^ 64)%Z)) batches
  | SRoundRobin n => (0 <= next < n)%Z
  | SRange _ _ => True
  end.

Lemma input_ok_step s next b r : input_ok s next (b :: r) ->
  scheme_ok s next b /\ forall next' outs, pstep s next b = Some (next', outs) -> input_ok s next' r.
Proof.
  destruct s as [n|n|os sps]; simpl.
  - intros (H1 & H2 & F). inversion F; subst. repeat split; auto.
  - intros H. split; auto. intros next' outs E. injection E as <- _. unfold rr_advance. apply Z.mod_pos_bound. lia.
  - auto.
Qed.

Theorem routed_total_sorted (le : xrow -> xrow -> Prop) : forall s p batches next, input_ok s next batches ->
  p < scheme_outputs s ->
  exists l, routed s next batches p = Some l /\ incl l (concat batches) /\
    (StronglySorted le (concat batches) -> StronglySorted le l).
Proof.
  intros s p. induction batches as [|b r IH]; intros next OK Hp.
  - exists []. simpl. repeat split; auto. intros x [].
  - destruct (input_ok_step s next b r OK) as [SOK NXT].
    destruct b as [|x b].
    + assert (input_ok s next r) as OK' by (destruct s; simpl in *; auto; destruct OK as (?&?&F); inversion F; auto).
      destruct (IH next OK' Hp) as (l & E & I & S). exists l. simpl. auto.
    + destruct (pstep_rows s next (x :: b) SOK) as (next' & outs & E & H).
      destruct (IH next' (NXT _ _ E) Hp) as (l & El & I & S).
      exists (rows_for p outs ++ l). split; [|split].
      * change (routed s next ((x :: b) :: r) p) with
          (match pstep s next (x :: b) with
           | Some (next', outs) => match routed s next' r p with Some rest => Some (rows_for p outs ++ rest) | None => None end
           | None => None end). now rewrite E, El.
      * rewrite (H p Hp). change (concat ((x :: b) :: r)) with ((x :: b) ++ concat r). intros y J. apply in_app_or in J as [J|J]; apply in_or_app.
        -- left. apply filter_In in J. tauto.
        -- right. auto.
      * change (concat ((x :: b) :: r)) with ((x :: b) ++ concat r). intros SS. apply SS_app in SS as (S1 & S2 & C). apply SS_app. rewrite (H p Hp). repeat split; auto.
        -- now apply StronglySorted_filter.
        -- intros u v J1 J2. apply filter_In in J1 as [J1 _]. auto.
Qed.
