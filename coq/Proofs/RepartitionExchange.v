(* C10 -- the partitioner on whole batches (all three schemes) and the abstract exchange under any interleaving *)
From Coq Require Import List ZArith Bool Arith Lia Sorted Permutation.
From DF Require Import Base.Prelude Base.Bits Gen.StrengthReduced Proofs.StrengthReducedProofs
  Model.Repartition Proofs.RepartitionProofs Proofs.RepartitionRouting.
Import ListNotations.
Close Scope Z_scope.
Open Scope nat_scope.

(* ================================================================== H. partition_iter on a batch *)
Lemma sub_rows_map_filter {R} (g : R -> nat) p : forall b, sub_rows (map g b) b p = filter (fun r => g r =? p) b.
Proof. induction b as [|r b IH]; simpl; auto. destruct (g r =? p); now rewrite IH. Qed.

(* the output partition of a row: the routing definition *)
Definition part_of (s : scheme) (next : Z) (r : xrow) : nat :=
  match s with
  | SHash n => Z.to_nat (xhash r mod Z.of_nat n)
  | SRoundRobin _ => Z.to_nat next
  | SRange os sps => range_partition_id (xkey r) sps os
  end.

(* side conditions under which the code does not panic / overflow *)
Definition scheme_ok (s : scheme) (next : Z) (b : list xrow) : Prop :=
  match s with
  | SHash n => 1 <= n /\ (Z.of_nat n < 2 ^ 64)%Z /\ Forall (fun r => (0 <= xhash r < 2 ^ 64)%Z) b
  | SRoundRobin n => (0 <= next < n)%Z
  | SRange _ _ => True
  end.

Lemma rows_for_single {R} p q (b : list R) : rows_for p [(q, b)] = if q =? p then b else [].
Proof. unfold rows_for. simpl. destruct (q =? p); now rewrite ?app_nil_r. Qed.

Lemma filter_all_true {R} (f : R -> bool) l : (forall x, f x = true) -> filter f l = l.
Proof. intros H. induction l as [|a l IH]; simpl; auto. now rewrite H, IH. Qed.
Lemma filter_all_false {R} (f : R -> bool) l : (forall x, f x = false) -> filter f l = [].
Proof. intros H. induction l as [|a l IH]; simpl; auto. now rewrite H. Qed.

(* grouped_take_eq_filter at the level of partition_iter: the rows handed to output p are exactly the rows of the batch
   whose routing function value is p, in input order; and the (partition, rows) pairs come in increasing partition order
   with no empty batch among them (hash / range with split points). *)
Theorem pstep_rows : forall s next b, scheme_ok s next b ->
  exists next' outs, pstep s next b = Some (next', outs) /\
    forall p, p < scheme_outputs s -> rows_for p outs = filter (fun r => part_of s next r =? p) b.
Proof.
  intros [n | n | os sps] next b OK; simpl in OK.
  - destruct OK as (H1 & H2 & F). simpl pstep.
    rewrite hash_indices_spec; auto; [|rewrite Forall_map; exact F].
    eexists; eexists; split; [reflexivity|]. intros p Hp. simpl in Hp.
    rewrite map_map. rewrite rows_for_grouped_take by (now rewrite map_length) || assumption.
    apply (sub_rows_map_filter (fun r => Z.to_nat (xhash r mod Z.of_nat n))).
  - simpl. eexists; eexists; split; [reflexivity|]. intros p Hp. rewrite rows_for_single.
    destruct (Z.to_nat next =? p); [now rewrite filter_all_true|now rewrite filter_all_false].
  - simpl pstep. destruct sps as [|s0 sps'].
    + eexists; eexists; split; [reflexivity|]. intros p Hp. simpl in Hp. assert (p = 0) as -> by lia.
      rewrite rows_for_single. simpl. now rewrite filter_all_true.
    + set (sps := s0 :: sps') in *. eexists; eexists; split; [reflexivity|]. intros p Hp.
      unfold range_indices, range_parts. rewrite map_map.
      rewrite rows_for_grouped_take by (now rewrite map_length) || assumption.
      apply (sub_rows_map_filter (fun r => range_partition_id (xkey r) sps os)).
Qed.

Lemma part_of_below s next b r : scheme_ok s next b -> In r b -> part_of s next r < scheme_outputs s.
Proof.
  destruct s as [n | n | os sps]; simpl; intros OK I.
  - destruct OK as (H1 & H2 & F). assert (0 <= xhash r mod Z.of_nat n < Z.of_nat n)%Z by (apply Z.mod_pos_bound; lia). lia.
  - lia.
  - pose proof (range_partition_id_bound (xkey r) sps os). lia.
Qed.

(* partitioning a list by a key with values below n, block after block, is a permutation of the list *)
Lemma flat_map_insert {X} (g : nat -> list X) a k : forall ps, NoDup ps ->
  Permutation (flat_map (fun p => if k =? p then a :: g p else g p) ps)
              (if in_dec Nat.eq_dec k ps then a :: flat_map g ps else flat_map g ps).
Proof.
  induction ps as [|q ps IH]; intros ND; simpl; auto.
  inversion ND; subst. specialize (IH H2).
  destruct (Nat.eq_dec q k) as [E|E].
  - subst q. rewrite Nat.eqb_refl. destruct (in_dec Nat.eq_dec k ps); [contradiction|].
    simpl. constructor. apply Permutation_app_head. exact IH.
  - assert ((k =? q) = false) as F by (apply Nat.eqb_neq; congruence). rewrite F.
    destruct (in_dec Nat.eq_dec k ps).
    + rewrite IH. symmetry. apply Permutation_middle.
    + apply Permutation_app_head. exact IH.
Qed.

Lemma perm_by_key {X} (f : X -> nat) n : forall l, Forall (fun x => f x < n) l ->
  Permutation (flat_map (fun p => filter (fun x => f x =? p) l) (seq 0 n)) l.
Proof.
  induction l as [|a l IH]; intros F.
  - simpl. induction (seq 0 n); simpl; auto.
  - inversion F; subst. specialize (IH H2). simpl filter.
    eapply perm_trans.
    { apply (flat_map_insert (fun p => filter (fun x => f x =? p) l) a (f a) (seq 0 n) (seq_NoDup n 0)). }
    destruct (in_dec Nat.eq_dec (f a) (seq 0 n)) as [I|N].
    + now constructor.
    + exfalso. apply N. apply in_seq. lia.
Qed.

(* every row of the batch is handed to exactly one output, once *)
Theorem pstep_exactly_once : forall s next b, scheme_ok s next b ->
  exists next' outs, pstep s next b = Some (next', outs) /\
    Permutation (flat_map (fun p => rows_for p outs) (seq 0 (scheme_outputs s))) b.
Proof.
  intros s next b OK. destruct (pstep_rows s next b OK) as (next' & outs & E & H).
  exists next', outs. split; auto.
  rewrite (flat_map_ext_in' _ (fun p => filter (fun r => part_of s next r =? p) b)).
  - apply perm_by_key. apply Forall_forall. intros r I. eapply part_of_below; eauto.
  - intros p Hp. apply in_seq in Hp. apply H. lia.
Qed.

(* hash_equal_keys_same_output: whatever the hash function of the key columns is *)
Theorem hash_equal_keys : forall (hashf : key -> Z) n b next, 1 <= n -> (Z.of_nat n < 2 ^ 64)%Z ->
  (forall k, (0 <= hashf k < 2 ^ 64)%Z) -> Forall (fun r => xhash r = hashf (xkey r)) b ->
  exists outs, pstep (SHash n) next b = Some (next, outs) /\
    forall r1 r2 p, In r1 b -> In r2 b -> xkey r1 = xkey r2 -> p < n ->
      In r1 (rows_for p outs) -> In r2 (rows_for p outs).
Proof.
  intros hashf n b next H1 H2 Hh F.
  assert (scheme_ok (SHash n) next b) as OK.
  { simpl. repeat split; auto. eapply Forall_impl; [|exact F]. intros r E. simpl in E. rewrite E. apply Hh. }
  destruct (pstep_rows _ _ _ OK) as (next' & outs & E & H). exists outs.
  assert (next' = next) as -> by (simpl in E; destruct (hash_indices n (map xhash b)); congruence).
  split; auto. intros r1 r2 p I1 I2 K Hp J. rewrite H in * by assumption.
  apply filter_In in J as [_ J]. apply filter_In. split; auto.
  rewrite Forall_forall in F. simpl in *. rewrite (F r2 I2), <- K, <- (F r1 I1). exact J.
Qed.

(* range: rows whose keys compare Equal go to the same output; the output index is monotone in the key *)
Theorem range_equal_keys : forall os sps b next outs, pstep (SRange os sps) next b = Some (next, outs) ->
  forall r1 r2 p, In r1 b -> In r2 b -> length (xkey r1) = length (xkey r2) ->
    compare_rows (xkey r1) (xkey r2) os = Eq -> p < S (length sps) ->
    In r1 (rows_for p outs) -> In r2 (rows_for p outs).
Proof.
  intros os sps b next outs E r1 r2 p I1 I2 L C Hp J.
  destruct (pstep_rows (SRange os sps) next b I) as (next' & outs' & E' & H).
  rewrite E in E'. injection E' as <- <-. rewrite H in * by assumption.
  apply filter_In in J as [_ J]. apply filter_In. split; auto. simpl in *.
  now rewrite <- (range_id_equal_keys os sps _ _ L C).
Qed.

(* sub-sequences of a sorted stream are sorted: what preserve_order feeds its k-way merge with (the merge is C08's) *)
Lemma filter_sorted {X} (le : X -> X -> Prop) f l : StronglySorted le l -> StronglySorted le (filter f l).
Proof. apply StronglySorted_filter. Qed.
