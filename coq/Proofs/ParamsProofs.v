(* C41 proofs: substitution of parameter values = evaluation with a parameter environment. *)
From Coq Require Import List ZArith Bool Lia.
From DF Require Import Base.Prelude Model.RefSQL Model.Params.
Import ListNotations.
Open Scope Z_scope.

(* ------------------------------------------------------------------ monad / list helpers *)
Lemma mapR_mapM : forall {A B} (f : A -> res B) l, mapR f l = mapM f l.
Proof. intros A B f l. induction l as [|x l IH]; [reflexivity|]. cbn [mapR mapM]. rewrite IH. reflexivity. Qed.

Lemma mapR_Forall2 : forall {A B} (f : A -> res B) l l',
  mapR f l = Ok l' -> Forall2 (fun x y => f x = Ok y) l l'.
Proof.
  intros A B f l. induction l as [|x l IH]; intros l' H; cbn [mapR] in H.
  - inversion H. constructor.
  - destruct (f x) as [y|] eqn:E; [|discriminate]. cbn [bind] in H.
    destruct (mapR f l) as [ys|] eqn:E2; [|discriminate]. cbn [bind] in H. inversion H; subst.
    constructor; [exact E | apply IH; reflexivity].
Qed.

Lemma Forall2_mapR : forall {A B} (f : A -> res B) l l',
  Forall2 (fun x y => f x = Ok y) l l' -> mapR f l = Ok l'.
Proof.
  intros A B f l l' H. induction H as [|x y l l' Hxy _ IH]; [reflexivity|].
  cbn [mapR]. rewrite Hxy. cbn [bind]. rewrite IH. reflexivity.
Qed.

Lemma mapM_ext : forall {A B} (f g : A -> res B) l, (forall x, f x = g x) -> mapM f l = mapM g l.
Proof. intros A B f g l H. induction l as [|x l IH]; [reflexivity|]. cbn [mapM]. rewrite H, IH. reflexivity. Qed.

(* two lists related element-wise, two functions that agree on related elements *)
Lemma mapM_rel : forall {A A' B} (R : A -> A' -> Prop) (F : A' -> res B) (G : A -> res B) l l',
  Forall2 R l l' -> (forall x y, R x y -> F y = G x) -> mapM F l' = mapM G l.
Proof.
  intros A A' B R F G l l' H HR. induction H as [|x y l l' Hxy _ IH]; [reflexivity|].
  cbn [mapM]. rewrite (HR x y Hxy), IH. reflexivity.
Qed.

Lemma filter_m_ext : forall (p p' : row -> res tv) R, (forall r, p r = p' r) -> filter_m p R = filter_m p' R.
Proof.
  intros p p' R H. unfold filter_m. rewrite (mapM_ext p p' R H).
  rewrite (filter_ext (fun r => is_tt (p r)) (fun r => is_tt (p' r))); [reflexivity|]. intros r. rewrite H. reflexivity.
Qed.

Lemma on_total_ext : forall (on on' : row -> row -> res tv) L R,
  (forall a b, on a b = on' a b) -> on_total on L R = on_total on' L R.
Proof. intros on on' L R H. unfold on_total. apply mapM_ext. intros l. apply mapM_ext. intros r. apply H. Qed.

Lemma existsb_ext' : forall {A} (f g : A -> bool) l, (forall x, f x = g x) -> existsb f l = existsb g l.
Proof. intros A f g l H. induction l as [|x l IH]; [reflexivity|]. cbn [existsb]. rewrite H, IH. reflexivity. Qed.

Lemma join_ext : forall k (on on' : row -> row -> bool) wl wr L R,
  (forall a b, on a b = on' a b) -> join k on wl wr L R = join k on' wl wr L R.
Proof.
  intros k on on' wl wr L R H.
  assert (HL : forall l, filter (on l) R = filter (on' l) R) by (intros l; apply filter_ext; intros r; apply H).
  assert (HR : forall r, filter (fun l => on l r) L = filter (fun l => on' l r) L) by (intros r; apply filter_ext; intros l; apply H).
  assert (Hleft : left_join on wr L R = left_join on' wr L R).
  { unfold left_join. apply flat_map_ext. intros l. rewrite HL. reflexivity. }
  destruct k; cbn [join].
  - unfold inner_join. apply flat_map_ext. intros l. rewrite HL. reflexivity.
  - exact Hleft.
  - unfold right_join. apply flat_map_ext. intros r. rewrite HR. reflexivity.
  - unfold full_join. rewrite Hleft. f_equal. f_equal. unfold unmatched_right. apply filter_ext. intros r.
    f_equal. apply existsb_ext'. intros l. apply H.
Qed.

Lemma semi_join_ext : forall (on on' : row -> row -> bool) L R,
  (forall a b, on a b = on' a b) -> semi_join on L R = semi_join on' L R.
Proof. intros on on' L R H. unfold semi_join. apply filter_ext. intros l. apply existsb_ext'. intros r. apply H. Qed.
Lemma anti_join_ext : forall (on on' : row -> row -> bool) L R,
  (forall a b, on a b = on' a b) -> anti_join on L R = anti_join on' L R.
Proof.
  intros on on' L R H. unfold anti_join. apply filter_ext. intros l. f_equal. apply existsb_ext'. intros r. apply H.
Qed.

Ltac inv_bind H :=
  repeat match type of H with
         | bind ?x _ = Ok _ => let E := fresh "E" in destruct x eqn:E; cbn [bind] in H; [|discriminate H]
         end.

Lemma larg_val_const : forall s a z, larg_val s a = Ok z -> True.
Proof. trivial. Qed.

(* ------------------------------------------------------------------ the substitution lemma *)
Section Subst.
  Context (s : penv).

  Definition agree_e (f : nat) : Prop :=
    forall e e', subst_e s e = Ok e' -> forall d en, eval_expr f d en e' = peval_expr f s d en e.
  Definition agree_q (f : nat) : Prop :=
    forall q q', subst_q s q = Ok q' -> forall d en, eval_query f d en q' = peval_query f s d en q.

  Lemma agree_list : forall f, agree_e f -> forall l l', mapR (subst_e s) l = Ok l' ->
    forall d en, mapM (eval_expr f d en) l' = mapM (peval_expr f s d en) l.
  Proof.
    intros f IH l l' H d en. apply mapR_Forall2 in H.
    apply (mapM_rel (fun x y => subst_e s x = Ok y)); [exact H|]. intros x y Hxy. apply IH. exact Hxy.
  Qed.

  Lemma agree_rows : forall f, agree_e f -> forall l l', mapR (subst_e s) l = Ok l' ->
    forall d en (R : rel), mapM (fun r => mapM (eval_expr f d (r :: en)) l') R
                         = mapM (fun r => mapM (peval_expr f s d (r :: en)) l) R.
  Proof. intros f IH l l' H d en R. apply mapM_ext. intros r. apply (agree_list f IH l l' H). Qed.

  Lemma step_e : forall f, agree_e f -> agree_q f -> agree_e (S f).
  Proof.
    intros f IHe IHq e e' H d en.
    assert (IHp : forall a a', subst_e s a = Ok a' -> forall d en,
              (v <- eval_expr f d en a';; tv_of_value v) = (v <- peval_expr f s d en a;; tv_of_value v)).
    { intros a a' Ha d0 en0. rewrite (IHe a a' Ha). reflexivity. }
    destruct e; cbn [subst_e] in H; inv_bind H; inversion H; subst e'; clear H; cbn [eval_expr peval_expr].
    - reflexivity.
    - reflexivity.
    - (* PParam *) unfold get_param in *. destruct (s n); [|discriminate]. inversion E; subst. reflexivity.
    - rewrite (IHe _ _ E), (IHe _ _ E0). reflexivity.
    - rewrite (IHe _ _ E), (IHe _ _ E0). reflexivity.
    - rewrite (IHp _ _ E), (IHp _ _ E0). reflexivity.
    - rewrite (IHp _ _ E), (IHp _ _ E0). reflexivity.
    - rewrite (IHp _ _ E). reflexivity.
    - rewrite (IHe _ _ E). reflexivity.
    - rewrite (IHe _ _ E), (IHe _ _ E0). reflexivity.
    - rewrite (IHe _ _ E), (IHe _ _ E0), (IHe _ _ E1). reflexivity.
    - (* PInList *) rewrite (IHe _ _ E), (agree_list f IHe _ _ E0). reflexivity.
    - (* PCase *)
      apply mapR_Forall2 in E.
      assert (Hels : match a0 with Some e => eval_expr f d en e | None => Ok VNull end
                   = match els with Some e => peval_expr f s d en e | None => Ok VNull end).
      { destruct els as [e0|]; inv_bind E0; inversion E0; subst a0; [apply (IHe _ _ E1) | reflexivity]. }
      clear E0. induction E as [|[w t] [w' t'] ws ws' Hwt _ IHws]; [exact Hels|].
      inv_bind Hwt. inversion Hwt; subst.
      rewrite (IHp _ _ E), (IHe _ _ E0). rewrite IHws. reflexivity.
    - (* PCoalesce *)
      apply mapR_Forall2 in E. induction E as [|x y l0 l' Hxy _ IHl]; [reflexivity|].
      rewrite (IHe _ _ Hxy), IHl. reflexivity.
    - rewrite (IHe _ _ E), (IHe _ _ E0). reflexivity.
    - rewrite (IHq _ _ E). reflexivity.
    - rewrite (IHq _ _ E). reflexivity.
    - rewrite (IHe _ _ E), (IHq _ _ E0). reflexivity.
  Qed.

  Lemma step_q : forall f, agree_e f -> agree_q f -> agree_q (S f).
  Proof.
    intros f IHe IHq q q' H d en.
    assert (IHpr : forall a a', subst_e s a = Ok a' -> forall d en (r : row),
              (v <- eval_expr f d (r :: en) a';; tv_of_value v) = (v <- peval_expr f s d (r :: en) a;; tv_of_value v)).
    { intros a a' Ha d0 en0 r. rewrite (IHe a a' Ha). reflexivity. }
    destruct q; cbn [subst_q] in H; inv_bind H; inversion H; subst q'; clear H; cbn [eval_query peval_query].
    - reflexivity.
    - reflexivity.
    - (* filter *) rewrite (IHq _ _ E0). destruct (peval_query f s d en q); [|reflexivity]. cbn [bind].
      apply filter_m_ext. intros r0. apply (IHpr _ _ E).
    - (* project *) rewrite (IHq _ _ E0). destruct (peval_query f s d en q); [|reflexivity]. cbn [bind].
      apply (agree_rows f IHe _ _ E).
    - (* join *) rewrite (IHq _ _ E0), (IHq _ _ E1).
      destruct (peval_query f s d en q1) as [L|]; [|reflexivity]. cbn [bind].
      destruct (peval_query f s d en q2) as [R|]; [|reflexivity]. cbn [bind].
      rewrite (on_total_ext _ (fun x1 x2 => v <- peval_expr f s d ((x1 ++ x2) :: en) on;; tv_of_value v) L R)
        by (intros x1 x2; apply (IHpr _ _ E)).
      destruct (on_total _ L R); [|reflexivity]. cbn [bind]. f_equal.
      apply join_ext. intros x1 x2. unfold on_bool. rewrite (IHpr _ _ E). reflexivity.
    - (* semi *) rewrite (IHq _ _ E0), (IHq _ _ E1).
      destruct (peval_query f s d en q1) as [L|]; [|reflexivity]. cbn [bind].
      destruct (peval_query f s d en q2) as [R|]; [|reflexivity]. cbn [bind].
      rewrite (on_total_ext _ (fun x1 x2 => v <- peval_expr f s d ((x1 ++ x2) :: en) on;; tv_of_value v) L R)
        by (intros x1 x2; apply (IHpr _ _ E)).
      destruct (on_total _ L R); [|reflexivity]. cbn [bind]. f_equal.
      destruct anti; [apply anti_join_ext | apply semi_join_ext];
        intros x1 x2; unfold on_bool; rewrite (IHpr _ _ E); reflexivity.
    - (* group *)
      rewrite (IHq _ _ E2). destruct (peval_query f s d en q) as [R|]; [|reflexivity]. cbn [bind].
      rewrite (agree_rows f IHe _ _ E).
      destruct (mapM (fun r => mapM (peval_expr f s d (r :: en)) keys) R) as [ks|]; [|reflexivity]. cbn [bind].
      assert (Hk : match a with [] => [([], R)] | _ :: _ => group_pairs (combine ks R) end
                 = match keys with [] => [([], R)] | _ :: _ => group_pairs (combine ks R) end).
      { apply mapR_Forall2 in E. destruct E; reflexivity. }
      rewrite Hk. clear Hk.
      set (groups := match keys with [] => [([], R)] | _ :: _ => group_pairs (combine ks R) end).
      assert (Hout : forall g : row * rel,
                (avs <- mapM (fun ag : agg_fn * expr => args <- mapM (fun r => eval_expr f d (r :: en) (snd ag)) (snd g);;
                                                     agg_apply (fst ag) args) a0;; Ok (fst g ++ avs))
              = (avs <- mapM (fun ag : agg_fn * pexpr => args <- mapM (fun r => peval_expr f s d (r :: en) (snd ag)) (snd g);;
                                                      agg_apply (fst ag) args) aggs;; Ok (fst g ++ avs))).
      { intros g. f_equal. apply mapR_Forall2 in E0.
        apply (mapM_rel (fun (x : agg_fn * pexpr) (y : agg_fn * expr) =>
                           (let '(fn, e) := x in e' <- subst_e s e;; Ok (fn, e')) = Ok y)); [exact E0|].
        intros [fn e] [fn' e'] Hxy. inv_bind Hxy. inversion Hxy; subst. cbn [fst snd].
        rewrite (mapM_ext (fun r => eval_expr f d (r :: en) e') (fun r => peval_expr f s d (r :: en) e) (snd g))
          by (intros r; apply (IHe _ _ E3)).
        reflexivity. }
      match goal with |- bind ?m1 _ = bind ?m2 _ => assert (Hm12 : m1 = m2) by (apply mapM_ext; exact Hout); rewrite Hm12; clear Hm12 end.
      match goal with |- bind ?m _ = _ => destruct m as [out|] end; [|reflexivity]. cbn [bind].
      destruct having as [h|]; inv_bind E1; inversion E1; subst a1; [|reflexivity].
      apply filter_m_ext. intros r0. apply (IHpr _ _ E3).
    - rewrite (IHq _ _ E). reflexivity.
    - rewrite (IHq _ _ E), (IHq _ _ E0). reflexivity.
    - (* sort *)
      rewrite (IHq _ _ E0). destruct (peval_query f s d en q) as [R|]; [|reflexivity]. cbn [bind].
      apply mapR_Forall2 in E.
      assert (Hm : map snd a = map snd keys).
      { clear -E. induction E as [|[e dr] [e' dr'] ks ks' Hxy _ IH]; [reflexivity|].
        inv_bind Hxy. inversion Hxy; subst. cbn [map snd]. rewrite IH. reflexivity. }
      rewrite Hm.
      assert (Hk : forall r : row, mapM (fun k : expr * (bool * bool) => eval_expr f d (r :: en) (fst k)) a
                                 = mapM (fun k : pexpr * (bool * bool) => peval_expr f s d (r :: en) (fst k)) keys).
      { intros r. apply (mapM_rel (fun (x : pexpr * (bool * bool)) (y : expr * (bool * bool)) =>
                                     (let '(e, dr) := x in e' <- subst_e s e;; Ok (e', dr)) = Ok y)); [exact E|].
        intros [e dr] [e' dr'] Hxy. inv_bind Hxy. inversion Hxy; subst. cbn [fst]. apply (IHe _ _ E1). }
      rewrite (mapM_ext _ _ R Hk). reflexivity.
    - (* limit *)
      rewrite (IHq _ _ E1). destruct (peval_query f s d en q) as [R|]; [|reflexivity]. cbn [bind].
      rewrite E, E0. reflexivity.
  Qed.

  Theorem subst_agree : forall f, agree_e f /\ agree_q f.
  Proof.
    induction f as [|f [IHe IHq]].
    - split; intros x x' _ d en; reflexivity.
    - split; [apply step_e | apply step_q]; assumption.
  Qed.
End Subst.

(* evaluation of the literal-substituted query = evaluation with the parameter environment *)
Theorem subst_lemma : forall (s : penv) (q : pquery) (q' : query), subst_q s q = Ok q' ->
  forall f d en, eval_query f d en q' = peval_query f s d en q.
Proof. intros s q q' H f d en. exact (proj2 (subst_agree s f) q q' H d en). Qed.

Theorem subst_lemma_expr : forall (s : penv) (e : pexpr) (e' : expr), subst_e s e = Ok e' ->
  forall f d en, eval_expr f d en e' = peval_expr f s d en e.
Proof. intros s e e' H f d en. exact (proj1 (subst_agree s f) e e' H d en). Qed.

Corollary subst_lemma_run : forall vs q q' d, subst_q (env_list vs) q = Ok q' ->
  run_query d q' = prun_query (env_list vs) d q.
Proof. intros vs q q' d H. apply subst_lemma. exact H. Qed.

(* ------------------------------------------------------------------ queries without placeholders *)
Fixpoint subst_embed_e (s : penv) (e : expr) {struct e} : subst_e s (embed_e e) = Ok e
with subst_embed_q (s : penv) (q : query) {struct q} : subst_q s (embed_q q) = Ok q.
Proof.
  - destruct e; cbn [embed_e subst_e];
      repeat match goal with
             | |- context [subst_e s (embed_e ?a)] => rewrite (subst_embed_e s a); cbn [bind]
             | |- context [subst_q s (embed_q ?a)] => rewrite (subst_embed_q s a); cbn [bind]
             end; try reflexivity.
    + (* EInList *)
      assert (Hl : mapR (subst_e s) (map embed_e l) = Ok l).
      { induction l as [|x l IHl]; [reflexivity|]. cbn [map mapR]. rewrite (subst_embed_e s x). cbn [bind]. rewrite IHl. reflexivity. }
      rewrite Hl. reflexivity.
    + (* ECase *)
      assert (Hl : mapR (fun wt : pexpr * pexpr => let '(w, t) := wt in w' <- subst_e s w;; t' <- subst_e s t;; Ok (w', t'))
                        (map (fun wt : expr * expr => (embed_e (fst wt), embed_e (snd wt))) ws) = Ok ws).
      { induction ws as [|[w t] ws IHl]; [reflexivity|]. cbn [map mapR fst snd].
        rewrite (subst_embed_e s w). cbn [bind]. rewrite (subst_embed_e s t). cbn [bind]. rewrite IHl. reflexivity. }
      rewrite Hl. cbn [bind]. destruct els as [e0|]; [rewrite (subst_embed_e s e0)|]; reflexivity.
    + (* ECoalesce *)
      assert (Hl : mapR (subst_e s) (map embed_e l) = Ok l).
      { induction l as [|x l IHl]; [reflexivity|]. cbn [map mapR]. rewrite (subst_embed_e s x). cbn [bind]. rewrite IHl. reflexivity. }
      rewrite Hl. reflexivity.
  - destruct q; cbn [embed_q subst_q];
      repeat match goal with
             | |- context [subst_e s (embed_e ?a)] => rewrite (subst_embed_e s a); cbn [bind]
             | |- context [subst_q s (embed_q ?a)] => rewrite (subst_embed_q s a); cbn [bind]
             end; try reflexivity.
    + (* project *)
      assert (Hl : mapR (subst_e s) (map embed_e es) = Ok es).
      { induction es as [|x l IHl]; [reflexivity|]. cbn [map mapR]. rewrite (subst_embed_e s x). cbn [bind]. rewrite IHl. reflexivity. }
      rewrite Hl. cbn [bind]. try rewrite (subst_embed_q s q). reflexivity.
    + (* group *)
      assert (Hl : mapR (subst_e s) (map embed_e keys) = Ok keys).
      { induction keys as [|x l IHl]; [reflexivity|]. cbn [map mapR]. rewrite (subst_embed_e s x). cbn [bind]. rewrite IHl. reflexivity. }
      assert (Ha : mapR (fun a : agg_fn * pexpr => let '(fn, e) := a in e' <- subst_e s e;; Ok (fn, e'))
                        (map (fun a : agg_fn * expr => (fst a, embed_e (snd a))) aggs) = Ok aggs).
      { induction aggs as [|[fn x] l IHl]; [reflexivity|]. cbn [map mapR fst snd]. rewrite (subst_embed_e s x). cbn [bind]. rewrite IHl. reflexivity. }
      rewrite Hl, Ha. cbn [bind].
      destruct having as [h|]; [rewrite (subst_embed_e s h)|]; cbn [bind]; try rewrite (subst_embed_q s q); reflexivity.
    + (* sort *)
      assert (Hl : mapR (fun k : pexpr * (bool * bool) => let '(e, dr) := k in e' <- subst_e s e;; Ok (e', dr))
                        (map (fun k : expr * (bool * bool) => (embed_e (fst k), snd k)) keys) = Ok keys).
      { induction keys as [|[x dr] l IHl]; [reflexivity|]. cbn [map mapR fst snd]. rewrite (subst_embed_e s x). cbn [bind]. rewrite IHl. reflexivity. }
      rewrite Hl. cbn [bind]. try rewrite (subst_embed_q s q). reflexivity.
    + (* limit *)
      destruct lim; cbn [larg_val olarg_val bind]; try rewrite (subst_embed_q s q); reflexivity.
Qed.

Theorem subst_no_params_id : forall s q, subst_q s (embed_q q) = Ok q.
Proof. intros. apply subst_embed_q. Qed.

(* hence the environment-passing evaluator restricted to placeholder-free queries IS the RefSQL evaluator *)
Theorem peval_embed : forall s q f d en, peval_query f s d en (embed_q q) = eval_query f d en q.
Proof. intros s q f d en. symmetry. apply subst_lemma. apply subst_no_params_id. Qed.

(* ------------------------------------------------------------------ only the values of the placeholders that occur matter
   (ParamValues::Map binding the same values to the names gives the same plan as ParamValues::List) *)
Ltac in_app := rewrite ?in_app_iff; tauto.

Lemma larg_ext : forall (s s' : penv) a, (forall n, In n (match a with LParam n => [n] | LConst _ => [] end) -> s n = s' n) ->
  larg_val s a = larg_val s' a.
Proof. intros s s' [z|n] H; [reflexivity|]. cbn [larg_val]. unfold get_param. rewrite (H n (or_introl eq_refl)). reflexivity. Qed.

Fixpoint subst_ext_e (s s' : penv) (e : pexpr) {struct e} :
  (forall n, In n (params_e e) -> s n = s' n) -> subst_e s e = subst_e s' e
with subst_ext_q (s s' : penv) (q : pquery) {struct q} :
  (forall n, In n (params_q q) -> s n = s' n) -> subst_q s q = subst_q s' q.
Proof.
  - intros H.
    assert (Hlist : forall l : list pexpr, (forall x, In x l -> subst_e s x = subst_e s' x) ->
                                           mapR (subst_e s) l = mapR (subst_e s') l).
    { intros l Hx. induction l as [|x l IHl]; [reflexivity|]. cbn [mapR]. rewrite (Hx x (or_introl eq_refl)).
      rewrite IHl; [reflexivity|]. intros y Hy. apply Hx. right. exact Hy. }
    destruct e; cbn [params_e] in H; cbn [subst_e]; try reflexivity.
    + unfold get_param. rewrite (H n (or_introl eq_refl)). reflexivity.
    + rewrite (subst_ext_e s s' e1) by (intros n Hn; apply H; in_app).
      rewrite (subst_ext_e s s' e2) by (intros n Hn; apply H; in_app). reflexivity.
    + rewrite (subst_ext_e s s' e1) by (intros n Hn; apply H; in_app).
      rewrite (subst_ext_e s s' e2) by (intros n Hn; apply H; in_app). reflexivity.
    + rewrite (subst_ext_e s s' e1) by (intros n Hn; apply H; in_app).
      rewrite (subst_ext_e s s' e2) by (intros n Hn; apply H; in_app). reflexivity.
    + rewrite (subst_ext_e s s' e1) by (intros n Hn; apply H; in_app).
      rewrite (subst_ext_e s s' e2) by (intros n Hn; apply H; in_app). reflexivity.
    + rewrite (subst_ext_e s s' e) by (intros n Hn; apply H; in_app). reflexivity.
    + rewrite (subst_ext_e s s' e) by (intros n Hn; apply H; in_app). reflexivity.
    + rewrite (subst_ext_e s s' e1) by (intros n Hn; apply H; in_app).
      rewrite (subst_ext_e s s' e2) by (intros n Hn; apply H; in_app). reflexivity.
    + rewrite (subst_ext_e s s' e1) by (intros n Hn; apply H; in_app).
      rewrite (subst_ext_e s s' e2) by (intros n Hn; apply H; in_app).
      rewrite (subst_ext_e s s' e3) by (intros n Hn; apply H; in_app). reflexivity.
    + (* PInList *)
      rewrite (subst_ext_e s s' e) by (intros n Hn; apply H; in_app).
      assert (Hl : mapR (subst_e s) l = mapR (subst_e s') l).
      { assert (Hp : forall n, In n (flat_map params_e l) -> s n = s' n) by (intros n Hn; apply H; in_app).
        clear H. induction l as [|x l IHl]; [reflexivity|]. cbn [mapR]. cbn [flat_map] in Hp.
        rewrite (subst_ext_e s s' x) by (intros n Hn; apply Hp; in_app).
        rewrite IHl by (intros n Hn; apply Hp; in_app). reflexivity. }
      rewrite Hl. reflexivity.
    + (* PCase *)
      assert (Hl : mapR (fun wt : pexpr * pexpr => let '(w, t) := wt in w' <- subst_e s w;; t' <- subst_e s t;; Ok (w', t')) ws
                 = mapR (fun wt : pexpr * pexpr => let '(w, t) := wt in w' <- subst_e s' w;; t' <- subst_e s' t;; Ok (w', t')) ws).
      { assert (Hp : forall n, In n (flat_map (fun wt : pexpr * pexpr => params_e (fst wt) ++ params_e (snd wt)) ws) -> s n = s' n)
          by (intros n Hn; apply H; in_app).
        clear H. induction ws as [|[w t] ws IHl]; [reflexivity|]. cbn [mapR]. cbn [flat_map fst snd] in Hp.
        rewrite (subst_ext_e s s' w) by (intros n Hn; apply Hp; in_app).
        rewrite (subst_ext_e s s' t) by (intros n Hn; apply Hp; in_app).
        rewrite IHl by (intros n Hn; apply Hp; in_app). reflexivity. }
      rewrite Hl. destruct els as [e0|]; [|reflexivity].
      rewrite (subst_ext_e s s' e0) by (intros n Hn; apply H; in_app). reflexivity.
    + (* PCoalesce *)
      assert (Hl : mapR (subst_e s) l = mapR (subst_e s') l).
      { induction l as [|x l IHl]; [reflexivity|]. cbn [mapR]. cbn [flat_map] in H.
        rewrite (subst_ext_e s s' x) by (intros n Hn; apply H; in_app).
        rewrite IHl by (intros n Hn; apply H; in_app). reflexivity. }
      rewrite Hl. reflexivity.
    + rewrite (subst_ext_e s s' e1) by (intros n Hn; apply H; in_app).
      rewrite (subst_ext_e s s' e2) by (intros n Hn; apply H; in_app). reflexivity.
    + rewrite (subst_ext_q s s' q) by (intros n Hn; apply H; in_app). reflexivity.
    + rewrite (subst_ext_q s s' q) by (intros n Hn; apply H; in_app). reflexivity.
    + rewrite (subst_ext_e s s' e) by (intros n Hn; apply H; in_app).
      rewrite (subst_ext_q s s' q) by (intros n Hn; apply H; in_app). reflexivity.
  - intros H.
    destruct q; cbn [params_q] in H; cbn [subst_q]; try reflexivity.
    + rewrite (subst_ext_e s s' p) by (intros n Hn; apply H; in_app).
      rewrite (subst_ext_q s s' q) by (intros n Hn; apply H; in_app). reflexivity.
    + (* project *)
      assert (Hl : mapR (subst_e s) es = mapR (subst_e s') es).
      { assert (Hp : forall n, In n (flat_map params_e es) -> s n = s' n) by (intros n Hn; apply H; in_app).
        clear H. induction es as [|x l IHl]; [reflexivity|]. cbn [mapR]. cbn [flat_map] in Hp.
        rewrite (subst_ext_e s s' x) by (intros n Hn; apply Hp; in_app).
        rewrite IHl by (intros n Hn; apply Hp; in_app). reflexivity. }
      rewrite Hl. rewrite (subst_ext_q s s' q) by (intros n Hn; apply H; in_app). reflexivity.
    + rewrite (subst_ext_e s s' on) by (intros n Hn; apply H; in_app).
      rewrite (subst_ext_q s s' q1) by (intros n Hn; apply H; in_app).
      rewrite (subst_ext_q s s' q2) by (intros n Hn; apply H; in_app). reflexivity.
    + rewrite (subst_ext_e s s' on) by (intros n Hn; apply H; in_app).
      rewrite (subst_ext_q s s' q1) by (intros n Hn; apply H; in_app).
      rewrite (subst_ext_q s s' q2) by (intros n Hn; apply H; in_app). reflexivity.
    + (* group *)
      assert (Hl : mapR (subst_e s) keys = mapR (subst_e s') keys).
      { assert (Hp : forall n, In n (flat_map params_e keys) -> s n = s' n) by (intros n Hn; apply H; in_app).
        clear H. induction keys as [|x l IHl]; [reflexivity|]. cbn [mapR]. cbn [flat_map] in Hp.
        rewrite (subst_ext_e s s' x) by (intros n Hn; apply Hp; in_app).
        rewrite IHl by (intros n Hn; apply Hp; in_app). reflexivity. }
      assert (Ha : mapR (fun a : agg_fn * pexpr => let '(fn, e) := a in e' <- subst_e s e;; Ok (fn, e')) aggs
                 = mapR (fun a : agg_fn * pexpr => let '(fn, e) := a in e' <- subst_e s' e;; Ok (fn, e')) aggs).
      { assert (Hp : forall n, In n (flat_map (fun a : agg_fn * pexpr => params_e (snd a)) aggs) -> s n = s' n)
          by (intros n Hn; apply H; in_app).
        clear H Hl. induction aggs as [|[fn x] l IHl]; [reflexivity|]. cbn [mapR]. cbn [flat_map snd] in Hp.
        rewrite (subst_ext_e s s' x) by (intros n Hn; apply Hp; in_app).
        rewrite IHl by (intros n Hn; apply Hp; in_app). reflexivity. }
      rewrite Hl, Ha. rewrite (subst_ext_q s s' q) by (intros n Hn; apply H; in_app).
      destruct having as [h|]; [|reflexivity].
      rewrite (subst_ext_e s s' h) by (intros n Hn; apply H; in_app). reflexivity.
    + rewrite (subst_ext_q s s' q) by (intros n Hn; apply H; in_app). reflexivity.
    + rewrite (subst_ext_q s s' q1) by (intros n Hn; apply H; in_app).
      rewrite (subst_ext_q s s' q2) by (intros n Hn; apply H; in_app). reflexivity.
    + (* sort *)
      assert (Hl : mapR (fun k : pexpr * (bool * bool) => let '(e, dr) := k in e' <- subst_e s e;; Ok (e', dr)) keys
                 = mapR (fun k : pexpr * (bool * bool) => let '(e, dr) := k in e' <- subst_e s' e;; Ok (e', dr)) keys).
      { assert (Hp : forall n, In n (flat_map (fun k : pexpr * (bool * bool) => params_e (fst k)) keys) -> s n = s' n)
          by (intros n Hn; apply H; in_app).
        clear H. induction keys as [|[x dr] l IHl]; [reflexivity|]. cbn [mapR]. cbn [flat_map fst] in Hp.
        rewrite (subst_ext_e s s' x) by (intros n Hn; apply Hp; in_app).
        rewrite IHl by (intros n Hn; apply Hp; in_app). reflexivity. }
      rewrite Hl. rewrite (subst_ext_q s s' q) by (intros n Hn; apply H; in_app). reflexivity.
    + (* limit *)
      rewrite (larg_ext s s' off) by (intros n Hn; apply H; in_app).
      rewrite (subst_ext_q s s' q) by (intros n Hn; apply H; in_app).
      destruct lim as [a|]; [|reflexivity]. cbn [olarg_val].
      rewrite (larg_ext s s' a) by (intros n Hn; apply H; destruct a; in_app). reflexivity.
Qed.

Theorem subst_only_bound_values_matter : forall s s' q,
  (forall n, In n (params_q q) -> s n = s' n) -> subst_q s q = subst_q s' q.
Proof. intros. apply subst_ext_q. assumption. Qed.

(* a name map that binds the k-th name to the k-th value is the positional list *)
Fixpoint number_from (k : Z) (vs : list value) : list (Z * value) :=
  match vs with [] => [] | v :: vs' => (k, v) :: number_from (k + 1) vs' end.

Lemma env_map_number_from : forall vs k n, 0 < k ->
  env_map (number_from k vs) n = if n <? k then None else nth_error vs (Z.to_nat (n - k)).
Proof.
  induction vs as [|v vs IH]; intros k n Hk; cbn [number_from env_map].
  - destruct (n <? k); [reflexivity|]. destruct (Z.to_nat (n - k)); reflexivity.
  - destruct (k =? n) eqn:E.
    + apply Z.eqb_eq in E. subst n. rewrite Z.ltb_irrefl, Z.sub_diag. reflexivity.
    + apply Z.eqb_neq in E. rewrite IH by lia.
      destruct (n <? k) eqn:L1.
      * apply Z.ltb_lt in L1. destruct (n <? k + 1) eqn:L2; [reflexivity|]. apply Z.ltb_ge in L2. lia.
      * apply Z.ltb_ge in L1. destruct (n <? k + 1) eqn:L2; [apply Z.ltb_lt in L2; lia|].
        replace (Z.to_nat (n - k)) with (S (Z.to_nat (n - (k + 1)))) by lia. reflexivity.
Qed.

Theorem map_numbered_is_list : forall vs n, env_map (number_from 1 vs) n = env_list vs n.
Proof.
  intros vs n. rewrite env_map_number_from by lia. unfold env_list.
  destruct (n <? 1) eqn:L1; destruct (n <=? 0) eqn:L2; try reflexivity.
  - apply Z.ltb_lt in L1. apply Z.leb_gt in L2. lia.
  - apply Z.ltb_ge in L1. apply Z.leb_le in L2. lia.
Qed.

Theorem map_and_list_agree : forall vs q, subst_q (env_map (number_from 1 vs)) q = subst_q (env_list vs) q.
Proof. intros vs q. apply subst_only_bound_values_matter. intros n _. apply map_numbered_is_list. Qed.

(* ------------------------------------------------------------------ placeholders inside subqueries and in LIMIT / OFFSET *)
Theorem param_in_subquery : forall s n v neg op a a' sub sub' q0 q0' f d en,
  s n = Some v -> subst_e s a = Ok a' -> subst_q s sub = Ok sub' -> subst_q s q0 = Ok q0' ->
  peval_query f s d en (PQFilter (PInSub neg a (PQFilter (PCmp op (PCol 0 0) (PParam n)) sub)) q0)
  = eval_query f d en (QFilter (EInSub neg a' (QFilter (ECmp op (ECol 0 0) (ELit v)) sub')) q0').
Proof.
  intros s n v neg op a a' sub sub' q0 q0' f d en Hn Ha Hs Hq. symmetry. apply subst_lemma.
  cbn [subst_q subst_e]. unfold get_param. rewrite Hn, Ha, Hs, Hq. reflexivity.
Qed.

Theorem param_in_scalar_and_exists : forall s n v neg op sub sub' q0 q0' f d en,
  s n = Some v -> subst_q s sub = Ok sub' -> subst_q s q0 = Ok q0' ->
  peval_query f s d en (PQFilter (PAnd (PExists neg (PQFilter (PCmp op (PCol 0 0) (PParam n)) sub))
                                       (PCmp op (PScalar (PQProject [PParam n] sub)) (PParam n))) q0)
  = eval_query f d en (QFilter (EAnd (EExists neg (QFilter (ECmp op (ECol 0 0) (ELit v)) sub'))
                                     (ECmp op (EScalar (QProject [ELit v] sub')) (ELit v))) q0').
Proof.
  intros s n v neg op sub sub' q0 q0' f d en Hn Hs Hq. symmetry. apply subst_lemma.
  cbn [subst_q subst_e mapR]. unfold get_param. rewrite Hn, Hs, Hq. reflexivity.
Qed.

Theorem param_in_limit : forall s n m off lim q q' f d en,
  s n = Some (VInt off) -> 0 <= off -> s m = Some (VInt lim) -> 0 <= lim -> subst_q s q = Ok q' ->
  peval_query f s d en (PQLimit (LParam n) (Some (LParam m)) q) = eval_query f d en (QLimit off (Some lim) q').
Proof.
  intros s n m off lim q q' f d en Hn Ho Hm Hl Hq. symmetry. apply subst_lemma.
  cbn [subst_q larg_val olarg_val]. unfold get_param. rewrite Hn, Hm. cbn [bind].
  destruct (0 <=? off) eqn:E1; [|apply Z.leb_gt in E1; lia].
  destruct (0 <=? lim) eqn:E2; [|apply Z.leb_gt in E2; lia].
  cbn [bind]. rewrite Hq. reflexivity.
Qed.

(* a placeholder without a value fails the whole rewrite even where it would never be evaluated
   (replace_params_with_values is eager), e.g. in the ELSE branch of a CASE whose first WHEN is TRUE *)
Theorem unbound_param_fails_eagerly : forall s n q,
  s n = None ->
  subst_q s (PQProject [PCase [(PLit (VBool true), PLit (VInt 1))] (Some (PParam n))] q) = Err EScope.
Proof.
  intros s n q Hn. cbn [subst_q subst_e mapR bind]. unfold get_param. rewrite Hn. reflexivity.
Qed.
(* ... whereas the environment-passing evaluator never looks at it: the hypothesis of subst_lemma is necessary *)
Theorem unbound_param_lazy_in_spec : forall s n,
  prun_query s [] (PQProject [PCase [(PLit (VBool true), PLit (VInt 1))] (Some (PParam n))] (PQValues [[]])) = Ok [[VInt 1]].
Proof. intros s n. reflexivity. Qed.
