(* C47 -- proofs about Model/NumCoerce.v *)
From Coq Require Import ZArith Bool List Lia.
From DF Require Import Base.Prelude Model.NumCoerce.
Open Scope Z_scope.

(* ------------------------------------------------------------------ equality tests *)
Lemma ity_eqb_eq : forall a b, ity_eqb a b = true <-> a = b.
Proof. intros a b; split; [destruct a, b; cbn; congruence | intros ->; destruct b; reflexivity]. Qed.
Lemma fty_eqb_eq : forall a b, fty_eqb a b = true <-> a = b.
Proof. intros a b; split; [destruct a, b; cbn; congruence | intros ->; destruct b; reflexivity]. Qed.
Lemma dvar_eqb_eq : forall a b, dvar_eqb a b = true <-> a = b.
Proof. intros a b; split; [destruct a, b; cbn; congruence | intros ->; destruct b; reflexivity]. Qed.

Lemma nty_eqb_eq : forall a b, nty_eqb a b = true <-> a = b.
Proof.
  intros a b; split.
  - destruct a, b; cbn; try congruence.
    + intros H; apply ity_eqb_eq in H; congruence.
    + intros H; apply fty_eqb_eq in H; congruence.
    + intros H. apply andb_true_iff in H as [H H3]. apply andb_true_iff in H as [H1 H2].
      apply dvar_eqb_eq in H1. apply Z.eqb_eq in H2. apply Z.eqb_eq in H3. congruence.
  - intros ->. destruct b; cbn; trivial.
    + apply ity_eqb_eq; reflexivity.
    + apply fty_eqb_eq; reflexivity.
    + rewrite !Z.eqb_refl. replace (dvar_eqb v v) with true; [reflexivity|].
      symmetry; apply dvar_eqb_eq; reflexivity.
Qed.

Lemma nty_eqb_refl : forall a, nty_eqb a a = true.
Proof. intros; apply nty_eqb_eq; reflexivity. Qed.

Lemma nty_eqb_sym : forall a b, nty_eqb a b = nty_eqb b a.
Proof.
  intros a b. destruct (nty_eqb a b) eqn:E.
  - apply nty_eqb_eq in E; subst; symmetry; apply nty_eqb_refl.
  - destruct (nty_eqb b a) eqn:F; trivial. apply nty_eqb_eq in F; subst.
    rewrite nty_eqb_refl in E; discriminate.
Qed.

(* ------------------------------------------------------------------ symmetry of the coercion *)
Lemma wider_ps_sym : forall p1 s1 p2 s2, wider_ps p1 s1 p2 s2 = wider_ps p2 s2 p1 s1.
Proof.
  intros; unfold wider_ps.
  rewrite (Z.max_comm s1 s2), (Z.max_comm (wrap_i8 (wrap_i8 p1 - s1))); reflexivity.
Qed.

Lemma wider_ovf_sym : forall p1 s1 p2 s2, wider_ovf p1 s1 p2 s2 = wider_ovf p2 s2 p1 s1.
Proof.
  intros; unfold wider_ovf.
  rewrite (Z.max_comm s1 s2), (Z.max_comm (wrap_i8 (wrap_i8 p1 - s1))).
  destruct (fits_i8 (wrap_i8 p1 - s1)), (fits_i8 (wrap_i8 p2 - s2)); reflexivity.
Qed.

Lemma numerical_coercion_sym : forall l r, numerical_coercion l r = numerical_coercion r l.
Proof.
  intros l r.
  destruct l as [|[]|[]|[] ? ?], r as [|[]|[]|[] ? ?]; reflexivity.
Qed.

Lemma decimal_coercion_sym : forall l r, decimal_coercion l r = decimal_coercion r l.
Proof.
  intros l r.
  destruct l as [|i|f|v1 p1 s1], r as [|j|g|v2 p2 s2]; try reflexivity.
  unfold decimal_coercion, get_wider_decimal_type, get_wider_decimal_type_cross_variant.
  rewrite (wider_ps_sym p2 s2 p1 s1).
  destruct v1, v2; reflexivity.
Qed.

Lemma binary_numeric_coercion_sym : forall l r,
  nty_eqb l r = false -> binary_numeric_coercion l r = binary_numeric_coercion r l.
Proof.
  intros l r E. unfold binary_numeric_coercion.
  rewrite (nty_eqb_sym r l), E, (decimal_coercion_sym r l), (numerical_coercion_sym r l).
  destruct (is_numeric l), (is_numeric r); reflexivity.
Qed.

Lemma null_coercion_sym : forall l r, null_coercion l r = null_coercion r l.
Proof. intros l r; destruct l, r; reflexivity. Qed.

Theorem comparison_coercion_sym : forall a b, comparison_coercion a b = comparison_coercion b a.
Proof.
  intros a b. unfold comparison_coercion. rewrite (nty_eqb_sym b a).
  destruct (nty_eqb a b) eqn:E.
  - apply nty_eqb_eq in E; subst; reflexivity.
  - rewrite (binary_numeric_coercion_sym a b E), (null_coercion_sym a b). reflexivity.
Qed.

Theorem comparison_ovf_sym : forall a b, comparison_ovf a b = comparison_ovf b a.
Proof.
  intros a b. unfold comparison_ovf. rewrite (nty_eqb_sym b a).
  destruct (nty_eqb a b); trivial.
  destruct a as [|i|f|v1 p1 s1], b as [|j|g|v2 p2 s2]; try reflexivity.
  apply wider_ovf_sym.
Qed.

(* ------------------------------------------------------------------ comparison operators *)
Lemma zcmp_mirror : forall op x y, zcmp op x y = zcmp (mirror op) y x.
Proof. intros [] x y; cbn; trivial; rewrite Z.eqb_sym; reflexivity. Qed.

Theorem eval_cmp_swap_mirror : forall op ta x tb y,
  eval_cmp op ta x tb y = eval_cmp (mirror op) tb y ta x.
Proof.
  intros. unfold eval_cmp. rewrite (comparison_coercion_sym tb ta).
  destruct (comparison_coercion ta tb) as [t|]; trivial.
  destruct (exact_ty t); trivial.
  destruct (cast_val ta t x), (cast_val tb t y); trivial.
  rewrite zcmp_mirror; reflexivity.
Qed.

Theorem eval_ovf_sym : forall ta tb, eval_ovf ta tb = eval_ovf tb ta.
Proof.
  intros. unfold eval_ovf. rewrite (comparison_ovf_sym tb ta), (comparison_coercion_sym tb ta).
  destruct (comparison_coercion ta tb); trivial. rewrite (orb_comm (cast_ovf tb n)); reflexivity.
Qed.

(* ------------------------------------------------------------------ integers *)
(* c represents every value of a *)
Definition icontains (c a : ity) : bool := (ilo c <=? ilo a) && (ihi a <=? ihi c).

(* the two shapes of the coerced type of two integer types: an integer type containing both
   ranges, or Decimal128(20, 0) *)
Lemma int_coercion_shape : forall a b,
  (exists c, comparison_coercion (TInt a) (TInt b) = Some (TInt c) /\ icontains c a = true /\ icontains c b = true)
  \/ comparison_coercion (TInt a) (TInt b) = Some (TDec D128 20 0).
Proof.
  intros a b; destruct a, b;
    first [ right; reflexivity | left; eexists; split; [reflexivity | split; reflexivity] ].
Qed.

Lemma in_irange_bounds : forall i x, in_irange i x = true <-> ilo i <= x <= ihi i.
Proof. intros; unfold in_irange; rewrite andb_true_iff, !Z.leb_le; tauto. Qed.

Lemma ilo_ihi_global : forall i, -9223372036854775808 <= ilo i /\ ihi i <= 18446744073709551615.
Proof. intros []; cbn; lia. Qed.

Lemma cast_val_int_widen : forall a c x,
  in_irange a x = true -> icontains c a = true -> cast_val (TInt a) (TInt c) x = COk x.
Proof.
  intros a c x Hx Hc. unfold cast_val. destruct (nty_eqb (TInt a) (TInt c)); trivial.
  unfold cast_int_int. replace (in_irange c x) with true; trivial.
  symmetry. apply in_irange_bounds. apply in_irange_bounds in Hx.
  unfold icontains in Hc. apply andb_true_iff in Hc as [H1 H2]. apply Z.leb_le in H1, H2. lia.
Qed.

Lemma nat_half_128 : nat_half D128 = 170141183460469231731687303715884105728.
Proof. reflexivity. Qed.

(* the table in the model is 2^(bits-1) *)
Lemma nat_half_pow : forall v, nat_half v = 2 ^ (dbits v - 1).
Proof. intros []; reflexivity. Qed.

Lemma pow10_20 : 10 ^ 20 = 100000000000000000000.
Proof. reflexivity. Qed.

Lemma cast_val_int_dec20 : forall a x,
  in_irange a x = true -> cast_val (TInt a) (TDec D128 20 0) x = COk x.
Proof.
  intros a x Hx. apply in_irange_bounds in Hx. pose proof (ilo_ihi_global a) as G.
  unfold cast_val. cbn [nty_eqb]. unfold cast_int_dec.
  change (0 <? 0) with false. cbv iota.
  change (10 ^ 0) with 1. rewrite Z.mul_1_r.
  assert (N : in_native D128 x = true).
  { unfold in_native. rewrite nat_half_128. apply andb_true_iff; split; apply Z.leb_le; lia. }
  assert (W : wrap_native D128 x = x) by (unfold wrap_native; rewrite N; reflexivity).
  rewrite W.
  assert (N1 : in_native D128 1 = true) by reflexivity. rewrite N1. cbn [negb].
  rewrite N. cbn [negb].
  assert (P : prec_ok D128 20 x = true).
  { unfold prec_ok. rewrite pow10_20. apply andb_true_iff; split; [reflexivity|]. apply Z.leb_le. lia. }
  rewrite P. cbn [negb].
  assert (V : valid_dec D128 20 0 = true) by reflexivity. rewrite V. reflexivity.
Qed.

(* every value of both integer operand types is represented exactly in the coerced type *)
Theorem int_common_type_contains_both : forall a b x y,
  in_irange a x = true -> in_irange b y = true ->
  exists t, comparison_coercion (TInt a) (TInt b) = Some t /\ exact_ty t = true /\
            cast_val (TInt a) t x = COk x /\ cast_val (TInt b) t y = COk y.
Proof.
  intros a b x y Hx Hy.
  destruct (int_coercion_shape a b) as [[c (E & Ca & Cb)] | E].
  - exists (TInt c). repeat split; trivial; apply cast_val_int_widen; trivial.
  - exists (TDec D128 20 0). repeat split; trivial; apply cast_val_int_dec20; trivial.
Qed.

Theorem int_cmp_exact : forall a b x y op,
  in_irange a x = true -> in_irange b y = true ->
  eval_cmp op (TInt a) x (TInt b) y = EOk (zcmp op x y).
Proof.
  intros a b x y op Hx Hy.
  destruct (int_common_type_contains_both a b x y Hx Hy) as (t & E & Ex & Cx & Cy).
  unfold eval_cmp. rewrite E, Ex, Cx, Cy. reflexivity.
Qed.

Theorem int_cmp_never_panics : forall a b, eval_ovf (TInt a) (TInt b) = false.
Proof. intros a b; destruct a, b; reflexivity. Qed.

(* IN list over mixed integer types = exists an equal element *)
Theorem int_inlist_exact : forall a b x ys,
  in_irange a x = true -> Forall (fun y => in_irange b y = true) ys ->
  eval_inlist (TInt a) x (TInt b) ys = EOk (existsb (Z.eqb x) ys).
Proof.
  intros a b x ys Hx H. induction H as [|y ys Hy _ IH]; cbn; trivial.
  rewrite (int_cmp_exact a b x y OEq Hx Hy). unfold eval_inlist in IH. rewrite IH. reflexivity.
Qed.

(* ------------------------------------------------------------------ decimals *)
(* multiplying both sides by a positive constant does not change a comparison *)
Lemma zcmp_scale : forall op x y k, 0 < k -> zcmp op (x * k) (y * k) = zcmp op x y.
Proof.
  intros op x y k Hk.
  assert (E : (x * k =? y * k) = (x =? y)).
  { destruct (Z.eqb_spec x y) as [->|N]; [apply Z.eqb_refl|]. apply Z.eqb_neq. nia. }
  assert (L : forall u v, (u * k <? v * k) = (u <? v)).
  { intros u v. destruct (Z.ltb_spec u v); [apply Z.ltb_lt|apply Z.ltb_ge]; nia. }
  assert (M : forall u v, (u * k <=? v * k) = (u <=? v)).
  { intros u v. destruct (Z.leb_spec u v); [apply Z.leb_le|apply Z.leb_gt]; nia. }
  destruct op; cbn; rewrite ?E, ?L, ?M; reflexivity.
Qed.

Lemma wrap_i8_small : forall z, -128 <= z <= 127 -> wrap_i8 z = z.
Proof. intros z H. unfold wrap_i8. rewrite Z.mod_small; lia. Qed.

Lemma fits_i8_bounds : forall z, fits_i8 z = true <-> -128 <= z <= 127.
Proof. intros; unfold fits_i8; rewrite andb_true_iff, !Z.leb_le; tauto. Qed.

Lemma max_prec_bounds : forall v, 9 <= max_prec v <= 76.
Proof. intros []; cbn; lia. Qed.

(* 10^MAX_PRECISION fits the native integer of every decimal variant *)
Lemma pow_max_prec_native : forall v, 10 ^ max_prec v <= nat_half v - 1.
Proof. intros []; vm_compute; discriminate. Qed.

Lemma valid_dec_bounds : forall v p s,
  valid_dec v p s = true -> 1 <= p <= max_prec v /\ s <= max_prec v /\ (0 < s -> s <= p).
Proof.
  intros v p s H. unfold valid_dec in H.
  apply andb_true_iff in H as [H H4]. apply andb_true_iff in H as [H H3]. apply andb_true_iff in H as [H1 H2].
  apply Z.leb_le in H1, H2, H3. apply orb_true_iff in H4 as [H4|H4]; apply Z.leb_le in H4; lia.
Qed.

Lemma in_native_bounds : forall v z, in_native v z = true <-> - nat_half v <= z <= nat_half v - 1.
Proof. intros; unfold in_native; rewrite andb_true_iff, !Z.leb_le; tauto. Qed.

Lemma wrap_native_small : forall v z, in_native v z = true -> wrap_native v z = z.
Proof. intros v z H. unfold wrap_native. rewrite H. reflexivity. Qed.

Lemma wrap_native_spec : forall v z,
  wrap_native v z = (z + nat_half v) mod (2 * nat_half v) - nat_half v.
Proof.
  intros v z. unfold wrap_native. destruct (in_native v z) eqn:H; trivial.
  apply in_native_bounds in H.
  assert (0 < nat_half v) by (destruct v; reflexivity).
  rewrite Z.mod_small; lia.
Qed.

(* the integer types a decimal variant is wide enough for: both bounds fit its native integer *)
Definition int_fits (v : dvar) (t : nty) : bool :=
  match t with
  | TInt i => in_native v (ilo i) && in_native v (ihi i)
  | _ => true
  end.

Lemma int_fits_wrap : forall v i x,
  int_fits v (TInt i) = true -> in_irange i x = true -> wrap_native v x = x.
Proof.
  intros v i x F R. apply wrap_native_small. cbn in F. apply andb_true_iff in F as [F1 F2].
  apply in_native_bounds in F1, F2. apply in_irange_bounds in R. apply in_native_bounds. lia.
Qed.

(* A successful cast into a decimal type of at least the source's scale multiplies the unscaled
   value by the right power of ten -- EXACT (or it fails); needs the absence of the i8 overflow
   inside arrow's make_upscaler ([cast_ovf] = false). *)
Lemma cast_to_dec_exact : forall ta v p s x x',
  ty_ok ta = true -> val_ok ta x = true -> int_fits v ta = true ->
  scale_of ta <= s ->
  cast_ovf ta (TDec v p s) = false ->
  cast_val ta (TDec v p s) x = COk x' ->
  x' = x * 10 ^ (s - scale_of ta).
Proof.
  intros ta v p s x x' Hty Hval Hfit Hs Hovf Hc.
  unfold cast_val, cast_ovf in *.
  destruct (nty_eqb ta (TDec v p s)) eqn:E.
  { apply nty_eqb_eq in E; subst ta. cbn. rewrite Z.sub_diag. cbn. injection Hc as <-. lia. }
  destruct ta as [|i|f|v1 p1 s1]; try discriminate.
  - (* integer -> decimal *)
    cbn [scale_of] in *. rewrite Z.sub_0_r.
    unfold cast_int_dec in Hc.
    destruct (s <? 0); [discriminate|].
    destruct (negb (in_native v (10 ^ s))); [discriminate|].
    cbn [val_ok] in Hval. rewrite (int_fits_wrap v i x Hfit Hval) in Hc.
    destruct (negb (in_native v (x * 10 ^ s))); [discriminate|].
    destruct (negb (prec_ok v p (x * 10 ^ s))); [discriminate|].
    destruct (negb (valid_dec v p s)); [discriminate|]. congruence.
  - (* decimal -> decimal *)
    cbn [scale_of ty_ok val_ok] in *.
    apply andb_true_iff in Hty as [Hv1 Hs1]. apply Z.leb_le in Hs1.
    apply valid_dec_bounds in Hv1 as (Hp1 & Hs1m & Hs1p).
    apply Z.leb_le in Hval.
    unfold cast_dec_dec in Hc. unfold cast_dec_dec_ovf in Hovf.
    destruct (dvar_eqb v1 v && (s1 =? s) && (p1 <=? p)) eqn:Same.
    { apply andb_true_iff in Same as [Same _]. apply andb_true_iff in Same as [_ Same].
      apply Z.eqb_eq in Same; subst s1. rewrite Z.sub_diag. cbn.
      destruct (valid_dec v p s); [|discriminate]. injection Hc as <-. lia. }
    destruct (s1 <=? s) eqn:Le; [|apply Z.leb_gt in Le; lia].
    apply orb_false_iff in Hovf as [O1 O2].
    apply negb_false_iff in O1. apply fits_i8_bounds in O1.
    rewrite (wrap_i8_small (s - s1) O1) in *.
    destruct ((s - s1 <? 0) || (max_prec v <? s - s1)) eqn:Tab; [discriminate|].
    apply orb_false_iff in Tab as [T1 T2]. apply Z.ltb_ge in T1, T2.
    cbn [negb andb] in O2. apply negb_false_iff in O2. apply fits_i8_bounds in O2.
    pose proof (max_prec_bounds v1) as B1. pose proof (max_prec_bounds v) as B.
    rewrite (wrap_i8_small p1) in * by lia.
    rewrite (wrap_i8_small (p1 + (s - s1)) O2) in Hc.
    destruct (p1 + (s - s1) <=? wrap_i8 p) eqn:Inf.
    all: try (destruct (negb (in_native v x)); [discriminate|];
              destruct (negb (in_native v (x * 10 ^ (s - s1)))); [discriminate|];
              destruct (negb (prec_ok v p (x * 10 ^ (s - s1)))); [discriminate|];
              destruct (negb (valid_dec v p s)); [discriminate|]; congruence).
    all: destruct (negb (in_native v x)); [discriminate|].
    all: destruct (valid_dec v p s) eqn:V; [|discriminate].
    all: apply valid_dec_bounds in V as (Vp & _ & _).
    all: rewrite (wrap_i8_small p) in Inf by lia.
    all: apply Z.leb_le in Inf.
    all: injection Hc as <-.
    all: apply wrap_native_small; apply in_native_bounds.
    all: pose proof (pow_max_prec_native v) as PN.
    all: assert (Hpow : 10 ^ p1 * 10 ^ (s - s1) <= 10 ^ max_prec v)
           by (rewrite <- Z.pow_add_r by lia; apply Z.pow_le_mono_r; lia).
    all: assert (0 < 10 ^ (s - s1)) by (apply Z.pow_pos_nonneg; lia).
    all: assert (0 < 10 ^ p1) by (apply Z.pow_pos_nonneg; lia).
    all: nia.
Qed.

(* ------------------------------------------------------------------ shape of a decimal coerced type *)
Lemma ty_ok_dec : forall v p s, ty_ok (TDec v p s) = true ->
  1 <= p <= max_prec v /\ 0 <= s <= max_prec v.
Proof.
  intros v p s H. cbn in H. apply andb_true_iff in H as [H1 H2]. apply Z.leb_le in H2.
  apply valid_dec_bounds in H1. lia.
Qed.

Lemma coerced_dec_shape_dec_int : forall v1 p1 s1 j v p s,
  ty_ok (TDec v1 p1 s1) = true ->
  comparison_coercion (TDec v1 p1 s1) (TInt j) = Some (TDec v p s) ->
  s = Z.max s1 0 /\ int_fits v (TInt j) = true.
Proof.
  intros v1 p1 s1 j v p s Hty H. apply ty_ok_dec in Hty.
  unfold comparison_coercion, binary_numeric_coercion in H. cbn [nty_eqb is_numeric negb orb] in H.
  destruct v1, j; cbn in H; cbv [wider_ps] in H; cbv beta iota in H;
    try discriminate; injection H as <- <- <-; cbn [max_prec] in *; (split; [lia | reflexivity]).
Qed.

Lemma coerced_dec_shape_dec_dec : forall v1 p1 s1 v2 p2 s2 v p s,
  ty_ok (TDec v1 p1 s1) = true -> ty_ok (TDec v2 p2 s2) = true ->
  comparison_coercion (TDec v1 p1 s1) (TDec v2 p2 s2) = Some (TDec v p s) ->
  s = Z.max s1 s2.
Proof.
  intros v1 p1 s1 v2 p2 s2 v p s H1 H2 H. apply ty_ok_dec in H1, H2.
  unfold comparison_coercion in H.
  destruct (nty_eqb (TDec v1 p1 s1) (TDec v2 p2 s2)) eqn:E.
  { apply nty_eqb_eq in E. injection E as -> -> ->. injection H as <- <- <-. lia. }
  unfold binary_numeric_coercion in H. rewrite E in H. cbn [is_numeric negb orb] in H.
  destruct v1, v2; cbn in H; cbv [wider_ps] in H; cbv beta iota in H;
    repeat match type of H with
           | context [if ?c then _ else _] => destruct c
           end;
    try discriminate; injection H as <- <- <-; cbn [max_prec] in *; lia.
Qed.

Lemma coerced_dec_shape_int_int : forall i j v p s,
  comparison_coercion (TInt i) (TInt j) = Some (TDec v p s) ->
  s = 0 /\ int_fits v (TInt i) = true /\ int_fits v (TInt j) = true.
Proof.
  intros i j v p s H. destruct i, j; cbn in H; try discriminate; injection H as <- <- <-;
    repeat split; reflexivity.
Qed.

Lemma coerced_dec_shape : forall ta tb v p s,
  ty_ok ta = true -> ty_ok tb = true ->
  comparison_coercion ta tb = Some (TDec v p s) ->
  s = Z.max (scale_of ta) (scale_of tb) /\ int_fits v ta = true /\ int_fits v tb = true.
Proof.
  intros ta tb v p s Ha Hb H.
  destruct ta as [|i|f|v1 p1 s1], tb as [|j|g|v2 p2 s2]; try discriminate; cbn [scale_of int_fits].
  - apply coerced_dec_shape_int_int in H as (-> & F1 & F2). cbn [int_fits] in *. auto.
  - rewrite comparison_coercion_sym in H.
    apply coerced_dec_shape_dec_int in H as [-> F]; trivial. cbn [int_fits] in F. rewrite Z.max_comm. auto.
  - apply coerced_dec_shape_dec_int in H as [-> F]; trivial. cbn [int_fits] in F. auto.
  - apply coerced_dec_shape_dec_dec in H; auto.
Qed.

(* Decimals: whenever the operands are coerced to a DECIMAL type and the evaluation produces a
   truth value, it is the comparison of the two rationals x/10^sa and y/10^sb. *)
Theorem dec_cmp_exact_or_error : forall ta tb x y op t r,
  ty_ok ta = true -> ty_ok tb = true -> val_ok ta x = true -> val_ok tb y = true ->
  comparison_coercion ta tb = Some t -> is_decimal t = true ->
  eval_ovf ta tb = false ->
  eval_cmp op ta x tb y = EOk r ->
  r = spec_cmp op ta x tb y.
Proof.
  intros ta tb x y op t r Ha Hb Hx Hy Hc Hd Ho He.
  destruct t as [| | |v p s]; try discriminate.
  destruct (coerced_dec_shape ta tb v p s Ha Hb Hc) as (Hs & Fa & Fb).
  unfold eval_ovf in Ho. rewrite Hc in Ho.
  apply orb_false_iff in Ho as [_ Ho]. apply orb_false_iff in Ho as [Oa Ob].
  unfold eval_cmp in He. rewrite Hc in He. cbn [exact_ty] in He.
  destruct (cast_val ta (TDec v p s) x) as [x'| |] eqn:Cx; try discriminate;
    destruct (cast_val tb (TDec v p s) y) as [y'| |] eqn:Cy; try discriminate.
  injection He as <-.
  assert (Sa : 0 <= scale_of ta).
  { destruct ta; cbn; try lia. apply ty_ok_dec in Ha. lia. }
  assert (Sb : 0 <= scale_of tb).
  { destruct tb; cbn; try lia. apply ty_ok_dec in Hb. lia. }
  apply cast_to_dec_exact in Cx; trivial; [|lia].
  apply cast_to_dec_exact in Cy; trivial; [|lia].
  unfold spec_cmp. subst x' y'.
  set (sa := scale_of ta) in *. set (sb := scale_of tb) in *.
  assert (K : 0 < 10 ^ (sa + sb - s)) by (apply Z.pow_pos_nonneg; lia).
  rewrite <- (zcmp_scale op (x * 10 ^ (s - sa)) (y * 10 ^ (s - sb)) _ K).
  rewrite <- !Z.mul_assoc, <- !Z.pow_add_r by lia.
  replace (s - sa + (sa + sb - s)) with sb by lia.
  replace (s - sb + (sa + sb - s)) with sa by lia.
  reflexivity.
Qed.

(* the i8 overflows (debug panic / release wrap) need a Decimal256 operand *)
Lemma ty_ok_dec_small : forall v p s, ty_ok (TDec v p s) = true -> not256 (TDec v p s) = true ->
  1 <= p <= 38 /\ 0 <= s <= 38.
Proof.
  intros v p s H N. apply ty_ok_dec in H. destruct v; cbn in *; try discriminate; lia.
Qed.

Lemma wider_ovf_small : forall p1 s1 p2 s2,
  1 <= p1 <= 38 -> 0 <= s1 <= 38 -> 1 <= p2 <= 38 -> 0 <= s2 <= 38 -> wider_ovf p1 s1 p2 s2 = false.
Proof.
  intros. unfold wider_ovf. rewrite !(wrap_i8_small p1), !(wrap_i8_small p2) by lia.
  rewrite !(wrap_i8_small (p1 - s1)), !(wrap_i8_small (p2 - s2)) by lia.
  replace (fits_i8 (p1 - s1)) with true by (symmetry; apply fits_i8_bounds; lia).
  replace (fits_i8 (p2 - s2)) with true by (symmetry; apply fits_i8_bounds; lia).
  replace (fits_i8 (Z.max (p1 - s1) (p2 - s2) + Z.max s1 s2)) with true by (symmetry; apply fits_i8_bounds; lia).
  reflexivity.
Qed.

Lemma comparison_ovf_small : forall ta tb,
  ty_ok ta = true -> ty_ok tb = true -> not256 ta = true -> not256 tb = true ->
  comparison_ovf ta tb = false.
Proof.
  assert (DI : forall v1 p1 s1 j, ty_ok (TDec v1 p1 s1) = true -> not256 (TDec v1 p1 s1) = true ->
            match coerce_numeric_type_to_decimal v1 (TInt j) with
            | Some (TDec _ p2 s2) => wider_ovf p1 s1 p2 s2
            | _ => false
            end = false).
  { intros v1 p1 s1 j H N. pose proof (ty_ok_dec_small _ _ _ H N).
    destruct v1, j; cbn; trivial; try discriminate; apply wider_ovf_small; lia. }
  intros ta tb Ha Hb Na Nb. unfold comparison_ovf.
  destruct (nty_eqb ta tb); trivial.
  destruct ta as [|i|f|v1 p1 s1], tb as [|j|g|v2 p2 s2]; try discriminate; trivial.
  - apply DI; trivial.
  - apply DI; trivial.
  - pose proof (ty_ok_dec_small _ _ _ Ha Na). pose proof (ty_ok_dec_small _ _ _ Hb Nb).
    apply wider_ovf_small; lia.
Qed.

Lemma cast_ovf_small : forall ta v p s,
  ty_ok ta = true -> not256 ta = true -> scale_of ta <= s <= 38 ->
  cast_ovf ta (TDec v p s) = false.
Proof.
  intros ta v p s Ha Na Hs. unfold cast_ovf. destruct (nty_eqb ta (TDec v p s)); trivial.
  destruct ta as [|i|f|v1 p1 s1]; trivial.
  pose proof (ty_ok_dec_small _ _ _ Ha Na). cbn [scale_of] in Hs.
  unfold cast_dec_dec_ovf.
  destruct (dvar_eqb v1 v && (s1 =? s) && (p1 <=? p)); trivial.
  destruct (s1 <=? s); trivial.
  rewrite (wrap_i8_small (s - s1)), (wrap_i8_small p1) by lia.
  replace (fits_i8 (s - s1)) with true by (symmetry; apply fits_i8_bounds; lia).
  replace (fits_i8 (p1 + (s - s1))) with true by (symmetry; apply fits_i8_bounds; lia).
  cbn [negb orb]. apply andb_false_r.
Qed.

Theorem no_ovf_below_256 : forall ta tb,
  ty_ok ta = true -> ty_ok tb = true -> not256 ta = true -> not256 tb = true ->
  eval_ovf ta tb = false.
Proof.
  intros ta tb Ha Hb Na Nb. unfold eval_ovf. rewrite comparison_ovf_small by trivial. cbn [orb].
  destruct (comparison_coercion ta tb) as [t|] eqn:C; trivial.
  destruct t as [|k|g|v p s].
  1-3: unfold cast_ovf; destruct (nty_eqb ta _), (nty_eqb tb _), ta, tb; reflexivity.
  destruct (coerced_dec_shape ta tb v p s Ha Hb C) as (Hs & _ & _).
  assert (Sa : 0 <= scale_of ta <= 38).
  { destruct ta; cbn; try lia. pose proof (ty_ok_dec_small _ _ _ Ha Na). lia. }
  assert (Sb : 0 <= scale_of tb <= 38).
  { destruct tb; cbn; try lia. pose proof (ty_ok_dec_small _ _ _ Hb Nb). lia. }
  rewrite !cast_ovf_small by (trivial; lia). reflexivity.
Qed.
