(* C44 -- proofs about the schema-adaptation model (Model/SchemaAdapt.v). *)
From DF Require Import Base.Prelude Model.SchemaAdapt.
From Coq Require Import Lia.
Open Scope Z_scope.

(* ---------- basics ---------- *)
Lemma zlist_eqb_true : forall a b, zlist_eqb a b = true <-> a = b.
Proof.
  unfold zlist_eqb. induction a as [|x a IH]; destruct b as [|y b]; cbn [list_eqb]; split; intro H;
    try reflexivity; try discriminate.
  - apply andb_true_iff in H. destruct H as [H1 H2]. apply Z.eqb_eq in H1. apply IH in H2. congruence.
  - inversion H; subst. apply andb_true_iff. split; [apply Z.eqb_refl | apply IH; reflexivity].
Qed.

Lemma zlist_eqb_refl : forall a, zlist_eqb a a = true.
Proof. intro a. apply zlist_eqb_true. reflexivity. Qed.

Lemma ty_eqb_true : forall a b, ty_eqb a b = true <-> a = b.
Proof. destruct a, b; cbn; split; intro H; try reflexivity; try discriminate. Qed.

Lemma field_eqb_ty : forall a b, field_eqb a b = true -> fty a = fty b.
Proof.
  intros a b H. unfold field_eqb in H. apply andb_true_iff in H. destruct H as [H _].
  apply andb_true_iff in H. destruct H as [_ H]. apply ty_eqb_true in H. exact H.
Qed.

Lemma cast_same : forall t v, has_ty t v = true -> cast_value t v = Some v.
Proof. intros t v H. destruct v, t; cbn in *; try discriminate; reflexivity. Qed.

Lemma row_typed_nth : forall s r j f v,
  row_typed s r = true -> nth_error s j = Some f -> nth_error r j = Some v -> has_ty (fty f) v = true.
Proof.
  induction s as [|f0 s IH]; intros r j f v HT HS HR.
  - destruct j; discriminate.
  - destruct r as [|v0 r]; [discriminate|]. cbn [row_typed] in HT. apply andb_true_iff in HT. destruct HT as [H0 HT].
    destruct j as [|j]; cbn [nth_error] in *.
    + inversion HS; inversion HR; subst. exact H0.
    + eapply IH; eauto.
Qed.

(* ---------- find_field ---------- *)
Lemma find_from_sound : forall n s k i f,
  find_from n s k = Some (i, f) ->
  exists j, i = (k + j)%nat /\ nth_error s j = Some f /\ fname f = n.
Proof.
  induction s as [|f0 s IH]; intros k i f H; cbn [find_from] in H; [discriminate|].
  destruct (zlist_eqb (fname f0) n) eqn:E.
  - inversion H; subst. exists 0%nat. split; [lia|]. split; [reflexivity|]. apply zlist_eqb_true; exact E.
  - apply IH in H. destruct H as [j [H1 [H2 H3]]]. exists (S j). split; [lia|]. split; assumption.
Qed.

Lemma find_field_sound : forall n s i f,
  find_field n s = Some (i, f) -> nth_error s i = Some f /\ fname f = n.
Proof.
  intros n s i f H. apply find_from_sound in H. destruct H as [j [H1 [H2 H3]]].
  replace i with j by lia. split; assumption.
Qed.

Lemma find_from_nodup : forall s k i f,
  NoDup (map fname s) -> nth_error s i = Some f -> find_from (fname f) s k = Some ((k + i)%nat, f).
Proof.
  induction s as [|f0 s IH]; intros k i f ND HN; [destruct i; discriminate|].
  cbn [map] in ND. inversion ND as [|x l Hnotin ND']; subst.
  cbn [find_from]. destruct i as [|i]; cbn [nth_error] in HN.
  - inversion HN; subst. rewrite zlist_eqb_refl. f_equal. f_equal. lia.
  - destruct (zlist_eqb (fname f0) (fname f)) eqn:E.
    + exfalso. apply zlist_eqb_true in E. apply Hnotin. rewrite E. apply in_map. eapply nth_error_In; eauto.
    + rewrite (IH (S k) i f ND' HN). f_equal. f_equal. lia.
Qed.

Lemma find_field_nodup : forall s i f,
  NoDup (map fname s) -> nth_error s i = Some f -> find_field (fname f) s = Some (i, f).
Proof. intros. unfold find_field. rewrite (find_from_nodup s 0%nat i f) by assumption. reflexivity. Qed.

(* ---------- mapM ---------- *)
Lemma mapM_nth : forall {A B} (f : A -> option B) l l' i x,
  mapM f l = Some l' -> nth_error l i = Some x -> exists y, f x = Some y /\ nth_error l' i = Some y.
Proof.
  induction l as [|a l IH]; intros l' i x H HN; [destruct i; discriminate|].
  cbn [mapM] in H. destruct (f a) as [y|] eqn:Ea; [|discriminate].
  destruct (mapM f l) as [ys|] eqn:El; [|discriminate]. inversion H; subst.
  destruct i as [|i]; cbn [nth_error] in *.
  - inversion HN; subst. exists y. split; [assumption|reflexivity].
  - eapply IH; eauto.
Qed.

Lemma mapM_length : forall {A B} (f : A -> option B) l l', mapM f l = Some l' -> length l' = length l.
Proof.
  induction l as [|a l IH]; intros l' H; cbn [mapM] in H.
  - inversion H; reflexivity.
  - destruct (f a); [|discriminate]. destruct (mapM f l) eqn:E; [|discriminate]. inversion H; subst.
    cbn [length]. f_equal. apply IH. reflexivity.
Qed.

Lemma mapM_all_nth : forall {A B} (h : A -> option B) l l',
  length l = length l' -> (forall i x, nth_error l i = Some x -> h x = nth_error l' i) -> mapM h l = Some l'.
Proof.
  induction l as [|a l IH]; intros l' HL H; destruct l' as [|b l']; try discriminate; [reflexivity|].
  cbn [mapM]. rewrite (H 0%nat a eq_refl). cbn [nth_error].
  rewrite (IH l'); [reflexivity| cbn [length] in HL; lia |].
  intros i x Hi. apply (H (S i) x Hi).
Qed.

Lemma mapM_ext_in : forall {A B} (g h : A -> option B) l,
  (forall x, In x l -> g x = h x) -> mapM g l = mapM h l.
Proof.
  induction l as [|a l IH]; intro H; [reflexivity|]. cbn [mapM].
  rewrite (H a (or_introl eq_refl)). rewrite IH; [reflexivity|]. intros x Hx. apply H. right; exact Hx.
Qed.

(* ---------- the adapted row, column by column ---------- *)
Lemma adapt_row_nth : forall tbl file r r' i tf,
  adapt_row tbl file r = Some r' -> nth_error tbl i = Some tf ->
  exists v, adapt_col file r tf = Some v /\ nth_error r' i = Some v.
Proof. intros. eapply mapM_nth; eauto. Qed.

(* each table column is the cast of the same-named file column, or NULL *)
Lemma adapt_by_name : forall tbl file r r' i tf,
  adapt_row tbl file r = Some r' -> nth_error tbl i = Some tf ->
  match find_field (fname tf) file with
  | None => fnullable tf = true /\ nth_error r' i = Some VNull
  | Some (j, pf) =>
      exists v w, nth_error r j = Some v /\ nth_error r' i = Some w /\
        (if ty_eqb (fty pf) (fty tf) then w = v else cast_value (fty tf) v = Some w)
  end.
Proof.
  intros tbl file r r' i tf HA HN. destruct (adapt_row_nth _ _ _ _ _ _ HA HN) as [w [HC HR]].
  unfold adapt_col in HC. destruct (find_field (fname tf) file) as [[j pf]|].
  - destruct (nth_error r j) as [v|]; [|discriminate]. cbn [bind] in HC.
    exists v, w. split; [reflexivity|]. split; [exact HR|].
    destruct (ty_eqb (fty pf) (fty tf)); congruence.
  - destruct (fnullable tf); [|discriminate]. inversion HC; subst. split; [reflexivity|exact HR].
Qed.

Lemma missing_column_is_null : forall tbl file r r' i tf,
  adapt_row tbl file r = Some r' -> nth_error tbl i = Some tf ->
  find_field (fname tf) file = None -> nth_error r' i = Some VNull.
Proof.
  intros tbl file r r' i tf HA HN HF. pose proof (adapt_by_name _ _ _ _ _ _ HA HN) as H.
  rewrite HF in H. apply H.
Qed.

(* a schema pair for which no adapter can be built adapts no row *)
Lemma unadaptable_fails : forall tbl file r, adaptable tbl file = false -> adapt_row tbl file r = None.
Proof.
  intros tbl file r. unfold adaptable, adapt_row. induction tbl as [|tf tbl IH]; cbn [forallb mapM]; intro H; [discriminate|].
  apply andb_false_iff in H. destruct H as [H|H].
  - unfold adapt_col. destruct (find_field (fname tf) file); [discriminate|]. rewrite H. reflexivity.
  - rewrite (IH H). destruct (adapt_col file r tf); reflexivity.
Qed.

(* ---------- rewriting commutes with adaptation ---------- *)
Lemma rewrite_col_commutes : forall tbl file n i e' r r',
  wf_expr tbl (ECol n i) = true -> rewrite_col tbl file n = Some e' ->
  row_typed file r = true -> adapt_row tbl file r = Some r' ->
  eval e' r = nth_error r' i.
Proof.
  intros tbl file n i e' r r' HW HRw HT HA. cbn [wf_expr] in HW.
  destruct (find_field n tbl) as [[i0 lf]|] eqn:EF; [|discriminate].
  apply Nat.eqb_eq in HW. subst i0. destruct (find_field_sound _ _ _ _ EF) as [HN Hname].
  destruct (adapt_row_nth _ _ _ _ _ _ HA HN) as [w [HC HR]]. rewrite HR.
  unfold rewrite_col in HRw. rewrite EF in HRw. unfold adapt_col in HC. rewrite Hname in HC.
  destruct (find_field n file) as [[j pf]|] eqn:EP.
  - destruct (find_field_sound _ _ _ _ EP) as [HPN _].
    destruct (nth_error r j) as [v|] eqn:EV; [|discriminate]. cbn [bind] in HC.
    pose proof (row_typed_nth _ _ _ _ _ HT HPN EV) as Hty.
    destruct (field_eqb lf pf) eqn:EQ.
    + inversion HRw; subst. cbn [eval]. rewrite EV.
      apply field_eqb_ty in EQ. assert (E : ty_eqb (fty pf) (fty lf) = true) by (apply ty_eqb_true; congruence).
      rewrite E in HC. congruence.
    + unfold castable in HRw. inversion HRw; subst. cbn [eval]. rewrite EV. cbn [bind].
      destruct (ty_eqb (fty pf) (fty lf)) eqn:E.
      * apply ty_eqb_true in E. rewrite <- E. rewrite (cast_same _ _ Hty). congruence.
      * congruence.
  - destruct (fnullable lf); [|discriminate]. inversion HRw; inversion HC; subst. reflexivity.
Qed.

Lemma lift2_some : forall c a b e, lift2 c a b = Some e -> exists x y, a = Some x /\ b = Some y /\ e = c x y.
Proof. intros c a b e H. destruct a, b; cbn in H; try discriminate. inversion H. eauto. Qed.

Lemma option_map_some : forall {A B} (g : A -> B) a e, option_map g a = Some e -> exists x, a = Some x /\ e = g x.
Proof. intros A B g a e H. destruct a; cbn in H; [inversion H; eauto|discriminate]. Qed.

Theorem rewrite_commutes : forall tbl file e e' r r',
  wf_expr tbl e = true -> rewrite tbl file e = Some e' ->
  row_typed file r = true -> adapt_row tbl file r = Some r' ->
  eval e' r = eval e r'.
Proof.
  intros tbl file e. induction e; intros e' r r' HW HR HT HA; cbn [rewrite] in HR.
  - cbn [eval]. eapply rewrite_col_commutes; eauto.
  - inversion HR; reflexivity.
  - cbn [wf_expr] in HW. apply option_map_some in HR. destruct HR as [x [H1 H2]]. subst. cbn [eval]. rewrite (IHe x r r' HW H1 HT HA). reflexivity.
  - apply lift2_some in HR. destruct HR as [x [y [H1 [H2 H3]]]]. subst. cbn [wf_expr] in HW. apply andb_true_iff in HW. destruct HW as [W1 W2].
    cbn [eval]. rewrite (IHe1 x r r' W1 H1 HT HA), (IHe2 y r r' W2 H2 HT HA). reflexivity.
  - apply lift2_some in HR. destruct HR as [x [y [H1 [H2 H3]]]]. subst. cbn [wf_expr] in HW. apply andb_true_iff in HW. destruct HW as [W1 W2].
    cbn [eval]. rewrite (IHe1 x r r' W1 H1 HT HA), (IHe2 y r r' W2 H2 HT HA). reflexivity.
  - apply lift2_some in HR. destruct HR as [x [y [H1 [H2 H3]]]]. subst. cbn [wf_expr] in HW. apply andb_true_iff in HW. destruct HW as [W1 W2].
    cbn [eval]. rewrite (IHe1 x r r' W1 H1 HT HA), (IHe2 y r r' W2 H2 HT HA). reflexivity.
  - cbn [wf_expr] in HW. apply option_map_some in HR. destruct HR as [x [H1 H2]]. subst. cbn [eval]. rewrite (IHe x r r' HW H1 HT HA). reflexivity.
  - cbn [wf_expr] in HW. apply option_map_some in HR. destruct HR as [x [H1 H2]]. subst. cbn [eval]. rewrite (IHe x r r' HW H1 HT HA). reflexivity.
  - cbn [wf_expr] in HW. apply option_map_some in HR. destruct HR as [x [H1 H2]]. subst. cbn [eval]. rewrite (IHe x r r' HW H1 HT HA). reflexivity.
Qed.

Theorem filter_commutes : forall tbl file p p' r r',
  wf_expr tbl p = true -> rewrite tbl file p = Some p' ->
  row_typed file r = true -> adapt_row tbl file r = Some r' ->
  selects p' r = selects p r'.
Proof. intros. unfold selects. erewrite rewrite_commutes; eauto. Qed.

Theorem pushdown_equals_postfilter : forall tbl file p p' rows rows',
  wf_expr tbl p = true -> rewrite tbl file p = Some p' ->
  forallb (row_typed file) rows = true ->
  adapt_batch tbl file rows = Some rows' ->
  adapt_batch tbl file (filter (selects p') rows) = Some (filter (selects p) rows').
Proof.
  intros tbl file p p' rows. induction rows as [|r rows IH]; intros rows' HW HR HT HA.
  - inversion HA; reflexivity.
  - unfold adapt_batch in *. cbn [mapM] in HA. cbn [forallb] in HT. apply andb_true_iff in HT. destruct HT as [HT1 HT2].
    destruct (adapt_row tbl file r) as [r'|] eqn:Er; [|discriminate].
    destruct (mapM (adapt_row tbl file) rows) as [rs'|] eqn:Ers; [|discriminate]. inversion HA; subst.
    cbn [filter]. rewrite (filter_commutes tbl file p p' r r' HW HR HT1 Er).
    destruct (selects p r').
    + cbn [mapM]. rewrite Er. rewrite (IH rs' HW HR HT2 eq_refl). reflexivity.
    + apply IH; auto.
Qed.

(* projections: a list of expressions over the table schema *)
Theorem adapt_projection_commutes : forall tbl file es es' r r',
  forallb (wf_expr tbl) es = true -> mapM (rewrite tbl file) es = Some es' ->
  row_typed file r = true -> adapt_row tbl file r = Some r' ->
  mapM (fun e' => eval e' r) es' = mapM (fun e => eval e r') es.
Proof.
  intros tbl file es. induction es as [|e es IH]; intros es' r r' HW HR HT HA; cbn [mapM] in HR.
  - inversion HR; reflexivity.
  - cbn [forallb] in HW. apply andb_true_iff in HW. destruct HW as [HW1 HW2].
    destruct (rewrite tbl file e) as [e'|] eqn:Ee; [|discriminate].
    destruct (mapM (rewrite tbl file) es) as [es0|] eqn:Ees; [|discriminate]. inversion HR; subst.
    cbn [mapM]. rewrite (rewrite_commutes tbl file e e' r r' HW1 Ee HT HA). rewrite (IH es0 r r' HW2 eq_refl HT HA).
    reflexivity.
Qed.

(* ---------- the batch adapter implements the specification ---------- *)
Lemma cols_from_in : forall s k fe, In fe (cols_from s k) -> In (fst fe) s /\ exists i, snd fe = ECol (fname (fst fe)) i.
Proof.
  induction s as [|f s IH]; intros k fe H; cbn [cols_from] in H; [contradiction|].
  destruct H as [H|H].
  - subst. cbn. split; [left; reflexivity| eauto].
  - apply IH in H. destruct H as [H1 H2]. split; [right; exact H1 | exact H2].
Qed.

Lemma mapM_cols_from : forall (g : field * expr -> option value) (h : field -> option value) s k,
  (forall f i, In f s -> g (f, ECol (fname f) i) = h f) -> mapM g (cols_from s k) = mapM h s.
Proof.
  induction s as [|f s IH]; intros k H; [reflexivity|]. cbn [cols_from mapM].
  rewrite (H f k (or_introl eq_refl)). rewrite (IH (S k)); [reflexivity|]. intros. apply H. right; assumption.
Qed.

Theorem batch_adapter_eq_spec : forall tbl file r,
  NoDup (map fname tbl) -> row_typed file r = true ->
  batch_adapter_row tbl file r = adapt_row tbl file r.
Proof.
  intros tbl file r ND HT. unfold batch_adapter_row, adapt_row. apply mapM_cols_from.
  intros f i HIn. cbn [fst snd rewrite]. apply In_nth_error in HIn. destruct HIn as [k Hk].
  unfold rewrite_col, adapt_col. rewrite (find_field_nodup tbl k f ND Hk).
  destruct (find_field (fname f) file) as [[j pf]|] eqn:EP.
  - destruct (find_field_sound _ _ _ _ EP) as [HPN _].
    destruct (field_eqb f pf) eqn:EQ.
    + cbn [bind eval]. apply field_eqb_ty in EQ.
      assert (E : ty_eqb (fty pf) (fty f) = true) by (apply ty_eqb_true; congruence). rewrite E.
      destruct (nth_error r j); reflexivity.
    + unfold castable. cbn [bind eval]. destruct (nth_error r j) as [v|] eqn:EV; [|reflexivity]. cbn [bind].
      destruct (ty_eqb (fty pf) (fty f)) eqn:E; [|reflexivity].
      apply ty_eqb_true in E. rewrite <- E. rewrite (cast_same _ _ (row_typed_nth _ _ _ _ _ HT HPN EV)). reflexivity.
  - destruct (fnullable f) eqn:EN; reflexivity.
Qed.

(* ---------- same schema: adaptation is the identity ---------- *)
Lemma row_typed_length : forall s r, row_typed s r = true -> length s = length r.
Proof.
  induction s as [|f s IH]; destruct r as [|v r]; cbn [row_typed]; intro H; try discriminate; [reflexivity|].
  apply andb_true_iff in H. destruct H as [_ H]. cbn [length]. f_equal. apply IH; exact H.
Qed.

Theorem adapt_idempotent_same_schema : forall s r,
  NoDup (map fname s) -> row_typed s r = true -> adapt_row s s r = Some r.
Proof.
  intros s r ND HV. unfold adapt_row. apply mapM_all_nth; [apply row_typed_length; exact HV|].
  intros i f Hi. unfold adapt_col. rewrite (find_field_nodup s i f ND Hi).
  assert (E : ty_eqb (fty f) (fty f) = true) by (apply ty_eqb_true; reflexivity). rewrite E.
  destruct (nth_error r i) as [v|] eqn:EV; [reflexivity|].
  exfalso. apply nth_error_None in EV. apply row_typed_length in HV.
  assert (i < length s)%nat by (apply nth_error_Some; congruence). lia.
Qed.

(* widening never fails and keeps the number *)
Lemma widening_exact : forall z, cast_value TInt64 (VI32 z) = Some (VI64 z).
Proof. reflexivity. Qed.
