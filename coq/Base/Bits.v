(* Machine-integer arithmetic used by the generated kernels (T-tied models).
   Every Rust unsigned operation is modelled as the Z operation followed by an
   explicit range check: [None] = the operation leaves the type's range, which
   is a panic in a debug build and a wrap in a release build.  Theorems over
   these definitions that conclude [Some x] therefore hold for both builds. *)
From Coq Require Import ZArith Lia Bool.
Open Scope Z_scope.

Definition two64 : Z := 2 ^ 64.
Definition two128 : Z := 2 ^ 128.
Definition u64_max : Z := 2 ^ 64 - 1.
Definition u128_max : Z := 2 ^ 128 - 1.

Definition in_u (w : Z) (x : Z) : bool := (0 <=? x) && (x <? 2 ^ w).

Definition chk (w : Z) (x : Z) : option Z := if in_u w x then Some x else None.

Definition cadd (w a b : Z) : option Z := chk w (a + b).
Definition csub (w a b : Z) : option Z := chk w (a - b).
Definition cmul (w a b : Z) : option Z := chk w (a * b).
(* division by zero panics in Rust *)
Definition cdiv (w a b : Z) : option Z := if b =? 0 then None else Some (a / b).
Definition crem (w a b : Z) : option Z := if b =? 0 then None else Some (a mod b).
(* shifts by a constant smaller than the width never fail; shl drops high bits *)
Definition cshr (w a n : Z) : option Z := if (0 <=? n) && (n <? w) then Some (Z.shiftr a n) else None.
Definition cshl (w a n : Z) : option Z := if (0 <=? n) && (n <? w) then Some ((Z.shiftl a n) mod 2 ^ w) else None.
Definition cand (w a b : Z) : option Z := Some (Z.land a b).
Definition cor (w a b : Z) : option Z := Some (Z.lor a b).
Definition cxor (w a b : Z) : option Z := Some (Z.lxor a b).
(* `x as uN` truncates *)
Definition cast (w a : Z) : option Z := Some (a mod 2 ^ w).
(* `uN::from(x)` is lossless widening *)
Definition widen (w a : Z) : option Z := Some a.

(* u64::is_power_of_two : exactly one bit set *)
Fixpoint is_pow2_pos (p : positive) : bool :=
  match p with
  | xH => true
  | xO q => is_pow2_pos q
  | xI _ => false
  end.
Definition is_pow2 (x : Z) : bool :=
  match x with Zpos p => is_pow2_pos p | _ => false end.

Definition bind {A B} (o : option A) (f : A -> option B) : option B :=
  match o with Some x => f x | None => None end.
Notation "'do' x <- e ; k" := (bind e (fun x => k))
  (at level 200, x name, e at level 100, k at level 200, right associativity).
