(* Small shared definitions for the correspondence checks. *)
From Coq Require Export List ZArith Bool.
Export ListNotations.
Open Scope Z_scope.

(* indices (from 0) of the cases on which [chk] fails *)
Fixpoint bad_idx_from {A} (chk : A -> bool) (i : Z) (l : list A) : list Z :=
  match l with
  | [] => []
  | x :: r => if chk x then bad_idx_from chk (i + 1) r else i :: bad_idx_from chk (i + 1) r
  end.
Definition bad_idx {A} (chk : A -> bool) (l : list A) : list Z := bad_idx_from chk 0 l.

Definition opt_eqb {A} (eqb : A -> A -> bool) (a b : option A) : bool :=
  match a, b with
  | Some x, Some y => eqb x y
  | None, None => true
  | _, _ => false
  end.

Fixpoint list_eqb {A} (eqb : A -> A -> bool) (a b : list A) : bool :=
  match a, b with
  | [], [] => true
  | x :: a', y :: b' => eqb x y && list_eqb eqb a' b'
  | _, _ => false
  end.

Definition zopt_eqb := opt_eqb Z.eqb.
Definition zlist_eqb := list_eqb Z.eqb.
