(* C36 audit: pins every property theorem's statement and prints its assumptions (compiled fresh on every run) *)
From Coq Require Import List ZArith String Bool.
From DF Require Import Model.ProtoCodec Gen.ProtoEnumsPhys Model.C36Corr Props.C36.
Import ListNotations.
Open Scope string_scope.
Open Scope Z_scope.
Check C36_dec_enc_TimeUnit : forall v : TimeUnit, dec_TimeUnit (enc_TimeUnit v) = Some v.
Print Assumptions C36_dec_enc_TimeUnit.
Check C36_enc_injective_TimeUnit : forall a b : TimeUnit, enc_TimeUnit a = enc_TimeUnit b -> a = b.
Print Assumptions C36_enc_injective_TimeUnit.
Check C36_dec_enc_IntervalUnit : forall v : IntervalUnit, dec_IntervalUnit (enc_IntervalUnit v) = Some v.
Print Assumptions C36_dec_enc_IntervalUnit.
Check C36_enc_injective_IntervalUnit : forall a b : IntervalUnit, enc_IntervalUnit a = enc_IntervalUnit b -> a = b.
Print Assumptions C36_enc_injective_IntervalUnit.
Check C36_dec_enc_UnionMode : forall v : UnionMode, dec_UnionMode (enc_UnionMode v) = Some v.
Print Assumptions C36_dec_enc_UnionMode.
Check C36_enc_injective_UnionMode : forall a b : UnionMode, enc_UnionMode a = enc_UnionMode b -> a = b.
Print Assumptions C36_enc_injective_UnionMode.
Check C36_dec_enc_JoinSide : forall v : JoinSide, dec_JoinSide (enc_JoinSide v) = Some v.
Print Assumptions C36_dec_enc_JoinSide.
Check C36_enc_injective_JoinSide : forall a b : JoinSide, enc_JoinSide a = enc_JoinSide b -> a = b.
Print Assumptions C36_enc_injective_JoinSide.
Check C36_dec_enc_CompressionTypeVariant : forall v : CompressionTypeVariant, dec_CompressionTypeVariant (enc_CompressionTypeVariant v) = Some v.
Print Assumptions C36_dec_enc_CompressionTypeVariant.
Check C36_enc_injective_CompressionTypeVariant : forall a b : CompressionTypeVariant, enc_CompressionTypeVariant a = enc_CompressionTypeVariant b -> a = b.
Print Assumptions C36_enc_injective_CompressionTypeVariant.
Check C36_dec_enc_CsvQuoteStyle : forall v : CsvQuoteStyle, dec_CsvQuoteStyle (enc_CsvQuoteStyle v) = Some v.
Print Assumptions C36_dec_enc_CsvQuoteStyle.
Check C36_enc_injective_CsvQuoteStyle : forall a b : CsvQuoteStyle, enc_CsvQuoteStyle a = enc_CsvQuoteStyle b -> a = b.
Print Assumptions C36_enc_injective_CsvQuoteStyle.
Check C36_dec_enc_DataType : forall v : DataType, dec_DataType (enc_DataType v) = Some v.
Print Assumptions C36_dec_enc_DataType.
Check C36_enc_injective_DataType : forall a b : DataType, enc_DataType a = enc_DataType b -> a = b.
Print Assumptions C36_enc_injective_DataType.
Check C36_dec_enc_Operator : forall v : Operator, good_Operator v = true -> dec_Operator (enc_Operator v) = Some v.
Print Assumptions C36_dec_enc_Operator.
Check C36_dec_enc_Operator_refuted : exists v : Operator, dec_Operator (enc_Operator v) = None.
Print Assumptions C36_dec_enc_Operator_refuted.
Check C36_enc_injective_Operator : forall a b : Operator, enc_Operator a = enc_Operator b -> a = b.
Print Assumptions C36_enc_injective_Operator.
Check C36_dec_enc_PJoinType : forall v : PJoinType, dec_PJoinType (enc_PJoinType v) = Some v.
Print Assumptions C36_dec_enc_PJoinType.
Check C36_enc_injective_PJoinType : forall a b : PJoinType, enc_PJoinType a = enc_PJoinType b -> a = b.
Print Assumptions C36_enc_injective_PJoinType.
Check C36_dec_enc_PJoinSide : forall v : PJoinSide, dec_PJoinSide (enc_PJoinSide v) = Some v.
Print Assumptions C36_dec_enc_PJoinSide.
Check C36_enc_injective_PJoinSide : forall a b : PJoinSide, enc_PJoinSide a = enc_PJoinSide b -> a = b.
Print Assumptions C36_enc_injective_PJoinSide.
Check C36_dec_enc_PNullEquality : forall v : PNullEquality, dec_PNullEquality (enc_PNullEquality v) = Some v.
Print Assumptions C36_dec_enc_PNullEquality.
Check C36_enc_injective_PNullEquality : forall a b : PNullEquality, enc_PNullEquality a = enc_PNullEquality b -> a = b.
Print Assumptions C36_enc_injective_PNullEquality.
Check C36_dec_enc_PartitionMode : forall v : PartitionMode, dec_PartitionMode (enc_PartitionMode v) = Some v.
Print Assumptions C36_dec_enc_PartitionMode.
Check C36_enc_injective_PartitionMode : forall a b : PartitionMode, enc_PartitionMode a = enc_PartitionMode b -> a = b.
Print Assumptions C36_enc_injective_PartitionMode.
Check C36_dec_enc_SymJoinType : forall v : SymJoinType, dec_SymJoinType (enc_SymJoinType v) = Some v.
Print Assumptions C36_dec_enc_SymJoinType.
Check C36_enc_injective_SymJoinType : forall a b : SymJoinType, enc_SymJoinType a = enc_SymJoinType b -> a = b.
Print Assumptions C36_enc_injective_SymJoinType.
Check C36_dec_enc_SymNullEquality : forall v : SymNullEquality, dec_SymNullEquality (enc_SymNullEquality v) = Some v.
Print Assumptions C36_dec_enc_SymNullEquality.
Check C36_enc_injective_SymNullEquality : forall a b : SymNullEquality, enc_SymNullEquality a = enc_SymNullEquality b -> a = b.
Print Assumptions C36_enc_injective_SymNullEquality.
Check C36_dec_enc_SymJoinSide : forall v : SymJoinSide, dec_SymJoinSide (enc_SymJoinSide v) = Some v.
Print Assumptions C36_dec_enc_SymJoinSide.
Check C36_enc_injective_SymJoinSide : forall a b : SymJoinSide, enc_SymJoinSide a = enc_SymJoinSide b -> a = b.
Print Assumptions C36_enc_injective_SymJoinSide.
Check C36_dec_enc_StreamJoinPartitionMode : forall v : StreamJoinPartitionMode, dec_StreamJoinPartitionMode (enc_StreamJoinPartitionMode v) = Some v.
Print Assumptions C36_dec_enc_StreamJoinPartitionMode.
Check C36_enc_injective_StreamJoinPartitionMode : forall a b : StreamJoinPartitionMode, enc_StreamJoinPartitionMode a = enc_StreamJoinPartitionMode b -> a = b.
Print Assumptions C36_enc_injective_StreamJoinPartitionMode.
Check C36_dec_enc_AggregateMode : forall v : AggregateMode, dec_AggregateMode (enc_AggregateMode v) = Some v.
Print Assumptions C36_dec_enc_AggregateMode.
Check C36_enc_injective_AggregateMode : forall a b : AggregateMode, enc_AggregateMode a = enc_AggregateMode b -> a = b.
Print Assumptions C36_enc_injective_AggregateMode.
Check C36_dec_enc_PWindowFrameUnits : forall v : PWindowFrameUnits, dec_PWindowFrameUnits (enc_PWindowFrameUnits v) = Some v.
Print Assumptions C36_dec_enc_PWindowFrameUnits.
Check C36_enc_injective_PWindowFrameUnits : forall a b : PWindowFrameUnits, enc_PWindowFrameUnits a = enc_PWindowFrameUnits b -> a = b.
Print Assumptions C36_enc_injective_PWindowFrameUnits.
Check C36_dec_enc_PWindowFrameBound : forall v : PWindowFrameBound, dec_PWindowFrameBound (enc_PWindowFrameBound v) = Some v.
Print Assumptions C36_dec_enc_PWindowFrameBound.
Check C36_enc_injective_PWindowFrameBound : forall a b : PWindowFrameBound, enc_PWindowFrameBound a = enc_PWindowFrameBound b -> a = b.
Print Assumptions C36_enc_injective_PWindowFrameBound.
Check C36_dec_enc_PExplainFormat : forall v : PExplainFormat, dec_PExplainFormat (enc_PExplainFormat v) = Some v.
Print Assumptions C36_dec_enc_PExplainFormat.
Check C36_enc_injective_PExplainFormat : forall a b : PExplainFormat, enc_PExplainFormat a = enc_PExplainFormat b -> a = b.
Print Assumptions C36_enc_injective_PExplainFormat.
Check C36_dec_enc_InsertOp : forall v : InsertOp, dec_InsertOp (enc_InsertOp v) = Some v.
Print Assumptions C36_dec_enc_InsertOp.
Check C36_enc_injective_InsertOp : forall a b : InsertOp, enc_InsertOp a = enc_InsertOp b -> a = b.
Print Assumptions C36_enc_injective_InsertOp.
Check C36_dec_enc_FileOutputMode : forall v : FileOutputMode, dec_FileOutputMode (enc_FileOutputMode v) = Some v.
Print Assumptions C36_dec_enc_FileOutputMode.
Check C36_enc_injective_FileOutputMode : forall a b : FileOutputMode, enc_FileOutputMode a = enc_FileOutputMode b -> a = b.
Print Assumptions C36_enc_injective_FileOutputMode.
Check C36_generated_tables_ok :
  forallb (fun r => snd (fst (fst r))) generated_tables_physical = true /\
  forallb (fun r => match snd r with [] => true | _ => false end) generated_tables_physical = true.
Print Assumptions C36_generated_tables_ok.
Check C36_sort_options_round_trip : forall o : sort_options, dec_sort (enc_sort o) = o.
Print Assumptions C36_sort_options_round_trip.
Check C36_sort_options_injective : forall a b : sort_options, enc_sort a = enc_sort b -> a = b.
Print Assumptions C36_sort_options_injective.
Check C36_hash_join_options_round_trip : forall h : c36_hj, proj_ok (hj_projection _ _ _ h) = true -> c36_dec_hj (c36_enc_hj h) = Some h.
Print Assumptions C36_hash_join_options_round_trip.
Check C36_hash_join_options_injective : forall a b : c36_hj,
  proj_ok (hj_projection _ _ _ a) = true -> proj_ok (hj_projection _ _ _ b) = true -> c36_enc_hj a = c36_enc_hj b -> a = b.
Print Assumptions C36_hash_join_options_injective.
Check C36_projection_round_trip : forall p : option (list Z), proj_ok p = true -> dec_proj (enc_proj p) = p.
Print Assumptions C36_projection_round_trip.
Check C36_projection_none_vs_empty : enc_proj None <> enc_proj (Some []).
Print Assumptions C36_projection_none_vs_empty.
Check C36_projection_sentinel_refuted : dec_proj (enc_proj (Some [4294967295])) = Some [].
Print Assumptions C36_projection_sentinel_refuted.
