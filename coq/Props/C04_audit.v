From Coq Require Import List ZArith Bool Lia.
From DF Require Import Base.Prelude Model.RefSQL Proofs.RefSQLLaws Model.SimpRules Proofs.SimpRulesProofs Props.C04.
Import ListNotations.
Open Scope Z_scope.

Check C04_sev_adequate :
  forall f e d en,
  subq_free e = true -> (edepth e < f)%nat -> eval_expr f d en e = sev en e.
Check C04_rw_eval_expr :
  forall en l r, rw en l r ->
  forall f d v, subq_free l = true -> subq_free r = true -> (edepth l < f)%nat -> (edepth r < f)%nat ->
  eval_expr f d en l = Ok v -> eval_expr f d en r = Ok v.
Check C04_rule_eq_self_sound :
  forall en A, nonnull_at en A -> rw en (ECmp CEq A A) (ELit (VBool true)).
Check C04_rule_eq_self_nullable_sound :
  forall en A, rw en (ECmp CEq A A) (EOr (EIsNull true A) (ELit VNull)).
Check C04_rule_eq_self_guard_needed :
  exists en A, sev en (ECmp CEq A A) = Ok VNull.
Check C04_rule_ne_self_nullable_sound :
  forall en A, rw en (ECmp CNe A A) (EAnd (EIsNull false A) (ELit VNull)).
Check C04_rule_eq_true_sound :
  forall en A, bool_at en A -> rw en (ECmp CEq A (ELit (VBool true))) A.
Check C04_rule_eq_false_sound :
  forall en A, bool_at en A -> rw en (ECmp CEq A (ELit (VBool false))) (ENot A).
Check C04_rule_eq_null_sound :
  forall en op A, rw en (ECmp op A (ELit VNull)) (ELit VNull).
Check C04_rule_null_eq_sound :
  forall en op A, rw en (ECmp op (ELit VNull) A) (ELit VNull).
Check C04_rule_true_eq_sound :
  forall en A, bool_at en A -> rw en (ECmp CEq (ELit (VBool true)) A) A.
Check C04_rule_false_eq_sound :
  forall en A, bool_at en A -> rw en (ECmp CEq (ELit (VBool false)) A) (ENot A).
Check C04_rule_ne_true_sound :
  forall en A, bool_at en A -> rw en (ECmp CNe A (ELit (VBool true))) (ENot A).
Check C04_rule_ne_false_sound :
  forall en A, bool_at en A -> rw en (ECmp CNe A (ELit (VBool false))) A.
Check C04_rule_true_ne_sound :
  forall en A, bool_at en A -> rw en (ECmp CNe (ELit (VBool true)) A) (ENot A).
Check C04_rule_false_ne_sound :
  forall en A, bool_at en A -> rw en (ECmp CNe (ELit (VBool false)) A) A.
Check C04_rule_eq_true_guard_needed :
  exists en A, ~ rw en (ECmp CEq A (ELit (VBool true))) A.
Check C04_rule_arith_null_sound :
  forall en op A, rw en (EArith op A (ELit VNull)) (ELit VNull).
Check C04_rule_null_arith_sound :
  forall en op A, rw en (EArith op (ELit VNull) A) (ELit VNull).
Check C04_rule_null_and_null_sound :
  forall en, rw en (EAnd (ELit VNull) (ELit VNull)) (ELit VNull).
Check C04_rule_null_or_null_sound :
  forall en, rw en (EOr (ELit VNull) (ELit VNull)) (ELit VNull).
Check C04_rule_true_or_sound :
  forall en A, rw en (EOr (ELit (VBool true)) A) (ELit (VBool true)).
Check C04_rule_false_or_sound :
  forall en A, rw en (EOr (ELit (VBool false)) A) A.
Check C04_rule_or_true_sound :
  forall en A, rw en (EOr A (ELit (VBool true))) (ELit (VBool true)).
Check C04_rule_or_false_sound :
  forall en A, rw en (EOr A (ELit (VBool false))) A.
Check C04_rule_or_not_self_sound :
  forall en A, nonnull_at en A -> rw en (EOr A (ENot A)) (ELit (VBool true)).
Check C04_rule_not_self_or_sound :
  forall en A, nonnull_at en A -> rw en (EOr (ENot A) A) (ELit (VBool true)).
Check C04_rule_or_not_self_guard_needed :
  exists en A, sev en (EOr A (ENot A)) = Ok VNull.
Check C04_rule_or_self_sound :
  forall en A, rw en (EOr A A) A.
Check C04_rule_or_contains_l_sound :
  forall en A B, rw en (EOr (EOr A B) A) (EOr A B).
Check C04_rule_or_contains_l2_sound :
  forall en A B, rw en (EOr (EOr B A) A) (EOr B A).
Check C04_rule_or_contains_r_sound :
  forall en A B, rw en (EOr A (EOr A B)) (EOr A B).
Check C04_rule_or_absorb_r_sound :
  forall en A B, rw en (EOr A (EAnd A B)) A.
Check C04_rule_or_absorb_r2_sound :
  forall en A B, rw en (EOr A (EAnd B A)) A.
Check C04_rule_or_absorb_l_sound :
  forall en A B, rw en (EOr (EAnd A B) A) A.
Check C04_rule_or_common_conjunction_sound :
  forall en A B C,
  rw en (EOr (EAnd A B) (EAnd A C)) (EAnd A (EOr B C)).
Check C04_rule_or_common_conjunction_only_sound :
  forall en A B, rw en (EOr (EAnd A B) A) A.
Check C04_rule_true_and_sound :
  forall en A, rw en (EAnd (ELit (VBool true)) A) A.
Check C04_rule_false_and_sound :
  forall en A, rw en (EAnd (ELit (VBool false)) A) (ELit (VBool false)).
Check C04_rule_and_true_sound :
  forall en A, rw en (EAnd A (ELit (VBool true))) A.
Check C04_rule_and_false_sound :
  forall en A, rw en (EAnd A (ELit (VBool false))) (ELit (VBool false)).
Check C04_rule_and_not_self_sound :
  forall en A, nonnull_at en A -> rw en (EAnd A (ENot A)) (ELit (VBool false)).
Check C04_rule_not_self_and_sound :
  forall en A, nonnull_at en A -> rw en (EAnd (ENot A) A) (ELit (VBool false)).
Check C04_rule_and_not_self_guard_needed :
  exists en A, sev en (EAnd A (ENot A)) = Ok VNull.
Check C04_rule_and_self_sound :
  forall en A, rw en (EAnd A A) A.
Check C04_rule_and_contains_l_sound :
  forall en A B, rw en (EAnd (EAnd A B) A) (EAnd A B).
Check C04_rule_and_contains_r_sound :
  forall en A B, rw en (EAnd A (EAnd B A)) (EAnd B A).
Check C04_rule_and_absorb_r_sound :
  forall en A B, rw en (EAnd A (EOr A B)) A.
Check C04_rule_and_absorb_l_sound :
  forall en A B, rw en (EAnd (EOr A B) A) A.
Check C04_rule_and_absorb_l2_sound :
  forall en A B, rw en (EAnd (EOr B A) A) A.
Check C04_rule_ge_and_le_sound :
  forall en A B, rw en (EAnd (ECmp CGe A B) (ECmp CLe A B)) (ECmp CEq A B).
Check C04_rule_eq_and_ne_sound :
  forall en A z1 z2, z1 <> z2 ->
  (forall v, sev en A = Ok v -> v = VNull \/ exists z, v = VInt z) ->
  rw en (EAnd (ECmp CEq A (ELit (VInt z1))) (ECmp CNe A (ELit (VInt z2)))) (ECmp CEq A (ELit (VInt z1))).
Check C04_rule_ne_and_eq_sound :
  forall en A z1 z2, z1 <> z2 ->
  (forall v, sev en A = Ok v -> v = VNull \/ exists z, v = VInt z) ->
  rw en (EAnd (ECmp CNe A (ELit (VInt z2))) (ECmp CEq A (ELit (VInt z1)))) (ECmp CEq A (ELit (VInt z1))).
Check C04_rule_eq_and_ne_guard_needed :
  exists en A z, ~ rw en (EAnd (ECmp CEq A (ELit (VInt z))) (ECmp CNe A (ELit (VInt z)))) (ECmp CEq A (ELit (VInt z))).
Check C04_rule_mul_one_sound :
  forall en A, rw en (EArith AMul A (ELit (VInt 1))) A.
Check C04_rule_one_mul_sound :
  forall en A, rw en (EArith AMul (ELit (VInt 1)) A) A.
Check C04_rule_mul_zero_sound :
  forall en A, nonnull_at en A -> rw en (EArith AMul A (ELit (VInt 0))) (ELit (VInt 0)).
Check C04_rule_zero_mul_sound :
  forall en A, nonnull_at en A -> rw en (EArith AMul (ELit (VInt 0)) A) (ELit (VInt 0)).
Check C04_rule_mul_zero_guard_needed :
  exists en A, sev en (EArith AMul A (ELit (VInt 0))) = Ok VNull.
Check C04_rule_div_one_sound :
  forall en A, rw en (EArith ADiv A (ELit (VInt 1))) A.
Check C04_rule_mod_one_sound :
  forall en A, nonnull_at en A -> rw en (EArith AMod A (ELit (VInt 1))) (ELit (VInt 0)).
Check C04_div_by_zero_literal_stays_error :
  forall en A z op, op = ADiv \/ op = AMod ->
  sev en A = Ok (VInt z) -> sev en (EArith op A (ELit (VInt 0))) = Err EDivZero.
Check C04_sub_self_would_need_guard :
  exists en A, sev en (EArith ASub A A) = Ok VNull.
Check C04_div_self_would_need_guard :
  exists en A, sev en (EArith ADiv A A) = Err EDivZero.
Check C04_rule_not_negate_clause_sound :
  forall en e, rw en (ENot e) (negate_clause e).
Check C04_rule_not_not_sound :
  forall en A, rw en (ENot (ENot A)) A.
Check C04_rule_not_and_sound :
  forall en A B, rw en (ENot (EAnd A B)) (EOr (negate_clause A) (negate_clause B)).
Check C04_rule_not_or_sound :
  forall en A B, rw en (ENot (EOr A B)) (EAnd (negate_clause A) (negate_clause B)).
Check C04_rule_not_cmp_sound :
  forall en op A B, rw en (ENot (ECmp op A B)) (ECmp (negate_op op) A B).
Check C04_rule_case_literal_conditions_sound :
  forall en ws els, rw en (ECase ws els) (case_fold_expr ws els).
Check C04_rule_case_when_true_sound :
  forall en A ws els, rw en (ECase ((ELit (VBool true), A) :: ws) els) A.
Check C04_rule_case_when_false_else_sound :
  forall en A B, rw en (ECase [(ELit (VBool false), A)] (Some B)) B.
Check C04_rule_case_when_false_sound :
  forall en A, rw en (ECase [(ELit (VBool false), A)] None) (ELit VNull).
Check C04_case_when_null_is_skipped :
  forall en A ws els, rw en (ECase ((ELit VNull, A) :: ws) els) (ECase ws els).
Check C04_rule_case_true_false_sound :
  forall en X, bool_at en X ->
  rw en (ECase [(X, ELit (VBool true))] (Some (ELit (VBool false)))) (EDistinct true X (ELit (VBool true))).
Check C04_rule_case_true_false_nonnull_sound :
  forall en X, bool_at en X -> nonnull_at en X ->
  rw en (ECase [(X, ELit (VBool true))] (Some (ELit (VBool false)))) X.
Check C04_rule_case_true_false_guard_needed :
  exists en X,
  ~ rw en (ECase [(X, ELit (VBool true))] (Some (ELit (VBool false)))) X.
Check C04_rule_case_bool_expansion_sound :
  forall en X A Q a q, bool_at en X ->
  sevp en A = Ok a -> sevp en Q = Ok q ->
  rw en (ECase [(X, A)] (Some Q))
        (EOr (EAnd (EDistinct true X (ELit (VBool true))) A) (EAnd (ENot (EDistinct true X (ELit (VBool true)))) Q)).
Check C04_rule_case_bool_expansion_no_else_sound :
  forall en X A a, bool_at en X ->
  sevp en A = Ok a ->
  rw en (ECase [(X, A)] None)
        (EOr (EAnd (EDistinct true X (ELit (VBool true))) A) (EAnd (ENot (EDistinct true X (ELit (VBool true)))) (ELit VNull))).
Check C04_rule_case_cmp_literal_sound :
  forall en op l ws els,
  rw en (ECmp op (ECase ws els) (ELit l))
        (ECase (map (push_cmp op l) ws) (option_map (fun e => ECmp op e (ELit l)) els)).
Check C04_rule_case_bool_literals_sound :
  forall en ws els,
  forallb (fun wt => is_bool_lit (snd wt)) ws = true ->
  match els with Some e => is_bool_lit e = true | None => True end ->
  rw en (ECase ws els) (ENot (ECase (map not_branch ws) (option_map ENot els))).
Check C04_rule_between_sound :
  forall en A L H, rw en (EBetween false A L H) (EAnd (ECmp CGe A L) (ECmp CLe A H)).
Check C04_rule_not_between_sound :
  forall en A L H, rw en (EBetween true A L H) (EOr (ECmp CLt A L) (ECmp CGt A H)).
Check C04_rule_is_null_nonnull_sound :
  forall en A, nonnull_at en A -> rw en (EIsNull false A) (ELit (VBool false)).
Check C04_rule_is_not_null_nonnull_sound :
  forall en A, nonnull_at en A -> rw en (EIsNull true A) (ELit (VBool true)).
Check C04_rule_is_null_literal_sound :
  forall en neg v, rw en (EIsNull neg (ELit v)) (ELit (VBool (xorb neg (is_null v)))).
Check C04_rule_in_empty_sound :
  forall en neg A, rw en (EInList neg A []) (ELit (VBool neg)).
Check C04_rule_null_in_list_sound :
  forall en neg l, l <> [] -> rw en (EInList neg (ELit VNull) l) (ELit VNull).
Check C04_rule_in_null_item_sound :
  forall en neg A, rw en (EInList neg A [ELit VNull]) (ELit VNull).
Check C04_rule_or_inlist_merge_sound :
  forall en X l1 l2,
  rw en (EOr (EInList false X l1) (EInList false X l2)) (EInList false X (l1 ++ l2)).
Check C04_rule_eq_or_eq_sound :
  forall en X a b, rw en (EOr (ECmp CEq X a) (ECmp CEq X b)) (EInList false X [a; b]).
Check C04_in3_dedup :
  forall x l, in3 x (dedup l) = in3 x l.
Check C04_rule_shorten_inlist_1_sound :
  forall en neg X a e', shorten_inlist neg X [a] = Some e' -> rw en (EInList neg X [a]) e'.
Check C04_rule_shorten_inlist_2_sound :
  forall en neg X a b e', shorten_inlist neg X [a; b] = Some e' -> rw en (EInList neg X [a; b]) e'.
Check C04_rule_shorten_inlist_3_sound :
  forall en neg X a b c e',
  shorten_inlist neg X [a; b; c] = Some e' -> rw en (EInList neg X [a; b; c]) e'.
Check C04_rule_inlist_intersection_sound :
  forall z l1 l2,
  and3 (in3 (VInt z) (map VInt l1)) (in3 (VInt z) (map VInt l2)) = in3 (VInt z) (inter (map VInt l1) (map VInt l2)).
Check C04_rule_inlist_intersection_refuted_null_item :
  exists x l1 l2,
  and3 (in3 x l1) (in3 x l2) <> in3 x (inter l1 l2).
Check C04_rule_inlist_intersection_refuted_null_probe :
  exists l1 l2,
  and3 (in3 VNull (map VInt l1)) (in3 VNull (map VInt l2)) <> in3 VNull (inter (map VInt l1) (map VInt l2)).
Check C04_rule_inlist_except_sound :
  forall z l1 l2,
  and3 (in3 (VInt z) (map VInt l1)) (not_in3 (VInt z) (map VInt l2)) = in3 (VInt z) (except (map VInt l1) (map VInt l2)).
Check C04_rule_inlist_except_refuted_null_item :
  exists x l1 l2,
  and3 (in3 x l1) (not_in3 x l2) = TU /\ in3 x (except l1 l2) = TT.
Check C04_rule_inlist_except_refuted_null_probe :
  exists l1 l2,
  and3 (in3 VNull (map VInt l1)) (not_in3 VNull (map VInt l2)) = TU /\ in3 VNull (except (map VInt l1) (map VInt l2)) = TF.
Check C04_rule_inlist_union_sound :
  forall x l1 l2,
  and3 (not_in3 x l1) (not_in3 x l2) = not_in3 x (union l1 l2).
Check C04_rule_coalesce_1_sound :
  forall en a e', coalesce_case [a] = Some e' -> rw en (ECoalesce [a]) e'.
Check C04_rule_coalesce_2_sound :
  forall en a b e', coalesce_case [a; b] = Some e' -> rw en (ECoalesce [a; b]) e'.
Check C04_rule_coalesce_3_sound :
  forall en a b c e', coalesce_case [a; b; c] = Some e' -> rw en (ECoalesce [a; b; c]) e'.
Check C04_nullif_as_case :
  forall en a b, rw en (ENullif a b) (ECase [(ECmp CEq a b, ELit VNull)] (Some a)).
Check C04_unwrap_cast_sound :
  forall op safe s t x lit c r,
  has_ty s x ->
  safe = false \/ widening s t = true ->
  cast_int safe t x = Ok c ->
  unwrap_cast_cmp op s x lit = Some r ->
  r = cmp3 op c (VInt lit).
Check C04_try_cast_int_literal_exact :
  forall s lit l, try_cast_int_literal s lit = Some l -> l = lit /\ int_lo s <= lit <= int_hi s.
Check C04_try_cast_int_literal_max :
  forall s, try_cast_int_literal s (int_hi s) = Some (int_hi s) /\ try_cast_int_literal s (int_hi s + 1) = None.
Check C04_try_cast_int_literal_min :
  forall s, try_cast_int_literal s (int_lo s) = Some (int_lo s) /\ try_cast_int_literal s (int_lo s - 1) = None.
Check C04_unwrap_try_cast_narrowing_refuted :
  exists op s t x lit c r,
  has_ty s x /\ cast_int true t x = Ok c /\ unwrap_cast_cmp op s x lit = Some r /\ cmp3 op c (VInt lit) = TU /\ r = TT.
Check C04_rule_bitand_zero_sound :
  forall a, int_val a -> bitop Z.land a (VInt 0) = Ok (VInt 0).
Check C04_rule_bitand_zero_guard_needed :
  bitop Z.land VNull (VInt 0) = Ok VNull.
Check C04_rule_bitor_zero_sound :
  forall a, a = VNull \/ int_val a -> bitop Z.lor a (VInt 0) = Ok a.
Check C04_rule_bitxor_zero_sound :
  forall a, a = VNull \/ int_val a -> bitop Z.lxor a (VInt 0) = Ok a.
Check C04_rule_shift_zero_sound :
  forall a, a = VNull \/ int_val a ->
  bitop Z.shiftl a (VInt 0) = Ok a /\ bitop Z.shiftr a (VInt 0) = Ok a.
Check C04_rule_bitand_self_sound :
  forall a b r, bitop Z.land a b = Ok r -> (x <- bitop Z.land a b;; bitop Z.land x a) = Ok r.
Check C04_rule_bitor_self_sound :
  forall a b r, bitop Z.lor a b = Ok r -> (x <- bitop Z.lor a b;; bitop Z.lor x a) = Ok r.
Check C04_rule_bitand_absorb_sound :
  forall x y, (o <- bitop Z.lor (VInt x) (VInt y);; bitop Z.land (VInt x) o) = Ok (VInt x).
Check C04_rule_bitor_absorb_sound :
  forall x y, (o <- bitop Z.land (VInt x) (VInt y);; bitop Z.lor (VInt x) o) = Ok (VInt x).
Check C04_rule_bit_absorb_guard_needed :
  (o <- bitop Z.lor (VInt 1) VNull;; bitop Z.land (VInt 1) o) = Ok VNull.
Check C04_rule_bitxor_cancel_sound :
  forall x b r, bitop Z.lxor (VInt x) b = Ok r -> bitop Z.lxor r (VInt x) = Ok b.
Check C04_rule_bitxor_self_sound :
  forall x, bitop Z.lxor (VInt x) (VInt x) = Ok (VInt 0).
Check C04_bitwise_not_complement :
  forall x, Z.land (Z.lnot x) x = 0 /\ Z.lor (Z.lnot x) x = -1 /\ Z.lxor (Z.lnot x) x = -1.
Check C04_rule_bitand_negative_refuted :
  exists x a r, neg_val (VInt x) = Ok a /\ bitop Z.land a (VInt x) = Ok r /\ r <> VInt 0.
Check C04_rule_bitor_negative_refuted :
  exists x a r, neg_val (VInt x) = Ok a /\ bitop Z.lor a (VInt x) = Ok r /\ r <> VInt (-1).
Check C04_rule_bitxor_negative_refuted :
  exists x a r, neg_val (VInt x) = Ok a /\ bitop Z.lxor a (VInt x) = Ok r /\ r <> VInt (-1).
Check C04_rule_negative_demorgan_refuted :
  exists x y, - (Z.land x y) <> Z.lor (- x) (- y).
Check C04_rule_negative_negative_sound :
  forall a r, neg_val a = Ok r -> neg_val r = Ok a.
Check C04_rule_guarantee_interval_cmp_sound :
  forall op lo hi c x b,
  lo <= x <= hi -> interval_cmp op lo hi c = Some b -> cmp3 op (VInt x) (VInt c) = tv_of_bool b.
Check C04_rule_guarantee_is_null_sound :
  forall en A neg, nonnull_at en A -> rw en (EIsNull neg A) (ELit (VBool neg)).
Check C04_rule_guarantee_single_value_sound :
  forall en A c, (forall v, sev en A = Ok v -> v = c) -> rw en A (ELit c).
Check C04_nullable_sound :
  forall sch r en e,
  conforms sch r -> nullable sch e = false -> nonnull_at (r :: en) e.
Check C04_equiv_regions_sound :
  forall e e' cs, equiv_regions e e' cs = true ->
  forall v, v = VNull \/ (exists z, v = VInt z) -> sev [[v]] e = sev [[v]] e'.
Check C04_equiv_regions_example :
  equiv_regions (EAnd (ECmp CGe (ECol 0 0) (ELit (VInt 5))) (ECmp CLe (ECol 0 0) (ELit (VInt 5))))
                (ECmp CEq (ECol 0 0) (ELit (VInt 5))) [5] = true /\
  equiv_regions (ENot (ECmp CLt (ECol 0 0) (ELit (VInt 3)))) (ECmp CGt (ECol 0 0) (ELit (VInt 3))) [3] = false.
Check C04_nonvacuous_eq_self :
  let sch := [false; true] in let r := [VInt 5; VNull] in
  conforms sch r /\ nullable sch (EArith AAdd (ECol 0 0) (ELit (VInt 1))) = false /\
  sev [r] (ECmp CEq (EArith AAdd (ECol 0 0) (ELit (VInt 1))) (EArith AAdd (ECol 0 0) (ELit (VInt 1)))) = Ok (VBool true) /\
  nullable sch (ECol 0 1) = true /\ sev [r] (ECmp CEq (ECol 0 1) (ECol 0 1)) = Ok VNull.
Check C04_nonvacuous_validator :
  equiv_small (EAnd (ECmp CGe (ECol 0 0) (ELit (VInt 1))) (ECmp CLe (ECol 0 0) (ELit (VInt 1))))
              (ECmp CEq (ECol 0 0) (ELit (VInt 1))) [TInt true (-128) 127] = true /\
  equiv_small (ECmp CEq (ECol 0 0) (ECol 0 0)) (ELit (VBool true)) [TInt true (-128) 127] = false /\
  equiv_small (ECmp CEq (ECol 0 0) (ECol 0 0)) (ELit (VBool true)) [TInt false (-128) 127] = true /\
  equiv_small (EAnd (EInList false (ECol 0 0) [ELit (VInt 1); ELit VNull]) (EInList false (ECol 0 0) [ELit (VInt 2)]))
              (ELit (VBool false)) [TInt true (-128) 127] = false.
Print Assumptions C04_sev_adequate.
Print Assumptions C04_rw_eval_expr.
Print Assumptions C04_rule_eq_self_sound.
Print Assumptions C04_rule_eq_self_nullable_sound.
Print Assumptions C04_rule_eq_self_guard_needed.
Print Assumptions C04_rule_ne_self_nullable_sound.
Print Assumptions C04_rule_eq_true_sound.
Print Assumptions C04_rule_eq_false_sound.
Print Assumptions C04_rule_eq_null_sound.
Print Assumptions C04_rule_null_eq_sound.
Print Assumptions C04_rule_true_eq_sound.
Print Assumptions C04_rule_false_eq_sound.
Print Assumptions C04_rule_ne_true_sound.
Print Assumptions C04_rule_ne_false_sound.
Print Assumptions C04_rule_true_ne_sound.
Print Assumptions C04_rule_false_ne_sound.
Print Assumptions C04_rule_eq_true_guard_needed.
Print Assumptions C04_rule_arith_null_sound.
Print Assumptions C04_rule_null_arith_sound.
Print Assumptions C04_rule_null_and_null_sound.
Print Assumptions C04_rule_null_or_null_sound.
Print Assumptions C04_rule_true_or_sound.
Print Assumptions C04_rule_false_or_sound.
Print Assumptions C04_rule_or_true_sound.
Print Assumptions C04_rule_or_false_sound.
Print Assumptions C04_rule_or_not_self_sound.
Print Assumptions C04_rule_not_self_or_sound.
Print Assumptions C04_rule_or_not_self_guard_needed.
Print Assumptions C04_rule_or_self_sound.
Print Assumptions C04_rule_or_contains_l_sound.
Print Assumptions C04_rule_or_contains_l2_sound.
Print Assumptions C04_rule_or_contains_r_sound.
Print Assumptions C04_rule_or_absorb_r_sound.
Print Assumptions C04_rule_or_absorb_r2_sound.
Print Assumptions C04_rule_or_absorb_l_sound.
Print Assumptions C04_rule_or_common_conjunction_sound.
Print Assumptions C04_rule_or_common_conjunction_only_sound.
Print Assumptions C04_rule_true_and_sound.
Print Assumptions C04_rule_false_and_sound.
Print Assumptions C04_rule_and_true_sound.
Print Assumptions C04_rule_and_false_sound.
Print Assumptions C04_rule_and_not_self_sound.
Print Assumptions C04_rule_not_self_and_sound.
Print Assumptions C04_rule_and_not_self_guard_needed.
Print Assumptions C04_rule_and_self_sound.
Print Assumptions C04_rule_and_contains_l_sound.
Print Assumptions C04_rule_and_contains_r_sound.
Print Assumptions C04_rule_and_absorb_r_sound.
Print Assumptions C04_rule_and_absorb_l_sound.
Print Assumptions C04_rule_and_absorb_l2_sound.
Print Assumptions C04_rule_ge_and_le_sound.
Print Assumptions C04_rule_eq_and_ne_sound.
Print Assumptions C04_rule_ne_and_eq_sound.
Print Assumptions C04_rule_eq_and_ne_guard_needed.
Print Assumptions C04_rule_mul_one_sound.
Print Assumptions C04_rule_one_mul_sound.
Print Assumptions C04_rule_mul_zero_sound.
Print Assumptions C04_rule_zero_mul_sound.
Print Assumptions C04_rule_mul_zero_guard_needed.
Print Assumptions C04_rule_div_one_sound.
Print Assumptions C04_rule_mod_one_sound.
Print Assumptions C04_div_by_zero_literal_stays_error.
Print Assumptions C04_sub_self_would_need_guard.
Print Assumptions C04_div_self_would_need_guard.
Print Assumptions C04_rule_not_negate_clause_sound.
Print Assumptions C04_rule_not_not_sound.
Print Assumptions C04_rule_not_and_sound.
Print Assumptions C04_rule_not_or_sound.
Print Assumptions C04_rule_not_cmp_sound.
Print Assumptions C04_rule_case_literal_conditions_sound.
Print Assumptions C04_rule_case_when_true_sound.
Print Assumptions C04_rule_case_when_false_else_sound.
Print Assumptions C04_rule_case_when_false_sound.
Print Assumptions C04_case_when_null_is_skipped.
Print Assumptions C04_rule_case_true_false_sound.
Print Assumptions C04_rule_case_true_false_nonnull_sound.
Print Assumptions C04_rule_case_true_false_guard_needed.
Print Assumptions C04_rule_case_bool_expansion_sound.
Print Assumptions C04_rule_case_bool_expansion_no_else_sound.
Print Assumptions C04_rule_case_cmp_literal_sound.
Print Assumptions C04_rule_case_bool_literals_sound.
Print Assumptions C04_rule_between_sound.
Print Assumptions C04_rule_not_between_sound.
Print Assumptions C04_rule_is_null_nonnull_sound.
Print Assumptions C04_rule_is_not_null_nonnull_sound.
Print Assumptions C04_rule_is_null_literal_sound.
Print Assumptions C04_rule_in_empty_sound.
Print Assumptions C04_rule_null_in_list_sound.
Print Assumptions C04_rule_in_null_item_sound.
Print Assumptions C04_rule_or_inlist_merge_sound.
Print Assumptions C04_rule_eq_or_eq_sound.
Print Assumptions C04_in3_dedup.
Print Assumptions C04_rule_shorten_inlist_1_sound.
Print Assumptions C04_rule_shorten_inlist_2_sound.
Print Assumptions C04_rule_shorten_inlist_3_sound.
Print Assumptions C04_rule_inlist_intersection_sound.
Print Assumptions C04_rule_inlist_intersection_refuted_null_item.
Print Assumptions C04_rule_inlist_intersection_refuted_null_probe.
Print Assumptions C04_rule_inlist_except_sound.
Print Assumptions C04_rule_inlist_except_refuted_null_item.
Print Assumptions C04_rule_inlist_except_refuted_null_probe.
Print Assumptions C04_rule_inlist_union_sound.
Print Assumptions C04_rule_coalesce_1_sound.
Print Assumptions C04_rule_coalesce_2_sound.
Print Assumptions C04_rule_coalesce_3_sound.
Print Assumptions C04_nullif_as_case.
Print Assumptions C04_unwrap_cast_sound.
Print Assumptions C04_try_cast_int_literal_exact.
Print Assumptions C04_try_cast_int_literal_max.
Print Assumptions C04_try_cast_int_literal_min.
Print Assumptions C04_unwrap_try_cast_narrowing_refuted.
Print Assumptions C04_rule_bitand_zero_sound.
Print Assumptions C04_rule_bitand_zero_guard_needed.
Print Assumptions C04_rule_bitor_zero_sound.
Print Assumptions C04_rule_bitxor_zero_sound.
Print Assumptions C04_rule_shift_zero_sound.
Print Assumptions C04_rule_bitand_self_sound.
Print Assumptions C04_rule_bitor_self_sound.
Print Assumptions C04_rule_bitand_absorb_sound.
Print Assumptions C04_rule_bitor_absorb_sound.
Print Assumptions C04_rule_bit_absorb_guard_needed.
Print Assumptions C04_rule_bitxor_cancel_sound.
Print Assumptions C04_rule_bitxor_self_sound.
Print Assumptions C04_bitwise_not_complement.
Print Assumptions C04_rule_bitand_negative_refuted.
Print Assumptions C04_rule_bitor_negative_refuted.
Print Assumptions C04_rule_bitxor_negative_refuted.
Print Assumptions C04_rule_negative_demorgan_refuted.
Print Assumptions C04_rule_negative_negative_sound.
Print Assumptions C04_rule_guarantee_interval_cmp_sound.
Print Assumptions C04_rule_guarantee_is_null_sound.
Print Assumptions C04_rule_guarantee_single_value_sound.
Print Assumptions C04_nullable_sound.
Print Assumptions C04_equiv_regions_sound.
Print Assumptions C04_equiv_regions_example.
Print Assumptions C04_nonvacuous_eq_self.
Print Assumptions C04_nonvacuous_validator.
