(* C53 -- reported row-count metrics equal the rows actually produced.
   PROVED here: the counting wrapper (BaselineMetrics::record_poll) counts exactly and is transparent, for every
   poll history; wrappers compose without double counting as long as each has its own counter, and a node that
   registers k wrappers of one stream reports k times the rows; the monitor that judges observed plan executions
   is equivalent to the declarative statement "every fully consumed node reports what it produced".
   NOT proved: that each operator of the engine wires exactly one wrapper around its output -- that is code
   structure; it is explored by the harness with the verified monitor as oracle. *)
From DF Require Import Base.Prelude Model.MetricsCount Proofs.MetricsCountProofs.
Open Scope Z_scope.

(* After any poll history (Pending / batches / errors / end, in any order and of any length) the wrapped stream
   has handed back exactly the inner stream's poll results and output_rows = sum of the rows of the batches
   delivered so far (out_batches, end-time likewise).  Quantified over the start state, hence over every prefix. *)
Theorem C53_record_poll_counts_exactly : forall h s,
  snd (run_wrapped s h) = h /\
  out_rows (fst (run_wrapped s h)) = out_rows s + delivered_rows h /\
  out_batches (fst (run_wrapped s h)) = out_batches s + delivered_batches h /\
  done (fst (run_wrapped s h)) = done s || finished h.
Proof. exact run_wrapped_exact. Qed.

Theorem C53_record_poll_counts_from_zero : forall h,
  snd (run_wrapped bm0 h) = h /\ out_rows (fst (run_wrapped bm0 h)) = delivered_rows h.
Proof. exact record_poll_counts_exactly. Qed.

(* Polling a finished stream again (None / Err / Pending) changes no counter. *)
Theorem C53_record_poll_idempotent_done : forall s p,
  done s = true -> (p = ReadyNone \/ p = ReadyErr \/ p = Pending) -> fst (record_poll s p) = s.
Proof. exact record_poll_idempotent_done. Qed.

Theorem C53_repeated_none_stable : forall k s,
  done s = true -> fst (run_wrapped s (repeat ReadyNone k)) = s.
Proof. exact repeated_none_stable. Qed.

(* Wrappers in series, each with its own counter: every one counts exactly the delivered rows; stream unchanged. *)
Theorem C53_no_double_count_under_composition : forall ss h,
  snd (run_series ss h) = h /\
  Forall2 (fun s s' => out_rows s' = out_rows s + delivered_rows h) ss (fst (run_series ss h)).
Proof. exact no_double_count_under_composition. Qed.

(* ... whereas k wrappers of one stream registered in ONE metrics set (whose output_rows is the sum) report k times. *)
Theorem C53_series_registered_together_reports_k_times : forall k h,
  reported_sum (fst (run_series (repeat bm0 k) h)) = Z.of_nat k * delivered_rows h.
Proof. exact series_registered_together_reports_k_times. Qed.

(* The monitor: the boolean checker run on an observed execution is equivalent to the declarative property. *)
Theorem C53_monitor_sound : forall t, monitor_ok t = true <-> metrics_exact t.
Proof. exact monitor_sound. Qed.

Theorem C53_sum_partitions_eq : forall t n r,
  monitor_ok t = true -> subnode n t -> o_reported n = Some r -> o_full n = true ->
  r = zsum (o_produced n).
Proof. exact sum_partitions_eq. Qed.

(* non-vacuity: a history with pending polls, an empty batch, and an end; a plan observation the monitor rejects
   (inner node reports 5 but produced 2+2) and one it accepts (the mismatch sits on a node not consumed in full) *)
Example C53_nonvacuous :
  run_wrapped bm0 [Pending; ReadyBatch 3; ReadyBatch 0; Pending; ReadyBatch 4; ReadyNone; ReadyNone] =
    ({| out_rows := 7; out_batches := 3; done := true |},
     [Pending; ReadyBatch 3; ReadyBatch 0; Pending; ReadyBatch 4; ReadyNone; ReadyNone])
  /\ monitor_ok (Node (Some 4) [4] true [Node (Some 5) [2; 2] true []; Node None [9] true []]) = false
  /\ monitor_ok (Node (Some 2) [2] true [Node (Some 5) [2; 2] false []]) = true.
Proof. vm_compute. repeat split; reflexivity. Qed.
