(* C12 -- row hashes depend only on the logical row value.
   Model: Model/HashLayout.v (kernels of hash_utils.rs on physical arrays, abstract hash function).
   Scope of the theorems: Primitive / Boolean+Utf8+Binary / byte-view / Dictionary / RunEndEncoded / List / Struct
   arrays, nested arbitrarily, with slicing, under Arrow's array invariants ([wf]); the values of a dictionary /
   run-end array must not themselves be dictionary / run-end encoded (there the property is refuted, see below). *)
From DF Require Import Base.Prelude Model.HashLayout Proofs.HashLayoutLists Proofs.HashLayoutProofs.
Open Scope Z_scope.

(* Refinement: hashing rows [s, s+l) of ANY well-formed physical array, as first or as later key column, on top
   of any buffer content, yields the specification hash of the decoded logical rows. *)
Theorem C12_kernel_refines_spec :
  forall (value : Type) (h hv : value -> Z) (rh rhv : Z -> value -> Z) (short : value -> bool) (p : phys value),
    wf value short p ->
    forall (s l : nat) (rehash : bool) (prev : list Z), (s + l <= plen value p)%nat -> length prev = l ->
      hash_win value h hv rh rhv short p s l rehash prev
      = map2 (fun x q => spec value h hv rh rhv short x rehash q) (win s l (decode value p)) prev.
Proof. exact kernel_refines_spec. Qed.

(* Two physical encodings of the same logical column (slice offsets, garbage outside the window and under NULLs,
   validity buffer absent or all-true, dictionary keys permuted / duplicated / unused / NULL values vs NULL keys,
   run boundaries cut differently and sliced,
   list offsets and garbage child ranges, struct children under NULL parents, view buffers) hash identically. *)
Theorem C12_hash_layout_independent :
  forall (value : Type) (h hv : value -> Z) (rh rhv : Z -> value -> Z) (short : value -> bool)
         (p q : phys value) (rehash : bool) (prev : list Z),
    wf value short p -> wf value short q ->
    decode value p = decode value q -> length prev = plen value p ->
    hash_win value h hv rh rhv short p 0 (plen value p) rehash prev
    = hash_win value h hv rh rhv short q 0 (plen value q) rehash prev.
Proof. exact hash_layout_independent. Qed.

Theorem C12_create_hashes_layout_independent :
  forall (value : Type) (h hv : value -> Z) (rh rhv : Z -> value -> Z) (short : value -> bool)
         (cols cols' : list (phys value)) (n : nat) (init : list Z),
    Forall (fun c => wf value short c /\ plen value c = n) cols ->
    Forall (fun c => wf value short c /\ plen value c = n) cols' ->
    Forall2 (fun p q => decode value p = decode value q) cols cols' -> length init = n ->
    create_hashes value h hv rh rhv short cols init = create_hashes value h hv rh rhv short cols' init.
Proof. exact create_hashes_layout_independent. Qed.

(* The hash of row i over key columns c1..cn is the fold of the per-value specification over the row's logical
   values (first column initialises, later columns re-hash): it depends only on the row's logical values and on
   the buffer content at i. *)
Theorem C12_multi_column_fold :
  forall (value : Type) (h hv : value -> Z) (rh rhv : Z -> value -> Z) (short : value -> bool)
         (cols : list (phys value)) (n : nat) (init : list Z) (i : nat),
    Forall (fun c => wf value short c /\ plen value c = n) cols ->
    length init = n -> (i < n)%nat ->
    nth i (create_hashes value h hv rh rhv short cols init) 0
    = row_hash value h hv rh rhv short (col_rows value cols i) (nth i init 0).
Proof. exact multi_column_fold. Qed.

Theorem C12_equal_rows_equal_hashes :
  forall (value : Type) (h hv : value -> Z) (rh rhv : Z -> value -> Z) (short : value -> bool)
         (cols cols' : list (phys value)) (n n' : nat) (init init' : list Z) (i j : nat),
    Forall (fun c => wf value short c /\ plen value c = n) cols ->
    Forall (fun c => wf value short c /\ plen value c = n') cols' ->
    length init = n -> length init' = n' -> (i < n)%nat -> (j < n')%nat ->
    col_rows value cols i = col_rows value cols' j -> nth i init 0 = nth j init' 0 ->
    nth i (create_hashes value h hv rh rhv short cols init) 0
    = nth j (create_hashes value h hv rh rhv short cols' init') 0.
Proof. exact equal_rows_equal_hashes. Qed.

(* the buffered entry point is create_hashes on a zeroed buffer of the first array's length *)
Theorem C12_with_hashes_eq_create_hashes :
  forall (value : Type) (h hv : value -> Z) (rh rhv : Z -> value -> Z) (short : value -> bool)
         (c : phys value) (cols : list (phys value)),
    with_hashes value h hv rh rhv short (c :: cols)
    = create_hashes value h hv rh rhv short (c :: cols) (repeat 0 (plen value c)).
Proof. exact with_hashes_eq_create_hashes. Qed.

(* REFUTED for dictionary (and run-end) arrays whose values are themselves dictionary / run-end encoded:
   hash_dictionary tests its values with the PHYSICAL validity (null_count / is_valid), which does not see a
   NULL stored inside the inner dictionary's values.  As second key column, the column [NULL] encoded as
   "valid key -> inner dictionary entry -> NULL value" is combined with a value hash 0, while the same column
   encoded with a NULL key keeps the previous hash. *)
Definition c12_inner : phys Z := Dict (mkbuf [0%nat] None 0%nat 1%nat) (Bytes (mkbuf [7] (Some [false]) 0%nat 1%nat)).
Definition c12_wit_p : phys Z := Dict (mkbuf [0%nat] None 0%nat 1%nat) c12_inner.
Definition c12_wit_q : phys Z := Dict (mkbuf [0%nat] (Some [false]) 0%nat 1%nat) c12_inner.
Definition c12_wit_c0 : phys Z := Prim (mkbuf [1] (Some [false]) 0%nat 1%nat).

Theorem C12_encoded_values_null_refuted :
  forall (h hv : Z -> Z) (rh rhv : Z -> Z -> Z) (short : Z -> bool),
    decode Z c12_wit_p = decode Z c12_wit_q /\
    wfb Z short false c12_wit_p = true /\ wfb Z short false c12_wit_q = true /\
    with_hashes Z h hv rh rhv short [c12_wit_c0; c12_wit_p] <> with_hashes Z h hv rh rhv short [c12_wit_c0; c12_wit_q].
Proof. intros. vm_compute. repeat split; try reflexivity. intros E. discriminate E. Qed.

(* ... and whatever the previous key columns hashed to *)
Theorem C12_encoded_values_null_refuted_any_prev :
  forall (h hv : Z -> Z) (rh rhv : Z -> Z -> Z) (short : Z -> bool) (prev : Z),
    hash_win Z h hv rh rhv short c12_wit_p 0 1 true [prev] <> hash_win Z h hv rh rhv short c12_wit_q 0 1 true [prev].
Proof.
  intros. change (hash_win Z h hv rh rhv short c12_wit_p 0 1 true [prev]) with [combine_hashes 0 prev].
  change (hash_win Z h hv rh rhv short c12_wit_q 0 1 true [prev]) with [prev].
  intros E. injection E. apply combine_zero_moves.
Qed.

(* non-vacuity: physically different well-formed encodings with equal logical content exist *)
Example C12_nonvacuous :
  let sh := fun _ : Z => true in
  let p1 := Prim (mkbuf [9; 1; 2; 3; 9] (Some [true; true; false; true; false]) 1%nat 3%nat) in
  let q1 := Prim (mkbuf [1; 7; 3] (Some [true; false; true]) 0%nat 3%nat) in
  let p2 := Dict (mkbuf [1; 0; 2]%nat None 0%nat 3%nat) (Bytes (mkbuf [20; 10; 30] (Some [true; true; false]) 0%nat 3%nat)) in
  let q2 := Dict (mkbuf [2; 0; 1]%nat (Some [true; true; false]) 0%nat 3%nat) (Bytes (mkbuf [20; 99; 10] None 0%nat 3%nat)) in
  let p3 := PList [0; 2; 2; 3]%nat None 0%nat 3%nat (Prim (mkbuf [1; 2; 3] None 0%nat 3%nat)) in
  let q3 := PList [9; 1; 3; 3; 4]%nat None 1%nat 3%nat
                  (Prim (mkbuf [5; 0; 1; 2; 3; 4] (Some [false; true; true; true; true; true]) 1%nat 5%nat)) in
  let p4 := RunEnd [2; 3]%nat (Prim (mkbuf [4; 6] None 0%nat 2%nat)) 0%nat 3%nat in
  let q4 := RunEnd [1; 2; 3; 4; 6]%nat (Prim (mkbuf [7; 4; 4; 6; 8] (Some [true; true; true; true; false]) 0%nat 5%nat)) 1%nat 3%nat in
  wfb Z sh true p1 && wfb Z sh true q1 && wfb Z sh true p2 && wfb Z sh true q2 && wfb Z sh true p3 && wfb Z sh true q3 && wfb Z sh true p4 && wfb Z sh true q4
  = true
  /\ decode Z p1 = decode Z q1 /\ decode Z p2 = decode Z q2 /\ decode Z p3 = decode Z q3 /\ decode Z p4 = decode Z q4
  /\ decode Z p1 = [LPrim 1; LNull; LPrim 3]
  /\ decode Z p2 = [LEnc (LBytes 10); LEnc (LBytes 20); LNull]
  /\ decode Z p3 = [LList [LPrim 1; LPrim 2]; LList []; LList [LPrim 3]]
  /\ decode Z p4 = [LEnc (LPrim 4); LEnc (LPrim 4); LEnc (LPrim 6)].
Proof. vm_compute. repeat split; reflexivity. Qed.
