(* C36 -- Physical plans survive serialization unchanged.
   Property theorems only (each closed by `exact <lemma>`):
   (1) for every enum-like mapping table GENERATED from the current source (Gen/ProtoEnumsPhys.v: join types / sides / null equality of the
       join operators, hash-join and symmetric-join partition modes, aggregate modes, window frame units and bound kinds, explain format,
       file sink insert op / output mode, arrow enums, operator names): decode after encode gives the variant back, encoder injective;
   (2) records: sort options (asc = !descending) and the HashJoinExec option block (enum tags, null_aware, fetch, the embedded projection with
       its empty-projection sentinel) round-trip;
   (3) refutations / boundary facts of the sentinel encoding. *)
From Coq Require Import List ZArith String Bool.
From DF Require Import Model.ProtoCodec Gen.ProtoEnumsPhys Model.C36Corr Proofs.ProtoCodecProofs Proofs.ProtoEnumsPhysProofs Proofs.C36Proofs.
Import ListNotations.
Open Scope string_scope.
Open Scope Z_scope.

(* ---- (1) generated tables *)
Theorem C36_dec_enc_TimeUnit : forall v : TimeUnit, dec_TimeUnit (enc_TimeUnit v) = Some v.
Proof. exact dec_enc_TimeUnit. Qed.
Theorem C36_enc_injective_TimeUnit : forall a b : TimeUnit, enc_TimeUnit a = enc_TimeUnit b -> a = b.
Proof. exact enc_injective_TimeUnit. Qed.
Theorem C36_dec_enc_IntervalUnit : forall v : IntervalUnit, dec_IntervalUnit (enc_IntervalUnit v) = Some v.
Proof. exact dec_enc_IntervalUnit. Qed.
Theorem C36_enc_injective_IntervalUnit : forall a b : IntervalUnit, enc_IntervalUnit a = enc_IntervalUnit b -> a = b.
Proof. exact enc_injective_IntervalUnit. Qed.
Theorem C36_dec_enc_UnionMode : forall v : UnionMode, dec_UnionMode (enc_UnionMode v) = Some v.
Proof. exact dec_enc_UnionMode. Qed.
Theorem C36_enc_injective_UnionMode : forall a b : UnionMode, enc_UnionMode a = enc_UnionMode b -> a = b.
Proof. exact enc_injective_UnionMode. Qed.
Theorem C36_dec_enc_JoinSide : forall v : JoinSide, dec_JoinSide (enc_JoinSide v) = Some v.
Proof. exact dec_enc_JoinSide. Qed.
Theorem C36_enc_injective_JoinSide : forall a b : JoinSide, enc_JoinSide a = enc_JoinSide b -> a = b.
Proof. exact enc_injective_JoinSide. Qed.
Theorem C36_dec_enc_CompressionTypeVariant : forall v : CompressionTypeVariant, dec_CompressionTypeVariant (enc_CompressionTypeVariant v) = Some v.
Proof. exact dec_enc_CompressionTypeVariant. Qed.
Theorem C36_enc_injective_CompressionTypeVariant : forall a b : CompressionTypeVariant, enc_CompressionTypeVariant a = enc_CompressionTypeVariant b -> a = b.
Proof. exact enc_injective_CompressionTypeVariant. Qed.
Theorem C36_dec_enc_CsvQuoteStyle : forall v : CsvQuoteStyle, dec_CsvQuoteStyle (enc_CsvQuoteStyle v) = Some v.
Proof. exact dec_enc_CsvQuoteStyle. Qed.
Theorem C36_enc_injective_CsvQuoteStyle : forall a b : CsvQuoteStyle, enc_CsvQuoteStyle a = enc_CsvQuoteStyle b -> a = b.
Proof. exact enc_injective_CsvQuoteStyle. Qed.
Theorem C36_dec_enc_DataType : forall v : DataType, dec_DataType (enc_DataType v) = Some v.
Proof. exact dec_enc_DataType. Qed.
Theorem C36_enc_injective_DataType : forall a b : DataType, enc_DataType a = enc_DataType b -> a = b.
Proof. exact enc_injective_DataType. Qed.
Theorem C36_dec_enc_Operator : forall v : Operator, good_Operator v = true -> dec_Operator (enc_Operator v) = Some v.
Proof. exact dec_enc_Operator. Qed.
Theorem C36_dec_enc_Operator_refuted : exists v : Operator, dec_Operator (enc_Operator v) = None.
Proof. exact dec_enc_Operator_refuted. Qed.
Theorem C36_enc_injective_Operator : forall a b : Operator, enc_Operator a = enc_Operator b -> a = b.
Proof. exact enc_injective_Operator. Qed.
Theorem C36_dec_enc_PJoinType : forall v : PJoinType, dec_PJoinType (enc_PJoinType v) = Some v.
Proof. exact dec_enc_PJoinType. Qed.
Theorem C36_enc_injective_PJoinType : forall a b : PJoinType, enc_PJoinType a = enc_PJoinType b -> a = b.
Proof. exact enc_injective_PJoinType. Qed.
Theorem C36_dec_enc_PJoinSide : forall v : PJoinSide, dec_PJoinSide (enc_PJoinSide v) = Some v.
Proof. exact dec_enc_PJoinSide. Qed.
Theorem C36_enc_injective_PJoinSide : forall a b : PJoinSide, enc_PJoinSide a = enc_PJoinSide b -> a = b.
Proof. exact enc_injective_PJoinSide. Qed.
Theorem C36_dec_enc_PNullEquality : forall v : PNullEquality, dec_PNullEquality (enc_PNullEquality v) = Some v.
Proof. exact dec_enc_PNullEquality. Qed.
Theorem C36_enc_injective_PNullEquality : forall a b : PNullEquality, enc_PNullEquality a = enc_PNullEquality b -> a = b.
Proof. exact enc_injective_PNullEquality. Qed.
Theorem C36_dec_enc_PartitionMode : forall v : PartitionMode, dec_PartitionMode (enc_PartitionMode v) = Some v.
Proof. exact dec_enc_PartitionMode. Qed.
Theorem C36_enc_injective_PartitionMode : forall a b : PartitionMode, enc_PartitionMode a = enc_PartitionMode b -> a = b.
Proof. exact enc_injective_PartitionMode. Qed.
Theorem C36_dec_enc_SymJoinType : forall v : SymJoinType, dec_SymJoinType (enc_SymJoinType v) = Some v.
Proof. exact dec_enc_SymJoinType. Qed.
Theorem C36_enc_injective_SymJoinType : forall a b : SymJoinType, enc_SymJoinType a = enc_SymJoinType b -> a = b.
Proof. exact enc_injective_SymJoinType. Qed.
Theorem C36_dec_enc_SymNullEquality : forall v : SymNullEquality, dec_SymNullEquality (enc_SymNullEquality v) = Some v.
Proof. exact dec_enc_SymNullEquality. Qed.
Theorem C36_enc_injective_SymNullEquality : forall a b : SymNullEquality, enc_SymNullEquality a = enc_SymNullEquality b -> a = b.
Proof. exact enc_injective_SymNullEquality. Qed.
Theorem C36_dec_enc_SymJoinSide : forall v : SymJoinSide, dec_SymJoinSide (enc_SymJoinSide v) = Some v.
Proof. exact dec_enc_SymJoinSide. Qed.
Theorem C36_enc_injective_SymJoinSide : forall a b : SymJoinSide, enc_SymJoinSide a = enc_SymJoinSide b -> a = b.
Proof. exact enc_injective_SymJoinSide. Qed.
Theorem C36_dec_enc_StreamJoinPartitionMode : forall v : StreamJoinPartitionMode, dec_StreamJoinPartitionMode (enc_StreamJoinPartitionMode v) = Some v.
Proof. exact dec_enc_StreamJoinPartitionMode. Qed.
Theorem C36_enc_injective_StreamJoinPartitionMode : forall a b : StreamJoinPartitionMode, enc_StreamJoinPartitionMode a = enc_StreamJoinPartitionMode b -> a = b.
Proof. exact enc_injective_StreamJoinPartitionMode. Qed.
Theorem C36_dec_enc_AggregateMode : forall v : AggregateMode, dec_AggregateMode (enc_AggregateMode v) = Some v.
Proof. exact dec_enc_AggregateMode. Qed.
Theorem C36_enc_injective_AggregateMode : forall a b : AggregateMode, enc_AggregateMode a = enc_AggregateMode b -> a = b.
Proof. exact enc_injective_AggregateMode. Qed.
Theorem C36_dec_enc_PWindowFrameUnits : forall v : PWindowFrameUnits, dec_PWindowFrameUnits (enc_PWindowFrameUnits v) = Some v.
Proof. exact dec_enc_PWindowFrameUnits. Qed.
Theorem C36_enc_injective_PWindowFrameUnits : forall a b : PWindowFrameUnits, enc_PWindowFrameUnits a = enc_PWindowFrameUnits b -> a = b.
Proof. exact enc_injective_PWindowFrameUnits. Qed.
Theorem C36_dec_enc_PWindowFrameBound : forall v : PWindowFrameBound, dec_PWindowFrameBound (enc_PWindowFrameBound v) = Some v.
Proof. exact dec_enc_PWindowFrameBound. Qed.
Theorem C36_enc_injective_PWindowFrameBound : forall a b : PWindowFrameBound, enc_PWindowFrameBound a = enc_PWindowFrameBound b -> a = b.
Proof. exact enc_injective_PWindowFrameBound. Qed.
Theorem C36_dec_enc_PExplainFormat : forall v : PExplainFormat, dec_PExplainFormat (enc_PExplainFormat v) = Some v.
Proof. exact dec_enc_PExplainFormat. Qed.
Theorem C36_enc_injective_PExplainFormat : forall a b : PExplainFormat, enc_PExplainFormat a = enc_PExplainFormat b -> a = b.
Proof. exact enc_injective_PExplainFormat. Qed.
Theorem C36_dec_enc_InsertOp : forall v : InsertOp, dec_InsertOp (enc_InsertOp v) = Some v.
Proof. exact dec_enc_InsertOp. Qed.
Theorem C36_enc_injective_InsertOp : forall a b : InsertOp, enc_InsertOp a = enc_InsertOp b -> a = b.
Proof. exact enc_injective_InsertOp. Qed.
Theorem C36_dec_enc_FileOutputMode : forall v : FileOutputMode, dec_FileOutputMode (enc_FileOutputMode v) = Some v.
Proof. exact dec_enc_FileOutputMode. Qed.
Theorem C36_enc_injective_FileOutputMode : forall a b : FileOutputMode, enc_FileOutputMode a = enc_FileOutputMode b -> a = b.
Proof. exact enc_injective_FileOutputMode. Qed.

(* ---- (2) records, (3) boundary facts *)
Theorem C36_generated_tables_ok :
  forallb (fun r => snd (fst (fst r))) generated_tables_physical = true /\
  forallb (fun r => match snd r with [] => true | _ => false end) generated_tables_physical = true.
Proof. exact generated_tables_physical_checked. Qed.

Theorem C36_sort_options_round_trip : forall o : sort_options, dec_sort (enc_sort o) = o.
Proof. exact dec_enc_sort. Qed.

Theorem C36_sort_options_injective : forall a b : sort_options, enc_sort a = enc_sort b -> a = b.
Proof. exact enc_sort_injective. Qed.

Theorem C36_hash_join_options_round_trip : forall h : c36_hj, proj_ok (hj_projection _ _ _ h) = true -> c36_dec_hj (c36_enc_hj h) = Some h.
Proof. exact c36_dec_enc_hj. Qed.

Theorem C36_hash_join_options_injective : forall a b : c36_hj,
  proj_ok (hj_projection _ _ _ a) = true -> proj_ok (hj_projection _ _ _ b) = true -> c36_enc_hj a = c36_enc_hj b -> a = b.
Proof. exact c36_enc_hj_injective. Qed.

Theorem C36_projection_round_trip : forall p : option (list Z), proj_ok p = true -> dec_proj (enc_proj p) = p.
Proof. exact dec_enc_proj. Qed.

Theorem C36_projection_none_vs_empty : enc_proj None <> enc_proj (Some []).
Proof. exact proj_none_vs_empty. Qed.

Theorem C36_projection_sentinel_refuted : dec_proj (enc_proj (Some [4294967295])) = Some [].
Proof. exact proj_sentinel_collision. Qed.

(* non-trivial instance: a LeftSemi / Partitioned / NullEqualsNull join with the EMPTY projection and a fetch travels as the tags
   4 / 1 / 1, the sentinel [u32::MAX], and comes back unchanged *)
Example C36_nonvacuous :
  let h : c36_hj := mk_hj _ _ _ PJoinType_LeftSemi PartitionMode_Partitioned PNullEquality_NullEqualsNull false (Some []) (Some 7) in
  proj_ok (hj_projection _ _ _ h) = true /\
  c36_enc_hj h = mk_phj 4 1 1 false [4294967295] (Some 7) /\
  c36_dec_hj (c36_enc_hj h) = Some h.
Proof. vm_compute. repeat split. Qed.
