(* C22 -- statistics-based pruning never skips a container with a matching row.
   Model: Model/Pruning.v (the rewrite of build_predicate_expression and PruningPredicate::prune for
   predicates over nullable Int64 / Boolean columns).  The LiteralGuarantee pass and the shapes outside
   the modelled fragment (casts, negation, LIKE, Boolean comparisons) are tied by the oracle only. *)
From DF Require Import Base.Prelude Model.Pruning Proofs.PruningProofs.
Open Scope Z_scope.

(* For every predicate of the modelled language, every container (any number of rows) and every
   statistics that are valid for it (min/max bound the non-null values, counts exact, any of them
   possibly unknown): if prune says skip, no row of the container makes the predicate TRUE. *)
Theorem C22_prune_sound :
  forall p rows st, valid_stats rows st -> prune st p = false ->
    forall r, In r rows -> eval r p <> Some true.
Proof. exact prune_sound. Qed.

(* The same, one level down: the rewritten predicate is never FALSE on valid statistics of a
   container that holds a row on which the original predicate is TRUE. *)
Theorem C22_rewrite_sound :
  forall p rows st r, valid_stats rows st -> In r rows ->
    eval r p = Some true -> seval st (rewrite p) <> Some false.
Proof. exact rewrite_sound. Qed.

(* IN lists: what is rewritten is the OR / AND chain the code builds, and that chain is TRUE on
   every row on which the IN predicate is TRUE. *)
Theorem C22_in_list_is_chain :
  forall c ls neg, (1 <= length ls <= MAX_IN_LIST_SIZE)%nat ->
    exists q, in_chain c ls neg = Some q /\ rw_in c ls neg = rewrite q.
Proof. exact rw_in_chain. Qed.

Theorem C22_in_chain_covers :
  forall r c ls neg q, in_chain c ls neg = Some q ->
    eval r (PIn c ls neg) = Some true -> eval r q = Some true.
Proof. exact in_chain_true. Qed.

(* The AND / OR constant folding of the rewrite preserves the value. *)
Theorem C22_folding_exact :
  forall st l r, seval st (mk_and l r) = and3 (seval st l) (seval st r) /\
                 seval st (mk_or l r) = or3 (seval st l) (seval st r).
Proof. intros. split; [apply mk_and_eval | apply mk_or_eval]. Qed.

(* The decidable validity test applied to every harness case implies the theorem's hypothesis;
   having no statistics at all is valid for every container. *)
Theorem C22_validity_check_sound :
  forall rows st, valid_statsb rows st = true -> valid_stats rows st.
Proof. exact valid_statsb_sound. Qed.

Theorem C22_unknown_stats_valid : forall rows, valid_stats rows no_stats.
Proof. exact valid_no_stats. Qed.

(* non-vacuity: valid statistics (one bound widened, one unknown, an all-NULL column with arbitrary
   bounds) for a 3-row container; the model skips it for some predicates and keeps it for others,
   and a skipped predicate is indeed TRUE on no row while a kept one is TRUE on some row. *)
Definition ex_rows : list row :=
  [ {| ri := [Some 1; None]; rb := [Some true] |};
    {| ri := [None; None];   rb := [None] |};
    {| ri := [Some 3; None]; rb := [Some true] |} ].
Definition ex_stats : stats :=
  {| si := [ {| imin := Some 0; imax := Some 3; inc := None |};
             {| imin := Some 0; imax := Some 0; inc := Some 3 |} ];
     sb := [ {| bmin := Some true; bmax := Some true; bnc := Some 1 |} ];
     src := Some 3 |}.

Example C22_nonvacuous :
  valid_stats ex_rows ex_stats /\
  prune ex_stats (PCmp OGt 0%nat (Some 3)) = false /\
  prune ex_stats (PCmp OEq 1%nat (Some 0)) = false /\
  prune ex_stats (PNot (PBCol 0%nat)) = false /\
  prune ex_stats (PAnd (PIsNotNull (CI 1%nat)) (PCmp OLe 0%nat (Some 5))) = false /\
  prune ex_stats (PIn 0%nat [Some 7; Some (-1)] false) = false /\
  prune ex_stats (POr (PCmp OLt 0%nat (Some 1)) (PIsNull (CI 0%nat))) = true /\
  prune ex_stats (PCmp ODf 0%nat (Some 1)) = true /\
  map (fun r => eval r (POr (PCmp OLt 0%nat (Some 1)) (PIsNull (CI 0%nat)))) ex_rows
    = [Some false; Some true; Some false].
Proof.
  split; [apply valid_statsb_sound; vm_compute; reflexivity|].
  vm_compute. repeat split; reflexivity.
Qed.
