(* C09 -- window functions match their frame definitions.
   Proved here: the incremental frame computations of window_state.rs (ROWS arithmetic; RANGE linear search resumed
   from the last range) produce exactly the declarative frame; frames move forward (ROWS, RANGE and GROUPS axes);
   sliding evaluation (add entering rows, retract leaving rows) equals recomputation over the frame.
   The GROUPS state machine (deque of group ends, prune_state) is modelled exactly and tied/tested against the
   definition, but its equality with the definition is not proved. *)
From DF Require Import Base.Prelude Model.WindowFrame Model.WindowFrameGroups Proofs.WindowFrameProofs.
From Coq Require Import Lia.
Open Scope Z_scope.

(* The declarative frame is the interval [s, e) as soon as s and e delimit it (any unit). *)
Theorem C09_frame_is_interval :
  forall so f ks i s e,
    frame_valid f = true -> delimits f (positions so (funits f) ks) i s e ->
    decl_frame so f ks i = seq s (e - s).
Proof. exact delimits_decl. Qed.

(* ROWS: calculate_range_rows (saturating_sub / min arithmetic) = the definition, as long as idx + n + 1 fits usize. *)
Theorem C09_rows_range_eq_def :
  forall so f ks i,
    funits f = Rows -> frame_valid f = true -> (i < length ks)%nat ->
    (forall n, fstart f = Foll n \/ fend f = Foll n -> Z.of_nat i + n + 1 <= usize_max) ->
    exists s e, rows_range f (zlen ks) (Z.of_nat i) = ORange (Z.of_nat s) (Z.of_nat e) /\
                (s <= e <= length ks)%nat /\ decl_frame so f ks i = seq s (e - s).
Proof. exact rows_range_eq_def_lemma. Qed.

(* RANGE, one call: for sorted keys and EVERY resume point (ls, le) lying before the frame of row idx, the linear
   search of calculate_index_of_row returns the frame of the definition (targets inside i64). *)
Theorem C09_range_step :
  forall so f ks (ls le idx : nat),
    funits f = Range -> frame_valid f = true -> sorted_keys so ks = true -> (idx < length ks)%nat ->
    range_fits so (fstart f) (nth idx ks None) -> range_fits so (fend f) (nth idx ks None) ->
    (ls <= length ks)%nat -> (le <= length ks)%nat ->
    (forall j, (j < ls)%nat -> ext_lt (kpos so ks j) (lo_of (fstart f) (kpos so ks idx)) = true) ->
    (forall j, (j < le)%nat -> ext_le (kpos so ks j) (hi_of (fend f) (kpos so ks idx)) = true) ->
    exists s e, range_range so f ks ls le (length ks) idx = Some (s, e) /\
                delimits f (positions so Range ks) idx s e.
Proof. exact range_step. Qed.

(* ... and the frame of any earlier row is such a resume point (this is why resuming from last_range is correct). *)
Theorem C09_range_resume :
  forall f ps i' i s e,
    sorted_pos ps -> (i' <= i < length ps)%nat -> delimits f ps i' s e ->
    (forall j, (j < s)%nat -> ext_lt (nth j ps PInf) (lo_of (fstart f) (nth i ps PInf)) = true) /\
    (forall j, (j < e)%nat -> ext_le (nth j ps PInf) (hi_of (fend f) (nth i ps PInf)) = true).
Proof. exact delimits_resume. Qed.

(* ... also when that earlier frame was computed on a shorter buffer (streaming: fewer rows had arrived). *)
Theorem C09_range_resume_prefix :
  forall f ps m i' i s e,
    sorted_pos ps -> (i' < m <= length ps)%nat -> (i' <= i < length ps)%nat -> delimits f (firstn m ps) i' s e ->
    (forall j, (j < s)%nat -> ext_lt (nth j ps PInf) (lo_of (fstart f) (nth i ps PInf)) = true) /\
    (forall j, (j < e)%nat -> ext_le (nth j ps PInf) (hi_of (fend f) (nth i ps PInf)) = true).
Proof. exact delimits_resume_prefix. Qed.

(* RANGE, whole partition processed row by row with last_range threaded through (aggregate_evaluate): every row's
   range is the declarative frame. *)
Theorem C09_range_range_eq_def :
  forall so f ks i,
    funits f = Range -> frame_valid f = true -> sorted_keys so ks = true -> all_fit so f ks ->
    (i < length ks)%nat ->
    exists s e, nth i (range_run so f ks 0 0 0 (length ks)) None = Some (s, e) /\
                (s <= e <= length ks)%nat /\ decl_frame so f ks i = seq s (e - s).
Proof. exact range_range_eq_def_lemma. Qed.

(* The axis of every unit is sorted (RANGE: when the keys are sorted per the sort options) ... *)
Theorem C09_positions_sorted :
  forall so u ks, (u = Range -> sorted_keys so ks = true) -> sorted_pos (positions so u ks).
Proof. exact positions_sorted. Qed.

(* ... hence frame starts and ends never move backwards (ROWS, RANGE, GROUPS). *)
Theorem C09_frame_monotone :
  forall so f ks i i' s e s' e',
    sorted_pos (positions so (funits f) ks) -> (i <= i' < length ks)%nat ->
    delimits f (positions so (funits f) ks) i s e -> delimits f (positions so (funits f) ks) i' s' e' ->
    (s <= s')%nat /\ (e <= e')%nat.
Proof. exact frame_monotone_lemma. Qed.

(* Sliding evaluation over frames that move forward = recomputation over every frame. *)
Theorem C09_sliding_eq_recompute :
  forall xs frames last,
    (fst last <= snd last)%nat -> forward_frames last frames ->
    slide_run xs (acc_of xs last) last frames = map (acc_of xs) frames.
Proof. exact sliding_eq_recompute_lemma. Qed.

(* The accumulator's readings are SUM / COUNT over the frame's rows (NULL arguments ignored; empty -> NULL / 0). *)
Theorem C09_acc_values :
  forall xs s e,
    acc_sum (acc_of xs (s, e)) = eval_over FSum (slice xs s e) /\
    acc_count (acc_of xs (s, e)) = eval_over FCount (slice xs s e).
Proof. exact acc_values. Qed.

(* The argument values of the rows of an interval frame are the slice the executors pass to the accumulators. *)
Theorem C09_frame_values :
  forall (l : list (option Z)) d n s, (s + n <= length l)%nat ->
    map (fun j => nth j l d) (seq s n) = slice l s (s + n).
Proof. exact (@frame_values_slice (option Z)). Qed.

(* GROUPS (bounded, exhaustive -- NOT a general proof): for every partition of at most 7 rows over the keys {0, 1, NULL}
   (every pattern of equal/different neighbours) and every valid GROUPS frame with offsets at most 3, the state machine
   run over the whole partition returns exactly the declarative frame of every row. *)
Theorem C09_groups_eq_def_bounded : groups_exhaustive 7 3 = true.
Proof. vm_compute. reflexivity. Qed.

(* The implementation (as modelled, and as observed: listed findings) leaves the definition outside the stated
   hypotheses: (1) ROWS .. n FOLLOWING with idx + n + 1 >= 2^64 overflows usize; *)
Theorem C09_rows_overflow_refuted :
  exists f len idx, frame_valid f = true /\ funits f = Rows /\ 0 <= idx < len /\ rows_range f len idx = OOverflow.
Proof.
  exists {| funits := Rows; fstart := Cur; fend := Foll 18446744073709551615 |}, 3, 0.
  repeat split; try reflexivity; try lia.
Qed.

(* (2) RANGE with key -/+ offset outside i64 collapses to last_range.start / length, which is not the frame when a
   NULL group sits at that end of the partition. *)
Theorem C09_range_overflow_refuted :
  exists so f ks i s e,
    frame_valid f = true /\ funits f = Range /\ sorted_keys so ks = true /\ (i < length ks)%nat /\
    nth i (range_run so f ks 0 0 0 (length ks)) None = Some (s, e) /\ decl_frame so f ks i <> seq s (e - s).
Proof.
  exists {| so_desc := false; so_nf := true |}, {| funits := Range; fstart := Prec 5; fend := Cur |},
         [None; None; Some (-9223372036854775807); Some (-9223372036854775805)], 2%nat, 0%nat, 3%nat.
  repeat split; try reflexivity; try (cbn; lia). vm_compute. intros H. discriminate H.
Qed.

(* non-vacuity: a descending, nulls-first partition with ties; all hypotheses of C09_range_range_eq_def hold *)
Example C09_nonvacuous :
  let so := {| so_desc := true; so_nf := true |} in
  let f := {| funits := Range; fstart := Prec 1; fend := Foll 1 |} in
  let ks := [None; Some 9; Some 8; Some 8; Some 6; Some 5] in
  frame_valid f = true /\ sorted_keys so ks = true /\
  range_run so f ks 0 0 0 (length ks) =
    [Some (0, 1); Some (1, 4); Some (1, 4); Some (1, 4); Some (4, 6); Some (4, 6)]%nat /\
  map (decl_frame so f ks) (seq 0 6) = [[0]; [1; 2; 3]; [1; 2; 3]; [1; 2; 3]; [4; 5]; [4; 5]]%nat /\
  map (eval_window so f FSum ks [Some 1; Some 2; None; Some 4; Some 5; Some 6]) (seq 0 6) =
    [WInt 1; WInt 6; WInt 6; WInt 6; WInt 11; WInt 11].
Proof. vm_compute. repeat split; reflexivity. Qed.
