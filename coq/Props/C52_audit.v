From Coq Require Import List NArith Bool.
From DF Require Import Model.Idents Props.C52.
Import ListNotations.
Local Open Scope N_scope.
Check C52_table_ref_roundtrip :
  forall (ua us : N -> bool) (r : tref) (ignore_case : bool),
    ref_ok r = true -> parse_str_normalized ua us (to_quoted_string r) ignore_case = r.
Check C52_column_roundtrip :
  forall (ua us : N -> bool) (c : column) (ignore_case : bool),
    col_ok c = true -> from_qualified_name_ic ua us (quoted_flat_name c) ignore_case = c.
Check C52_quote_identifier_injective :
  forall a b : str, quote_identifier a = quote_identifier b -> a = b.
Check C52_quoted_text_injective :
  forall (r1 r2 : tref),
    ref_ok r1 = true -> ref_ok r2 = true -> to_quoted_string r1 = to_quoted_string r2 -> r1 = r2.
Check C52_unquoted_is_safe :
  forall (ua us : N -> bool) (p : str),
    nonempty p = true -> needs_quotes p = false ->
    quote_identifier p = p /\ parse_identifiers_normalized ua us p false = [p].
Check C52_flat_name_plain :
  forall (ua us : N -> bool) (c : column) (ignore_case : bool),
    col_plain c = true -> col_ok c = true ->
    flat_name c = quoted_flat_name c /\ from_qualified_name_ic ua us (flat_name c) ignore_case = c.
Check C52_tokenize_fuel_irrelevant :
  forall (ua us : N -> bool) (f1 f2 : nat) (s : str) (prev : option token),
    (length s <= f1)%nat -> (length s <= f2)%nat -> tokenize ua us f1 s prev = tokenize ua us f2 s prev.
Check C52_empty_part_refuted :
  forall (ua us : N -> bool),
    parse_str ua us (to_quoted_string (Partial [] [116])) = Bare [46; 116] /\
    parse_str ua us (to_quoted_string (Partial [116] [])) = Bare [116; 46] /\
    parse_str ua us (to_quoted_string (Full [99] [] [116])) = Bare [99; 46; 46; 116] /\
    from_qualified_name ua us (quoted_flat_name (mkcol (Some (Bare [])) [120])) = mkcol None [46; 120].
Check C52_ns_table_ref_roundtrip :
  forall (r : tref) (ignore_case : bool),
    ref_ok_ns r = true -> parse_str_normalized_ns (to_quoted_string r) ignore_case = r.
Check C52_ns_column_roundtrip :
  forall (c : column), col_ok_ns c = true -> from_qualified_name_ns (quoted_flat_name c) = c.
Check C52_ns_empty_last_refuted :
  parse_str_ns (to_quoted_string (Partial [116] [])) = Bare [116] /\
  parse_str_ns (to_quoted_string (Full [99] [115] [])) = Partial [99] [115] /\
  from_qualified_name_ns (quoted_flat_name (mkcol (Some (Bare [116])) [])) = mkcol None [116] /\
  parse_str_ns (to_quoted_string (Full [] [] [116])) = Full [] [] [116].
(* the definitions the statements rest on, so a change of meaning is visible in the audit log *)
Print needs_quotes.
Print quote_identifier.
Print ref_ok.
Print col_ok.
Print ref_ok_ns.
Print col_ok_ns.
Print Assumptions C52_table_ref_roundtrip.
Print Assumptions C52_column_roundtrip.
Print Assumptions C52_quote_identifier_injective.
Print Assumptions C52_quoted_text_injective.
Print Assumptions C52_unquoted_is_safe.
Print Assumptions C52_flat_name_plain.
Print Assumptions C52_tokenize_fuel_irrelevant.
Print Assumptions C52_empty_part_refuted.
Print Assumptions C52_ns_table_ref_roundtrip.
Print Assumptions C52_ns_column_roundtrip.
Print Assumptions C52_ns_empty_last_refuted.
Print Assumptions C52_nonvacuous.
