From DF Require Import Base.Prelude Model.MemTableDML Proofs.MemTableDMLProofs Props.C39.
From Coq Require Import Permutation.
Open Scope Z_scope.
Check C39_delete_spec :
  forall n t w t' c,
    step n t (SDelete w) = (t', c) ->
    rows_of t' = filter (fun r => negb (holds w r)) (rows_of t) /\
    c = zlen (filter (holds w) (rows_of t)) /\
    c = zlen (rows_of t) - zlen (rows_of t') /\
    length t' = length t /\
    Forall (Forall (fun b => b <> [])) t'.
Check C39_update_spec :
  forall n t asg w t' c,
    NoDup (targets asg) ->
    step n t (SUpdate asg w) = (t', c) ->
    rows_of t' = map (fun r => if holds w r then ref_update_row asg r else r) (rows_of t) /\
    c = zlen (filter (holds w) (rows_of t)) /\
    length t' = length t.
Check C39_update_sees_pre_update_row :
  forall n t asg w t' c,
    NoDup (targets asg) ->
    step n t (SUpdate asg w) = (t', c) ->
    Forall2 (fun old new =>
               length new = length old /\
               (holds w old = true ->
                  (forall j e, In (j, e) asg -> (j < length old)%nat -> nth j new None = eval_i old e) /\
                  (forall j, ~ In j (targets asg) -> nth j new None = nth j old None)) /\
               (holds w old = false -> new = old))
            (rows_of t) (rows_of t').
Check C39_insert_spec :
  forall n t cols vals t' c,
    t <> [] ->
    step n t (SInsert cols vals) = (t', c) ->
    Permutation (rows_of t') (rows_of t ++ map (place n cols) vals) /\
    c = zlen vals /\
    length t' = length t.
Check C39_insert_column_list :
  forall ncols cs v,
    NoDup cs ->
    length (place ncols (Some cs) v) = ncols /\
    (forall j i, nth_error cs j = Some i -> (i < ncols)%nat -> nth i (place ncols (Some cs) v) None = nth j v None) /\
    (forall i, ~ In i cs -> nth i (place ncols (Some cs) v) None = None).
Check C39_counts_exact :
  forall n t s,
    t <> [] -> stmt_ok s ->
    let t' := fst (step n t s) in
    let c := snd (step n t s) in
    match s with
    | SInsert _ vals => c = zlen vals /\ zlen (rows_of t') = zlen (rows_of t) + c
    | SDelete w => c = zlen (filter (holds w) (rows_of t)) /\ zlen (rows_of t') = zlen (rows_of t) - c
    | SUpdate _ w => c = zlen (filter (holds w) (rows_of t)) /\ zlen (rows_of t') = zlen (rows_of t)
    end.
Check C39_history_refines_reference :
  forall n t ss,
    t <> [] -> Forall stmt_ok ss ->
    Permutation (rows_of (fst (run n t ss))) (fst (ref_run n (rows_of t) ss)) /\
    snd (run n t ss) = snd (ref_run n (rows_of t) ss).
Check C39_history_without_insert_in_order :
  forall n ss t,
    Forall stmt_ok ss -> forallb no_insert ss = true ->
    rows_of (fst (run n t ss)) = fst (ref_run n (rows_of t) ss) /\
    snd (run n t ss) = snd (ref_run n (rows_of t) ss).
Check C39_batching_irrelevant :
  forall n t1 t2 s,
    (match s with SInsert _ _ => False | _ => True end) -> stmt_ok s ->
    rows_of t1 = rows_of t2 ->
    rows_of (fst (step n t1 s)) = rows_of (fst (step n t2 s)) /\ snd (step n t1 s) = snd (step n t2 s).
Check C39_constant_where_selects_no_row :
  forall w, folds_away w = true -> forall r, holds w r = false.
Check C39_upstream_constant_where_refuted :
  exists t w,
    (forall r, holds w r = false) /\ rows_of t <> [] /\
    rows_of (fst (step_upstream 3 t (SDelete w))) = [] /\
    snd (step_upstream 3 t (SDelete w)) = zlen (rows_of t) /\
    snd (step_upstream 3 t (SUpdate [(0%nat, ILit 9)] w)) = zlen (rows_of t).
Print Assumptions C39_delete_spec.
Print Assumptions C39_update_spec.
Print Assumptions C39_update_sees_pre_update_row.
Print Assumptions C39_insert_spec.
Print Assumptions C39_insert_column_list.
Print Assumptions C39_counts_exact.
Print Assumptions C39_history_refines_reference.
Print Assumptions C39_history_without_insert_in_order.
Print Assumptions C39_batching_irrelevant.
Print Assumptions C39_constant_where_selects_no_row.
Print Assumptions C39_upstream_constant_where_refuted.
Print Assumptions C39_nonvacuous_swap.
