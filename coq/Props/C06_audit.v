(* generated from Props/C06.v: pins every statement and prints the assumptions *)
From Coq Require Import List Permutation Sorted.
From DF Require Import Base.Prelude Model.RefSQL Model.PhysDecomp Proofs.PhysDecompGroup Model.GroupOrder Proofs.GroupOrderProofs Props.C06.
Import ListNotations.
Local Open Scope nat_scope.
Check @C06_sorted_is_clustered :
  forall {S} (R : S -> S -> Prop), (forall a b, R a b -> R b a -> a = b) ->
  forall l, StronglySorted R l -> clustered l.
Check C06_clusteredb_sound :
  forall l : list row, clusteredb l = true -> clustered l.
Check @C06_first_seen_is_definition :
  forall {A} (l : list (row * A)), Permutation (fs_groups l) (group_pairs l).
Check @C06_early_emit_safe :
  forall {A} full idx bs (evs : list (ev A)) rest,
    Forall is_feed evs -> sorted_on full idx (evs_input evs ++ rest) ->
    exists outs t, ot_run bs evs (OTab [] (ord_start full idx)) = Some (outs, t) /\
      (forall g, In g (concat outs) ->
         snd g = members (fst g) (evs_input evs ++ rest) /\ forall p, In p rest -> fst p <> fst g) /\
      concat outs ++ ot_gs t = fs_groups (evs_input evs).
Check @C06_ordered_stream_exact :
  forall {A} full idx bs (evs : list (ev A)) n,
    1 <= bs -> Forall is_feed evs -> sorted_on full idx (evs_input evs) -> length (evs_input evs) <= n ->
    exists outs, ot_run bs (evs ++ EvDone :: repeat EvEmit n) (OTab [] (ord_start full idx))
                 = Some (outs, OTab [] (gord_input_done (ord_start full idx))) /\
                 concat outs = fs_groups (evs_input evs).
Check C06_ordered_single_eq_definition :
  forall fn full idx bs (evs : list (ev value)) n,
    1 <= bs -> Forall is_feed evs -> sorted_on full idx (evs_input evs) -> length (evs_input evs) <= n ->
    exists outs t, ot_run bs (evs ++ EvDone :: repeat EvEmit n) (OTab [] (ord_start full idx)) = Some (outs, t) /\
                   ot_gs t = [] /\ Permutation (values_of fn (concat outs)) (ref_groups fn (evs_input evs)).
Check C06_ordered_final_eq_hashed :
  forall fn full idx bs (evs : list (ev (res pstate))) n,
    1 <= bs -> Forall is_feed evs -> sorted_on full idx (evs_input evs) -> length (evs_input evs) <= n ->
    exists outs t, ot_run bs (evs ++ EvDone :: repeat EvEmit n) (OTab [] (ord_start full idx)) = Some (outs, t) /\
                   ot_gs t = [] /\ Permutation (finals_of fn (concat outs)) (final_groups fn (evs_input evs)).
Check C06_ordered_partial_then_final :
  forall fn full idx bs (l : list (row * value)) (evss : list (list (ev value))),
    Forall (fun evs => Forall is_feed evs /\ sorted_on full idx (evs_input evs)) evss ->
    is_split l (map evs_input evss) -> agg_dom fn (map snd l) ->
    Permutation (final_groups fn (concat (map (fun evs => states_of fn (seg_out full idx bs evs)) evss)))
                (ref_groups fn l).
Check C06_spill_merge_eq :
  forall fn leb (l : list (row * value)) segs,
    is_split l segs -> agg_dom fn (map snd l) -> Permutation (spill_merge fn leb segs) (ref_groups fn l).
Check C06_spill_replay_ordered :
  forall fn leb (l : list (row * value)) segs bs (evs : list (ev (res pstate))) n,
    is_split l segs -> agg_dom fn (map snd l) ->
    evs_input evs = kmerge leb (spill_runs fn leb segs) -> sorted_on true [] (evs_input evs) ->
    1 <= bs -> Forall is_feed evs -> length (evs_input evs) <= n ->
    exists outs t, ot_run bs (evs ++ EvDone :: repeat EvEmit n) (OTab [] (OFull FStart)) = Some (outs, t) /\
                   ot_gs t = [] /\ Permutation (finals_of fn (concat outs)) (ref_groups fn l).
Check C06_skip_partial_eq :
  forall fn (assign : row -> nat) (l : list (row * value)) pss (T : nat -> list (row * res pstate)) n,
    is_split l (map (fun ps => fst ps ++ snd ps) pss) -> agg_dom fn (map snd l) ->
    is_split (concat (map (skip_partial_out fn) pss)) (parts_of T n) -> key_respecting fst assign T n ->
    Permutation (concat (map (fun i => final_groups fn (T i)) (seq 0 n))) (ref_groups fn l).
Check C06_skip_partial_single_final :
  forall fn (l : list (row * value)) pss,
    is_split l (map (fun ps => fst ps ++ snd ps) pss) -> agg_dom fn (map snd l) ->
    Permutation (final_groups fn (concat (map (skip_partial_out fn) pss))) (ref_groups fn l).
Check C06_grouping_sets_union :
  forall fn (ms : list (list bool)) (l : list (row * value)),
    l <> [] -> NoDup (map (fun mo : list bool * BinNums.Z => set_id (fst mo) (snd mo)) (with_ordinals [] ms)) ->
    Permutation (grouping_sets_exec fn ms l) (grouping_sets_def fn ms l).
Check C06_grouping_sets_ids_distinct :
  map (fun mo : list bool * BinNums.Z => set_id (fst mo) (snd mo))
      (with_ordinals [] [[false; false]; [false; true]; [true; true]; [false; true]]) = [0; 1; 3; 5]%Z.
Check C06_nonvacuous :
  let r := fun a b v => ([VInt a; VInt b], VInt v) in
  let b1 := [r 1 1 10; r 2 1 20; r 1 1 30]%Z in
  let b2 := [r 2 1 40; r 3 2 50]%Z in
  let b3 := [r 3 2 60; r 1 2 70]%Z in
  let evs := [EvBatch b1; EvEmit; EvBatch b2; EvEmit; EvBatch b3; EvEmit] in
  Forall is_feed evs /\ sorted_on false [1] (evs_input evs) /\
  option_map fst (ot_run 2 evs (OTab [] (ord_start false [1])))
    = Some [[]; []; []; [([VInt 1; VInt 1], [VInt 10; VInt 30]); ([VInt 2; VInt 1], [VInt 20; VInt 40])]%Z; []; []] /\
  option_map (fun r => concat (fst r)) (ot_run 2 (evs ++ EvDone :: repeat EvEmit 7) (OTab [] (ord_start false [1])))
    = Some (fs_groups (evs_input evs)).
Print Assumptions C06_sorted_is_clustered.
Print Assumptions C06_clusteredb_sound.
Print Assumptions C06_first_seen_is_definition.
Print Assumptions C06_early_emit_safe.
Print Assumptions C06_ordered_stream_exact.
Print Assumptions C06_ordered_single_eq_definition.
Print Assumptions C06_ordered_final_eq_hashed.
Print Assumptions C06_ordered_partial_then_final.
Print Assumptions C06_spill_merge_eq.
Print Assumptions C06_spill_replay_ordered.
Print Assumptions C06_skip_partial_eq.
Print Assumptions C06_skip_partial_single_final.
Print Assumptions C06_grouping_sets_union.
Print Assumptions C06_grouping_sets_ids_distinct.
Print Assumptions C06_nonvacuous.
