From Coq Require Import List ZArith Bool.
From DF Require Import Base.Prelude Model.Boundary Props.C26.
Import ListNotations.
Open Scope Z_scope.
Check C26_range_owns_lines :
  forall t L chunker file s e,
    1 <= L -> zlen file < U64MAX -> chunker_ok file chunker -> 0 <= s -> 0 <= e ->
    exists o, stream_run t L chunker (zlen file) s e = ROk o /\
              concat o = concat (owned t file s e).
Check C26_ranges_partition_file :
  forall t L (cks : Z * Z -> Z -> Z -> list (list Z)) file rs b,
    1 <= L -> zlen file < U64MAX -> (forall r, chunker_ok file (cks r)) ->
    chain 0 b rs -> zlen file <= b ->
    exists outs,
      Forall2 (fun r o => range_bytes t L (cks r) (zlen file) (fst r) (snd r) = Some o) rs outs /\
      outs = map (fun r => concat (owned t file (fst r) (snd r))) rs /\
      concat outs = file /\
      concat (map (fun r => owned t file (fst r) (snd r)) rs) = split_lines t file.
Check C26_no_underflow :
  forall t L chunker file s e,
    1 <= L -> zlen file < U64MAX -> chunker_ok file chunker -> 0 <= s -> 0 <= e ->
    stream_run t L chunker (zlen file) s e <> RPanic /\
    stream_run t L chunker (zlen file) s e <> RFuel.
Check C26_lookahead_irrelevant :
  forall t L1 L2 ck1 ck2 file s e,
    1 <= L1 -> 1 <= L2 -> zlen file < U64MAX -> chunker_ok file ck1 -> chunker_ok file ck2 ->
    0 <= s -> 0 <= e ->
    range_bytes t L1 ck1 (zlen file) s e = range_bytes t L2 ck2 (zlen file) s e.
Check C26_evenly_by_size_partitions :
  forall n min_size files gs,
    1 <= n -> Forall (fun f => fst f <= snd f) files ->
    repartition_evenly n min_size files = SGroups gs ->
    forall k f, nth_error files k = Some f ->
      chain (fst f) (snd f)
        (map (fun x : Z * Z * Z => (snd (fst x), snd x))
             (filter (fun x : Z * Z * Z => fst (fst x) =? Z.of_nat k) (concat gs))).
Check C26_repartitioned_scan_reads_file :
  forall t L (cks : Z * Z -> Z -> Z -> list (list Z)) n min_size files gs k file,
    1 <= L -> zlen file < U64MAX -> (forall r, chunker_ok file (cks r)) ->
    1 <= n -> Forall (fun f => fst f <= snd f) files ->
    repartition_evenly n min_size files = SGroups gs ->
    nth_error files k = Some (0, zlen file) ->
    let rs := map (fun x : Z * Z * Z => (snd (fst x), snd x))
                  (filter (fun x : Z * Z * Z => fst (fst x) =? Z.of_nat k) (concat gs)) in
    exists outs,
      Forall2 (fun r o => range_bytes t L (cks r) (zlen file) (fst r) (snd r) = Some o) rs outs /\
      concat outs = file /\
      concat (map (fun r => owned t file (fst r) (snd r)) rs) = split_lines t file.
Check C26_pat_chunker_ok :
  forall file pat trail, chunker_ok file (pat_chunker file pat trail).
Print Assumptions C26_range_owns_lines.
Print Assumptions C26_ranges_partition_file.
Print Assumptions C26_no_underflow.
Print Assumptions C26_lookahead_irrelevant.
Print Assumptions C26_evenly_by_size_partitions.
Print Assumptions C26_repartitioned_scan_reads_file.
Print Assumptions C26_pat_chunker_ok.
Print Assumptions C26_nonvacuous.
