(* C05 -- every join operator computes exactly its join type's result.
   Property theorems only.  Model: Model/JoinAlgo.v; proofs: Proofs/JoinAlgoProofs.v.
   Vocabulary (all defined in the model file):
     join_def t on wl wr L R   the DEFINITION: RefSQL's nested-loop combinators (inner_join, left_join, right_join,
                               full_join, semi_join, anti_join; marks = every row with the flag "has a match") for the
                               ten join types; on_of nulleq kl kr filt = equality keys under the NULL-equality mode AND
                               the residual filter (a NULL filter result counts as false)
     hash_join hash t nulleq kb kp filt wl wr B paging pbs
                               the build/probe ALGORITHM of HashJoinExec: build side B (= left) indexed by the hash of
                               the key, probe batches pbs, per batch the candidate list cut into pages (paging), visited
                               bitmap across batches, adjust_indices_by_join_type per page, final unmatched/semi/mark rows
     smj_run t nulleq so kl kr filt wl wr L R
                               the merge ALGORITHM of SortMergeJoinExec over inputs sorted by sort options so
     na_left_anti / na_right_probe   the null-aware (NOT IN) variants of the hash join
   Rows are bags: results are compared up to Permutation. *)
From Coq Require Import List ZArith Bool Permutation.
From DF Require Import Base.Prelude Model.RefSQL Proofs.RefSQLLaws Model.JoinAlgo Proofs.JoinAlgoProofs.
Import ListNotations.
Open Scope Z_scope.

(* (1) The hash join computes the definition: for EVERY join type, NULL-equality mode, key functions, residual
   filter, hash function (collisions included), build side, probe batching and paging of the candidate lists. *)
Theorem C05_hash_join_correct : forall hash t nulleq kb kp filt wl wr B paging pbs,
  Permutation (hash_join hash t nulleq kb kp filt wl wr B paging pbs)
              (join_def t (on_of nulleq kb kp filt) wl wr B (concat pbs)).
Proof. exact hash_join_correct. Qed.

(* (2) ... hence the result does not depend on how the probe side is cut into batches, on where the output-size
   limit cuts the candidate lists, or on the hash function. *)
Theorem C05_probe_batching_irrelevant : forall hash hash' t nulleq kb kp filt wl wr B paging paging' pbs pbs',
  concat pbs = concat pbs' ->
  Permutation (hash_join hash t nulleq kb kp filt wl wr B paging pbs)
              (hash_join hash' t nulleq kb kp filt wl wr B paging' pbs').
Proof. exact probe_batching_irrelevant. Qed.

(* (3) NullEqualsNothing: a key with a NULL matches nothing (definition), and such rows never become candidates
   in the algorithm (NULL build keys are not indexed, NULL probe keys are not looked up). *)
Theorem C05_null_keys_never_match : forall hash kb kp filt B pb,
  (forall l r, no_null (kb l) = false \/ no_null (kp r) = false -> on_of false kb kp filt l r = false) /\
  (forall p b, In (p, b) (candidates hash false kb kp B pb) ->
     no_null (kp (nth p pb [])) = true /\ no_null (kb (brow B b)) = true).
Proof. exact null_keys_never_match. Qed.

(* (4) The sort-merge join computes the definition on inputs sorted on the key (any sort options, both
   NULL-equality modes, any residual filter, all ten join types). *)
Theorem C05_smj_correct : forall t nulleq so kl kr filt wl wr L R,
  key_sorted so kl L -> key_sorted so kr R ->
  Permutation (smj_run t nulleq so kl kr filt wl wr L R) (join_def t (on_of nulleq kl kr filt) wl wr L R).
Proof. exact smj_correct. Qed.

(* (5) The null-aware anti joins compute NOT IN: the build-side variant (LeftAnti) and the probe-side variant
   (RightAnti) keep exactly the rows x for which  key(x) NOT IN (keys of the other side)  is TRUE in SQL's
   three-valued logic ... *)
Theorem C05_null_aware_anti_correct : forall hash kb1 kp1 wl B paging pbs,
  na_left_anti hash kb1 kp1 (fun _ _ => true) wl B paging pbs = not_in_def kb1 kp1 B (concat pbs) /\
  Permutation (na_right_probe hash kb1 kp1 wl B paging pbs) (not_in_def kp1 kb1 (concat pbs) B).
Proof. intros. split; [apply na_left_anti_correct | apply na_right_anti_correct]. Qed.

(* ... which, by C01's law C01_not_in_null_aware_anti, is the anti join on "x = y is not FALSE". *)
Theorem C05_not_in_def_as_anti : forall k ki X Inner,
  not_in_def k ki X Inner
  = filter (fun x => negb (existsb (fun v => match eq3 (inj (k x)) v with TF => false | _ => true end)
                                   (map (fun y => inj (ki y)) Inner))) X.
Proof. exact not_in_def_as_anti. Qed.

(* (6) The definition is RefSQL's: outer joins decompose into the inner join plus the NULL-padded unmatched rows
   (the laws of Proofs/RefSQLLaws.v apply to join_def verbatim). *)
Theorem C05_def_full_join_decomp : forall on wl wr L R,
  Permutation (join_def TFull on wl wr L R)
              (join_def TInner on wl wr L R ++ map (fun l => l ++ nulls wr) (join_def TLeftAnti on wl wr L R)
                                           ++ map (fun r => nulls wl ++ r) (join_def TRightAnti on wl wr L R)).
Proof. intros. apply full_join_decomp. Qed.

(* non-vacuity: a FULL join with duplicate keys, NULL keys on both sides, a residual filter, three probe batches
   (one empty), pages of 2 candidates and a colliding hash: the algorithm returns the 7 rows of the definition;
   and the sortedness hypothesis of (4) holds for a concrete input on which the merge join returns 7 rows. *)
Example C05_nonvacuous :
  let r := fun (id : Z) (k : option Z) (v : Z) => [VInt id; inj k; VInt 0; VInt v] in
  let L := [r 100 None 2; r 101 (Some 1) 1; r 102 (Some 1) 3; r 103 (Some 2) 0] in
  let Rb := [[r 200 None 5; r 201 (Some 1) 2]; []; [r 202 (Some 1) 0; r 203 (Some 7) 3]] in
  let k := key_of [1%nat] in
  length (hash_join toy_hash TFull false k k (filt_of FLt) 4 4 L [[2%nat; 2%nat]; []; [2%nat]] Rb) = 7%nat /\
  bag_eqb (hash_join toy_hash TFull false k k (filt_of FLt) 4 4 L [[2%nat; 2%nat]; []; [2%nat]] Rb)
          (join_def TFull (on_of false k k (filt_of FLt)) 4 4 L (concat Rb)) = true /\
  key_sorted [(false, true)] k L /\ key_sorted [(false, true)] k (concat Rb) /\
  length (smj_run TFull false [(false, true)] k k (filt_of FLt) 4 4 L (concat Rb)) = 7%nat.
Proof.
  cbv zeta. split; [vm_compute; reflexivity|]. split; [vm_compute; reflexivity|].
  split; [apply key_sortedb_iff; vm_compute; reflexivity|].
  split; [apply key_sortedb_iff; vm_compute; reflexivity|]. vm_compute; reflexivity.
Qed.
