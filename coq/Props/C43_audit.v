From Coq Require Import List NArith ZArith Bool String Ascii Lia.
From DF Require Import Base.Prelude Model.ConfigText Proofs.ConfigTextProofs Gen.ConfigEnums Props.C43.
Import ListNotations.
Open Scope list_scope.
Open Scope Z_scope.
Check C43_parse_print_id :
  forall d v, wf_dom d -> valid d v -> parse d (print d v) = Some v.
Check C43_parse_yields_valid :
  forall d t v, wf_dom d -> parse d t = Some v -> valid d v.
Check C43_print_parse_canonical :
  forall d t v, wf_dom d -> parse d t = Some v -> parse d (print d v) = Some v.
Check C43_unsigned_round_trip :
  forall n tmax, 0 <= n <= tmax -> parse_uint tmax (print_z n) = Some n.
Check C43_signed_round_trip :
  forall z tmin tmax, tmin <= 0 <= tmax -> tmin <= z <= tmax ->
  parse_int tmin tmax (print_z z) = Some z.
Check C43_invalid_rejected_unchanged :
  forall o k t o',
  set o k t = (false, o') ->
  (forall f, In f o -> key_matches f k = true -> lazy_unset f = false) ->
  o' = o.
Check C43_unknown_key_rejected :
  forall o k t, no_match o k -> set o k t = (false, o).
Check C43_invalid_on_unset_optional_refuted :
  exists o k t o', set o k t = (false, o') /\ entries o' <> entries o.
Check C43_set_get :
  forall o k t o', set o k t = (true, o') ->
  exists pre f post v,
    o = pre ++ f :: post /\ no_match pre k /\ key_matches f k = true /\
    parse (fdom f) t = Some v /\
    o' = pre ++ with_val f (Some v) :: post /\
    entries o' = entries pre ++ (fkey f, Some (print (fdom f) v)) :: entries post.
Check C43_set_display_noop :
  forall pre f post v,
  no_match pre (fkey f) -> fval f = Some v -> wf_dom (fdom f) -> valid (fdom f) v ->
  set (pre ++ f :: post) (fkey f) (print (fdom f) v) = (true, pre ++ f :: post).
Check C43_set_print_fixed_point :
  forall o k t o',
  (forall f, In f o -> wf_dom (fdom f)) ->
  set o k t = (true, o') ->
  exists f v, In f o' /\ key_matches f k = true /\ fval f = Some v /\
              set o' k (print (fdom f) v) = (true, o').
Check C43_generated_enums_ok :
  forallb enum_ok all_enums = true /\ cats_ok enum_MetricCategory = true.
Check C43_generated_tables_wf :
  forall par, 0 < par <= u64max ->
  Forall (fun r => wf_dom (snd r)) (session_keys par) /\ Forall (fun r => wf_dom (snd r)) (csv_keys par) /\
  Forall (fun r => wf_dom (snd r)) (json_keys par) /\ Forall (fun r => wf_dom (snd r)) (parquet_keys par).
Print Assumptions C43_parse_print_id.
Print Assumptions C43_parse_yields_valid.
Print Assumptions C43_print_parse_canonical.
Print Assumptions C43_unsigned_round_trip.
Print Assumptions C43_signed_round_trip.
Print Assumptions C43_invalid_rejected_unchanged.
Print Assumptions C43_unknown_key_rejected.
Print Assumptions C43_invalid_on_unset_optional_refuted.
Print Assumptions C43_set_get.
Print Assumptions C43_set_display_noop.
Print Assumptions C43_set_print_fixed_point.
Print Assumptions C43_generated_enums_ok.
Print Assumptions C43_generated_tables_wf.
Print Assumptions C43_nonvacuous.
Print Assumptions C43_trailing_segment.
