(* Audit of C01: pins every property theorem's statement and prints its assumptions (compiled fresh by ./check). *)
From Coq Require Import List ZArith Bool Permutation Sorting.Sorted.
From DF Require Import Base.Prelude Model.RefSQL Proofs.RefSQLLaws Props.C01.
Import ListNotations.
Open Scope Z_scope.

Check C01_kleene_and :
  and3 TT TT = TT /\ and3 TT TF = TF /\ and3 TT TU = TU /\
  and3 TF TT = TF /\ and3 TF TF = TF /\ and3 TF TU = TF /\
  and3 TU TT = TU /\ and3 TU TF = TF /\ and3 TU TU = TU.
Check C01_kleene_or :
  or3 TT TT = TT /\ or3 TT TF = TT /\ or3 TT TU = TT /\
  or3 TF TT = TT /\ or3 TF TF = TF /\ or3 TF TU = TU /\
  or3 TU TT = TT /\ or3 TU TF = TU /\ or3 TU TU = TU.
Check C01_kleene_not :
  not3 TT = TF /\ not3 TF = TT /\ not3 TU = TU.
Check C01_de_morgan_and :
  forall a b, not3 (and3 a b) = or3 (not3 a) (not3 b).
Check C01_de_morgan_or :
  forall a b, not3 (or3 a b) = and3 (not3 a) (not3 b).
Check C01_filter_keeps_exactly_true :
  forall (p : row -> res tv) R R',
  filter_m p R = Ok R' ->
  forall r, (In r R' <-> In r R /\ p r = Ok TT) /\
            count r R' = (if is_tt (p r) then count r R else 0%nat).
Check C01_filter_errors_propagate :
  forall (p : row -> res tv) R R',
  filter_m p R = Ok R' -> forall r, In r R -> exists t, p r = Ok t.
Check C01_eval_filter_keeps_exactly_true :
  forall f d en p q R',
  eval_query (S f) d en (QFilter p q) = Ok R' ->
  exists R, eval_query f d en q = Ok R /\
    forall r, count r R' =
      (if is_tt (v <- eval_expr f d (r :: en) p;; tv_of_value v) then count r R else 0%nat).
Check C01_inner_join_spec :
  forall on L R x,
  In x (inner_join on L R) <-> exists l r, In l L /\ In r R /\ on l r = true /\ x = l ++ r.
Check C01_left_join_decomp :
  forall on wr L R,
  Permutation (left_join on wr L R)
              (inner_join on L R ++ map (fun l => l ++ nulls wr) (unmatched_left on L R)).
Check C01_right_join_decomp :
  forall on wl L R,
  Permutation (right_join on wl L R)
              (inner_join on L R ++ map (fun r => nulls wl ++ r) (unmatched_right on L R)).
Check C01_full_join_decomp :
  forall on wl wr L R,
  Permutation (full_join on wl wr L R)
              (inner_join on L R ++ map (fun l => l ++ nulls wr) (unmatched_left on L R)
                                 ++ map (fun r => nulls wl ++ r) (unmatched_right on L R)).
Check C01_unmatched_left_spec :
  forall on L R l,
  In l (unmatched_left on L R) <-> In l L /\ forall r, In r R -> on l r = false.
Check C01_semi_anti_partition :
  forall on L R, Permutation (semi_join on L R ++ anti_join on L R) L.
Check C01_semi_join_exists :
  forall on L R l,
  In l (semi_join on L R) <-> In l L /\ exists r, In r R /\ on l r = true.
Check C01_anti_join_not_exists :
  forall on L R l,
  In l (anti_join on L R) <-> In l L /\ forall r, In r R -> on l r = false.
Check C01_in_as_or_chain :
  forall x,
  in3 x [] = TF /\ forall v vs, in3 x (v :: vs) = or3 (eq3 x v) (in3 x vs).
Check C01_in_true :
  forall x vs, in3 x vs = TT <-> exists v, In v vs /\ vcompare x v = Some Eq.
Check C01_not_in_null_aware :
  forall x vs,
  not_in3 x vs = TT <->
  (vs = [] \/ (x <> VNull /\ ~ In VNull vs /\ forall v, In v vs -> vcompare x v <> Some Eq)).
Check C01_not_in_false :
  forall x vs,
  not_in3 x vs = TF <-> exists v, In v vs /\ vcompare x v = Some Eq.
Check C01_not_in_as_ne_all :
  forall x vs, not_in3 x vs = all3 (map (ne3 x) vs).
Check C01_not_in_null_aware_anti :
  forall x vs,
  not_in3 x vs = TT <->
  (existsb (fun v => match eq3 x v with TF => false | _ => true end) vs = false).
Check C01_set_ops_multiplicities :
  forall L R x,
  count x (set_op SUnion true L R) = (count x L + count x R)%nat /\
  count x (set_op SUnion false L R) = Nat.min 1 (count x L + count x R) /\
  count x (set_op SIntersect true L R) = Nat.min (count x L) (count x R) /\
  count x (set_op SIntersect false L R) = Nat.min 1 (Nat.min (count x L) (count x R)) /\
  count x (set_op SExcept true L R) = (count x L - count x R)%nat /\
  count x (set_op SExcept false L R) = (Nat.min 1 (count x L) - Nat.min 1 (count x R))%nat.
Check C01_distinct_count :
  forall R x, count x (distinct R) = Nat.min 1 (count x R).
Check C01_distinct_idempotent :
  forall R, distinct (distinct R) = distinct R.
Check C01_order_by_sorted_perm :
  forall ds (l : list (row * row)),
  Permutation (sort_pairs ds l) l /\
  Sorted (fun p q => keys_leb ds (fst p) (fst q) = true) (sort_pairs ds l).
Check C01_eval_sort_perm :
  forall f d en keys q S0,
  eval_query (S f) d en (QSort keys q) = Ok S0 ->
  exists R, eval_query f d en q = Ok R /\ Permutation S0 R.
Check C01_null_placement :
  forall desc v, v <> VNull ->
  dir_cmp (desc, true) VNull v = Lt /\ dir_cmp (desc, true) v VNull = Gt /\
  dir_cmp (desc, false) VNull v = Gt /\ dir_cmp (desc, false) v VNull = Lt /\
  dir_cmp (desc, true) VNull VNull = Eq /\ dir_cmp (desc, false) VNull VNull = Eq.
Check C01_dir_cmp_nonnull :
  forall nf a b, a <> VNull -> b <> VNull ->
  dir_cmp (false, nf) a b = vcmp_nn a b /\ dir_cmp (true, nf) a b = CompOpp (vcmp_nn a b).
Check C01_limit_offset_is_firstn_skipn :
  forall off lim R,
  limit_offset off lim R =
    match lim with
    | Some n => firstn (Z.to_nat n) (skipn (Z.to_nat off) R)
    | None => skipn (Z.to_nat off) R
    end.
Check C01_limit_offset_nth :
  forall off n R i,
  nth_error (limit_offset off (Some n) R) i =
    if (i <? Z.to_nat n)%nat then nth_error R (Z.to_nat off + i) else None.
Check C01_group_by_partitions :
  forall (A : Type) (l : list (row * A)),
  Permutation (flat_groups (group_pairs l)) l.
Check C01_group_keys_nodup :
  forall (A : Type) (l : list (row * A)), NoDup (map fst (group_pairs l)).
Check C01_group_nonempty :
  forall (A : Type) (l : list (row * A)),
  Forall (fun g => snd g <> []) (group_pairs l).
Check C01_group_member_key :
  forall (A : Type) (l : list (row * A)) g x,
  In g (group_pairs l) -> In x (snd g) -> In (fst g, x) l.
Check C01_group_complete :
  forall (A : Type) (l : list (row * A)) k x,
  In (k, x) l -> exists g, In g (group_pairs l) /\ fst g = k /\ In x (snd g).
Check C01_null_key_own_group :
  row_eqb [VNull] [VNull] = true /\
  forall v, v <> VNull -> row_eqb [VNull] [v] = false /\ row_eqb [v] [VNull] = false.
Check C01_row_eqb_eq :
  forall a b, row_eqb a b = true <-> a = b.
Check C01_agg_empty :
  agg_apply FCountStar [] = Ok (VInt 0) /\ agg_apply FCount [] = Ok (VInt 0) /\
  agg_apply FCountDistinct [] = Ok (VInt 0) /\ agg_apply FSum [] = Ok VNull /\
  agg_apply FMin [] = Ok VNull /\ agg_apply FMax [] = Ok VNull /\ agg_apply FAvg [] = Ok VNull.
Check C01_agg_ignores_nulls :
  forall fn vs, fn <> FCountStar -> agg_apply fn vs = agg_apply fn (nonnull vs).
Check C01_agg_all_null :
  forall vs, Forall (fun v => v = VNull) vs ->
  agg_apply FCountStar vs = Ok (VInt (len vs)) /\ agg_apply FCount vs = Ok (VInt 0) /\
  agg_apply FCountDistinct vs = Ok (VInt 0) /\ agg_apply FSum vs = Ok VNull /\
  agg_apply FMin vs = Ok VNull /\ agg_apply FMax vs = Ok VNull /\ agg_apply FAvg vs = Ok VNull.
Check C01_sum_avg_spec :
  forall z zs,
  let s := fold_right Z.add 0 (z :: zs) in
  agg_apply FSum (map VInt (z :: zs)) = chk64 s /\
  agg_apply FAvg (map VInt (z :: zs)) = Ok (mk_rat s (len (z :: zs))) /\
  agg_apply FCount (map VInt (z :: zs)) = Ok (VInt (len (z :: zs))).
Check C01_mk_rat_exact :
  forall n d n' d', d > 0 -> mk_rat n d = VRat n' d' ->
  n' * d = n * d' /\ d' > 0 /\ Z.gcd n' d' = 1.
Check C01_bag_eqb_iff :
  forall a b, bag_eqb a b = true <-> Permutation a b.
Check C01_nonvacuous_not_in :
  run_query ex_db (QFilter (EInSub true (ECol 0 0) (QTable 1)) (QTable 0)) = Ok [] /\
  run_query ex_db (QFilter (EInSub false (ECol 0 0) (QTable 1)) (QTable 0)) = Ok [[VInt 2]].
Check C01_nonvacuous_left_join_agg :
  run_query ex_db (QJoin JLeft 1 1 (ECmp CEq (ECol 0 0) (ECol 0 1)) (QTable 0) (QTable 1))
    = Ok [[VInt 1; VNull]; [VInt 2; VInt 2]; [VNull; VNull]] /\
  run_query ex_db (QGroup [] [(FCountStar, ELit VNull); (FCount, ECol 0 0); (FSum, ECol 0 0); (FAvg, ECol 0 0)] None (QTable 0))
    = Ok [[VInt 3; VInt 2; VInt 3; VRat 3 2]] /\
  c01_check (C01Case ex_db (QLimit 0 (Some 1) (QSort [(ECol 0 0, (true, false))] (QTable 0))) (Some [[VInt 2]])) = true /\
  c01_check (C01Case ex_db (QLimit 0 (Some 1) (QSort [(ECol 0 0, (true, false))] (QTable 0))) (Some [[VNull]])) = false.

Print Assumptions C01_kleene_and.
Print Assumptions C01_kleene_or.
Print Assumptions C01_kleene_not.
Print Assumptions C01_de_morgan_and.
Print Assumptions C01_de_morgan_or.
Print Assumptions C01_filter_keeps_exactly_true.
Print Assumptions C01_filter_errors_propagate.
Print Assumptions C01_eval_filter_keeps_exactly_true.
Print Assumptions C01_inner_join_spec.
Print Assumptions C01_left_join_decomp.
Print Assumptions C01_right_join_decomp.
Print Assumptions C01_full_join_decomp.
Print Assumptions C01_unmatched_left_spec.
Print Assumptions C01_semi_anti_partition.
Print Assumptions C01_semi_join_exists.
Print Assumptions C01_anti_join_not_exists.
Print Assumptions C01_in_as_or_chain.
Print Assumptions C01_in_true.
Print Assumptions C01_not_in_null_aware.
Print Assumptions C01_not_in_false.
Print Assumptions C01_not_in_as_ne_all.
Print Assumptions C01_not_in_null_aware_anti.
Print Assumptions C01_set_ops_multiplicities.
Print Assumptions C01_distinct_count.
Print Assumptions C01_distinct_idempotent.
Print Assumptions C01_order_by_sorted_perm.
Print Assumptions C01_eval_sort_perm.
Print Assumptions C01_null_placement.
Print Assumptions C01_dir_cmp_nonnull.
Print Assumptions C01_limit_offset_is_firstn_skipn.
Print Assumptions C01_limit_offset_nth.
Print Assumptions C01_group_by_partitions.
Print Assumptions C01_group_keys_nodup.
Print Assumptions C01_group_nonempty.
Print Assumptions C01_group_member_key.
Print Assumptions C01_group_complete.
Print Assumptions C01_null_key_own_group.
Print Assumptions C01_row_eqb_eq.
Print Assumptions C01_agg_empty.
Print Assumptions C01_agg_ignores_nulls.
Print Assumptions C01_agg_all_null.
Print Assumptions C01_sum_avg_spec.
Print Assumptions C01_mk_rat_exact.
Print Assumptions C01_bag_eqb_iff.
Print Assumptions C01_nonvacuous_not_in.
Print Assumptions C01_nonvacuous_left_join_agg.
