From DF Require Import Base.Prelude Model.DiskUsage Proofs.DiskUsageProofs Props.C21.
Open Scope Z_scope.
Check C21_usage_exact :
  forall lim ops, let s := fst (run step (init lim) ops) in
    used s = live_bytes (files s) /\ Forall (fun x => 0 <= fusage x) (files s).
Check C21_zero_when_released :
  forall lim ops, let s := fst (run step (init lim) ops) in all_released s = true -> used s = 0.
Check C21_failed_write_unchanged :
  forall s f len io s' r u fs,
    step s (Write f len io) = (s', OWrite r u fs) -> r <> 0 -> s' = s /\ u = used s.
Check C21_admitted_within_limit :
  forall s f len io s' u fs,
    step s (Write f len io) = (s', OWrite 0 u fs) -> 0 < len ->
    u = used s' /\ used s' = used s + len /\ used s' <= limit s'.
Check C21_never_beyond_limit :
  forall lim ops, 0 <= lim -> forallb no_setlimit ops = true ->
    used (fst (run step (init lim) ops)) <= lim.
Check C21_upstream_leak_refuted :
  exists ops, let s := fst (run step_leaky (init 5000) ops) in all_released s = true /\ used s <> 0.
Print Assumptions C21_usage_exact.
Print Assumptions C21_zero_when_released.
Print Assumptions C21_failed_write_unchanged.
Print Assumptions C21_admitted_within_limit.
Print Assumptions C21_never_beyond_limit.
Print Assumptions C21_upstream_leak_refuted.
Print Assumptions C21_nonvacuous.
