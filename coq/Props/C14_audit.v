From Coq Require Import List ZArith.
From DF Require Import Base.Prelude Model.JoinHashMap Props.C14.
Import ListNotations.
Open Scope Z_scope.
Check C14_rows_exact : forall ins h,
  (forall r, In r (rows_of ins h) <-> In (r, h) ins) /\
  (NoDup (map fst ins) -> NoDup (rows_of ins h)).
Check C14_rows_order : forall ins r h h',
  rows_of [] h' = [] /\
  rows_of (ins ++ [(r, h)]) h' = if h =? h' then r :: rows_of ins h' else rows_of ins h'.
Check C14_lookup_exact : forall W d cap bs probes,
  0 <= d <= W -> 0 <= cap -> wf_ins W d cap (concat bs) ->
  exists s, build W d cap bs = Some s /\
    get_matched_indices W s probes (Some d) = Some (matched_spec (concat bs) d probes) /\
    (d = 0 -> get_matched_indices W s probes None = Some (matched_spec (concat bs) 0 probes)).
Check C14_paging_concat : forall W cap bs probes limit,
  0 <= cap -> wf_ins W 0 cap (concat bs) -> 1 <= limit ->
  exists s pages, build W 0 cap bs = Some s /\
    paged_run s probes limit (0, None) pages /\
    concat pages = lookup_spec (concat bs) probes /\
    Forall (fun pg => lenZ pg <= limit) pages.
Check C14_paged_run_deterministic : forall s probes limit t p1,
  paged_run s probes limit t p1 -> forall p2, paged_run s probes limit t p2 -> p1 = p2.
Check C14_contains_iff_lookup_nonempty : forall W d cap bs hs,
  0 <= d -> 0 <= cap -> wf_ins W d cap (concat bs) ->
  exists s, build W d cap bs = Some s /\
    contain_hashes s hs = map (fun h => nonempty (rows_of (concat bs) h)) hs /\
    jlen s = lenZ (nodup Z.eq_dec (map snd (concat bs))).
(* the definitions the statements rest on, pinned so that a change of meaning is visible here *)
Check (eq_refl : rows_of = fun ins h => map fst (filter (fun p => snd p =? h) (rev ins))).
Check (eq_refl : matched_spec = fun ins d probes =>
  flat_map (fun p => map (fun r => (fst p, r - d)) (rows_of ins (snd p))) probes).
Check (eq_refl : lookup_spec = fun ins probes => spec_from ins probes 0).
Check (eq_refl : seg = fun ins (p : Z * bool) => if snd p then rows_of ins (fst p) else []).
Check (eq_refl : wf_ins = fun W d cap (ins : list (Z * Z)) =>
  NoDup (map fst ins) /\ Forall (fun p => d <= fst p /\ fst p - d < cap /\ fst p + 1 <= W) ins).
Print Assumptions C14_rows_exact.
Print Assumptions C14_rows_order.
Print Assumptions C14_lookup_exact.
Print Assumptions C14_paging_concat.
Print Assumptions C14_paged_run_deterministic.
Print Assumptions C14_contains_iff_lookup_nonempty.
Print Assumptions C14_nonvacuous.
