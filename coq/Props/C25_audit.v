From Coq Require Import Permutation.
From DF Require Import Base.Prelude Model.ListingPrune Model.CliSplit Model.WriteDemux
  Proofs.ListingPruneProofs Proofs.CliSplitProofs Proofs.WriteDemuxProofs Props.C25.
Open Scope Z_scope.
Check C25_demux_partition :
  forall (R : Type) (batches : list (list (key * R))),
    let fs := demux batches in
    NoDup (map fst fs)
    /\ (forall k rows, In (k, rows) fs -> rows <> [] /\ rows = rows_of k (concat batches))
    /\ (forall k r, In (k, r) (concat batches) -> exists rows, In (k, rows) fs /\ In r rows)
    /\ Permutation (flatten fs) (concat batches).
Check C25_demux_readback :
  forall s pby keep bs kbs fname,
    keyed_all s pby keep bs = Some kbs ->
    Forall name_clean pby ->
    Forall (fun kr => Forall utf8_text (fst kr)) (concat kbs) ->
    exists fs rb, hive_write s pby keep bs = Some fs
      /\ read_all pby fname fs = Some rb
      /\ Permutation rb (map (fun kr => (snd kr, fst kr)) (concat kbs)).
Check C25_hive_path_roundtrip :
  forall pby k fname,
    length k = length pby -> Forall name_clean pby -> Forall utf8_text k ->
    parse_dirs8 pby (hive_dirs pby k ++ [fname]) = Some k.
Check C25_row_count_demux_splits :
  forall (B : Type) (sz : B -> Z) single maxr (bs : list B) fs,
    row_count_demux sz single 1 maxr bs = Some fs -> concat (map snd fs) = bs.
Check C25_row_count_demux_partition :
  forall (B : Type) (sz : B -> Z) single m maxr (bs : list B) fs,
    row_count_demux sz single m maxr bs = Some fs -> Permutation (concat (map snd fs)) bs.
Check C25_csv_roundtrip : forall d rows, d <> 34 -> d <> 10 -> d <> 13 ->
  Forall (fun r => r <> []) rows -> parse_csv d (write_csv d rows) = Some rows.
Check C25_null_partition_refuted :
  exists s pby r1 r2 k, r1 <> r2 /\ key_of s pby r1 = Some k /\ key_of s pby r2 = Some k
    /\ drop_cols s pby r1 = drop_cols s pby r2.
Check C25_encoded_name_refuted :
  exists pby k fname, length k = length pby /\ Forall utf8_text k /\
    parse_dirs8 pby (hive_dirs pby k ++ [fname]) = None.
Print Assumptions C25_demux_partition.
Print Assumptions C25_demux_readback.
Print Assumptions C25_hive_path_roundtrip.
Print Assumptions C25_row_count_demux_splits.
Print Assumptions C25_row_count_demux_partition.
Print Assumptions C25_csv_roundtrip.
Print Assumptions C25_null_partition_refuted.
Print Assumptions C25_encoded_name_refuted.
