(* C15 -- exchange (distribution) channels lose nothing, keep order, close correctly, never deadlock.
   Model: Model/DistChan.v = datafusion/physical-plan/src/repartition/distributor_channels.rs, one Gallina function per
   operation (SendFuture::poll, RecvFuture::poll, DistributionSender::{clone,drop}, DistributionReceiver::drop,
   Gate::decr_empty_channels) over the module's own fields (data, n_senders, recv_wakers; empty_channels, send_wakers).
   GRANULARITY: [run n ops = Some (s, rtr)] ranges over ALL schedules = all interleavings of poll-level operations on
   [channels(n)], any n, any number of sender handles, values, wakers, any length; each operation is atomic.  [run] is
   [None] only for schedules that safe Rust cannot express (using a handle that no longer exists).  [rtr] is the trace
   (operation, result, wakers woken), most recent first; [sent_ok], [received], [parked_send], [parked_recv], [clones],
   [sdrops], [rdropped] are plain functions of the trace (Model/DistChan.v).
   Interleavings of two operations at the level of single gate accesses are NOT covered by these theorems. *)
From DF Require Import Base.Prelude Model.DistChan Model.DistChanFine Proofs.DistChanProofs Proofs.DistChanSteps Proofs.DistChanThms.
Open Scope Z_scope.

(* (gate) empty_channels is exactly the number of channels that are open (receiver alive, some sender alive) and empty;
   it never underflows; the send-waker list exists (gate closed) exactly when that number is 0; recv_wakers is None
   exactly when all sender handles ever created (1 + clones) have been dropped; data is None exactly when the
   receiver was dropped. *)
Theorem C15_gate_inv : forall n ops s rtr, run n ops = Some (s, rtr) ->
  empty s = count_oe (chans s) /\ 0 <= empty s /\
  (forall l, swk s = Some l -> empty s = 0) /\
  (empty s = 0 -> swk s <> None \/ n = 0%nat) /\
  (forall c ch, nth_error (chans s) c = Some ch ->
     (rwk ch = None <-> nsend ch = 0%nat) /\ (nsend ch + sdrops rtr c = 1 + clones rtr c)%nat /\
     (data ch = None <-> rdropped rtr c = true)).
Proof. exact gate_inv. Qed.

(* (1) nothing lost, duplicated, invented or reordered: on every channel, what was received so far followed by what is
   queued is exactly the sequence of values whose send completed with Ok, in completion order (hence FIFO per sender);
   after the receiver was dropped the received sequence is a prefix of it. *)
Theorem C15_fifo_exactly_once : forall n ops s rtr, run n ops = Some (s, rtr) ->
  forall c ch, nth_error (chans s) c = Some ch ->
    match data ch with
    | Some q => received rtr c ++ q = sent_ok rtr c
    | None => exists q, received rtr c ++ q = sent_ok rtr c
    end.
Proof. exact fifo_exactly_once. Qed.

(* (2) end-of-stream only after every sender handle of the channel was dropped and every Ok-sent value was delivered *)
Theorem C15_eos_only_after_close_and_drain : forall n ops s rtr, run n ops = Some (s, rtr) ->
  forall c w s' wk, step s (RecvPoll c w) = Some (s', (RNone, wk)) ->
    received rtr c = sent_ok rtr c /\ sdrops rtr c = (1 + clones rtr c)%nat /\ wk = [] /\ s' = s.
Proof. exact eos_only_after_close_and_drain. Qed.

(* (3) a send fails only once the receiver is gone (and then always, at once, handing the value back unchanged) *)
Theorem C15_send_err_iff_receiver_gone : forall n ops s rtr, run n ops = Some (s, rtr) ->
  forall c w x s' ou, step s (SendPoll c w x) = Some (s', ou) ->
    (forall y, fst ou = RErr y -> y = x /\ rdropped rtr c = true /\ s' = s) /\
    (rdropped rtr c = true -> ou = (RErr x, [])).
Proof. exact send_err_iff_receiver_gone. Qed.

(* (4) no lost wake-up.  [parked_send rtr] / [parked_recv rtr c] = wakers registered by a Pending poll and not woken
   by any later operation.  If such a waker exists, polling again would still return Pending -- contrapositive:
   whenever the operation became enabled (gate opened, receiver dropped; value arrived, last sender dropped), the
   waker was woken. *)
Theorem C15_no_lost_wakeup_send : forall n ops s rtr, run n ops = Some (s, rtr) ->
  forall c w0, In (w0, c) (parked_send rtr) ->
  forall w x s' ou, step s (SendPoll c w x) = Some (s', ou) -> fst ou = RPending.
Proof. exact parked_send_still_pending. Qed.

Theorem C15_no_lost_wakeup_recv : forall n ops s rtr, run n ops = Some (s, rtr) ->
  forall c w0, In w0 (parked_recv rtr c) ->
  forall w s' ou, step s (RecvPoll c w) = Some (s', ou) -> fst ou = RPending.
Proof. exact parked_recv_still_pending. Qed.

(* the same, stated forwards for the closing events *)
Theorem C15_receiver_drop_wakes_its_senders : forall n ops s rtr, run n ops = Some (s, rtr) ->
  forall c s' ou, step s (DropR c) = Some (s', ou) ->
  forall w0, In (w0, c) (parked_send rtr) -> In w0 (snd ou).
Proof. exact receiver_drop_wakes_its_senders. Qed.

Theorem C15_parked_recv_is_woken : forall n ops s rtr, run n ops = Some (s, rtr) ->
  forall c w0, In w0 (parked_recv rtr c) -> rdropped rtr c = false ->
  (forall w x s' ou, step s (SendPoll c w x) = Some (s', ou) -> fst ou = ROk /\ In w0 (snd ou)) /\
  (forall ch s' ou, nth_error (chans s) c = Some ch -> nsend ch = 1%nat ->
     step s (DropS c) = Some (s', ou) -> In w0 (snd ou)).
Proof. exact parked_recv_is_woken. Qed.

(* (5) no deadlock (progress).  Whenever a sender is blocked by the gate and its handle still exists, the receiver of
   ITS OWN channel is alive and has values queued; if that receiver takes them (length q polls, any wakers), it gets
   exactly q, and then the gate is open, no send waker is left parked (all were woken) and retrying the send
   completes with Ok.  So a blocked sender never waits on anything but its own consumer. *)
Theorem C15_no_deadlock : forall n ops s rtr, run n ops = Some (s, rtr) ->
  forall c w0 ch, In (w0, c) (parked_send rtr) -> nth_error (chans s) c = Some ch -> nsend ch <> 0%nat ->
  exists q, data ch = Some q /\ q <> [] /\
    forall ws, length ws = length q ->
    exists s' rtr', run_from s rtr (map (RecvPoll c) ws) = Some (s', rtr') /\
      received rtr' c = received rtr c ++ q /\
      parked_send rtr' = [] /\ swk s' = None /\ 0 < empty s' /\
      forall w x, exists s'' wk, step s' (SendPoll c w x) = Some (s'', (ROk, wk)).
Proof. exact no_deadlock. Qed.

(* the gate does block (bounded buffering): a send completes with Ok only while some open channel of the gate is empty *)
Theorem C15_send_ok_only_if_gate_open : forall n ops s rtr, run n ops = Some (s, rtr) ->
  forall c w x s' wk, step s (SendPoll c w x) = Some (s', (ROk, wk)) ->
  exists c' ch', nth_error (chans s) c' = Some ch' /\ open_empty ch' = true.
Proof. exact send_ok_only_if_gate_open. Qed.

(* none of the module's internal [expect]s can fire *)
Theorem C15_never_panics : forall n ops s rtr, run n ops = Some (s, rtr) ->
  forall e, In e rtr -> fst (snd e) <> RPanic.
Proof. exact never_panics. Qed.

(* OUTSIDE poll granularity (fine-grained model Model/DistChanFine.v, gate-access granularity): the first conjunct of
   C15_gate_inv does NOT survive preemption inside DistributionSender::drop.  Witness: one empty channel; the sender
   decrements n_senders (to 0) BEFORE taking the channel lock; the receiver's drop takes the lock, reads n_senders = 0
   and therefore does not decrement empty_channels; the sender then finds data = None and does not decrement either.
   Result: empty_channels = 1 although no open channel is left -- the counter is too HIGH, i.e. the gate stays open
   (more buffering), which endangers none of (1)-(5); the counter never gets too LOW in any explored interleaving.
   The harness reproduces this on the real code (drop_race_probe, informational). *)
Theorem C15_fine_counter_leak_witness :
  exists st, frun leak_sched (finit (fst leak_cfg) (snd leak_cfg)) = Some st /\
    all_done st = true /\ bad st = false /\ fempty st = 1 /\ f_count st = 0 /\ fswk st = None.
Proof.
  eexists. split; [vm_compute; reflexivity|].
  repeat (split; [vm_compute; reflexivity|]). vm_compute; reflexivity.
Qed.

(* the hypotheses are satisfiable on a non-trivial instance: two channels, both filled, the third send is blocked by
   the closed gate; a receiver parked on an empty channel *)
Example C15_nonvacuous_blocked_sender :
  exists s rtr, run 2 [SendPoll 0 1 100; SendPoll 1 2 101; SendPoll 1 3 102] = Some (s, rtr) /\
    parked_send rtr = [(3, 1%nat)] /\ swk s = Some [(3, 1%nat)] /\ empty s = 0 /\
    exists ch, nth_error (chans s) 1 = Some ch /\ nsend ch <> 0%nat.
Proof.
  eexists. eexists. split; [vm_compute; reflexivity|].
  split; [reflexivity|]. split; [reflexivity|]. split; [reflexivity|].
  eexists. split; [reflexivity|]. simpl. discriminate.
Qed.

Example C15_nonvacuous_parked_receiver :
  exists s rtr, run 2 [RecvPoll 0 7; DropS 1; RecvPoll 1 8] = Some (s, rtr) /\
    parked_recv rtr 0 = [7] /\ rdropped rtr 0%nat = false /\
    map snd rtr = [(RNone, []); (RUnit, []); (RPending, [])].
Proof. eexists. eexists. split; [vm_compute; reflexivity|]. repeat split. Qed.
