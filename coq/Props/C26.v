(* C26 -- Parallel byte-range scans read every record exactly once.
   Property theorems only.  Model: Model/Boundary.v (AlignedBoundaryStream state machine over an
   arbitrary chunking of every object-store GET; FileGroupPartitioner::repartition_evenly_by_size). *)
From Coq Require Import List ZArith Bool.
From DF Require Import Base.Prelude Model.Boundary Proofs.BoundaryProofs.
Import ListNotations.
Open Scope Z_scope.

(* For every file, terminator byte, lookahead >= 1, every way the object store cuts every GET
   response into chunks (including empty chunks), and every byte range [s,e): the stream ends
   normally and the bytes it yields are exactly the records (lines) whose first byte lies in
   [s,e) -- whole records, in file order (a record starting exactly at s belongs to [s,e); the
   record containing e-1 is extended past e; an unterminated last record is a record). *)
Theorem C26_range_owns_lines :
  forall t L chunker file s e,
    1 <= L -> zlen file < U64MAX -> chunker_ok file chunker -> 0 <= s -> 0 <= e ->
    exists o, stream_run t L chunker (zlen file) s e = ROk o /\
              concat o = concat (owned t file s e).
Proof. exact range_owns_lines. Qed.

(* For any consecutive ranges 0 = b0 < b1 < ... < bn with bn >= file size (each range may be read
   through a different chunking): every range scan succeeds, the outputs concatenated in range
   order are the file, and record-wise every record of the file is owned by exactly one range
   (the per-range record lists concatenate to the file's record list). *)
Theorem C26_ranges_partition_file :
  forall t L (cks : Z * Z -> Z -> Z -> list (list Z)) file rs b,
    1 <= L -> zlen file < U64MAX -> (forall r, chunker_ok file (cks r)) ->
    chain 0 b rs -> zlen file <= b ->
    exists outs,
      Forall2 (fun r o => range_bytes t L (cks r) (zlen file) (fst r) (snd r) = Some o) rs outs /\
      outs = map (fun r => concat (owned t file (fst r) (snd r))) rs /\
      concat outs = file /\
      concat (map (fun r => owned t file (fst r) (snd r)) rs) = split_lines t file.
Proof. exact ranges_partition_file. Qed.

(* The state machine's index arithmetic (pos_after - chunk.len(), end - pos_before,
   chunk_in_range_len - 1, chunk[search_from..]) never underflows or goes out of range. *)
Theorem C26_no_underflow :
  forall t L chunker file s e,
    1 <= L -> zlen file < U64MAX -> chunker_ok file chunker -> 0 <= s -> 0 <= e ->
    stream_run t L chunker (zlen file) s e <> RPanic /\
    stream_run t L chunker (zlen file) s e <> RFuel.
Proof. exact no_underflow. Qed.

(* Neither the lookahead window nor the chunking changes what a range yields. *)
Theorem C26_lookahead_irrelevant :
  forall t L1 L2 ck1 ck2 file s e,
    1 <= L1 -> 1 <= L2 -> zlen file < U64MAX -> chunker_ok file ck1 -> chunker_ok file ck2 ->
    0 <= s -> 0 <= e ->
    range_bytes t L1 ck1 (zlen file) s e = range_bytes t L2 ck2 (zlen file) s e.
Proof. exact lookahead_irrelevant. Qed.

(* repartition_evenly_by_size: for every source file (effective range [fst f, snd f)) the entries
   produced for it, in the order the groups list them, are consecutive non-empty ranges from
   fst f to snd f (contiguous, disjoint, covering). *)
Theorem C26_evenly_by_size_partitions :
  forall n min_size files gs,
    1 <= n -> Forall (fun f => fst f <= snd f) files ->
    repartition_evenly n min_size files = SGroups gs ->
    forall k f, nth_error files k = Some f ->
      chain (fst f) (snd f)
        (map (fun x : Z * Z * Z => (snd (fst x), snd x))
             (filter (fun x : Z * Z * Z => fst (fst x) =? Z.of_nat k) (concat gs))).
Proof. exact evenly_by_size_partitions. Qed.

(* Splitter and stream composed: scanning the ranges the splitter produced for a whole source
   file, wherever they were grouped, reads the file's bytes and records exactly once. *)
Theorem C26_repartitioned_scan_reads_file :
  forall t L (cks : Z * Z -> Z -> Z -> list (list Z)) n min_size files gs k file,
    1 <= L -> zlen file < U64MAX -> (forall r, chunker_ok file (cks r)) ->
    1 <= n -> Forall (fun f => fst f <= snd f) files ->
    repartition_evenly n min_size files = SGroups gs ->
    nth_error files k = Some (0, zlen file) ->
    let rs := map (fun x : Z * Z * Z => (snd (fst x), snd x))
                  (filter (fun x : Z * Z * Z => fst (fst x) =? Z.of_nat k) (concat gs)) in
    exists outs,
      Forall2 (fun r o => range_bytes t L (cks r) (zlen file) (fst r) (snd r) = Some o) rs outs /\
      concat outs = file /\
      concat (map (fun r => owned t file (fst r) (snd r)) rs) = split_lines t file.
Proof. exact repartitioned_scan_reads_file. Qed.

(* The chunkers used by the correspondence harness satisfy the chunker hypothesis. *)
Theorem C26_pat_chunker_ok :
  forall file pat trail, chunker_ok file (pat_chunker file pat trail).
Proof. exact pat_chunker_ok. Qed.

(* non-vacuity: "aa\nb\n\ncc" (no trailing newline), ranges cutting inside records and exactly at
   a record start, 1- and 2-byte chunks with empty chunks in between: the model computes the
   per-range outputs, they concatenate to the file; and the splitter on a 2-file input *)
Example C26_nonvacuous :
  let file := [97; 97; 10; 98; 10; 10; 99; 99] in
  let ck := pat_chunker file [1; 0; 2] true in
  chain 0 8 [(0, 1); (1, 3); (3, 6); (6, 8)] /\
  map (fun r => range_bytes 10 2 ck 8 (fst r) (snd r)) [(0, 1); (1, 3); (3, 6); (6, 8)] =
    [Some [97; 97; 10]; Some []; Some [98; 10; 10]; Some [99; 99]] /\
  owned 10 file 3 6 = [[98; 10]; [10]] /\
  split_lines 10 file = [[97; 97; 10]; [98; 10]; [10]; [99; 99]] /\
  repartition_evenly 4 1 [(0, 7); (0, 1)] =
    SGroups [[(0, 0, 2)]; [(0, 2, 4)]; [(0, 4, 6)]; [(0, 6, 7); (1, 0, 1)]].
Proof. vm_compute. repeat split; reflexivity. Qed.
