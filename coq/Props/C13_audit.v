(* C13 audit: pins the statement of every property theorem and prints its assumptions.
   Compiled fresh on every check run. *)
From Coq Require Import List ZArith Bool.
From DF Require Import Base.Prelude Model.GroupValues Proofs.GroupValuesProofs Props.C13.
Import ListNotations.
Open Scope Z_scope.

Check C13_key_eqb_reflects :
  forall a b : key, key_eqb a b = true <-> a = b.

Check C13_equal_keys_iff_equal_ids :
  forall s ks ids s', intern_ok s ks ids s' ->
  (forall i j ki kj idi idj,
     nth_error ks i = Some ki -> nth_error ks j = Some kj ->
     nth_error ids i = Some idi -> nth_error ids j = Some idj ->
     (ki = kj <-> idi = idj)) /\
  (forall p i k id,
     nth_error s p = Some k -> nth_error ks i = Some k -> nth_error ids i = Some id ->
     id = Z.of_nat p).

Check C13_new_ids_exactly_from_len :
  forall s ks ids s', intern_ok s ks ids s' ->
  (forall i k id, nth_error ks i = Some k -> nth_error ids i = Some id ->
     (~ In k s -> zlen s <= id < zlen s') /\ (In k s -> 0 <= id < zlen s)) /\
  (forall id, zlen s <= id < zlen s' ->
     exists i k, nth_error ks i = Some k /\ nth_error ids i = Some id /\ ~ In k s) /\
  zlen s' - zlen s = zlen (distinct_new s ks).

Check C13_intern_chk_sound :
  forall s ks ids s',
  NoDup s -> spec_intern_chk s ks ids = Some s' -> intern_ok s ks ids s'.

Check C13_intern_chk_complete :
  forall s ks ids s',
  NoDup s -> intern_ok s ks ids s' -> spec_intern_chk s ks ids = Some s'.

Check C13_chk_run_iff :
  forall ops obs s,
  NoDup s -> (spec_chk_run s ops obs = true <-> hist_allowed s ops obs).

Check C13_spec_run_accepted :
  forall ops s, NoDup s ->
  spec_chk_run s ops (snd (run spec_step s ops)) = true.

Check C13_spec_intern_allowed :
  forall s ks, NoDup s ->
  let '(s', ids) := spec_intern s ks in
  intern_ok s ks ids s' /\
  forall i j ki kj idi idj,
    nth_error ks i = Some ki -> nth_error ids i = Some idi ->
    nth_error ks j = Some kj -> nth_error ids j = Some idj ->
    ~ In ki s -> ~ In kj s -> idi < idj ->
    exists i', nth_error ks i' = Some ki /\ forall j', nth_error ks j' = Some kj -> (i' < j')%nat.

Check C13_live_inv_preserved :
  forall ops s,
  live_inv s -> live_inv (fst (run spec_step s ops)).

Check C13_emit_first :
  forall s n s' ks len,
  0 <= n <= zlen s -> spec_step s (EmitFirst n) = (s', OEmit ks len) ->
  s = ks ++ s' /\ zlen ks = n /\
  (forall id, 0 <= id < n -> nth_error ks (Z.to_nat id) = nth_error s (Z.to_nat id)) /\
  (forall id, n <= id -> nth_error s' (Z.to_nat (id - n)) = nth_error s (Z.to_nat id)) /\
  len = zlen s' /\ zlen s' = zlen s - n.

Check C13_emit_all :
  forall s, spec_step s EmitAll = ([], OEmit s 0).

Check C13_clear :
  forall s, spec_step s Clear = ([], OClear 0).

Check C13_len_is_distinct_live_keys :
  forall ops o,
  let s := fst (run spec_step [] ops) in
  let s' := fst (spec_step s o) in
  live_inv s /\ live_inv s' /\ out_len (snd (spec_step s o)) = zlen s' /\
  zlen s' = zlen (nodup key_eq_dec s').

Check C13_prim_abs_nth :
  forall p j,
  nth_error (prim_abs p) j =
  match nth_error (pvalues p) j with
  | Some v => Some (if zopt_eqb (pnull p) (Some (Z.of_nat j)) then [None] else [Some v])
  | None => None
  end.

Check C13_prim_inv_init :
  prim_inv prim_init.

Check C13_prim_inv_values_distinct :
  forall p, prim_inv p ->
  forall i j, In i (pmap p) -> In j (pmap p) ->
    znth (pvalues p) i = znth (pvalues p) j -> i = j.

Check C13_prim_step_refines :
  forall p o p' x,
  prim_inv p -> emit_pre (plen p) o -> keys_pre single_col o -> prim_step p o = (p', x) ->
  prim_inv p' /\ spec_step (prim_abs p) o = (prim_abs p', x).

Check C13_prim_refines_spec :
  forall ops, Forall (keys_pre single_col) ops ->
  ops_ok spec_step (@zlen key) [] ops = true ->
  snd (run prim_step prim_init ops) = snd (run spec_step [] ops).

Check C13_prim_ops_ok_iff :
  forall ops, Forall (keys_pre single_col) ops ->
  ops_ok prim_step plen prim_init ops = ops_ok spec_step (@zlen key) [] ops.

Check C13_bool_abs_slots :
  forall b, bool_inv b ->
  (forall i, bfalse b = Some i -> nth_error (bool_abs b) (Z.to_nat i) = Some [Some 0]) /\
  (forall i, btrue b = Some i -> nth_error (bool_abs b) (Z.to_nat i) = Some [Some 1]) /\
  (forall i, bnull b = Some i -> nth_error (bool_abs b) (Z.to_nat i) = Some [None]).

Check C13_bool_abs_len :
  forall b, zlen (bool_abs b) = bool_len b.

Check C13_bool_inv_init :
  bool_inv bool_init.

Check C13_bool_step_refines :
  forall b o b' x,
  bool_inv b -> emit_pre (bool_len b) o -> keys_pre bool_key o -> bool_step b o = (b', x) ->
  bool_inv b' /\ spec_step (bool_abs b) o = (bool_abs b', x).

Check C13_bool_refines_spec :
  forall ops, Forall (keys_pre bool_key) ops ->
  ops_ok spec_step (@zlen key) [] ops = true ->
  snd (run bool_step bool_init ops) = snd (run spec_step [] ops).

Check C13_bool_ops_ok_iff :
  forall ops, Forall (keys_pre bool_key) ops ->
  ops_ok bool_step bool_len bool_init ops = ops_ok spec_step (@zlen key) [] ops.

Check C13_stale_clear_refuted :
  exists ops, Forall (keys_pre single_col) ops /\
    ops_ok spec_step (@zlen key) [] ops = true /\
    snd (run prim_step_stale_clear prim_init ops) <> snd (run spec_step [] ops).

Check C13_nonvacuous_prim :
  Forall (keys_pre single_col) c13_demo_ops /\
  ops_ok spec_step (@zlen key) [] c13_demo_ops = true /\
  snd (run prim_step prim_init c13_demo_ops) =
    [ OIds [0; 1; 0; 2] 3;
      OEmit [[Some 5]] 2;
      OIds [1; 2; 0; 3] 4;
      OEmit [[None]; [Some 9]; [Some 5]; [Some 3]] 0;
      OIds [0; 0] 1;
      OClear 0;
      OIds [0] 1 ] /\
  snd (run spec_step [] c13_demo_ops) = snd (run prim_step prim_init c13_demo_ops).

Check C13_nonvacuous_bool :
  Forall (keys_pre bool_key) c13_demo_bool_ops /\
  ops_ok spec_step (@zlen key) [] c13_demo_bool_ops = true /\
  snd (run bool_step bool_init c13_demo_bool_ops) =
    [ OIds [0; 1; 0; 2] 3;
      OEmit [[Some 1]; [None]] 1;
      OIds [1; 0] 2;
      OEmit [[Some 0]; [Some 1]] 0 ] /\
  snd (run spec_step [] c13_demo_bool_ops) = snd (run bool_step bool_init c13_demo_bool_ops).

Check C13_nonvacuous_intern_ok :
  intern_ok [[Some 1; None]] [[Some 2; Some 0]; [Some 3; None]; [Some 2; Some 0]; [Some 1; None]]
            [2; 1; 2; 0] [[Some 1; None]; [Some 3; None]; [Some 2; Some 0]] /\
  spec_intern_chk [[Some 1; None]] [[Some 2; Some 0]; [Some 3; None]] [1; 3] = None /\
  spec_intern_chk [[Some 1; None]] [[Some 2; Some 0]; [Some 3; None]] [1; 1] = None /\
  spec_intern_chk [[Some 1; None]] [[Some 1; None]; [Some 3; None]] [1; 2] = None /\
  distinct_new [[Some 1; None]] [[Some 2; Some 0]; [Some 3; None]; [Some 2; Some 0]; [Some 1; None]]
    = [[Some 3; None]; [Some 2; Some 0]].

Print Assumptions C13_key_eqb_reflects.
Print Assumptions C13_equal_keys_iff_equal_ids.
Print Assumptions C13_new_ids_exactly_from_len.
Print Assumptions C13_intern_chk_sound.
Print Assumptions C13_intern_chk_complete.
Print Assumptions C13_chk_run_iff.
Print Assumptions C13_spec_run_accepted.
Print Assumptions C13_spec_intern_allowed.
Print Assumptions C13_live_inv_preserved.
Print Assumptions C13_emit_first.
Print Assumptions C13_emit_all.
Print Assumptions C13_clear.
Print Assumptions C13_len_is_distinct_live_keys.
Print Assumptions C13_prim_abs_nth.
Print Assumptions C13_prim_inv_init.
Print Assumptions C13_prim_inv_values_distinct.
Print Assumptions C13_prim_step_refines.
Print Assumptions C13_prim_refines_spec.
Print Assumptions C13_prim_ops_ok_iff.
Print Assumptions C13_bool_abs_slots.
Print Assumptions C13_bool_abs_len.
Print Assumptions C13_bool_inv_init.
Print Assumptions C13_bool_step_refines.
Print Assumptions C13_bool_refines_spec.
Print Assumptions C13_bool_ops_ok_iff.
Print Assumptions C13_stale_clear_refuted.
Print Assumptions C13_nonvacuous_prim.
Print Assumptions C13_nonvacuous_bool.
Print Assumptions C13_nonvacuous_intern_ok.
