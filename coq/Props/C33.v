(* C33 -- expression evaluation strategies agree with row-by-row SQL semantics.
   Model: Model/EvalStrategies.v (datafusion/physical-expr/src/expressions/{in_list*, case*, binary.rs},
   physical-expr-common/src/physical_expr.rs evaluate_selection); the row-by-row semantics are RefSQL's
   three-valued building blocks (Model/RefSQL.v: eq3, in3, not_in3, and3, or3, the res error monad).
   "Evaluating an expression on a batch" is `mapM f rows`: it fails iff f fails on a row OF THAT BATCH. *)
From DF Require Import Base.Prelude Model.RefSQL Model.EvalStrategies Proofs.EvalStrategiesProofs.
Open Scope Z_scope.

(* IN list, static filter (branchless / bitmap / hash set / ArrayStaticFilter all have this shape):
   membership in the set of non-NULL list values + the separate "list contains NULL" flag, combined by the
   bitmap formulas of build_result_from_contains, is the three-valued OR chain x = v1 OR ... OR x = vn
   (NOT IN: its negation), for every non-empty list, NULL needle and NULL list elements included. *)
Theorem C33_inlist_set_eq_or_chain :
  forall neg vs x,
    vs <> [] -> plain x = true -> forallb plain vs = true ->
    inlist_set neg vs x = in_spec neg x vs.
Proof. exact inlist_set_eq_or_chain_pf. Qed.

(* IN list, dynamic path (non-constant list elements): eq columns folded by or_kleene with the
   "all rows already true" early exit = the OR chain on every row; any list length including 0. *)
Theorem C33_inlist_or_chain_eq_rowwise :
  forall (A : Type) (rows : list A) (x : A -> value) (fs : list (A -> value)) neg,
    inlist_or_chain neg (map x rows) (map (fun f => map f rows) fs)
    = map (fun r => in_spec neg (x r) (map (fun f => f r) fs)) rows.
Proof. exact @inlist_or_chain_eq_rowwise_pf. Qed.

(* Searched CASE evaluated by progressive remainder masks (case_when_no_expr) succeeds exactly when the
   row-by-row first-true-branch semantics succeeds on every row, with the same column: NULL conditions are
   not true, a missing ELSE gives NULL, and a WHEN/THEN/ELSE expression is evaluated on a row iff the
   row-by-row semantics evaluates it on that row. *)
Theorem C33_case_mask_eq_rowwise :
  forall (A : Type) (ws : list (@cond A * @rexpr A)) (els : option (@rexpr A)) (rows : list A) out,
    case_mask ws els rows = Ok out <-> mapM (case_row ws els) rows = Ok out.
Proof. exact @case_mask_eq_rowwise_pf. Qed.

(* ... hence a branch that would fail only on rows that do not select it raises nothing. *)
Theorem C33_case_guarded_branch_no_error :
  forall (A : Type) (ws : list (@cond A * @rexpr A)) (els : option (@rexpr A)) (rows : list A),
    (forall r, In r rows -> exists v, case_row ws els r = Ok v) -> exists out, case_mask ws els rows = Ok out.
Proof. exact @case_guarded_branch_no_error_pf. Qed.

(* CASE x WHEN lit THEN lit ... [ELSE lit] through the literal lookup table: NULL WHEN literals dropped,
   duplicate literals -> the first wins, NULL operand -> ELSE: equals the first branch with x = w TRUE. *)
Theorem C33_case_lookup_eq_rowwise :
  forall ws els x,
    plain x = true -> forallb (fun p => plain (fst p)) ws = true ->
    case_lookup ws els x = case_simple_row ws els x.
Proof. exact case_lookup_eq_rowwise_pf. Qed.

(* AND / OR with check_short_circuit (ReturnLeft, ReturnRight, PreSelection + uniform collapse + scatter):
   (1) if evaluating both operands on every row succeeds, the vectorised evaluation returns exactly the
   Kleene result; (2) whatever it returns is the result of the lazy row semantics (right operand only where
   the left one does not decide). *)
Theorem C33_short_circuit_sound :
  forall (A : Type) b (l r : @cond A) (rows : list A) vs,
    (mapM (logic_strict b l r) rows = Ok vs -> logic_vec b l r rows = Ok vs) /\
    (logic_vec b l r rows = Ok vs -> mapM (logic_lazy b l r) rows = Ok vs).
Proof. exact @short_circuit_sound_pf. Qed.

(* (3) whenever a short-circuit strategy is taken, the right operand is evaluated on exactly the rows where
   the lazy row semantics evaluates it: success and result coincide with the lazy semantics. *)
Theorem C33_short_circuit_is_lazy :
  forall (A : Type) b (l r : @cond A) (rows : list A) lv vs,
    mapM l rows = Ok lv -> check_short_circuit b lv <> SNone ->
    (logic_vec b l r rows = Ok vs <-> mapM (logic_lazy b l r) rows = Ok vs).
Proof. exact @short_circuit_is_lazy_pf. Qed.

(* evaluate_selection: succeeds iff the expression succeeds on the selected rows, and the selected
   positions of its output are exactly those values (all-true, empty and mixed selections). *)
Theorem C33_selection_commutes :
  forall (A : Type) (f : @rexpr A) sel (rows : list A), length sel = length rows ->
    (forall vs, mapM f (select sel rows) = Ok vs ->
       exists out, eval_selection f sel rows = Ok out /\ select sel out = map Some vs) /\
    (forall out, eval_selection f sel rows = Ok out ->
       exists vs, mapM f (select sel rows) = Ok vs /\ select sel out = map Some vs).
Proof. exact @selection_commutes_pf. Qed.

(* a scalar operand behaves as the array of that scalar repeated (binary kernels with a Datum scalar, the
   IN-list scalar needle path, the lookup-table scalar path) *)
Theorem C33_scalar_array_agree :
  (forall (op : value -> value -> tv) col s,
     map (fun x => op x s) col = map2 op col (repeat s (length col)) /\
     map (fun y => op s y) col = map2 op (repeat s (length col)) col) /\
  (forall neg vs s n, inlist_set_scalar neg vs s n = inlist_set_col neg vs (repeat s n)) /\
  (forall ws els s n, repeat (case_lookup ws els s) n = map (case_lookup ws els) (repeat s n)).
Proof. exact scalar_array_agree_pf. Qed.

(* ---- non-vacuity on concrete instances *)
(* 2 NOT IN (1, NULL) is NULL, 1 NOT IN (1, NULL) is FALSE, NULL IN (1) is NULL, 3 IN (1,3,3) is TRUE *)
Example C33_nonvacuous_inlist :
  inlist_set true [VInt 1; VNull] (VInt 2) = TU /\ in_spec true (VInt 2) [VInt 1; VNull] = TU /\
  inlist_set true [VInt 1; VNull] (VInt 1) = TF /\ inlist_set false [VInt 1] VNull = TU /\
  inlist_set false [VInt 1; VInt 3; VInt 3] (VInt 3) = TT.
Proof. vm_compute. repeat split; reflexivity. Qed.

(* CASE WHEN y <> 0 THEN x / y ELSE -1 END over rows (x, y) with y = 0 among them: the division is never
   evaluated on the guarded rows; evaluating the THEN branch on the whole batch would fail *)
Definition nv_rows : list row := [[VInt 6; VInt 3]; [VInt 1; VInt 0]; [VNull; VInt 2]; [VInt 7; VNull]].
Definition nv_cond : expr := ECmp CNe (ECol 0 1) (ELit (VInt 0)).
Definition nv_div : expr := EArith ADiv (ECol 0 0) (ECol 0 1).
Example C33_nonvacuous_case_guard :
  case_mask [(evc nv_cond, ev nv_div)] (Some (ev (ELit (VInt (-1))))) nv_rows
    = Ok [VInt 2; VInt (-1); VNull; VInt (-1)] /\
  mapM (ev nv_div) nv_rows = Err EDivZero.
Proof. vm_compute. split; reflexivity. Qed.

(* y <> 0 AND x / y > 1 on 6 rows of which one has y <> 0: pre-selection evaluates the division on that row only *)
Definition nv_rows2 : list row :=
  [[VInt 6; VInt 3]; [VInt 1; VInt 0]; [VInt 2; VInt 0]; [VInt 3; VInt 0]; [VInt 4; VInt 0]; [VInt 5; VInt 0]].
Example C33_nonvacuous_short_circuit :
  check_short_circuit true [TT; TF; TF; TF; TF; TF] = SPreSelection /\
  logic_vec true (evc nv_cond) (evc (ECmp CGt nv_div (ELit (VInt 1)))) nv_rows2 = Ok [TT; TF; TF; TF; TF; TF] /\
  mapM (logic_strict true (evc nv_cond) (evc (ECmp CGt nv_div (ELit (VInt 1))))) nv_rows2 = Err EDivZero.
Proof. vm_compute. repeat split; reflexivity. Qed.

(* lookup table: duplicate literal -> first wins; NULL literal never matches; NULL operand -> ELSE *)
Example C33_nonvacuous_lookup :
  map (case_lookup [(VInt 1, VInt 10); (VNull, VInt 99); (VInt 1, VInt 11); (VInt 2, VInt 20)] (VInt 0))
      [VInt 1; VInt 2; VInt 3; VNull] = [VInt 10; VInt 20; VInt 0; VInt 0].
Proof. vm_compute. reflexivity. Qed.
