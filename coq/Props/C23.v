(* C23 -- interval arithmetic and constraint propagation are sound (signed integer and boolean intervals;
   floats, decimals, temporal types and the graph traversal of ExprIntervalGraph are tied by the harness
   oracle only).  Model: Model/Interval.v (faithful to interval_arithmetic.rs / cp_solver.rs, including
   the NULL = unbounded endpoints, Rust's Option order and handle_overflow).  M is the type's MAX value.
   "Whenever the result is representable" is the hypothesis in_range M (x op y) = true. *)
From DF Require Import Base.Prelude Model.Interval Proofs.IntervalProofs.
Open Scope Z_scope.

(* ---- arithmetic: for ALL intervals and ALL members, the result interval contains x op y ---- *)
Theorem C23_add_sound : forall M a b x y, wfI M a -> wfI M b -> inI x a -> inI y b ->
  in_range M (x + y) = true -> inI (x + y) (iadd M a b).
Proof. exact add_sound. Qed.

Theorem C23_sub_sound : forall M a b x y, wfI M a -> wfI M b -> inI x a -> inI y b ->
  in_range M (x - y) = true -> inI (x - y) (isub M a b).
Proof. exact sub_sound. Qed.

(* multiplication is sound except when both operands contain zero and an endpoint product overflows ... *)
Theorem C23_mul_sound : forall M a b x y, wfI M a -> wfI M b -> inI x a -> inI y b ->
  in_range M (x * y) = true -> mul_overflow_both_zero M a b = false -> inI (x * y) (imul M a b).
Proof. exact mul_sound. Qed.

(* ... and on exactly those inputs it is not (finding C23-F1). *)
Theorem C23_mul_both_zero_overflow_refuted :
  exists a b x y, wfI I8 a /\ wfI I8 b /\ inI x a /\ inI y b /\ in_range I8 (x * y) = true /\
                  ~ inI (x * y) (imul I8 a b).
Proof. exact mul_both_zero_overflow_refuted. Qed.

(* truncating integer division is sound (zero-containing divisors included) unless an operand has the
   upper endpoint 0 and reaches below 0 ... *)
Theorem C23_div_sound : forall M a b x y, wfI M a -> wfI M b -> inI x a -> inI y b -> y <> 0 ->
  in_range M (Z.quot x y) = true -> zero_topped a = false -> zero_topped b = false ->
  inI (Z.quot x y) (idiv M a b).
Proof. exact div_sound. Qed.

(* ... where it is not (finding C23-F2). *)
Theorem C23_div_zero_topped_refuted :
  (exists a b x y, wfI I64 a /\ wfI I64 b /\ inI x a /\ inI y b /\ y <> 0 /\ in_range I64 (Z.quot x y) = true /\
                   idiv I64 a b = (Some (-1), Some 0) /\ ~ inI (Z.quot x y) (idiv I64 a b)) /\
  (exists a b x y, wfI I64 a /\ wfI I64 b /\ inI x a /\ inI y b /\ y <> 0 /\ in_range I64 (Z.quot x y) = true /\
                   idiv I64 a b = (None, Some (-6)) /\ ~ inI (Z.quot x y) (idiv I64 a b)).
Proof. exact div_zero_topped_refuted. Qed.

(* ---- comparisons and boolean connectives: the boolean result interval contains the truth value ---- *)
Theorem C23_comparison_sound : forall op a b x y, inI x a -> inI y b -> inB (cmp_sem op x y) (apply_cmp op a b).
Proof. exact cmp_sound. Qed.

Theorem C23_noteq_sound : forall a b x y, inI x a -> inI y b -> inB (negb (x =? y)) (bnot (iequal a b)).
Proof. exact noteq_sound. Qed.

Theorem C23_and_sound : forall a b p q, inB p a -> inB q b -> inB (p && q) (band a b).
Proof. exact and_sound. Qed.

Theorem C23_or_sound : forall a b p q, inB p a -> inB q b -> inB (p || q) (bor a b).
Proof. exact or_sound. Qed.

Theorem C23_not_sound : forall a p, inB p a -> inB (negb p) (bnot a).
Proof. exact not_sound. Qed.

(* ---- intersect / union / contains / cardinality ---- *)
Theorem C23_intersect_sound : forall a b x, inI x a -> inI x b -> exists i, intersect a b = Some i /\ inI x i.
Proof. exact intersect_sound. Qed.

Theorem C23_intersect_exact : forall a b i x, intersect a b = Some i -> inI x i -> inI x a /\ inI x b.
Proof. exact intersect_exact. Qed.

Theorem C23_intersect_none_disjoint : forall a b x, intersect a b = None -> inI x a -> inI x b -> False.
Proof. exact intersect_none. Qed.

Theorem C23_union_sound : forall a b x, inI x a \/ inI x b -> inI x (union a b).
Proof. exact union_sound. Qed.

Theorem C23_contains_value_correct : forall a v, contains_value a v = true <-> inI v a.
Proof. exact contains_value_correct. Qed.

Theorem C23_contains_true : forall a b x, contains a b = B_TRUE -> inI x b -> inI x a.
Proof. exact contains_true. Qed.

Theorem C23_contains_false : forall a b x, contains a b = B_FALSE -> inI x a -> inI x b -> False.
Proof. exact contains_false. Qed.

Theorem C23_cardinality_correct : forall l u c, l <= u -> cardinality (Some l, Some u) = Some c ->
  c = u - l + 1 /\ forall x, inI x (Some l, Some u) <-> l <= x < l + c.
Proof. exact cardinality_correct. Qed.

(* ---- satisfy_greater and the per-node propagation rules never remove a feasible pair ---- *)
Theorem C23_satisfy_greater_sound : forall M l r strict x y, inI x l -> inI y r -> gt_sem strict x y = true ->
  exists l' r', satisfy_greater M l r strict = Some (l', r') /\ inI x l' /\ inI y r'.
Proof. exact satisfy_greater_sound. Qed.

Theorem C23_propagate_comparison_sound : forall M op l r x y, inI x l -> inI y r -> cmp_sem op x y = true ->
  exists l' r', propagate_comparison M op B_TRUE l r = Some (l', r') /\ inI x l' /\ inI y r'.
Proof. exact propagate_comparison_sound. Qed.

(* a parent interval other than TRUE is mishandled (finding C23-F4; no caller in the tree passes one) *)
Theorem C23_propagate_comparison_not_true_refuted :
  propagate_comparison I64 Gt B_FALSE (Some 0, Some 10) (Some 100, Some 200)
    = Some ((Some 100, Some 200), (Some 0, Some 10)) /\ cmp_sem Gt 0 100 = false /\
  propagate_comparison I64 Gt B_UNC (Some 0, Some 10) (Some 0, Some 10) = None /\
  propagate_comparison I64 Eq B_FALSE (Some 0, Some 10) (Some 0, Some 10) = None.
Proof. exact propagate_comparison_not_true_refuted. Qed.

Theorem C23_propagate_arithmetic_sound : forall M op parent l r x y p,
  0 <= M -> op = Plus \/ op = Minus ->
  wfI M parent -> wfI M l -> wfI M r -> inI x l -> inI y r ->
  in_range M x = true -> in_range M y = true ->
  arith_sem op x y = Some p -> inI p parent ->
  exists l' r', propagate_arithmetic M op parent l r = Some (l', r') /\ inI x l' /\ inI y r'.
Proof. exact propagate_arithmetic_sound. Qed.

(* through integer * and / the rule removes feasible values (finding C23-F3) *)
Theorem C23_propagate_arithmetic_muldiv_refuted :
  propagate_arithmetic I64 Divide (Some 3, Some 3) (Some 7, Some 7) (Some 2, Some 2) = None /\
  arith_sem Divide 7 2 = Some 3 /\
  propagate_arithmetic I64 Multiply (Some 0, Some 10) (Some (-5), Some 5) (Some 0, Some 5)
    = Some ((Some 0, Some 5), (Some 0, Some 5)) /\
  arith_sem Multiply (-5) 0 = Some 0 /\ inI (-5) (Some (-5), Some 5) /\ ~ inI (-5) (Some 0, Some 5).
Proof. exact propagate_arithmetic_muldiv_refuted. Qed.

(* ---- bound evaluation over a whole expression tree (induction on the tree) ---- *)
Theorem C23_evaluate_bounds_arith_sound : forall M ranges env e v, 0 <= M -> env_ok M ranges env ->
  anode_ok M ranges e -> aeval M env e = Some v -> inI v (abounds M ranges e).
Proof. exact evaluate_bounds_arith_sound. Qed.

Theorem C23_evaluate_bounds_sound : forall M ranges env p t, 0 <= M -> env_ok M ranges env ->
  pnode_ok M ranges p -> peval M env p = Some t -> inB t (pbounds M ranges p).
Proof. exact evaluate_bounds_sound. Qed.

(* non-vacuity: overflow-edge operands with members, a representable result, and the computed intervals *)
Example C23_nonvacuous :
  let a := (Some 100, None) in let b := (Some (-3), Some 27) in
  wfI I8 a /\ wfI I8 b /\ inI 120 a /\ inI 7 b /\ in_range I8 (120 + 7) = true /\
  iadd I8 a b = (Some 97, None) /\ isub I8 a b = (Some 73, None) /\
  imul I8 (Some (-4), Some 5) (Some (-20), Some 3) = (Some (-100), Some 80) /\
  mul_overflow_both_zero I8 (Some (-4), Some 5) (Some (-20), Some 3) = false /\
  idiv I64 (Some (-7), Some 9) (Some 2, None) = (Some (-3), Some 4) /\
  satisfy_greater I64 (None, Some 10) (Some 3, None) true = Some ((Some 4, Some 10), (Some 3, Some 9)) /\
  propagate_arithmetic I64 Plus (Some 4, Some 5) (Some 0, Some 2) (None, Some 4)
    = Some ((Some 0, Some 2), (Some 2, Some 4)) /\
  pbounds I64 (fun _ => (Some 0, Some 9)) (PAnd (PCmp Gt (ABin Plus (ACol 0) (ALit 1)) (ALit 0))
                                             (PCmp Lt (ACol 1) (ALit 5))) = B_UNC.
Proof. vm_compute. repeat split; try reflexivity; intro; discriminate. Qed.
