(* C17 -- Memory pool accounting is exact and limits are enforced.
   Property theorems only.  Model: Model/MemPool.v (UnboundedMemoryPool, GreedyMemoryPool, FairSpillPool,
   TrackConsumersPool, PeakRecordingPool and the MemoryReservation API of
   datafusion/execution/src/memory_pool/{mod.rs,pool.rs,peak_recording.rs}); proofs: Proofs/MemPoolProofs.v.

   [cfg] is any freshly constructed pool (any nesting of the wrappers over any base pool, any limit);
   [h] is any history of public-API calls; [run (init cfg) h] is the state after it. *)
From Coq Require Import List NArith Bool.
From DF Require Import Base.Prelude Model.MemPool Proofs.MemPoolProofs.
Import ListNotations.
Open Scope N_scope.

(* ---- exact accounting ------------------------------------------------------------------------------- *)
(* After any history, what the pool reports equals the sum of the sizes of the live reservations. *)
Theorem C17_reserved_eq_sum_live :
  forall cfg h, fresh cfg = true ->
    total (run (init cfg) h) = sum_sizes (st_resvs (run (init cfg) h)).
Proof. exact reserved_eq_sum_live. Qed.

Theorem C17_reserved_zero_when_all_dropped :
  forall cfg h, fresh cfg = true -> st_resvs (run (init cfg) h) = [] -> total (run (init cfg) h) = 0.
Proof. exact reserved_zero_when_all_dropped. Qed.

(* ... and after every single call of the history (not only at its end); also consumer tracking and
   peak >= current for every wrapper layer ([accounted] is spelled out in C17_audit.v). *)
Theorem C17_accounted_after_every_step :
  forall cfg h, fresh cfg = true -> Forall accounted (run_states (init cfg) h).
Proof. exact accounted_after_every_step. Qed.

(* free() returns exactly the reservation's bytes to the pool and reports them; drop likewise. *)
Theorem C17_free_returns_exact :
  forall cfg h rid r, fresh cfg = true ->
    let s := run (init cfg) h in
    find_resv rid (st_resvs s) = Some r ->
    exists s' r', step s (OFree rid) = (s', DoneN (r_size r)) /\
                  total s' + r_size r = total s /\
                  find_resv rid (st_resvs s') = Some r' /\ r_size r' = 0.
Proof. exact free_returns_exact. Qed.

Theorem C17_drop_returns_exact :
  forall cfg h rid r, fresh cfg = true ->
    let s := run (init cfg) h in
    find_resv rid (st_resvs s) = Some r ->
    exists s', step s (ODrop rid) = (s', Done) /\
               total s' + r_size r = total s /\
               find_resv rid (st_resvs s') = None.
Proof. exact drop_returns_exact. Qed.

(* ---- a refused call changes nothing ------------------------------------------------------------------ *)
(* In ANY state: a call that answers Err (try_grow / try_resize / try_shrink), panics (shrink / split by more
   than the size) or does not happen leaves pool, reservations and registrations exactly as they were. *)
Theorem C17_refused_call_changes_nothing :
  forall s o, refused (snd (step s o)) = true -> fst (step s o) = s.
Proof. exact refused_unchanged. Qed.

(* ---- limits ------------------------------------------------------------------------------------------ *)
(* Greedy (under any wrappers): a granted try_grow / growing try_resize leaves the total within the limit,
   whatever happened before (even if infallible grow() had pushed the pool over its limit). *)
Theorem C17_greedy_grant_within_limit :
  forall cfg h o rid n l s', greedy_limit cfg = Some l ->
    let s := run (init cfg) h in
    fallible_growth s o = Some (rid, n) -> step s o = (s', Done) -> total s' <= l.
Proof. exact greedy_grant_within_limit_reachable. Qed.

(* Greedy: histories that never call the infallible grow()/resize() never exceed the limit. *)
Theorem C17_greedy_never_exceeds_by_try_grow :
  forall cfg l h, fresh cfg = true -> greedy_limit cfg = Some l -> forallb fallible h = true ->
    total (run (init cfg) h) <= l.
Proof. exact greedy_never_exceeds_by_try_grow. Qed.

(* FairSpillPool (under any wrappers): a granted fallible growth of a spillable reservation leaves THAT
   RESERVATION within (pool_size - unspillable) / number of registered spillable consumers; a granted
   fallible growth of n > 0 bytes of an unspillable reservation leaves the pool total within pool_size. *)
Theorem C17_fair_grant_within_share :
  forall cfg h o rid n l s' r', fresh cfg = true -> fair_limit cfg = Some l ->
    let s := run (init cfg) h in
    fallible_growth s o = Some (rid, n) ->
    step s o = (s', Done) -> find_resv rid (st_resvs s') = Some r' ->
    if r_spill r'
    then 1 <= num_spillable (st_regs s') /\
         r_size r' <= (l - sum_unspillable (st_resvs s')) / num_spillable (st_regs s')
    else n = 0 \/ total s' <= l.
Proof. exact fair_grant_within_share_reachable. Qed.

(* ---- consumer tracking ------------------------------------------------------------------------------- *)
(* Every TrackConsumersPool layer tracks exactly the registered consumers, reports for each the sum of that
   consumer's live reservations, and a peak that is at least that. *)
Theorem C17_track_consumers_exact :
  forall cfg h, fresh cfg = true ->
    let s := run (init cfg) h in
    Forall (fun t => map t_cid t = map g_id (st_regs s) /\
                     Forall (fun e => t_res e = consumer_sum (t_cid e) (st_resvs s) /\ t_res e <= t_peak e) t)
           (pool_metrics (st_pool s)).
Proof. exact track_consumers_exact. Qed.

(* a consumer is registered with the pool exactly while one of its reservations is alive *)
Theorem C17_registered_iff_live :
  forall cfg h cid, fresh cfg = true ->
    let s := run (init cfg) h in
    In cid (map g_id (st_regs s)) <-> In cid (map r_cid (st_resvs s)).
Proof. exact registered_iff_live. Qed.

(* ---- peak recording ---------------------------------------------------------------------------------- *)
(* max_reserved() = the largest total the pool has reported since it was created *)
Theorem C17_peak_max_is_max_ever :
  forall cfg h, fresh cfg = true ->
    Forall (fun x => snd x = list_max (map total (init cfg :: run_states (init cfg) h)))
           (pool_peaks (st_pool (run (init cfg) h))).
Proof. exact peak_max_is_max_ever. Qed.

(* peak_reserved() = the largest total since (and including) the last reset_peak() *)
Theorem C17_peak_is_max_since_reset :
  forall cfg h1 h2, fresh cfg = true -> no_reset h2 = true ->
    let s1 := run (init cfg) (h1 ++ [OResetPeak]) in
    Forall (fun x => fst x = list_max (map total (s1 :: run_states s1 h2)))
           (pool_peaks (st_pool (run (init cfg) (h1 ++ OResetPeak :: h2)))).
Proof. exact peak_is_max_since_reset. Qed.

Theorem C17_peak_is_max_without_reset :
  forall cfg h, fresh cfg = true -> no_reset h = true ->
    Forall (fun x => fst x = list_max (map total (init cfg :: run_states (init cfg) h)))
           (pool_peaks (st_pool (run (init cfg) h))).
Proof. exact peak_is_max_without_reset. Qed.

(* ---- the model never leaves usize ---------------------------------------------------------------------- *)
(* no usize underflow / unwrap-on-None inside the pools is reachable, and every counter stays below 2^64 *)
Theorem C17_never_faults :
  forall cfg h o, fresh cfg = true -> snd (step (run (init cfg) h) o) <> Fault.
Proof. exact never_faults. Qed.

Theorem C17_usize_bounded :
  forall cfg h, fresh cfg = true ->
    let s := run (init cfg) h in
    total s < usize_lim /\ (forall r, In r (st_resvs s) -> r_size r < usize_lim) /\
    (forall cid, consumer_sum cid (st_resvs s) < usize_lim).
Proof. exact usize_bounded. Qed.

(* ---- interleavings -------------------------------------------------------------------------------------- *)
(* Calls are atomic with respect to each other at this level (one atomic / one mutex section per pool call):
   for ANY interleaving [l] of ANY per-thread call lists [ts], accounting is exact after every call ... *)
Theorem C17_interleaving_accounted :
  forall cfg ts l, fresh cfg = true -> interleaving ts l ->
    accounted (run (init cfg) l) /\ Forall accounted (run_states (init cfg) l).
Proof. exact interleaving_accounted. Qed.

(* ... and a Greedy pool used only through fallible growth stays within its limit. *)
Theorem C17_interleaving_greedy :
  forall cfg lim ts l, fresh cfg = true -> greedy_limit cfg = Some lim -> interleaving ts l ->
    Forall (fun t => forallb fallible t = true) ts ->
    total (run (init cfg) l) <= lim.
Proof. exact interleaving_greedy. Qed.

(* ---- non-vacuity and documented limits of the guarantees (computed by the model) ------------------------ *)
Definition ex_cfg : pool := PTrack (PPeak (PFair 100 0 0 0) 0 0 0) [].
Definition ex_hist : list op :=
  [ORegister true; OTryGrow 0 60; ORegister false; OTryGrow 1 30; OTryGrow 0 20; OSplit 0 25;
   OShrink 1 10; OResetPeak; OTryResize 0 70; ODrop 0; OFree 2; ODrop 2; ODrop 1].

(* a history with grants, a refusal (op 5: 60+20 > (100-30)/1), a split, a reset and drops; the hypotheses
   of the theorems above hold for it and the values are the non-trivial ones expected *)
Example C17_nonvacuous :
  fresh ex_cfg = true /\ fair_limit ex_cfg = Some 100 /\
  map (fun o => match o with Obs r _ t _ _ => (r, t) end) (run_obs (init ex_cfg) ex_hist) =
    [(New 0, 0); (Done, 60); (New 1, 60); (Done, 90); (Err, 90); (New 2, 90); (Done, 80); (Done, 80);
     (Done, 115); (Done, 45); (DoneN 25, 20); (Done, 20); (Done, 0)] /\
  pool_peaks (st_pool (run (init ex_cfg) ex_hist)) = [(115, 115)].
Proof. vm_compute. repeat split. Qed.

(* What the code does NOT guarantee (and C17 does not claim).  (1) infallible grow() ignores the limit: *)
Example C17_infallible_grow_may_exceed_limit :
  total (run (init (PGreedy 100 0)) [ORegister false; OGrow 0 150]) = 150.
Proof. vm_compute. reflexivity. Qed.

(* (2) FairSpillPool bounds each spilling RESERVATION, not the pool total: fallible growth only, total 150 > 100 *)
Example C17_fair_total_may_exceed_pool_size :
  let h := [ORegister true; OTryGrow 0 100; ORegister true; OTryGrow 1 50] in
  forallb fallible h = true /\ total (run (init (PFair 100 0 0 0)) h) = 150.
Proof. vm_compute. split; reflexivity. Qed.

(* (3) ... and the share is compared with reservation.size(), so ONE spillable consumer holding two
   reservations (new_empty / split) is granted its share twice: consumer 0 holds 200 of a 100-byte pool *)
Example C17_fair_share_is_per_reservation :
  let h := [ORegister true; OTryGrow 0 100; ONewEmpty 0; OTryGrow 1 100] in
  let s := run (init (PFair 100 0 0 0)) h in
  forallb fallible h = true /\
  map (fun o => match o with Obs r _ _ _ _ => r end) (run_obs (init (PFair 100 0 0 0)) h) = [New 0; Done; New 1; Done] /\
  consumer_sum 0 (st_resvs s) = 200 /\ num_spillable (st_regs s) = 1 /\ total s = 200.
Proof. vm_compute. repeat split. Qed.
