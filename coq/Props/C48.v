(* C48 -- DataFrame operations compute the same results as the equivalent SQL.
   Theorems about the TRANSLATION (Model/DataFrameOps.v tr : dfop -> RefSQL.query) of the name-based DataFrame
   operations: what the projections / set operations that LogicalPlanBuilder constructs for union_by_name,
   with_column, drop_columns, distinct_on and limit mean in the reference semantics.  The other operations (filter,
   select, join, join_on, aggregate, sort, distinct, union, intersect, except) are translated constructor by
   constructor and carry C01's laws.  The real DataFrame API is tied to the translation by differential execution
   (lib/props/C48.py). *)
From Coq Require Import List ZArith Bool.
From DF Require Import Base.Prelude Model.RefSQL Model.DataFrameOps Proofs.DataFrameOpsProofs.
Import ListNotations.
Open Scope Z_scope.

(* union_by_name: both inputs re-arranged BY NAME onto the output columns, missing columns NULL, then UNION [ALL] *)
Theorem C48_union_by_name_spec : forall f d en all sl sr ql qr L R,
  eval_query (S f) d en ql = Ok L -> eval_query (S f) d en qr = Ok R ->
  (forall r, In r L -> length r = length sl) -> (forall r, In r R -> length r = length sr) ->
  eval_query (S (S (S f))) d en (ubn_query all sl sr ql qr)
  = Ok (set_op SUnion all (map (align (ubn_names sl sr) sl) L) (map (align (ubn_names sl sr) sr) R)).
Proof. exact union_by_name_spec. Qed.
(* the output column named c carries the input's column named c ... *)
Theorem C48_align_by_name : forall out s r c, In c out ->
  get_named out (align out s r) c = get_named s r c.
Proof. exact align_by_name. Qed.
(* ... which is NULL when the input has no such column *)
Theorem C48_align_missing_is_null : forall s r c, ~ In c s -> get_named s r c = VNull.
Proof. exact align_missing_is_null. Qed.
(* result schema: every name of either input exactly once, the left input's columns first and in their order *)
Theorem C48_ubn_names_spec : forall sl sr,
  NoDup (ubn_names sl sr) /\ (forall c, In c (ubn_names sl sr) <-> In c sl \/ In c sr).
Proof. exact ubn_names_spec. Qed.
Theorem C48_ubn_names_left_first : forall sl sr, NoDup sl -> exists rest, ubn_names sl sr = sl ++ rest.
Proof. exact ubn_names_left_first. Qed.
Theorem C48_tr_union_by_name : forall all l r sl ql sr qr, tr l = Some (sl, ql) -> tr r = Some (sr, qr) ->
  nodup_names sl = true -> nodup_names sr = true ->
  tr (DUnionByName all l r) = Some (map (fun c => (None, c)) (ubn_names (names sl) (names sr)),
                                    ubn_query all (names sl) (names sr) ql qr).
Proof. exact tr_union_by_name. Qed.

(* with_column: the value of the expression replaces every column of that name in place, or is appended *)
Theorem C48_with_column_eval : forall f d en s nm e v (r : row),
  length r = length s -> eval_expr (S f) d (r :: en) e = Ok v ->
  mapM (eval_expr (S f) d (r :: en)) (wc_exprs s nm e) = Ok (wc_row_full s nm v r).
Proof. exact with_column_eval. Qed.
Theorem C48_with_column_appends : forall s nm v r, existsb (wc_hit nm) s = false -> length r = length s ->
  wc_row_full s nm v r = r ++ [v] /\ wc_schema s nm = s ++ [(None, nm)].
Proof. exact with_column_appends. Qed.
Theorem C48_with_column_replaces : forall s nm v r, existsb (wc_hit nm) s = true -> length r = length s ->
  length (wc_row_full s nm v r) = length r /\ length (wc_schema s nm) = length s /\
  forall i c x, nth_error s i = Some c -> nth_error r i = Some x ->
    nth_error (wc_row_full s nm v r) i = Some (if snd c =? nm then v else x) /\
    nth_error (wc_schema s nm) i = Some (if snd c =? nm then (None, nm) else c).
Proof. exact with_column_replaces. Qed.
Theorem C48_tr_with_column_schema : forall nm e d s q, tr d = Some (s, q) ->
  (length (positions (wc_hit nm) s) < 2)%nat ->
  tr (DWithColumn nm e d) = Some (wc_schema s nm, QProject (wc_exprs s nm e) q).
Proof. exact tr_with_column_schema. Qed.

(* drop_columns: the row without the dropped columns; a column survives iff no reference matches it *)
Theorem C48_drop_columns_eval : forall f d en s cs (r : row), length r = length s ->
  mapM (eval_expr (S f) d (r :: en)) (drop_exprs s cs) = Ok (drop_row s cs r).
Proof. exact drop_columns_eval. Qed.
Theorem C48_drop_columns_spec : forall s cs c,
  In c (drop_schema s cs) <-> In c s /\ forall x, In x cs -> ref_matches x c = false.
Proof. exact drop_columns_spec. Qed.
Theorem C48_drop_columns_aligned : forall s cs r, length r = length s -> length (drop_row s cs r) = length (drop_schema s cs).
Proof. exact drop_columns_aligned. Qed.
Theorem C48_unqualified_drop_removes_every_column_of_that_name : forall s nm c,
  In c (drop_schema s [(None, nm)]) <-> In c s /\ snd c <> nm.
Proof. exact unqualified_drop_removes_every_column_of_that_name. Qed.

(* distinct_on: for any total preorder, the operational definition (group by key, least row of each group) returns
   rows of the input, one per key, each the FIRST of its key under the order *)
Theorem C48_distinct_on_spec : forall (keyf : row -> row) (leb : row -> row -> bool),
  (forall a b c, leb a b = true -> leb b c = true -> leb a c = true) ->
  (forall a b, leb a b = false -> leb b a = true) ->
  forall R,
    (forall o, In o (distinct_on_rel keyf leb R) -> In o R) /\
    (forall r, In r R -> exists o, In o (distinct_on_rel keyf leb R) /\ keyf o = keyf r /\ leb o r = true) /\
    NoDup (map keyf (distinct_on_rel keyf leb R)).
Proof. exact distinct_on_spec. Qed.

(* limit(skip, fetch): LIMIT fetch OFFSET skip; two consecutive limits compose *)
Theorem C48_limit_translation : forall f d en skip fetch q R, eval_query f d en q = Ok R ->
  eval_query (S f) d en (QLimit skip fetch q) = Ok (limit_offset skip fetch R).
Proof. exact limit_translation. Qed.
Theorem C48_limit_skip_fetch_compose : forall s1 f1 s2 f2 (R : rel), 0 <= s1 -> 0 <= f1 -> 0 <= s2 -> 0 <= f2 ->
  limit_offset s2 (Some f2) (limit_offset s1 (Some f1) R)
  = limit_offset (s1 + s2) (Some (Z.min f2 (Z.max 0 (f1 - s2)))) R.
Proof. exact limit_skip_fetch_compose. Qed.

(* non-vacuity: t0(c0,c1) = {(1,10),(2,20)}, t1(c0,c1) = {(2,7)};
   a = t0.select(c0 AS n1, c1 AS n2), b = t1.select(c1 AS n3, c0 AS n1): a.union_by_name(b) has columns n1,n2,n3 and rows
   (1,10,NULL),(2,20,NULL),(2,NULL,7); then with_column(n2, n1+1) replaces n2 in place, drop_columns(n3) removes n3 *)
Example C48_nonvacuous :
  let db0 := [[[VInt 1; VInt 10]; [VInt 2; VInt 20]]; [[VInt 2; VInt 7]]] in
  let a := DSelect [SExpr (ECol 0 0) 1; SExpr (ECol 0 1) 2] (DTable 0 1 2) in
  let b := DSelect [SExpr (ECol 0 1) 3; SExpr (ECol 0 0) 1] (DTable 1 2 2) in
  let u := DUnionByName true a b in
  let p := DDrop [(None, 3)] (DWithColumn 2 (EArith AAdd (ECol 0 0) (ELit (VInt 1))) u) in
  schema_of u = Some [(None, 1); (None, 2); (None, 3)]
  /\ option_map (run_query db0) (to_query u) = Some (Ok [[VInt 1; VInt 10; VNull]; [VInt 2; VInt 20; VNull]; [VInt 2; VNull; VInt 7]])
  /\ schema_of p = Some [(None, 1); (None, 2)]
  /\ option_map (run_query db0) (to_query p) = Some (Ok [[VInt 1; VInt 2]; [VInt 2; VInt 3]; [VInt 2; VInt 3]])
  /\ c48_check (C48Case db0 p TNone (Some [1; 2]) (Some [[VInt 2; VInt 3]; [VInt 1; VInt 2]; [VInt 2; VInt 3]])) = true
  /\ c48_check (C48Case db0 p TNone (Some [1; 2]) (Some [[VInt 2; VInt 3]; [VInt 1; VInt 2]])) = false
  /\ c48_check (C48Case db0 u (TDistinctOn [0] [0; 1; 2] [(0, (false, false)); (1, (true, true)); (2, (false, false))])
                        (Some [1; 2; 3]) (Some [[VInt 1; VInt 10; VNull]; [VInt 2; VNull; VInt 7]])) = true.
Proof. vm_compute. repeat split; reflexivity. Qed.
