From DF Require Import Base.Prelude Model.WindowFrame Model.WindowFrameGroups Proofs.WindowFrameProofs Props.C09.
Open Scope Z_scope.
Check C09_frame_is_interval :
  forall so f ks i s e,
    frame_valid f = true -> delimits f (positions so (funits f) ks) i s e ->
    decl_frame so f ks i = seq s (e - s).
Check C09_rows_range_eq_def :
  forall so f ks i,
    funits f = Rows -> frame_valid f = true -> (i < length ks)%nat ->
    (forall n, fstart f = Foll n \/ fend f = Foll n -> Z.of_nat i + n + 1 <= usize_max) ->
    exists s e, rows_range f (zlen ks) (Z.of_nat i) = ORange (Z.of_nat s) (Z.of_nat e) /\
                (s <= e <= length ks)%nat /\ decl_frame so f ks i = seq s (e - s).
Check C09_range_step :
  forall so f ks (ls le idx : nat),
    funits f = Range -> frame_valid f = true -> sorted_keys so ks = true -> (idx < length ks)%nat ->
    range_fits so (fstart f) (nth idx ks None) -> range_fits so (fend f) (nth idx ks None) ->
    (ls <= length ks)%nat -> (le <= length ks)%nat ->
    (forall j, (j < ls)%nat -> ext_lt (kpos so ks j) (lo_of (fstart f) (kpos so ks idx)) = true) ->
    (forall j, (j < le)%nat -> ext_le (kpos so ks j) (hi_of (fend f) (kpos so ks idx)) = true) ->
    exists s e, range_range so f ks ls le (length ks) idx = Some (s, e) /\
                delimits f (positions so Range ks) idx s e.
Check C09_range_resume :
  forall f ps i' i s e,
    sorted_pos ps -> (i' <= i < length ps)%nat -> delimits f ps i' s e ->
    (forall j, (j < s)%nat -> ext_lt (nth j ps PInf) (lo_of (fstart f) (nth i ps PInf)) = true) /\
    (forall j, (j < e)%nat -> ext_le (nth j ps PInf) (hi_of (fend f) (nth i ps PInf)) = true).
Check C09_range_resume_prefix :
  forall f ps m i' i s e,
    sorted_pos ps -> (i' < m <= length ps)%nat -> (i' <= i < length ps)%nat -> delimits f (firstn m ps) i' s e ->
    (forall j, (j < s)%nat -> ext_lt (nth j ps PInf) (lo_of (fstart f) (nth i ps PInf)) = true) /\
    (forall j, (j < e)%nat -> ext_le (nth j ps PInf) (hi_of (fend f) (nth i ps PInf)) = true).
Check C09_range_range_eq_def :
  forall so f ks i,
    funits f = Range -> frame_valid f = true -> sorted_keys so ks = true -> all_fit so f ks ->
    (i < length ks)%nat ->
    exists s e, nth i (range_run so f ks 0 0 0 (length ks)) None = Some (s, e) /\
                (s <= e <= length ks)%nat /\ decl_frame so f ks i = seq s (e - s).
Check C09_positions_sorted :
  forall so u ks, (u = Range -> sorted_keys so ks = true) -> sorted_pos (positions so u ks).
Check C09_frame_monotone :
  forall so f ks i i' s e s' e',
    sorted_pos (positions so (funits f) ks) -> (i <= i' < length ks)%nat ->
    delimits f (positions so (funits f) ks) i s e -> delimits f (positions so (funits f) ks) i' s' e' ->
    (s <= s')%nat /\ (e <= e')%nat.
Check C09_sliding_eq_recompute :
  forall xs frames last,
    (fst last <= snd last)%nat -> forward_frames last frames ->
    slide_run xs (acc_of xs last) last frames = map (acc_of xs) frames.
Check C09_acc_values :
  forall xs s e,
    acc_sum (acc_of xs (s, e)) = eval_over FSum (slice xs s e) /\
    acc_count (acc_of xs (s, e)) = eval_over FCount (slice xs s e).
Check C09_frame_values :
  forall (l : list (option Z)) d n s, (s + n <= length l)%nat ->
    map (fun j => nth j l d) (seq s n) = slice l s (s + n).
Check C09_groups_eq_def_bounded :
  groups_exhaustive 7 3 = true.
Check C09_rows_overflow_refuted :
  exists f len idx, frame_valid f = true /\ funits f = Rows /\ 0 <= idx < len /\ rows_range f len idx = OOverflow.
Check C09_range_overflow_refuted :
  exists so f ks i s e,
    frame_valid f = true /\ funits f = Range /\ sorted_keys so ks = true /\ (i < length ks)%nat /\
    nth i (range_run so f ks 0 0 0 (length ks)) None = Some (s, e) /\ decl_frame so f ks i <> seq s (e - s).
Check C09_nonvacuous :
  let so := {| so_desc := true; so_nf := true |} in
  let f := {| funits := Range; fstart := Prec 1; fend := Foll 1 |} in
  let ks := [None; Some 9; Some 8; Some 8; Some 6; Some 5] in
  frame_valid f = true /\ sorted_keys so ks = true /\
  range_run so f ks 0 0 0 (length ks) =
    [Some (0, 1); Some (1, 4); Some (1, 4); Some (1, 4); Some (4, 6); Some (4, 6)]%nat /\
  map (decl_frame so f ks) (seq 0 6) = [[0]; [1; 2; 3]; [1; 2; 3]; [1; 2; 3]; [4; 5]; [4; 5]]%nat /\
  map (eval_window so f FSum ks [Some 1; Some 2; None; Some 4; Some 5; Some 6]) (seq 0 6) =
    [WInt 1; WInt 6; WInt 6; WInt 6; WInt 11; WInt 11].
Print Assumptions C09_frame_is_interval.
Print Assumptions C09_rows_range_eq_def.
Print Assumptions C09_range_step.
Print Assumptions C09_range_resume.
Print Assumptions C09_range_resume_prefix.
Print Assumptions C09_range_range_eq_def.
Print Assumptions C09_positions_sorted.
Print Assumptions C09_frame_monotone.
Print Assumptions C09_sliding_eq_recompute.
Print Assumptions C09_acc_values.
Print Assumptions C09_frame_values.
Print Assumptions C09_groups_eq_def_bounded.
Print Assumptions C09_rows_overflow_refuted.
Print Assumptions C09_range_overflow_refuted.
Print Assumptions C09_nonvacuous.
