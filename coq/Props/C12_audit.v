From DF Require Import Base.Prelude Model.HashLayout Proofs.HashLayoutLists Proofs.HashLayoutProofs Props.C12.
Open Scope Z_scope.
Check C12_kernel_refines_spec :
  forall (value : Type) (h hv : value -> Z) (rh rhv : Z -> value -> Z) (short : value -> bool) (p : phys value),
    wf value short p ->
    forall (s l : nat) (rehash : bool) (prev : list Z), (s + l <= plen value p)%nat -> length prev = l ->
      hash_win value h hv rh rhv short p s l rehash prev
      = map2 (fun x q => spec value h hv rh rhv short x rehash q) (win s l (decode value p)) prev.
Check C12_hash_layout_independent :
  forall (value : Type) (h hv : value -> Z) (rh rhv : Z -> value -> Z) (short : value -> bool)
         (p q : phys value) (rehash : bool) (prev : list Z),
    wf value short p -> wf value short q ->
    decode value p = decode value q -> length prev = plen value p ->
    hash_win value h hv rh rhv short p 0 (plen value p) rehash prev
    = hash_win value h hv rh rhv short q 0 (plen value q) rehash prev.
Check C12_create_hashes_layout_independent :
  forall (value : Type) (h hv : value -> Z) (rh rhv : Z -> value -> Z) (short : value -> bool)
         (cols cols' : list (phys value)) (n : nat) (init : list Z),
    Forall (fun c => wf value short c /\ plen value c = n) cols ->
    Forall (fun c => wf value short c /\ plen value c = n) cols' ->
    Forall2 (fun p q => decode value p = decode value q) cols cols' -> length init = n ->
    create_hashes value h hv rh rhv short cols init = create_hashes value h hv rh rhv short cols' init.
Check C12_multi_column_fold :
  forall (value : Type) (h hv : value -> Z) (rh rhv : Z -> value -> Z) (short : value -> bool)
         (cols : list (phys value)) (n : nat) (init : list Z) (i : nat),
    Forall (fun c => wf value short c /\ plen value c = n) cols ->
    length init = n -> (i < n)%nat ->
    nth i (create_hashes value h hv rh rhv short cols init) 0
    = row_hash value h hv rh rhv short (col_rows value cols i) (nth i init 0).
Check C12_equal_rows_equal_hashes :
  forall (value : Type) (h hv : value -> Z) (rh rhv : Z -> value -> Z) (short : value -> bool)
         (cols cols' : list (phys value)) (n n' : nat) (init init' : list Z) (i j : nat),
    Forall (fun c => wf value short c /\ plen value c = n) cols ->
    Forall (fun c => wf value short c /\ plen value c = n') cols' ->
    length init = n -> length init' = n' -> (i < n)%nat -> (j < n')%nat ->
    col_rows value cols i = col_rows value cols' j -> nth i init 0 = nth j init' 0 ->
    nth i (create_hashes value h hv rh rhv short cols init) 0
    = nth j (create_hashes value h hv rh rhv short cols' init') 0.
Check C12_with_hashes_eq_create_hashes :
  forall (value : Type) (h hv : value -> Z) (rh rhv : Z -> value -> Z) (short : value -> bool)
         (c : phys value) (cols : list (phys value)),
    with_hashes value h hv rh rhv short (c :: cols)
    = create_hashes value h hv rh rhv short (c :: cols) (repeat 0 (plen value c)).
Check C12_encoded_values_null_refuted :
  forall (h hv : Z -> Z) (rh rhv : Z -> Z -> Z) (short : Z -> bool),
    decode Z c12_wit_p = decode Z c12_wit_q /\
    wfb Z short false c12_wit_p = true /\ wfb Z short false c12_wit_q = true /\
    with_hashes Z h hv rh rhv short [c12_wit_c0; c12_wit_p] <> with_hashes Z h hv rh rhv short [c12_wit_c0; c12_wit_q].
Check C12_encoded_values_null_refuted_any_prev :
  forall (h hv : Z -> Z) (rh rhv : Z -> Z -> Z) (short : Z -> bool) (prev : Z),
    hash_win Z h hv rh rhv short c12_wit_p 0 1 true [prev] <> hash_win Z h hv rh rhv short c12_wit_q 0 1 true [prev].
Print Assumptions C12_kernel_refines_spec.
Print Assumptions C12_hash_layout_independent.
Print Assumptions C12_create_hashes_layout_independent.
Print Assumptions C12_multi_column_fold.
Print Assumptions C12_equal_rows_equal_hashes.
Print Assumptions C12_with_hashes_eq_create_hashes.
Print Assumptions C12_encoded_values_null_refuted.
Print Assumptions C12_encoded_values_null_refuted_any_prev.
Print Assumptions C12_nonvacuous.
