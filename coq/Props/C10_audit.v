From Coq Require Import List ZArith Bool Arith Lia Sorted Permutation.
From DF Require Import Base.Prelude Base.Bits Gen.StrengthReduced Model.Repartition Model.RepartitionSpill
  Proofs.RepartitionProofs Proofs.RepartitionRouting Proofs.RepartitionExchange Props.C10.
Import ListNotations.
Close Scope Z_scope.
Open Scope nat_scope.
Check C10_routing_partition : forall n parts, Forall (fun p => p < n) parts ->
  let ind := route_indices n parts in
  length ind = n /\
  (forall p, p < n -> nth p ind [] = rows_of_part parts n p) /\
  (forall i, i < length parts -> exists p, p < n /\ In i (nth p ind []) /\
                                  forall q, q < n -> In i (nth q ind []) -> q = p) /\
  (forall p, p < n -> StronglySorted lt (nth p ind []) /\ NoDup (nth p ind []) /\
                      forall i, In i (nth p ind []) -> i < length parts).
Check C10_hash_router : forall n hashes, 1 <= n -> (Z.of_nat n < 2 ^ 64)%Z ->
  Forall (fun h => (0 <= h < 2 ^ 64)%Z) hashes ->
  hash_indices n hashes = Some (route_indices n (map (fun h => Z.to_nat (h mod Z.of_nat n)) hashes)) /\
  Forall (fun p => p < n) (map (fun h => Z.to_nat (h mod Z.of_nat n)) hashes).
Check C10_range_router : forall os sps keys,
  range_indices os sps keys = route_indices (S (length sps)) (map (fun k => range_partition_id k sps os) keys) /\
  Forall (fun p => p < S (length sps)) (map (fun k => range_partition_id k sps os) keys).
Check C10_round_robin_router : forall n i m, (0 < n)%Z -> (0 <= i < m)%Z ->
  (0 <= rr_start i n m < n)%Z /\
  forall k j, j < k -> nth j (rr_targets n (rr_start i n m) k) (-1)%Z = ((rr_start i n m + Z.of_nat j) mod n)%Z.
Check C10_grouped_take_eq_filter : forall (R : Type) (d : R) n parts batch, length parts = length batch ->
  grouped_take d batch (route_indices n parts) =
  flat_map (fun p => match sub_rows parts batch p with [] => [] | rows => [(p, rows)] end) (seq 0 n).
Check C10_partition_iter_rows : forall s next b, scheme_ok s next b ->
  exists next' outs, pstep s next b = Some (next', outs) /\
    forall p, p < scheme_outputs s -> rows_for p outs = filter (fun r => part_of s next r =? p) b.
Check C10_partition_iter_exactly_once : forall s next b, scheme_ok s next b ->
  exists next' outs, pstep s next b = Some (next', outs) /\
    Permutation (flat_map (fun p => rows_for p outs) (seq 0 (scheme_outputs s))) b.
Check C10_range_id_spec : forall os sps k, adjacent_lt sps os = true ->
  range_partition_id k sps os = count_le k sps os.
Check C10_range_id_in_range : forall k sps os, range_partition_id k sps os <= length sps.
Check C10_bsearch_terminates : forall k sps os f1 f2 low high,
  high - low <= f1 -> high - low <= f2 -> bsearch f1 k sps os low high = bsearch f2 k sps os low high.
Check C10_range_id_monotone : forall os sps k1 k2, valid_splits sps os = true ->
  length k1 = length os -> length k2 = length os -> compare_rows k1 k2 os <> Gt ->
  range_partition_id k1 sps os <= range_partition_id k2 sps os.
Check C10_range_equal_keys_same_output : forall os sps k1 k2, length k1 = length k2 -> compare_rows k1 k2 os = Eq ->
  range_partition_id k1 sps os = range_partition_id k2 sps os.
Check C10_compare_rows_order : forall os,
  (forall x y, compare_rows y x os = CompOpp (compare_rows x y os)) /\
  (forall x y z, compare_rows x y os = Lt -> compare_rows y z os = Lt -> compare_rows x z os = Lt) /\
  (forall x y z, length x = length y -> length y = length z ->
     compare_rows x y os <> Gt -> compare_rows y z os <> Gt -> compare_rows x z os <> Gt).
Check C10_hash_equal_keys_same_output : forall (hashf : key -> Z) n b next, 1 <= n -> (Z.of_nat n < 2 ^ 64)%Z ->
  (forall k, (0 <= hashf k < 2 ^ 64)%Z) -> Forall (fun r => xhash r = hashf (xkey r)) b ->
  exists outs, pstep (SHash n) next b = Some (next, outs) /\
    forall r1 r2 p, In r1 b -> In r2 b -> xkey r1 = xkey r2 -> p < n ->
      In r1 (rows_for p outs) -> In r2 (rows_for p outs).
Check C10_round_robin_balanced : forall n s p q, (0 < n)%Z -> (0 <= s < n)%Z -> (0 <= p < n)%Z -> (0 <= q < n)%Z -> forall k,
  rr_count n s k p = ((Z.of_nat k + n - 1 - (p - s) mod n) / n)%Z /\
  (Z.of_nat k / n <= rr_count n s k p <= Z.of_nat k / n + 1)%Z /\
  (Z.abs (rr_count n s k p - rr_count n s k q) <= 1)%Z.
Check C10_exchange_exactly_once : forall (R St : Type) (step : St -> list R -> St * list (nat * list R))
    (inputs : nat -> list (list R)) (s0 : nat -> St) m sched p,
  (forall i, m <= i -> inputs i = []) -> never_dropped p sched ->
  let st := xrun R St step inputs s0 sched in
  let got i := snd (prun R St step (s0 i) (firstn (Nat.min (steps_of i sched) (length (inputs i))) (inputs i)) p) in
  (forall i, from_input R i (x_q st p) = got i) /\
  Permutation (x_q st p) (flat_map (fun i => map (fun r => (i, r)) (got i)) (seq 0 m)).
Check C10_exchange_complete : forall (R St : Type) (step : St -> list R -> St * list (nat * list R))
    (inputs : nat -> list (list R)) (s0 : nat -> St) m sched p,
  (forall i, m <= i -> inputs i = []) -> never_dropped p sched ->
  (forall i, i < m -> length (inputs i) <= steps_of i sched) ->
  let st := xrun R St step inputs s0 sched in
  (forall i, from_input R i (x_q st p) = snd (prun R St step (s0 i) (inputs i) p)) /\
  Permutation (x_q st p) (flat_map (fun i => map (fun r => (i, r)) (snd (prun R St step (s0 i) (inputs i) p))) (seq 0 m)).
Check C10_exchange_drop_independent : forall (R St : Type) (step : St -> list R -> St * list (nat * list R))
    (inputs : nat -> list (list R)) (s0 : nat -> St) sched p i, never_dropped p sched ->
  let no_drops := filter (fun e => match e with Step _ => true | Drop _ => false end) sched in
  from_input R i (x_q (xrun R St step inputs s0 sched) p) = from_input R i (x_q (xrun R St step inputs s0 no_drops) p).
Check C10_routed_streams_sorted : forall (le : xrow -> xrow -> Prop) s p batches next, input_ok s next batches ->
  p < scheme_outputs s ->
  exists l, routed s next batches p = Some l /\ incl l (concat batches) /\
    (StronglySorted le (concat batches) -> StronglySorted le l).
Check C10_routed_is_prun : forall sc p batches next l,
  routed sc next batches p = Some l -> snd (prun xrow Z (tstep sc) next batches p) = l.
Check C10_shared_spill_pool_deadlock_refuted :
  exists sched st, srun (sinit [1; 3]) sched = Some st /\ stuck st = true /\ delivered st = 1 /\
    files st = [(1, false); (3, false)] /\ rd_spilled st = true /\ chan st = 1.
Print Assumptions C10_shared_spill_pool_deadlock_refuted.
Print Assumptions C10_routing_partition.
Print Assumptions C10_hash_router.
Print Assumptions C10_range_router.
Print Assumptions C10_round_robin_router.
Print Assumptions C10_grouped_take_eq_filter.
Print Assumptions C10_partition_iter_rows.
Print Assumptions C10_partition_iter_exactly_once.
Print Assumptions C10_range_id_spec.
Print Assumptions C10_range_id_in_range.
Print Assumptions C10_bsearch_terminates.
Print Assumptions C10_range_id_monotone.
Print Assumptions C10_range_equal_keys_same_output.
Print Assumptions C10_compare_rows_order.
Print Assumptions C10_hash_equal_keys_same_output.
Print Assumptions C10_round_robin_balanced.
Print Assumptions C10_exchange_exactly_once.
Print Assumptions C10_exchange_complete.
Print Assumptions C10_exchange_drop_independent.
Print Assumptions C10_routed_streams_sorted.
Print Assumptions C10_routed_is_prun.
Print Assumptions C10_nonvacuous.
