(* C10 -- Repartitioning delivers every row exactly once to the right partition.
   Model: Model/Repartition.v (BatchPartitioner hash / round-robin / range routing as the code computes it,
   partition_grouped_take, the exchange as per-input partitioners + per-output exactly-once FIFO queues).
   The hash kernel is C11's GENERATED code; its remainder theorem is reused, not redone. *)
From Coq Require Import List ZArith Bool Arith Lia Sorted Permutation.
From DF Require Import Base.Prelude Base.Bits Gen.StrengthReduced Model.Repartition Model.RepartitionSpill
  Proofs.RepartitionProofs Proofs.RepartitionRouting Proofs.RepartitionExchange.
Import ListNotations.
Close Scope Z_scope.
Open Scope nat_scope.

(* routing_partition: the index vectors the routers build (row i pushed on indices[parts[i]]) form a partition of
   0..rows: vector p is exactly the ascending list of the rows whose partition is p, so every row index is in exactly one
   vector, each vector is strictly ascending, duplicate-free and in range. (parts = per-row partition, any router.) *)
Theorem C10_routing_partition : forall n parts, Forall (fun p => p < n) parts ->
  let ind := route_indices n parts in
  length ind = n /\
  (forall p, p < n -> nth p ind [] = rows_of_part parts n p) /\
  (forall i, i < length parts -> exists p, p < n /\ In i (nth p ind []) /\
                                  forall q, q < n -> In i (nth q ind []) -> q = p) /\
  (forall p, p < n -> StronglySorted lt (nth p ind []) /\ NoDup (nth p ind []) /\
                      forall i, In i (nth p ind []) -> i < length parts).
Proof. exact route_indices_partition. Qed.

(* ... hash router: the per-row partition is hash mod n (C11's kernel never leaves its machine types), always below n *)
Theorem C10_hash_router : forall n hashes, 1 <= n -> (Z.of_nat n < 2 ^ 64)%Z ->
  Forall (fun h => (0 <= h < 2 ^ 64)%Z) hashes ->
  hash_indices n hashes = Some (route_indices n (map (fun h => Z.to_nat (h mod Z.of_nat n)) hashes)) /\
  Forall (fun p => p < n) (map (fun h => Z.to_nat (h mod Z.of_nat n)) hashes).
Proof. intros. split; [now apply hash_indices_spec|now apply hash_mod_below]. Qed.

(* ... range router: the per-row partition is range_partition_id, always below split_points.len() + 1 *)
Theorem C10_range_router : forall os sps keys,
  range_indices os sps keys = route_indices (S (length sps)) (map (fun k => range_partition_id k sps os) keys) /\
  Forall (fun p => p < S (length sps)) (map (fun k => range_partition_id k sps os) keys).
Proof. intros. split; [reflexivity|apply range_parts_below]. Qed.

(* ... round robin: a whole batch goes to one partition; batch j (from 0) of input i goes to (start + j) mod n,
   start = (i * n) / m, which is a valid partition *)
Theorem C10_round_robin_router : forall n i m, (0 < n)%Z -> (0 <= i < m)%Z ->
  (0 <= rr_start i n m < n)%Z /\
  forall k j, j < k -> nth j (rr_targets n (rr_start i n m) k) (-1)%Z = ((rr_start i n m + Z.of_nat j) mod n)%Z.
Proof. intros n i m Hn Hi. pose proof (rr_start_range i n m Hi Hn). split; auto. intros. now apply rr_targets_nth. Qed.

(* grouped_take_eq_filter: partition_grouped_take over the routers' index vectors yields, per partition that received
   rows and in increasing partition order, exactly the sub-sequence of batch rows routed there, in input order
   (concatenate + one take + slice(start, len) loses, duplicates and reorders nothing). *)
Theorem C10_grouped_take_eq_filter : forall (R : Type) (d : R) n parts batch, length parts = length batch ->
  grouped_take d batch (route_indices n parts) =
  flat_map (fun p => match sub_rows parts batch p with [] => [] | rows => [(p, rows)] end) (seq 0 n).
Proof. exact @grouped_take_route. Qed.

(* ... and at the level of partition_iter, for all three schemes: output p gets the rows whose routing-function value
   is p, in input order *)
Theorem C10_partition_iter_rows : forall s next b, scheme_ok s next b ->
  exists next' outs, pstep s next b = Some (next', outs) /\
    forall p, p < scheme_outputs s -> rows_for p outs = filter (fun r => part_of s next r =? p) b.
Proof. exact pstep_rows. Qed.

(* every row of a batch is handed to exactly one output, exactly once *)
Theorem C10_partition_iter_exactly_once : forall s next b, scheme_ok s next b ->
  exists next' outs, pstep s next b = Some (next', outs) /\
    Permutation (flat_map (fun p => rows_for p outs) (seq 0 (scheme_outputs s))) b.
Proof. exact pstep_exactly_once. Qed.

(* range_id_spec: on split points that pass validate_range_split_points' ordering test the binary search returns the
   number of split points <= key (under compare_rows with the sort options) -- for every key, of any width *)
Theorem C10_range_id_spec : forall os sps k, adjacent_lt sps os = true ->
  range_partition_id k sps os = count_le k sps os.
Proof. exact range_id_count. Qed.

(* the result is a valid partition even for unsorted split points; the loop never runs out of iterations *)
Theorem C10_range_id_in_range : forall k sps os, range_partition_id k sps os <= length sps.
Proof. exact range_partition_id_bound. Qed.
Theorem C10_bsearch_terminates : forall k sps os f1 f2 low high,
  high - low <= f1 -> high - low <= f2 -> bsearch f1 k sps os low high = bsearch f2 k sps os low high.
Proof. exact bsearch_fuel_irrelevant. Qed.

(* monotone in the key; keys equal under the comparator go to the same partition *)
Theorem C10_range_id_monotone : forall os sps k1 k2, valid_splits sps os = true ->
  length k1 = length os -> length k2 = length os -> compare_rows k1 k2 os <> Gt ->
  range_partition_id k1 sps os <= range_partition_id k2 sps os.
Proof. exact range_id_monotone. Qed.
Theorem C10_range_equal_keys_same_output : forall os sps k1 k2, length k1 = length k2 -> compare_rows k1 k2 os = Eq ->
  range_partition_id k1 sps os = range_partition_id k2 sps os.
Proof. exact range_id_equal_keys. Qed.

(* the comparator is a strict order / total preorder on rows of one width (what the above rests on) *)
Theorem C10_compare_rows_order : forall os,
  (forall x y, compare_rows y x os = CompOpp (compare_rows x y os)) /\
  (forall x y z, compare_rows x y os = Lt -> compare_rows y z os = Lt -> compare_rows x z os = Lt) /\
  (forall x y z, length x = length y -> length y = length z ->
     compare_rows x y os <> Gt -> compare_rows y z os <> Gt -> compare_rows x z os <> Gt).
Proof.
  intros os. split; [apply compare_rows_antisym|]. split; [apply compare_rows_lt_trans|apply compare_rows_le_trans].
Qed.

(* hash_equal_keys_same_output: whatever function of the key columns the row hash is *)
Theorem C10_hash_equal_keys_same_output : forall (hashf : key -> Z) n b next, 1 <= n -> (Z.of_nat n < 2 ^ 64)%Z ->
  (forall k, (0 <= hashf k < 2 ^ 64)%Z) -> Forall (fun r => xhash r = hashf (xkey r)) b ->
  exists outs, pstep (SHash n) next b = Some (next, outs) /\
    forall r1 r2 p, In r1 b -> In r2 b -> xkey r1 = xkey r2 -> p < n ->
      In r1 (rows_for p outs) -> In r2 (rows_for p outs).
Proof. exact hash_equal_keys. Qed.

(* round_robin_balanced: after k batches partition p has received exactly (k + n - 1 - d) / n of them, d = (p - start) mod n
   its distance from the start index: floor(k/n) or ceil(k/n), any two partitions differ by at most one *)
Theorem C10_round_robin_balanced : forall n s p q, (0 < n)%Z -> (0 <= s < n)%Z -> (0 <= p < n)%Z -> (0 <= q < n)%Z -> forall k,
  rr_count n s k p = ((Z.of_nat k + n - 1 - (p - s) mod n) / n)%Z /\
  (Z.of_nat k / n <= rr_count n s k p <= Z.of_nat k / n + 1)%Z /\
  (Z.abs (rr_count n s k p - rr_count n s k q) <= 1)%Z.
Proof.
  intros n s p q Hn Hs Hp Hq k. split; [now apply rr_count_formula|]. destruct (rr_balanced n s p q Hn Hs Hp Hq k). auto.
Qed.

(* exchange_exactly_once: for ANY partitioner state machine `step`, any inputs (m input partitions), and ANY interleaving
   `sched` of "input task i handles its next batch" and "output q is dropped" events: an output p that was never dropped
   holds, from each input i, exactly the rows that input's partitioner routes to p over the batches the task has pulled,
   in that order (per (input, output) pair order is preserved), and as a multiset exactly those rows, each once. *)
Theorem C10_exchange_exactly_once : forall (R St : Type) (step : St -> list R -> St * list (nat * list R))
    (inputs : nat -> list (list R)) (s0 : nat -> St) m sched p,
  (forall i, m <= i -> inputs i = []) -> never_dropped p sched ->
  let st := xrun R St step inputs s0 sched in
  let got i := snd (prun R St step (s0 i) (firstn (Nat.min (steps_of i sched) (length (inputs i))) (inputs i)) p) in
  (forall i, from_input R i (x_q st p) = got i) /\
  Permutation (x_q st p) (flat_map (fun i => map (fun r => (i, r)) (got i)) (seq 0 m)).
Proof. exact exchange_delivers. Qed.

(* ... once every input task has run to its end: everything routed to p, whatever happened to the other outputs *)
Theorem C10_exchange_complete : forall (R St : Type) (step : St -> list R -> St * list (nat * list R))
    (inputs : nat -> list (list R)) (s0 : nat -> St) m sched p,
  (forall i, m <= i -> inputs i = []) -> never_dropped p sched ->
  (forall i, i < m -> length (inputs i) <= steps_of i sched) ->
  let st := xrun R St step inputs s0 sched in
  (forall i, from_input R i (x_q st p) = snd (prun R St step (s0 i) (inputs i) p)) /\
  Permutation (x_q st p) (flat_map (fun i => map (fun r => (i, r)) (snd (prun R St step (s0 i) (inputs i) p))) (seq 0 m)).
Proof. exact exchange_complete. Qed.

(* ... dropping other outputs early does not affect what p receives *)
Theorem C10_exchange_drop_independent : forall (R St : Type) (step : St -> list R -> St * list (nat * list R))
    (inputs : nat -> list (list R)) (s0 : nat -> St) sched p i, never_dropped p sched ->
  let no_drops := filter (fun e => match e with Step _ => true | Drop _ => false end) sched in
  from_input R i (x_q (xrun R St step inputs s0 sched) p) = from_input R i (x_q (xrun R St step inputs s0 no_drops) p).
Proof. exact exchange_drop_independent. Qed.

(* the concrete partitioner (all three schemes) run over a whole input never fails, routes only rows of that input, and
   keeps a sorted input sorted per output: the streams preserve_order merges are sorted (the k-way merge itself is C08's
   C08_merge_sorted_perm).  `routed` is what the checker compares with the implementation; it is the exchange theorem's
   `prun` for this partitioner. *)
Theorem C10_routed_streams_sorted : forall (le : xrow -> xrow -> Prop) s p batches next, input_ok s next batches ->
  p < scheme_outputs s ->
  exists l, routed s next batches p = Some l /\ incl l (concat batches) /\
    (StronglySorted le (concat batches) -> StronglySorted le l).
Proof. exact routed_total_sorted. Qed.
Theorem C10_routed_is_prun : forall sc p batches next l,
  routed sc next batches p = Some l -> snd (prun xrow Z (tstep sc) next batches p) = l.
Proof. exact routed_prun. Qed.

(* KNOWN FINDING (replayed on the implementation by the harness witness, see lib/props/C10_known_findings_proposed.json):
   the exchange theorem above takes the per-output queue as an exactly-once FIFO.  The real queue of non-preserve-order
   mode -- Spilled markers through the gated distributor channel + ONE multi-producer spill pool shared by all input tasks
   of an output -- is not: in the faithful small model Model/RepartitionSpill.v two input tasks (1 and 3 batches, everything
   spilled, one output) reach a state in which no task and not the reader can take a step while 3 of the 4 batches are
   undelivered: the reader took a marker and polls the spill stream, which is pending on the exhausted but unsealed first
   file; the batches are in the second file; task 1 is blocked in send by the gate (the channel holds a marker the reader
   no longer takes), so it never drops its sink and the first file is never sealed. *)
Theorem C10_shared_spill_pool_deadlock_refuted :
  exists sched st, srun (sinit [1; 3]) sched = Some st /\ stuck st = true /\ delivered st = 1 /\
    files st = [(1, false); (3, false)] /\ rd_spilled st = true /\ chan st = 1.
Proof.
  exists [TakeFile 0; TakeFile 1; Write 1; Send 1; Reader; TakeFile 1; Write 1; Send 1; TakeFile 1; Write 1;
          Write 0; Reader; Reader; Send 0; Finish 0].
  eexists. split; [vm_compute; reflexivity|]. vm_compute. repeat split; reflexivity.
Qed.

(* non-vacuity: a two-column range partitioning (first column descending, NULLs first; second ascending, NULLs last)
   with three valid split points, keys with NULLs / duplicates / a string column; a hash batch over 3 partitions; a
   round-robin start; a 2-input exchange history with an empty batch and a dropped output. *)
Definition ex_os := [ {| s_desc := true; s_nulls_first := true |}; {| s_desc := false; s_nulls_first := false |} ].
Definition I (v : Z) : cell := Some [v].
Definition ex_sps : list key := [ [None; I 5]; [I 9; Some [97; 98]%Z]; [I 9; None] ]%Z.
Definition ex_keys : list key :=
  [ [I 10; I 1]; [None; I 4]; [None; I 5]; [I 9; Some [97]]; [I 9; Some [97; 98]]; [I 9; None]; [I 3; None]; [None; None];
    [I 9; Some [97; 98; 0]] ]%Z.
Example C10_nonvacuous :
  valid_splits ex_sps ex_os = true /\
  map (fun k => range_partition_id k ex_sps ex_os) ex_keys = [1; 0; 1; 1; 2; 3; 3; 1; 2] /\
  map (fun k => count_le k ex_sps ex_os) ex_keys = [1; 0; 1; 1; 2; 3; 3; 1; 2] /\
  range_indices ex_os ex_sps ex_keys = [[1]; [0; 2; 3; 7]; [4; 8]; [5; 6]] /\
  hash_indices 3 [7; 18446744073709551615; 9; 4; 0; 5]%Z = Some [[1; 2; 4]; [0; 3]; [5]] /\
  grouped_take 0 [10; 11; 12; 13; 14; 15] [[2; 5]; []; [0; 3; 4]] = [(0, [12; 15]); (2, [10; 13; 14])] /\
  rr_start 2 5 3 = 3%Z /\ rr_targets 5 3 7 = [3; 4; 0; 1; 2; 3; 4]%Z /\ rr_count 5 3 7 4 = 2%Z /\
  (let inputs := fun i => match i with 0 => [[1; 2; 3]; []; [4]] | 1 => [[5; 6]; [7; 8]] | _ => [] end in
   let step := fun (s : nat) (b : list nat) => (S s, [(s mod 2, b)]) in
   let st := xrun nat nat step inputs (fun i => i) [Step 1; Step 0; Drop 1; Step 0; Step 1; Step 0] in
   x_q st 0 = [(0, 1); (0, 2); (0, 3); (1, 7); (1, 8)] /\ x_q st 1 = []).
Proof. vm_compute. repeat split; reflexivity. Qed.
