From DF Require Import Base.Prelude Model.ListingPrune Proofs.ListingPruneProofs Props.C27.
Open Scope Z_scope.
Check C27_prefix_sound :
  forall cols atoms file,
    NoDup (map fst cols) -> canonical_file file = true ->
    file_matches cols atoms file = true ->
    has_prefix (eval_prefix cols atoms) file = true.
Check C27_pruned_eq_scan_all :
  forall cols atoms files,
    NoDup (map fst cols) -> forallb canonical_file files = true ->
    pruned cols atoms files = scan_all cols atoms files.
Check C27_pruned_superset :
  forall cols atoms files f,
    NoDup (map fst cols) -> forallb canonical_file files = true ->
    In f files -> file_matches cols atoms f = true -> In f (pruned cols atoms files).
Check C27_pruned_subset :
  forall spelling cols atoms files f,
    In f (pruned_gen spelling cols atoms files) -> In f files /\ file_matches cols atoms f = true.
Check C27_upstream_refuted :
  exists cols atoms files,
    NoDup (map fst cols) /\ forallb canonical_file files = true /\
    pruned_upstream cols atoms files <> scan_all cols atoms files.
Check C27_upstream_drops_matching_file :
  NoDup (map fst w_cols) /\ forallb canonical_file w_files = true /\
  In w_file01 w_files /\ file_matches w_cols w_atoms w_file01 = true /\
  pruned_upstream w_cols w_atoms w_files = [w_file1] /\
  pruned w_cols w_atoms w_files = w_files.
Check C27_overencoded_refuted :
  exists cols atoms file,
    NoDup (map fst cols) /\ file_matches cols atoms file = true /\
    has_prefix (eval_prefix cols atoms) file = false.
Check C27_dup_cols_refuted :
  exists cols atoms file,
    canonical_file file = true /\ file_matches cols atoms file = true /\
    has_prefix (eval_prefix cols atoms) file = false.
Check C27_decode_encode_roundtrip :
  forall v, Forall (fun b => 0 <= b < 128) v -> decode_val (pct_encode v) = v.
Check C27_parse_build_roundtrip :
  forall cols vs fname,
    length vs = length cols ->
    Forall (fun c => ~ In 61 (fst c)) cols ->
    Forall (Forall (fun b => 0 <= b < 128)) vs ->
    parse_path cols (build_path cols vs fname) = Some vs.
Check C27_build_path_canonical :
  forall cols vs fname,
    Forall (fun c => ~ In 61 (fst c)) cols ->
    Forall (Forall (fun b => 0 <= b < 128)) vs ->
    ~ In 61 fname ->
    canonical_file (build_path cols vs fname) = true.
Check C27_split_eq_spec :
  forall s a b, split_eq s = Some (a, b) <-> s = a ++ 61 :: b /\ ~ In 61 a.
Check C27_prefix_parts_are_canonical_segments :
  forall cols atoms,
    Forall2 (fun part col => exists txt,
               In (fst col, VStr txt) atoms /\ part = seg (fst col) txt /\ pct_encode txt = txt)
            (eval_prefix cols atoms) (firstn (length (eval_prefix cols atoms)) cols).
Check C27_has_prefix_nil : forall f, has_prefix [] f = true.
Print Assumptions C27_prefix_sound.
Print Assumptions C27_pruned_eq_scan_all.
Print Assumptions C27_pruned_superset.
Print Assumptions C27_pruned_subset.
Print Assumptions C27_upstream_refuted.
Print Assumptions C27_upstream_drops_matching_file.
Print Assumptions C27_overencoded_refuted.
Print Assumptions C27_dup_cols_refuted.
Print Assumptions C27_decode_encode_roundtrip.
Print Assumptions C27_parse_build_roundtrip.
Print Assumptions C27_build_path_canonical.
Print Assumptions C27_split_eq_spec.
Print Assumptions C27_prefix_parts_are_canonical_segments.
Print Assumptions C27_has_prefix_nil.
Print Assumptions C27_nonvacuous.
Print Assumptions C27_nonvacuous_roundtrip.
