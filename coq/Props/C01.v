(* C01 -- SQL query results agree with reference relational semantics.
   Model/RefSQL.v is the reference ("the rows that SQL three-valued semantics define"); the theorems below are
   LAWS OF THE REFERENCE, universally quantified over relations, predicates and values.  They establish that the
   reference is the textbook definition of SQL rather than a second engine.  DataFusion's planner, optimizer and
   operators are not modelled: the engine is tied to the reference by differential execution of generated
   queries (harness/h_core/src/bin/c01.rs + c01_check), which is testing, not proof.
   [count x R] is the multiplicity of row x in the bag R; [Permutation] is bag equality. *)
From Coq Require Import List ZArith Bool Permutation Sorting.Sorted.
From DF Require Import Base.Prelude Model.RefSQL Proofs.RefSQLLaws.
Import ListNotations.
Open Scope Z_scope.

(* ---- Kleene three-valued logic *)
Theorem C01_kleene_and :
  and3 TT TT = TT /\ and3 TT TF = TF /\ and3 TT TU = TU /\
  and3 TF TT = TF /\ and3 TF TF = TF /\ and3 TF TU = TF /\
  and3 TU TT = TU /\ and3 TU TF = TF /\ and3 TU TU = TU.
Proof. exact and3_table. Qed.
Theorem C01_kleene_or :
  or3 TT TT = TT /\ or3 TT TF = TT /\ or3 TT TU = TT /\
  or3 TF TT = TT /\ or3 TF TF = TF /\ or3 TF TU = TU /\
  or3 TU TT = TT /\ or3 TU TF = TU /\ or3 TU TU = TU.
Proof. exact or3_table. Qed.
Theorem C01_kleene_not : not3 TT = TF /\ not3 TF = TT /\ not3 TU = TU.
Proof. exact not3_table. Qed.
Theorem C01_de_morgan_and : forall a b, not3 (and3 a b) = or3 (not3 a) (not3 b).
Proof. exact de_morgan_and. Qed.
Theorem C01_de_morgan_or : forall a b, not3 (or3 a b) = and3 (not3 a) (not3 b).
Proof. exact de_morgan_or. Qed.

(* ---- WHERE / HAVING / ON keep exactly the rows whose predicate is TRUE (not FALSE, not UNKNOWN), with their
        multiplicities; an evaluation error is an error of the query *)
Theorem C01_filter_keeps_exactly_true : forall (p : row -> res tv) R R',
  filter_m p R = Ok R' ->
  forall r, (In r R' <-> In r R /\ p r = Ok TT) /\
            count r R' = (if is_tt (p r) then count r R else 0%nat).
Proof. exact filter_keeps_exactly_true. Qed.
Theorem C01_filter_errors_propagate : forall (p : row -> res tv) R R',
  filter_m p R = Ok R' -> forall r, In r R -> exists t, p r = Ok t.
Proof. exact filter_errors_propagate. Qed.
Theorem C01_eval_filter_keeps_exactly_true : forall f d en p q R',
  eval_query (S f) d en (QFilter p q) = Ok R' ->
  exists R, eval_query f d en q = Ok R /\
    forall r, count r R' =
      (if is_tt (v <- eval_expr f d (r :: en) p;; tv_of_value v) then count r R else 0%nat).
Proof. exact eval_filter_keeps_exactly_true. Qed.

(* ---- joins *)
Theorem C01_inner_join_spec : forall on L R x,
  In x (inner_join on L R) <-> exists l r, In l L /\ In r R /\ on l r = true /\ x = l ++ r.
Proof. exact inner_join_spec. Qed.
Theorem C01_left_join_decomp : forall on wr L R,
  Permutation (left_join on wr L R)
              (inner_join on L R ++ map (fun l => l ++ nulls wr) (unmatched_left on L R)).
Proof. exact left_join_decomp. Qed.
Theorem C01_right_join_decomp : forall on wl L R,
  Permutation (right_join on wl L R)
              (inner_join on L R ++ map (fun r => nulls wl ++ r) (unmatched_right on L R)).
Proof. exact right_join_decomp. Qed.
Theorem C01_full_join_decomp : forall on wl wr L R,
  Permutation (full_join on wl wr L R)
              (inner_join on L R ++ map (fun l => l ++ nulls wr) (unmatched_left on L R)
                                 ++ map (fun r => nulls wl ++ r) (unmatched_right on L R)).
Proof. exact full_join_decomp. Qed.
Theorem C01_unmatched_left_spec : forall on L R l,
  In l (unmatched_left on L R) <-> In l L /\ forall r, In r R -> on l r = false.
Proof. exact unmatched_left_spec. Qed.
Theorem C01_semi_anti_partition : forall on L R, Permutation (semi_join on L R ++ anti_join on L R) L.
Proof. exact semi_anti_partition. Qed.
Theorem C01_semi_join_exists : forall on L R l,
  In l (semi_join on L R) <-> In l L /\ exists r, In r R /\ on l r = true.
Proof. exact semi_join_exists. Qed.
Theorem C01_anti_join_not_exists : forall on L R l,
  In l (anti_join on L R) <-> In l L /\ forall r, In r R -> on l r = false.
Proof. exact anti_join_not_exists. Qed.

(* ---- IN / NOT IN with NULLs *)
Theorem C01_in_as_or_chain : forall x,
  in3 x [] = TF /\ forall v vs, in3 x (v :: vs) = or3 (eq3 x v) (in3 x vs).
Proof. exact in_as_or_chain. Qed.
Theorem C01_in_true : forall x vs, in3 x vs = TT <-> exists v, In v vs /\ vcompare x v = Some Eq.
Proof. exact in3_TT. Qed.
Theorem C01_not_in_null_aware : forall x vs,
  not_in3 x vs = TT <->
  (vs = [] \/ (x <> VNull /\ ~ In VNull vs /\ forall v, In v vs -> vcompare x v <> Some Eq)).
Proof. exact not_in_null_aware. Qed.
Theorem C01_not_in_false : forall x vs,
  not_in3 x vs = TF <-> exists v, In v vs /\ vcompare x v = Some Eq.
Proof. exact not_in_false. Qed.
Theorem C01_not_in_as_ne_all : forall x vs, not_in3 x vs = all3 (map (ne3 x) vs).
Proof. exact not_in_as_ne_all. Qed.
Theorem C01_not_in_null_aware_anti : forall x vs,
  not_in3 x vs = TT <->
  (existsb (fun v => match eq3 x v with TF => false | _ => true end) vs = false).
Proof. exact not_in_null_aware_anti. Qed.

(* ---- set operations by multiplicities, DISTINCT *)
Theorem C01_set_ops_multiplicities : forall L R x,
  count x (set_op SUnion true L R) = (count x L + count x R)%nat /\
  count x (set_op SUnion false L R) = Nat.min 1 (count x L + count x R) /\
  count x (set_op SIntersect true L R) = Nat.min (count x L) (count x R) /\
  count x (set_op SIntersect false L R) = Nat.min 1 (Nat.min (count x L) (count x R)) /\
  count x (set_op SExcept true L R) = (count x L - count x R)%nat /\
  count x (set_op SExcept false L R) = (Nat.min 1 (count x L) - Nat.min 1 (count x R))%nat.
Proof. exact set_ops_multiplicities. Qed.
Theorem C01_distinct_count : forall R x, count x (distinct R) = Nat.min 1 (count x R).
Proof. exact distinct_count. Qed.
Theorem C01_distinct_idempotent : forall R, distinct (distinct R) = distinct R.
Proof. exact distinct_idempotent. Qed.

(* ---- ORDER BY, LIMIT / OFFSET *)
Theorem C01_order_by_sorted_perm : forall ds (l : list (row * row)),
  Permutation (sort_pairs ds l) l /\
  Sorted (fun p q => keys_leb ds (fst p) (fst q) = true) (sort_pairs ds l).
Proof. exact order_by_sorted_perm. Qed.
Theorem C01_eval_sort_perm : forall f d en keys q S0,
  eval_query (S f) d en (QSort keys q) = Ok S0 ->
  exists R, eval_query f d en q = Ok R /\ Permutation S0 R.
Proof. exact eval_sort_perm. Qed.
Theorem C01_null_placement : forall desc v, v <> VNull ->
  dir_cmp (desc, true) VNull v = Lt /\ dir_cmp (desc, true) v VNull = Gt /\
  dir_cmp (desc, false) VNull v = Gt /\ dir_cmp (desc, false) v VNull = Lt /\
  dir_cmp (desc, true) VNull VNull = Eq /\ dir_cmp (desc, false) VNull VNull = Eq.
Proof. exact null_placement. Qed.
Theorem C01_dir_cmp_nonnull : forall nf a b, a <> VNull -> b <> VNull ->
  dir_cmp (false, nf) a b = vcmp_nn a b /\ dir_cmp (true, nf) a b = CompOpp (vcmp_nn a b).
Proof. exact dir_cmp_nonnull. Qed.
Theorem C01_limit_offset_is_firstn_skipn : forall off lim R,
  limit_offset off lim R =
    match lim with
    | Some n => firstn (Z.to_nat n) (skipn (Z.to_nat off) R)
    | None => skipn (Z.to_nat off) R
    end.
Proof. exact limit_offset_is_firstn_skipn. Qed.
Theorem C01_limit_offset_nth : forall off n R i,
  nth_error (limit_offset off (Some n) R) i =
    if (i <? Z.to_nat n)%nat then nth_error R (Z.to_nat off + i) else None.
Proof. exact limit_offset_nth. Qed.

(* ---- GROUP BY and aggregates *)
Theorem C01_group_by_partitions : forall (A : Type) (l : list (row * A)),
  Permutation (flat_groups (group_pairs l)) l.
Proof. exact (@group_by_partitions). Qed.
Theorem C01_group_keys_nodup : forall (A : Type) (l : list (row * A)), NoDup (map fst (group_pairs l)).
Proof. exact (@group_keys_nodup). Qed.
Theorem C01_group_nonempty : forall (A : Type) (l : list (row * A)),
  Forall (fun g => snd g <> []) (group_pairs l).
Proof. exact (@group_nonempty). Qed.
Theorem C01_group_member_key : forall (A : Type) (l : list (row * A)) g x,
  In g (group_pairs l) -> In x (snd g) -> In (fst g, x) l.
Proof. exact (@group_member_key). Qed.
Theorem C01_group_complete : forall (A : Type) (l : list (row * A)) k x,
  In (k, x) l -> exists g, In g (group_pairs l) /\ fst g = k /\ In x (snd g).
Proof. exact (@group_complete). Qed.
Theorem C01_null_key_own_group :
  row_eqb [VNull] [VNull] = true /\
  forall v, v <> VNull -> row_eqb [VNull] [v] = false /\ row_eqb [v] [VNull] = false.
Proof. exact null_key_own_group. Qed.
Theorem C01_row_eqb_eq : forall a b, row_eqb a b = true <-> a = b.
Proof. exact row_eqb_eq. Qed.
Theorem C01_agg_empty :
  agg_apply FCountStar [] = Ok (VInt 0) /\ agg_apply FCount [] = Ok (VInt 0) /\
  agg_apply FCountDistinct [] = Ok (VInt 0) /\ agg_apply FSum [] = Ok VNull /\
  agg_apply FMin [] = Ok VNull /\ agg_apply FMax [] = Ok VNull /\ agg_apply FAvg [] = Ok VNull.
Proof. exact agg_empty. Qed.
Theorem C01_agg_ignores_nulls : forall fn vs, fn <> FCountStar -> agg_apply fn vs = agg_apply fn (nonnull vs).
Proof. exact agg_ignores_nulls. Qed.
Theorem C01_agg_all_null : forall vs, Forall (fun v => v = VNull) vs ->
  agg_apply FCountStar vs = Ok (VInt (len vs)) /\ agg_apply FCount vs = Ok (VInt 0) /\
  agg_apply FCountDistinct vs = Ok (VInt 0) /\ agg_apply FSum vs = Ok VNull /\
  agg_apply FMin vs = Ok VNull /\ agg_apply FMax vs = Ok VNull /\ agg_apply FAvg vs = Ok VNull.
Proof. exact agg_all_null. Qed.
Theorem C01_sum_avg_spec : forall z zs,
  let s := fold_right Z.add 0 (z :: zs) in
  agg_apply FSum (map VInt (z :: zs)) = chk64 s /\
  agg_apply FAvg (map VInt (z :: zs)) = Ok (mk_rat s (len (z :: zs))) /\
  agg_apply FCount (map VInt (z :: zs)) = Ok (VInt (len (z :: zs))).
Proof. exact sum_avg_spec. Qed.
Theorem C01_mk_rat_exact : forall n d n' d', d > 0 -> mk_rat n d = VRat n' d' ->
  n' * d = n * d' /\ d' > 0 /\ Z.gcd n' d' = 1.
Proof. exact mk_rat_exact. Qed.

(* ---- the comparison used by c01_check for unordered results is exactly bag equality *)
Theorem C01_bag_eqb_iff : forall a b, bag_eqb a b = true <-> Permutation a b.
Proof. exact bag_eqb_iff. Qed.

(* ---- non-vacuity: the reference runs, on instances where the NULL rules matter.
   t0 = {1, 2, NULL}, t1 = {2, NULL}:
     SELECT c0 FROM t0 WHERE c0 NOT IN (SELECT c0 FROM t1)  is empty (the NULL in t1 makes every test non-TRUE);
     t0 LEFT JOIN t1 ON t0.c0 = t1.c0  pads 1 and NULL;  count( * ), count(c0), sum(c0), avg(c0) over t0 = 3, 2, 3, 3/2. *)
Definition ex_db : db := [ [[VInt 1]; [VInt 2]; [VNull]] ; [[VInt 2]; [VNull]] ].
Example C01_nonvacuous_not_in :
  run_query ex_db (QFilter (EInSub true (ECol 0 0) (QTable 1)) (QTable 0)) = Ok [] /\
  run_query ex_db (QFilter (EInSub false (ECol 0 0) (QTable 1)) (QTable 0)) = Ok [[VInt 2]].
Proof. split; vm_compute; reflexivity. Qed.
Example C01_nonvacuous_left_join_agg :
  run_query ex_db (QJoin JLeft 1 1 (ECmp CEq (ECol 0 0) (ECol 0 1)) (QTable 0) (QTable 1))
    = Ok [[VInt 1; VNull]; [VInt 2; VInt 2]; [VNull; VNull]] /\
  run_query ex_db (QGroup [] [(FCountStar, ELit VNull); (FCount, ECol 0 0); (FSum, ECol 0 0); (FAvg, ECol 0 0)] None (QTable 0))
    = Ok [[VInt 3; VInt 2; VInt 3; VRat 3 2]] /\
  c01_check (C01Case ex_db (QLimit 0 (Some 1) (QSort [(ECol 0 0, (true, false))] (QTable 0))) (Some [[VInt 2]])) = true /\
  c01_check (C01Case ex_db (QLimit 0 (Some 1) (QSort [(ECol 0 0, (true, false))] (QTable 0))) (Some [[VNull]])) = false.
Proof. repeat split; vm_compute; reflexivity. Qed.
