(* generated from Props/C33.v: pins the statement of every property theorem and prints its assumptions *)
From DF Require Import Base.Prelude Model.RefSQL Model.EvalStrategies Proofs.EvalStrategiesProofs Props.C33.
Open Scope Z_scope.
Check C33_inlist_set_eq_or_chain :
  forall neg vs x,
    vs <> [] -> plain x = true -> forallb plain vs = true ->
    inlist_set neg vs x = in_spec neg x vs.
Check C33_inlist_or_chain_eq_rowwise :
  forall (A : Type) (rows : list A) (x : A -> value) (fs : list (A -> value)) neg,
    inlist_or_chain neg (map x rows) (map (fun f => map f rows) fs)
    = map (fun r => in_spec neg (x r) (map (fun f => f r) fs)) rows.
Check C33_case_mask_eq_rowwise :
  forall (A : Type) (ws : list (@cond A * @rexpr A)) (els : option (@rexpr A)) (rows : list A) out,
    case_mask ws els rows = Ok out <-> mapM (case_row ws els) rows = Ok out.
Check C33_case_guarded_branch_no_error :
  forall (A : Type) (ws : list (@cond A * @rexpr A)) (els : option (@rexpr A)) (rows : list A),
    (forall r, In r rows -> exists v, case_row ws els r = Ok v) -> exists out, case_mask ws els rows = Ok out.
Check C33_case_lookup_eq_rowwise :
  forall ws els x,
    plain x = true -> forallb (fun p => plain (fst p)) ws = true ->
    case_lookup ws els x = case_simple_row ws els x.
Check C33_short_circuit_sound :
  forall (A : Type) b (l r : @cond A) (rows : list A) vs,
    (mapM (logic_strict b l r) rows = Ok vs -> logic_vec b l r rows = Ok vs) /\
    (logic_vec b l r rows = Ok vs -> mapM (logic_lazy b l r) rows = Ok vs).
Check C33_short_circuit_is_lazy :
  forall (A : Type) b (l r : @cond A) (rows : list A) lv vs,
    mapM l rows = Ok lv -> check_short_circuit b lv <> SNone ->
    (logic_vec b l r rows = Ok vs <-> mapM (logic_lazy b l r) rows = Ok vs).
Check C33_selection_commutes :
  forall (A : Type) (f : @rexpr A) sel (rows : list A), length sel = length rows ->
    (forall vs, mapM f (select sel rows) = Ok vs ->
       exists out, eval_selection f sel rows = Ok out /\ select sel out = map Some vs) /\
    (forall out, eval_selection f sel rows = Ok out ->
       exists vs, mapM f (select sel rows) = Ok vs /\ select sel out = map Some vs).
Check C33_scalar_array_agree :
  (forall (op : value -> value -> tv) col s,
     map (fun x => op x s) col = map2 op col (repeat s (length col)) /\
     map (fun y => op s y) col = map2 op (repeat s (length col)) col) /\
  (forall neg vs s n, inlist_set_scalar neg vs s n = inlist_set_col neg vs (repeat s n)) /\
  (forall ws els s n, repeat (case_lookup ws els s) n = map (case_lookup ws els) (repeat s n)).
Check C33_nonvacuous_inlist :
  inlist_set true [VInt 1; VNull] (VInt 2) = TU /\ in_spec true (VInt 2) [VInt 1; VNull] = TU /\
  inlist_set true [VInt 1; VNull] (VInt 1) = TF /\ inlist_set false [VInt 1] VNull = TU /\
  inlist_set false [VInt 1; VInt 3; VInt 3] (VInt 3) = TT.
Check C33_nonvacuous_case_guard :
  case_mask [(evc nv_cond, ev nv_div)] (Some (ev (ELit (VInt (-1))))) nv_rows
    = Ok [VInt 2; VInt (-1); VNull; VInt (-1)] /\
  mapM (ev nv_div) nv_rows = Err EDivZero.
Check C33_nonvacuous_short_circuit :
  check_short_circuit true [TT; TF; TF; TF; TF; TF] = SPreSelection /\
  logic_vec true (evc nv_cond) (evc (ECmp CGt nv_div (ELit (VInt 1)))) nv_rows2 = Ok [TT; TF; TF; TF; TF; TF] /\
  mapM (logic_strict true (evc nv_cond) (evc (ECmp CGt nv_div (ELit (VInt 1))))) nv_rows2 = Err EDivZero.
Check C33_nonvacuous_lookup :
  map (case_lookup [(VInt 1, VInt 10); (VNull, VInt 99); (VInt 1, VInt 11); (VInt 2, VInt 20)] (VInt 0))
      [VInt 1; VInt 2; VInt 3; VNull] = [VInt 10; VInt 20; VInt 0; VInt 0].
Print Assumptions C33_inlist_set_eq_or_chain.
Print Assumptions C33_inlist_or_chain_eq_rowwise.
Print Assumptions C33_case_mask_eq_rowwise.
Print Assumptions C33_case_guarded_branch_no_error.
Print Assumptions C33_case_lookup_eq_rowwise.
Print Assumptions C33_short_circuit_sound.
Print Assumptions C33_short_circuit_is_lazy.
Print Assumptions C33_selection_commutes.
Print Assumptions C33_scalar_array_agree.
Print Assumptions C33_nonvacuous_inlist.
Print Assumptions C33_nonvacuous_case_guard.
Print Assumptions C33_nonvacuous_short_circuit.
Print Assumptions C33_nonvacuous_lookup.
