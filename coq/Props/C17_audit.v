From Coq Require Import List NArith Bool.
From DF Require Import Base.Prelude Model.MemPool Proofs.MemPoolProofs Props.C17.
Import ListNotations.
Open Scope N_scope.

(* the vocabulary used by the statements, pinned *)
Check (eq_refl : accounted = fun s : state =>
  total s = sum_sizes (st_resvs s) /\
  total s < usize_lim /\
  Forall (fun t => map t_cid t = map g_id (st_regs s) /\
                   Forall (fun e => t_res e = consumer_sum (t_cid e) (st_resvs s) /\ t_res e <= t_peak e) t)
         (pool_metrics (st_pool s)) /\
  Forall (fun x => total s <= fst x /\ fst x <= snd x) (pool_peaks (st_pool s))).
Check (eq_refl : total = fun s : state => pool_reserved (st_pool s)).
Check (eq_refl : sum_sizes = fun rs => wsum (fun _ _ => true) rs).
Check (eq_refl : refused = fun o => match o with Err | Panic | NoSuch | Overflow | Fault => true | _ => false end).
Check (eq_refl : fallible = fun o => match o with OGrow _ _ | OResize _ _ => false | _ => true end).
Check (eq_refl : greedy_limit = fun p => match pool_base p with PGreedy l _ => Some l | _ => None end).
Check (eq_refl : fair_limit = fun p => match pool_base p with PFair l _ _ _ => Some l | _ => None end).
Check (eq_refl : no_reset = fun h => forallb (fun o => negb (is_reset o)) h).
Check (eq_refl : usize_lim = 18446744073709551616).

Check C17_reserved_eq_sum_live :
  forall cfg h, fresh cfg = true ->
    total (run (init cfg) h) = sum_sizes (st_resvs (run (init cfg) h)).
Check C17_reserved_zero_when_all_dropped :
  forall cfg h, fresh cfg = true -> st_resvs (run (init cfg) h) = [] -> total (run (init cfg) h) = 0.
Check C17_accounted_after_every_step :
  forall cfg h, fresh cfg = true -> Forall accounted (run_states (init cfg) h).
Check C17_free_returns_exact :
  forall cfg h rid r, fresh cfg = true ->
    let s := run (init cfg) h in
    find_resv rid (st_resvs s) = Some r ->
    exists s' r', step s (OFree rid) = (s', DoneN (r_size r)) /\
                  total s' + r_size r = total s /\
                  find_resv rid (st_resvs s') = Some r' /\ r_size r' = 0.
Check C17_drop_returns_exact :
  forall cfg h rid r, fresh cfg = true ->
    let s := run (init cfg) h in
    find_resv rid (st_resvs s) = Some r ->
    exists s', step s (ODrop rid) = (s', Done) /\
               total s' + r_size r = total s /\
               find_resv rid (st_resvs s') = None.
Check C17_refused_call_changes_nothing :
  forall s o, refused (snd (step s o)) = true -> fst (step s o) = s.
Check C17_greedy_grant_within_limit :
  forall cfg h o rid n l s', greedy_limit cfg = Some l ->
    let s := run (init cfg) h in
    fallible_growth s o = Some (rid, n) -> step s o = (s', Done) -> total s' <= l.
Check C17_greedy_never_exceeds_by_try_grow :
  forall cfg l h, fresh cfg = true -> greedy_limit cfg = Some l -> forallb fallible h = true ->
    total (run (init cfg) h) <= l.
Check C17_fair_grant_within_share :
  forall cfg h o rid n l s' r', fresh cfg = true -> fair_limit cfg = Some l ->
    let s := run (init cfg) h in
    fallible_growth s o = Some (rid, n) ->
    step s o = (s', Done) -> find_resv rid (st_resvs s') = Some r' ->
    if r_spill r'
    then 1 <= num_spillable (st_regs s') /\
         r_size r' <= (l - sum_unspillable (st_resvs s')) / num_spillable (st_regs s')
    else n = 0 \/ total s' <= l.
Check C17_track_consumers_exact :
  forall cfg h, fresh cfg = true ->
    let s := run (init cfg) h in
    Forall (fun t => map t_cid t = map g_id (st_regs s) /\
                     Forall (fun e => t_res e = consumer_sum (t_cid e) (st_resvs s) /\ t_res e <= t_peak e) t)
           (pool_metrics (st_pool s)).
Check C17_registered_iff_live :
  forall cfg h cid, fresh cfg = true ->
    let s := run (init cfg) h in
    In cid (map g_id (st_regs s)) <-> In cid (map r_cid (st_resvs s)).
Check C17_peak_max_is_max_ever :
  forall cfg h, fresh cfg = true ->
    Forall (fun x => snd x = list_max (map total (init cfg :: run_states (init cfg) h)))
           (pool_peaks (st_pool (run (init cfg) h))).
Check C17_peak_is_max_since_reset :
  forall cfg h1 h2, fresh cfg = true -> no_reset h2 = true ->
    let s1 := run (init cfg) (h1 ++ [OResetPeak]) in
    Forall (fun x => fst x = list_max (map total (s1 :: run_states s1 h2)))
           (pool_peaks (st_pool (run (init cfg) (h1 ++ OResetPeak :: h2)))).
Check C17_peak_is_max_without_reset :
  forall cfg h, fresh cfg = true -> no_reset h = true ->
    Forall (fun x => fst x = list_max (map total (init cfg :: run_states (init cfg) h)))
           (pool_peaks (st_pool (run (init cfg) h))).
Check C17_never_faults :
  forall cfg h o, fresh cfg = true -> snd (step (run (init cfg) h) o) <> Fault.
Check C17_usize_bounded :
  forall cfg h, fresh cfg = true ->
    let s := run (init cfg) h in
    total s < usize_lim /\ (forall r, In r (st_resvs s) -> r_size r < usize_lim) /\
    (forall cid, consumer_sum cid (st_resvs s) < usize_lim).
Check C17_interleaving_accounted :
  forall cfg ts l, fresh cfg = true -> interleaving ts l ->
    accounted (run (init cfg) l) /\ Forall accounted (run_states (init cfg) l).
Check C17_interleaving_greedy :
  forall cfg lim ts l, fresh cfg = true -> greedy_limit cfg = Some lim -> interleaving ts l ->
    Forall (fun t => forallb fallible t = true) ts ->
    total (run (init cfg) l) <= lim.

Print Assumptions C17_reserved_eq_sum_live.
Print Assumptions C17_reserved_zero_when_all_dropped.
Print Assumptions C17_accounted_after_every_step.
Print Assumptions C17_free_returns_exact.
Print Assumptions C17_drop_returns_exact.
Print Assumptions C17_refused_call_changes_nothing.
Print Assumptions C17_greedy_grant_within_limit.
Print Assumptions C17_greedy_never_exceeds_by_try_grow.
Print Assumptions C17_fair_grant_within_share.
Print Assumptions C17_track_consumers_exact.
Print Assumptions C17_registered_iff_live.
Print Assumptions C17_peak_max_is_max_ever.
Print Assumptions C17_peak_is_max_since_reset.
Print Assumptions C17_peak_is_max_without_reset.
Print Assumptions C17_never_faults.
Print Assumptions C17_usize_bounded.
Print Assumptions C17_interleaving_accounted.
Print Assumptions C17_interleaving_greedy.
Print Assumptions C17_nonvacuous.
Print Assumptions C17_infallible_grow_may_exceed_limit.
Print Assumptions C17_fair_total_may_exceed_pool_size.
Print Assumptions C17_fair_share_is_per_reservation.
