(* C52 -- Qualified names round-trip through their quoted text form.
   Property theorems only.  Model: Model/Idents.v (quote_identifier / needs_quotes,
   TableReference::to_quoted_string / parse_str, Column::quoted_flat_name / from_qualified_name and the
   slice of the sqlparser GenericDialect tokenizer + parse_multipart_identifier they rely on).
   Strings are arbitrary lists of code points of arbitrary length.  [ua]/[us] are the Unicode
   is_alphabetic / is_whitespace tables for non-ASCII code points: every theorem holds for all tables. *)
From Coq Require Import List NArith Bool.
From DF Require Import Model.Idents Proofs.IdentsProofs.
Import ListNotations.
Local Open Scope N_scope.

(* Every table reference (bare / schema.table / catalog.schema.table) over ANY strings -- dots, quotes,
   spaces, upper case, unicode, keywords, any length -- printed by to_quoted_string and parsed back by
   parse_str / parse_str_normalized (either case mode) is the same reference, provided a 2- or 3-part
   reference has no empty part (ref_ok; a bare reference may be empty). *)
Theorem C52_table_ref_roundtrip :
  forall (ua us : N -> bool) (r : tref) (ignore_case : bool),
    ref_ok r = true -> parse_str_normalized ua us (to_quoted_string r) ignore_case = r.
Proof. exact table_ref_roundtrip. Qed.

(* Same for qualified columns (0..3 relation parts + name): quoted_flat_name then
   from_qualified_name / from_qualified_name_ignore_case. *)
Theorem C52_column_roundtrip :
  forall (ua us : N -> bool) (c : column) (ignore_case : bool),
    col_ok c = true -> from_qualified_name_ic ua us (quoted_flat_name c) ignore_case = c.
Proof. exact column_roundtrip. Qed.

(* quote_identifier never maps two different identifiers to the same text (no side condition). *)
Theorem C52_quote_identifier_injective :
  forall a b : str, quote_identifier a = quote_identifier b -> a = b.
Proof. exact quote_identifier_injective. Qed.

(* Two different well-formed references never print to the same quoted text. *)
Theorem C52_quoted_text_injective :
  forall (r1 r2 : tref),
    ref_ok r1 = true -> ref_ok r2 = true -> to_quoted_string r1 = to_quoted_string r2 -> r1 = r2.
Proof. exact (to_quoted_string_injective (fun _ => false) (fun _ => false)). Qed.

(* quote_identifier leaves a (non-empty) identifier unquoted only when the bare text parses back,
   after normalisation, to exactly that identifier. *)
Theorem C52_unquoted_is_safe :
  forall (ua us : N -> bool) (p : str),
    nonempty p = true -> needs_quotes p = false ->
    quote_identifier p = p /\ parse_identifiers_normalized ua us p false = [p].
Proof. exact unquoted_is_safe. Qed.

(* When no part needs quotes the unquoted flat_name (Display) equals the quoted form and round-trips. *)
Theorem C52_flat_name_plain :
  forall (ua us : N -> bool) (c : column) (ignore_case : bool),
    col_plain c = true -> col_ok c = true ->
    flat_name c = quoted_flat_name c /\ from_qualified_name_ic ua us (flat_name c) ignore_case = c.
Proof. exact flat_name_plain. Qed.

(* The model's tokenizer never fails for lack of fuel. *)
Theorem C52_tokenize_fuel_irrelevant :
  forall (ua us : N -> bool) (f1 f2 : nat) (s : str) (prev : option token),
    (length s <= f1)%nat -> (length s <= f2)%nat -> tokenize ua us f1 s prev = tokenize ua us f2 s prev.
Proof. exact tokenize_fuel_irrelevant. Qed.

(* The side condition cannot be dropped: in the faithful model a reference with an empty part does NOT
   round-trip (needs_quotes of the empty string is false, so the text is  .t  t.  c..t  .x  and
   parse_multipart_identifier rejects it; the whole text becomes one bare name).  The harness replays
   these on the implementation: it behaves the same way. *)
Theorem C52_empty_part_refuted :
  forall (ua us : N -> bool),
    parse_str ua us (to_quoted_string (Partial [] [116])) = Bare [46; 116] /\
    parse_str ua us (to_quoted_string (Partial [116] [])) = Bare [116; 46] /\
    parse_str ua us (to_quoted_string (Full [99] [] [116])) = Bare [99; 46; 46; 116] /\
    from_qualified_name ua us (quoted_flat_name (mkcol (Some (Bare [])) [120])) = mkcol None [46; 120].
Proof. exact empty_part_refuted. Qed.

(* ---- the fallback parser used when datafusion-common is built WITHOUT the sql feature
   (cfg(not(feature = sql)) parse_identifiers / parse_identifiers_normalized in utils/mod.rs).
   Same statement; the side condition is weaker: only the LAST part must be non-empty. *)
Theorem C52_ns_table_ref_roundtrip :
  forall (r : tref) (ignore_case : bool),
    ref_ok_ns r = true -> parse_str_normalized_ns (to_quoted_string r) ignore_case = r.
Proof. exact ns_table_ref_roundtrip. Qed.

Theorem C52_ns_column_roundtrip :
  forall (c : column), col_ok_ns c = true -> from_qualified_name_ns (quoted_flat_name c) = c.
Proof. exact ns_column_roundtrip. Qed.

(* ... and it is needed: an empty LAST part is silently dropped, so the text resolves to a different
   well-formed reference (schema t, empty table  ->  bare table t). *)
Theorem C52_ns_empty_last_refuted :
  parse_str_ns (to_quoted_string (Partial [116] [])) = Bare [116] /\
  parse_str_ns (to_quoted_string (Full [99] [115] [])) = Partial [99] [115] /\
  from_qualified_name_ns (quoted_flat_name (mkcol (Some (Bare [116])) [])) = mkcol None [116] /\
  parse_str_ns (to_quoted_string (Full [] [] [116])) = Full [] [] [116].
Proof. exact ns_empty_last_refuted. Qed.

(* non-vacuity: the hypotheses hold and the round trip computes on a nasty instance:
   catalog = My.Cat   schema = sch<DQUOTE>ema   table = tAble <U+1F600> 1   column = select *)
Example C52_nonvacuous :
  let r := Full [77; 121; 46; 67; 97; 116] [115; 99; 104; 34; 101; 109; 97] [116; 65; 98; 108; 101; 32; 128512; 32; 49] in
  let c := mkcol (Some r) [115; 101; 108; 101; 99; 116] in
  let f := fun _ : N => false in
  ref_ok r = true /\ col_ok c = true /\
  to_quoted_string r =
    [34; 77; 121; 46; 67; 97; 116; 34; 46; 34; 115; 99; 104; 34; 34; 101; 109; 97; 34; 46;
     34; 116; 65; 98; 108; 101; 32; 128512; 32; 49; 34] /\
  parse_str f f (to_quoted_string r) = r /\
  from_qualified_name f f (quoted_flat_name c) = c /\
  ref_ok (Partial [] [116]) = false /\
  ref_ok_ns r = true /\ col_ok_ns c = true /\
  parse_str_ns (to_quoted_string r) = r /\ from_qualified_name_ns (quoted_flat_name c) = c.
Proof. vm_compute. repeat split. Qed.
