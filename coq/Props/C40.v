(* C40 -- File caches honour their validity rules and stay within budget.
   Property theorems only.  Model: Model/LruCache.v (DefaultCacheState + LruQueue of
   datafusion/execution/src/cache/{default_cache,lru_queue}.rs, is_valid_for of cache_manager.rs, and the
   callers' get / validate / put protocol).  Proofs: Proofs/LruCacheProofs.v.
   A history is ANY list of operations (get, contains_key, put, remove, clear, update_cache_limit,
   update_cache_ttl, clock advance, drop_table_entries) applied to a freshly created cache;
   op_wf / cop_wf only state the Rust types (usize sizes and limits). *)
From Coq Require Import Permutation.
From DF Require Import Base.Prelude Model.LruCache Proofs.LruCacheProofs.
Open Scope Z_scope.

(* --- budget: after every history the accounted size is exactly the sum of the key+value sizes of the
   cached entries, it is within the limit, and no key is cached twice *)
Theorem C40_used_is_sum_and_within_limit :
  forall limit ttl ops, 0 <= limit -> Forall op_wf ops ->
  let st := w_st (run (start limit ttl) ops) in
  s_used st = qsum (s_q st) /\ 0 <= s_used st <= s_limit st /\ NoDup (keys (s_q st)).
Proof. exact budget_history. Qed.

(* the same for client histories that also contain the callers' lookup protocol *)
Theorem C40_used_is_sum_and_within_limit_client :
  forall limit ttl cs, 0 <= limit -> Forall cop_wf cs ->
  let st := w_st (crun (start limit ttl) cs) in
  s_used st = qsum (s_q st) /\ 0 <= s_used st <= s_limit st /\ NoDup (keys (s_q st)).
Proof. exact budget_client_history. Qed.

Theorem C40_client_history_is_primitive_history :
  forall cs w, crun w cs = run w (trace_of w cs).
Proof. exact client_history_is_primitive. Qed.

(* --- LRU: after every history the internal queue lists the cached keys in the order of their last
   use in that history (recency is defined on the history alone: get and non-ignored put are uses,
   contains_key is not), most recently used first *)
Theorem C40_queue_is_recency_order :
  forall limit ttl ops, 0 <= limit -> Forall op_wf ops ->
  let q := s_q (w_st (run (start limit ttl) ops)) in
  subseq (keys q) (recency ops) /\ NoDup (recency ops) /\
  keys q = filter (fun k => existsb (key_eqb k) (keys q)) (recency ops).
Proof. exact lru_order_history. Qed.

(* --- eviction removes a suffix of that queue -- the least recently used entries -- and the shortest
   suffix that brings the accounted size within the limit (never an entry that still fitted) *)
Theorem C40_eviction_removes_least_recently_used :
  forall st, NoDup (keys (s_q st)) -> s_used st = qsum (s_q st) -> 0 <= s_limit st ->
  exists pre suf,
    s_q st = pre ++ suf /\ s_q (c_evict st) = pre /\ s_used (c_evict st) = qsum pre /\
    qsum pre <= s_limit st /\
    (suf = [] \/ exists x suf', suf = x :: suf' /\ s_limit st < qsum (pre ++ [x])).
Proof. exact evict_lru. Qed.

(* an accepted put places the entry in front, keeps it, and evicts only such a suffix of the others *)
Theorem C40_put_evicts_only_lru_suffix :
  forall st k v now,
  Inv st -> 0 <= k_size k -> 0 <= v_size v -> v_size v <> 0 -> k_size k + v_size v <= s_limit st ->
  let e := mkEntry v (option_map (fun t => now + t) (s_ttl st)) in
  exists pre suf,
    lq_del k (s_q st) = pre ++ suf /\ s_q (fst (c_put st k v now)) = (k, e) :: pre /\
    (suf = [] \/ exists x suf', suf = x :: suf' /\ s_limit st < qsum ((k, e) :: pre ++ [x])).
Proof. exact put_evicts_lru. Qed.

Theorem C40_limit_change_evicts_only_lru_suffix :
  forall st l, Inv st -> 0 <= l ->
  exists pre suf,
    s_q st = pre ++ suf /\ s_q (c_set_limit st l) = pre /\
    (suf = [] \/ exists x suf', suf = x :: suf' /\ l < qsum (pre ++ [x])).
Proof. exact set_limit_evicts_lru. Qed.

(* --- refinement: the cache is at all times a sub-map of the ideal unbounded map (sp_run: no sizes, no
   recency, no eviction); every hit of the cache is a hit of the ideal map with the same value *)
Theorem C40_cache_refines_ideal_map :
  forall limit ttl ops, 0 <= limit -> Forall op_wf ops ->
  let w := run (start limit ttl) ops in
  let s := sp_run (sp_start limit ttl) ops in
  (forall k e, lq_peek k (s_q (w_st w)) = Some e -> sp_map s k = Some e) /\
  (forall k v w', step w (OGet k) = (w', RVal (Some v)) -> sp_get s k = Some v) /\
  (forall k w', step w (OContains k) = (w', RBool true) -> exists v, sp_get s k = Some v).
Proof. exact refines_ideal_map. Qed.

(* --- a hit is explained by the history: get(k) returns v only if v was put for k, that put was
   accepted, no later operation removed / cleared / dropped the table of / overwrote k, and the
   time-to-live in force when it was put has not run out *)
Theorem C40_hit_provenance :
  forall limit ttl ops k v w',
  0 <= limit -> Forall op_wf ops ->
  step (run (start limit ttl) ops) (OGet k) = (w', RVal (Some v)) ->
  exists ops1 ops2,
    ops = ops1 ++ OPut k v :: ops2 /\
    unkilled k ops2 /\
    let w1 := run (start limit ttl) ops1 in
    v_size v <> 0 /\ k_size k + v_size v <= s_limit (w_st w1) /\
    match s_ttl (w_st w1) with
    | Some t => w_now (run (start limit ttl) ops) <= w_now w1 + t
    | None => True
    end.
Proof. exact hit_provenance. Qed.

(* --- and conversely it behaves as a map: a cached, unexpired entry is returned; a value that was just
   accepted is returned by the next get *)
Theorem C40_live_entry_is_returned :
  forall st k now e,
  NoDup (keys (s_q st)) -> lq_peek k (s_q st) = Some e -> expired e now = false ->
  snd (c_get st k now) = Some (e_val e).
Proof. exact live_entry_is_returned. Qed.

Theorem C40_put_then_get :
  forall w k v,
  Inv (w_st w) -> 0 <= k_size k -> 0 <= v_size v -> v_size v <> 0 ->
  k_size k + v_size v <= s_limit (w_st w) ->
  match s_ttl (w_st w) with Some t => 0 <= t | None => True end ->
  snd (step (fst (step w (OPut k v))) (OGet k)) = RVal (Some v).
Proof. exact put_then_get. Qed.

(* --- validity: the callers' protocol (get; use only if is_valid_for the file's current size,
   modification time and schema; otherwise recompute and put) always ends up with a value computed
   for the file as it is now; a cached value is used only if it is cached, unexpired and valid *)
Theorem C40_is_valid_for_means_unchanged :
  forall v cur, is_valid_for v cur = true <-> v_meta v = cur.
Proof. exact is_valid_for_iff. Qed.

Theorem C40_lookup_uses_current_metadata :
  forall w k cur fresh w' hit r,
  lookup w k cur fresh = (w', (hit, r)) -> v_meta fresh = cur -> v_meta r = cur.
Proof. exact lookup_current. Qed.

Theorem C40_lookup_hit_is_cached_unexpired_and_valid :
  forall w k cur fresh w' r,
  NoDup (keys (s_q (w_st w))) -> lookup w k cur fresh = (w', (true, r)) ->
  v_meta r = cur /\
  exists e, lq_peek k (s_q (w_st w)) = Some e /\ e_val e = r /\ expired e (w_now w) = false.
Proof. exact lookup_hit. Qed.

(* --- drop_table_entries removes exactly the entries of that table, whatever the iteration order *)
Theorem C40_drop_table_effective :
  forall st t, Inv st ->
  (forall k, tab_matches t k = true -> lq_peek k (s_q (c_drop_table st t)) = None) /\
  (forall k, tab_matches t k = false -> lq_peek k (s_q (c_drop_table st t)) = lq_peek k (s_q st)).
Proof. exact drop_table_effective. Qed.

Theorem C40_drop_table_order_irrelevant :
  forall ks ks', Permutation ks ks' -> forall st, remove_all st ks = remove_all st ks'.
Proof. exact remove_all_perm. Qed.

(* --- non-vacuity: a concrete history (limit 10, ttl 5) in which the least recently used key is
   evicted, a stale entry is rejected by the validity rule, an entry expires, and the hypotheses of
   the theorems above hold; computed by the model *)
Definition nv_k (i : Z) : key := mkKey i 1 (Some 0).
Definition nv_v (i fs : Z) : value := mkVal i 3 (mkMeta fs 0 0).
Definition nv_ops : list cop :=
  [ Prim (OPut (nv_k 0) (nv_v 100 7)); Prim (OPut (nv_k 1) (nv_v 101 7));
    Prim (OGet (nv_k 0));                              (* key 1 is now least recently used *)
    Prim (OPut (nv_k 2) (nv_v 102 7));                 (* 12 > 10: evicts key 1, not key 0 *)
    Prim (OGet (nv_k 1));
    Lookup (nv_k 0) (mkMeta 8 0 0) (nv_v 103 8);       (* file rewritten: stale entry rejected *)
    Prim (OAdvance 6);
    Prim (OGet (nv_k 0)) ].                            (* past the ttl *)
Example C40_nonvacuous :
  Forall cop_wf nv_ops /\
  map fst (crun_obs (start 10 (Some 5)) nv_ops) =
    [ CPrim (RVal None); CPrim (RVal None); CPrim (RVal (Some (nv_v 100 7))); CPrim (RVal None);
      CPrim (RVal None); CLookup false (nv_v 103 8); CPrim RUnit; CPrim (RVal None) ] /\
  keys (s_q (w_st (crun (start 10 (Some 5)) (firstn 4 nv_ops)))) = [nv_k 2; nv_k 0] /\
  (exists w', step (run (start 10 None) [OPut (nv_k 0) (nv_v 100 7)]) (OGet (nv_k 0))
              = (w', RVal (Some (nv_v 100 7)))).
Proof.
  split. { repeat constructor; cbn; discriminate. }
  split. { vm_compute. reflexivity. }
  split. { vm_compute. reflexivity. }
  eexists. vm_compute. reflexivity.
Qed.
