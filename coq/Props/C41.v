(* C41 -- bound query parameters behave like the equivalent literals.
   Theorems about the model of replace_params_with_values (Model/Params.v): rewriting every placeholder to the
   literal of its value and evaluating with the RefSQL reference semantics gives, for EVERY query of the fragment
   (placeholders in filters, projections, join conditions, IN lists, CASE, GROUP BY / HAVING, ORDER BY keys,
   LIMIT / OFFSET, and inside scalar / EXISTS / IN subqueries at any depth), every fuel, data base and scope stack,
   exactly the result of evaluating the parameterized query under the parameter environment. *)
From Coq Require Import List ZArith Bool.
From DF Require Import Base.Prelude Model.RefSQL Model.Params Proofs.ParamsProofs.
Import ListNotations.
Open Scope Z_scope.

Theorem C41_subst_lemma : forall (s : penv) (q : pquery) (q' : query), subst_q s q = Ok q' ->
  forall f d en, eval_query f d en q' = peval_query f s d en q.
Proof. exact subst_lemma. Qed.

Theorem C41_subst_lemma_expr : forall (s : penv) (e : pexpr) (e' : expr), subst_e s e = Ok e' ->
  forall f d en, eval_expr f d en e' = peval_expr f s d en e.
Proof. exact subst_lemma_expr. Qed.

(* top level, positional parameters (ParamValues::List) *)
Theorem C41_subst_lemma_run : forall vs q q' d, subst_q (env_list vs) q = Ok q' ->
  run_query d q' = prun_query (env_list vs) d q.
Proof. exact subst_lemma_run. Qed.

(* a query without placeholders is left unchanged, whatever the parameter values ... *)
Theorem C41_subst_no_params_id : forall s q, subst_q s (embed_q q) = Ok q.
Proof. exact subst_no_params_id. Qed.
(* ... and on such queries the environment-passing evaluator IS the reference evaluator *)
Theorem C41_peval_embed : forall s q f d en, peval_query f s d en (embed_q q) = eval_query f d en q.
Proof. exact peval_embed. Qed.

(* only the values bound to the placeholders that occur matter ... *)
Theorem C41_subst_only_bound_values_matter : forall s s' q,
  (forall n, In n (params_q q) -> s n = s' n) -> subst_q s q = subst_q s' q.
Proof. exact subst_only_bound_values_matter. Qed.
(* ... so a name map (ParamValues::Map) binding the k-th name to the k-th value rewrites like the positional list *)
Theorem C41_map_and_list_agree : forall vs q, subst_q (env_map (number_from 1 vs)) q = subst_q (env_list vs) q.
Proof. exact map_and_list_agree. Qed.

(* placeholders inside IN / EXISTS / scalar subqueries (and on both sides of the subquery boundary) *)
Theorem C41_param_in_subquery : forall s n v neg op a a' sub sub' q0 q0' f d en,
  s n = Some v -> subst_e s a = Ok a' -> subst_q s sub = Ok sub' -> subst_q s q0 = Ok q0' ->
  peval_query f s d en (PQFilter (PInSub neg a (PQFilter (PCmp op (PCol 0 0) (PParam n)) sub)) q0)
  = eval_query f d en (QFilter (EInSub neg a' (QFilter (ECmp op (ECol 0 0) (ELit v)) sub')) q0').
Proof. exact param_in_subquery. Qed.

Theorem C41_param_in_scalar_and_exists : forall s n v neg op sub sub' q0 q0' f d en,
  s n = Some v -> subst_q s sub = Ok sub' -> subst_q s q0 = Ok q0' ->
  peval_query f s d en (PQFilter (PAnd (PExists neg (PQFilter (PCmp op (PCol 0 0) (PParam n)) sub))
                                       (PCmp op (PScalar (PQProject [PParam n] sub)) (PParam n))) q0)
  = eval_query f d en (QFilter (EAnd (EExists neg (QFilter (ECmp op (ECol 0 0) (ELit v)) sub'))
                                     (ECmp op (EScalar (QProject [ELit v] sub')) (ELit v))) q0').
Proof. exact param_in_scalar_and_exists. Qed.

(* placeholders as LIMIT / OFFSET *)
Theorem C41_param_in_limit : forall s n m off lim q q' f d en,
  s n = Some (VInt off) -> 0 <= off -> s m = Some (VInt lim) -> 0 <= lim -> subst_q s q = Ok q' ->
  peval_query f s d en (PQLimit (LParam n) (Some (LParam m)) q) = eval_query f d en (QLimit off (Some lim) q').
Proof. exact param_in_limit. Qed.

(* the hypothesis "the rewrite succeeds" is necessary: the rewrite is eager, the specification is lazy *)
Theorem C41_unbound_param_fails_eagerly : forall s n q,
  s n = None ->
  subst_q s (PQProject [PCase [(PLit (VBool true), PLit (VInt 1))] (Some (PParam n))] q) = Err EScope.
Proof. exact unbound_param_fails_eagerly. Qed.
Theorem C41_unbound_param_lazy_in_spec : forall s n,
  prun_query s [] (PQProject [PCase [(PLit (VBool true), PLit (VInt 1))] (Some (PParam n))] (PQValues [[]])) = Ok [[VInt 1]].
Proof. exact unbound_param_lazy_in_spec. Qed.

(* non-vacuity: SELECT c0 + $1 FROM t WHERE c0 IN (SELECT c0 FROM t WHERE c0 >= $2) ORDER BY 1 LIMIT $3, with
   $1 = 10, $2 = 2, $3 = 2 over t = {1, 2, 3, NULL}: the rewrite succeeds and both meanings give {12, 13} *)
Example C41_nonvacuous :
  let t := [[VInt 1]; [VInt 2]; [VInt 3]; [VNull]] in
  let q := PQLimit (LConst 0) (Some (LParam 3))
             (PQSort [(PCol 0 0, (false, false))]
                (PQProject [PArith AAdd (PCol 0 0) (PParam 1)]
                   (PQFilter (PInSub false (PCol 0 0)
                                (PQProject [PCol 0 0] (PQFilter (PCmp CGe (PCol 0 0) (PParam 2)) (PQTable 0))))
                      (PQTable 0)))) in
  let vs := [VInt 10; VInt 2; VInt 2] in
  exists q', subst_q (env_list vs) q = Ok q'
             /\ run_query [t] q' = Ok [[VInt 12]; [VInt 13]]
             /\ prun_query (env_list vs) [t] q = Ok [[VInt 12]; [VInt 13]]
             /\ c41_check (C41Case [t] q vs (Some [[VInt 12]; [VInt 13]])) = true
             /\ c41_check (C41Case [t] q vs (Some [[VInt 11]; [VInt 12]])) = false.
Proof. cbv zeta. eexists. split; [vm_compute; reflexivity|]. repeat split; vm_compute; reflexivity. Qed.
