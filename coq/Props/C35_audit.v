(* C35 audit: pins every property theorem's statement and prints its assumptions (compiled fresh on every run) *)
From Coq Require Import List ZArith String Bool.
From DF Require Import Model.ProtoCodec Gen.ProtoEnums Model.C35Corr Props.C35.
Import ListNotations.
Open Scope string_scope.
Open Scope Z_scope.
Check C35_dec_enc_JoinType : forall v : JoinType, dec_JoinType (enc_JoinType v) = Some v.
Print Assumptions C35_dec_enc_JoinType.
Check C35_enc_injective_JoinType : forall a b : JoinType, enc_JoinType a = enc_JoinType b -> a = b.
Print Assumptions C35_enc_injective_JoinType.
Check C35_dec_enc_JoinConstraint : forall v : JoinConstraint, dec_JoinConstraint (enc_JoinConstraint v) = Some v.
Print Assumptions C35_dec_enc_JoinConstraint.
Check C35_enc_injective_JoinConstraint : forall a b : JoinConstraint, enc_JoinConstraint a = enc_JoinConstraint b -> a = b.
Print Assumptions C35_enc_injective_JoinConstraint.
Check C35_dec_enc_NullEquality : forall v : NullEquality, dec_NullEquality (enc_NullEquality v) = Some v.
Print Assumptions C35_dec_enc_NullEquality.
Check C35_enc_injective_NullEquality : forall a b : NullEquality, enc_NullEquality a = enc_NullEquality b -> a = b.
Print Assumptions C35_enc_injective_NullEquality.
Check C35_dec_enc_NullHandling : forall v : NullHandling, dec_NullHandling (enc_NullHandling v) = Some v.
Print Assumptions C35_dec_enc_NullHandling.
Check C35_enc_injective_NullHandling : forall a b : NullHandling, enc_NullHandling a = enc_NullHandling b -> a = b.
Print Assumptions C35_enc_injective_NullHandling.
Check C35_dec_enc_WriteOp : forall v : WriteOp, dec_WriteOp (enc_WriteOp v) = Some v.
Print Assumptions C35_dec_enc_WriteOp.
Check C35_enc_injective_WriteOp : forall a b : WriteOp, enc_WriteOp a = enc_WriteOp b -> a = b.
Print Assumptions C35_enc_injective_WriteOp.
Check C35_dec_enc_ExplainFormat_analyze : forall v : ExplainFormat_analyze, dec_ExplainFormat_analyze (enc_ExplainFormat_analyze v) = Some v.
Print Assumptions C35_dec_enc_ExplainFormat_analyze.
Check C35_enc_injective_ExplainFormat_analyze : forall a b : ExplainFormat_analyze, enc_ExplainFormat_analyze a = enc_ExplainFormat_analyze b -> a = b.
Print Assumptions C35_enc_injective_ExplainFormat_analyze.
Check C35_dec_enc_ExplainFormat_explain : forall v : ExplainFormat_explain, dec_ExplainFormat_explain (enc_ExplainFormat_explain v) = Some v.
Print Assumptions C35_dec_enc_ExplainFormat_explain.
Check C35_enc_injective_ExplainFormat_explain : forall a b : ExplainFormat_explain, enc_ExplainFormat_explain a = enc_ExplainFormat_explain b -> a = b.
Print Assumptions C35_enc_injective_ExplainFormat_explain.
Check C35_dec_enc_MetricType : forall v : MetricType, dec_MetricType (enc_MetricType v) = Some v.
Print Assumptions C35_dec_enc_MetricType.
Check C35_enc_injective_MetricType : forall a b : MetricType, enc_MetricType a = enc_MetricType b -> a = b.
Print Assumptions C35_enc_injective_MetricType.
Check C35_dec_enc_MetricCategory : forall v : MetricCategory, dec_MetricCategory (enc_MetricCategory v) = Some v.
Print Assumptions C35_dec_enc_MetricCategory.
Check C35_enc_injective_MetricCategory : forall a b : MetricCategory, enc_MetricCategory a = enc_MetricCategory b -> a = b.
Print Assumptions C35_enc_injective_MetricCategory.
Check C35_dec_enc_WindowFrameUnits : forall v : WindowFrameUnits, dec_WindowFrameUnits (enc_WindowFrameUnits v) = Some v.
Print Assumptions C35_dec_enc_WindowFrameUnits.
Check C35_enc_injective_WindowFrameUnits : forall a b : WindowFrameUnits, enc_WindowFrameUnits a = enc_WindowFrameUnits b -> a = b.
Print Assumptions C35_enc_injective_WindowFrameUnits.
Check C35_dec_enc_WindowFrameBound : forall v : WindowFrameBound, dec_WindowFrameBound (enc_WindowFrameBound v) = Some v.
Print Assumptions C35_dec_enc_WindowFrameBound.
Check C35_enc_injective_WindowFrameBound : forall a b : WindowFrameBound, enc_WindowFrameBound a = enc_WindowFrameBound b -> a = b.
Print Assumptions C35_enc_injective_WindowFrameBound.
Check C35_dec_enc_MergeIntoClauseKind : forall v : MergeIntoClauseKind, dec_MergeIntoClauseKind (enc_MergeIntoClauseKind v) = Some v.
Print Assumptions C35_dec_enc_MergeIntoClauseKind.
Check C35_enc_injective_MergeIntoClauseKind : forall a b : MergeIntoClauseKind, enc_MergeIntoClauseKind a = enc_MergeIntoClauseKind b -> a = b.
Print Assumptions C35_enc_injective_MergeIntoClauseKind.
Check C35_dec_enc_NullTreatment : forall v : NullTreatment, dec_NullTreatment (enc_NullTreatment v) = Some v.
Print Assumptions C35_dec_enc_NullTreatment.
Check C35_enc_injective_NullTreatment : forall a b : NullTreatment, enc_NullTreatment a = enc_NullTreatment b -> a = b.
Print Assumptions C35_enc_injective_NullTreatment.
Check C35_dec_enc_TimeUnit : forall v : TimeUnit, dec_TimeUnit (enc_TimeUnit v) = Some v.
Print Assumptions C35_dec_enc_TimeUnit.
Check C35_enc_injective_TimeUnit : forall a b : TimeUnit, enc_TimeUnit a = enc_TimeUnit b -> a = b.
Print Assumptions C35_enc_injective_TimeUnit.
Check C35_dec_enc_IntervalUnit : forall v : IntervalUnit, dec_IntervalUnit (enc_IntervalUnit v) = Some v.
Print Assumptions C35_dec_enc_IntervalUnit.
Check C35_enc_injective_IntervalUnit : forall a b : IntervalUnit, enc_IntervalUnit a = enc_IntervalUnit b -> a = b.
Print Assumptions C35_enc_injective_IntervalUnit.
Check C35_dec_enc_UnionMode : forall v : UnionMode, dec_UnionMode (enc_UnionMode v) = Some v.
Print Assumptions C35_dec_enc_UnionMode.
Check C35_enc_injective_UnionMode : forall a b : UnionMode, enc_UnionMode a = enc_UnionMode b -> a = b.
Print Assumptions C35_enc_injective_UnionMode.
Check C35_dec_enc_JoinSide : forall v : JoinSide, dec_JoinSide (enc_JoinSide v) = Some v.
Print Assumptions C35_dec_enc_JoinSide.
Check C35_enc_injective_JoinSide : forall a b : JoinSide, enc_JoinSide a = enc_JoinSide b -> a = b.
Print Assumptions C35_enc_injective_JoinSide.
Check C35_dec_enc_CompressionTypeVariant : forall v : CompressionTypeVariant, dec_CompressionTypeVariant (enc_CompressionTypeVariant v) = Some v.
Print Assumptions C35_dec_enc_CompressionTypeVariant.
Check C35_enc_injective_CompressionTypeVariant : forall a b : CompressionTypeVariant, enc_CompressionTypeVariant a = enc_CompressionTypeVariant b -> a = b.
Print Assumptions C35_enc_injective_CompressionTypeVariant.
Check C35_dec_enc_CsvQuoteStyle : forall v : CsvQuoteStyle, dec_CsvQuoteStyle (enc_CsvQuoteStyle v) = Some v.
Print Assumptions C35_dec_enc_CsvQuoteStyle.
Check C35_enc_injective_CsvQuoteStyle : forall a b : CsvQuoteStyle, enc_CsvQuoteStyle a = enc_CsvQuoteStyle b -> a = b.
Print Assumptions C35_enc_injective_CsvQuoteStyle.
Check C35_dec_enc_DataType : forall v : DataType, dec_DataType (enc_DataType v) = Some v.
Print Assumptions C35_dec_enc_DataType.
Check C35_enc_injective_DataType : forall a b : DataType, enc_DataType a = enc_DataType b -> a = b.
Print Assumptions C35_enc_injective_DataType.
Check C35_dec_enc_Operator : forall v : Operator, good_Operator v = true -> dec_Operator (enc_Operator v) = Some v.
Print Assumptions C35_dec_enc_Operator.
Check C35_dec_enc_Operator_refuted : exists v : Operator, dec_Operator (enc_Operator v) = None.
Print Assumptions C35_dec_enc_Operator_refuted.
Check C35_enc_injective_Operator : forall a b : Operator, enc_Operator a = enc_Operator b -> a = b.
Print Assumptions C35_enc_injective_Operator.

Check C35_generated_tables_ok :
  forallb (fun r => snd (fst (fst r))) generated_tables_logical = true /\
  forallb (fun r => match snd r with [] => true | _ => false end) generated_tables_logical = true.
Print Assumptions C35_generated_tables_ok.
Check C35_expr_round_trip : forall e : c35_expr, c35_plain e = true -> c35_decode (c35_encode e) = Some e.
Print Assumptions C35_expr_round_trip.
Check C35_expr_encode_injective : forall a b : c35_expr,
  c35_plain a = true -> c35_plain b = true -> c35_encode a = c35_encode b -> a = b.
Print Assumptions C35_expr_encode_injective.
Check C35_undecodable_operator_refuted : forall (op : Operator) (a b : c35_expr),
  good_Operator op = false -> c35_decode (c35_encode (EBinary a op b)) = None.
Print Assumptions C35_undecodable_operator_refuted.
Check C35_literal_metadata_refuted : forall (l : lit) (m : meta),
  c35_decode (c35_encode (ELit l (Some m))) = Some (ELit l None).
Print Assumptions C35_literal_metadata_refuted.
Check C35_alias_metadata_refuted : forall (rel : option string) (name : string) (m : meta) (l : lit),
  c35_decode (c35_encode (EAlias (ELit l None) rel name (Some m))) = Some (EAlias (ELit l None) rel name None).
Print Assumptions C35_alias_metadata_refuted.
Check C35_cast_metadata_refuted : forall (l : lit) (ty : DataType) (nb : bool) (m : meta),
  c35_decode (c35_encode (ECast (ELit l None) ty nb m)) = Some (ECast (ELit l None) ty nb []).
Print Assumptions C35_cast_metadata_refuted.
Check C35_multibyte_escape_refuted : forall (n : bool) (l : lit) (s : string),
  (2 <= String.length s)%nat -> c35_decode (c35_encode (ELike n (ELit l None) (ELit l None) (Some s) false)) = None.
Print Assumptions C35_multibyte_escape_refuted.
