From Coq Require Import ZArith.
From DF Require Import Base.Bits Gen.StrengthReduced Props.C11.
Open Scope Z_scope.
Check C11_remainder_exact :
  forall v d, 0 <= v < 2 ^ 64 -> 1 <= d < 2 ^ 64 -> partition_of d v = Some (v mod d).
Check C11_partition_in_range :
  forall v d p, 0 <= v < 2 ^ 64 -> 1 <= d < 2 ^ 64 -> partition_of d v = Some p -> 0 <= p < d.
Check C11_quotient_is_high_product :
  forall v m, 0 <= v < 2 ^ 64 -> 0 <= m < 2 ^ 128 -> sr_quotient v m = Some ((v * m) / 2 ^ 128).
Print Assumptions C11_remainder_exact.
Print Assumptions C11_partition_in_range.
Print Assumptions C11_quotient_is_high_product.
Print Assumptions C11_nonvacuous.
