From DF Require Import Base.Prelude Model.MetricsCount Proofs.MetricsCountProofs Props.C53.
Open Scope Z_scope.
Check C53_record_poll_counts_exactly : forall h s,
  snd (run_wrapped s h) = h /\
  out_rows (fst (run_wrapped s h)) = out_rows s + delivered_rows h /\
  out_batches (fst (run_wrapped s h)) = out_batches s + delivered_batches h /\
  done (fst (run_wrapped s h)) = done s || finished h.
Check C53_record_poll_counts_from_zero : forall h,
  snd (run_wrapped bm0 h) = h /\ out_rows (fst (run_wrapped bm0 h)) = delivered_rows h.
Check C53_record_poll_idempotent_done : forall s p,
  done s = true -> (p = ReadyNone \/ p = ReadyErr \/ p = Pending) -> fst (record_poll s p) = s.
Check C53_repeated_none_stable : forall k s,
  done s = true -> fst (run_wrapped s (repeat ReadyNone k)) = s.
Check C53_no_double_count_under_composition : forall ss h,
  snd (run_series ss h) = h /\
  Forall2 (fun s s' => out_rows s' = out_rows s + delivered_rows h) ss (fst (run_series ss h)).
Check C53_series_registered_together_reports_k_times : forall k h,
  reported_sum (fst (run_series (repeat bm0 k) h)) = Z.of_nat k * delivered_rows h.
Check C53_monitor_sound : forall t, monitor_ok t = true <-> metrics_exact t.
Check C53_sum_partitions_eq : forall t n r,
  monitor_ok t = true -> subnode n t -> o_reported n = Some r -> o_full n = true ->
  r = zsum (o_produced n).
Check C53_nonvacuous :
  run_wrapped bm0 [Pending; ReadyBatch 3; ReadyBatch 0; Pending; ReadyBatch 4; ReadyNone; ReadyNone] =
    ({| out_rows := 7; out_batches := 3; done := true |},
     [Pending; ReadyBatch 3; ReadyBatch 0; Pending; ReadyBatch 4; ReadyNone; ReadyNone])
  /\ monitor_ok (Node (Some 4) [4] true [Node (Some 5) [2; 2] true []; Node None [9] true []]) = false
  /\ monitor_ok (Node (Some 2) [2] true [Node (Some 5) [2; 2] false []]) = true.
Print Assumptions C53_record_poll_counts_exactly.
Print Assumptions C53_record_poll_counts_from_zero.
Print Assumptions C53_record_poll_idempotent_done.
Print Assumptions C53_repeated_none_stable.
Print Assumptions C53_no_double_count_under_composition.
Print Assumptions C53_series_registered_together_reports_k_times.
Print Assumptions C53_monitor_sound.
Print Assumptions C53_sum_partitions_eq.
Print Assumptions C53_nonvacuous.
