(* C42 -- Tree traversal and rewriting follow their recursion contract.
   Property theorems only.  Model: Model/TreeNode.v (transcription of
   datafusion/common/src/tree_node.rs); proofs: Proofs/TreeNodeProofs.v.
   Trees: arbitrary rose trees; callbacks: arbitrary functions of the node label
   (directive, and for rewrites new label + reported flag).  Logs are the ordered
   callback invocations (phase, label seen). *)
From Coq Require Import List ZArith Bool.
From DF Require Import Base.Prelude Model.TreeNode Proofs.TreeNodeProofs.
Import ListNotations.
Open Scope Z_scope.

(* ---- the model's Fixpoints are the Rust method bodies, clause by clause *)
Theorem C42_eq_apply : forall f t,
  apply f t = bind (vcall PDown f t) (fun r => visit_children r (fun _ => apply_children (apply f) t)).
Proof. exact apply_rust_eq. Qed.
Theorem C42_eq_visit : forall fd fu t,
  visit fd fu t =
  bind (vcall PDown fd t) (fun r =>
  bind (visit_children r (fun _ => apply_children (visit fd fu) t)) (fun rc =>
  visit_parent rc (fun _ => vcall PUp fu t))).
Proof. exact visit_rust_eq. Qed.
Theorem C42_eq_transform_down : forall im f t,
  transform_down im f t =
  bind (rcall PDown f t) (fun t1 => transform_children t1 (map_children im (transform_down im f))).
Proof. exact transform_down_rust_eq. Qed.
Theorem C42_eq_transform_up : forall im f t,
  transform_up im f t =
  bind (map_children im (transform_up im f) t) (fun t1 => transform_parent t1 (rcall PUp f)).
Proof. exact transform_up_rust_eq. Qed.
Theorem C42_eq_transform_down_up : forall im fd fu t,
  transform_down_up im fd fu t =
  bind (rcall PDown fd t) (fun t1 =>
  bind (transform_children t1 (map_children im (transform_down_up im fd fu))) (fun t2 =>
  transform_parent t2 (rcall PUp fu))).
Proof. exact transform_down_up_rust_eq. Qed.

(* ---- apply (top-down inspection): the nodes visited are exactly the pre-order list in which the
   subtree below every node that answered Jump or Stop is skipped, cut right after the first Stop;
   the walk ends with Stop iff a Stop was answered and with Continue otherwise. *)
Theorem C42_apply_contract : forall f t,
  apply f t = (downs (upto_stop f (pruned f t)), if has_stop f (pruned f t) then Stop else Continue).
Proof. exact apply_contract. Qed.

Theorem C42_apply_preorder : forall f t,
  (forall l, f l = Continue) -> apply f t = (downs (preorder t), Continue).
Proof. exact apply_preorder. Qed.

(* exists(p): p is evaluated in pre-order up to and including the first hit; result = some node satisfies p *)
Theorem C42_exists_contract : forall p t,
  exists_ p t = (downs (upto_first p (preorder t)), existsb p (preorder t)).
Proof. exact exists_contract. Qed.

(* ---- combined traversals = the documented linear scan (Model.TreeNode.step):
   over the full f_down/f_up bracket sequence; Jump in f_down shortcuts exactly the children and the
   node's own f_up still runs; Jump in f_up bypasses the f_up of the ancestors until the next f_down;
   Stop ends all invocations; untouched nodes keep their label; f_up sees the label f_down produced. *)
Theorem C42_rewrite_contract : forall im fd fu t,
  impl_ok im fd fu ->
  let r := transform_down_up im fd fu t in
  let s := scan_tree fd fu t in
  fst r = s_log s /\ rec (snd r) = tnr_of (s_mode s) /\
  shape (data (snd r)) = shape t /\ postorder (data (snd r)) = s_post s /\
  changed (snd r) = existsb (reported fd fu) (fst r).
Proof. exact rewrite_contract. Qed.

Theorem C42_visit_contract : forall fd fu t,
  let r := visit fd fu t in
  let s := scan_tree (vlift fd) (vlift fu) t in
  fst r = s_log s /\ snd r = tnr_of (s_mode s).
Proof. exact visit_contract. Qed.

Theorem C42_transform_down_contract : forall im f t,
  impl_ok im f id_cb ->
  let r := transform_down im f t in
  let s := scan_tree f id_cb t in
  fst r = filter is_down (s_log s) /\ rec (snd r) = tnr_of (s_mode s) /\
  shape (data (snd r)) = shape t /\ postorder (data (snd r)) = s_post s /\
  changed (snd r) = existsb (reported f id_cb) (fst r).
Proof. exact transform_down_contract. Qed.

Theorem C42_transform_up_contract : forall im f t,
  impl_ok im id_cb f ->
  let r := transform_up im f t in
  let s := scan_tree id_cb f t in
  fst r = filter is_up (s_log s) /\ rec (snd r) = tnr_of (s_mode s) /\
  shape (data (snd r)) = shape t /\ postorder (data (snd r)) = s_post s /\
  changed (snd r) = existsb (reported id_cb f) (fst r).
Proof. exact transform_up_contract. Qed.

(* shape + post-order labels pin the output tree down completely *)
Theorem C42_tree_determined : forall a b, shape a = shape b -> postorder a = postorder b -> a = b.
Proof. exact shape_postorder_exact. Qed.

(* ---- relations between the entry points *)
Theorem C42_visit_as_rewrite : forall fd fu t,
  visit fd fu t =
  (fst (transform_down_up IVec (vlift fd) (vlift fu) t), rec (snd (transform_down_up IVec (vlift fd) (vlift fu) t))).
Proof. exact visit_as_rewrite. Qed.
Theorem C42_transform_down_as_down_up : forall im f t,
  transform_down im f t =
  (filter is_down (fst (transform_down_up im f id_cb t)), snd (transform_down_up im f id_cb t)).
Proof. exact transform_down_as_down_up. Qed.
Theorem C42_transform_up_as_down_up : forall im f t,
  transform_up im f t =
  (filter is_up (fst (transform_down_up im id_cb f t)), snd (transform_down_up im id_cb f t)).
Proof. exact transform_up_as_down_up. Qed.
(* the three map_children implementations agree (Arc<dyn>: for callbacks that report what they change) *)
Theorem C42_impls_agree : forall im fd fu t,
  impl_ok im fd fu -> transform_down_up im fd fu t = transform_down_up IVec fd fu t.
Proof. exact tdu_im_eq_vec. Qed.

(* ---- every callback answers Continue: documented order, every label replaced *)
Theorem C42_all_continue : forall im fd fu t,
  impl_ok im fd fu ->
  (forall l, dir_of fd l = Continue) -> (forall l, dir_of fu l = Continue) ->
  let r := transform_down_up im fd fu t in
  fst r = full_log fd t /\
  data (snd r) = relabel (fun l => new_label fu (new_label fd l)) t /\
  rec (snd r) = Continue.
Proof. exact all_continue_contract. Qed.
Theorem C42_transform_down_preorder : forall im f t,
  impl_ok im f id_cb -> (forall l, dir_of f l = Continue) ->
  let r := transform_down im f t in
  fst r = downs (preorder t) /\ data (snd r) = relabel (new_label f) t /\ rec (snd r) = Continue.
Proof. exact transform_down_preorder. Qed.
Theorem C42_transform_up_postorder : forall im f t,
  impl_ok im id_cb f -> (forall l, dir_of f l = Continue) ->
  let r := transform_up im f t in
  fst r = ups (postorder t) /\ data (snd r) = relabel (new_label f) t /\ rec (snd r) = Continue.
Proof. exact transform_up_postorder. Qed.
Theorem C42_down_up_is_down_then_up : forall im fd fu t,
  impl_ok im fd fu ->
  (forall l, dir_of fd l = Continue) -> (forall l, dir_of fu l = Continue) ->
  data (snd (transform_down_up im fd fu t)) =
  data (snd (transform_up im fu (data (snd (transform_down im fd t))))).
Proof. exact down_up_is_down_then_up. Qed.

(* ---- nothing changed *)
Theorem C42_unchanged_labels_same_tree : forall im fd fu t,
  (forall l, new_label fd l = l) -> (forall l, new_label fu l = l) ->
  data (snd (transform_down_up im fd fu t)) = t.
Proof. exact unchanged_labels_same_tree. Qed.
Theorem C42_identity_rewrite : forall im t,
  transform_down_up im id_cb id_cb t = (full_log id_cb t, mkT t false Continue).
Proof. exact identity_rewrite. Qed.

(* ---- real Expr-style nodes: children in several sibling containers (Box / Option / Vec / tuples), model gtree.
   The tuple-of-containers walk/map is the plain left-to-right one exactly when no non-empty container is
   followed only by empty ones (groups_ok) ... *)
Theorem C42_container_walk_flat : forall (f : tree -> M tnr) gs,
  groups_ok gs = true -> apply_groups f gs = apply_until_stop f (concat gs).
Proof. intros f gs. exact (apply_groups_flat f gs). Qed.
Theorem C42_container_map_flat : forall (f : tree -> M (Tr tree)) gs,
  groups_ok gs = true ->
  let X := map_groups f gs in
  let Y := map_until_stop_and_collect f (concat gs) in
  fst X = fst Y /\ concat (data (snd X)) = data (snd Y) /\
  changed (snd X) = changed (snd Y) /\ rec (snd X) = rec (snd Y).
Proof. intros f gs. exact (map_groups_flat f gs). Qed.
(* ... so on well-grouped trees every entry point is the flat one, for which the contracts above hold *)
Theorem C42_expr_apply : forall f t, well_grouped t = true -> gapply f t = apply f (flatten t).
Proof. exact gapply_well_grouped. Qed.
Theorem C42_expr_visit : forall fd fu t, well_grouped t = true -> gvisit fd fu t = visit fd fu (flatten t).
Proof. exact gvisit_well_grouped. Qed.
Theorem C42_expr_rewrite : forall fd fu t,
  well_grouped t = true ->
  gres_rel (gtransform_down_up fd fu t) (transform_down_up IVec fd fu (flatten t)).
Proof. exact gtdu_well_grouped. Qed.
Theorem C42_expr_transform_down : forall f t,
  well_grouped t = true -> gres_rel (gtransform_down f t) (transform_down IVec f (flatten t)).
Proof. exact gtd_well_grouped. Qed.
Theorem C42_expr_transform_up : forall f t,
  well_grouped t = true -> gres_rel (gtransform_up f t) (transform_up IVec f (flatten t)).
Proof. exact gtu_well_grouped. Qed.

(* ---- REFUTED for trees that are not well grouped (finding C42-F1): CASE WHEN 95 THEN <410> END, f_up answers
   Jump on the THEN branch; the contract bypasses f_up(CASE) and ends with Jump, the empty ELSE container resets
   the Jump: f_up(CASE) is invoked, the walk ends with Continue, apply_children reports Continue. *)
Theorem C42_trailing_empty_container_refuted :
  exists (t : gtree) (fd fu : vcb) (rd ru : rcb),
    well_grouped t = false /\
    s_log (scan_tree (vlift fd) (vlift fu) (flatten t)) =
      [(PDown, 500); (PDown, 95); (PUp, 95); (PDown, 410); (PUp, 410)] /\
    tnr_of (s_mode (scan_tree (vlift fd) (vlift fu) (flatten t))) = Jump /\
    gvisit fd fu t =
      ([(PDown, 500); (PDown, 95); (PUp, 95); (PDown, 410); (PUp, 410); (PUp, 500)], Continue) /\
    fst (gtransform_down_up rd ru t) =
      [(PDown, 500); (PDown, 95); (PUp, 95); (PDown, 410); (PUp, 410); (PUp, 500)] /\
    s_log (scan_tree rd ru (flatten t)) = [(PDown, 500); (PDown, 95); (PUp, 95); (PDown, 410); (PUp, 410)] /\
    gapply_children (gvcall PDown fu) t = ([(PDown, 95); (PDown, 410)], Continue).
Proof. exact trailing_empty_container_refuted. Qed.

(* ---- non-vacuity: the 10-node tree of the crate's own tests (a=1 .. j=10), Arc<dyn> implementation,
   f_down relabels e (5 -> 105, reported) and says Jump; f_up says Jump on h (8): e's subtree is skipped
   but f_up(e) runs on the new label; after f_up(h) jumps, f_up of g, f, i, j is bypassed. *)
Definition c42_tree : tree :=
  Node 10 [Node 9 [Node 6 [Node 5 [Node 3 [Node 2 []; Node 4 [Node 1 []]]]; Node 7 [Node 8 []]]]].
Definition c42_fd : rcb := rtab [(5, (105, true, Jump))].
Definition c42_fu : rcb := rtab [(8, (8, false, Jump))].
Example C42_nonvacuous :
  impl_ok IDyn c42_fd c42_fu /\
  transform_down_up IDyn c42_fd c42_fu c42_tree =
  ([(PDown, 10); (PDown, 9); (PDown, 6); (PDown, 5); (PUp, 105); (PDown, 7); (PDown, 8); (PUp, 8)],
   mkT (Node 10 [Node 9 [Node 6 [Node 105 [Node 3 [Node 2 []; Node 4 [Node 1 []]]]; Node 7 [Node 8 []]]]])
       true Jump) /\
  s_log (scan_tree c42_fd c42_fu c42_tree) = fst (transform_down_up IDyn c42_fd c42_fu c42_tree) /\
  apply (vtab [(5, Jump); (7, Stop)]) c42_tree = (downs [10; 9; 6; 5; 7], Stop).
Proof.
  split; [|vm_compute; repeat split].
  intros _. split; intros l H; unfold c42_fd, c42_fu, new_label, flag_of, rtab in *.
  - destruct (Z.eqb_spec 5 l); cbn in *; [reflexivity|contradiction].
  - destruct (Z.eqb_spec 8 l); cbn in *; [congruence|contradiction].
Qed.
