(* C27 -- partition-value pruning of listing tables never drops matching files.
   Model: Model/ListingPrune.v (datafusion/catalog-listing/src/helpers.rs).  [eval_prefix]/[pruned] are the
   code after the fix: commit (only string literals contribute to the listing prefix), [pruned_upstream] the
   pinned upstream code.  Filters are conjunctions of `column = literal` atoms (the only shape
   populate_partition_values looks at); texts are byte lists; a file is its list of path segments. *)
From DF Require Import Base.Prelude Model.ListingPrune Proofs.ListingPruneProofs.
Open Scope Z_scope.

(* Every file whose partition values satisfy the filter lies under the computed listing prefix, for any
   layout whose directory names are canonically percent-encoded. *)
Theorem C27_prefix_sound :
  forall cols atoms file,
    NoDup (map fst cols) -> canonical_file file = true ->
    file_matches cols atoms file = true ->
    has_prefix (eval_prefix cols atoms) file = true.
Proof. exact prefix_sound. Qed.

(* Hence listing under the prefix and filtering = scanning all files and filtering (same files, same order). *)
Theorem C27_pruned_eq_scan_all :
  forall cols atoms files,
    NoDup (map fst cols) -> forallb canonical_file files = true ->
    pruned cols atoms files = scan_all cols atoms files.
Proof. exact pruned_eq_scan_all. Qed.

(* Headline: no matching file is dropped. *)
Theorem C27_pruned_superset :
  forall cols atoms files f,
    NoDup (map fst cols) -> forallb canonical_file files = true ->
    In f files -> file_matches cols atoms f = true -> In f (pruned cols atoms files).
Proof. exact pruned_superset. Qed.

(* ... and nothing else is scanned (any version of the code). *)
Theorem C27_pruned_subset :
  forall spelling cols atoms files f,
    In f (pruned_gen spelling cols atoms files) -> In f files /\ file_matches cols atoms f = true.
Proof. exact pruned_gen_subset. Qed.

(* The pinned upstream code violates the property: with an Int32 partition column `month` and the
   filter month = 1, the directory month=01 (which parses to 1) is not listed. *)
Theorem C27_upstream_refuted :
  exists cols atoms files,
    NoDup (map fst cols) /\ forallb canonical_file files = true /\
    pruned_upstream cols atoms files <> scan_all cols atoms files.
Proof. exact upstream_refuted. Qed.

Theorem C27_upstream_drops_matching_file :
  NoDup (map fst w_cols) /\ forallb canonical_file w_files = true /\
  In w_file01 w_files /\ file_matches w_cols w_atoms w_file01 = true /\
  pruned_upstream w_cols w_atoms w_files = [w_file1] /\
  pruned w_cols w_atoms w_files = w_files.
Proof. exact upstream_drops_matching_file. Qed.

(* The canonical-layout assumption is necessary (residual known finding): a directory a=%66oo decodes to
   a = 'foo', satisfies a = 'foo', and is not under the prefix a=foo. *)
Theorem C27_overencoded_refuted :
  exists cols atoms file,
    NoDup (map fst cols) /\ file_matches cols atoms file = true /\
    has_prefix (eval_prefix cols atoms) file = false.
Proof. exact overencoded_refuted. Qed.

(* So is the distinctness of partition column names. *)
Theorem C27_dup_cols_refuted :
  exists cols atoms file,
    canonical_file file = true /\ file_matches cols atoms file = true /\
    has_prefix (eval_prefix cols atoms) file = false.
Proof. exact dup_cols_refuted. Qed.

(* Partition values parsed from a path are the values the path was built from (ASCII values). *)
Theorem C27_decode_encode_roundtrip :
  forall v, Forall (fun b => 0 <= b < 128) v -> decode_val (pct_encode v) = v.
Proof. exact decode_encode_roundtrip. Qed.

Theorem C27_parse_build_roundtrip :
  forall cols vs fname,
    length vs = length cols ->
    Forall (fun c => ~ In 61 (fst c)) cols ->
    Forall (Forall (fun b => 0 <= b < 128)) vs ->
    parse_path cols (build_path cols vs fname) = Some vs.
Proof. exact parse_build_roundtrip. Qed.

(* Paths built that way are canonically encoded, so the theorems above apply to them. *)
Theorem C27_build_path_canonical :
  forall cols vs fname,
    Forall (fun c => ~ In 61 (fst c)) cols ->
    Forall (Forall (fun b => 0 <= b < 128)) vs ->
    ~ In 61 fname ->
    canonical_file (build_path cols vs fname) = true.
Proof. exact build_path_canonical. Qed.

(* split_once('='): the first '=' *)
Theorem C27_split_eq_spec :
  forall s a b, split_eq s = Some (a, b) <-> s = a ++ 61 :: b /\ ~ In 61 a.
Proof. exact split_eq_spec. Qed.

(* Shape of the prefix: its i-th part is "p_i=txt" for the i-th partition column p_i, where p_i = 'txt' is
   a string-literal atom of the filter and txt needs no percent-encoding; an empty prefix constrains nothing. *)
Theorem C27_prefix_parts_are_canonical_segments :
  forall cols atoms,
    Forall2 (fun part col => exists txt,
               In (fst col, VStr txt) atoms /\ part = seg (fst col) txt /\ pct_encode txt = txt)
            (eval_prefix cols atoms) (firstn (length (eval_prefix cols atoms)) cols).
Proof. exact prefix_parts_are_canonical_segments. Qed.

Theorem C27_has_prefix_nil : forall f, has_prefix [] f = true.
Proof. exact has_prefix_nil. Qed.

(* non-vacuity: columns a : Utf8, b : Int32; filter a = 'x' AND b = 2; four canonical files.  The prefix is
   a=x (b is an integer column: not part of the prefix); a=x/b=2 and a=x/b=02 are kept, a=y/b=2 is not
   listed, a=x/b=3 is listed and filtered out. *)
Example C27_nonvacuous :
  let cols := [([97], TUtf8); ([98], TInt32)] in
  let atoms := [([97], VStr [120]); ([98], VInt 2)] in
  let f1 := [[97;61;120]; [98;61;50]; [102]] in
  let f2 := [[97;61;120]; [98;61;48;50]; [103]] in
  let f3 := [[97;61;121]; [98;61;50]; [104]] in
  let f4 := [[97;61;120]; [98;61;51]; [105]] in
  let files := [f1; f3; f2; f4] in
  NoDup (map fst cols) /\ forallb canonical_file files = true /\
  eval_prefix cols atoms = [[97;61;120]] /\
  pruned cols atoms files = [f1; f2] /\ scan_all cols atoms files = [f1; f2] /\
  filter (has_prefix (eval_prefix cols atoms)) files = [f1; f2; f4] /\
  pruned_upstream cols atoms files = [f1].
Proof.
  cbv zeta. split.
  - cbn [map fst]. constructor.
    + intros [H|[]]. discriminate.
    + constructor; [intros []|constructor].
  - vm_compute. repeat split; reflexivity.
Qed.

(* non-vacuity of the round trip: a value with characters that need encoding *)
Example C27_nonvacuous_roundtrip :
  let cols := [([97], TUtf8); ([98], TInt32)] in
  let vs := [[120;47;32;37;121]; [52;50]] in                     (* "x/ %y", "42" *)
  build_path cols vs [102] = [[97;61;120;37;50;70;37;50;48;37;50;53;121]; [98;61;52;50]; [102]] /\
  parse_path cols (build_path cols vs [102]) = Some vs /\
  canonical_file (build_path cols vs [102]) = true.
Proof. vm_compute. repeat split; reflexivity. Qed.
