(* C14 -- Join hash table lookups return exactly the matching build rows.
   Property theorems only.  Model: Model/JoinHashMap.v (faithful to
   datafusion/physical-plan/src/joins/join_hash_map.rs and joins/chain.rs); proofs:
   Proofs/JoinHashMapProofs.v.

   Vocabulary (all defined in the model file):
     bs                  the batches handed to update_from_iter, each the (row, hash) items its
                         iterator yields, in order; concat bs = the whole insertion history
     build W d cap bs    with_capacity(cap) then update_from_iter(batch, d) per batch; W = T::MAX
                         (2^32-1 for JoinHashMapU32, 2^64-1 for JoinHashMapU64); None = panic
     rows_of ins h       the rows inserted with hash h, most recently inserted first
     wf_ins W d cap ins  the caller obligations: every row number inserted once,
                         d <= row < d + cap, row + 1 <= W
   hashbrown's HashTable is a finite map keyed by the u64 hash VALUE; telling apart different
   join keys with equal hashes is the caller's business (as in the Rust code). *)
From Coq Require Import List ZArith.
From DF Require Import Base.Prelude Model.JoinHashMap Proofs.JoinHashMapProofs.
Import ListNotations.
Open Scope Z_scope.

(* The specification list really is "exactly the build rows with this hash, each once":
   membership, no repetition ... *)
Theorem C14_rows_exact : forall ins h,
  (forall r, In r (rows_of ins h) <-> In (r, h) ins) /\
  (NoDup (map fst ins) -> NoDup (rows_of ins h)).
Proof. exact rows_of_exact. Qed.

(* ... and its order: most recently inserted first. *)
Theorem C14_rows_order : forall ins r h h',
  rows_of [] h' = [] /\
  rows_of (ins ++ [(r, h)]) h' = if h =? h' then r :: rows_of ins h' else rows_of ins h'.
Proof. exact rows_of_order. Qed.

(* (a) get_matched_indices: for EVERY insertion history (any number of batches, any order, any
   deleted_offset d) that meets the caller obligations, building does not panic and the un-paged lookup
   returns, for each probe item (row_idx, hash) in order, exactly the pairs
   (row_idx, r - d) for r in rows_of history hash -- nothing else, nothing twice, in chain order.
   With d = 0 the `deleted_offset = None` form gives the same. *)
Theorem C14_lookup_exact : forall W d cap bs probes,
  0 <= d <= W -> 0 <= cap -> wf_ins W d cap (concat bs) ->
  exists s, build W d cap bs = Some s /\
    get_matched_indices W s probes (Some d) = Some (matched_spec (concat bs) d probes) /\
    (d = 0 -> get_matched_indices W s probes None = Some (matched_spec (concat bs) 0 probes)).
Proof. exact lookup_exact. Qed.

(* (b) get_matched_indices_with_limit_offset: for every history meeting the obligations, every probe
   list (hash, key-is-valid) and EVERY limit >= 1, the caller's loop "call with (0, None), then with the
   returned offset, until None is returned" terminates (paged_run is an inductive, i.e. finite, run),
   every page has at most `limit` pairs, and the pages concatenate to exactly
   [(i, r) | i <- probe rows with a valid key, in order; r <- rows_of history (hash i)]
   (nothing for NULL-key rows).  Both code paths (unique-values fast path, chain path with the
   three resume cases and traverse_chain's is_last_input rule) are covered: which one runs is decided
   inside lookup_page. *)
Theorem C14_paging_concat : forall W cap bs probes limit,
  0 <= cap -> wf_ins W 0 cap (concat bs) -> 1 <= limit ->
  exists s pages, build W 0 cap bs = Some s /\
    paged_run s probes limit (0, None) pages /\
    concat pages = lookup_spec (concat bs) probes /\
    Forall (fun pg => lenZ pg <= limit) pages.
Proof. exact paging_concat. Qed.

(* the run is unique: these are THE pages the loop produces *)
Theorem C14_paged_run_deterministic : forall s probes limit t p1,
  paged_run s probes limit t p1 -> forall p2, paged_run s probes limit t p2 -> p1 = p2.
Proof. exact paged_run_det. Qed.

(* membership tests agree with the lookup; len() = number of distinct hash values *)
Theorem C14_contains_iff_lookup_nonempty : forall W d cap bs hs,
  0 <= d -> 0 <= cap -> wf_ins W d cap (concat bs) ->
  exists s, build W d cap bs = Some s /\
    contain_hashes s hs = map (fun h => nonempty (rows_of (concat bs) h)) hs /\
    jlen s = lenZ (nodup Z.eq_dec (map snd (concat bs))).
Proof. exact contains_iff_lookup_nonempty. Qed.

(* non-vacuity: the example of the module documentation (rows 1,3,4 share hash 10), two batches, U32:
   the obligations hold, and the model computes a 4-page run with limit 2 that crosses a chain
   boundary, skips a miss and a NULL-key row, and ends on the last probe row *)
Example C14_nonvacuous :
  let bs := [[(1, 10); (2, 20)]; [(3, 10); (4, 10)]] in
  let probes := [(10, true); (30, true); (20, true); (10, false); (10, true)] in
  wf_ins (wmax 32) 0 5 (concat bs) /\
  exists s, build (wmax 32) 0 5 bs = Some s /\
    paged_run s probes 2 (0, None)
      [[(0, 4); (0, 3)]; [(0, 1); (2, 2)]; [(4, 4); (4, 3)]; [(4, 1)]] /\
    lookup_spec (concat bs) probes = [(0, 4); (0, 3); (0, 1); (2, 2); (4, 4); (4, 3); (4, 1)] /\
    get_matched_indices (wmax 32) s [(7, 10); (8, 20)] None = Some [(7, 4); (7, 3); (7, 1); (8, 2)].
Proof.
  cbv zeta. split.
  - split.
    + cbn. repeat constructor; cbn; intuition discriminate.
    + repeat constructor; cbn; discriminate.
  - eexists. split; [vm_compute; reflexivity|]. split; [|split; vm_compute; reflexivity].
    eapply run_more; [vm_compute; reflexivity|].
    eapply run_more; [vm_compute; reflexivity|].
    eapply run_more; [vm_compute; reflexivity|].
    apply run_last. vm_compute. reflexivity.
Qed.
