From DF Require Import Base.Prelude Model.SchemaAdapt Proofs.SchemaAdaptProofs Props.C44.
Open Scope Z_scope.
Check C44_adapt_by_name :
  forall tbl file r r' i tf,
    adapt_row tbl file r = Some r' -> nth_error tbl i = Some tf ->
    match find_field (fname tf) file with
    | None => fnullable tf = true /\ nth_error r' i = Some VNull
    | Some (j, pf) =>
        exists v w, nth_error r j = Some v /\ nth_error r' i = Some w /\
          (if ty_eqb (fty pf) (fty tf) then w = v else cast_value (fty tf) v = Some w)
    end.
Check C44_unadaptable_fails :
  forall tbl file r, adaptable tbl file = false -> adapt_row tbl file r = None.
Check C44_missing_column_is_null :
  forall tbl file r r' i tf,
    adapt_row tbl file r = Some r' -> nth_error tbl i = Some tf ->
    find_field (fname tf) file = None -> nth_error r' i = Some VNull.
Check C44_batch_adapter_eq_spec :
  forall tbl file r,
    NoDup (map fname tbl) -> row_typed file r = true ->
    batch_adapter_row tbl file r = adapt_row tbl file r.
Check C44_rewrite_commutes :
  forall tbl file e e' r r',
    wf_expr tbl e = true -> rewrite tbl file e = Some e' ->
    row_typed file r = true -> adapt_row tbl file r = Some r' ->
    eval e' r = eval e r'.
Check C44_filter_commutes :
  forall tbl file p p' r r',
    wf_expr tbl p = true -> rewrite tbl file p = Some p' ->
    row_typed file r = true -> adapt_row tbl file r = Some r' ->
    selects p' r = selects p r'.
Check C44_pushdown_equals_postfilter :
  forall tbl file p p' rows rows',
    wf_expr tbl p = true -> rewrite tbl file p = Some p' ->
    forallb (row_typed file) rows = true ->
    adapt_batch tbl file rows = Some rows' ->
    adapt_batch tbl file (filter (selects p') rows) = Some (filter (selects p) rows').
Check C44_adapt_projection_commutes :
  forall tbl file es es' r r',
    forallb (wf_expr tbl) es = true -> mapM (rewrite tbl file) es = Some es' ->
    row_typed file r = true -> adapt_row tbl file r = Some r' ->
    mapM (fun e' => eval e' r) es' = mapM (fun e => eval e r') es.
Check C44_adapt_idempotent_same_schema :
  forall s r, NoDup (map fname s) -> row_typed s r = true -> adapt_row s s r = Some r.
Check C44_nonvacuous :
  wf_expr nv_tbl nv_p = true /\ row_typed nv_file nv_row = true /\ NoDup (map fname nv_tbl) /\
  rewrite nv_tbl nv_file nv_p =
    Some (EOr (ECmp OLt (ECast (ECol [97] 2%nat) TInt64) (ELit (VI64 4294967301))) (EIsNull (ELit VNull))) /\
  adapt_row nv_tbl nv_file nv_row = Some [VI64 2147483647; VUtf8 [97]; VNull] /\
  selects nv_p [VI64 2147483647; VUtf8 [97]; VNull] = true /\
  wf_expr nv_tbl nv_p2 = true /\
  rewrite nv_tbl nv_file nv_p2 = Some (ECmp OEq (ECast (ECol [98] 1%nat) TUtf8) (ELit (VUtf8 [97]))) /\
  selects nv_p2 [VI64 2147483647; VUtf8 [97]; VNull] = true /\
  (* a narrowing cast that overflows makes the adaptation fail *)
  adapt_row [mkField [97] TInt32 true] [mkField [97] TInt64 true] [VI64 5000000000] = None.
Print Assumptions C44_adapt_by_name.
Print Assumptions C44_unadaptable_fails.
Print Assumptions C44_missing_column_is_null.
Print Assumptions C44_batch_adapter_eq_spec.
Print Assumptions C44_rewrite_commutes.
Print Assumptions C44_filter_commutes.
Print Assumptions C44_pushdown_equals_postfilter.
Print Assumptions C44_adapt_projection_commutes.
Print Assumptions C44_adapt_idempotent_same_schema.
Print Assumptions C44_nonvacuous.
