From Coq Require Import ZArith Bool List.
From DF Require Import Base.Prelude Model.NumCoerce Props.C47.
Open Scope Z_scope.
Check C47_coercion_symmetric :
  forall a b : nty, comparison_coercion a b = comparison_coercion b a.
Check C47_coercion_panic_symmetric :
  forall a b : nty, comparison_ovf a b = comparison_ovf b a.
Check C47_int_cmp_exact :
  forall (a b : ity) (x y : Z) (op : cmpop),
    in_irange a x = true -> in_irange b y = true ->
    eval_cmp op (TInt a) x (TInt b) y = EOk (zcmp op x y).
Check C47_int_common_type_contains_both :
  forall (a b : ity) (x y : Z),
    in_irange a x = true -> in_irange b y = true ->
    exists t, comparison_coercion (TInt a) (TInt b) = Some t /\ exact_ty t = true /\
              cast_val (TInt a) t x = COk x /\ cast_val (TInt b) t y = COk y.
Check C47_int_cmp_never_panics :
  forall a b : ity, eval_ovf (TInt a) (TInt b) = false.
Check C47_swap_mirror :
  forall (op : cmpop) (ta : nty) (x : Z) (tb : nty) (y : Z),
    eval_cmp op ta x tb y = eval_cmp (mirror op) tb y ta x.
Check C47_int_inlist_exact :
  forall (a b : ity) (x : Z) (ys : list Z),
    in_irange a x = true -> Forall (fun y => in_irange b y = true) ys ->
    eval_inlist (TInt a) x (TInt b) ys = EOk (existsb (Z.eqb x) ys).
Check C47_decimal_cmp_exact_or_error :
  forall (ta tb : nty) (x y : Z) (op : cmpop) (t : nty) (r : bool),
    ty_ok ta = true -> ty_ok tb = true -> val_ok ta x = true -> val_ok tb y = true ->
    comparison_coercion ta tb = Some t -> is_decimal t = true ->
    eval_ovf ta tb = false ->
    eval_cmp op ta x tb y = EOk r ->
    r = spec_cmp op ta x tb y.
Check C47_no_overflow_below_decimal256 :
  forall ta tb : nty,
    ty_ok ta = true -> ty_ok tb = true -> not256 ta = true -> not256 tb = true ->
    eval_ovf ta tb = false.
Check C47_decimal_vs_integer_refuted :
  exists (ta tb : nty) (x y : Z) (op : cmpop) (r : bool),
    ty_ok ta = true /\ ty_ok tb = true /\ val_ok ta x = true /\ val_ok tb y = true /\
    eval_ovf ta tb = false /\
    comparison_coercion ta tb = Some (TInt I32) /\
    eval_cmp op ta x tb y = EOk r /\ r <> spec_cmp op ta x tb y.
Check C47_decimal256_wrap_refuted :
  exists (ta tb : nty) (x y : Z) (op : cmpop) (r : bool),
    ty_ok ta = true /\ ty_ok tb = true /\ val_ok ta x = true /\ val_ok tb y = true /\
    eval_ovf ta tb = true /\
    comparison_coercion ta tb = Some (TDec D256 76 76) /\
    eval_cmp op ta x tb y = EOk r /\ r <> spec_cmp op ta x tb y.
Print Assumptions C47_coercion_symmetric.
Print Assumptions C47_coercion_panic_symmetric.
Print Assumptions C47_int_cmp_exact.
Print Assumptions C47_int_common_type_contains_both.
Print Assumptions C47_int_cmp_never_panics.
Print Assumptions C47_swap_mirror.
Print Assumptions C47_int_inlist_exact.
Print Assumptions C47_decimal_cmp_exact_or_error.
Print Assumptions C47_no_overflow_below_decimal256.
Print Assumptions C47_decimal_vs_integer_refuted.
Print Assumptions C47_decimal256_wrap_refuted.
Print Assumptions C47_nonvacuous.
