(* C42 audit: pins every property theorem's statement and prints its assumptions. *)
From Coq Require Import List ZArith Bool.
From DF Require Import Base.Prelude Model.TreeNode Proofs.TreeNodeProofs Props.C42.
Import ListNotations.
Open Scope Z_scope.

Check C42_eq_apply : forall f t,
  apply f t = bind (vcall PDown f t) (fun r => visit_children r (fun _ => apply_children (apply f) t)).
Check C42_eq_visit : forall fd fu t,
  visit fd fu t =
  bind (vcall PDown fd t) (fun r =>
  bind (visit_children r (fun _ => apply_children (visit fd fu) t)) (fun rc =>
  visit_parent rc (fun _ => vcall PUp fu t))).
Check C42_eq_transform_down : forall im f t,
  transform_down im f t =
  bind (rcall PDown f t) (fun t1 => transform_children t1 (map_children im (transform_down im f))).
Check C42_eq_transform_up : forall im f t,
  transform_up im f t =
  bind (map_children im (transform_up im f) t) (fun t1 => transform_parent t1 (rcall PUp f)).
Check C42_eq_transform_down_up : forall im fd fu t,
  transform_down_up im fd fu t =
  bind (rcall PDown fd t) (fun t1 =>
  bind (transform_children t1 (map_children im (transform_down_up im fd fu))) (fun t2 =>
  transform_parent t2 (rcall PUp fu))).
Check C42_apply_contract : forall f t,
  apply f t = (downs (upto_stop f (pruned f t)), if has_stop f (pruned f t) then Stop else Continue).
Check C42_apply_preorder : forall f t,
  (forall l, f l = Continue) -> apply f t = (downs (preorder t), Continue).
Check C42_exists_contract : forall p t,
  exists_ p t = (downs (upto_first p (preorder t)), existsb p (preorder t)).
Check C42_rewrite_contract : forall im fd fu t,
  impl_ok im fd fu ->
  let r := transform_down_up im fd fu t in
  let s := scan_tree fd fu t in
  fst r = s_log s /\ rec (snd r) = tnr_of (s_mode s) /\
  shape (data (snd r)) = shape t /\ postorder (data (snd r)) = s_post s /\
  changed (snd r) = existsb (reported fd fu) (fst r).
Check C42_visit_contract : forall fd fu t,
  let r := visit fd fu t in
  let s := scan_tree (vlift fd) (vlift fu) t in
  fst r = s_log s /\ snd r = tnr_of (s_mode s).
Check C42_transform_down_contract : forall im f t,
  impl_ok im f id_cb ->
  let r := transform_down im f t in
  let s := scan_tree f id_cb t in
  fst r = filter is_down (s_log s) /\ rec (snd r) = tnr_of (s_mode s) /\
  shape (data (snd r)) = shape t /\ postorder (data (snd r)) = s_post s /\
  changed (snd r) = existsb (reported f id_cb) (fst r).
Check C42_transform_up_contract : forall im f t,
  impl_ok im id_cb f ->
  let r := transform_up im f t in
  let s := scan_tree id_cb f t in
  fst r = filter is_up (s_log s) /\ rec (snd r) = tnr_of (s_mode s) /\
  shape (data (snd r)) = shape t /\ postorder (data (snd r)) = s_post s /\
  changed (snd r) = existsb (reported id_cb f) (fst r).
Check C42_tree_determined : forall a b, shape a = shape b -> postorder a = postorder b -> a = b.
Check C42_visit_as_rewrite : forall fd fu t,
  visit fd fu t =
  (fst (transform_down_up IVec (vlift fd) (vlift fu) t), rec (snd (transform_down_up IVec (vlift fd) (vlift fu) t))).
Check C42_transform_down_as_down_up : forall im f t,
  transform_down im f t =
  (filter is_down (fst (transform_down_up im f id_cb t)), snd (transform_down_up im f id_cb t)).
Check C42_transform_up_as_down_up : forall im f t,
  transform_up im f t =
  (filter is_up (fst (transform_down_up im id_cb f t)), snd (transform_down_up im id_cb f t)).
Check C42_impls_agree : forall im fd fu t,
  impl_ok im fd fu -> transform_down_up im fd fu t = transform_down_up IVec fd fu t.
Check C42_all_continue : forall im fd fu t,
  impl_ok im fd fu ->
  (forall l, dir_of fd l = Continue) -> (forall l, dir_of fu l = Continue) ->
  let r := transform_down_up im fd fu t in
  fst r = full_log fd t /\
  data (snd r) = relabel (fun l => new_label fu (new_label fd l)) t /\
  rec (snd r) = Continue.
Check C42_transform_down_preorder : forall im f t,
  impl_ok im f id_cb -> (forall l, dir_of f l = Continue) ->
  let r := transform_down im f t in
  fst r = downs (preorder t) /\ data (snd r) = relabel (new_label f) t /\ rec (snd r) = Continue.
Check C42_transform_up_postorder : forall im f t,
  impl_ok im id_cb f -> (forall l, dir_of f l = Continue) ->
  let r := transform_up im f t in
  fst r = ups (postorder t) /\ data (snd r) = relabel (new_label f) t /\ rec (snd r) = Continue.
Check C42_down_up_is_down_then_up : forall im fd fu t,
  impl_ok im fd fu ->
  (forall l, dir_of fd l = Continue) -> (forall l, dir_of fu l = Continue) ->
  data (snd (transform_down_up im fd fu t)) =
  data (snd (transform_up im fu (data (snd (transform_down im fd t))))).
Check C42_unchanged_labels_same_tree : forall im fd fu t,
  (forall l, new_label fd l = l) -> (forall l, new_label fu l = l) ->
  data (snd (transform_down_up im fd fu t)) = t.
Check C42_identity_rewrite : forall im t,
  transform_down_up im id_cb id_cb t = (full_log id_cb t, mkT t false Continue).
Check C42_container_walk_flat : forall (f : tree -> M tnr) gs,
  groups_ok gs = true -> apply_groups f gs = apply_until_stop f (concat gs).
Check C42_container_map_flat : forall (f : tree -> M (Tr tree)) gs,
  groups_ok gs = true ->
  let X := map_groups f gs in
  let Y := map_until_stop_and_collect f (concat gs) in
  fst X = fst Y /\ concat (data (snd X)) = data (snd Y) /\
  changed (snd X) = changed (snd Y) /\ rec (snd X) = rec (snd Y).
Check C42_expr_apply : forall f t, well_grouped t = true -> gapply f t = apply f (flatten t).
Check C42_expr_visit : forall fd fu t, well_grouped t = true -> gvisit fd fu t = visit fd fu (flatten t).
Check C42_expr_rewrite : forall fd fu t,
  well_grouped t = true ->
  gres_rel (gtransform_down_up fd fu t) (transform_down_up IVec fd fu (flatten t)).
Check C42_expr_transform_down : forall f t,
  well_grouped t = true -> gres_rel (gtransform_down f t) (transform_down IVec f (flatten t)).
Check C42_expr_transform_up : forall f t,
  well_grouped t = true -> gres_rel (gtransform_up f t) (transform_up IVec f (flatten t)).
Check C42_trailing_empty_container_refuted :
  exists (t : gtree) (fd fu : vcb) (rd ru : rcb),
    well_grouped t = false /\
    s_log (scan_tree (vlift fd) (vlift fu) (flatten t)) =
      [(PDown, 500); (PDown, 95); (PUp, 95); (PDown, 410); (PUp, 410)] /\
    tnr_of (s_mode (scan_tree (vlift fd) (vlift fu) (flatten t))) = Jump /\
    gvisit fd fu t =
      ([(PDown, 500); (PDown, 95); (PUp, 95); (PDown, 410); (PUp, 410); (PUp, 500)], Continue) /\
    fst (gtransform_down_up rd ru t) =
      [(PDown, 500); (PDown, 95); (PUp, 95); (PDown, 410); (PUp, 410); (PUp, 500)] /\
    s_log (scan_tree rd ru (flatten t)) = [(PDown, 500); (PDown, 95); (PUp, 95); (PDown, 410); (PUp, 410)] /\
    gapply_children (gvcall PDown fu) t = ([(PDown, 95); (PDown, 410)], Continue).

Print Assumptions C42_eq_apply.
Print Assumptions C42_eq_visit.
Print Assumptions C42_eq_transform_down.
Print Assumptions C42_eq_transform_up.
Print Assumptions C42_eq_transform_down_up.
Print Assumptions C42_apply_contract.
Print Assumptions C42_apply_preorder.
Print Assumptions C42_exists_contract.
Print Assumptions C42_rewrite_contract.
Print Assumptions C42_visit_contract.
Print Assumptions C42_transform_down_contract.
Print Assumptions C42_transform_up_contract.
Print Assumptions C42_tree_determined.
Print Assumptions C42_visit_as_rewrite.
Print Assumptions C42_transform_down_as_down_up.
Print Assumptions C42_transform_up_as_down_up.
Print Assumptions C42_impls_agree.
Print Assumptions C42_all_continue.
Print Assumptions C42_transform_down_preorder.
Print Assumptions C42_transform_up_postorder.
Print Assumptions C42_down_up_is_down_then_up.
Print Assumptions C42_unchanged_labels_same_tree.
Print Assumptions C42_identity_rewrite.
Print Assumptions C42_container_walk_flat.
Print Assumptions C42_container_map_flat.
Print Assumptions C42_expr_apply.
Print Assumptions C42_expr_visit.
Print Assumptions C42_expr_rewrite.
Print Assumptions C42_expr_transform_down.
Print Assumptions C42_expr_transform_up.
Print Assumptions C42_trailing_empty_container_refuted.
Print Assumptions C42_nonvacuous.
