From Coq Require Import List ZArith Bool.
From DF Require Import Base.Prelude Model.RefSQL Model.Params Proofs.ParamsProofs Props.C41.
Import ListNotations.
Open Scope Z_scope.
Check C41_subst_lemma :
  forall (s : penv) (q : pquery) (q' : query), subst_q s q = Ok q' ->
  forall f d en, eval_query f d en q' = peval_query f s d en q.
Check C41_subst_lemma_expr :
  forall (s : penv) (e : pexpr) (e' : expr), subst_e s e = Ok e' ->
  forall f d en, eval_expr f d en e' = peval_expr f s d en e.
Check C41_subst_lemma_run :
  forall vs q q' d, subst_q (env_list vs) q = Ok q' ->
  run_query d q' = prun_query (env_list vs) d q.
Check C41_subst_no_params_id :
  forall s q, subst_q s (embed_q q) = Ok q.
Check C41_peval_embed :
  forall s q f d en, peval_query f s d en (embed_q q) = eval_query f d en q.
Check C41_subst_only_bound_values_matter :
  forall s s' q,
  (forall n, In n (params_q q) -> s n = s' n) -> subst_q s q = subst_q s' q.
Check C41_map_and_list_agree :
  forall vs q, subst_q (env_map (number_from 1 vs)) q = subst_q (env_list vs) q.
Check C41_param_in_subquery :
  forall s n v neg op a a' sub sub' q0 q0' f d en,
  s n = Some v -> subst_e s a = Ok a' -> subst_q s sub = Ok sub' -> subst_q s q0 = Ok q0' ->
  peval_query f s d en (PQFilter (PInSub neg a (PQFilter (PCmp op (PCol 0 0) (PParam n)) sub)) q0)
  = eval_query f d en (QFilter (EInSub neg a' (QFilter (ECmp op (ECol 0 0) (ELit v)) sub')) q0').
Check C41_param_in_scalar_and_exists :
  forall s n v neg op sub sub' q0 q0' f d en,
  s n = Some v -> subst_q s sub = Ok sub' -> subst_q s q0 = Ok q0' ->
  peval_query f s d en (PQFilter (PAnd (PExists neg (PQFilter (PCmp op (PCol 0 0) (PParam n)) sub))
                                       (PCmp op (PScalar (PQProject [PParam n] sub)) (PParam n))) q0)
  = eval_query f d en (QFilter (EAnd (EExists neg (QFilter (ECmp op (ECol 0 0) (ELit v)) sub'))
                                     (ECmp op (EScalar (QProject [ELit v] sub')) (ELit v))) q0').
Check C41_param_in_limit :
  forall s n m off lim q q' f d en,
  s n = Some (VInt off) -> 0 <= off -> s m = Some (VInt lim) -> 0 <= lim -> subst_q s q = Ok q' ->
  peval_query f s d en (PQLimit (LParam n) (Some (LParam m)) q) = eval_query f d en (QLimit off (Some lim) q').
Check C41_unbound_param_fails_eagerly :
  forall s n q,
  s n = None ->
  subst_q s (PQProject [PCase [(PLit (VBool true), PLit (VInt 1))] (Some (PParam n))] q) = Err EScope.
Check C41_unbound_param_lazy_in_spec :
  forall s n,
  prun_query s [] (PQProject [PCase [(PLit (VBool true), PLit (VInt 1))] (Some (PParam n))] (PQValues [[]])) = Ok [[VInt 1]].
Check C41_nonvacuous :
  let t := [[VInt 1]; [VInt 2]; [VInt 3]; [VNull]] in
  let q := PQLimit (LConst 0) (Some (LParam 3))
             (PQSort [(PCol 0 0, (false, false))]
                (PQProject [PArith AAdd (PCol 0 0) (PParam 1)]
                   (PQFilter (PInSub false (PCol 0 0)
                                (PQProject [PCol 0 0] (PQFilter (PCmp CGe (PCol 0 0) (PParam 2)) (PQTable 0))))
                      (PQTable 0)))) in
  let vs := [VInt 10; VInt 2; VInt 2] in
  exists q', subst_q (env_list vs) q = Ok q'
             /\ run_query [t] q' = Ok [[VInt 12]; [VInt 13]]
             /\ prun_query (env_list vs) [t] q = Ok [[VInt 12]; [VInt 13]]
             /\ c41_check (C41Case [t] q vs (Some [[VInt 12]; [VInt 13]])) = true
             /\ c41_check (C41Case [t] q vs (Some [[VInt 11]; [VInt 12]])) = false.
Print Assumptions C41_subst_lemma.
Print Assumptions C41_subst_lemma_expr.
Print Assumptions C41_subst_lemma_run.
Print Assumptions C41_subst_no_params_id.
Print Assumptions C41_peval_embed.
Print Assumptions C41_subst_only_bound_values_matter.
Print Assumptions C41_map_and_list_agree.
Print Assumptions C41_param_in_subquery.
Print Assumptions C41_param_in_scalar_and_exists.
Print Assumptions C41_param_in_limit.
Print Assumptions C41_unbound_param_fails_eagerly.
Print Assumptions C41_unbound_param_lazy_in_spec.
Print Assumptions C41_nonvacuous.
