(* C46 -- benchmark result validation accepts exactly the persisted results.
   Model: Model/BenchVerify.v (benchmarks/src/sql_benchmark.rs): compare_results, the '|'-delimited CSV
   writer used by SqlBenchmark::persist (csv-core quoting), the csv-core reader automaton and NULL
   convention used by read_query_from_file, SqlBenchmark::verify, and process_replacements_with_env.
   Texts are UTF-8 byte lists; a result cell of a Utf8 column is None (SQL NULL) or Some bytes. *)
From DF Require Import Base.Prelude Model.BenchVerify Proofs.BenchVerifyProofs.
Open Scope Z_scope.

(* ---- compare_results *)
(* Acceptance <=> same row count, same column count per row, and every compared cell pair
   (expected, actual) in the documented equivalence:  equal, or expected "NULL" with actual "",
   or expected "(empty)" with actual "" or "NULL". *)
Theorem C46_accept_iff_cellwise_equiv :
  forall cc act exp,
    compare_results cc act exp = Accept <->
    Forall2 (fun a e => length a = length e /\
                        Forall2 (fun ev av => ev = av \/ (ev = t_NULL /\ av = []) \/
                                              (ev = t_empty_marker /\ (av = [] \/ av = t_NULL)))
                                (firstn cc e) (firstn cc a)) act exp.
Proof. exact accept_iff_cellwise_equiv. Qed.

(* column_count = width of every expected row (all queries the benchmark parser and
   read_query_from_file build): every cell is compared *)
Theorem C46_accept_iff_all_cells_equiv :
  forall cc act exp,
    Forall (fun e => length e = cc) exp ->
    (compare_results cc act exp = Accept <-> Forall2 (fun a e => Forall2 cell_equiv e a) act exp).
Proof. exact accept_iff_all_cells_equiv. Qed.

(* Rejection <=> a difference exists: row count, or a row i with another width, or a compared cell
   (i, j) outside the equivalence. *)
Theorem C46_rejects_any_difference :
  forall cc act exp,
    compare_results cc act exp <> Accept <->
    (length act <> length exp
     \/ exists i a e, nth_error act i = Some a /\ nth_error exp i = Some e /\
          (length a <> length e
           \/ exists j ev av, (j < cc)%nat /\ nth_error e j = Some ev /\ nth_error a j = Some av /\
                              ~ cell_equiv ev av)).
Proof. exact rejects_any_difference. Qed.

(* The error reports the first difference (1-based row / column as in the message). *)
Theorem C46_verdict_is_first_difference :
  forall cc act exp,
    match compare_results cc act exp with
    | Accept => results_equiv cc act exp
    | RowCount x y => x = len exp /\ y = len act /\ length act <> length exp
    | ColCount x y =>
        exists i a e, nth_error act i = Some a /\ nth_error exp i = Some e /\ x = len e /\ y = len a /\
                      length a <> length e /\ results_equiv cc (firstn i act) (firstn i exp)
    | CellDiff r c =>
        exists i j a e ev av, r = 1 + Z.of_nat i /\ c = 1 + Z.of_nat j /\ (j < cc)%nat /\
          nth_error act i = Some a /\ nth_error exp i = Some e /\ length a = length e /\
          nth_error e j = Some ev /\ nth_error a j = Some av /\ ~ cell_equiv ev av /\
          results_equiv cc (firstn i act) (firstn i exp) /\ Forall2 cell_equiv (firstn j e) (firstn j a)
    | ReadError => False
    end.
Proof. exact verdict_is_first_difference. Qed.

(* the equivalence: reflexive, transitive, not symmetric (expected "NULL" accepts actual "", not conversely) *)
Theorem C46_cell_equiv_refl : forall c, cell_equiv c c.
Proof. exact cell_equiv_refl. Qed.
Theorem C46_cell_equiv_transitive : forall a b c, cell_equiv a b -> cell_equiv b c -> cell_equiv a c.
Proof. exact cell_equiv_transitive. Qed.
Theorem C46_cell_equiv_not_symmetric : exists e a, cell_equiv e a /\ ~ cell_equiv a e.
Proof. exact cell_equiv_not_symmetric. Qed.

(* ---- persist / verify *)
(* The reader gives back exactly the written fields, whatever bytes the cells contain (delimiters,
   quotes, CR, LF, tabs, non-ASCII): no side condition on the cells. *)
Theorem C46_csv_roundtrip :
  forall hdr rows,
    hdr <> [] -> Forall (fun r => r <> []) rows ->
    csv_records (persist hdr rows) = hdr :: map (map cell_field) rows.
Proof. exact csv_roundtrip. Qed.

(* verify accepts the result it persisted: every table with >= 1 column, rows of the header's width. *)
Theorem C46_accepts_own_persisted :
  forall hdr rows,
    hdr <> [] -> Forall (fun r => length r = length hdr) rows ->
    verify (persist hdr rows) rows = Accept.
Proof. exact accepts_own_persisted. Qed.

(* ... and accepts another result exactly when it has the persisted shape and every cell is equivalent
   to what the persisted cell stands for (NULL and "" both persist as the empty field = expected "NULL"). *)
Theorem C46_verify_persisted_accept_iff :
  forall hdr rows actual,
    hdr <> [] -> Forall (fun r => length r = length hdr) rows ->
    (verify (persist hdr rows) actual = Accept <->
     Forall2 (fun a p => Forall2 (fun pc ac => cell_equiv (expected_cell pc) (fmt_cell ac)) p a) actual rows).
Proof. exact verify_persisted_accept_iff. Qed.

(* ---- placeholders: ${k}, ${k:-d}, ${k|t|f}, ${k:-d|t|f} *)
(* explicit map value (key lower-cased) beats the environment (key upper-cased) beats the default;
   nothing found and no default is an error naming the key *)
Theorem C46_placeholder_precedence :
  forall m env pre post k d,
    no_dollar pre = true -> no_dollar post = true -> is_key k = true -> plain_arg d = true ->
    process m env (pre ++ ph_var_d k d ++ post) =
      Ok (pre ++ (match lookup (map lower k) m with
                  | Some v => v
                  | None => match lookup (map upper k) env with
                            | Some v => v
                            | None => d
                            end
                  end) ++ post)
    /\
    process m env (pre ++ ph_var k ++ post) =
      match lookup (map lower k) m with
      | Some v => Ok (pre ++ v ++ post)
      | None => match lookup (map upper k) env with
                | Some v => Ok (pre ++ v ++ post)
                | None => MissingKey k
                end
      end.
Proof. exact placeholder_precedence. Qed.

(* the true/false form selects a branch by the value found with the same precedence *)
Theorem C46_true_false_branch :
  forall m env pre post k d t f,
    no_dollar pre = true -> no_dollar post = true -> is_key k = true -> plain_opt d = true ->
    plain_arg t = true -> plain_arg f = true ->
    process m env (pre ++ ph_tf_gen k d t f ++ post) =
    match resolve m env k d with
    | Some v => Ok (pre ++ (if is_true v then t else f) ++ post)
    | None => MissingKey k
    end.
Proof. exact process_true_false. Qed.

Theorem C46_text_without_placeholder_unchanged :
  forall m env t, no_dollar t = true -> process m env t = Ok t.
Proof. exact process_no_dollar. Qed.

(* a substituted value is not scanned again; a variable in the chosen true/false branch is resolved
   (unit test process_replacements_resolves_variables_after_true_false_replacement) *)
Theorem C46_value_not_rescanned :
  forall m env k v, is_key k = true -> resolve m env k None = Some v -> process m env (ph_var k) = Ok v.
Proof. exact value_not_rescanned. Qed.

Theorem C46_true_branch_rescanned :
  forall m env k a f v,
    is_key k = true -> is_key a = true -> plain_arg f = true ->
    resolve m env k None = Some v -> is_true v = true ->
    process m env (ph_tf k (ph_var a) f) =
    match resolve m env a None with
    | Some w => Ok w
    | None => MissingKey a
    end.
Proof. exact true_branch_rescanned. Qed.

(* ---- non-vacuity: a table with NULL, "", a delimiter, a quote and a line break; a placeholder text *)
Definition nv_hdr : list text := [[99; 48]; [99; 49]].
Definition nv_rows : list (list cell) :=
  [[None; Some []]; [Some [97; 124; 98]; Some [34; 10]]; [Some t_NULL; Some [233]]].

Example C46_nonvacuous :
  nv_hdr <> [] /\ Forall (fun r => length r = length nv_hdr) nv_rows /\
  persist nv_hdr nv_rows =
    [99; 48; 124; 99; 49; 10;  124; 10;  34; 97; 124; 98; 34; 124; 34; 34; 34; 10; 34; 10;
     78; 85; 76; 76; 124; 233; 10] /\
  verify (persist nv_hdr nv_rows) nv_rows = Accept /\
  verify (persist nv_hdr nv_rows) [[None; Some []]; [Some [97; 124; 98]; Some [34; 10]]; [Some t_NULL; Some [234]]]
    = CellDiff 3 2 /\
  verify (persist nv_hdr nv_rows) [[Some []; None]; [Some [97; 124; 98]; Some [34; 10]]; [None; Some [233]]]
    = Accept /\
  (* "sf${SIZE:-1}" with map size -> "10", env SIZE -> "100" *)
  process [([115; 105; 122; 101], [49; 48])] [([83; 73; 90; 69], [49; 48; 48])]
          ([115; 102] ++ ph_var_d [83; 73; 90; 69] [49] ++ []) = Ok [115; 102; 49; 48] /\
  process [] [([83; 73; 90; 69], [49; 48; 48])] ([115; 102] ++ ph_var_d [83; 73; 90; 69] [49] ++ []) = Ok [115; 102; 49; 48; 48] /\
  process [] [] ([115; 102] ++ ph_var_d [83; 73; 90; 69] [49] ++ []) = Ok [115; 102; 49] /\
  process [] [] ([115; 102] ++ ph_var [83; 73; 90; 69] ++ []) = MissingKey [83; 73; 90; 69].
Proof.
  split. discriminate. split. repeat constructor.
  repeat split; vm_compute; reflexivity.
Qed.
