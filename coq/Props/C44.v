(* C44 -- files whose physical schema differs from the table schema are read faithfully into the table
   schema, and filters rewritten against the file schema select the same rows as filtering the adapted rows.
   Flat schemas over {Int32,Int64} / {Utf8,LargeUtf8} / {Boolean}; struct columns, other types and the
   parquet reader are covered by the differential oracle of the harness only. *)
From DF Require Import Base.Prelude Model.SchemaAdapt Proofs.SchemaAdaptProofs.
Open Scope Z_scope.

(* Every table column of the adapted row is the value of the same-named file column (unchanged if the
   types agree, cast otherwise) or NULL when the file has no such column (which must then be nullable). *)
Theorem C44_adapt_by_name :
  forall tbl file r r' i tf,
    adapt_row tbl file r = Some r' -> nth_error tbl i = Some tf ->
    match find_field (fname tf) file with
    | None => fnullable tf = true /\ nth_error r' i = Some VNull
    | Some (j, pf) =>
        exists v w, nth_error r j = Some v /\ nth_error r' i = Some w /\
          (if ty_eqb (fty pf) (fty tf) then w = v else cast_value (fty tf) v = Some w)
    end.
Proof. exact adapt_by_name. Qed.

(* A non-nullable table column missing from the file: no row can be adapted (the implementation refuses
   the schema pair). *)
Theorem C44_unadaptable_fails :
  forall tbl file r, adaptable tbl file = false -> adapt_row tbl file r = None.
Proof. exact unadaptable_fails. Qed.

Theorem C44_missing_column_is_null :
  forall tbl file r r' i tf,
    adapt_row tbl file r = Some r' -> nth_error tbl i = Some tf ->
    find_field (fname tf) file = None -> nth_error r' i = Some VNull.
Proof. exact missing_column_is_null. Qed.

(* The code's batch adapter (projection of the rewritten identity columns) computes
   exactly the by-name specification, errors included. *)
Theorem C44_batch_adapter_eq_spec :
  forall tbl file r,
    NoDup (map fname tbl) -> row_typed file r = true ->
    batch_adapter_row tbl file r = adapt_row tbl file r.
Proof. exact batch_adapter_eq_spec. Qed.

(* Any expression over the table schema, rewritten by the adapter and evaluated on the file row, gives
   what the original expression gives on the adapted row (value, NULL or error alike). *)
Theorem C44_rewrite_commutes :
  forall tbl file e e' r r',
    wf_expr tbl e = true -> rewrite tbl file e = Some e' ->
    row_typed file r = true -> adapt_row tbl file r = Some r' ->
    eval e' r = eval e r'.
Proof. exact rewrite_commutes. Qed.

Theorem C44_filter_commutes :
  forall tbl file p p' r r',
    wf_expr tbl p = true -> rewrite tbl file p = Some p' ->
    row_typed file r = true -> adapt_row tbl file r = Some r' ->
    selects p' r = selects p r'.
Proof. exact filter_commutes. Qed.

(* Filtering the file rows with the rewritten predicate and then adapting = adapting and then filtering. *)
Theorem C44_pushdown_equals_postfilter :
  forall tbl file p p' rows rows',
    wf_expr tbl p = true -> rewrite tbl file p = Some p' ->
    forallb (row_typed file) rows = true ->
    adapt_batch tbl file rows = Some rows' ->
    adapt_batch tbl file (filter (selects p') rows) = Some (filter (selects p) rows').
Proof. exact pushdown_equals_postfilter. Qed.

Theorem C44_adapt_projection_commutes :
  forall tbl file es es' r r',
    forallb (wf_expr tbl) es = true -> mapM (rewrite tbl file) es = Some es' ->
    row_typed file r = true -> adapt_row tbl file r = Some r' ->
    mapM (fun e' => eval e' r) es' = mapM (fun e => eval e r') es.
Proof. exact adapt_projection_commutes. Qed.

Theorem C44_adapt_idempotent_same_schema :
  forall s r, NoDup (map fname s) -> row_typed s r = true -> adapt_row s s r = Some r.
Proof. exact adapt_idempotent_same_schema. Qed.

(* Non-vacuity: table (a:Int64?, b:Utf8?, c:Bool?) read from a file (x:Int32, b:LargeUtf8?, a:Int32?):
   reordered, widened, one column missing, one extra.  The predicate  a < 4294967301 OR c IS NULL  is
   rewritten to  CAST(a@2 AS Int64) < 4294967301 OR NULL IS NULL, hypotheses hold, and it selects. *)
Definition nv_tbl : schema := [mkField [97] TInt64 true; mkField [98] TUtf8 true; mkField [99] TBool true].
Definition nv_file : schema := [mkField [120] TInt32 false; mkField [98] TLargeUtf8 true; mkField [97] TInt32 true].
Definition nv_p : expr := EOr (ECmp OLt (ECol [97] 0%nat) (ELit (VI64 4294967301))) (EIsNull (ECol [99] 2%nat)).
Definition nv_p2 : expr := ECmp OEq (ECol [98] 1%nat) (ELit (VUtf8 [97])).
Definition nv_row : row := [VI32 1; VLUtf8 [97]; VI32 2147483647].

Example C44_nonvacuous :
  wf_expr nv_tbl nv_p = true /\ row_typed nv_file nv_row = true /\ NoDup (map fname nv_tbl) /\
  rewrite nv_tbl nv_file nv_p =
    Some (EOr (ECmp OLt (ECast (ECol [97] 2%nat) TInt64) (ELit (VI64 4294967301))) (EIsNull (ELit VNull))) /\
  adapt_row nv_tbl nv_file nv_row = Some [VI64 2147483647; VUtf8 [97]; VNull] /\
  selects nv_p [VI64 2147483647; VUtf8 [97]; VNull] = true /\
  wf_expr nv_tbl nv_p2 = true /\
  rewrite nv_tbl nv_file nv_p2 = Some (ECmp OEq (ECast (ECol [98] 1%nat) TUtf8) (ELit (VUtf8 [97]))) /\
  selects nv_p2 [VI64 2147483647; VUtf8 [97]; VNull] = true /\
  (* a narrowing cast that overflows makes the adaptation fail *)
  adapt_row [mkField [97] TInt32 true] [mkField [97] TInt64 true] [VI64 5000000000] = None.
Proof.
  repeat split; try (vm_compute; reflexivity).
  cbn. repeat constructor; cbn; intuition discriminate.
Qed.
