From DF Require Import Base.Prelude Model.SpillPool Model.SpillPoolFine Proofs.SpillPoolProofs Props.C16.
From Coq Require Import Permutation.
Open Scope Z_scope.
Check C16_spsc_fifo_calls :
  forall thr ops p outs, run true thr (init 1) ops = Some (p, outs) ->
    yielded p ++ remaining p = durable ops /\
    (forall io p', do_poll io p = (PEof, p') -> yielded p' = durable ops /\ wcount p = 0%nat /\ count_drops ops = 1%nat).
Check C16_mpsc_multiset_calls :
  forall nw thr ops p outs, run true thr (init nw) ops = Some (p, outs) ->
    (forall b, (count_occ Z.eq_dec (yielded p) b <= count_occ Z.eq_dec (durable ops) b)%nat) /\
    (forall io p', do_poll io p = (PEof, p') -> Permutation (yielded p') (durable ops)).
Check C16_call_order_any_writers :
  forall nw thr ops p outs, run true thr (init nw) ops = Some (p, outs) -> yielded p ++ remaining p = durable ops.
Check C16_ok_push_is_durable :
  forall nw thr ops p outs, run true thr (init nw) ops = Some (p, outs) ->
    forall b, In b (ok_pushes ops outs) -> In b (durable ops) /\ In b (attempted ops).
Check C16_no_lost_wakeup_calls :
  forall nw thr ops p outs, run true thr (init nw) ops = Some (p, outs) ->
    (forall io, parked p = true -> fst (do_poll io p) = PPending) /\
    (wcount p = 0%nat -> parked p = false).
Check C16_eof_only_after_all_calls :
  forall nw thr ops p outs, run true thr (init nw) ops = Some (p, outs) ->
    forall io p', do_poll io p = (PEof, p') ->
      wcount p = 0%nat /\ count_drops ops = nw /\ yielded p' = durable ops /\
      queue_empty p' = true /\ all_finished p' = true /\
      (forall b, In b (ok_pushes ops outs) -> In b (yielded p')).
Check C16_failed_push_no_hang_calls :
  forall nw thr ops p outs, run true thr (init nw) ops = Some (p, outs) -> wcount p = 0%nat ->
    exists p', poll_many (S (length (remaining p))) p = (map PBatch (remaining p) ++ [PEof], p') /\
               yielded p' = durable ops /\ queue_empty p' = true.
Check C16_upstream_hang_refuted :
  exists p outs, run false (2 ^ 40) (init 1) hang_ops = Some (p, outs) /\
    wcount p = 0%nat /\ In 3 (ok_pushes hang_ops outs) /\ yielded p = [1] /\ parked p = true /\
    forall n, poll_many n p = (repeat PPending n, p).
Check C16_mpsc_per_writer_order_not_guaranteed :
  exists sched, let st := frun true (2 ^ 40) sched (finit order_progs) in
    got_eof st = true /\ yielded (fpool st) = [3; 2; 1] /\ enabled st = [].
Print Assumptions C16_spsc_fifo_calls.
Print Assumptions C16_mpsc_multiset_calls.
Print Assumptions C16_call_order_any_writers.
Print Assumptions C16_ok_push_is_durable.
Print Assumptions C16_no_lost_wakeup_calls.
Print Assumptions C16_eof_only_after_all_calls.
Print Assumptions C16_failed_push_no_hang_calls.
Print Assumptions C16_upstream_hang_refuted.
Print Assumptions C16_mpsc_per_writer_order_not_guaranteed.
Print Assumptions C16_nonvacuous.
