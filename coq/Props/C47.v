(* C47 -- Mixed-type comparisons are order-independent and exact for integers.
   Property theorems only.  Model: Model/NumCoerce.v (comparison_coercion on the numeric type
   universe, the Arrow cast kernels, evaluation of `l op r` = compare after casting both sides to
   the coerced type); proofs: Proofs/NumCoerceProofs.v. *)
From Coq Require Import ZArith Bool List.
From DF Require Import Base.Prelude Model.NumCoerce Proofs.NumCoerceProofs.
Open Scope Z_scope.

(* (1) The coerced type does not depend on the operand order -- for ALL pairs of the modelled
   universe: Null, Int8..Int64, UInt8..UInt64, Float16/32/64 and Decimal{32,64,128,256}(p, s) for
   every p and s (no range restriction on p, s at all). *)
Theorem C47_coercion_symmetric :
  forall a b : nty, comparison_coercion a b = comparison_coercion b a.
Proof. exact comparison_coercion_sym. Qed.

(* ... and the overflow-checks build panics for (a, b) exactly when it panics for (b, a). *)
Theorem C47_coercion_panic_symmetric :
  forall a b : nty, comparison_ovf a b = comparison_ovf b a.
Proof. exact comparison_ovf_sym. Qed.

(* (2) Integers: for every pair of integer types (signed/unsigned, all widths) and all in-range
   values, each of the six comparison operators evaluated through the coerced type returns exactly
   the comparison of the two mathematical integers: no plan error, no cast error, no wrap-around
   (UInt64 vs a signed type goes through Decimal128(20, 0)). *)
Theorem C47_int_cmp_exact :
  forall (a b : ity) (x y : Z) (op : cmpop),
    in_irange a x = true -> in_irange b y = true ->
    eval_cmp op (TInt a) x (TInt b) y = EOk (zcmp op x y).
Proof. exact int_cmp_exact. Qed.

(* the reason: the coerced type represents every value of both operand types unchanged *)
Theorem C47_int_common_type_contains_both :
  forall (a b : ity) (x y : Z),
    in_irange a x = true -> in_irange b y = true ->
    exists t, comparison_coercion (TInt a) (TInt b) = Some t /\ exact_ty t = true /\
              cast_val (TInt a) t x = COk x /\ cast_val (TInt b) t y = COk y.
Proof. exact int_common_type_contains_both. Qed.

(* no arithmetic-overflow panic on the integer path in either build flavour *)
Theorem C47_int_cmp_never_panics :
  forall a b : ity, eval_ovf (TInt a) (TInt b) = false.
Proof. exact int_cmp_never_panics. Qed.

(* (3) Swapping the operands and mirroring the operator gives the same outcome (same truth value,
   or the same kind of error) -- for all modelled types and all values. *)
Theorem C47_swap_mirror :
  forall (op : cmpop) (ta : nty) (x : Z) (tb : nty) (y : Z),
    eval_cmp op ta x tb y = eval_cmp (mirror op) tb y ta x.
Proof. exact eval_cmp_swap_mirror. Qed.

(* IN list over mixed integer types agrees with pairwise equality *)
Theorem C47_int_inlist_exact :
  forall (a b : ity) (x : Z) (ys : list Z),
    in_irange a x = true -> Forall (fun y => in_irange b y = true) ys ->
    eval_inlist (TInt a) x (TInt b) ys = EOk (existsb (Z.eqb x) ys).
Proof. exact int_inlist_exact. Qed.

(* Decimals (and integer-vs-decimal): WHEN the operands are coerced to a decimal type and no i8
   overflow happens inside the coercion/cast arithmetic, a comparison that evaluates without error
   returns the comparison of the two rationals x/10^sa and y/10^sb -- exact or an error, never a
   wrong answer.  (ty_ok: integer type, or decimal with 1 <= p <= max, 0 <= s <= p;
   val_ok: in range / |unscaled| <= 10^p - 1; spec_cmp compares x*10^sb with y*10^sa.) *)
Theorem C47_decimal_cmp_exact_or_error :
  forall (ta tb : nty) (x y : Z) (op : cmpop) (t : nty) (r : bool),
    ty_ok ta = true -> ty_ok tb = true -> val_ok ta x = true -> val_ok tb y = true ->
    comparison_coercion ta tb = Some t -> is_decimal t = true ->
    eval_ovf ta tb = false ->
    eval_cmp op ta x tb y = EOk r ->
    r = spec_cmp op ta x tb y.
Proof. exact dec_cmp_exact_or_error. Qed.

(* ... and that overflow cannot happen unless an operand is a Decimal256 *)
Theorem C47_no_overflow_below_decimal256 :
  forall ta tb : nty,
    ty_ok ta = true -> ty_ok tb = true -> not256 ta = true -> not256 tb = true ->
    eval_ovf ta tb = false.
Proof. exact no_ovf_below_256. Qed.

(* REFUTED (1): the two side conditions above are necessary -- the faithful model gives WRONG
   answers when a decimal is compared with an integer type that its variant is too narrow for
   (Decimal32 vs Int32/Int64/UInt32/UInt64, Decimal64 vs Int64/UInt64): decimal_coercion returns
   None, numerical_coercion's integer arm matches, the decimal operand is cast to the integer type
   (truncation).  Witness: Decimal32(5,2) 1.50 = Int32 1 evaluates to true. *)
Theorem C47_decimal_vs_integer_refuted :
  exists (ta tb : nty) (x y : Z) (op : cmpop) (r : bool),
    ty_ok ta = true /\ ty_ok tb = true /\ val_ok ta x = true /\ val_ok tb y = true /\
    eval_ovf ta tb = false /\
    comparison_coercion ta tb = Some (TInt I32) /\
    eval_cmp op ta x tb y = EOk r /\ r <> spec_cmp op ta x tb y.
Proof.
  exists (TDec D32 5 2), (TInt I32), 150, 1, OEq, true. vm_compute. repeat split; discriminate.
Qed.

(* REFUTED (2), wrapping (release) arithmetic only: Decimal256(76,0) vs Decimal256(76,s>=52).
   arrow-cast's make_upscaler computes `(input_precision as i8) + delta_scale` = 76+76 in i8, which
   wraps negative, so the cast is taken to be infallible and multiplies with mul_wrapping and no
   precision check.  Witness: 6 < 0.5 evaluates to true.  (An overflow-checks build panics instead:
   eval_ovf = true.) *)
Theorem C47_decimal256_wrap_refuted :
  exists (ta tb : nty) (x y : Z) (op : cmpop) (r : bool),
    ty_ok ta = true /\ ty_ok tb = true /\ val_ok ta x = true /\ val_ok tb y = true /\
    eval_ovf ta tb = true /\
    comparison_coercion ta tb = Some (TDec D256 76 76) /\
    eval_cmp op ta x tb y = EOk r /\ r <> spec_cmp op ta x tb y.
Proof.
  exists (TDec D256 76 0), (TDec D256 76 76), 6, (5 * 10 ^ 75), OLt, true.
  vm_compute. repeat split; discriminate.
Qed.

(* non-vacuity: the hypotheses are satisfiable on the interesting instances *)
Example C47_nonvacuous :
  in_irange U64 18446744073709551615 = true /\ in_irange I64 (-1) = true /\
  comparison_coercion (TInt U64) (TInt I64) = Some (TDec D128 20 0) /\
  eval_cmp OLt (TInt U64) 18446744073709551615 (TInt I64) (-1) = EOk false /\
  eval_cmp OGt (TInt I64) (-1) (TInt U64) 18446744073709551615 = EOk false /\
  eval_cmp OEq (TInt I8) (-1) (TInt U8) 255 = EOk false /\
  eval_cmp OLe (TInt U32) 4294967295 (TInt I32) (-2147483648) = EOk false /\
  (* decimal theorem: hypotheses hold on a non-trivial instance, 1.50 (Decimal128(10,2)) vs Int64 1 *)
  ty_ok (TDec D128 10 2) = true /\ val_ok (TDec D128 10 2) 150 = true /\
  comparison_coercion (TDec D128 10 2) (TInt I64) = Some (TDec D128 22 2) /\
  eval_ovf (TDec D128 10 2) (TInt I64) = false /\
  eval_cmp OGt (TDec D128 10 2) 150 (TInt I64) 1 = EOk true.
Proof. vm_compute. repeat split. Qed.
