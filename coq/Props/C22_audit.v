From DF Require Import Base.Prelude Model.Pruning Proofs.PruningProofs Props.C22.
Open Scope Z_scope.
Check C22_prune_sound :
  forall p rows st, valid_stats rows st -> prune st p = false ->
    forall r, In r rows -> eval r p <> Some true.
Check C22_rewrite_sound :
  forall p rows st r, valid_stats rows st -> In r rows ->
    eval r p = Some true -> seval st (rewrite p) <> Some false.
Check C22_in_list_is_chain :
  forall c ls neg, (1 <= length ls <= MAX_IN_LIST_SIZE)%nat ->
    exists q, in_chain c ls neg = Some q /\ rw_in c ls neg = rewrite q.
Check C22_in_chain_covers :
  forall r c ls neg q, in_chain c ls neg = Some q ->
    eval r (PIn c ls neg) = Some true -> eval r q = Some true.
Check C22_folding_exact :
  forall st l r, seval st (mk_and l r) = and3 (seval st l) (seval st r) /\
                 seval st (mk_or l r) = or3 (seval st l) (seval st r).
Check C22_validity_check_sound :
  forall rows st, valid_statsb rows st = true -> valid_stats rows st.
Check C22_unknown_stats_valid : forall rows, valid_stats rows no_stats.
Print Assumptions C22_prune_sound.
Print Assumptions C22_rewrite_sound.
Print Assumptions C22_in_list_is_chain.
Print Assumptions C22_in_chain_covers.
Print Assumptions C22_folding_exact.
Print Assumptions C22_validity_check_sound.
Print Assumptions C22_unknown_stats_valid.
Print Assumptions C22_nonvacuous.
