(* C38 -- SQL generated from an expression means the same as the expression (expression half of the property: the text of
   Unparser::expr_to_sql re-read by sqlparser's precedence-climbing parser; plan-level unparsing is tied by differential
   execution only).  Tables: Gen/OperatorPrec.v, regenerated from operator.rs / unparser/expr.rs / sqlparser on every run. *)
From Coq Require Import NArith List Bool.
From DF Require Import Base.Prelude Gen.OperatorPrec Model.Unparse Proofs.UnparseProofs.
Import ListNotations.
Open Scope N_scope.

(* For EVERY precedence table (token precedences, right-operand levels, prefix levels): the parser reads the printed form of a
   syntax tree back as exactly that tree whenever the tree passes the decidable well-formedness test wf_top (each operand binds
   tighter than the level it is parsed at, and no inner loop would swallow the token that follows it). *)
Theorem C38_parser_inverts_display :
  forall (T : ptab) (a : ast), wf_top T a = true -> parse T (show a) = Some a.
Proof. exact parse_show_wf. Qed.

(* Removing parentheses (the planner; the pretty unparser's remove_unnecessary_nesting) never changes the tree that is meant. *)
Theorem C38_unparse_means_the_expression :
  forall pretty e, strip (unparse pretty e) = e.
Proof. exact strip_unparse. Qed.

(* Hence: unparse (default or pretty), print, parse with sqlparser's generic-dialect tables, plan again = the original expression,
   for every expression whose unparsed form passes the test. *)
Theorem C38_roundtrip_when_wf :
  forall pretty e, wf_top sq_tab (unparse pretty e) = true -> reparse pretty e = Some e.
Proof. exact roundtrip_when_wf. Qed.

(* The default unparser on expressions built from atoms and binary operators only (all 40 operators whose token the generic
   dialect reads back, IS [NOT] DISTINCT FROM included), of any shape and depth: always round-trips -- and this does not depend on
   the numbers in any precedence table, only on the operator tokens having a positive precedence. *)
Theorem C38_default_binary_roundtrip_any_table :
  forall (T : ptab) e, bin_pos T e = true -> option_map strip (parse T (show (unparse false e))) = Some e.
Proof. exact default_binary_any_table. Qed.

Theorem C38_default_binary_roundtrip :
  forall e, binary_only e = true -> reparse false e = Some e.
Proof. exact default_binary_roundtrip. Qed.

(* The candidate repair -- wrap NOT, unary minus, IS ..., [NOT] LIKE and [NOT] IN in parentheses like binary expressions are --
   round-trips EVERY expression of the fragment, for every precedence table that knows the operators, and never prints `--`. *)
Theorem C38_parenthesise_everything_roundtrips :
  forall (T : ptab) e, ops_pos T e = true ->
    option_map strip (parse T (show (to_ast_paren e))) = Some e /\ hazard (to_ast_paren e) = false.
Proof. exact paren_roundtrip. Qed.

(* ---- where the faithful model VIOLATES the property (each witness is replayed on the implementation by the harness) *)
(* default unparser: NOT / IS ... / IN / LIKE are emitted without parentheses *)
Theorem C38_default_not_operand_refuted :      (* (NOT b0) IS NULL  ->  NOT b0 IS NULL  =  NOT (b0 IS NULL) *)
  exists e e', reparse false e = Some e' /\ expr_eqb e' e = false /\
    e = EIs PIsNull (ENot (EAtom 3)) /\ e' = ENot (EIs PIsNull (EAtom 3)).
Proof. eexists; eexists; repeat split; vm_compute; reflexivity. Qed.

Theorem C38_default_is_operand_refuted :       (* b0 = (b1 IS NULL)  ->  (b0 = b1 IS NULL)  =  (b0 = b1) IS NULL *)
  exists e e', reparse false e = Some e' /\ expr_eqb e' e = false /\
    e = EBin OpEq (EAtom 3) (EIs PIsNull (EAtom 4)) /\ e' = EIs PIsNull (EBin OpEq (EAtom 3) (EAtom 4)).
Proof. eexists; eexists; repeat split; vm_compute; reflexivity. Qed.

Theorem C38_default_in_operand_refuted :       (* b0 = (b1 IN (true, false))  ->  (b0 = b1) IN (true, false) *)
  exists e e', reparse false e = Some e' /\ expr_eqb e' e = false /\
    e = EBin OpEq (EAtom 3) (EIn false (EAtom 4) [40; 41]) /\ e' = EIn false (EBin OpEq (EAtom 3) (EAtom 4)) [40; 41].
Proof. eexists; eexists; repeat split; vm_compute; reflexivity. Qed.

Theorem C38_default_like_operand_refuted :     (* (s0 LIKE s1) = b0  ->  (s0 LIKE s1 = b0)  =  s0 LIKE (s1 = b0) *)
  exists e e', reparse false e = Some e' /\ expr_eqb e' e = false /\
    e = EBin OpEq (ELike LLike (EAtom 6) (EAtom 7)) (EAtom 3) /\ e' = ELike LLike (EAtom 6) (EBin OpEq (EAtom 7) (EAtom 3)).
Proof. eexists; eexists; repeat split; vm_compute; reflexivity. Qed.

Theorem C38_default_double_minus_refuted :     (* - (- i0) is printed `--i0`: a comment *)
  hazard (unparse false (ENeg (ENeg (EAtom 0)))) = true.
Proof. vm_compute. reflexivity. Qed.

(* pretty unparser: the parentheses it drops *)
Theorem C38_pretty_same_precedence_right_refuted :   (* i0 * (i1 / i2)  ->  i0 * i1 / i2  =  (i0 * i1) / i2 *)
  exists e e', binary_only e = true /\ reparse true e = Some e' /\ expr_eqb e' e = false /\
    e = EBin OpMultiply (EAtom 0) (EBin OpDivide (EAtom 1) (EAtom 2)) /\ e' = EBin OpDivide (EBin OpMultiply (EAtom 0) (EAtom 1)) (EAtom 2).
Proof. eexists; eexists; repeat split; vm_compute; reflexivity. Qed.

Theorem C38_pretty_bitwise_table_refuted :           (* (i0 | i1) & i2  ->  i0 | i1 & i2  =  i0 | (i1 & i2) *)
  exists e e', binary_only e = true /\ reparse true e = Some e' /\ expr_eqb e' e = false /\
    e = EBin OpBitwiseAnd (EBin OpBitwiseOr (EAtom 0) (EAtom 1)) (EAtom 2) /\ e' = EBin OpBitwiseOr (EAtom 0) (EBin OpBitwiseAnd (EAtom 1) (EAtom 2)).
Proof. eexists; eexists; repeat split; vm_compute; reflexivity. Qed.

Theorem C38_pretty_comparison_table_refuted :        (* b0 = (i0 < i1)  ->  b0 = i0 < i1  =  (b0 = i0) < i1 *)
  exists e e', binary_only e = true /\ reparse true e = Some e' /\ expr_eqb e' e = false /\
    e = EBin OpEq (EAtom 3) (EBin OpLt (EAtom 0) (EAtom 1)) /\ e' = EBin OpLt (EBin OpEq (EAtom 3) (EAtom 0)) (EAtom 1).
Proof. eexists; eexists; repeat split; vm_compute; reflexivity. Qed.

Theorem C38_pretty_concat_table_refuted :            (* s0 || (i0 + i1)  ->  s0 || i0 + i1  =  (s0 || i0) + i1 *)
  exists e e', binary_only e = true /\ reparse true e = Some e' /\ expr_eqb e' e = false /\
    e = EBin OpStringConcat (EAtom 6) (EBin OpPlus (EAtom 0) (EAtom 1)) /\ e' = EBin OpPlus (EBin OpStringConcat (EAtom 6) (EAtom 0)) (EAtom 1).
Proof. eexists; eexists; repeat split; vm_compute; reflexivity. Qed.

(* the side conditions "unparser table and parser table agree on this (parent, child, side)" discharged by computation over the
   generated tables: of the 42 x 42 pairs of readable operators, the pretty unparser's text re-associates 580 pairs with the child
   on the right and 301 with the child on the left; the default unparser none *)
Theorem C38_pair_table :
  length readable_ops = 42%nat /\
  length (bad_pairs true true) = 580%nat /\ length (bad_pairs true false) = 301%nat /\
  bad_pairs false true = [] /\ bad_pairs false false = [].
Proof. vm_compute. repeat split; reflexivity. Qed.

(* the hypotheses are satisfiable on non-trivial instances: (i0 = i1 AND NOT i2 IS NULL) AND s0 LIKE s1 || 'a' passes the test
   (NOT, IS NULL and LIKE unparenthesised where the parser's table allows it), and a deep binary expression is binary_only *)
Example C38_nonvacuous_wf :
  let e := EBin OpAnd (EBin OpAnd (EBin OpEq (EAtom 0) (EAtom 1)) (ENot (EIs PIsNull (EAtom 2))))
                      (ELike LLike (EAtom 6) (EBin OpStringConcat (EAtom 7) (EAtom 30))) in
  wf_top sq_tab (unparse false e) = true /\ wf_top sq_tab (unparse true e) = true /\
  show (unparse true e) = [TAtom 0; TInfix (IOp OpEq); TAtom 1; TInfix (IOp OpAnd); TNot; TAtom 2; TPost PIsNull; TInfix (IOp OpAnd);
                           TAtom 6; TInfix (ILike LLike); TLP; TAtom 7; TInfix (IOp OpStringConcat); TAtom 30; TRP].
Proof. vm_compute. repeat split; reflexivity. Qed.

Example C38_nonvacuous_paren :     (* - (- i0) and (NOT b0) IS NULL are in the domain of the repair theorem for sqlparser's tables *)
  ops_pos sq_tab (EBin OpAnd (EIs PIsNull (ENot (EAtom 3))) (EBin OpLt (ENeg (ENeg (EAtom 0))) (EAtom 1))) = true.
Proof. vm_compute. reflexivity. Qed.

Example C38_nonvacuous_binary :
  binary_only (EBin OpMinus (EAtom 0) (EBin OpMinus (EBin OpIsDistinctFrom (EAtom 1) (EBin OpBitwiseOr (EAtom 2) (EAtom 0))) (EAtom 1))) = true.
Proof. vm_compute. reflexivity. Qed.
