From DF Require Import Base.Prelude Model.CatalogSM Proofs.CatalogSMProofs Props.C49.
From Coq Require Import String.
Open Scope Z_scope.
Check C49_ddl_outcome_by_state :
  forall st op, snd (step st op) = spec_outcome st op.
Check C49_failed_ddl_unchanged :
  forall st op, snd (step st op) <> Ok -> fst (step st op) = st.
Check C49_create_effect :
  forall st op r o ine orr,
  ddl_object op = Some (r, o, ine, orr) -> names_info op = false -> snd (step st op) = Ok ->
  let '(c, s, n) := resolve r in
  (table_lookup (fst (step st op)) c s n = Some o
   \/ (fst (step st op) = st /\ ine = true /\ orr = false /\ is_some (table_lookup st c s n) = true))
  /\ (forall c' s' n', (c', s', n') <> (c, s, n) -> table_lookup (fst (step st op)) c' s' n' = table_lookup st c' s' n').
Check C49_if_not_exists_noop :
  forall st,
  (forall op r o, ddl_object op = Some (r, o, true, false) -> names_info op = false ->
     let '(c, s, n) := resolve r in table_lookup st c s n <> None -> step st op = (st, Ok))
  /\ (forall r, names_info (CreateSchema r true) = false ->
     let '(c, s) := sresolve r in schema_lookup st c s <> None -> step st (CreateSchema r true) = (st, Ok))
  /\ (forall i, aget (norm i) st <> None -> step st (CreateCatalog i true) = (st, Ok)).
Check C49_if_exists_noop :
  forall st k r,
  names_info (drop_op k r true) = false -> has_kind st r k = false -> step st (drop_op k r true) = (st, Ok).
Check C49_or_replace_replaces :
  forall st op r o,
  ddl_object op = Some (r, o, false, true) -> names_info op = false ->
  let '(c, s, n) := resolve r in
  target_outcome st c s = Ok ->
  snd (step st op) = Ok
  /\ table_lookup (fst (step st op)) c s n = Some o
  /\ (forall c' s' n', (c', s', n') <> (c, s, n) -> table_lookup (fst (step st op)) c' s' n' = table_lookup st c' s' n').
Check C49_drop_then_absent :
  forall st k r ife,
  names_info (drop_op k r ife) = false -> snd (step st (drop_op k r ife)) = Ok ->
  let '(c, s, n) := resolve r in
  has_kind (fst (step st (drop_op k r ife))) r k = false
  /\ (has_kind st r k = true -> table_lookup (fst (step st (drop_op k r ife))) c s n = None)
  /\ (forall c' s' n', (c', s', n') <> (c, s, n) ->
        table_lookup (fst (step st (drop_op k r ife))) c' s' n' = table_lookup st c' s' n').
Check C49_create_drop_create :
  forall st op1 op2 r o1 o2,
  ddl_object op1 = Some (r, o1, false, false) -> ddl_object op2 = Some (r, o2, false, false) ->
  names_info op1 = false -> names_info op2 = false -> names_info (drop_op (okind o1) r false) = false ->
  let '(c, s, n) := resolve r in
  target_outcome st c s = Ok -> table_lookup st c s n = None ->
  let s1 := step st op1 in
  let s2 := step (fst s1) (drop_op (okind o1) r false) in
  let s3 := step (fst s2) op2 in
  snd s1 = Ok /\ snd s2 = Ok /\ snd s3 = Ok
  /\ table_lookup (fst s3) c s n = Some o2
  /\ (forall c' s' n', (c', s', n') <> (c, s, n) -> table_lookup (fst s3) c' s' n' = table_lookup st c' s' n').
Check C49_info_schema_lists_exactly :
  forall h c s n k,
  let st := run init_state h in
  In (c, s, n, k) (info_tables st) <->
  ((exists o, table_lookup st c s n = Some o /\ okind o = k) /\ s <> info_schema)
  \/ (catalog_exists st c /\ s = info_schema /\ In n info_table_names /\ k = KView).
Check C49_info_schema_details_exact :
  forall h,
  let st := run init_state h in
  (forall c s, In (c, s) (info_schemata st) <-> schema_exists st c s /\ s <> info_schema)
  /\ (forall c s n d, In (c, s, n, d) (info_views st) <-> (exists o, table_lookup st c s n = Some o /\ odef o = d) /\ s <> info_schema)
  /\ (forall c s n ci, In (c, s, n, ci) (info_columns st) <->
        (exists o, table_lookup st c s n = Some o /\ In ci (number_cols 0 (ocols o))) /\ s <> info_schema).
Check C49_wf_invariant :
  forall h, wf (run init_state h).
Check C49_info_views_lists_base_table_refuted :
  exists h c s n o, let st := run init_state h in
    In (c, s, n, None) (info_views st) /\ table_lookup st c s n = Some o /\ okind o = KTable.
Print Assumptions C49_ddl_outcome_by_state.
Print Assumptions C49_failed_ddl_unchanged.
Print Assumptions C49_create_effect.
Print Assumptions C49_if_not_exists_noop.
Print Assumptions C49_if_exists_noop.
Print Assumptions C49_or_replace_replaces.
Print Assumptions C49_drop_then_absent.
Print Assumptions C49_create_drop_create.
Print Assumptions C49_info_schema_lists_exactly.
Print Assumptions C49_info_schema_details_exact.
Print Assumptions C49_wf_invariant.
Print Assumptions C49_info_views_lists_base_table_refuted.
Print Assumptions C49_nonvacuous.
