(* generated from Props/C02.v: pins every property theorem's statement and prints its assumptions *)
From Coq Require Import List ZArith Bool Permutation Sorting.Sorted.
From DF Require Import Base.Prelude Model.RefSQL Proofs.RefSQLLaws Model.PhysDecomp
  Proofs.PhysDecompProofs Proofs.PhysDecompAgg Proofs.PhysDecompGroup Props.C02.
Import ListNotations.
Open Scope Z_scope.
Check @C02_hash_split_is_split :
  forall {A} (h : A -> nat) n (l : list A), n <> 0%nat -> is_split l (hash_split h n l).
Check @C02_round_robin_is_split :
  forall {A} n (l : list A), n <> 0%nat -> is_split l (round_robin n l).
Check @C02_chunks_is_split :
  forall {A} n (l : list A), concat (chunks n l) = l /\ is_split l (chunks n l).
Check @C02_batches_of_partitions_split :
  forall {A} (l : list A) parts (pb : list (list (list A))),
    is_split l parts -> Forall2 (fun p b => is_split p b) parts pb -> Permutation (flatten2 pb) l.
Check partitioning_invariance_filter :
  forall (p : row -> bool) (parts : list rel) R,
    is_split R parts -> Permutation (concat (map (filter p) parts)) (filter p R).
Check partitioning_invariance_filter_batches :
  forall (p : row -> bool) (pb : list (list rel)),
    flatten2 (map (map (filter p)) pb) = filter p (flatten2 pb).
Check partitioning_invariance_filter_errors :
  forall (p : row -> res tv) (parts : list rel),
    (ps <- filter_parts p parts;; Ok (concat ps)) = filter_m p (concat parts).
Check partitioning_invariance_filter_any_order :
  forall (p : row -> res tv) (parts : list rel) R R',
    is_split R parts -> filter_m p R = Ok R' ->
    exists ps, filter_parts p parts = Ok ps /\ Permutation (concat ps) R'.
Check partitioning_invariance_project :
  forall (f : row -> row) (parts : list rel) R,
    is_split R parts -> Permutation (concat (map (map f) parts)) (map f R).
Check partitioning_invariance_project_errors :
  forall (f : row -> res row) (parts : list rel),
    (ps <- project_parts f parts;; Ok (concat ps)) = mapM f (concat parts).
Check partitioning_invariance_aggregate_concat :
  forall fn parts, agg_dom fn (concat parts) -> agg_two_phase fn parts = agg_apply fn (concat parts).
Check C02_aggregate_order_independent :
  forall fn vs vs', Permutation vs vs' -> agg_dom fn vs -> agg_apply fn vs = agg_apply fn vs'.
Check partitioning_invariance_aggregate :
  forall fn parts vs, is_split vs parts -> agg_dom fn vs -> agg_two_phase fn parts = agg_apply fn vs.
Check C02_min_side_condition_necessary :
  is_split [VInt 2; VRat 2 1] [[VRat 2 1]; [VInt 2]] /\
  agg_two_phase FMin [[VRat 2 1]; [VInt 2]] = Ok (VRat 2 1) /\ agg_apply FMin [VInt 2; VRat 2 1] = Ok (VInt 2).
Check partitioning_invariance_group_by :
  forall fn (l : list (row * value)) parts,
    is_split l parts -> agg_dom fn (map snd l) -> Permutation (group_two_phase fn parts) (ref_groups fn l).
Check partitioning_invariance_group_by_repartitioned :
  forall fn (assign : row -> nat) n (l : list (row * value)) parts,
    n <> 0%nat -> is_split l parts -> agg_dom fn (map snd l) ->
    Permutation (group_three_phase fn assign n parts) (ref_groups fn l).
Check partitioning_invariance_group_by_any_exchange :
  forall fn (assign : row -> nat) (l : list (row * value)) parts (T : nat -> list (row * res pstate)) n,
    is_split l parts -> agg_dom fn (map snd l) ->
    is_split (concat (map (partial_groups fn) parts)) (parts_of T n) ->
    key_respecting fst assign T n ->
    Permutation (concat (map (fun i => final_groups fn (T i)) (seq 0 n))) (ref_groups fn l).
Check @partitioning_invariance_sort_merge :
  forall {A} (leb : A -> A -> bool), (forall a b, leb a b = false -> leb b a = true) ->
  forall parts l, is_split l parts ->
    Permutation (sort_merge leb parts) l /\ Sorted (fun a b => leb a b = true) (sort_merge leb parts).
Check partitioning_invariance_order_by :
  forall ds (parts : list (list (row * row))) l, is_split l parts ->
    let leb := fun p q : row * row => keys_leb ds (fst p) (fst q) in
    Permutation (sort_merge leb parts) l /\ Sorted (fun a b => leb a b = true) (sort_merge leb parts).
Check partitioning_invariance_limit :
  forall off n (parts : list rel),
    limit_local_global off n parts = limit_offset off (Some n) (concat parts).
Check @partitioning_invariance_limit_merge :
  forall {A} (leb : A -> A -> bool) n runs,
    firstn n (kmerge leb (map (firstn n) runs)) = firstn n (kmerge leb runs).
Check @partitioning_invariance_topk :
  forall {A} (leb : A -> A -> bool) n parts, topk_merge leb n parts = firstn n (sort_merge leb parts).
Check @partitioning_invariance_hash_join :
  forall {K} (on : row -> row -> bool) (kl kr : row -> K) (assign : K -> nat) (Lp Rp : nat -> rel) n L R,
    (forall l r, on l r = true -> kl l = kr r) ->
    is_split L (parts_of Lp n) -> is_split R (parts_of Rp n) ->
    key_respecting kl assign Lp n -> key_respecting kr assign Rp n ->
    Permutation (join_parts on Lp Rp n) (inner_join on L R).
Check @partitioning_invariance_hash_join_hash_split :
  forall {K} (on : row -> row -> bool) (kl kr : row -> K) (h : K -> nat) n L R,
    n <> 0%nat -> (forall l r, on l r = true -> kl l = kr r) ->
    Permutation (join_parts on (hash_part (fun l => h (kl l)) n L) (hash_part (fun r => h (kr r)) n R) n)
                (inner_join on L R).
Check partitioning_invariance_union_all :
  forall (Lp Rp : list rel) L R,
    is_split L Lp -> is_split R Rp -> is_split (set_op SUnion true L R) (Lp ++ Rp).
Check C02_agreeing_runs_same_bag :
  forall (R o1 o2 : rel), bag_eqb o1 R = true -> bag_eqb o2 R = true -> Permutation o1 o2.
Check C02_nonvacuous_group_by :
  is_split ex_rows (round_robin 3 ex_rows) /\
  round_robin 3 ex_rows =
    [[([VInt 1], VInt 5); ([VInt 1], VInt (-3)); ([VInt 1], VNull)]; [([VNull], VInt 7); ([VNull], VInt 7)];
     [([VInt 2], VNull); ([VInt 2], VInt 4)]] /\
  forallb (fun fn =>
             let a := group_three_phase fn ex_hash 2 (chunks 2 ex_rows) in
             let b := ref_groups fn ex_rows in
             Nat.eqb (length a) 3 && forallb (fun x => existsb (fun y => row_eqb (fst x) (fst y) &&
               match snd x, snd y with Ok u, Ok v => value_eqb u v | _, _ => false end) b) a)
          [FCountStar; FCount; FCountDistinct; FSum; FMin; FMax; FAvg] = true /\
  ref_groups FAvg ex_rows = [([VInt 1], Ok (VRat 1 1)); ([VInt 2], Ok (VRat 4 1)); ([VNull], Ok (VRat 7 1))].
Check C02_nonvacuous_hash_join :
  (forall l r, ex_on l r = true -> ex_key l = ex_key r) /\
  Permutation (join_parts ex_on (hash_part (fun l => ex_h (ex_key l)) 3 ex_L) (hash_part (fun r => ex_h (ex_key r)) 3 ex_R) 3)
              (inner_join ex_on ex_L ex_R) /\
  join_parts ex_on (hash_part (fun l => ex_h (ex_key l)) 3 ex_L) (hash_part (fun r => ex_h (ex_key r)) 3 ex_R) 3 =
    [[VInt 1; VInt 10; VInt 1; VInt 20]; [VInt 1; VInt 10; VInt 1; VInt 23]; [VInt 1; VInt 13; VInt 1; VInt 20];
     [VInt 1; VInt 13; VInt 1; VInt 23]; [VInt 2; VInt 12; VInt 2; VInt 21]] /\
  sort_merge Z.leb [[3; 1]; []; [2; 9; 0]] = [0; 1; 2; 3; 9] /\
  topk_merge Z.leb 2 [[3; 1]; []; [2; 9; 0]] = [0; 1] /\
  limit_local_global 1 2 [[[VInt 1]; [VInt 2]; [VInt 3]; [VInt 4]]; [[VInt 5]]] = [[VInt 2]; [VInt 3]].
Print Assumptions C02_hash_split_is_split.
Print Assumptions C02_round_robin_is_split.
Print Assumptions C02_chunks_is_split.
Print Assumptions C02_batches_of_partitions_split.
Print Assumptions partitioning_invariance_filter.
Print Assumptions partitioning_invariance_filter_batches.
Print Assumptions partitioning_invariance_filter_errors.
Print Assumptions partitioning_invariance_filter_any_order.
Print Assumptions partitioning_invariance_project.
Print Assumptions partitioning_invariance_project_errors.
Print Assumptions partitioning_invariance_aggregate_concat.
Print Assumptions C02_aggregate_order_independent.
Print Assumptions partitioning_invariance_aggregate.
Print Assumptions C02_min_side_condition_necessary.
Print Assumptions partitioning_invariance_group_by.
Print Assumptions partitioning_invariance_group_by_repartitioned.
Print Assumptions partitioning_invariance_group_by_any_exchange.
Print Assumptions partitioning_invariance_sort_merge.
Print Assumptions partitioning_invariance_order_by.
Print Assumptions partitioning_invariance_limit.
Print Assumptions partitioning_invariance_limit_merge.
Print Assumptions partitioning_invariance_topk.
Print Assumptions partitioning_invariance_hash_join.
Print Assumptions partitioning_invariance_hash_join_hash_split.
Print Assumptions partitioning_invariance_union_all.
Print Assumptions C02_agreeing_runs_same_bag.
Print Assumptions C02_nonvacuous_group_by.
Print Assumptions C02_nonvacuous_hash_join.
