From DF Require Import Base.Prelude Model.CliSplit Proofs.CliSplitProofs Props.C51.
Open Scope Z_scope.
Check C51_toggle_eq_lexer : forall s, split_model s = ref_split s.
Check C51_cuts_exactly_outer_semicolons : forall s st i,
  nth i (seps st s) false = true <->
  nth i s 0 = 59 /\ (Z.of_nat i < Z.of_nat (length s)) /\ lex_run st (firstn i s) = Normal.
Check C51_concat_preserves_text : forall s,
  join59 (segments s) = s /\ split_model s = render (segments s).
Check C51_no_split_inside_quotes : forall script : list (list tok),
  Forall (fun ts => forallb tok_ok ts = true) script ->
  split_model (join59 (map stmt_text script)) = render (map stmt_text script).
Check C51_backtick_refuted :
  exists s, split_model s <> ref_split_bt s /\ length (split_model s) = 2%nat /\ length (ref_split_bt s) = 1%nat.
Check C51_csv_roundtrip : forall d rows, d <> 34 -> d <> 10 -> d <> 13 ->
  Forall (fun r => r <> []) rows -> parse_csv d (write_csv d rows) = Some rows.
Check C51_json_string_roundtrip : forall s rest,
  json_read_string (json_write_string s ++ rest) = Some (s, rest).
Print Assumptions C51_toggle_eq_lexer.
Print Assumptions C51_cuts_exactly_outer_semicolons.
Print Assumptions C51_concat_preserves_text.
Print Assumptions C51_no_split_inside_quotes.
Print Assumptions C51_backtick_refuted.
Print Assumptions C51_csv_roundtrip.
Print Assumptions C51_json_string_roundtrip.
Print Assumptions C51_nonvacuous.
