(* C16 -- spill channels (spill_pool::spsc_channel / mpsc_channel) deliver every spilled batch exactly once and
   terminate.  Model: Model/SpillPool.v (one Gallina function per lock-protected section of spill_pool.rs).
   GRANULARITY: every theorem below quantifies over ALL interleavings of push_batch / drop / poll_next CALLS (each call
   atomic), for any number of writers, any rotation threshold, any batch sizes, any placement of push failures and any
   schedule length ([run true thr (init nw) ops = Some _] says only that no push/drop is issued when no writer is left).
   Interleavings that preempt a call between two of its critical sections are NOT covered by these theorems; they are
   explored exhaustively for small bounds on the executable fine-grained model (Model/SpillPoolFine.v, a test). *)
From DF Require Import Base.Prelude Model.SpillPool Model.SpillPoolFine Proofs.SpillPoolProofs.
From Coq Require Import Permutation.
Open Scope Z_scope.

(* (1) single writer: what the reader has delivered so far, followed by what it still has to deliver, is exactly the
   sequence of durable pushes (non-empty batches whose append did not fail) in push order -- so the delivered sequence is
   always a prefix of it; and end-of-stream is reported only when all of it was delivered and the writer is dropped. *)
Theorem C16_spsc_fifo_calls :
  forall thr ops p outs, run true thr (init 1) ops = Some (p, outs) ->
    yielded p ++ remaining p = durable ops /\
    (forall io p', do_poll io p = (PEof, p') -> yielded p' = durable ops /\ wcount p = 0%nat /\ count_drops ops = 1%nat).
Proof. exact spsc_fifo_calls. Qed.

(* (2) several writers: nothing invented, nothing delivered twice (multiset inclusion), equality at end-of-stream. *)
Theorem C16_mpsc_multiset_calls :
  forall nw thr ops p outs, run true thr (init nw) ops = Some (p, outs) ->
    (forall b, (count_occ Z.eq_dec (yielded p) b <= count_occ Z.eq_dec (durable ops) b)%nat) /\
    (forall io p', do_poll io p = (PEof, p') -> Permutation (yielded p') (durable ops)).
Proof. exact mpsc_multiset_calls. Qed.

(* with atomic calls the order is the global call order for any number of writers (NOT guaranteed by the code once
   pushes of different writers overlap: mpsc_channel documents no ordering) *)
Theorem C16_call_order_any_writers :
  forall nw thr ops p outs, run true thr (init nw) ops = Some (p, outs) -> yielded p ++ remaining p = durable ops.
Proof. exact fifo_calls. Qed.

(* a push that returned Ok for a non-empty batch is durable; durable batches were pushed *)
Theorem C16_ok_push_is_durable :
  forall nw thr ops p outs, run true thr (init nw) ops = Some (p, outs) ->
    forall b, In b (ok_pushes ops outs) -> In b (durable ops) /\ In b (attempted ops).
Proof. exact ok_push_is_durable. Qed.

(* (3) no lost wake-up: if the reader returned Pending and no wake has been issued since ([parked]), polling now would
   still return Pending -- contrapositive: whenever data or end-of-stream became available to a pending reader, a wake
   was issued.  In particular after the last writer is dropped the reader is never left parked. *)
Theorem C16_no_lost_wakeup_calls :
  forall nw thr ops p outs, run true thr (init nw) ops = Some (p, outs) ->
    (forall io, parked p = true -> fst (do_poll io p) = PPending) /\
    (wcount p = 0%nat -> parked p = false).
Proof.
  intros nw thr ops p outs H. split.
  - intros io. exact (parked_still_pending nw thr ops p outs H io).
  - exact (not_parked_when_all_dropped nw thr ops p outs H).
Qed.

(* (4) end-of-stream only after every writer was dropped, every file is finished and popped, and every durable batch
   (in particular every push that returned Ok) has been delivered. *)
Theorem C16_eof_only_after_all_calls :
  forall nw thr ops p outs, run true thr (init nw) ops = Some (p, outs) ->
    forall io p', do_poll io p = (PEof, p') ->
      wcount p = 0%nat /\ count_drops ops = nw /\ yielded p' = durable ops /\
      queue_empty p' = true /\ all_finished p' = true /\
      (forall b, In b (ok_pushes ops outs) -> In b (yielded p')).
Proof. exact eof_only_after_all. Qed.

(* (5) push failures anywhere: once all writers are dropped, a reader that keeps polling gets exactly the batches it
   had not yet delivered, one per poll without ever seeing Pending, then end-of-stream; all durable pushes delivered. *)
Theorem C16_failed_push_no_hang_calls :
  forall nw thr ops p outs, run true thr (init nw) ops = Some (p, outs) -> wcount p = 0%nat ->
    exists p', poll_many (S (length (remaining p))) p = (map PBatch (remaining p) ++ [PEof], p') /\
               yielded p' = durable ops /\ queue_empty p' = true.
Proof. exact no_hang_after_drops. Qed.

(* The pinned upstream behaviour ([run false]: a failed append returns without sealing the file it had popped from
   open_write_files) violates (5): push 1 ok, push 2 fails, push 3 ok (new file), drop the writer; the reader delivers
   batch 1 and is then Pending for ever, parked, although batch 3 was pushed successfully and no writer is left. *)
Theorem C16_upstream_hang_refuted :
  exists p outs, run false (2 ^ 40) (init 1) hang_ops = Some (p, outs) /\
    wcount p = 0%nat /\ In 3 (ok_pushes hang_ops outs) /\ yielded p = [1] /\ parked p = true /\
    forall n, poll_many n p = (repeat PPending n, p).
Proof. exact upstream_hangs. Qed.

(* Checked on the critical-section-granularity model (Model/SpillPoolFine.v): when pushes of two writers overlap, the
   order of one writer's own batches is not preserved by the code (writer 0 pushes 1 then 2; 2 is delivered first).
   This is why (2) claims a multiset only; it is consistent with the documentation of mpsc_channel. *)
Theorem C16_mpsc_per_writer_order_not_guaranteed :
  exists sched, let st := frun true (2 ^ 40) sched (finit order_progs) in
    got_eof st = true /\ yielded (fpool st) = [3; 2; 1] /\ enabled st = [].
Proof. exact mpsc_order_witness. Qed.

(* non-vacuity: three writers, rotation, a failed append, a failed rotation finish, Pending polls, wake-ups *)
Example C16_nonvacuous :
  let ops := [Poll false; Push 0 1 3 128 NoFault; Poll true; Poll false; Push 1 2 16 160 FailAppend; Poll false;
              Push 2 3 3 128 FailFinish; Push 0 4 0 0 NoFault; DropW 0; Push 1 5 3 128 NoFault; DropW 2; Poll false; DropW 1;
              Poll false; Poll false] in
  option_map snd (run true 100 (init 3) ops) =
    Some [OPoll PPending; OPush true 1; OPoll (PBatch 1); OPoll PPending; OPush false 1; OPoll PPending;
          OPush false 1; OPush true 0; ODrop 0; OPush true 0; ODrop 0; OPoll (PBatch 3); ODrop 0;
          OPoll (PBatch 5); OPoll PEof]
  /\ durable ops = [1; 3; 5].
Proof. vm_compute. split; reflexivity. Qed.
