From Coq Require Import List ZArith Bool Permutation.
From DF Require Import Base.Prelude Model.RefSQL Proofs.RefSQLLaws Model.JoinAlgo Proofs.JoinAlgoProofs Props.C05.
Import ListNotations.
Open Scope Z_scope.
Check C05_hash_join_correct :
  forall hash t nulleq kb kp filt wl wr B paging pbs,
  Permutation (hash_join hash t nulleq kb kp filt wl wr B paging pbs)
              (join_def t (on_of nulleq kb kp filt) wl wr B (concat pbs)).
Check C05_probe_batching_irrelevant :
  forall hash hash' t nulleq kb kp filt wl wr B paging paging' pbs pbs',
  concat pbs = concat pbs' ->
  Permutation (hash_join hash t nulleq kb kp filt wl wr B paging pbs)
              (hash_join hash' t nulleq kb kp filt wl wr B paging' pbs').
Check C05_null_keys_never_match :
  forall hash kb kp filt B pb,
  (forall l r, no_null (kb l) = false \/ no_null (kp r) = false -> on_of false kb kp filt l r = false) /\
  (forall p b, In (p, b) (candidates hash false kb kp B pb) ->
     no_null (kp (nth p pb [])) = true /\ no_null (kb (brow B b)) = true).
Check C05_smj_correct :
  forall t nulleq so kl kr filt wl wr L R,
  key_sorted so kl L -> key_sorted so kr R ->
  Permutation (smj_run t nulleq so kl kr filt wl wr L R) (join_def t (on_of nulleq kl kr filt) wl wr L R).
Check C05_null_aware_anti_correct :
  forall hash kb1 kp1 wl B paging pbs,
  na_left_anti hash kb1 kp1 (fun _ _ => true) wl B paging pbs = not_in_def kb1 kp1 B (concat pbs) /\
  Permutation (na_right_probe hash kb1 kp1 wl B paging pbs) (not_in_def kp1 kb1 (concat pbs) B).
Check C05_not_in_def_as_anti :
  forall k ki X Inner,
  not_in_def k ki X Inner
  = filter (fun x => negb (existsb (fun v => match eq3 (inj (k x)) v with TF => false | _ => true end)
                                   (map (fun y => inj (ki y)) Inner))) X.
Check C05_def_full_join_decomp :
  forall on wl wr L R,
  Permutation (join_def TFull on wl wr L R)
              (join_def TInner on wl wr L R ++ map (fun l => l ++ nulls wr) (join_def TLeftAnti on wl wr L R)
                                           ++ map (fun r => nulls wl ++ r) (join_def TRightAnti on wl wr L R)).
Check C05_nonvacuous :
  let r := fun (id : Z) (k : option Z) (v : Z) => [VInt id; inj k; VInt 0; VInt v] in
  let L := [r 100 None 2; r 101 (Some 1) 1; r 102 (Some 1) 3; r 103 (Some 2) 0] in
  let Rb := [[r 200 None 5; r 201 (Some 1) 2]; []; [r 202 (Some 1) 0; r 203 (Some 7) 3]] in
  let k := key_of [1%nat] in
  length (hash_join toy_hash TFull false k k (filt_of FLt) 4 4 L [[2%nat; 2%nat]; []; [2%nat]] Rb) = 7%nat /\
  bag_eqb (hash_join toy_hash TFull false k k (filt_of FLt) 4 4 L [[2%nat; 2%nat]; []; [2%nat]] Rb)
          (join_def TFull (on_of false k k (filt_of FLt)) 4 4 L (concat Rb)) = true /\
  key_sorted [(false, true)] k L /\ key_sorted [(false, true)] k (concat Rb) /\
  length (smj_run TFull false [(false, true)] k k (filt_of FLt) 4 4 L (concat Rb)) = 7%nat.
Print Assumptions C05_hash_join_correct.
Print Assumptions C05_probe_batching_irrelevant.
Print Assumptions C05_null_keys_never_match.
Print Assumptions C05_smj_correct.
Print Assumptions C05_null_aware_anti_correct.
Print Assumptions C05_not_in_def_as_anti.
Print Assumptions C05_def_full_join_decomp.
Print Assumptions C05_nonvacuous.
