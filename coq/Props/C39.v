(* C39 -- INSERT / UPDATE / DELETE on in-memory tables follow SQL semantics.
   Model: Model/MemTableDML.v (MemTable::delete_from_inner / update_inner / evaluate_filters_to_mask,
   MemSink::write_all, extract_dml_filters, extract_update_assignments, insert_to_plan's column list).
   All theorems quantify over every table (any partition / batch layout, NULLs, empty batches),
   every WHERE clause and assignment list of the expression language, and every history length. *)
From DF Require Import Base.Prelude Model.MemTableDML Proofs.MemTableDMLProofs.
From Coq Require Import Permutation.
Open Scope Z_scope.

(* DELETE keeps, in order, exactly the rows whose WHERE is not TRUE (FALSE or NULL); the reported
   count is the number of rows whose WHERE is TRUE = the number of rows removed; the partition
   count is kept and no empty batch is left behind. *)
Theorem C39_delete_spec :
  forall n t w t' c,
    step n t (SDelete w) = (t', c) ->
    rows_of t' = filter (fun r => negb (holds w r)) (rows_of t) /\
    c = zlen (filter (holds w) (rows_of t)) /\
    c = zlen (rows_of t) - zlen (rows_of t') /\
    length t' = length t /\
    Forall (Forall (fun b => b <> [])) t'.
Proof. exact delete_spec. Qed.

(* UPDATE: rows whose WHERE is TRUE are replaced by the simultaneous assignment evaluated on the
   pre-update row, all other rows (FALSE or NULL) are untouched, order kept; the count is the
   number of rows whose WHERE is TRUE. *)
Theorem C39_update_spec :
  forall n t asg w t' c,
    NoDup (targets asg) ->
    step n t (SUpdate asg w) = (t', c) ->
    rows_of t' = map (fun r => if holds w r then ref_update_row asg r else r) (rows_of t) /\
    c = zlen (filter (holds w) (rows_of t)) /\
    length t' = length t.
Proof. exact update_spec. Qed.

(* The same, column by column and without reference to ref_update_row: in a selected row every
   assigned column holds its right-hand side evaluated on the OLD row (so SET a = b, b = a swaps),
   unassigned columns are unchanged; unselected rows are identical. *)
Theorem C39_update_sees_pre_update_row :
  forall n t asg w t' c,
    NoDup (targets asg) ->
    step n t (SUpdate asg w) = (t', c) ->
    Forall2 (fun old new =>
               length new = length old /\
               (holds w old = true ->
                  (forall j e, In (j, e) asg -> (j < length old)%nat -> nth j new None = eval_i old e) /\
                  (forall j, ~ In j (targets asg) -> nth j new None = nth j old None)) /\
               (holds w old = false -> new = old))
            (rows_of t) (rows_of t').
Proof. exact update_sees_pre_update_row. Qed.

(* INSERT adds exactly the given rows (as a bag: they land in partition 0), count = rows given. *)
Theorem C39_insert_spec :
  forall n t cols vals t' c,
    t <> [] ->
    step n t (SInsert cols vals) = (t', c) ->
    Permutation (rows_of t') (rows_of t ++ map (place n cols) vals) /\
    c = zlen vals /\
    length t' = length t.
Proof. exact insert_spec. Qed.

(* INSERT with a column list: listed columns take their value, unlisted ones are NULL. *)
Theorem C39_insert_column_list :
  forall ncols cs v,
    NoDup cs ->
    length (place ncols (Some cs) v) = ncols /\
    (forall j i, nth_error cs j = Some i -> (i < ncols)%nat -> nth i (place ncols (Some cs) v) None = nth j v None) /\
    (forall i, ~ In i cs -> nth i (place ncols (Some cs) v) None = None).
Proof. exact place_spec. Qed.

(* Reported counts are exactly the number of rows inserted / selected for change / removed. *)
Theorem C39_counts_exact :
  forall n t s,
    t <> [] -> stmt_ok s ->
    let t' := fst (step n t s) in
    let c := snd (step n t s) in
    match s with
    | SInsert _ vals => c = zlen vals /\ zlen (rows_of t') = zlen (rows_of t) + c
    | SDelete w => c = zlen (filter (holds w) (rows_of t)) /\ zlen (rows_of t') = zlen (rows_of t) - c
    | SUpdate _ w => c = zlen (filter (holds w) (rows_of t)) /\ zlen (rows_of t') = zlen (rows_of t)
    end.
Proof. exact counts_exact. Qed.

(* Any history: the table contents are those of the reference model (flat row list) that applied
   the same statements, with the same counts. *)
Theorem C39_history_refines_reference :
  forall n t ss,
    t <> [] -> Forall stmt_ok ss ->
    Permutation (rows_of (fst (run n t ss))) (fst (ref_run n (rows_of t) ss)) /\
    snd (run n t ss) = snd (ref_run n (rows_of t) ss).
Proof. exact history_refines_reference. Qed.

(* ... and even in the same order as long as nothing is inserted. *)
Theorem C39_history_without_insert_in_order :
  forall n ss t,
    Forall stmt_ok ss -> forallb no_insert ss = true ->
    rows_of (fst (run n t ss)) = fst (ref_run n (rows_of t) ss) /\
    snd (run n t ss) = snd (ref_run n (rows_of t) ss).
Proof. exact history_without_insert_in_order. Qed.

(* The partition / batch layout is irrelevant for DELETE and UPDATE. *)
Theorem C39_batching_irrelevant :
  forall n t1 t2 s,
    (match s with SInsert _ _ => False | _ => True end) -> stmt_ok s ->
    rows_of t1 = rows_of t2 ->
    rows_of (fst (step n t1 s)) = rows_of (fst (step n t2 s)) /\ snd (step n t1 s) = snd (step n t2 s).
Proof. exact batching_irrelevant. Qed.

(* FINDING (pinned commit): the statement does not reach MemTable as written.  A WHERE clause that the
   logical optimizer folds to FALSE or NULL (WHERE FALSE, WHERE 1 = 2, WHERE a = NULL,
   WHERE a > 0 AND FALSE, ...) selects no row -- first theorem -- but the optimizer then replaces the
   Filter node by an EmptyRelation and extract_dml_filters returns no filters, which MemTable reads as
   "all rows": DELETE removes every row, UPDATE reports every row as updated -- second theorem
   (step_upstream = the pipeline as it is; replayed on the implementation by the harness). *)
Theorem C39_constant_where_selects_no_row :
  forall w, folds_away w = true -> forall r, holds w r = false.
Proof. exact folds_away_no_row. Qed.

Theorem C39_upstream_constant_where_refuted :
  exists t w,
    (forall r, holds w r = false) /\ rows_of t <> [] /\
    rows_of (fst (step_upstream 3 t (SDelete w))) = [] /\
    snd (step_upstream 3 t (SDelete w)) = zlen (rows_of t) /\
    snd (step_upstream 3 t (SUpdate [(0%nat, ILit 9)] w)) = zlen (rows_of t).
Proof. exact upstream_constant_where_refuted. Qed.

(* non-vacuity / the swap example: two partitions, an empty batch, NULLs; WHERE b > 1 is NULL on
   the row with b NULL (not updated, not deleted); SET a = b, b = a swaps. *)
Example C39_nonvacuous_swap :
  let t := [[[[Some 1; Some 2; None]; [Some 5; None; Some 0]]; []]; [[[Some 3; Some 4; Some 9]]]] in
  let ss := [SUpdate [(0%nat, ICol 1); (1%nat, ICol 0)] (Some (BCmp CGt (ICol 1) (ILit 1)));
             SInsert (Some [2%nat; 0%nat]) [[Some 7; None]];
             SDelete (Some (BAnd (BCmp CEq (ICol 0) (ILit 4)) (BNot (BIsNull (ICol 2)))));
             SDelete (Some (BCmp CGe (ICol 1) (ILit 1)))] in
  run 3 t ss =
    ([[[[Some 5; None; Some 0]]; [[None; None; Some 7]]]; []], [2; 1; 1; 1])
  /\ t <> [] /\ Forall stmt_ok ss.
Proof.
  vm_compute. split; [reflexivity|]. split; [discriminate|].
  repeat constructor; simpl; intuition congruence.
Qed.
