(* C29 -- statistics reported as exact are exact.
   PROVED here (about the model of datafusion/common/src/stats.rs): the Precision algebra yields Exact only from Exact
   operands and then the exact in-range result (overflow downgrades to Inexact), so true claims stay true under
   add / sub / multiply / min / max; to_inexact never claims; Statistics::with_fetch over a table of exactly n rows
   reports a row count that is true of the limited output in all of its branches, and hands column statistics back
   untouched only when no row is cut -- provided the row count is Exact; on an Inexact row count the same branch is
   refuted (C29_with_fetch_keeps_column_exactness_on_inexact_count).  The monitor is equivalent to the declarative
   statement "every Exact claim equals the measured value".
   NOT proved: the per-operator statistics rules of the engine (filter, joins, aggregates, projections, sources):
   they are explored node by node with the verified monitor as oracle. *)
From DF Require Import Base.Prelude Model.PrecisionAlg Proofs.PrecisionAlgProofs.
Open Scope Z_scope.

Theorem C29_arith_exact_only_from_exact : forall f a b r,
  arith f a b = Exact r ->
  exists x y, a = Exact x /\ b = Exact y /\ r = f x y /\ 0 <= r <= USIZE_MAX.
Proof. exact arith_exact_only_from_exact. Qed.

Theorem C29_arith_exact_complete : forall f x y,
  0 <= f x y <= USIZE_MAX -> arith f (Exact x) (Exact y) = Exact (f x y).
Proof. exact arith_exact_complete. Qed.

Theorem C29_arith_overflow_downgrades : forall f x y,
  ~ (0 <= f x y <= USIZE_MAX) -> arith f (Exact x) (Exact y) = Inexact (saturate (f x y)).
Proof. exact arith_overflow_downgrades. Qed.

Theorem C29_exact_add_sound : forall a b va vb,
  claim_true a va -> claim_true b vb -> claim_true (p_add a b) (va + vb).
Proof. exact exact_add_sound. Qed.

Theorem C29_exact_sub_sound : forall a b va vb,
  claim_true a va -> claim_true b vb -> claim_true (p_sub a b) (va - vb).
Proof. exact exact_sub_sound. Qed.

Theorem C29_exact_mul_sound : forall a b va vb,
  claim_true a va -> claim_true b vb -> claim_true (p_mul a b) (va * vb).
Proof. exact exact_mul_sound. Qed.

Theorem C29_exact_min_max_sound : forall a b va vb,
  claim_true a va -> claim_true b vb ->
  claim_true (p_min a b) (Z.min va vb) /\ claim_true (p_max a b) (Z.max va vb).
Proof. exact exact_min_max_sound. Qed.

Theorem C29_to_inexact_never_exact : forall p,
  is_exact (to_inexact p) = false /\ get_value (to_inexact p) = get_value p.
Proof. exact to_inexact_never_exact. Qed.

Theorem C29_with_fetch_sound : forall (A : Type) (rows : list A) nr fetch skip,
  claim_true nr (zlen rows) -> zlen rows <= USIZE_MAX ->
  0 <= skip -> (forall f, fetch = Some f -> 0 <= f <= USIZE_MAX) ->
  claim_true (fst (with_fetch nr fetch skip 1)) (zlen (limit skip fetch rows)).
Proof. intros A; exact (@with_fetch_sound A). Qed.

Theorem C29_with_fetch_kept_sound : forall (A : Type) (rows : list A) n fetch skip,
  n = zlen rows -> 0 <= skip -> (forall f, fetch = Some f -> 0 <= f) ->
  snd (with_fetch (Exact n) fetch skip 1) = true -> limit skip fetch rows = rows.
Proof. intros A; exact (@with_fetch_kept_sound A). Qed.

Theorem C29_with_fetch_keeps_column_exactness_on_inexact_count :
  exists (rows : list Z) n fetch,
    snd (with_fetch (Inexact n) (Some fetch) 0 1) = true /\ limit 0 (Some fetch) rows <> rows.
Proof. exact with_fetch_keeps_column_exactness_on_inexact_count. Qed.

Theorem C29_monitor_sound : forall cs, monitor_ok cs = true <-> claims_exact cs.
Proof. exact monitor_sound. Qed.

(* non-vacuity: every with_fetch branch on a 10-row table, an overflow, and the monitor rejecting a false claim *)
Example C29_nonvacuous :
  with_fetch (Exact 10) (Some 3) 0 1 = (Exact 3, false) /\
  with_fetch (Exact 10) (Some 30) 0 1 = (Exact 10, true) /\
  with_fetch (Exact 10) (Some 30) 4 1 = (Exact 6, false) /\
  with_fetch (Exact 10) (Some 3) 4 1 = (Exact 3, false) /\
  with_fetch (Exact 10) None 12 1 = (Exact 0, false) /\
  with_fetch (Inexact 10) (Some 3) 4 1 = (Inexact 3, false) /\
  with_fetch Absent (Some 3) 4 2 = (Inexact 6, false) /\
  p_add (Exact USIZE_MAX) (Exact 1) = Inexact USIZE_MAX /\
  p_sub (Exact 1) (Exact 2) = Inexact 0 /\
  monitor_ok [(Exact 3, 3); (Inexact 9, 4); (Absent, 0)] = true /\
  monitor_ok [(Exact 3, 6)] = false.
Proof. vm_compute. repeat split; reflexivity. Qed.
