From DF Require Import Base.Prelude Model.BenchVerify Proofs.BenchVerifyProofs Props.C46.
Open Scope Z_scope.
Check C46_accept_iff_cellwise_equiv :
  forall cc act exp,
    compare_results cc act exp = Accept <->
    Forall2 (fun a e => length a = length e /\
                        Forall2 (fun ev av => ev = av \/ (ev = t_NULL /\ av = []) \/
                                              (ev = t_empty_marker /\ (av = [] \/ av = t_NULL)))
                                (firstn cc e) (firstn cc a)) act exp.
Check C46_accept_iff_all_cells_equiv :
  forall cc act exp,
    Forall (fun e => length e = cc) exp ->
    (compare_results cc act exp = Accept <-> Forall2 (fun a e => Forall2 cell_equiv e a) act exp).
Check C46_rejects_any_difference :
  forall cc act exp,
    compare_results cc act exp <> Accept <->
    (length act <> length exp
     \/ exists i a e, nth_error act i = Some a /\ nth_error exp i = Some e /\
          (length a <> length e
           \/ exists j ev av, (j < cc)%nat /\ nth_error e j = Some ev /\ nth_error a j = Some av /\
                              ~ cell_equiv ev av)).
Check C46_verdict_is_first_difference :
  forall cc act exp,
    match compare_results cc act exp with
    | Accept => results_equiv cc act exp
    | RowCount x y => x = len exp /\ y = len act /\ length act <> length exp
    | ColCount x y =>
        exists i a e, nth_error act i = Some a /\ nth_error exp i = Some e /\ x = len e /\ y = len a /\
                      length a <> length e /\ results_equiv cc (firstn i act) (firstn i exp)
    | CellDiff r c =>
        exists i j a e ev av, r = 1 + Z.of_nat i /\ c = 1 + Z.of_nat j /\ (j < cc)%nat /\
          nth_error act i = Some a /\ nth_error exp i = Some e /\ length a = length e /\
          nth_error e j = Some ev /\ nth_error a j = Some av /\ ~ cell_equiv ev av /\
          results_equiv cc (firstn i act) (firstn i exp) /\ Forall2 cell_equiv (firstn j e) (firstn j a)
    | ReadError => False
    end.
Check C46_cell_equiv_refl : forall c, cell_equiv c c.
Check C46_cell_equiv_transitive : forall a b c, cell_equiv a b -> cell_equiv b c -> cell_equiv a c.
Check C46_cell_equiv_not_symmetric : exists e a, cell_equiv e a /\ ~ cell_equiv a e.
Check C46_csv_roundtrip :
  forall hdr rows,
    hdr <> [] -> Forall (fun r => r <> []) rows ->
    csv_records (persist hdr rows) = hdr :: map (map cell_field) rows.
Check C46_accepts_own_persisted :
  forall hdr rows,
    hdr <> [] -> Forall (fun r => length r = length hdr) rows ->
    verify (persist hdr rows) rows = Accept.
Check C46_verify_persisted_accept_iff :
  forall hdr rows actual,
    hdr <> [] -> Forall (fun r => length r = length hdr) rows ->
    (verify (persist hdr rows) actual = Accept <->
     Forall2 (fun a p => Forall2 (fun pc ac => cell_equiv (expected_cell pc) (fmt_cell ac)) p a) actual rows).
Check C46_placeholder_precedence :
  forall m env pre post k d,
    no_dollar pre = true -> no_dollar post = true -> is_key k = true -> plain_arg d = true ->
    process m env (pre ++ ph_var_d k d ++ post) =
      Ok (pre ++ (match lookup (map lower k) m with
                  | Some v => v
                  | None => match lookup (map upper k) env with
                            | Some v => v
                            | None => d
                            end
                  end) ++ post)
    /\
    process m env (pre ++ ph_var k ++ post) =
      match lookup (map lower k) m with
      | Some v => Ok (pre ++ v ++ post)
      | None => match lookup (map upper k) env with
                | Some v => Ok (pre ++ v ++ post)
                | None => MissingKey k
                end
      end.
Check C46_true_false_branch :
  forall m env pre post k d t f,
    no_dollar pre = true -> no_dollar post = true -> is_key k = true -> plain_opt d = true ->
    plain_arg t = true -> plain_arg f = true ->
    process m env (pre ++ ph_tf_gen k d t f ++ post) =
    match resolve m env k d with
    | Some v => Ok (pre ++ (if is_true v then t else f) ++ post)
    | None => MissingKey k
    end.
Check C46_text_without_placeholder_unchanged :
  forall m env t, no_dollar t = true -> process m env t = Ok t.
Check C46_value_not_rescanned :
  forall m env k v, is_key k = true -> resolve m env k None = Some v -> process m env (ph_var k) = Ok v.
Check C46_true_branch_rescanned :
  forall m env k a f v,
    is_key k = true -> is_key a = true -> plain_arg f = true ->
    resolve m env k None = Some v -> is_true v = true ->
    process m env (ph_tf k (ph_var a) f) =
    match resolve m env a None with
    | Some w => Ok w
    | None => MissingKey a
    end.
Print Assumptions C46_accept_iff_cellwise_equiv.
Print Assumptions C46_accept_iff_all_cells_equiv.
Print Assumptions C46_rejects_any_difference.
Print Assumptions C46_verdict_is_first_difference.
Print Assumptions C46_cell_equiv_refl.
Print Assumptions C46_cell_equiv_transitive.
Print Assumptions C46_cell_equiv_not_symmetric.
Print Assumptions C46_csv_roundtrip.
Print Assumptions C46_accepts_own_persisted.
Print Assumptions C46_verify_persisted_accept_iff.
Print Assumptions C46_placeholder_precedence.
Print Assumptions C46_true_false_branch.
Print Assumptions C46_text_without_placeholder_unchanged.
Print Assumptions C46_value_not_rescanned.
Print Assumptions C46_true_branch_rescanned.
Print Assumptions C46_nonvacuous.
