From Coq Require Import List ZArith Bool.
From DF Require Import Base.Prelude Model.RefSQL Model.DataFrameOps Proofs.DataFrameOpsProofs Props.C48.
Import ListNotations.
Open Scope Z_scope.
Check C48_union_by_name_spec :
  forall f d en all sl sr ql qr L R,
  eval_query (S f) d en ql = Ok L -> eval_query (S f) d en qr = Ok R ->
  (forall r, In r L -> length r = length sl) -> (forall r, In r R -> length r = length sr) ->
  eval_query (S (S (S f))) d en (ubn_query all sl sr ql qr)
  = Ok (set_op SUnion all (map (align (ubn_names sl sr) sl) L) (map (align (ubn_names sl sr) sr) R)).
Check C48_align_by_name :
  forall out s r c, In c out ->
  get_named out (align out s r) c = get_named s r c.
Check C48_align_missing_is_null :
  forall s r c, ~ In c s -> get_named s r c = VNull.
Check C48_ubn_names_spec :
  forall sl sr,
  NoDup (ubn_names sl sr) /\ (forall c, In c (ubn_names sl sr) <-> In c sl \/ In c sr).
Check C48_ubn_names_left_first :
  forall sl sr, NoDup sl -> exists rest, ubn_names sl sr = sl ++ rest.
Check C48_tr_union_by_name :
  forall all l r sl ql sr qr, tr l = Some (sl, ql) -> tr r = Some (sr, qr) ->
  nodup_names sl = true -> nodup_names sr = true ->
  tr (DUnionByName all l r) = Some (map (fun c => (None, c)) (ubn_names (names sl) (names sr)),
                                    ubn_query all (names sl) (names sr) ql qr).
Check C48_with_column_eval :
  forall f d en s nm e v (r : row),
  length r = length s -> eval_expr (S f) d (r :: en) e = Ok v ->
  mapM (eval_expr (S f) d (r :: en)) (wc_exprs s nm e) = Ok (wc_row_full s nm v r).
Check C48_with_column_appends :
  forall s nm v r, existsb (wc_hit nm) s = false -> length r = length s ->
  wc_row_full s nm v r = r ++ [v] /\ wc_schema s nm = s ++ [(None, nm)].
Check C48_with_column_replaces :
  forall s nm v r, existsb (wc_hit nm) s = true -> length r = length s ->
  length (wc_row_full s nm v r) = length r /\ length (wc_schema s nm) = length s /\
  forall i c x, nth_error s i = Some c -> nth_error r i = Some x ->
    nth_error (wc_row_full s nm v r) i = Some (if snd c =? nm then v else x) /\
    nth_error (wc_schema s nm) i = Some (if snd c =? nm then (None, nm) else c).
Check C48_tr_with_column_schema :
  forall nm e d s q, tr d = Some (s, q) ->
  (length (positions (wc_hit nm) s) < 2)%nat ->
  tr (DWithColumn nm e d) = Some (wc_schema s nm, QProject (wc_exprs s nm e) q).
Check C48_drop_columns_eval :
  forall f d en s cs (r : row), length r = length s ->
  mapM (eval_expr (S f) d (r :: en)) (drop_exprs s cs) = Ok (drop_row s cs r).
Check C48_drop_columns_spec :
  forall s cs c,
  In c (drop_schema s cs) <-> In c s /\ forall x, In x cs -> ref_matches x c = false.
Check C48_drop_columns_aligned :
  forall s cs r, length r = length s -> length (drop_row s cs r) = length (drop_schema s cs).
Check C48_unqualified_drop_removes_every_column_of_that_name :
  forall s nm c,
  In c (drop_schema s [(None, nm)]) <-> In c s /\ snd c <> nm.
Check C48_distinct_on_spec :
  forall (keyf : row -> row) (leb : row -> row -> bool),
  (forall a b c, leb a b = true -> leb b c = true -> leb a c = true) ->
  (forall a b, leb a b = false -> leb b a = true) ->
  forall R,
    (forall o, In o (distinct_on_rel keyf leb R) -> In o R) /\
    (forall r, In r R -> exists o, In o (distinct_on_rel keyf leb R) /\ keyf o = keyf r /\ leb o r = true) /\
    NoDup (map keyf (distinct_on_rel keyf leb R)).
Check C48_limit_translation :
  forall f d en skip fetch q R, eval_query f d en q = Ok R ->
  eval_query (S f) d en (QLimit skip fetch q) = Ok (limit_offset skip fetch R).
Check C48_limit_skip_fetch_compose :
  forall s1 f1 s2 f2 (R : rel), 0 <= s1 -> 0 <= f1 -> 0 <= s2 -> 0 <= f2 ->
  limit_offset s2 (Some f2) (limit_offset s1 (Some f1) R)
  = limit_offset (s1 + s2) (Some (Z.min f2 (Z.max 0 (f1 - s2)))) R.
Check C48_nonvacuous :
  let db0 := [[[VInt 1; VInt 10]; [VInt 2; VInt 20]]; [[VInt 2; VInt 7]]] in
  let a := DSelect [SExpr (ECol 0 0) 1; SExpr (ECol 0 1) 2] (DTable 0 1 2) in
  let b := DSelect [SExpr (ECol 0 1) 3; SExpr (ECol 0 0) 1] (DTable 1 2 2) in
  let u := DUnionByName true a b in
  let p := DDrop [(None, 3)] (DWithColumn 2 (EArith AAdd (ECol 0 0) (ELit (VInt 1))) u) in
  schema_of u = Some [(None, 1); (None, 2); (None, 3)]
  /\ option_map (run_query db0) (to_query u) = Some (Ok [[VInt 1; VInt 10; VNull]; [VInt 2; VInt 20; VNull]; [VInt 2; VNull; VInt 7]])
  /\ schema_of p = Some [(None, 1); (None, 2)]
  /\ option_map (run_query db0) (to_query p) = Some (Ok [[VInt 1; VInt 2]; [VInt 2; VInt 3]; [VInt 2; VInt 3]])
  /\ c48_check (C48Case db0 p TNone (Some [1; 2]) (Some [[VInt 2; VInt 3]; [VInt 1; VInt 2]; [VInt 2; VInt 3]])) = true
  /\ c48_check (C48Case db0 p TNone (Some [1; 2]) (Some [[VInt 2; VInt 3]; [VInt 1; VInt 2]])) = false
  /\ c48_check (C48Case db0 u (TDistinctOn [0] [0; 1; 2] [(0, (false, false)); (1, (true, true)); (2, (false, false))])
                        (Some [1; 2; 3]) (Some [[VInt 1; VInt 10; VNull]; [VInt 2; VNull; VInt 7]])) = true.
Print Assumptions C48_union_by_name_spec.
Print Assumptions C48_align_by_name.
Print Assumptions C48_align_missing_is_null.
Print Assumptions C48_ubn_names_spec.
Print Assumptions C48_ubn_names_left_first.
Print Assumptions C48_tr_union_by_name.
Print Assumptions C48_with_column_eval.
Print Assumptions C48_with_column_appends.
Print Assumptions C48_with_column_replaces.
Print Assumptions C48_tr_with_column_schema.
Print Assumptions C48_drop_columns_eval.
Print Assumptions C48_drop_columns_spec.
Print Assumptions C48_drop_columns_aligned.
Print Assumptions C48_unqualified_drop_removes_every_column_of_that_name.
Print Assumptions C48_distinct_on_spec.
Print Assumptions C48_limit_translation.
Print Assumptions C48_limit_skip_fetch_compose.
Print Assumptions C48_nonvacuous.
