From DF Require Import Base.Prelude Model.DistChan Model.DistChanFine Proofs.DistChanProofs Proofs.DistChanSteps Proofs.DistChanThms Props.C15.
Open Scope Z_scope.
Check C15_gate_inv :
  forall n ops s rtr, run n ops = Some (s, rtr) ->
  empty s = count_oe (chans s) /\ 0 <= empty s /\
  (forall l, swk s = Some l -> empty s = 0) /\
  (empty s = 0 -> swk s <> None \/ n = 0%nat) /\
  (forall c ch, nth_error (chans s) c = Some ch ->
     (rwk ch = None <-> nsend ch = 0%nat) /\ (nsend ch + sdrops rtr c = 1 + clones rtr c)%nat /\
     (data ch = None <-> rdropped rtr c = true)).
Check C15_fifo_exactly_once :
  forall n ops s rtr, run n ops = Some (s, rtr) ->
  forall c ch, nth_error (chans s) c = Some ch ->
    match data ch with
    | Some q => received rtr c ++ q = sent_ok rtr c
    | None => exists q, received rtr c ++ q = sent_ok rtr c
    end.
Check C15_eos_only_after_close_and_drain :
  forall n ops s rtr, run n ops = Some (s, rtr) ->
  forall c w s' wk, step s (RecvPoll c w) = Some (s', (RNone, wk)) ->
    received rtr c = sent_ok rtr c /\ sdrops rtr c = (1 + clones rtr c)%nat /\ wk = [] /\ s' = s.
Check C15_send_err_iff_receiver_gone :
  forall n ops s rtr, run n ops = Some (s, rtr) ->
  forall c w x s' ou, step s (SendPoll c w x) = Some (s', ou) ->
    (forall y, fst ou = RErr y -> y = x /\ rdropped rtr c = true /\ s' = s) /\
    (rdropped rtr c = true -> ou = (RErr x, [])).
Check C15_no_lost_wakeup_send :
  forall n ops s rtr, run n ops = Some (s, rtr) ->
  forall c w0, In (w0, c) (parked_send rtr) ->
  forall w x s' ou, step s (SendPoll c w x) = Some (s', ou) -> fst ou = RPending.
Check C15_no_lost_wakeup_recv :
  forall n ops s rtr, run n ops = Some (s, rtr) ->
  forall c w0, In w0 (parked_recv rtr c) ->
  forall w s' ou, step s (RecvPoll c w) = Some (s', ou) -> fst ou = RPending.
Check C15_receiver_drop_wakes_its_senders :
  forall n ops s rtr, run n ops = Some (s, rtr) ->
  forall c s' ou, step s (DropR c) = Some (s', ou) ->
  forall w0, In (w0, c) (parked_send rtr) -> In w0 (snd ou).
Check C15_parked_recv_is_woken :
  forall n ops s rtr, run n ops = Some (s, rtr) ->
  forall c w0, In w0 (parked_recv rtr c) -> rdropped rtr c = false ->
  (forall w x s' ou, step s (SendPoll c w x) = Some (s', ou) -> fst ou = ROk /\ In w0 (snd ou)) /\
  (forall ch s' ou, nth_error (chans s) c = Some ch -> nsend ch = 1%nat ->
     step s (DropS c) = Some (s', ou) -> In w0 (snd ou)).
Check C15_no_deadlock :
  forall n ops s rtr, run n ops = Some (s, rtr) ->
  forall c w0 ch, In (w0, c) (parked_send rtr) -> nth_error (chans s) c = Some ch -> nsend ch <> 0%nat ->
  exists q, data ch = Some q /\ q <> [] /\
    forall ws, length ws = length q ->
    exists s' rtr', run_from s rtr (map (RecvPoll c) ws) = Some (s', rtr') /\
      received rtr' c = received rtr c ++ q /\
      parked_send rtr' = [] /\ swk s' = None /\ 0 < empty s' /\
      forall w x, exists s'' wk, step s' (SendPoll c w x) = Some (s'', (ROk, wk)).
Check C15_send_ok_only_if_gate_open :
  forall n ops s rtr, run n ops = Some (s, rtr) ->
  forall c w x s' wk, step s (SendPoll c w x) = Some (s', (ROk, wk)) ->
  exists c' ch', nth_error (chans s) c' = Some ch' /\ open_empty ch' = true.
Check C15_never_panics :
  forall n ops s rtr, run n ops = Some (s, rtr) ->
  forall e, In e rtr -> fst (snd e) <> RPanic.
Check C15_fine_counter_leak_witness :
  exists st, frun leak_sched (finit (fst leak_cfg) (snd leak_cfg)) = Some st /\
    all_done st = true /\ bad st = false /\ fempty st = 1 /\ f_count st = 0 /\ fswk st = None.
Print Assumptions C15_gate_inv.
Print Assumptions C15_fifo_exactly_once.
Print Assumptions C15_eos_only_after_close_and_drain.
Print Assumptions C15_send_err_iff_receiver_gone.
Print Assumptions C15_no_lost_wakeup_send.
Print Assumptions C15_no_lost_wakeup_recv.
Print Assumptions C15_receiver_drop_wakes_its_senders.
Print Assumptions C15_parked_recv_is_woken.
Print Assumptions C15_no_deadlock.
Print Assumptions C15_send_ok_only_if_gate_open.
Print Assumptions C15_never_panics.
Print Assumptions C15_fine_counter_leak_witness.
