From Coq Require Import List ZArith Bool Arith Lia Permutation Sorted.
From DF Require Import Base.Prelude Model.SortMerge Proofs.SortMergeProofs Props.C08.
Import ListNotations.
Close Scope Z_scope.
Open Scope nat_scope.
Check C08_comparator_total_preorder : forall os,
  (forall a b, cmp_key os b a = CompOpp (cmp_key os a b)) /\
  (forall a b c, cmp_key os a b <> Gt -> cmp_key os b c <> Gt -> cmp_key os a c <> Gt) /\
  (forall a b, cmp_key os a b = Eq <-> forall i, i < length os -> nth i a None = nth i b None).
Check C08_loser_tree_min : forall (A : Type) (cmp : A -> A -> comparison), total_preorder cmp ->
  forall cs tree, lt_reach cmp cs tree -> 1 <= length cs ->
    nth 0 tree 0 < length cs /\ forall j, j < length cs -> stream_le cmp cs (nth 0 tree 0) j.
Check C08_merge_sorted_perm : forall (A : Type) (cmp : A -> A -> comparison), total_preorder cmp ->
  forall cs : list (list A), Forall (Sorted (cle cmp)) cs ->
    let out := lt_merge_idx cmp cs None in
    StronglySorted (tle cmp) out /\ (forall i, proj i out = cur cs i) /\ Permutation (map snd out) (concat cs).
Check C08_merge_fetch_prefix : forall (A : Type) (cmp : A -> A -> comparison) (cs : list (list A)) f,
  lt_merge cmp cs (Some f) = firstn f (lt_merge cmp cs None).
Check C08_topk_eq_firstn_sort : forall (A : Type) (cmp : A -> A -> comparison), total_preorder cmp ->
  forall k (batches : list (list A)), 1 <= k ->
    let out := topk cmp k batches in
    StronglySorted (cle cmp) out /\ length out = Nat.min k (length (concat batches)) /\
    exists rest, Permutation (out ++ rest) (concat batches) /\ forall x y, In x out -> In y rest -> cle cmp x y.
Check C08_external_sort_eq_sort : forall (A : Type) (cmp : A -> A -> comparison), total_preorder cmp ->
  forall srt : list A -> list A, (forall l, Sorted (cle cmp) (srt l) /\ Permutation (srt l) l) ->
  forall gs chunks,
    StronglySorted (cle cmp) (external_sort cmp srt gs chunks) /\
    Permutation (external_sort cmp srt gs chunks) (concat chunks).
Check C08_sort_check_sound : forall os input fetch out,
  sort_check os input fetch out = true ->
    StronglySorted (cle (cmp_row os)) out /\
    match fetch with
    | None => Permutation out input
    | Some f => length out = Nat.min f (length input) /\
                exists rest, Permutation (out ++ rest) input /\
                             forall x y, In x out -> In y rest -> cle (cmp_row os) x y
    end.
(* the vocabulary of the statements, pinned as well *)
Check (eq_refl : @total_preorder = fun A (cmp : A -> A -> comparison) =>
  (forall x y, cmp y x = CompOpp (cmp x y)) /\ (forall x y z, cmp x y <> Gt -> cmp y z <> Gt -> cmp x z <> Gt)).
Check (eq_refl : @cle = fun A (cmp : A -> A -> comparison) x y => cmp x y <> Gt).
Check (eq_refl : @tle = fun A (cmp : A -> A -> comparison) (p q : nat * A) =>
  cmp (snd p) (snd q) = Lt \/ (cmp (snd p) (snd q) = Eq /\ fst p <= fst q)).
Check (eq_refl : @proj = fun A i (out : list (nat * A)) => map snd (filter (fun p => fst p =? i) out)).
Print Assumptions C08_comparator_total_preorder.
Print Assumptions C08_loser_tree_min.
Print Assumptions C08_merge_sorted_perm.
Print Assumptions C08_merge_fetch_prefix.
Print Assumptions C08_topk_eq_firstn_sort.
Print Assumptions C08_external_sort_eq_sort.
Print Assumptions C08_sort_check_sound.
Print Assumptions C08_nonvacuous.
