(* C06 -- grouped aggregation is exact under every aggregation strategy.

   The DEFINITION is RefSQL's [group_pairs] + [agg_apply] ([ref_groups]).  C02 (Props/C02.v) proves the two-stage laws
   (partial per partition -> any key-respecting exchange -> final), C07 the accumulators, C13 group interning.  Here:
   the ORDERED (streaming) strategies with early emission -- GroupOrderingPartial / GroupOrderingFull driven by the
   ordered aggregate table under any batching and any emission schedule --, spilling, skipped partial aggregation,
   and their composition with the two-stage laws.  The aggregates are the reference's ([agg_fn]); [agg_dom] is C02's
   side condition (min / max over plain column values). *)
From Coq Require Import List Permutation Sorted.
From DF Require Import Base.Prelude Model.RefSQL Model.PhysDecomp Proofs.PhysDecompGroup Model.GroupOrder Proofs.GroupOrderProofs.
Import ListNotations.
Local Open Scope nat_scope.

(* Input sorted on the ordering columns (w.r.t. ANY antisymmetric relation on their values, e.g. any ASC/DESC,
   NULLS FIRST/LAST lexicographic order) has its equal ordering values contiguous -- the only consequence of
   sortedness that the ordered strategies rely on. *)
Theorem C06_sorted_is_clustered :
  forall {S} (R : S -> S -> Prop), (forall a b, R a b -> R b a -> a = b) ->
  forall l, StronglySorted R l -> clustered l.
Proof. exact (@sorted_clustered). Qed.
Theorem C06_clusteredb_sound : forall l : list row, clusteredb l = true -> clustered l.
Proof. exact clusteredb_sound. Qed.

(* The groups in first-seen order (what GroupValues interning builds) are the definition's groups: same keys, each with
   the same members in the same order. *)
Theorem C06_first_seen_is_definition :
  forall {A} (l : list (row * A)), Permutation (fs_groups l) (group_pairs l).
Proof. exact (@fs_groups_group_pairs). Qed.

(* EARLY EMISSION IS SAFE (InputOrderMode::Sorted: full = true; PartiallySorted(idx): full = false).
   For every batching of the input and every schedule of emission attempts, when the whole input (consumed part ++
   [rest], the part that has not arrived yet) is sorted on the ordering columns: the run does not panic; every group
   emitted so far holds exactly the rows of its key of the WHOLE input, and no later row has its key (so emitting it
   and shifting the remaining group ids down is exact); emitted groups ++ groups still buffered = the first-seen
   grouping of the consumed input (nothing lost, nothing duplicated). *)
Theorem C06_early_emit_safe :
  forall {A} full idx bs (evs : list (ev A)) rest,
    Forall is_feed evs -> sorted_on full idx (evs_input evs ++ rest) ->
    exists outs t, ot_run bs evs (OTab [] (ord_start full idx)) = Some (outs, t) /\
      (forall g, In g (concat outs) ->
         snd g = members (fst g) (evs_input evs ++ rest) /\ forall p, In p rest -> fst p <> fst g) /\
      concat outs ++ ot_gs t = fs_groups (evs_input evs).
Proof. exact (@early_emit_safe_proof). Qed.

(* ... and after input_done, [n] emission attempts (n >= number of input rows is always enough) empty the table:
   the concatenation of all emitted batches IS the first-seen grouping of the input. *)
Theorem C06_ordered_stream_exact :
  forall {A} full idx bs (evs : list (ev A)) n,
    1 <= bs -> Forall is_feed evs -> sorted_on full idx (evs_input evs) -> length (evs_input evs) <= n ->
    exists outs, ot_run bs (evs ++ EvDone :: repeat EvEmit n) (OTab [] (ord_start full idx))
                 = Some (outs, OTab [] (gord_input_done (ord_start full idx))) /\
                 concat outs = fs_groups (evs_input evs).
Proof. exact (@ordered_stream_exact_proof). Qed.

(* Single-stage ordered aggregation = the definition. *)
Theorem C06_ordered_single_eq_definition :
  forall fn full idx bs (evs : list (ev value)) n,
    1 <= bs -> Forall is_feed evs -> sorted_on full idx (evs_input evs) -> length (evs_input evs) <= n ->
    exists outs t, ot_run bs (evs ++ EvDone :: repeat EvEmit n) (OTab [] (ord_start full idx)) = Some (outs, t) /\
                   ot_gs t = [] /\ Permutation (values_of fn (concat outs)) (ref_groups fn (evs_input evs)).
Proof.
  intros fn full idx bs evs n Hb F S Hn.
  destruct (ordered_stream_exact_proof full idx bs evs n Hb F S Hn) as [outs [R C]].
  exists outs, (OTab [] (gord_input_done (ord_start full idx))). split; [exact R|]. split; [reflexivity|].
  rewrite C. apply values_of_fs.
Qed.

(* Final stage running ordered over a stream of partial states S that is sorted on the group columns = the hashed
   final stage over S (whose exactness is C02's). *)
Theorem C06_ordered_final_eq_hashed :
  forall fn full idx bs (evs : list (ev (res pstate))) n,
    1 <= bs -> Forall is_feed evs -> sorted_on full idx (evs_input evs) -> length (evs_input evs) <= n ->
    exists outs t, ot_run bs (evs ++ EvDone :: repeat EvEmit n) (OTab [] (ord_start full idx)) = Some (outs, t) /\
                   ot_gs t = [] /\ Permutation (finals_of fn (concat outs)) (final_groups fn (evs_input evs)).
Proof.
  intros fn full idx bs evs n Hb F S Hn.
  destruct (ordered_stream_exact_proof full idx bs evs n Hb F S Hn) as [outs [R C]].
  exists outs, (OTab [] (gord_input_done (ord_start full idx))). split; [exact R|]. split; [reflexivity|].
  rewrite C. apply finals_of_fs.
Qed.

(* Ordered PARTIAL stage -- early emission, and take_state_batch (everything buffered is passed on and the ordering
   state reset) at arbitrary points under memory pressure -- over any segmentation of any partitioning of the input,
   followed by a final stage over all the states: the definition. *)
Theorem C06_ordered_partial_then_final :
  forall fn full idx bs (l : list (row * value)) (evss : list (list (ev value))),
    Forall (fun evs => Forall is_feed evs /\ sorted_on full idx (evs_input evs)) evss ->
    is_split l (map evs_input evss) -> agg_dom fn (map snd l) ->
    Permutation (final_groups fn (concat (map (fun evs => states_of fn (seg_out full idx bs evs)) evss)))
                (ref_groups fn l).
Proof. exact ordered_partial_final_proof. Qed.

(* SPILL: the input is consumed in segments (a new one after every spill); the states of each segment are sorted by
   ANY comparison and written as a run; the runs are k-way merged and fed to the final stage. *)
Theorem C06_spill_merge_eq :
  forall fn leb (l : list (row * value)) segs,
    is_split l segs -> agg_dom fn (map snd l) -> Permutation (spill_merge fn leb segs) (ref_groups fn l).
Proof. exact spill_merge_eq_proof. Qed.
(* ... the replay runs as an ORDERED final stage (GroupOrderingFull) over the merged stream *)
Theorem C06_spill_replay_ordered :
  forall fn leb (l : list (row * value)) segs bs (evs : list (ev (res pstate))) n,
    is_split l segs -> agg_dom fn (map snd l) ->
    evs_input evs = kmerge leb (spill_runs fn leb segs) -> sorted_on true [] (evs_input evs) ->
    1 <= bs -> Forall is_feed evs -> length (evs_input evs) <= n ->
    exists outs t, ot_run bs (evs ++ EvDone :: repeat EvEmit n) (OTab [] (OFull FStart)) = Some (outs, t) /\
                   ot_gs t = [] /\ Permutation (finals_of fn (concat outs)) (ref_groups fn l).
Proof.
  intros fn leb l segs bs evs n SL Hd E S Hb F Hn.
  destruct (C06_ordered_final_eq_hashed fn true [] bs evs n Hb F S Hn) as [outs [t [R [G P]]]].
  exists outs, t. split; [exact R|]. split; [exact G|]. etransitivity; [exact P|]. rewrite E.
  apply (spill_merge_eq_proof fn leb l segs SL Hd).
Qed.

(* SKIPPED PARTIAL AGGREGATION: in every input partition the partial stage aggregates a prefix and passes every later
   row through as a single-row state (convert_to_state); any key-respecting exchange (FinalPartitioned after a hash
   repartition) or a single Final. *)
Theorem C06_skip_partial_eq :
  forall fn (assign : row -> nat) (l : list (row * value)) pss (T : nat -> list (row * res pstate)) n,
    is_split l (map (fun ps => fst ps ++ snd ps) pss) -> agg_dom fn (map snd l) ->
    is_split (concat (map (skip_partial_out fn) pss)) (parts_of T n) -> key_respecting fst assign T n ->
    Permutation (concat (map (fun i => final_groups fn (T i)) (seq 0 n))) (ref_groups fn l).
Proof. exact skip_partial_eq_proof. Qed.
Theorem C06_skip_partial_single_final :
  forall fn (l : list (row * value)) pss,
    is_split l (map (fun ps => fst ps ++ snd ps) pss) -> agg_dom fn (map snd l) ->
    Permutation (final_groups fn (concat (map (skip_partial_out fn) pss))) (ref_groups fn l).
Proof. exact skip_partial_single_proof. Qed.

(* GROUPING SETS / ROLLUP / CUBE: what the operator does (every row is interned once per set, with the masked-out
   columns NULL and the grouping id appended, into ONE table) = the definition (the union of the per-set aggregations),
   for a non-empty input and pairwise distinct grouping ids. *)
Theorem C06_grouping_sets_union :
  forall fn (ms : list (list bool)) (l : list (row * value)),
    l <> [] -> NoDup (map (fun mo : list bool * BinNums.Z => set_id (fst mo) (snd mo)) (with_ordinals [] ms)) ->
    Permutation (grouping_sets_exec fn ms l) (grouping_sets_def fn ms l).
Proof. exact grouping_sets_union_proof. Qed.
(* the ids are distinct e.g. for ROLLUP(a, b) with a repeated set: 0, 1, 3 and 4 + 1 for the second (a) *)
Example C06_grouping_sets_ids_distinct :
  map (fun mo : list bool * BinNums.Z => set_id (fst mo) (snd mo))
      (with_ordinals [] [[false; false]; [false; true]; [true; true]; [false; true]]) = [0; 1; 3; 5]%Z.
Proof. vm_compute. reflexivity. Qed.

(* The hypotheses are satisfiable on a non-trivial instance, and early emission really happens: GROUP BY (a, b),
   input sorted on b only (PartiallySorted([1])), three batches, batch_size 2: the groups with b = 1 leave before
   the end of the input, a group key recurs across batches, and the run ends with the first-seen grouping. *)
Example C06_nonvacuous :
  let r := fun a b v => ([VInt a; VInt b], VInt v) in
  let b1 := [r 1 1 10; r 2 1 20; r 1 1 30]%Z in
  let b2 := [r 2 1 40; r 3 2 50]%Z in
  let b3 := [r 3 2 60; r 1 2 70]%Z in
  let evs := [EvBatch b1; EvEmit; EvBatch b2; EvEmit; EvBatch b3; EvEmit] in
  Forall is_feed evs /\ sorted_on false [1] (evs_input evs) /\
  option_map fst (ot_run 2 evs (OTab [] (ord_start false [1])))
    = Some [[]; []; []; [([VInt 1; VInt 1], [VInt 10; VInt 30]); ([VInt 2; VInt 1], [VInt 20; VInt 40])]%Z; []; []] /\
  option_map (fun r => concat (fst r)) (ot_run 2 (evs ++ EvDone :: repeat EvEmit 7) (OTab [] (ord_start false [1])))
    = Some (fs_groups (evs_input evs)).
Proof.
  cbv zeta. split; [repeat constructor|]. split; [apply clusteredb_sound; vm_compute; reflexivity|].
  split; vm_compute; reflexivity.
Qed.
