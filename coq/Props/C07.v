(* C07 -- aggregate function state can be split, merged and retracted exactly.
   Theorems about the model of Model/Accum.v (integer / boolean inputs; the instances follow the Rust code). *)
From DF Require Import Base.Prelude Model.Accum Proofs.AccumProofs.
From Coq Require Import Permutation.
Open Scope Z_scope.

(* the optional-monoid instances: MIN MAX BIT_AND BIT_OR BIT_XOR BOOL_AND BOOL_OR *)
Definition og_instances : list accum :=
  [min_acc; max_acc; bit_and_acc; bit_or_acc; bit_xor_acc; bool_and_acc; bool_or_acc].
(* order-insensitive instances whose merge is proved with STATE equality *)
Definition commutative_instances : list accum := [count_acc; sum_acc; avg_acc] ++ og_instances.
(* all instances whose merge is proved with state equality (FIRST/LAST_VALUE and MEDIAN included) *)
Definition exact_instances : list accum :=
  commutative_instances ++ [first_acc false; first_acc true; last_acc false; last_acc true; median_acc].

(* accumulating a batch at once = accumulating any two pieces of it one after the other (hence any split) *)
Theorem C07_update_split :
  forall A, In A (count_distinct_acc :: sum_sliding_acc :: exact_instances) -> update_split A.
Proof.
  intros A H. cbn in H.
  repeat (destruct H as [<- | H]); try (now destruct H).
  - exact count_distinct_update_split.
  - exact ssum_update_split.
  - exact count_update_split.
  - exact sum_update_split.
  - exact avg_update_split.
  - apply ogz_update_split, zmin_assoc.
  - apply ogz_update_split, zmax_assoc.
  - apply ogz_update_split, zland_assoc.
  - apply ogz_update_split, zlor_assoc.
  - apply ogz_update_split, zlxor_assoc.
  - apply ogb_update_split, andb_assoc'.
  - apply ogb_update_split, orb_assoc'.
  - apply first_update_split.
  - apply first_update_split.
  - apply last_update_split.
  - apply last_update_split.
  - exact median_update_split.
Qed.

(* merging the state() rows of independently accumulated partitions into ANY state s, in partition order,
   gives exactly the state of accumulating the concatenated partitions into s *)
Theorem C07_merge_hom : forall A, In A exact_instances -> merge_hom A.
Proof.
  intros A H. cbn in H.
  repeat (destruct H as [<- | H]); try (now destruct H).
  - exact count_merge_hom.
  - exact sum_merge_hom.
  - exact avg_merge_hom.
  - apply ogz_merge_hom, zmin_assoc.
  - apply ogz_merge_hom, zmax_assoc.
  - apply ogz_merge_hom, zland_assoc.
  - apply ogz_merge_hom, zlor_assoc.
  - apply ogz_merge_hom, zlxor_assoc.
  - apply ogb_merge_hom, andb_assoc'.
  - apply ogb_merge_hom, orb_assoc'.
  - apply first_merge_hom.
  - apply first_merge_hom.
  - apply last_merge_hom.
  - apply last_merge_hom.
  - exact median_merge_hom.
Qed.

(* COUNT(DISTINCT): the set's iteration order is unspecified, so the statement is observational: same members,
   same count *)
Theorem C07_merge_hom_count_distinct :
  forall s parts, NoDup s ->
    let merged := a_merge count_distinct_acc s
        (map (fun p => a_state count_distinct_acc (a_update count_distinct_acc (a_init count_distinct_acc) p)) parts) in
    let whole := a_update count_distinct_acc s (concat parts) in
    a_eval count_distinct_acc merged = a_eval count_distinct_acc whole /\ (forall x, In x merged <-> In x whole).
Proof. intros s parts Hs. split; [now apply count_distinct_merge_hom|intros x; apply count_distinct_members]. Qed.

(* one merge_batch call with all the state rows = one call per piece *)
Theorem C07_merge_split : forall A, In A (count_distinct_acc :: exact_instances) -> merge_split A.
Proof.
  intros A H. cbn in H.
  repeat (destruct H as [<- | H]); try (now destruct H).
  - exact count_distinct_merge_split.
  - exact count_merge_split.
  - exact sum_merge_split.
  - exact avg_merge_split.
  - apply ogz_merge_split, zmin_assoc.
  - apply ogz_merge_split, zmax_assoc.
  - apply ogz_merge_split, zland_assoc.
  - apply ogz_merge_split, zlor_assoc.
  - apply ogz_merge_split, zlxor_assoc.
  - apply ogb_merge_split, andb_assoc'.
  - apply ogb_merge_split, orb_assoc'.
  - apply first_merge_split.
  - apply first_merge_split.
  - apply last_merge_split.
  - apply last_merge_split.
  - exact median_merge_split.
Qed.

(* the state rows may be merged in any order (order-insensitive functions): equal STATES *)
Theorem C07_merge_comm :
  forall A, In A commutative_instances ->
  forall s ws ws', Permutation ws ws' -> a_merge A s ws = a_merge A s ws'.
Proof.
  intros A H. cbn in H.
  repeat (destruct H as [<- | H]); try (now destruct H).
  - exact count_merge_comm.
  - exact sum_merge_comm.
  - exact avg_merge_comm.
  - apply ogz_merge_comm; [apply zmin_assoc|apply Z.min_comm].
  - apply ogz_merge_comm; [apply zmax_assoc|apply Z.max_comm].
  - apply ogz_merge_comm; [apply zland_assoc|apply Z.land_comm].
  - apply ogz_merge_comm; [apply zlor_assoc|apply Z.lor_comm].
  - apply ogz_merge_comm; [apply zlxor_assoc|apply Z.lxor_comm].
  - apply ogb_merge_comm; [apply andb_assoc'|apply andb_comm].
  - apply ogb_merge_comm; [apply orb_assoc'|apply orb_comm].
Qed.
(* MEDIAN and COUNT(DISTINCT): any merge order, equal RESULTS (the bag / set is kept in arrival order) *)
Theorem C07_merge_comm_median :
  forall s ws ws', Permutation ws ws' ->
    a_eval median_acc (a_merge median_acc s ws) = a_eval median_acc (a_merge median_acc s ws').
Proof. exact median_merge_comm. Qed.
Theorem C07_merge_comm_count_distinct :
  forall s ws ws', NoDup s -> Permutation ws ws' ->
    a_eval count_distinct_acc (a_merge count_distinct_acc s ws)
    = a_eval count_distinct_acc (a_merge count_distinct_acc s ws').
Proof. exact count_distinct_merge_comm. Qed.
(* FIRST_VALUE / LAST_VALUE without ORDER BY are "first / last row seen": their merge is order-sensitive *)
Theorem C07_first_last_order_sensitive :
  a_eval (first_acc false) (a_merge (first_acc false) (a_init _) [[RInt 1; RBool true]; [RInt 2; RBool true]])
  <> a_eval (first_acc false) (a_merge (first_acc false) (a_init _) [[RInt 2; RBool true]; [RInt 1; RBool true]])
  /\ a_eval (last_acc false) (a_merge (last_acc false) (a_init _) [[RInt 1; RBool true]; [RInt 2; RBool true]])
  <> a_eval (last_acc false) (a_merge (last_acc false) (a_init _) [[RInt 2; RBool true]; [RInt 1; RBool true]]).
Proof. exact first_last_order_sensitive. Qed.

(* sliding windows: retracting the rows that left = never having seen them *)
Theorem C07_retract_count : forall s a b,
  a_retract count_acc (a_update count_acc s (a ++ b)) a = a_update count_acc s b.
Proof. exact count_retract_inverse. Qed.
(* SlidingSumAccumulator (i64 wrap-around included); the state's sum is an i64 *)
Theorem C07_retract_sum : forall s a b, wrap64 (fst s) = fst s ->
  a_retract sum_sliding_acc (a_update sum_sliding_acc s (a ++ b)) a = a_update sum_sliding_acc s b.
Proof. exact ssum_retract_inverse. Qed.
(* AvgAccumulator: observed through evaluate (a frame that lost all its non-NULL rows is NULL again), for every
   reachable state (avg_wf: a positive count comes with a sum; preserved by update_batch) *)
Theorem C07_retract_avg : forall s a b, avg_wf s ->
  a_eval avg_acc (a_retract avg_acc (a_update avg_acc s (a ++ b)) a) = a_eval avg_acc (a_update avg_acc s b).
Proof. exact avg_retract_inverse. Qed.
Theorem C07_avg_wf_reachable :
  avg_wf (a_init avg_acc) /\
  forall s (l : list (option Z)), 0 <= snd s -> avg_wf s ->
    avg_wf (a_update avg_acc s l) /\ 0 <= snd (a_update avg_acc s l).
Proof. split; [exact avg_wf_init|exact avg_wf_update]. Qed.
(* the faithful model of BitXorAccumulator::retract_batch VIOLATES the law: after the only non-NULL row has left
   the frame the accumulator answers 0, recomputation answers NULL (replayed on the implementation: a finding) *)
Theorem C07_bit_xor_retract_refuted :
  exists s a b, a_eval bit_xor_acc (a_retract bit_xor_acc (a_update bit_xor_acc s (a ++ b)) a)
                <> a_eval bit_xor_acc (a_update bit_xor_acc s b).
Proof. exact bit_xor_retract_refuted. Qed.

(* ---- the vectorised accumulator.  One update_batch, for EVERY family (cell type, step function), group
   assignment, filter mask and batch, under the contract of the trait (indices below total_num_groups; a group
   index unknown to the NullState occurs in the batch that introduces it): afterwards the cell of every group g is
   the fold of the step over the live rows (non-NULL, filter = true) of g in batch order, and g counts as "seen"
   iff it was seen before or has a live row -- i.e. per-group scalar accumulation.  Batch splits: apply twice. *)
Theorem C07_groups_eq_scalar :
  forall (F : gfam) st vals gidx filt total g,
  let rows := mk_rows vals gidx filt in
  gwf F st total -> rows_below total rows -> covers (g_seen st) total rows -> (g < total)%nat ->
  gview F (gupdate F st vals gidx filt total) g
  = (fold_left (g_step F) (live_vals g rows) (fst (gview F st g)),
     if g_tracks F then snd (gview F st g) || has_live g rows else true).
Proof. exact gupdate_view. Qed.
(* the well-formedness assumed above is re-established by every update_batch *)
Theorem C07_groups_wf_preserved :
  forall (F : gfam) st vals gidx filt total,
  gwf F st total ->
  (if g_tracks F then True else seen_len (g_seen st) = 0%nat) ->
  length (g_cells (gupdate F st vals gidx filt total)) = total
  /\ (if g_tracks F then seen_len (g_seen (gupdate F st vals gidx filt total)) = total
      else seen_len (g_seen (gupdate F st vals gidx filt total)) = 0%nat).
Proof. exact gupdate_wf. Qed.
(* ... and for the PrimitiveGroupsAccumulator families (SUM MIN MAX BIT_AND BIT_OR BIT_XOR) the (cell, seen) pair of a group IS the
   scalar accumulator's Option state updated with the group's live rows; D = the value domain on which the
   starting value is neutral (i64 range for SUM/MIN/MAX) *)
Theorem C07_groups_prim_is_scalar :
  forall (f : Z -> Z -> Z) (start : Z) (D : Z -> Prop) st vals gidx filt total g,
  (forall a b c, f (f a b) c = f a (f b c)) ->
  (forall x, D x -> f start x = x) ->
  let F := prim_fam f start in
  let rows := mk_rows vals gidx filt in
  gwf F st total -> rows_below total rows -> covers (g_seen st) total rows -> (g < total)%nat ->
  Forall D (live_vals g rows) ->
  (snd (gview F st g) = false -> fst (gview F st g) = start) ->
  to_opt (gview F (gupdate F st vals gidx filt total) g)
  = og_update f (to_opt (gview F st g)) (map Some (live_vals g rows)).
Proof. exact prim_groups_eq_scalar. Qed.

(* evaluate(First n) / state(First n): group n + g continues as group g with cell and seen flag intact ... *)
Theorem C07_emit_first_shifts :
  forall (F : gfam) st n X (f : G_cell F -> X) (nul : X) g,
  gview F (snd (gemit F st (Some n) f nul)) g = gview F st (n + g).
Proof. intros. apply emit_first_shifts. Qed.
(* ... and what is emitted are the first n groups: f(cell) when seen, the NULL row otherwise *)
Theorem C07_emit_first_output :
  forall (F : gfam) st n X (f : G_cell F -> X) (nul dx : X) i,
  (i < n)%nat -> (n <= length (g_cells st))%nat ->
  (g_tracks F = true -> seen_len (g_seen st) = length (g_cells st)) ->
  nth i (fst (gemit F st (Some n) f nul)) dx
  = if snd (gview F st i) then f (fst (gview F st i)) else nul.
Proof. intros. now apply emit_first_output. Qed.

(* convert_to_state (skip-partial-aggregation): the state row of an input row = what a fresh accumulator that saw
   exactly that row (as group 0, with that row's filter value) emits from state(All) *)
Theorem C07_convert_to_state_eq :
  forall i (v : option Z) (fi : option (option bool)),
  let F := fam_of i in
  let filt := option_map (fun x => [x]) fi in
  gconvert F [v] filt = fst (gstate_rows F (gupdate F (ginit F) [v] [O] filt 1) None).
Proof. intros. apply convert_to_state_eq, untracked_ok_all. Qed.
Theorem C07_convert_rowwise :
  forall (F : gfam) v vs f fs,
  gconvert F (v :: vs) (Some (f :: fs)) = gconvert F [v] (Some [f]) ++ gconvert F vs (Some fs)
  /\ gconvert F (v :: vs) None = gconvert F [v] None ++ gconvert F vs None.
Proof. intros. split; reflexivity. Qed.

(* the hypotheses of C07_groups_eq_scalar are satisfiable on a non-trivial history: SUM, two new groups, a NULL,
   and the resulting views *)
Example C07_nonvacuous :
  let F := prim_fam wadd 0 in
  let vals := [Some 5; None; Some 7] in
  let rows := mk_rows vals [0%nat; 1%nat; 0%nat] None in
  gwf F (ginit F) 2 /\ rows_below 2 rows /\ covers (g_seen (ginit F)) 2 rows
  /\ gview F (gupdate F (ginit F) vals [0%nat; 1%nat; 0%nat] None 2) 0 = (12, true)
  /\ gview F (gupdate F (ginit F) vals [0%nat; 1%nat; 0%nat] None 2) 1 = (0, false)
  /\ c07_check (CGroups 2 [GUpd [Some 5; None; Some 7] [0; 1; 0] None 2; GEval (Some 1) [RInt 12]; GEval None [RNull]]) = true.
Proof.
  cbn zeta. split; [split; cbn; auto|]. split; [repeat constructor|]. split.
  - intros g Hg. cbn in Hg.
    assert (Hc : g = 0%nat \/ g = 1%nat) by (destruct g as [|[|g]]; auto; exfalso; destruct Hg as [_ Hg];
      apply PeanoNat.Nat.succ_lt_mono in Hg; apply PeanoNat.Nat.succ_lt_mono in Hg; inversion Hg).
    destruct Hc as [-> | ->].
    + exists (0%nat, Some 5, true). split; [now left|reflexivity].
    + exists (1%nat, None, true). split; [right; now left|reflexivity].
  - repeat split; vm_compute; reflexivity.
Qed.
