(* C03 -- Logical optimization preserves query results and output schema.
   What is proved here: soundness of the rewrite PATTERNS of the anchored optimizer rules, stated over the reference
   algebra of engine E1 (Model/RefSQL.v: the pure combinators eval_query computes every plan node with) and over the
   patterns / side conditions as transcribed BY HAND from the Rust rules (Model/RewriteRules.v).  Each `_sound`
   theorem is quantified over all relations / predicates / expressions satisfying the side condition the Rust rule
   checks and concludes that both sides are the same bag (Permutation) or even the same list; as both sides hold the
   same rows they have the same arity.  Each `_refuted` theorem exhibits a small witness on which the plausible
   WRONG variant of a rule (the kind of defect the property is about) changes the result.
   What is NOT proved here: anything about the Rust rules themselves.  They are tied to these patterns only by
   differential execution of every generated query under all single-rule / leave-one-out optimizer rule sets
   against the unoptimised plan and the reference (harness/h_core/src/bin/c03.rs, lib/props/C03.py). *)
From Coq Require Import List ZArith Bool Permutation.
From DF Require Import Base.Prelude Model.RefSQL Proofs.RefSQLLaws Model.RewriteRules Proofs.RewriteRulesProofs.
Import ListNotations.
Open Scope Z_scope.

Theorem C03_filter_through_projection_sound :
  forall (f : row -> row) (p : row -> bool) R,
  filter p (map f R) = map f (filter (fun r => p (f r)) R).
Proof. exact filter_through_projection_sound. Qed.

Theorem C03_filter_merge_sound :
  forall (p q : row -> tv) R,
  filter (fun r => holds (p r)) (filter (fun r => holds (q r)) R) = filter (fun r => holds (and3 (q r) (p r))) R.
Proof. exact filter_merge_sound. Qed.

Theorem C03_filter_split_conjunction_sound :
  forall (p q : row -> tv) R,
  filter (fun r => holds (and3 (p r) (q r))) R = filter (fun r => holds (q r)) (filter (fun r => holds (p r)) R).
Proof. exact filter_split_conjunction_sound. Qed.

Theorem C03_filter_into_inner_join_left_sound :
  forall on (p : row -> bool) (pl : row -> bool) L R,
  (forall l r, In l L -> In r R -> p (l ++ r) = pl l) ->
  filter p (inner_join on L R) = inner_join on (filter pl L) R.
Proof. exact filter_into_inner_join_left_sound. Qed.

Theorem C03_filter_into_inner_join_right_sound :
  forall on (p : row -> bool) (pr : row -> bool) L R,
  (forall l r, In l L -> In r R -> p (l ++ r) = pr r) ->
  filter p (inner_join on L R) = inner_join on L (filter pr R).
Proof. exact filter_into_inner_join_right_sound. Qed.

Theorem C03_implied_filter_into_inner_join_left_sound :
  forall on (p pl : row -> bool) L R,
  (forall l r, In l L -> In r R -> p (l ++ r) = true -> pl l = true) ->
  filter p (inner_join on L R) = filter p (inner_join on (filter pl L) R).
Proof. exact implied_filter_into_inner_join_left_sound. Qed.

Theorem C03_filter_into_left_join_preserved_sound :
  forall on wr (p pl : row -> bool) L R,
  (forall l x, In l L -> p (l ++ x) = pl l) ->
  filter p (left_join on wr L R) = left_join on wr (filter pl L) R.
Proof. exact filter_into_left_join_preserved_sound. Qed.

Theorem C03_filter_into_right_join_preserved_sound :
  forall on wl (p pr : row -> bool) L R,
  (forall x r, In r R -> p (x ++ r) = pr r) ->
  filter p (right_join on wl L R) = right_join on wl L (filter pr R).
Proof. exact filter_into_right_join_preserved_sound. Qed.

Theorem C03_filter_into_left_join_null_side_refuted :
  exists on wr (p pr : row -> bool) L R,
    (forall l r, length l = 1%nat -> p (l ++ r) = pr r) /\
    ~ Permutation (filter p (left_join on wr L R)) (left_join on wr L (filter pr R)).
Proof. exact filter_into_left_join_null_side_refuted. Qed.

Theorem C03_filter_into_full_join_side_refuted :
  exists on wl wr (p pl : row -> bool) L R,
    (forall l r, length l = 1%nat -> p (l ++ r) = pl l) /\
    ~ Permutation (filter p (full_join on wl wr L R)) (full_join on wl wr (filter pl L) R).
Proof. exact filter_into_full_join_side_refuted. Qed.

Theorem C03_on_conjunct_into_inner_join_left_sound :
  forall (on : row -> row -> bool) (pl : row -> bool) L R,
  inner_join (fun l r => on l r && pl l) L R = inner_join on (filter pl L) R.
Proof. exact on_conjunct_into_inner_join_left_sound. Qed.

Theorem C03_on_conjunct_into_inner_join_right_sound :
  forall (on : row -> row -> bool) (pr : row -> bool) L R,
  inner_join (fun l r => on l r && pr r) L R = inner_join on L (filter pr R).
Proof. exact on_conjunct_into_inner_join_right_sound. Qed.

Theorem C03_on_conjunct_into_left_join_right_sound :
  forall (on : row -> row -> bool) wr (pr : row -> bool) L R,
  left_join (fun l r => on l r && pr r) wr L R = left_join on wr L (filter pr R).
Proof. exact on_conjunct_into_left_join_right_sound. Qed.

Theorem C03_on_conjunct_into_right_join_left_sound :
  forall (on : row -> row -> bool) wl (pl : row -> bool) L R,
  right_join (fun l r => on l r && pl l) wl L R = right_join on wl (filter pl L) R.
Proof. exact on_conjunct_into_right_join_left_sound. Qed.

Theorem C03_on_conjunct_into_left_join_left_refuted :
  exists (on : row -> row -> bool) wr (pl : row -> bool) L R,
    ~ Permutation (left_join (fun l r => on l r && pl l) wr L R) (left_join on wr (filter pl L) R).
Proof. exact on_conjunct_into_left_join_left_refuted. Qed.

Theorem C03_filter_through_union_all_sound :
  forall (p : row -> bool) L R,
  filter p (set_op SUnion true L R) = set_op SUnion true (filter p L) (filter p R).
Proof. exact filter_through_union_all_sound. Qed.

Theorem C03_filter_through_distinct_sound :
  forall (p : row -> bool) R,
  filter p (distinct R) = distinct (filter p R).
Proof. exact filter_through_distinct_sound. Qed.

Theorem C03_filter_through_group_by_sound :
  forall (keyf : row -> row) (aggf : rel -> row) (p pk : row -> bool) R,
  (forall k a, p (k ++ a) = pk k) ->
  filter p (group_rows keyf aggf R) = group_rows keyf aggf (filter (fun r => pk (keyf r)) R).
Proof. exact filter_through_group_by_sound. Qed.

Theorem C03_filter_through_global_aggregate_refuted :
  exists (aggf : rel -> row) (p : row -> bool) (pin : row -> bool) R,
    (forall r, p r = false) /\ (forall r, pin r = false) /\
    ~ Permutation (filter p (global_agg aggf R)) (global_agg aggf (filter pin R)).
Proof. exact filter_through_global_aggregate_refuted. Qed.

Theorem C03_filter_into_join_condition_sound :
  forall (on : row -> row -> bool) (p : row -> bool) (pj : row -> row -> bool) L R,
  (forall l r, In l L -> In r R -> p (l ++ r) = pj l r) ->
  filter p (inner_join on L R) = inner_join (fun l r => on l r && pj l r) L R.
Proof. exact filter_into_join_condition_sound. Qed.

Theorem C03_eliminate_cross_join_sound :
  forall (p : row -> bool) (pj : row -> row -> bool) L R,
  (forall l r, In l L -> In r R -> p (l ++ r) = pj l r) ->
  filter p (inner_join (fun _ _ => true) L R) = inner_join pj L R.
Proof. exact eliminate_cross_join_sound. Qed.

Theorem C03_null_rejecting_sound :
  forall S f d en r e v,
  null_on S r -> eval_expr f d (r :: en) e = Ok v ->
  (null_rejecting S false e = true -> v = VNull) /\
  (null_rejecting S true e = true -> v <> VBool true).
Proof. exact null_rejecting_sound. Qed.

Theorem C03_eliminate_outer_join_left_sound :
  forall on wr (p : row -> bool) L R,
  (forall l, In l L -> p (l ++ nulls wr) = false) ->
  Permutation (filter p (left_join on wr L R)) (filter p (inner_join on L R)).
Proof. exact eliminate_outer_join_left_sound. Qed.

Theorem C03_eliminate_outer_join_right_sound :
  forall on wl (p : row -> bool) L R,
  (forall r, In r R -> p (nulls wl ++ r) = false) ->
  Permutation (filter p (right_join on wl L R)) (filter p (inner_join on L R)).
Proof. exact eliminate_outer_join_right_sound. Qed.

Theorem C03_eliminate_outer_join_full_to_right_sound :
  forall on wl wr (p : row -> bool) L R,
  (forall l, In l L -> p (l ++ nulls wr) = false) ->
  Permutation (filter p (full_join on wl wr L R)) (filter p (right_join on wl L R)).
Proof. exact eliminate_outer_join_full_to_right_sound. Qed.

Theorem C03_eliminate_outer_join_full_to_left_sound :
  forall on wl wr (p : row -> bool) L R,
  (forall r, In r R -> p (nulls wl ++ r) = false) ->
  Permutation (filter p (full_join on wl wr L R)) (filter p (left_join on wr L R)).
Proof. exact eliminate_outer_join_full_to_left_sound. Qed.

Theorem C03_eliminate_outer_join_full_to_inner_sound :
  forall on wl wr (p : row -> bool) L R,
  (forall l, In l L -> p (l ++ nulls wr) = false) ->
  (forall r, In r R -> p (nulls wl ++ r) = false) ->
  Permutation (filter p (full_join on wl wr L R)) (filter p (inner_join on L R)).
Proof. exact eliminate_outer_join_full_to_inner_sound. Qed.

Theorem C03_null_rejecting_filter_drops_padded_right :
  forall f d en e l wr,
  null_rejecting (right_side (len l)) true e = true ->
  is_tt (v <- eval_expr f d ((l ++ nulls wr) :: en) e;; tv_of_value v) = false.
Proof. exact null_rejecting_filter_drops_padded_right. Qed.

Theorem C03_null_rejecting_filter_drops_padded_left :
  forall f d en e r wl, 0 <= wl ->
  null_rejecting (left_side wl) true e = true ->
  is_tt (v <- eval_expr f d ((nulls wl ++ r) :: en) e;; tv_of_value v) = false.
Proof. exact null_rejecting_filter_drops_padded_left. Qed.

Theorem C03_eliminate_outer_join_sound :
  forall f d en e on wl wr L R,
  (forall l, In l L -> len l = wl) ->
  null_rejecting (right_side wl) true e = true ->
  let p := fun r => is_tt (v <- eval_expr f d (r :: en) e;; tv_of_value v) in
  Permutation (filter p (join JLeft on wl wr L R)) (filter p (join (eliminate_outer JLeft false true) on wl wr L R)).
Proof. exact eliminate_outer_join_sound. Qed.

Theorem C03_is_null_not_null_rejecting :
  forall S top a, null_rejecting S top (EIsNull false a) = false.
Proof. exact is_null_not_null_rejecting. Qed.

Theorem C03_is_null_as_null_rejecting_refuted :
  exists on wr (p : row -> bool) L R,
    
    ~ Permutation (filter p (left_join on wr L R)) (filter p (inner_join on L R)).
Proof. exact is_null_as_null_rejecting_refuted. Qed.

Theorem C03_limit_through_projection_sound :
  forall (f : row -> row) off lim R,
  limit_offset off lim (map f R) = map f (limit_offset off lim R).
Proof. exact limit_through_projection_sound. Qed.

Theorem C03_limit_into_union_all_sound :
  forall off n L R, 0 <= off -> 0 <= n ->
  limit_offset off (Some n) (set_op SUnion true L R) =
  limit_offset off (Some n) (set_op SUnion true (limit_offset 0 (Some (off + n)) L) (limit_offset 0 (Some (off + n)) R)).
Proof. exact limit_into_union_all_sound. Qed.

Theorem C03_limit_into_union_all_without_outer_limit_refuted :
  exists off n L R,
    ~ Permutation (limit_offset off (Some n) (set_op SUnion true L R))
                  (set_op SUnion true (limit_offset 0 (Some (off + n)) L) (limit_offset 0 (Some (off + n)) R)).
Proof. exact limit_into_union_all_without_outer_limit_refuted. Qed.

Theorem C03_limit_over_limit_sound :
  forall ps pf cs cf R,
  0 <= ps -> 0 <= cs -> (forall p, pf = Some p -> 0 <= p) -> (forall c, cf = Some c -> 0 <= c) ->
  limit_offset ps pf (limit_offset cs cf R) =
  limit_offset (fst (combine_limit ps pf cs cf)) (snd (combine_limit ps pf cs cf)) R.
Proof. exact limit_over_limit_sound. Qed.

Theorem C03_limit_into_sort_fetch_sound :
  forall ds off n (l : list (row * row)), 0 <= off -> 0 <= n ->
  limit_offset off (Some n) (map snd (sort_fetch ds None l)) =
  limit_offset off (Some n) (map snd (sort_fetch ds (Some (off + n)) l)).
Proof. exact limit_into_sort_fetch_sound. Qed.

Theorem C03_limit_into_sort_existing_fetch_sound :
  forall ds off n k (l : list (row * row)), 0 <= off -> 0 <= n -> 0 <= k ->
  limit_offset off (Some n) (map snd (sort_fetch ds (Some k) l)) =
  limit_offset off (Some n) (map snd (sort_fetch ds (Some (Z.min k (off + n))) l)).
Proof. exact limit_into_sort_existing_fetch_sound. Qed.

Theorem C03_limit_into_left_join_sound :
  forall on wr off n L R, 0 <= off -> 0 <= n ->
  limit_offset off (Some n) (left_join on wr L R) =
  limit_offset off (Some n) (left_join on wr (limit_offset 0 (Some (off + n)) L) R).
Proof. exact limit_into_left_join_sound. Qed.

Theorem C03_limit_into_right_join_sound :
  forall on wl off n L R, 0 <= off -> 0 <= n ->
  limit_offset off (Some n) (right_join on wl L R) =
  limit_offset off (Some n) (right_join on wl L (limit_offset 0 (Some (off + n)) R)).
Proof. exact limit_into_right_join_sound. Qed.

Theorem C03_eliminate_filter_true_sound :
  forall R : rel, filter (fun _ => holds TT) R = R.
Proof. exact eliminate_filter_true_sound. Qed.

Theorem C03_eliminate_filter_false_or_null_sound :
  forall (t : tv) (R : rel), t <> TT -> filter (fun _ => holds t) R = [].
Proof. exact eliminate_filter_false_or_null_sound. Qed.

Theorem C03_eliminate_limit_noop_sound :
  forall R : rel, limit_offset 0 None R = R.
Proof. exact eliminate_limit_noop_sound. Qed.

Theorem C03_eliminate_limit_fetch_zero_sound :
  forall off (R : rel), limit_offset off (Some 0) R = [].
Proof. exact eliminate_limit_fetch_zero_sound. Qed.

Theorem C03_propagate_empty_join_sound :
  forall on wl wr (L R : rel),
  
  join JInner on wl wr [] R = [] /\ join JInner on wl wr L [] = [] /\
  join JLeft on wl wr [] R = [] /\ join JRight on wl wr L [] = [] /\ join JFull on wl wr [] [] = [] /\
  
  join JLeft on wl wr L [] = map (fun l => l ++ nulls wr) L /\
  join JRight on wl wr [] R = map (fun r => nulls wl ++ r) R /\
  join JFull on wl wr L [] = map (fun l => l ++ nulls wr) L /\
  join JFull on wl wr [] R = map (fun r => nulls wl ++ r) R.
Proof. exact propagate_empty_join_sound. Qed.

Theorem C03_propagate_empty_left_join_right_refuted :
  exists on wl wr L, join JLeft on wl wr L [] <> [].
Proof. exact propagate_empty_left_join_right_refuted. Qed.

Theorem C03_propagate_empty_semi_anti_sound :
  forall on (L R : rel),
  semi_join on [] R = [] /\ semi_join on L [] = [] /\ anti_join on [] R = [] /\ anti_join on L [] = L.
Proof. exact propagate_empty_semi_anti_sound. Qed.

Theorem C03_propagate_empty_unary_sound :
  forall (p : row -> bool) (f : row -> row) off lim ds keyf aggf,
  filter p [] = [] /\ map f [] = [] /\ limit_offset off lim [] = [] /\ distinct [] = [] /\
  map snd (sort_pairs ds []) = [] /\ group_rows keyf aggf [] = [].
Proof. exact propagate_empty_unary_sound. Qed.

Theorem C03_propagate_empty_global_aggregate_refuted :
  forall aggf, global_agg aggf [] <> [].
Proof. exact propagate_empty_global_aggregate_refuted. Qed.

Theorem C03_propagate_empty_union_sound :
  forall L R : rel,
  set_op SUnion true [] R = R /\ set_op SUnion true L [] = L /\ set_op SUnion true [] [] = [].
Proof. exact propagate_empty_union_sound. Qed.

Theorem C03_distinct_as_group_by_sound :
  forall R,
  Permutation (distinct R) (group_rows (fun r => r) (fun _ => []) R).
Proof. exact distinct_as_group_by_sound. Qed.

Theorem C03_filter_null_join_keys_sound :
  forall (kl kr : row -> value) (rest : row -> row -> bool) L R,
  let on := fun l r => holds (eq3 (kl l) (kr r)) && rest l r in
  inner_join on L R =
  inner_join on (filter (fun l => negb (is_null (kl l))) L) (filter (fun r => negb (is_null (kr r))) R).
Proof. exact filter_null_join_keys_sound. Qed.

Theorem C03_filter_null_join_keys_left_join_sound :
  forall (kl kr : row -> value) (rest : row -> row -> bool) wr L R,
  let on := fun l r => holds (eq3 (kl l) (kr r)) && rest l r in
  left_join on wr L R = left_join on wr L (filter (fun r => negb (is_null (kr r))) R).
Proof. exact filter_null_join_keys_left_join_sound. Qed.

Theorem C03_exists_to_semi_join_sound :
  forall on (L R : rel),
  filter (fun l => negb (Nat.eqb (length (filter (on l) R)) 0)) L = semi_join on L R.
Proof. exact exists_to_semi_join_sound. Qed.

Theorem C03_not_exists_to_anti_join_sound :
  forall on (L R : rel),
  filter (fun l => Nat.eqb (length (filter (on l) R)) 0) L = anti_join on L R.
Proof. exact not_exists_to_anti_join_sound. Qed.

Theorem C03_in_subquery_to_semi_join_sound :
  forall (x : row -> value) (vs : list value) (L : rel),
  filter (fun l => holds (in3 (x l) vs)) L = semi_join (fun l r => holds (eq3 (x l) (hd VNull r))) L (map (fun v => [v]) vs).
Proof. exact in_subquery_to_semi_join_sound. Qed.

Theorem C03_cols_all_left_sound :
  forall f d (en : env) (l x : row) e,
  cols_all (fun i => (0 <=? i) && (i <? len l)) e = true ->
  eval_expr f d ((l ++ x) :: en) e = eval_expr f d (l :: en) e.
Proof. exact cols_all_left_sound. Qed.

Theorem C03_cols_all_left_filter_side_condition :
  forall f d (en : env) e (L : rel),
  (forall l : row, In l L -> cols_all (fun i => (0 <=? i) && (i <? len l)) e = true) ->
  let p := fun r : row => is_tt (v <- eval_expr f d (r :: en) e;; tv_of_value v) in
  forall l x : row, In l L -> p (l ++ x) = p l.
Proof. exact cols_all_left_filter_side_condition. Qed.

Theorem C03_duplicated_sort_key_comparator_sound :
  forall ds1 d ds2 a1 a2 b1 b2 x y i,
  length a1 = length ds1 -> length b1 = length ds1 -> nth_error a1 i = Some x -> nth_error b1 i = Some y ->
  keys_cmp (ds1 ++ d :: ds2) (a1 ++ x :: a2) (b1 ++ y :: b2) = keys_cmp (ds1 ++ ds2) (a1 ++ a2) (b1 ++ b2).
Proof. exact duplicated_sort_key_comparator_sound. Qed.

Theorem C03_eliminate_duplicated_sort_key_sound :
  forall ds1 d ds2 (ks1 ks2 : list (row -> value)) k i (R : rel),
  length ks1 = length ds1 -> nth_error ks1 i = Some k ->
  let keys := fun (ks : list (row -> value)) (r : row) => map (fun kf => kf r) ks in
  map snd (sort_pairs (ds1 ++ d :: ds2) (map (fun r => (keys (ks1 ++ k :: ks2) r, r)) R)) =
  map snd (sort_pairs (ds1 ++ ds2) (map (fun r => (keys (ks1 ++ ks2) r, r)) R)).
Proof. exact eliminate_duplicated_sort_key_sound. Qed.

(* the hypotheses are satisfiable on non-trivial instances: b.c0 = 5 is null-rejecting for the right side of a
   LEFT join (left width 1); on L = {1, 2}, R = {(1,5), (1,7)} the join has a matching and a NULL-padded row, the
   filter keeps a row, and LEFT and INNER give the same bag *)
Example C03_nonvacuous :
  let e := ECmp CEq (ECol 0 2) (ELit (VInt 5)) in
  let p := fun r => is_tt (v <- eval_expr 5 [] [r] e;; tv_of_value v) in
  let on := fun l r : row => match l, r with [VInt a], VInt b :: _ => a =? b | _, _ => false end in
  let L := [[VInt 1]; [VInt 2]] in
  let R := [[VInt 1; VInt 5]; [VInt 1; VInt 7]] in
  null_rejecting (right_side 1) true e = true /\
  left_join on 2 L R = [[VInt 1; VInt 1; VInt 5]; [VInt 1; VInt 1; VInt 7]; [VInt 2; VNull; VNull]] /\
  filter p (left_join on 2 L R) = [[VInt 1; VInt 1; VInt 5]] /\
  filter p (inner_join on L R) = [[VInt 1; VInt 1; VInt 5]] /\
  cols_all (fun i => (0 <=? i) && (i <? 1)) (ECmp CLt (ECol 0 0) (ELit (VInt 2))) = true /\
  combine_limit 1 (Some 3) 2 (Some 10) = (3, Some 3).
Proof. vm_compute. repeat split; reflexivity. Qed.
