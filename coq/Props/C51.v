(* C51 -- the command-line client splits scripts at semicolons outside string literals and quoted
   identifiers, and its CSV / TSV / JSON / NDJSON encodings can be read back.
   Text = list of code points (split) / bytes (formats).  39 = single quote, 34 = double quote, 59 = ';'. *)
From DF Require Import Base.Prelude Model.CliSplit Proofs.CliSplitProofs.
Open Scope Z_scope.

(* The two-flag loop of split_from_semicolon computes, for every input, exactly what the reference
   lexer (Normal / InSingle / InDouble; a region ends at the quote that opened it) specifies: cut at
   every ';' read in state Normal and nowhere else, drop blank segments, trim, append ';'. *)
Theorem C51_toggle_eq_lexer : forall s, split_model s = ref_split s.
Proof. exact toggle_eq_lexer. Qed.

(* Position i is a cut exactly when it holds ';' and the text before it leaves the lexer in Normal. *)
Theorem C51_cuts_exactly_outer_semicolons : forall s st i,
  nth i (seps st s) false = true <->
  nth i s 0 = 59 /\ (Z.of_nat i < Z.of_nat (length s)) /\ lex_run st (firstn i s) = Normal.
Proof. exact seps_spec. Qed.

(* Nothing is lost: the segments joined with ';' are the input character for character, and the
   reported statements are these segments, blank ones dropped, trimmed (Unicode White_Space) + ';'. *)
Theorem C51_concat_preserves_text : forall s,
  join59 (segments s) = s /\ split_model s = render (segments s).
Proof. exact concat_preserves_text. Qed.

(* Scripts built from statements made of plain characters, string literals with ANY value (quotes
   doubled) and quoted identifiers with ANY value, joined by ';', come back statement by statement. *)
Theorem C51_no_split_inside_quotes : forall script : list (list tok),
  Forall (fun ts => forallb tok_ok ts = true) script ->
  split_model (join59 (map stmt_text script)) = render (map stmt_text script).
Proof. exact no_split_inside_quotes. Qed.

(* Known finding: backtick-quoted identifiers (valid in the client's default dialect) are cut. *)
Theorem C51_backtick_refuted :
  exists s, split_model s <> ref_split_bt s /\ length (split_model s) = 2%nat /\ length (ref_split_bt s) = 1%nat.
Proof. exact backtick_refuted. Qed.

(* CSV (d = 44) and TSV (d = 9), in fact any delimiter other than the quote, CR and LF: a strict
   RFC-4180 reader gives back every table of non-empty records of arbitrary byte strings. *)
Theorem C51_csv_roundtrip : forall d rows, d <> 34 -> d <> 10 -> d <> 13 ->
  Forall (fun r => r <> []) rows -> parse_csv d (write_csv d rows) = Some rows.
Proof. exact csv_roundtrip. Qed.

(* JSON / NDJSON string tokens: reading gives back the value and stops exactly behind the token. *)
Theorem C51_json_string_roundtrip : forall s rest,
  json_read_string (json_write_string s ++ rest) = Some (s, rest).
Proof. exact json_string_roundtrip. Qed.

(* non-vacuity: a script whose statements hold ; ' and doubled quotes inside literals / identifiers,
   blank statements and surrounding white space; a table with delimiters, quotes, CR, LF, an empty
   single-field record; a string with quote, backslash and control characters *)
Example C51_nonvacuous :
  (* script: select 'a;''bD' ;; select 1 as Dx;DDy'D ; nbsp   (D = the double quote character) *)
  split_model [32;115;101;108;101;99;116;32;39;97;59;39;39;98;34;39;32;59;59;32;115;101;108;101;99;116;32;49;32;97;115;32;34;120;59;34;34;121;39;34;10;59;160]
  = [[115;101;108;101;99;116;32;39;97;59;39;39;98;34;39;59];
     [115;101;108;101;99;116;32;49;32;97;115;32;34;120;59;34;34;121;39;34;59]]
  /\ split_model (join59 (map stmt_text [[TPlain 120; TStr [59;39;34]]; [TIdent [34;59]; TPlain 32]]))
     = [[120;39;59;39;39;34;39;59]; [34;34;34;59;34;59]]
  /\ write_csv 44 [[[97;44;98]; [34]]; [[]]; [[13;10]; []]] = [34;97;44;98;34;44;34;34;34;34;10;34;34;10;34;13;10;34;44;10]
  /\ parse_csv 44 [34;97;44;98;34;44;34;34;34;34;10;34;34;10;34;13;10;34;44;10] = Some [[[97;44;98]; [34]]; [[]]; [[13;10]; []]]
  /\ write_csv 9 [[[97;9;98]; [44]]] = [34;97;9;98;34;9;44;10]
  /\ json_write_string [34;92;10;1;195;169] = [34;92;34;92;92;92;110;92;117;48;48;48;49;195;169;34].
Proof. vm_compute. repeat split; reflexivity. Qed.
