(* C43 -- configuration options round-trip through their text form.
   Model: Model/ConfigText.v (hand-written per-type text domains, Option<F>, the options state machine);
   enum spelling tables and the key -> domain tables: Gen/ConfigEnums.v (generated from the Rust source). *)
From Coq Require Import List NArith ZArith Bool String Ascii Lia.
From DF Require Import Base.Prelude Model.ConfigText Proofs.ConfigTextProofs Gen.ConfigEnums.
Import ListNotations.
Open Scope list_scope.
Open Scope Z_scope.

(* Every value a field can hold prints to a text that parses back to that value -- every domain: booleans,
   unsigned / signed integers of any width (no bound other than the type's range), the usize wrappers,
   the parallelism option, u8, strings (lower-cased ones included), every enum table, category lists, Option<F>. *)
Theorem C43_parse_print_id : forall d v, wf_dom d -> valid d v -> parse d (print d v) = Some v.
Proof. exact parse_print_id. Qed.

(* Whatever spelling is accepted, the value it denotes is one the field can hold ... *)
Theorem C43_parse_yields_valid : forall d t v, wf_dom d -> parse d t = Some v -> valid d v.
Proof. exact parse_valid. Qed.

(* ... so printing canonicalises: the printed form of an accepted text is accepted and denotes the same value. *)
Theorem C43_print_parse_canonical : forall d t v, wf_dom d -> parse d t = Some v -> parse d (print d v) = Some v.
Proof. exact print_parse_canonical. Qed.

(* The integer core, stated on its own: Rust's from_str_radix(10) with per-step overflow checks reads back the
   decimal Display of every number of the type, for every type maximum / minimum. *)
Theorem C43_unsigned_round_trip : forall n tmax, 0 <= n <= tmax -> parse_uint tmax (print_z n) = Some n.
Proof. exact parse_uint_print. Qed.

Theorem C43_signed_round_trip : forall z tmin tmax, tmin <= 0 <= tmax -> tmin <= z <= tmax ->
  parse_int tmin tmax (print_z z) = Some z.
Proof. exact parse_int_print. Qed.

(* A rejected set (invalid value or unknown key) leaves every option unchanged, provided the addressed field is
   not an unset Option<F> of the blanket impl. *)
Theorem C43_invalid_rejected_unchanged : forall o k t o',
  set o k t = (false, o') ->
  (forall f, In f o -> key_matches f k = true -> lazy_unset f = false) ->
  o' = o.
Proof. exact invalid_rejected_unchanged. Qed.

Theorem C43_unknown_key_rejected : forall o k t, no_match o k -> set o k t = (false, o).
Proof. exact unknown_key_rejected. Qed.

(* The excluded case is a real behaviour of the code as written: get_or_insert_with(Default::default) runs before
   the value is parsed.  Witness: max_predicate_cache_size (None) set to "abc" is rejected, entries() shows "0". *)
Theorem C43_invalid_on_unset_optional_refuted :
  exists o k t o', set o k t = (false, o') /\ entries o' <> entries o.
Proof. exact invalid_on_unset_optional_refuted. Qed.

(* After a successful set, entries() shows the printed form of the parsed value for the addressed key and every
   other entry is unchanged. *)
Theorem C43_set_get : forall o k t o', set o k t = (true, o') ->
  exists pre f post v,
    o = pre ++ f :: post /\ no_match pre k /\ key_matches f k = true /\
    parse (fdom f) t = Some v /\
    o' = pre ++ with_val f (Some v) :: post /\
    entries o' = entries pre ++ (fkey f, Some (print (fdom f) v)) :: entries post.
Proof. exact set_get. Qed.

(* Round trip: setting a key from the text its entry reports leaves the configuration unchanged. *)
Theorem C43_set_display_noop : forall pre f post v,
  no_match pre (fkey f) -> fval f = Some v -> wf_dom (fdom f) -> valid (fdom f) v ->
  set (pre ++ f :: post) (fkey f) (print (fdom f) v) = (true, pre ++ f :: post).
Proof. exact set_display_noop. Qed.

(* SET then SHOW then SET again: the reported text is a fixed point. *)
Theorem C43_set_print_fixed_point : forall o k t o',
  (forall f, In f o -> wf_dom (fdom f)) ->
  set o k t = (true, o') ->
  exists f v, In f o' /\ key_matches f k = true /\ fval f = Some v /\
              set o' k (print (fdom f) v) = (true, o').
Proof. exact set_print_fixed_point. Qed.

(* The hypotheses hold for everything generated from the source: all enum tables are consistent, and the domain of
   every key of the session configuration and of the CSV / JSON / Parquet table options is well formed. *)
Theorem C43_generated_enums_ok : forallb enum_ok all_enums = true /\ cats_ok enum_MetricCategory = true.
Proof. vm_compute. split; reflexivity. Qed.

Theorem C43_generated_tables_wf : forall par, 0 < par <= u64max ->
  Forall (fun r => wf_dom (snd r)) (session_keys par) /\ Forall (fun r => wf_dom (snd r)) (csv_keys par) /\
  Forall (fun r => wf_dom (snd r)) (json_keys par) /\ Forall (fun r => wf_dom (snd r)) (parquet_keys par).
Proof.
  intros par H.
  split; [|split; [|split]]; apply inst_rows_wf; try exact H; vm_compute; reflexivity.
Qed.

(* non-vacuity: a history on three generated keys -- "+007" canonicalises to "7", "ZSTD" to "zstd", a spaced,
   mixed-case, duplicated category list to "rows,timing"; "0" is rejected by the non-zero wrapper and changes nothing *)
Definition demo_opts : opts :=
  [ {| fkey := L "datafusion.execution.batch_size"; flen := false; fdom := DUint u64max 1; fval := Some (VNum 8192) |};
    {| fkey := L "datafusion.execution.spill_compression"; flen := true; fdom := DEnum enum_SpillCompression; fval := Some (VEnum 2%N) |};
    {| fkey := L "datafusion.explain.analyze_categories"; flen := true; fdom := DCats enum_MetricCategory; fval := Some VAll |} ].

Example C43_nonvacuous :
  let s1 := snd (set demo_opts (L "datafusion.execution.batch_size") (L "+007")) in
  let s2 := snd (set s1 (L "datafusion.execution.spill_compression") (L "ZSTD")) in
  let s3 := snd (set s2 (L "datafusion.explain.analyze_categories") (L " Rows , TIMING,timing")) in
  map snd (entries s3) = [Some (L "7"); Some (L "zstd"); Some (L "rows,timing")]
  /\ set s3 (L "datafusion.execution.batch_size") (L "0") = (false, s3)
  /\ set s3 (L "datafusion.execution.batch_siz") (L "1") = (false, s3)
  /\ set s3 (L "datafusion.explain.analyze_categories") (L "rows,timing") = (true, s3).
Proof. vm_compute. repeat split; reflexivity. Qed.

(* the key resolution of the code as written: scalar fields whose set ignores the key remainder accept
   "key.<anything>"; the wrappers that check it do not *)
Example C43_trailing_segment :
  resolve (session_keys 16) (L "datafusion.execution.coalesce_batches.zzz") = Some (DBool true)
  /\ resolve (session_keys 16) (L "datafusion.execution.batch_size.zzz") = None.
Proof. vm_compute. split; reflexivity. Qed.
