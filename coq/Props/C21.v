(* C21 -- disk usage accounting of spill files stays exact (accounting half of the property;
   the byte-level IPC round trip is Arrow's and is tied by differential execution only). *)
From DF Require Import Base.Prelude Model.DiskUsage Proofs.DiskUsageProofs.
Open Scope Z_scope.

(* For every history of create / write (succeeding, rejected by the limit, or failing in I/O) /
   release / limit change, of any length: the reported usage equals the bytes held by live files. *)
Theorem C21_usage_exact :
  forall lim ops, let s := fst (run step (init lim) ops) in
    used s = live_bytes (files s) /\ Forall (fun x => 0 <= fusage x) (files s).
Proof. exact run_inv. Qed.

(* ... and returns to zero once every file is released, whatever failed in between. *)
Theorem C21_zero_when_released :
  forall lim ops, let s := fst (run step (init lim) ops) in all_released s = true -> used s = 0.
Proof. exact released_zero. Qed.

(* A rejected or failed write changes nothing. *)
Theorem C21_failed_write_unchanged :
  forall s f len io s' r u fs,
    step s (Write f len io) = (s', OWrite r u fs) -> r <> 0 -> s' = s /\ u = used s.
Proof. exact failed_write_unchanged. Qed.

(* No write is admitted beyond the limit in force. *)
Theorem C21_admitted_within_limit :
  forall s f len io s' u fs,
    step s (Write f len io) = (s', OWrite 0 u fs) -> 0 < len ->
    u = used s' /\ used s' = used s + len /\ used s' <= limit s'.
Proof. exact admitted_within_limit. Qed.

Theorem C21_never_beyond_limit :
  forall lim ops, 0 <= lim -> forallb no_setlimit ops = true ->
    used (fst (run step (init lim) ops)) <= lim.
Proof. exact never_beyond_limit. Qed.

(* The upstream code at the pinned commit violated C21_zero_when_released (repaired by a fix: commit). *)
Theorem C21_upstream_leak_refuted :
  exists ops, let s := fst (run step_leaky (init 5000) ops) in all_released s = true /\ used s <> 0.
Proof. exact leaky_refuted. Qed.

(* non-vacuity: a history with a limit rejection, an I/O failure, a limit change and releases *)
Example C21_nonvacuous :
  let ops := [Create; Create; Write 0 1000 true; Write 1 3000 true; Write 0 2000 true;
              Write 0 500 false; SetLimit 9000; Write 0 2000 true; Release 0; Release 1] in
  snd (run step (init 5000) ops) =
    [OCreated 0 0; OCreated 1 0; OWrite 0 1000 1000; OWrite 0 4000 3000; OWrite 1 4000 1000;
     OWrite 2 4000 1000; OLimit 4000; OWrite 0 6000 3000; OReleased 3000; OReleased 0]
  /\ all_released (fst (run step (init 5000) ops)) = true.
Proof. vm_compute. split; reflexivity. Qed.
