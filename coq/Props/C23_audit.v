From DF Require Import Base.Prelude Model.Interval Proofs.IntervalProofs Props.C23.
Open Scope Z_scope.
Check C23_add_sound : forall M a b x y, wfI M a -> wfI M b -> inI x a -> inI y b ->
  in_range M (x + y) = true -> inI (x + y) (iadd M a b).
Check C23_sub_sound : forall M a b x y, wfI M a -> wfI M b -> inI x a -> inI y b ->
  in_range M (x - y) = true -> inI (x - y) (isub M a b).
Check C23_mul_sound : forall M a b x y, wfI M a -> wfI M b -> inI x a -> inI y b ->
  in_range M (x * y) = true -> mul_overflow_both_zero M a b = false -> inI (x * y) (imul M a b).
Check C23_mul_both_zero_overflow_refuted :
  exists a b x y, wfI I8 a /\ wfI I8 b /\ inI x a /\ inI y b /\ in_range I8 (x * y) = true /\
                  ~ inI (x * y) (imul I8 a b).
Check C23_div_sound : forall M a b x y, wfI M a -> wfI M b -> inI x a -> inI y b -> y <> 0 ->
  in_range M (Z.quot x y) = true -> zero_topped a = false -> zero_topped b = false ->
  inI (Z.quot x y) (idiv M a b).
Check C23_div_zero_topped_refuted :
  (exists a b x y, wfI I64 a /\ wfI I64 b /\ inI x a /\ inI y b /\ y <> 0 /\ in_range I64 (Z.quot x y) = true /\
                   idiv I64 a b = (Some (-1), Some 0) /\ ~ inI (Z.quot x y) (idiv I64 a b)) /\
  (exists a b x y, wfI I64 a /\ wfI I64 b /\ inI x a /\ inI y b /\ y <> 0 /\ in_range I64 (Z.quot x y) = true /\
                   idiv I64 a b = (None, Some (-6)) /\ ~ inI (Z.quot x y) (idiv I64 a b)).
Check C23_comparison_sound : forall op a b x y, inI x a -> inI y b -> inB (cmp_sem op x y) (apply_cmp op a b).
Check C23_noteq_sound : forall a b x y, inI x a -> inI y b -> inB (negb (x =? y)) (bnot (iequal a b)).
Check C23_and_sound : forall a b p q, inB p a -> inB q b -> inB (p && q) (band a b).
Check C23_or_sound : forall a b p q, inB p a -> inB q b -> inB (p || q) (bor a b).
Check C23_not_sound : forall a p, inB p a -> inB (negb p) (bnot a).
Check C23_intersect_sound : forall a b x, inI x a -> inI x b -> exists i, intersect a b = Some i /\ inI x i.
Check C23_intersect_exact : forall a b i x, intersect a b = Some i -> inI x i -> inI x a /\ inI x b.
Check C23_intersect_none_disjoint : forall a b x, intersect a b = None -> inI x a -> inI x b -> False.
Check C23_union_sound : forall a b x, inI x a \/ inI x b -> inI x (union a b).
Check C23_contains_value_correct : forall a v, contains_value a v = true <-> inI v a.
Check C23_contains_true : forall a b x, contains a b = B_TRUE -> inI x b -> inI x a.
Check C23_contains_false : forall a b x, contains a b = B_FALSE -> inI x a -> inI x b -> False.
Check C23_cardinality_correct : forall l u c, l <= u -> cardinality (Some l, Some u) = Some c ->
  c = u - l + 1 /\ forall x, inI x (Some l, Some u) <-> l <= x < l + c.
Check C23_satisfy_greater_sound : forall M l r strict x y, inI x l -> inI y r -> gt_sem strict x y = true ->
  exists l' r', satisfy_greater M l r strict = Some (l', r') /\ inI x l' /\ inI y r'.
Check C23_propagate_comparison_sound : forall M op l r x y, inI x l -> inI y r -> cmp_sem op x y = true ->
  exists l' r', propagate_comparison M op B_TRUE l r = Some (l', r') /\ inI x l' /\ inI y r'.
Check C23_propagate_comparison_not_true_refuted :
  propagate_comparison I64 Gt B_FALSE (Some 0, Some 10) (Some 100, Some 200)
    = Some ((Some 100, Some 200), (Some 0, Some 10)) /\ cmp_sem Gt 0 100 = false /\
  propagate_comparison I64 Gt B_UNC (Some 0, Some 10) (Some 0, Some 10) = None /\
  propagate_comparison I64 Eq B_FALSE (Some 0, Some 10) (Some 0, Some 10) = None.
Check C23_propagate_arithmetic_sound : forall M op parent l r x y p,
  0 <= M -> op = Plus \/ op = Minus ->
  wfI M parent -> wfI M l -> wfI M r -> inI x l -> inI y r ->
  in_range M x = true -> in_range M y = true ->
  arith_sem op x y = Some p -> inI p parent ->
  exists l' r', propagate_arithmetic M op parent l r = Some (l', r') /\ inI x l' /\ inI y r'.
Check C23_propagate_arithmetic_muldiv_refuted :
  propagate_arithmetic I64 Divide (Some 3, Some 3) (Some 7, Some 7) (Some 2, Some 2) = None /\
  arith_sem Divide 7 2 = Some 3 /\
  propagate_arithmetic I64 Multiply (Some 0, Some 10) (Some (-5), Some 5) (Some 0, Some 5)
    = Some ((Some 0, Some 5), (Some 0, Some 5)) /\
  arith_sem Multiply (-5) 0 = Some 0 /\ inI (-5) (Some (-5), Some 5) /\ ~ inI (-5) (Some 0, Some 5).
Check C23_evaluate_bounds_arith_sound : forall M ranges env e v, 0 <= M -> env_ok M ranges env ->
  anode_ok M ranges e -> aeval M env e = Some v -> inI v (abounds M ranges e).
Check C23_evaluate_bounds_sound : forall M ranges env p t, 0 <= M -> env_ok M ranges env ->
  pnode_ok M ranges p -> peval M env p = Some t -> inB t (pbounds M ranges p).
Print Assumptions C23_add_sound.
Print Assumptions C23_sub_sound.
Print Assumptions C23_mul_sound.
Print Assumptions C23_mul_both_zero_overflow_refuted.
Print Assumptions C23_div_sound.
Print Assumptions C23_div_zero_topped_refuted.
Print Assumptions C23_comparison_sound.
Print Assumptions C23_noteq_sound.
Print Assumptions C23_and_sound.
Print Assumptions C23_or_sound.
Print Assumptions C23_not_sound.
Print Assumptions C23_intersect_sound.
Print Assumptions C23_intersect_exact.
Print Assumptions C23_intersect_none_disjoint.
Print Assumptions C23_union_sound.
Print Assumptions C23_contains_value_correct.
Print Assumptions C23_contains_true.
Print Assumptions C23_contains_false.
Print Assumptions C23_cardinality_correct.
Print Assumptions C23_satisfy_greater_sound.
Print Assumptions C23_propagate_comparison_sound.
Print Assumptions C23_propagate_comparison_not_true_refuted.
Print Assumptions C23_propagate_arithmetic_sound.
Print Assumptions C23_propagate_arithmetic_muldiv_refuted.
Print Assumptions C23_evaluate_bounds_arith_sound.
Print Assumptions C23_evaluate_bounds_sound.
Print Assumptions C23_nonvacuous.
