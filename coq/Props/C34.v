(* C34 -- scalar values, arrays and casts are mutually consistent.
   Model: Model/ScalarModel.v (datafusion/common/src/scalar/mod.rs: PartialEq / PartialOrd / Hash, integer
   casts, add_checked; datafusion/common/src/utils/mod.rs: compare_rows, bisect, linear_search) for the
   families Null, Boolean, Int8..Int64, UInt8..UInt64, Utf8 / LargeUtf8 / Utf8View, Timestamp(unit, tz),
   Decimal128(p, s).  "Within a type" = equal [sv_ty] (the Arrow data type, time zone / precision / scale
   included). *)
From Coq Require Import Sorting.Sorted.
From DF Require Import Base.Prelude Model.ScalarModel Proofs.ScalarModelProofs.
Open Scope Z_scope.

(* partial_cmp restricted to one data type is a total order: always defined, reflexive, antisymmetric,
   transitive (with strictness preserved), `Some Equal` exactly on `==` values, and the typed NULL is the
   smallest value (so an ascending NULLS FIRST sort is the order of partial_cmp). *)
Theorem C34_cmp_total_order :
  forall a b d, sv_ty a = sv_ty b -> sv_ty b = sv_ty d ->
    (exists x, sv_cmp a b = Some x) /\
    sv_cmp a a = Some Eq /\
    sv_cmp b a = option_map CompOpp (sv_cmp a b) /\
    (forall x y, sv_cmp a b = Some x -> sv_cmp b d = Some y -> x <> Gt -> y <> Gt ->
                 exists z, sv_cmp a d = Some z /\ z <> Gt /\ (x = Lt \/ y = Lt -> z = Lt)) /\
    (sv_cmp a b = Some Eq <-> sv_eqb a b = true) /\
    (sv_is_null a = true -> sv_is_null b = false -> sv_cmp a b = Some Lt).
Proof. exact cmp_total_order_pf. Qed.

(* `a == b` implies that `Hash` feeds the same bytes to the hasher (time zone ignored by both, decimal
   precision / scale used by both, string kind ignored by Hash only) *)
Theorem C34_eq_hash_consistent :
  forall a b, sv_eqb a b = true -> sv_enc a = sv_enc b.
Proof. exact eq_hash_consistent_pf. Qed.

(* casting an integer to a type containing the source type and back is the identity ... *)
Theorem C34_int_cast_roundtrip :
  forall t1 t2 z,
    in_range t1 z = true -> subrange t1 t2 = true ->
    cast_int t2 (Some z) = Some (Some z) /\ cast_int t1 (Some z) = Some (Some z).
Proof. exact int_cast_roundtrip_pf. Qed.
(* ... and a cast fails exactly when the value is outside the target range *)
Theorem C34_int_cast_fails_iff :
  forall t z, cast_int t (Some z) = None <-> (z < lo t \/ hi t < z).
Proof. exact int_cast_fails_iff_pf. Qed.

(* add_checked returns the mathematical sum or fails exactly on overflow; the wrapping add agrees with it
   whenever it succeeds and otherwise stays in range, congruent to the sum modulo 2^bits *)
Theorem C34_add_checked_spec :
  forall t x y,
    in_range t x = true -> in_range t y = true ->
    (add_checked t (Some x) (Some y) = Some (Some (x + y)) <-> in_range t (x + y) = true) /\
    (add_checked t (Some x) (Some y) = None <-> in_range t (x + y) = false) /\
    (in_range t (x + y) = true -> add_wrapping t (Some x) (Some y) = Some (x + y)) /\
    (forall r, add_wrapping t (Some x) (Some y) = Some r -> in_range t r = true /\ (r - (x + y)) mod 2 ^ bits t = 0).
Proof. exact add_checked_spec_pf. Qed.

(* compare_rows on rows of one schema, for any sort options: total, antisymmetric, transitive *)
Theorem C34_compare_rows_order :
  forall sch sos a b d, row_typed sch a -> row_typed sch b -> row_typed sch d ->
    (exists x, compare_rows a b sos = Some x) /\
    compare_rows b a sos = option_map CompOpp (compare_rows a b sos) /\
    (forall x y, compare_rows a b sos = Some x -> compare_rows b d sos = Some y -> x <> Gt -> y <> Gt ->
       exists z, compare_rows a d sos = Some z /\ z <> Gt /\ (x = Lt \/ y = Lt -> z = Lt)).
Proof. exact compare_rows_order_pf. Qed.

(* bisect::<true/false> and linear_search::<true/false> on rows sorted under compare_rows with the same
   sort options return the number of rows strictly before (left) / not after (right) the target *)
Theorem C34_bisect_spec :
  forall sch sos left target rows,
    row_typed sch target -> Forall (row_typed sch) rows ->
    StronglySorted (fun a b => compare_rows a b sos <> Some Gt) rows ->
    bisect left rows target sos = Some (count_before left rows target sos) /\
    linear_search left rows target sos = Some (count_before left rows target sos).
Proof. exact bisect_spec_pf. Qed.

(* ---- non-vacuity *)
Definition nv_sch : list sty := [TInt I32; TStr KUtf8].
Definition nv_row (i : option Z) (s : option (list Z)) : row := [SInt I32 i; SStr KUtf8 s].
(* sorted by (col0 DESC NULLS LAST, col1 ASC NULLS FIRST) *)
Definition nv_sos : list sort_opt := [(true, false); (false, true)].
Definition nv_rows : list row :=
  [nv_row (Some 7) None; nv_row (Some 7) (Some [97]); nv_row (Some 7) (Some [97]); nv_row (Some 3) (Some [98]);
   nv_row (Some (-2)) None; nv_row None (Some [97]); nv_row None (Some [122])].
Example C34_nonvacuous_bisect :
  Forall (row_typed nv_sch) nv_rows /\
  bisect true nv_rows (nv_row (Some 7) (Some [97])) nv_sos = Some 1%nat /\
  bisect false nv_rows (nv_row (Some 7) (Some [97])) nv_sos = Some 3%nat /\
  linear_search false nv_rows (nv_row None (Some [98])) nv_sos = Some 6%nat /\
  count_before true nv_rows (nv_row (Some 5) None) nv_sos = 3%nat.
Proof.
  split.
  - unfold nv_rows, nv_row, nv_sch, row_typed. repeat (constructor; [repeat constructor|]). constructor.
  - vm_compute. repeat split; reflexivity.
Qed.
Example C34_nonvacuous_cmp :
  sv_cmp (SInt U64 (Some 18446744073709551615)) (SInt U64 (Some 1)) = Some Gt /\
  sv_cmp (SInt I8 None) (SInt I8 (Some (-128))) = Some Lt /\
  sv_cmp (SInt I8 (Some 1)) (SInt I16 (Some 1)) = None /\
  sv_cmp SNull (SInt I8 None) = None /\
  sv_cmp (SDec (Some 1) 10 2) (SDec (Some 1) 12 2) = Some Eq /\ sv_eqb (SDec (Some 1) 10 2) (SDec (Some 1) 12 2) = false /\
  sv_eqb (STs UNano (Some 5) None) (STs UNano (Some 5) (Some [85;84;67])) = true /\
  cast_int I8 (Some 128) = None /\ cast_int U8 (Some 128) = Some (Some 128) /\
  add_checked I8 (Some 100) (Some 28) = None /\ add_wrapping I8 (Some 100) (Some 28) = Some (-128).
Proof. vm_compute. repeat split; reflexivity. Qed.
