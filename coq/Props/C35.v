(* C35 -- Logical plans and expressions survive serialization unchanged.
   Property theorems only (each closed by `exact <lemma>`):
   (1) for every enum-like mapping table GENERATED from the current source (Gen/ProtoEnums.v): decode after encode gives the
       variant back, and the encoder is injective (two variants never share a wire tag);
   (2) the structural Expr round trip: parse_expr (serialize_expr e) = e for every expression of the modelled AST without
       metadata / multi-byte escape characters / undecodable operators, including the linearisation of binary chains;
   (3) refutations: what the code as written does NOT preserve (each replayed on the implementation by the harness). *)
From Coq Require Import List ZArith String Bool.
From DF Require Import Model.ProtoCodec Gen.ProtoEnums Model.C35Corr Proofs.ProtoCodecProofs Proofs.ProtoEnumsProofs Proofs.C35Proofs.
Import ListNotations.
Open Scope string_scope.
Open Scope Z_scope.

(* ---- (1) generated tables *)
Theorem C35_dec_enc_JoinType : forall v : JoinType, dec_JoinType (enc_JoinType v) = Some v.
Proof. exact dec_enc_JoinType. Qed.
Theorem C35_enc_injective_JoinType : forall a b : JoinType, enc_JoinType a = enc_JoinType b -> a = b.
Proof. exact enc_injective_JoinType. Qed.
Theorem C35_dec_enc_JoinConstraint : forall v : JoinConstraint, dec_JoinConstraint (enc_JoinConstraint v) = Some v.
Proof. exact dec_enc_JoinConstraint. Qed.
Theorem C35_enc_injective_JoinConstraint : forall a b : JoinConstraint, enc_JoinConstraint a = enc_JoinConstraint b -> a = b.
Proof. exact enc_injective_JoinConstraint. Qed.
Theorem C35_dec_enc_NullEquality : forall v : NullEquality, dec_NullEquality (enc_NullEquality v) = Some v.
Proof. exact dec_enc_NullEquality. Qed.
Theorem C35_enc_injective_NullEquality : forall a b : NullEquality, enc_NullEquality a = enc_NullEquality b -> a = b.
Proof. exact enc_injective_NullEquality. Qed.
Theorem C35_dec_enc_NullHandling : forall v : NullHandling, dec_NullHandling (enc_NullHandling v) = Some v.
Proof. exact dec_enc_NullHandling. Qed.
Theorem C35_enc_injective_NullHandling : forall a b : NullHandling, enc_NullHandling a = enc_NullHandling b -> a = b.
Proof. exact enc_injective_NullHandling. Qed.
Theorem C35_dec_enc_WriteOp : forall v : WriteOp, dec_WriteOp (enc_WriteOp v) = Some v.
Proof. exact dec_enc_WriteOp. Qed.
Theorem C35_enc_injective_WriteOp : forall a b : WriteOp, enc_WriteOp a = enc_WriteOp b -> a = b.
Proof. exact enc_injective_WriteOp. Qed.
Theorem C35_dec_enc_ExplainFormat_analyze : forall v : ExplainFormat_analyze, dec_ExplainFormat_analyze (enc_ExplainFormat_analyze v) = Some v.
Proof. exact dec_enc_ExplainFormat_analyze. Qed.
Theorem C35_enc_injective_ExplainFormat_analyze : forall a b : ExplainFormat_analyze, enc_ExplainFormat_analyze a = enc_ExplainFormat_analyze b -> a = b.
Proof. exact enc_injective_ExplainFormat_analyze. Qed.
Theorem C35_dec_enc_ExplainFormat_explain : forall v : ExplainFormat_explain, dec_ExplainFormat_explain (enc_ExplainFormat_explain v) = Some v.
Proof. exact dec_enc_ExplainFormat_explain. Qed.
Theorem C35_enc_injective_ExplainFormat_explain : forall a b : ExplainFormat_explain, enc_ExplainFormat_explain a = enc_ExplainFormat_explain b -> a = b.
Proof. exact enc_injective_ExplainFormat_explain. Qed.
Theorem C35_dec_enc_MetricType : forall v : MetricType, dec_MetricType (enc_MetricType v) = Some v.
Proof. exact dec_enc_MetricType. Qed.
Theorem C35_enc_injective_MetricType : forall a b : MetricType, enc_MetricType a = enc_MetricType b -> a = b.
Proof. exact enc_injective_MetricType. Qed.
Theorem C35_dec_enc_MetricCategory : forall v : MetricCategory, dec_MetricCategory (enc_MetricCategory v) = Some v.
Proof. exact dec_enc_MetricCategory. Qed.
Theorem C35_enc_injective_MetricCategory : forall a b : MetricCategory, enc_MetricCategory a = enc_MetricCategory b -> a = b.
Proof. exact enc_injective_MetricCategory. Qed.
Theorem C35_dec_enc_WindowFrameUnits : forall v : WindowFrameUnits, dec_WindowFrameUnits (enc_WindowFrameUnits v) = Some v.
Proof. exact dec_enc_WindowFrameUnits. Qed.
Theorem C35_enc_injective_WindowFrameUnits : forall a b : WindowFrameUnits, enc_WindowFrameUnits a = enc_WindowFrameUnits b -> a = b.
Proof. exact enc_injective_WindowFrameUnits. Qed.
Theorem C35_dec_enc_WindowFrameBound : forall v : WindowFrameBound, dec_WindowFrameBound (enc_WindowFrameBound v) = Some v.
Proof. exact dec_enc_WindowFrameBound. Qed.
Theorem C35_enc_injective_WindowFrameBound : forall a b : WindowFrameBound, enc_WindowFrameBound a = enc_WindowFrameBound b -> a = b.
Proof. exact enc_injective_WindowFrameBound. Qed.
Theorem C35_dec_enc_MergeIntoClauseKind : forall v : MergeIntoClauseKind, dec_MergeIntoClauseKind (enc_MergeIntoClauseKind v) = Some v.
Proof. exact dec_enc_MergeIntoClauseKind. Qed.
Theorem C35_enc_injective_MergeIntoClauseKind : forall a b : MergeIntoClauseKind, enc_MergeIntoClauseKind a = enc_MergeIntoClauseKind b -> a = b.
Proof. exact enc_injective_MergeIntoClauseKind. Qed.
Theorem C35_dec_enc_NullTreatment : forall v : NullTreatment, dec_NullTreatment (enc_NullTreatment v) = Some v.
Proof. exact dec_enc_NullTreatment. Qed.
Theorem C35_enc_injective_NullTreatment : forall a b : NullTreatment, enc_NullTreatment a = enc_NullTreatment b -> a = b.
Proof. exact enc_injective_NullTreatment. Qed.
Theorem C35_dec_enc_TimeUnit : forall v : TimeUnit, dec_TimeUnit (enc_TimeUnit v) = Some v.
Proof. exact dec_enc_TimeUnit. Qed.
Theorem C35_enc_injective_TimeUnit : forall a b : TimeUnit, enc_TimeUnit a = enc_TimeUnit b -> a = b.
Proof. exact enc_injective_TimeUnit. Qed.
Theorem C35_dec_enc_IntervalUnit : forall v : IntervalUnit, dec_IntervalUnit (enc_IntervalUnit v) = Some v.
Proof. exact dec_enc_IntervalUnit. Qed.
Theorem C35_enc_injective_IntervalUnit : forall a b : IntervalUnit, enc_IntervalUnit a = enc_IntervalUnit b -> a = b.
Proof. exact enc_injective_IntervalUnit. Qed.
Theorem C35_dec_enc_UnionMode : forall v : UnionMode, dec_UnionMode (enc_UnionMode v) = Some v.
Proof. exact dec_enc_UnionMode. Qed.
Theorem C35_enc_injective_UnionMode : forall a b : UnionMode, enc_UnionMode a = enc_UnionMode b -> a = b.
Proof. exact enc_injective_UnionMode. Qed.
Theorem C35_dec_enc_JoinSide : forall v : JoinSide, dec_JoinSide (enc_JoinSide v) = Some v.
Proof. exact dec_enc_JoinSide. Qed.
Theorem C35_enc_injective_JoinSide : forall a b : JoinSide, enc_JoinSide a = enc_JoinSide b -> a = b.
Proof. exact enc_injective_JoinSide. Qed.
Theorem C35_dec_enc_CompressionTypeVariant : forall v : CompressionTypeVariant, dec_CompressionTypeVariant (enc_CompressionTypeVariant v) = Some v.
Proof. exact dec_enc_CompressionTypeVariant. Qed.
Theorem C35_enc_injective_CompressionTypeVariant : forall a b : CompressionTypeVariant, enc_CompressionTypeVariant a = enc_CompressionTypeVariant b -> a = b.
Proof. exact enc_injective_CompressionTypeVariant. Qed.
Theorem C35_dec_enc_CsvQuoteStyle : forall v : CsvQuoteStyle, dec_CsvQuoteStyle (enc_CsvQuoteStyle v) = Some v.
Proof. exact dec_enc_CsvQuoteStyle. Qed.
Theorem C35_enc_injective_CsvQuoteStyle : forall a b : CsvQuoteStyle, enc_CsvQuoteStyle a = enc_CsvQuoteStyle b -> a = b.
Proof. exact enc_injective_CsvQuoteStyle. Qed.
Theorem C35_dec_enc_DataType : forall v : DataType, dec_DataType (enc_DataType v) = Some v.
Proof. exact dec_enc_DataType. Qed.
Theorem C35_enc_injective_DataType : forall a b : DataType, enc_DataType a = enc_DataType b -> a = b.
Proof. exact enc_injective_DataType. Qed.
Theorem C35_dec_enc_Operator : forall v : Operator, good_Operator v = true -> dec_Operator (enc_Operator v) = Some v.
Proof. exact dec_enc_Operator. Qed.
Theorem C35_dec_enc_Operator_refuted : exists v : Operator, dec_Operator (enc_Operator v) = None.
Proof. exact dec_enc_Operator_refuted. Qed.
Theorem C35_enc_injective_Operator : forall a b : Operator, enc_Operator a = enc_Operator b -> a = b.
Proof. exact enc_injective_Operator. Qed.

(* every generated table passes its executable check and no two variants of a table share a tag *)
Theorem C35_generated_tables_ok :
  forallb (fun r => snd (fst (fst r))) generated_tables_logical = true /\
  forallb (fun r => match snd r with [] => true | _ => false end) generated_tables_logical = true.
Proof. exact generated_tables_logical_checked. Qed.

(* ---- (2) structural round trip of expressions *)
Theorem C35_expr_round_trip : forall e : c35_expr, c35_plain e = true -> c35_decode (c35_encode e) = Some e.
Proof. exact c35_decode_encode_id. Qed.

Theorem C35_expr_encode_injective : forall a b : c35_expr,
  c35_plain a = true -> c35_plain b = true -> c35_encode a = c35_encode b -> a = b.
Proof. exact c35_encode_injective. Qed.

(* ---- (3) what the code does not preserve *)
Theorem C35_undecodable_operator_refuted : forall (op : Operator) (a b : c35_expr),
  good_Operator op = false -> c35_decode (c35_encode (EBinary a op b)) = None.
Proof. exact c35_unknown_operator. Qed.

Theorem C35_literal_metadata_refuted : forall (l : lit) (m : meta),
  c35_decode (c35_encode (ELit l (Some m))) = Some (ELit l None).
Proof. exact c35_literal_metadata. Qed.

Theorem C35_alias_metadata_refuted : forall (rel : option string) (name : string) (m : meta) (l : lit),
  c35_decode (c35_encode (EAlias (ELit l None) rel name (Some m))) = Some (EAlias (ELit l None) rel name None).
Proof. exact c35_alias_metadata. Qed.

Theorem C35_cast_metadata_refuted : forall (l : lit) (ty : DataType) (nb : bool) (m : meta),
  c35_decode (c35_encode (ECast (ELit l None) ty nb m)) = Some (ECast (ELit l None) ty nb []).
Proof. exact c35_cast_metadata. Qed.

Theorem C35_multibyte_escape_refuted : forall (n : bool) (l : lit) (s : string),
  (2 <= String.length s)%nat -> c35_decode (c35_encode (ELike n (ELit l None) (ELit l None) (Some s) false)) = None.
Proof. exact c35_multibyte_escape. Qed.

(* the hypotheses are satisfiable on a non-trivial instance: ((a + b) + c) - (d + e) is plain; its wire form has a flat
   3-operand Plus node on the left, and it decodes to itself *)
Example C35_nonvacuous :
  let a := EColumn None "a" in let b := EColumn None "b" in let c := EColumn None "c" in
  let e : c35_expr := EBinary (EBinary (EBinary a Operator_Plus b) Operator_Plus c) Operator_Minus
                              (EBinary (EColumn None "d") Operator_Plus (ELit (LInt 5) None)) in
  c35_plain e = true /\
  c35_encode e = PBinary [PBinary [PColumn None "a"; PColumn None "b"; PColumn None "c"] "Plus";
                          PBinary [PColumn None "d"; PLiteral (LInt 5)] "Plus"] "Minus" /\
  c35_decode (c35_encode e) = Some e.
Proof. vm_compute. repeat split. Qed.
