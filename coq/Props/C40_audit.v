From Coq Require Import Permutation.
From DF Require Import Base.Prelude Model.LruCache Proofs.LruCacheProofs Props.C40.
Open Scope Z_scope.
Check C40_used_is_sum_and_within_limit :
  forall limit ttl ops, 0 <= limit -> Forall op_wf ops ->
  let st := w_st (run (start limit ttl) ops) in
  s_used st = qsum (s_q st) /\ 0 <= s_used st <= s_limit st /\ NoDup (keys (s_q st)).
Check C40_used_is_sum_and_within_limit_client :
  forall limit ttl cs, 0 <= limit -> Forall cop_wf cs ->
  let st := w_st (crun (start limit ttl) cs) in
  s_used st = qsum (s_q st) /\ 0 <= s_used st <= s_limit st /\ NoDup (keys (s_q st)).
Check C40_client_history_is_primitive_history :
  forall cs w, crun w cs = run w (trace_of w cs).
Check C40_queue_is_recency_order :
  forall limit ttl ops, 0 <= limit -> Forall op_wf ops ->
  let q := s_q (w_st (run (start limit ttl) ops)) in
  subseq (keys q) (recency ops) /\ NoDup (recency ops) /\
  keys q = filter (fun k => existsb (key_eqb k) (keys q)) (recency ops).
Check C40_eviction_removes_least_recently_used :
  forall st, NoDup (keys (s_q st)) -> s_used st = qsum (s_q st) -> 0 <= s_limit st ->
  exists pre suf,
    s_q st = pre ++ suf /\ s_q (c_evict st) = pre /\ s_used (c_evict st) = qsum pre /\
    qsum pre <= s_limit st /\
    (suf = [] \/ exists x suf', suf = x :: suf' /\ s_limit st < qsum (pre ++ [x])).
Check C40_put_evicts_only_lru_suffix :
  forall st k v now,
  Inv st -> 0 <= k_size k -> 0 <= v_size v -> v_size v <> 0 -> k_size k + v_size v <= s_limit st ->
  let e := mkEntry v (option_map (fun t => now + t) (s_ttl st)) in
  exists pre suf,
    lq_del k (s_q st) = pre ++ suf /\ s_q (fst (c_put st k v now)) = (k, e) :: pre /\
    (suf = [] \/ exists x suf', suf = x :: suf' /\ s_limit st < qsum ((k, e) :: pre ++ [x])).
Check C40_limit_change_evicts_only_lru_suffix :
  forall st l, Inv st -> 0 <= l ->
  exists pre suf,
    s_q st = pre ++ suf /\ s_q (c_set_limit st l) = pre /\
    (suf = [] \/ exists x suf', suf = x :: suf' /\ l < qsum (pre ++ [x])).
Check C40_cache_refines_ideal_map :
  forall limit ttl ops, 0 <= limit -> Forall op_wf ops ->
  let w := run (start limit ttl) ops in
  let s := sp_run (sp_start limit ttl) ops in
  (forall k e, lq_peek k (s_q (w_st w)) = Some e -> sp_map s k = Some e) /\
  (forall k v w', step w (OGet k) = (w', RVal (Some v)) -> sp_get s k = Some v) /\
  (forall k w', step w (OContains k) = (w', RBool true) -> exists v, sp_get s k = Some v).
Check C40_hit_provenance :
  forall limit ttl ops k v w',
  0 <= limit -> Forall op_wf ops ->
  step (run (start limit ttl) ops) (OGet k) = (w', RVal (Some v)) ->
  exists ops1 ops2,
    ops = ops1 ++ OPut k v :: ops2 /\
    unkilled k ops2 /\
    let w1 := run (start limit ttl) ops1 in
    v_size v <> 0 /\ k_size k + v_size v <= s_limit (w_st w1) /\
    match s_ttl (w_st w1) with
    | Some t => w_now (run (start limit ttl) ops) <= w_now w1 + t
    | None => True
    end.
Check C40_live_entry_is_returned :
  forall st k now e,
  NoDup (keys (s_q st)) -> lq_peek k (s_q st) = Some e -> expired e now = false ->
  snd (c_get st k now) = Some (e_val e).
Check C40_put_then_get :
  forall w k v,
  Inv (w_st w) -> 0 <= k_size k -> 0 <= v_size v -> v_size v <> 0 ->
  k_size k + v_size v <= s_limit (w_st w) ->
  match s_ttl (w_st w) with Some t => 0 <= t | None => True end ->
  snd (step (fst (step w (OPut k v))) (OGet k)) = RVal (Some v).
Check C40_is_valid_for_means_unchanged :
  forall v cur, is_valid_for v cur = true <-> v_meta v = cur.
Check C40_lookup_uses_current_metadata :
  forall w k cur fresh w' hit r,
  lookup w k cur fresh = (w', (hit, r)) -> v_meta fresh = cur -> v_meta r = cur.
Check C40_lookup_hit_is_cached_unexpired_and_valid :
  forall w k cur fresh w' r,
  NoDup (keys (s_q (w_st w))) -> lookup w k cur fresh = (w', (true, r)) ->
  v_meta r = cur /\
  exists e, lq_peek k (s_q (w_st w)) = Some e /\ e_val e = r /\ expired e (w_now w) = false.
Check C40_drop_table_effective :
  forall st t, Inv st ->
  (forall k, tab_matches t k = true -> lq_peek k (s_q (c_drop_table st t)) = None) /\
  (forall k, tab_matches t k = false -> lq_peek k (s_q (c_drop_table st t)) = lq_peek k (s_q st)).
Check C40_drop_table_order_irrelevant :
  forall ks ks', Permutation ks ks' -> forall st, remove_all st ks = remove_all st ks'.
Print Assumptions C40_used_is_sum_and_within_limit.
Print Assumptions C40_used_is_sum_and_within_limit_client.
Print Assumptions C40_client_history_is_primitive_history.
Print Assumptions C40_queue_is_recency_order.
Print Assumptions C40_eviction_removes_least_recently_used.
Print Assumptions C40_put_evicts_only_lru_suffix.
Print Assumptions C40_limit_change_evicts_only_lru_suffix.
Print Assumptions C40_cache_refines_ideal_map.
Print Assumptions C40_hit_provenance.
Print Assumptions C40_live_entry_is_returned.
Print Assumptions C40_put_then_get.
Print Assumptions C40_is_valid_for_means_unchanged.
Print Assumptions C40_lookup_uses_current_metadata.
Print Assumptions C40_lookup_hit_is_cached_unexpired_and_valid.
Print Assumptions C40_drop_table_effective.
Print Assumptions C40_drop_table_order_irrelevant.
Print Assumptions C40_nonvacuous.
