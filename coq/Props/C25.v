(* C25 -- written files read back to the data that was written.
   Model: Model/WriteDemux.v (datafusion/datasource/src/write/demux.rs, object_store PathPart::from,
   catalog-listing helpers.rs parse_partitions_for_path).  Texts are byte lists; a key is the list of
   partition value texts of a row; a file is (key, rows sent to it, in order).  The CSV field codec is
   C51's model (Model/CliSplit.v), the percent decoder C27's (Model/ListingPrune.v). *)
From Coq Require Import Lia Permutation.
From DF Require Import Base.Prelude Model.ListingPrune Model.CliSplit Model.WriteDemux
  Proofs.ListingPruneProofs Proofs.CliSplitProofs Proofs.WriteDemuxProofs.
Open Scope Z_scope.

(* The hive demultiplexer partitions its input, for every sequence of batches of (key, row) pairs and any
   row type: one file per distinct key; the file of key k holds exactly the rows of key k, in input order
   (batch boundaries leave no trace) and is never empty; every input row is in the file of its key; all
   files together hold a permutation of the input. *)
Theorem C25_demux_partition :
  forall (R : Type) (batches : list (list (key * R))),
    let fs := demux batches in
    NoDup (map fst fs)
    /\ (forall k rows, In (k, rows) fs -> rows <> [] /\ rows = rows_of k (concat batches))
    /\ (forall k r, In (k, r) (concat batches) -> exists rows, In (k, rows) fs /\ In r rows)
    /\ Permutation (flatten fs) (concat batches).
Proof. intros R batches. exact (demux_partition_lemma batches). Qed.

(* Write then read: if the partition column names need no encoding and contain no '=' and every partition
   value text is a valid UTF-8 byte string (any bytes: '/', '=', '%', space, controls, non-ASCII), then the
   write succeeds, every written file is found by the reader, and the rows read back, each with the
   partition value texts parsed from its directory names, are a permutation of the written rows (partition
   columns dropped unless keep) paired with their own partition value texts. *)
Theorem C25_demux_readback :
  forall s pby keep bs kbs fname,
    keyed_all s pby keep bs = Some kbs ->
    Forall name_clean pby ->
    Forall (fun kr => Forall utf8_text (fst kr)) (concat kbs) ->
    exists fs rb, hive_write s pby keep bs = Some fs
      /\ read_all pby fname fs = Some rb
      /\ Permutation rb (map (fun kr => (snd kr, fst kr)) (concat kbs)).
Proof. exact hive_readback. Qed.

(* the path part of it: PathPart encoding of col=val segments is undone by parse_partitions_for_path *)
Theorem C25_hive_path_roundtrip :
  forall pby k fname,
    length k = length pby -> Forall name_clean pby -> Forall utf8_text k ->
    parse_dirs8 pby (hive_dirs pby k ++ [fname]) = Some k.
Proof. exact hive_path_roundtrip. Qed.

(* Non-partitioned writes.  With one stream at a time (minimum_parallel_output_files = 1, or single-file
   output) the files in creation order, concatenated, are exactly the input batches in order, whatever the
   soft row limit. *)
Theorem C25_row_count_demux_splits :
  forall (B : Type) (sz : B -> Z) single maxr (bs : list B) fs,
    row_count_demux sz single 1 maxr bs = Some fs -> concat (map snd fs) = bs.
Proof. intros B sz. exact (row_count_concat sz). Qed.

(* With any number of parallel streams every batch goes to exactly one file. *)
Theorem C25_row_count_demux_partition :
  forall (B : Type) (sz : B -> Z) single m maxr (bs : list B) fs,
    row_count_demux sz single m maxr bs = Some fs -> Permutation (concat (map snd fs)) bs.
Proof. intros B sz. exact (row_count_perm sz). Qed.

(* CSV files: C51's theorem about the same writer model (arrow-csv over csv-core) *)
Theorem C25_csv_roundtrip : forall d rows, d <> 34 -> d <> 10 -> d <> 13 ->
  Forall (fun r => r <> []) rows -> parse_csv d (write_csv d rows) = Some rows.
Proof. exact csv_roundtrip. Qed.

(* REFUTED side conditions.  (1) NULL in a partition column: compute_partition_keys_by_row reads
   array.value(i) without looking at the validity bit, so a NULL row gets the key of the empty string
   (Utf8) / of 0 (Int64): two different rows, one key, one directory -- the NULL cannot be read back. *)
Theorem C25_null_partition_refuted :
  exists s pby r1 r2 k, r1 <> r2 /\ key_of s pby r1 = Some k /\ key_of s pby r2 = Some k
    /\ drop_cols s pby r1 = drop_cols s pby r2.
Proof.
  exists wn_schema, [[112]], [CInt 0; CNull], [CInt 0; CStr []], [[]].
  split; [discriminate|]. vm_compute. repeat split; reflexivity.
Qed.

(* (2) a partition column NAME with a byte that PathPart encodes: the writer encodes the whole col=val
   segment, the reader compares the raw text before '=' with the column name: the file is ignored. *)
Theorem C25_encoded_name_refuted :
  exists pby k fname, length k = length pby /\ Forall utf8_text k /\
    parse_dirs8 pby (hive_dirs pby k ++ [fname]) = None.
Proof.
  exists [[112; 195; 169]], [[97]], [102]. split; [reflexivity|]. split.
  - constructor; [|constructor]. split; [constructor; [unfold byte; lia|constructor]|reflexivity].
  - exact encoded_name_lost.
Qed.

(* non-vacuity: schema (p1 Utf8, id Int64, p0 Utf8), PARTITIONED BY (p0, p1), two batches, values 100% , a/b,
   the empty string; three files; read back = permutation of the input *)
Example C25_nonvacuous :
  let s := [([112;49], TyStr); (t_id, TyInt); ([112;48], TyStr)] in
  let pby := [[112;48]; [112;49]] in
  let b1 := [[CStr [97;47;98]; CInt 0; CStr [49;48;48;37]]; [CStr []; CInt 1; CStr [233 - 38; 169]]] in
  let b2 := [[CStr [97;47;98]; CInt 2; CStr [49;48;48;37]]] in
  Forall name_clean pby /\
  hive_write s pby false [b1; b2] =
    Some [([[112;48;61;49;48;48;37;50;53]; [112;49;61;97;37;50;70;98]], [[CInt 0]; [CInt 2]]);
          ([[112;48;61;37;67;51;37;65;57]; [112;49;61]], [[CInt 1]])] /\
  read_all pby [102] [([[112;48;61;49;48;48;37;50;53]; [112;49;61;97;37;50;70;98]], [[CInt 0]; [CInt 2]]);
          ([[112;48;61;37;67;51;37;65;57]; [112;49;61]], [[CInt 1]])]
    = Some [([CInt 0], [[49;48;48;37]; [97;47;98]]); ([CInt 2], [[49;48;48;37]; [97;47;98]]); ([CInt 1], [[195;169]; []])] /\
  row_count_demux (fun b : list Z => Z.of_nat (length b)) false 2 2 [[1;2]; [3]; [4]; [5;6;7]; [8]]
    = Some [(0, [[1;2]]); (2, [[4]; [8]]); (1, [[3]; [5;6;7]])].
Proof.
  cbv zeta. split.
  - constructor; [|constructor; [|constructor]]; (split; [intros [H|[H|[]]]; discriminate|reflexivity]).
  - vm_compute. repeat split; reflexivity.
Qed.
