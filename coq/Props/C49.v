(* C49 -- catalog changes are applied exactly and reflected in the information schema.
   Model: Model/CatalogSM.v (SessionContext DDL handlers over the three-level DashMap catalog + information_schema listings). *)
From DF Require Import Base.Prelude Model.CatalogSM Proofs.CatalogSMProofs.
From Coq Require Import String.
Open Scope Z_scope.

(* Success or failure of every statement is exactly what the documented rule computes from the current state
   (spec_outcome: CREATE succeeds iff the target schema resolves and the name is free, or exactly one of IF NOT EXISTS / OR REPLACE is
   given; DROP TABLE/VIEW succeeds iff an object of that kind is bound to the name, or IF EXISTS; DROP SCHEMA fails on a non-empty
   schema without CASCADE even with IF EXISTS; ...). *)
Theorem C49_ddl_outcome_by_state :
  forall st op, snd (step st op) = spec_outcome st op.
Proof. exact ddl_outcome_by_state_thm. Qed.

(* A failing statement leaves the catalog unchanged. *)
Theorem C49_failed_ddl_unchanged :
  forall st op, snd (step st op) <> Ok -> fst (step st op) = st.
Proof. exact failed_ddl_unchanged_thm. Qed.

(* A successful CREATE TABLE / CREATE TABLE AS / CREATE VIEW binds exactly its name to the new object (or, for IF NOT EXISTS on an
   existing name, changes nothing) and leaves every other name as it was. *)
Theorem C49_create_effect :
  forall st op r o ine orr,
  ddl_object op = Some (r, o, ine, orr) -> names_info op = false -> snd (step st op) = Ok ->
  let '(c, s, n) := resolve r in
  (table_lookup (fst (step st op)) c s n = Some o
   \/ (fst (step st op) = st /\ ine = true /\ orr = false /\ is_some (table_lookup st c s n) = true))
  /\ (forall c' s' n', (c', s', n') <> (c, s, n) -> table_lookup (fst (step st op)) c' s' n' = table_lookup st c' s' n').
Proof. exact create_effect_thm. Qed.

(* IF NOT EXISTS on an existing table / view / schema / catalog: succeeds, nothing changes. *)
Theorem C49_if_not_exists_noop :
  forall st,
  (forall op r o, ddl_object op = Some (r, o, true, false) -> names_info op = false ->
     let '(c, s, n) := resolve r in table_lookup st c s n <> None -> step st op = (st, Ok))
  /\ (forall r, names_info (CreateSchema r true) = false ->
     let '(c, s) := sresolve r in schema_lookup st c s <> None -> step st (CreateSchema r true) = (st, Ok))
  /\ (forall i, aget (norm i) st <> None -> step st (CreateCatalog i true) = (st, Ok)).
Proof. exact if_not_exists_noop_thm. Qed.

(* DROP TABLE|VIEW IF EXISTS when no object of that kind is bound to the name: succeeds, nothing changes. *)
Theorem C49_if_exists_noop :
  forall st k r,
  names_info (drop_op k r true) = false -> has_kind st r k = false -> step st (drop_op k r true) = (st, Ok).
Proof. exact if_exists_noop_thm. Qed.

(* CREATE OR REPLACE TABLE|VIEW into a resolvable schema always succeeds; afterwards the name denotes the new object (whatever was
   there before, table or view) and no other name is affected. *)
Theorem C49_or_replace_replaces :
  forall st op r o,
  ddl_object op = Some (r, o, false, true) -> names_info op = false ->
  let '(c, s, n) := resolve r in
  target_outcome st c s = Ok ->
  snd (step st op) = Ok
  /\ table_lookup (fst (step st op)) c s n = Some o
  /\ (forall c' s' n', (c', s', n') <> (c, s, n) -> table_lookup (fst (step st op)) c' s' n' = table_lookup st c' s' n').
Proof. exact or_replace_replaces_thm. Qed.

(* After a successful DROP TABLE (VIEW) no table (view) is bound to the name; no other name is affected. *)
Theorem C49_drop_then_absent :
  forall st k r ife,
  names_info (drop_op k r ife) = false -> snd (step st (drop_op k r ife)) = Ok ->
  let '(c, s, n) := resolve r in
  has_kind (fst (step st (drop_op k r ife))) r k = false
  /\ (has_kind st r k = true -> table_lookup (fst (step st (drop_op k r ife))) c s n = None)
  /\ (forall c' s' n', (c', s', n') <> (c, s, n) ->
        table_lookup (fst (step st (drop_op k r ife))) c' s' n' = table_lookup st c' s' n').
Proof. exact drop_then_absent_thm. Qed.

(* create; drop; create again under the same name: all three succeed and the name denotes the second object only. *)
Theorem C49_create_drop_create :
  forall st op1 op2 r o1 o2,
  ddl_object op1 = Some (r, o1, false, false) -> ddl_object op2 = Some (r, o2, false, false) ->
  names_info op1 = false -> names_info op2 = false -> names_info (drop_op (okind o1) r false) = false ->
  let '(c, s, n) := resolve r in
  target_outcome st c s = Ok -> table_lookup st c s n = None ->
  let s1 := step st op1 in
  let s2 := step (fst s1) (drop_op (okind o1) r false) in
  let s3 := step (fst s2) op2 in
  snd s1 = Ok /\ snd s2 = Ok /\ snd s3 = Ok
  /\ table_lookup (fst s3) c s n = Some o2
  /\ (forall c' s' n', (c', s', n') <> (c, s, n) -> table_lookup (fst s3) c' s' n' = table_lookup st c' s' n').
Proof. exact create_drop_create_thm. Qed.

(* After ANY history of DDL statements, information_schema.tables lists (catalog, schema, name, kind) iff the name is bound to an
   object of that kind in the catalog state, plus exactly the seven information_schema tables of every existing catalog. *)
Theorem C49_info_schema_lists_exactly :
  forall h c s n k,
  let st := run init_state h in
  In (c, s, n, k) (info_tables st) <->
  ((exists o, table_lookup st c s n = Some o /\ okind o = k) /\ s <> info_schema)
  \/ (catalog_exists st c /\ s = info_schema /\ In n info_table_names /\ k = KView).
Proof. exact info_schema_lists_exactly_thm. Qed.

(* ... and schemata / views / columns are exactly the schemas / the objects' definitions / the objects' columns
   (name, ordinal position, nullability, type). *)
Theorem C49_info_schema_details_exact :
  forall h,
  let st := run init_state h in
  (forall c s, In (c, s) (info_schemata st) <-> schema_exists st c s /\ s <> info_schema)
  /\ (forall c s n d, In (c, s, n, d) (info_views st) <-> (exists o, table_lookup st c s n = Some o /\ odef o = d) /\ s <> info_schema)
  /\ (forall c s n ci, In (c, s, n, ci) (info_columns st) <->
        (exists o, table_lookup st c s n = Some o /\ In ci (number_cols 0 (ocols o))) /\ s <> info_schema).
Proof. exact info_schema_details_exact_thm. Qed.

(* Names stay unique at every level along every history (the DashMap discipline the listing theorems rest on). *)
Theorem C49_wf_invariant :
  forall h, wf (run init_state h).
Proof. exact wf_run. Qed.

(* The faithful model VIOLATES `information_schema.views lists exactly the views`: make_views lists every registered provider, so
   a base table appears in information_schema.views (with a NULL definition).  Replayed on the implementation: finding
   info-views-lists-base-tables. *)
Theorem C49_info_views_lists_base_table_refuted :
  exists h c s n o, let st := run init_state h in
    In (c, s, n, None) (info_views st) /\ table_lookup st c s n = Some o /\ okind o = KTable.
Proof. exact info_views_lists_base_table_refuted_thm. Qed.

(* non-vacuity: one history through most outcomes; the final listing *)
Open Scope string_scope.
Example C49_nonvacuous :
  let i := Id false in
  let h := [CreateView (Bare (i "t")) (i "a") 1 false "CREATE VIEW t AS SELECT 1 AS a";
            CreateTable (Bare (i "T")) [(i "a", TyInt)] false false;
            DropTable (Bare (i "t")) false;
            CreateTableAs (Bare (i "t")) (Id true "A") 7 false true;
            CreateTableAs (Bare (i "t")) (i "a") 9 true true;
            CreateTable (Partial (i "s1") (i "t")) [(i "a", TyInt)] false false;
            CreateSchema (SBare (i "S1")) false;
            CreateTable (Partial (i "s1") (i "t")) [(i "a", TyInt); (i "B", TyVarchar)] false false;
            DropSchema (SBare (i "s1")) true false;
            CreateTable (Full (i "c2") (i "public") (i "t")) [] false false;
            CreateCatalog (i "C2") false;
            CreateTable (Full (i "c2") (i "public") (i "t")) [] false false;
            DropSchema (SBare (i "s1")) false true;
            DropView (Bare (i "t")) true]%string in
  map (fun k => snd (step (run init_state (firstn k h)) (nth k h (CreateCatalog (i "x") true)))) (seq 0 14)
    = [Ok; AlreadyExists; NotFound; Ok; Conflict; NoSchema; Ok; Ok; NotEmpty; NoCatalog; Ok; NoSchema; Ok; Ok]
  /\ same_bag trow_eqb (info_tables (run init_state h))
       (("datafusion", "public", "t", KTable) :: flat_map (fun c => map (fun t => (c, info_schema, t, KView)) info_table_names) ["datafusion"; "c2"])%string = true
  /\ probe (run init_state h) (Full (i "DataFusion") (i "PUBLIC") (Id true "t"))%string = Some (["A"%string], [[7]]).
Proof. vm_compute. repeat split; reflexivity. Qed.
