From DF Require Import Base.Prelude Model.Accum Proofs.AccumProofs Props.C07.
From Coq Require Import Permutation.
Open Scope Z_scope.
Check C07_update_split :
  forall A, In A (count_distinct_acc :: sum_sliding_acc :: exact_instances) -> update_split A.
Check C07_merge_hom :
  forall A, In A exact_instances -> merge_hom A.
Check C07_merge_hom_count_distinct :
  forall s parts, NoDup s ->
    let merged := a_merge count_distinct_acc s
        (map (fun p => a_state count_distinct_acc (a_update count_distinct_acc (a_init count_distinct_acc) p)) parts) in
    let whole := a_update count_distinct_acc s (concat parts) in
    a_eval count_distinct_acc merged = a_eval count_distinct_acc whole /\ (forall x, In x merged <-> In x whole).
Check C07_merge_split :
  forall A, In A (count_distinct_acc :: exact_instances) -> merge_split A.
Check C07_merge_comm :
  forall A, In A commutative_instances ->
  forall s ws ws', Permutation ws ws' -> a_merge A s ws = a_merge A s ws'.
Check C07_merge_comm_median :
  forall s ws ws', Permutation ws ws' ->
    a_eval median_acc (a_merge median_acc s ws) = a_eval median_acc (a_merge median_acc s ws').
Check C07_merge_comm_count_distinct :
  forall s ws ws', NoDup s -> Permutation ws ws' ->
    a_eval count_distinct_acc (a_merge count_distinct_acc s ws)
    = a_eval count_distinct_acc (a_merge count_distinct_acc s ws').
Check C07_first_last_order_sensitive :
  a_eval (first_acc false) (a_merge (first_acc false) (a_init _) [[RInt 1; RBool true]; [RInt 2; RBool true]])
  <> a_eval (first_acc false) (a_merge (first_acc false) (a_init _) [[RInt 2; RBool true]; [RInt 1; RBool true]])
  /\ a_eval (last_acc false) (a_merge (last_acc false) (a_init _) [[RInt 1; RBool true]; [RInt 2; RBool true]])
  <> a_eval (last_acc false) (a_merge (last_acc false) (a_init _) [[RInt 2; RBool true]; [RInt 1; RBool true]]).
Check C07_retract_count :
  forall s a b,
  a_retract count_acc (a_update count_acc s (a ++ b)) a = a_update count_acc s b.
Check C07_retract_sum :
  forall s a b, wrap64 (fst s) = fst s ->
  a_retract sum_sliding_acc (a_update sum_sliding_acc s (a ++ b)) a = a_update sum_sliding_acc s b.
Check C07_retract_avg :
  forall s a b, avg_wf s ->
  a_eval avg_acc (a_retract avg_acc (a_update avg_acc s (a ++ b)) a) = a_eval avg_acc (a_update avg_acc s b).
Check C07_avg_wf_reachable :
  avg_wf (a_init avg_acc) /\
  forall s (l : list (option Z)), 0 <= snd s -> avg_wf s ->
    avg_wf (a_update avg_acc s l) /\ 0 <= snd (a_update avg_acc s l).
Check C07_bit_xor_retract_refuted :
  exists s a b, a_eval bit_xor_acc (a_retract bit_xor_acc (a_update bit_xor_acc s (a ++ b)) a)
                <> a_eval bit_xor_acc (a_update bit_xor_acc s b).
Check C07_groups_eq_scalar :
  forall (F : gfam) st vals gidx filt total g,
  let rows := mk_rows vals gidx filt in
  gwf F st total -> rows_below total rows -> covers (g_seen st) total rows -> (g < total)%nat ->
  gview F (gupdate F st vals gidx filt total) g
  = (fold_left (g_step F) (live_vals g rows) (fst (gview F st g)),
     if g_tracks F then snd (gview F st g) || has_live g rows else true).
Check C07_groups_wf_preserved :
  forall (F : gfam) st vals gidx filt total,
  gwf F st total ->
  (if g_tracks F then True else seen_len (g_seen st) = 0%nat) ->
  length (g_cells (gupdate F st vals gidx filt total)) = total
  /\ (if g_tracks F then seen_len (g_seen (gupdate F st vals gidx filt total)) = total
      else seen_len (g_seen (gupdate F st vals gidx filt total)) = 0%nat).
Check C07_groups_prim_is_scalar :
  forall (f : Z -> Z -> Z) (start : Z) (D : Z -> Prop) st vals gidx filt total g,
  (forall a b c, f (f a b) c = f a (f b c)) ->
  (forall x, D x -> f start x = x) ->
  let F := prim_fam f start in
  let rows := mk_rows vals gidx filt in
  gwf F st total -> rows_below total rows -> covers (g_seen st) total rows -> (g < total)%nat ->
  Forall D (live_vals g rows) ->
  (snd (gview F st g) = false -> fst (gview F st g) = start) ->
  to_opt (gview F (gupdate F st vals gidx filt total) g)
  = og_update f (to_opt (gview F st g)) (map Some (live_vals g rows)).
Check C07_emit_first_shifts :
  forall (F : gfam) st n X (f : G_cell F -> X) (nul : X) g,
  gview F (snd (gemit F st (Some n) f nul)) g = gview F st (n + g).
Check C07_emit_first_output :
  forall (F : gfam) st n X (f : G_cell F -> X) (nul dx : X) i,
  (i < n)%nat -> (n <= length (g_cells st))%nat ->
  (g_tracks F = true -> seen_len (g_seen st) = length (g_cells st)) ->
  nth i (fst (gemit F st (Some n) f nul)) dx
  = if snd (gview F st i) then f (fst (gview F st i)) else nul.
Check C07_convert_to_state_eq :
  forall i (v : option Z) (fi : option (option bool)),
  let F := fam_of i in
  let filt := option_map (fun x => [x]) fi in
  gconvert F [v] filt = fst (gstate_rows F (gupdate F (ginit F) [v] [O] filt 1) None).
Check C07_convert_rowwise :
  forall (F : gfam) v vs f fs,
  gconvert F (v :: vs) (Some (f :: fs)) = gconvert F [v] (Some [f]) ++ gconvert F vs (Some fs)
  /\ gconvert F (v :: vs) None = gconvert F [v] None ++ gconvert F vs None.
Check C07_nonvacuous :
  let F := prim_fam wadd 0 in
  let vals := [Some 5; None; Some 7] in
  let rows := mk_rows vals [0%nat; 1%nat; 0%nat] None in
  gwf F (ginit F) 2 /\ rows_below 2 rows /\ covers (g_seen (ginit F)) 2 rows
  /\ gview F (gupdate F (ginit F) vals [0%nat; 1%nat; 0%nat] None 2) 0 = (12, true)
  /\ gview F (gupdate F (ginit F) vals [0%nat; 1%nat; 0%nat] None 2) 1 = (0, false)
  /\ c07_check (CGroups 2 [GUpd [Some 5; None; Some 7] [0; 1; 0] None 2; GEval (Some 1) [RInt 12]; GEval None [RNull]]) = true.
Print Assumptions C07_update_split.
Print Assumptions C07_merge_hom.
Print Assumptions C07_merge_hom_count_distinct.
Print Assumptions C07_merge_split.
Print Assumptions C07_merge_comm.
Print Assumptions C07_merge_comm_median.
Print Assumptions C07_merge_comm_count_distinct.
Print Assumptions C07_first_last_order_sensitive.
Print Assumptions C07_retract_count.
Print Assumptions C07_retract_sum.
Print Assumptions C07_retract_avg.
Print Assumptions C07_avg_wf_reachable.
Print Assumptions C07_bit_xor_retract_refuted.
Print Assumptions C07_groups_eq_scalar.
Print Assumptions C07_groups_wf_preserved.
Print Assumptions C07_groups_prim_is_scalar.
Print Assumptions C07_emit_first_shifts.
Print Assumptions C07_emit_first_output.
Print Assumptions C07_convert_to_state_eq.
Print Assumptions C07_convert_rowwise.
Print Assumptions C07_nonvacuous.
