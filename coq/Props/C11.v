(* C11 -- Hash partition index equals the row hash modulo the partition count.
   Property theorems only; the model is GENERATED from
   datafusion/physical-plan/src/repartition/mod.rs by translators/rs_kernel2coq.py. *)
From Coq Require Import ZArith.
From DF Require Import Base.Bits Gen.StrengthReduced Proofs.StrengthReducedProofs.
Open Scope Z_scope.

(* For every 64-bit hash v and every partition count d in [1, 2^64): the strength-reduced
   kernel (constructor + per-row computation, both arms) returns exactly v mod d, and no
   intermediate operation leaves its machine type (so debug and release builds agree). *)
Theorem C11_remainder_exact :
  forall v d, 0 <= v < 2 ^ 64 -> 1 <= d < 2 ^ 64 -> partition_of d v = Some (v mod d).
Proof. exact remainder_exact. Qed.

Theorem C11_partition_in_range :
  forall v d p, 0 <= v < 2 ^ 64 -> 1 <= d < 2 ^ 64 -> partition_of d v = Some p -> 0 <= p < d.
Proof. exact partition_in_range. Qed.

Theorem C11_quotient_is_high_product :
  forall v m, 0 <= v < 2 ^ 64 -> 0 <= m < 2 ^ 128 -> sr_quotient v m = Some ((v * m) / 2 ^ 128).
Proof. exact sr_quotient_spec. Qed.

(* non-vacuity: concrete non-trivial instances on both arms, computed by the model *)
Example C11_nonvacuous :
  partition_of 7 18446744073709551615 = Some 1 /\
  partition_of 64 18446744073709551615 = Some 63 /\
  partition_of 18446744073709551615 18446744073709551614 = Some 18446744073709551614.
Proof. vm_compute. repeat split. Qed.
