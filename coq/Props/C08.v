(* C08 -- sorting, merging and TopK return correctly ordered results.
   Model: Model/SortMerge.v (the loser tree of sorts/merge.rs, the comparator of sorts/cursor.rs, runs merged in groups,
   the TopK heap).  The theorems hold for EVERY comparator that is a total preorder (first theorem: the cursor comparator
   with descending / nulls_first per column is one), every number of streams k >= 1 (not only powers of two; k = 1 needs
   no special case in the loser tree: leaf (1+0)/2 = 0 is the root slot), all stream contents, batchings and fetch values. *)
From Coq Require Import List ZArith Bool Arith Lia Permutation Sorted.
From DF Require Import Base.Prelude Model.SortMerge Proofs.SortMergeProofs.
Import ListNotations.
Close Scope Z_scope.
Open Scope nat_scope.

(* comparator_total_preorder: asc/desc x nulls first/last, several columns: antisymmetric as an Ord (cmp b a is the
   opposite of cmp a b, hence total), transitive, and Equal exactly when the sort columns are equal. *)
Theorem C08_comparator_total_preorder : forall os,
  (forall a b, cmp_key os b a = CompOpp (cmp_key os a b)) /\
  (forall a b c, cmp_key os a b <> Gt -> cmp_key os b c <> Gt -> cmp_key os a c <> Gt) /\
  (forall a b, cmp_key os a b = Eq <-> forall i, i < length os -> nth i a None = nth i b None).
Proof.
  intros os. destruct (cmp_key_total_preorder os) as [S T]. repeat split; auto; apply cmp_key_eq.
Qed.

(* loser_tree_min: in every state the merge can reach (after init_loser_tree and after every update_loser_tree),
   loser_tree[0] is a valid stream index whose stream comes before every other stream: its head row is minimal among the
   non-exhausted streams, among equal heads it has the smallest stream index, and it is exhausted only if all are. *)
Theorem C08_loser_tree_min : forall (A : Type) (cmp : A -> A -> comparison), total_preorder cmp ->
  forall cs tree, lt_reach cmp cs tree -> 1 <= length cs ->
    nth 0 tree 0 < length cs /\ forall j, j < length cs -> stream_le cmp cs (nth 0 tree 0) j.
Proof. exact @loser_tree_min. Qed.

(* merge_sorted_perm: merging k sorted streams by repeatedly taking loser_tree[0] yields (stream index, row) pairs that
   are sorted by key with ties in stream-index order, in which the rows of each stream i appear exactly as in the input
   and in their input order (so the merge is stable by (stream, position)), and whose rows are a permutation of all
   input rows. *)
Theorem C08_merge_sorted_perm : forall (A : Type) (cmp : A -> A -> comparison), total_preorder cmp ->
  forall cs : list (list A), Forall (Sorted (cle cmp)) cs ->
    let out := lt_merge_idx cmp cs None in
    StronglySorted (tle cmp) out /\ (forall i, proj i out = cur cs i) /\ Permutation (map snd out) (concat cs).
Proof. exact @merge_correct. Qed.

(* ... and a fetch limit returns exactly the first f rows of that sequence *)
Theorem C08_merge_fetch_prefix : forall (A : Type) (cmp : A -> A -> comparison) (cs : list (list A)) f,
  lt_merge cmp cs (Some f) = firstn f (lt_merge cmp cs None).
Proof. exact @lt_merge_fetch. Qed.

(* topk_eq_firstn_sort: the bounded heap (keep the k smallest; once full, reject rows >= the current max) returns, for any
   batching, a sorted list of min(k, n) rows that is a valid top-k: it and the excluded rows partition the input and
   every excluded row is >= every returned row. *)
Theorem C08_topk_eq_firstn_sort : forall (A : Type) (cmp : A -> A -> comparison), total_preorder cmp ->
  forall k (batches : list (list A)), 1 <= k ->
    let out := topk cmp k batches in
    StronglySorted (cle cmp) out /\ length out = Nat.min k (length (concat batches)) /\
    exists rest, Permutation (out ++ rest) (concat batches) /\ forall x y, In x out -> In y rest -> cle cmp x y.
Proof. exact @topk_is_valid. Qed.

(* external_sort_eq_sort: sort chunks with any correct in-memory sort, then merge the runs in groups (any schedule of
   group sizes, each made >= 2, until one run is left): the result is the sort of the whole input. *)
Theorem C08_external_sort_eq_sort : forall (A : Type) (cmp : A -> A -> comparison), total_preorder cmp ->
  forall srt : list A -> list A, (forall l, Sorted (cle cmp) (srt l) /\ Permutation (srt l) l) ->
  forall gs chunks,
    StronglySorted (cle cmp) (external_sort cmp srt gs chunks) /\
    Permutation (external_sort cmp srt gs chunks) (concat chunks).
Proof. exact @external_sort_sorted_perm. Qed.

(* is_sorted_perm_check_sound: the boolean checker run on the implementation's observed outputs implies the declarative
   statement <dq>out is a correct answer of ORDER BY os [LIMIT f] over input<dq>. *)
Theorem C08_sort_check_sound : forall os input fetch out,
  sort_check os input fetch out = true ->
    StronglySorted (cle (cmp_row os)) out /\
    match fetch with
    | None => Permutation out input
    | Some f => length out = Nat.min f (length input) /\
                exists rest, Permutation (out ++ rest) input /\
                             forall x y, In x out -> In y rest -> cle (cmp_row os) x y
    end.
Proof. exact sort_check_sound. Qed.

(* non-vacuity: five streams (not a power of two) with duplicates, NULLs, an empty stream, descending + nulls-first
   on the first column: the streams are sorted (hypothesis of the merge theorem), and the model merges them into the
   stable order; TopK and the grouped external sort on the same rows (the grouped merge is a sort, but ties
   between runs come out in queue order, not chunk order: rows 6 / 1 / 3 below). *)
Definition ex_os := [ {| s_desc := true; s_nulls_first := true |}; {| s_desc := false; s_nulls_first := false |} ].
Definition R (a b : option Z) (i : Z) : row := {| rkey := [a; b]; rid := i |}.
Definition ex_parts : list (list row) :=
  [ [R None (Some 1%Z) 0; R (Some 2%Z) None 1];
    [R (Some 2%Z) (Some 0%Z) 2; R (Some 2%Z) None 3; R (Some 1%Z) (Some 5%Z) 4];
    [];
    [R None (Some 1%Z) 5];
    [R (Some 2%Z) None 6; R (Some 0%Z) (Some 0%Z) 7] ].

Example C08_nonvacuous :
  Forall (Sorted (cle (cmp_row ex_os))) ex_parts /\
  map rid (lt_merge (cmp_row ex_os) ex_parts None) = [0; 5; 2; 1; 3; 6; 4; 7]%Z /\
  map fst (lt_merge_idx (cmp_row ex_os) ex_parts (Some 4)) = [0; 3; 1; 0] /\
  map rid (topk (cmp_row ex_os) 3 ex_parts) = [0; 5; 2]%Z /\
  map rid (external_sort (cmp_row ex_os) (isort ex_os) [2; 2] ex_parts) = [0; 5; 2; 6; 1; 3; 4; 7]%Z /\
  sort_check ex_os (concat ex_parts) (Some 3) [R None (Some 1%Z) 5; R None (Some 1%Z) 0; R (Some 2%Z) (Some 0%Z) 2] = true.
Proof.
  split.
  - apply Forall_forall. intros l Hl. apply (sortedb_Sorted (cmp_row ex_os)).
    revert l Hl. apply Forall_forall. repeat constructor.
  - vm_compute. repeat split; reflexivity.
Qed.
