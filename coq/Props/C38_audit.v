From Coq Require Import NArith List Bool.
From DF Require Import Base.Prelude Gen.OperatorPrec Model.Unparse Proofs.UnparseProofs Props.C38.
Import ListNotations.
Open Scope N_scope.
Check C38_parser_inverts_display :
  forall (T : ptab) (a : ast), wf_top T a = true -> parse T (show a) = Some a.
Check C38_unparse_means_the_expression :
  forall pretty e, strip (unparse pretty e) = e.
Check C38_roundtrip_when_wf :
  forall pretty e, wf_top sq_tab (unparse pretty e) = true -> reparse pretty e = Some e.
Check C38_default_binary_roundtrip_any_table :
  forall (T : ptab) e, bin_pos T e = true -> option_map strip (parse T (show (unparse false e))) = Some e.
Check C38_default_binary_roundtrip :
  forall e, binary_only e = true -> reparse false e = Some e.
Check C38_parenthesise_everything_roundtrips :
  forall (T : ptab) e, ops_pos T e = true ->
    option_map strip (parse T (show (to_ast_paren e))) = Some e /\ hazard (to_ast_paren e) = false.
Check C38_default_not_operand_refuted :
  exists e e', reparse false e = Some e' /\ expr_eqb e' e = false /\
    e = EIs PIsNull (ENot (EAtom 3)) /\ e' = ENot (EIs PIsNull (EAtom 3)).
Check C38_default_is_operand_refuted :
  exists e e', reparse false e = Some e' /\ expr_eqb e' e = false /\
    e = EBin OpEq (EAtom 3) (EIs PIsNull (EAtom 4)) /\ e' = EIs PIsNull (EBin OpEq (EAtom 3) (EAtom 4)).
Check C38_default_in_operand_refuted :
  exists e e', reparse false e = Some e' /\ expr_eqb e' e = false /\
    e = EBin OpEq (EAtom 3) (EIn false (EAtom 4) [40; 41]) /\ e' = EIn false (EBin OpEq (EAtom 3) (EAtom 4)) [40; 41].
Check C38_default_like_operand_refuted :
  exists e e', reparse false e = Some e' /\ expr_eqb e' e = false /\
    e = EBin OpEq (ELike LLike (EAtom 6) (EAtom 7)) (EAtom 3) /\ e' = ELike LLike (EAtom 6) (EBin OpEq (EAtom 7) (EAtom 3)).
Check C38_default_double_minus_refuted :
  hazard (unparse false (ENeg (ENeg (EAtom 0)))) = true.
Check C38_pretty_same_precedence_right_refuted :
  exists e e', binary_only e = true /\ reparse true e = Some e' /\ expr_eqb e' e = false /\
    e = EBin OpMultiply (EAtom 0) (EBin OpDivide (EAtom 1) (EAtom 2)) /\ e' = EBin OpDivide (EBin OpMultiply (EAtom 0) (EAtom 1)) (EAtom 2).
Check C38_pretty_bitwise_table_refuted :
  exists e e', binary_only e = true /\ reparse true e = Some e' /\ expr_eqb e' e = false /\
    e = EBin OpBitwiseAnd (EBin OpBitwiseOr (EAtom 0) (EAtom 1)) (EAtom 2) /\ e' = EBin OpBitwiseOr (EAtom 0) (EBin OpBitwiseAnd (EAtom 1) (EAtom 2)).
Check C38_pretty_comparison_table_refuted :
  exists e e', binary_only e = true /\ reparse true e = Some e' /\ expr_eqb e' e = false /\
    e = EBin OpEq (EAtom 3) (EBin OpLt (EAtom 0) (EAtom 1)) /\ e' = EBin OpLt (EBin OpEq (EAtom 3) (EAtom 0)) (EAtom 1).
Check C38_pretty_concat_table_refuted :
  exists e e', binary_only e = true /\ reparse true e = Some e' /\ expr_eqb e' e = false /\
    e = EBin OpStringConcat (EAtom 6) (EBin OpPlus (EAtom 0) (EAtom 1)) /\ e' = EBin OpPlus (EBin OpStringConcat (EAtom 6) (EAtom 0)) (EAtom 1).
Check C38_pair_table :
  length readable_ops = 42%nat /\
  length (bad_pairs true true) = 580%nat /\ length (bad_pairs true false) = 301%nat /\
  bad_pairs false true = [] /\ bad_pairs false false = [].
Check C38_nonvacuous_wf :
  let e := EBin OpAnd (EBin OpAnd (EBin OpEq (EAtom 0) (EAtom 1)) (ENot (EIs PIsNull (EAtom 2))))
                      (ELike LLike (EAtom 6) (EBin OpStringConcat (EAtom 7) (EAtom 30))) in
  wf_top sq_tab (unparse false e) = true /\ wf_top sq_tab (unparse true e) = true /\
  show (unparse true e) = [TAtom 0; TInfix (IOp OpEq); TAtom 1; TInfix (IOp OpAnd); TNot; TAtom 2; TPost PIsNull; TInfix (IOp OpAnd);
                           TAtom 6; TInfix (ILike LLike); TLP; TAtom 7; TInfix (IOp OpStringConcat); TAtom 30; TRP].
Check C38_nonvacuous_paren :
  ops_pos sq_tab (EBin OpAnd (EIs PIsNull (ENot (EAtom 3))) (EBin OpLt (ENeg (ENeg (EAtom 0))) (EAtom 1))) = true.
Check C38_nonvacuous_binary :
  binary_only (EBin OpMinus (EAtom 0) (EBin OpMinus (EBin OpIsDistinctFrom (EAtom 1) (EBin OpBitwiseOr (EAtom 2) (EAtom 0))) (EAtom 1))) = true.
Print Assumptions C38_parser_inverts_display.
Print Assumptions C38_unparse_means_the_expression.
Print Assumptions C38_roundtrip_when_wf.
Print Assumptions C38_default_binary_roundtrip_any_table.
Print Assumptions C38_default_binary_roundtrip.
Print Assumptions C38_parenthesise_everything_roundtrips.
Print Assumptions C38_default_not_operand_refuted.
Print Assumptions C38_default_is_operand_refuted.
Print Assumptions C38_default_in_operand_refuted.
Print Assumptions C38_default_like_operand_refuted.
Print Assumptions C38_default_double_minus_refuted.
Print Assumptions C38_pretty_same_precedence_right_refuted.
Print Assumptions C38_pretty_bitwise_table_refuted.
Print Assumptions C38_pretty_comparison_table_refuted.
Print Assumptions C38_pretty_concat_table_refuted.
Print Assumptions C38_pair_table.
Print Assumptions C38_nonvacuous_wf.
Print Assumptions C38_nonvacuous_paren.
Print Assumptions C38_nonvacuous_binary.
