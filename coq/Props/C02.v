(* C02 -- query results do not depend on execution configuration or parallelism.

   Theorem family [partitioning_invariance_*]: laws of the REFERENCE algebra (engine E1, Model/RefSQL.v) about the
   physical decomposition operators of Model/PhysDecomp.v.  A split of a relation is ANY list of partitions whose
   concatenation is a permutation of it (any number of partitions, empty ones, any assignment of rows, any arrival
   order); batches are a second level of the same thing.  The engine itself is tied to the reference only by
   differential execution across configurations (lib/props/C02.py). *)
From Coq Require Import List ZArith Bool Permutation Sorting.Sorted.
From DF Require Import Base.Prelude Model.RefSQL Proofs.RefSQLLaws Model.PhysDecomp
  Proofs.PhysDecompProofs Proofs.PhysDecompAgg Proofs.PhysDecompGroup.
Import ListNotations.
Open Scope Z_scope.

(* ---------------------------------------------------------------- the splits the engine makes are splits *)
(* RepartitionExec(Hash), any hash function, any partition count n >= 1 *)
Theorem C02_hash_split_is_split :
  forall {A} (h : A -> nat) n (l : list A), n <> 0%nat -> is_split l (hash_split h n l).
Proof. exact @hash_split_is_split. Qed.
(* RepartitionExec(RoundRobin) / rows dealt to MemTable partitions *)
Theorem C02_round_robin_is_split :
  forall {A} n (l : list A), n <> 0%nat -> is_split l (round_robin n l).
Proof. exact @round_robin_is_split. Qed.
(* batch_size = n: consecutive chunks, in order *)
Theorem C02_chunks_is_split :
  forall {A} n (l : list A), concat (chunks n l) = l /\ is_split l (chunks n l).
Proof. exact @chunks_is_split. Qed.
(* partitions cut into batches *)
Theorem C02_batches_of_partitions_split :
  forall {A} (l : list A) parts (pb : list (list (list A))),
    is_split l parts -> Forall2 (fun p b => is_split p b) parts pb -> Permutation (flatten2 pb) l.
Proof. exact @flatten2_split. Qed.

(* ---------------------------------------------------------------- filter / project distribute over bag union *)
Theorem partitioning_invariance_filter :
  forall (p : row -> bool) (parts : list rel) R,
    is_split R parts -> Permutation (concat (map (filter p) parts)) (filter p R).
Proof. exact filter_distributes. Qed.
Theorem partitioning_invariance_filter_batches :
  forall (p : row -> bool) (pb : list (list rel)),
    flatten2 (map (map (filter p)) pb) = filter p (flatten2 pb).
Proof. exact filter_distributes_batches. Qed.
(* with RefSQL's error monad (a predicate may fail): same rows AND the same error as the undivided evaluation *)
Theorem partitioning_invariance_filter_errors :
  forall (p : row -> res tv) (parts : list rel),
    (ps <- filter_parts p parts;; Ok (concat ps)) = filter_m p (concat parts).
Proof. exact filter_m_distributes. Qed.
Theorem partitioning_invariance_filter_any_order :
  forall (p : row -> res tv) (parts : list rel) R R',
    is_split R parts -> filter_m p R = Ok R' ->
    exists ps, filter_parts p parts = Ok ps /\ Permutation (concat ps) R'.
Proof. exact filter_m_split. Qed.
Theorem partitioning_invariance_project :
  forall (f : row -> row) (parts : list rel) R,
    is_split R parts -> Permutation (concat (map (map f) parts)) (map f R).
Proof. exact project_distributes. Qed.
Theorem partitioning_invariance_project_errors :
  forall (f : row -> res row) (parts : list rel),
    (ps <- project_parts f parts;; Ok (concat ps)) = mapM f (concat parts).
Proof. exact project_m_distributes. Qed.

(* ---------------------------------------------------------------- partial -> final aggregation *)
(* every aggregate of RefSQL (count( * ), count, count(DISTINCT), sum, min, max, avg): the partial states of the
   partitions, merged and evaluated, give the reference aggregate of the concatenation -- the same value or the same
   error.  [agg_dom] is [True] except for min / max, where it asks for values of the base column types (see below). *)
Theorem partitioning_invariance_aggregate_concat :
  forall fn parts, agg_dom fn (concat parts) -> agg_two_phase fn parts = agg_apply fn (concat parts).
Proof. exact agg_two_phase_concat. Qed.
(* the reference aggregates do not depend on the order of their input ... *)
Theorem C02_aggregate_order_independent :
  forall fn vs vs', Permutation vs vs' -> agg_dom fn vs -> agg_apply fn vs = agg_apply fn vs'.
Proof. exact agg_apply_perm. Qed.
(* ... hence: ANY split of a group's values, in any arrival order *)
Theorem partitioning_invariance_aggregate :
  forall fn parts vs, is_split vs parts -> agg_dom fn vs -> agg_two_phase fn parts = agg_apply fn vs.
Proof. exact agg_two_phase_split. Qed.
(* the side condition of min / max is necessary: over a column mixing BIGINT 2 and the exact rational 2/1 (which
   compare equal) the reference's own min depends on the row order *)
Example C02_min_side_condition_necessary :
  is_split [VInt 2; VRat 2 1] [[VRat 2 1]; [VInt 2]] /\
  agg_two_phase FMin [[VRat 2 1]; [VInt 2]] = Ok (VRat 2 1) /\ agg_apply FMin [VInt 2; VRat 2 1] = Ok (VInt 2).
Proof. split; [apply perm_swap | split; reflexivity]. Qed.

(* GROUP BY, input = (group key, aggregate argument) pairs of ANY split of the input:
   AggregateExec(Partial) per partition -> CoalescePartitions -> AggregateExec(Final) *)
Theorem partitioning_invariance_group_by :
  forall fn (l : list (row * value)) parts,
    is_split l parts -> agg_dom fn (map snd l) -> Permutation (group_two_phase fn parts) (ref_groups fn l).
Proof. exact group_two_phase_ok. Qed.
(* Partial per partition -> RepartitionExec(Hash(group key), n), any function of the key -> FinalPartitioned *)
Theorem partitioning_invariance_group_by_repartitioned :
  forall fn (assign : row -> nat) n (l : list (row * value)) parts,
    n <> 0%nat -> is_split l parts -> agg_dom fn (map snd l) ->
    Permutation (group_three_phase fn assign n parts) (ref_groups fn l).
Proof. exact group_three_phase_ok. Qed.
(* the general form: the partial (key, state) pairs reach the final stage through ANY exchange that is a split of
   them and respects the key (every key in one partition), in any arrival order *)
Theorem partitioning_invariance_group_by_any_exchange :
  forall fn (assign : row -> nat) (l : list (row * value)) parts (T : nat -> list (row * res pstate)) n,
    is_split l parts -> agg_dom fn (map snd l) ->
    is_split (concat (map (partial_groups fn) parts)) (parts_of T n) ->
    key_respecting fst assign T n ->
    Permutation (concat (map (fun i => final_groups fn (T i)) (seq 0 n))) (ref_groups fn l).
Proof. exact group_partitioned_final. Qed.

(* ---------------------------------------------------------------- sort per partition + sort-preserving merge *)
Theorem partitioning_invariance_sort_merge :
  forall {A} (leb : A -> A -> bool), (forall a b, leb a b = false -> leb b a = true) ->
  forall parts l, is_split l parts ->
    Permutation (sort_merge leb parts) l /\ Sorted (fun a b => leb a b = true) (sort_merge leb parts).
Proof. exact @sort_merge_sorted_perm. Qed.
(* instance: RefSQL's ORDER BY comparator (any list of ASC/DESC, NULLS FIRST/LAST keys) *)
Theorem partitioning_invariance_order_by :
  forall ds (parts : list (list (row * row))) l, is_split l parts ->
    let leb := fun p q : row * row => keys_leb ds (fst p) (fst q) in
    Permutation (sort_merge leb parts) l /\ Sorted (fun a b => leb a b = true) (sort_merge leb parts).
Proof. intros ds parts l H. apply sort_merge_sorted_perm; auto. intros a b; apply keys_leb_total. Qed.

(* ---------------------------------------------------------------- local limit + global limit *)
(* LIMIT n OFFSET off without ORDER BY: LocalLimit(off + n) per partition, coalesce, GlobalLimit(off, n) *)
Theorem partitioning_invariance_limit :
  forall off n (parts : list rel),
    limit_local_global off n parts = limit_offset off (Some n) (concat parts).
Proof. exact limit_local_global_ok. Qed.
(* fetch pushed below a sort-preserving merge (no assumption on the runs) *)
Theorem partitioning_invariance_limit_merge :
  forall {A} (leb : A -> A -> bool) n runs,
    firstn n (kmerge leb (map (firstn n) runs)) = firstn n (kmerge leb runs).
Proof. exact @kmerge_local_global_limit. Qed.
(* TopK per partition + merge with fetch = the first n rows of the sorted, merged whole *)
Theorem partitioning_invariance_topk :
  forall {A} (leb : A -> A -> bool) n parts, topk_merge leb n parts = firstn n (sort_merge leb parts).
Proof. exact @topk_merge_is_prefix. Qed.

(* ---------------------------------------------------------------- partitioned hash join *)
(* equi-join (the ON predicate implies equal join keys; extra conjuncts allowed; NULL keys match nothing): both sides
   partitioned by ANY function of the join key, rows inside a partition in any order *)
Theorem partitioning_invariance_hash_join :
  forall {K} (on : row -> row -> bool) (kl kr : row -> K) (assign : K -> nat) (Lp Rp : nat -> rel) n L R,
    (forall l r, on l r = true -> kl l = kr r) ->
    is_split L (parts_of Lp n) -> is_split R (parts_of Rp n) ->
    key_respecting kl assign Lp n -> key_respecting kr assign Rp n ->
    Permutation (join_parts on Lp Rp n) (inner_join on L R).
Proof. exact @hash_join_partitioned. Qed.
Theorem partitioning_invariance_hash_join_hash_split :
  forall {K} (on : row -> row -> bool) (kl kr : row -> K) (h : K -> nat) n L R,
    n <> 0%nat -> (forall l r, on l r = true -> kl l = kr r) ->
    Permutation (join_parts on (hash_part (fun l => h (kl l)) n L) (hash_part (fun r => h (kr r)) n R) n)
                (inner_join on L R).
Proof. exact @hash_join_hash_split. Qed.

(* ---------------------------------------------------------------- UNION ALL *)
Theorem partitioning_invariance_union_all :
  forall (Lp Rp : list rel) L R,
    is_split L Lp -> is_split R Rp -> is_split (set_op SUnion true L R) (Lp ++ Rp).
Proof. exact union_all_partitions. Qed.

(* ---------------------------------------------------------------- the tie *)
(* two runs whose rows both pass the checker's bag comparison with the reference rows have the same bag *)
Theorem C02_agreeing_runs_same_bag :
  forall (R o1 o2 : rel), bag_eqb o1 R = true -> bag_eqb o2 R = true -> Permutation o1 o2.
Proof. exact agreeing_runs_same_bag. Qed.

(* ---------------------------------------------------------------- non-vacuity: the hypotheses hold on real instances *)
Definition ex_rows : list (row * value) :=
  [([VInt 1], VInt 5); ([VNull], VInt 7); ([VInt 2], VNull); ([VInt 1], VInt (-3)); ([VNull], VInt 7);
   ([VInt 2], VInt 4); ([VInt 1], VNull)].
Definition ex_hash (k : row) : nat := match k with [VInt z] => Z.to_nat (Z.abs z) | _ => 7%nat end.

(* 7 rows dealt round-robin to 3 partitions, partial aggregation, hash exchange on the key to 2 partitions, final
   aggregation: the same groups as the reference GROUP BY, for every aggregate *)
Example C02_nonvacuous_group_by :
  is_split ex_rows (round_robin 3 ex_rows) /\
  round_robin 3 ex_rows =
    [[([VInt 1], VInt 5); ([VInt 1], VInt (-3)); ([VInt 1], VNull)]; [([VNull], VInt 7); ([VNull], VInt 7)];
     [([VInt 2], VNull); ([VInt 2], VInt 4)]] /\
  forallb (fun fn =>
             let a := group_three_phase fn ex_hash 2 (chunks 2 ex_rows) in
             let b := ref_groups fn ex_rows in
             Nat.eqb (length a) 3 && forallb (fun x => existsb (fun y => row_eqb (fst x) (fst y) &&
               match snd x, snd y with Ok u, Ok v => value_eqb u v | _, _ => false end) b) a)
          [FCountStar; FCount; FCountDistinct; FSum; FMin; FMax; FAvg] = true /\
  ref_groups FAvg ex_rows = [([VInt 1], Ok (VRat 1 1)); ([VInt 2], Ok (VRat 4 1)); ([VNull], Ok (VRat 7 1))].
Proof. split; [apply round_robin_is_split; discriminate | vm_compute; repeat split; reflexivity]. Qed.

Definition ex_L : rel := [[VInt 1; VInt 10]; [VNull; VInt 11]; [VInt 2; VInt 12]; [VInt 1; VInt 13]].
Definition ex_R : rel := [[VInt 1; VInt 20]; [VInt 2; VInt 21]; [VNull; VInt 22]; [VInt 1; VInt 23]; [VInt 3; VInt 24]].
Definition ex_on (l r : row) : bool :=
  match l, r with VInt a :: _, VInt b :: _ => a =? b | _, _ => false end.    (* l.c0 = r.c0 on BIGINT keys *)
Definition ex_key (r : row) : value := match r with x :: _ => x | [] => VNull end.
Definition ex_h (v : value) : nat := match v with VInt z => Z.to_nat (Z.abs z) | _ => 0%nat end.
(* a 3-way hash-partitioned equi-join returns the 5 rows of the reference join *)
Example C02_nonvacuous_hash_join :
  (forall l r, ex_on l r = true -> ex_key l = ex_key r) /\
  Permutation (join_parts ex_on (hash_part (fun l => ex_h (ex_key l)) 3 ex_L) (hash_part (fun r => ex_h (ex_key r)) 3 ex_R) 3)
              (inner_join ex_on ex_L ex_R) /\
  join_parts ex_on (hash_part (fun l => ex_h (ex_key l)) 3 ex_L) (hash_part (fun r => ex_h (ex_key r)) 3 ex_R) 3 =
    [[VInt 1; VInt 10; VInt 1; VInt 20]; [VInt 1; VInt 10; VInt 1; VInt 23]; [VInt 1; VInt 13; VInt 1; VInt 20];
     [VInt 1; VInt 13; VInt 1; VInt 23]; [VInt 2; VInt 12; VInt 2; VInt 21]] /\
  sort_merge Z.leb [[3; 1]; []; [2; 9; 0]] = [0; 1; 2; 3; 9] /\
  topk_merge Z.leb 2 [[3; 1]; []; [2; 9; 0]] = [0; 1] /\
  limit_local_global 1 2 [[[VInt 1]; [VInt 2]; [VInt 3]; [VInt 4]]; [[VInt 5]]] = [[VInt 2]; [VInt 3]].
Proof.
  assert (E : forall l r, ex_on l r = true -> ex_key l = ex_key r).
  { intros l r H. unfold ex_on in H. destruct l as [|[] l]; try discriminate; destruct r as [|[] r]; try discriminate.
    apply Z.eqb_eq in H; subst; reflexivity. }
  split; [exact E|]. split; [apply partitioning_invariance_hash_join_hash_split; [discriminate | exact E]|].
  vm_compute; repeat split; reflexivity.
Qed.
