(* C12 -- model of datafusion/common/src/hash_utils.rs (create_hashes / with_hashes /
   create_hashes_with_hasher): the per-array hashing kernels as functions on the PHYSICAL form of an
   Arrow array, and the logical content (decode) of a physical array.

   The hash function itself is abstract (Section variables):
     h v        value.hash_one(random_state)                     one-shot hash of a leaf value
     hv v       hash_one of the 16-byte inline string view of v  (byte-view arrays, strings of <= 12 bytes)
     rh p v     re-hash of a leaf of a later key column on top of the previous hash p
                (create_hashes: seeded_state(p).build_hasher(); v.hash_write; finish
                 create_hashes_with_hasher: combine_hashes (h v) p)
     rhv p v    same for an inline view
     short v    the string has at most 12 bytes
   A [value] is a LOGICAL leaf value: -0.0 and +0.0 are one value (hash_float_value normalises the bits
   before hashing; the harness checks this by building arrays with both spellings).

   Definitions only.  Proofs: Proofs/HashLayoutProofs.v. *)
From Coq Require Import List ZArith Bool Arith.
From DF Require Import Base.Prelude.
Import ListNotations.
Open Scope Z_scope.

(* ------------------------------------------------------------------ small list tools *)
Definition win {A} (off len : nat) (l : list A) : list A := firstn len (skipn off l).

Fixpoint map2 {A B C} (f : A -> B -> C) (a : list A) (b : list B) : list C :=
  match a, b with
  | x :: a', y :: b' => f x y :: map2 f a' b'
  | _, _ => []
  end.

Fixpoint map3 {A B C D} (f : A -> B -> C -> D) (a : list A) (b : list B) (c : list C) : list D :=
  match a, b, c with
  | x :: a', y :: b', z :: c' => f x y z :: map3 f a' b' c'
  | _, _, _ => []
  end.

Fixpoint count_false (l : list bool) : nat :=
  match l with [] => O | b :: r => (if b then O else 1%nat) + count_false r end.

(* validity bits of rows [off, off+len) ; an absent validity buffer means all valid *)
Definition vwin (n : option (list bool)) (off len : nat) : list bool :=
  match n with None => repeat true len | Some v => win off len v end.
(* Array::null_count() of the window *)
Definition nullcnt (n : option (list bool)) (off len : nat) : nat :=
  match n with None => O | Some v => count_false (win off len v) end.

(* pub fn combine_hashes(l, r) = (17*37 + l).wrapping_mul(37).wrapping_add(r)   (u64) *)
Definition M64 : Z := 2 ^ 64.
Definition combine_hashes (l r : Z) : Z := ((((17 * 37 + l) mod M64) * 37) + r) mod M64.

(* RunEndBuffer::get_physical_index: partition point of (run_end <= x) in the sorted run ends *)
Fixpoint count_le (re : list nat) (x : nat) : nat :=
  match re with
  | e :: r => if (e <=? x)%nat then S (count_le r x) else O
  | [] => O
  end.

(* a buffer of values with an optional validity bitmap and the array's (offset, length) window;
   the slots outside the window and under NULLs hold arbitrary values *)
Record buf (A : Type) := mkbuf { b_vals : list A; b_nulls : option (list bool); b_off : nat; b_len : nat }.
Arguments mkbuf {A}. Arguments b_vals {A}. Arguments b_nulls {A}. Arguments b_off {A}. Arguments b_len {A}.

Definition fold_cols {P} (hw : P -> bool -> list Z -> list Z) :=
  fix go (cs : list P) (first : bool) (acc : list Z) {struct cs} : list Z :=
    match cs with
    | [] => acc
    | c :: r => go r false (hw c (negb first) acc)
    end.

Section HashLayout.
Variable value : Type.
Variables (h hv : value -> Z) (rh rhv : Z -> value -> Z) (short : value -> bool).

(* ------------------------------------------------------------------ physical arrays *)
Inductive phys :=
| Prim (b : buf value)                        (* PrimitiveArray<T>                         hash_array_primitive *)
| Bytes (b : buf value)                       (* Boolean / Utf8 / LargeUtf8 / Binary ...   hash_array *)
| View (has_buffers : bool) (b : buf value)   (* Utf8View / BinaryView                     hash_generic_byte_view_array *)
| Dict (keys : buf nat) (values : phys)       (* DictionaryArray                           hash_dictionary *)
| RunEnd (run_ends : list nat) (values : phys) (off len : nat)                  (* RunArray    hash_run_array *)
| PList (offsets : list nat) (nulls : option (list bool)) (off len : nat) (child : phys)  (* List / LargeList *)
| Struct (children : list phys) (nulls : option (list bool)) (len : nat).       (* StructArray hash_struct_array *)

Definition plen (p : phys) : nat :=
  match p with
  | Prim b | Bytes b | View _ b => b_len b
  | Dict k _ => b_len k
  | RunEnd _ _ _ l => l
  | PList _ _ _ l _ => l
  | Struct _ _ l => l
  end.

(* Array::nulls() -- the PHYSICAL validity buffer (and its offset).  A run-end encoded array has none, a
   dictionary array only has the validity of its keys: logical NULLs that live in the values of a
   dictionary / run-end array are invisible here.  hash_dictionary and hash_run_array test their values
   with null_count() / is_valid() / is_null(), i.e. with this physical validity. *)
Definition pnulls (p : phys) : option (list bool) * nat :=
  match p with
  | Prim b | Bytes b | View _ b => (b_nulls b, b_off b)
  | Dict k _ => (b_nulls k, b_off k)
  | RunEnd _ _ _ _ => (None, O)
  | PList _ n off _ _ => (n, off)
  | Struct _ n _ => (n, O)
  end.
Definition pnullcnt (p : phys) (s l : nat) : nat := nullcnt (fst (pnulls p)) (snd (pnulls p) + s) l.
Definition pvalid (p : phys) (s l : nat) : list bool := vwin (fst (pnulls p)) (snd (pnulls p) + s) l.

(* ------------------------------------------------------------------ the kernels *)
(* hash_array_primitive / hash_array / hash_generic_byte_view_array on rows [s, s+l) of the buffer:
   null_count() == 0 takes the loop without validity tests, otherwise only nulls().valid_indices() are
   written; NULL rows keep whatever the hash buffer held *)
Definition hash_leaf (one : value -> Z) (re : Z -> value -> Z) (b : buf value) (s l : nat)
           (rehash : bool) (prev : list Z) : list Z :=
  let off := (b_off b + s)%nat in
  let upd v p := if rehash then re p v else one v in
  if (nullcnt (b_nulls b) off l =? 0)%nat
  then map2 upd (win off l (b_vals b)) prev
  else map3 (fun (ok : bool) v p => if ok then upd v p else p) (vwin (b_nulls b) off l) (win off l (b_vals b)) prev.

(* hash_string_view_array_inner: !HAS_BUFFERS || view_len <= 12 hashes the u128 view, else the bytes *)
Definition view_one (hb : bool) (v : value) : Z := if negb hb || short v then hv v else h v.
Definition view_re (hb : bool) (p : Z) (v : value) : Z := if negb hb || short v then rhv p v else rh p v.

(* hash_run_array_inner's loop over the physical runs start_physical_index..end_physical_index:
   ends = their absolute run ends, vh = hashes of the sliced values, valid = their physical validity;
   [st] is start_in_slice and [prev] the hash buffer from position st on *)
Fixpoint ree_loop (o l : nat) (rehash hnv : bool) (ends : list nat) (vh : list Z) (valid : list bool)
         (st : nat) (prev : list Z) : list Z :=
  match ends, vh, valid with
  | e :: ends', x :: vh', ok :: valid' =>
      let e' := Nat.min (e - o) l in
      let n := (e' - st)%nat in
      map (fun p => if hnv && negb ok then p else if rehash then combine_hashes x p else x) (firstn n prev)
        ++ ree_loop o l rehash hnv ends' vh' valid' e' (skipn n prev)
  | _, _, _ => prev
  end.

(* hash_single_array on array.slice(s, l): the slice window is carried down to the buffers exactly as
   Arrow's zero-copy slicing does (offset arithmetic, children of a struct are sliced, the child of a
   list and the values of a dictionary / run-end array are not). *)
Fixpoint hash_win (p : phys) (s l : nat) (rehash : bool) (prev : list Z) {struct p} : list Z :=
  match p with
  | Prim b => hash_leaf h rh b s l rehash prev
  | Bytes b => hash_leaf h (fun p v => combine_hashes (h v) p) b s l rehash prev
  | View hb b => hash_leaf (view_one hb) (view_re hb) b s l rehash prev
  | Dict keys values =>
      (* hash every dictionary value once into a zeroed buffer, then scatter by key *)
      let nv := plen values in
      let dh := hash_win values O nv false (repeat 0 nv) in
      let off := (b_off keys + s)%nat in
      let has_null_keys := negb (nullcnt (b_nulls keys) off l =? 0)%nat in
      let has_null_values := negb (pnullcnt values O nv =? 0)%nat in
      let dvalid := pvalid values O nv in
      map3 (fun (ok : bool) k p =>
              if negb has_null_keys || ok then
                if negb has_null_values || nth k dvalid false then
                  (if rehash then combine_hashes (nth k dh 0) p else nth k dh 0)
                else p
              else p)
           (vwin (b_nulls keys) off l) (win off l (b_vals keys)) prev
  | RunEnd re values off len =>
      if (l =? 0)%nat then prev else
      let o := (off + s)%nat in
      let start := count_le re o in
      let endp := S (count_le re (o + l - 1)) in
      let n := (endp - start)%nat in
      let vh := hash_win values start n false (repeat 0 n) in
      let hnv := negb (pnullcnt values O (plen values) =? 0)%nat in
      ree_loop o l rehash hnv (win start n re) vh (pvalid values start n) O prev
  | PList offs nulls off len c =>
      (* hash only the child range covered by the offsets of this (sliced) list *)
      let o := (off + s)%nat in
      let ow := win o (S l) offs in
      let first := hd O ow in
      let n := (last ow O - first)%nat in
      let vh := hash_win c first n false (repeat 0 n) in
      let row (se : nat * nat) (p : Z) :=
        fold_left combine_hashes (win (fst se - first) (snd se - fst se) vh) p in
      if negb (nullcnt nulls o l =? 0)%nat
      then map3 (fun (ok : bool) se p => if ok then row se p else p) (vwin nulls o l) (combine ow (tl ow)) prev
      else map2 row (combine ow (tl ow)) prev
  | Struct cs nulls len =>
      (* the children are hashed like key columns into a zeroed buffer *)
      let vh := fold_cols (fun c => hash_win c s l) cs true (repeat 0 l) in
      match nulls with
      | None => map2 combine_hashes prev vh
      | Some v => map3 (fun (ok : bool) p x => if ok then combine_hashes p x else p) (win s l v) prev vh
      end
  end.

(* create_hashes: the first column initialises (rehash = false), later columns re-hash *)
Definition create_hashes (cols : list phys) (buffer : list Z) : list Z :=
  fold_cols (fun c => hash_win c O (plen c)) cols true buffer.

(* with_hashes: thread-local buffer cleared and resized to the first array's length, zero filled *)
Definition with_hashes (cols : list phys) : list Z :=
  create_hashes cols (repeat 0 (match cols with c :: _ => plen c | [] => O end)).

(* ------------------------------------------------------------------ logical content *)
Inductive lval :=
| LNull
| LPrim (v : value)
| LBytes (v : value)
| LView (v : value)
| LEnc (x : lval)            (* non-NULL value of a dictionary / run-end encoded column *)
| LList (els : list lval)
| LStruct (fields : list lval).

Definition enc (x : lval) : lval := match x with LNull => LNull | _ => LEnc x end.

Definition dec_leaf (mk : value -> lval) (b : buf value) : list lval :=
  map2 (fun (ok : bool) v => if ok then mk v else LNull)
       (vwin (b_nulls b) (b_off b) (b_len b)) (win (b_off b) (b_len b) (b_vals b)).

Fixpoint decode (p : phys) : list lval :=
  match p with
  | Prim b => dec_leaf LPrim b
  | Bytes b => dec_leaf LBytes b
  | View _ b => dec_leaf LView b
  | Dict k v =>
      let dv := decode v in
      map2 (fun (ok : bool) i => if ok then enc (nth i dv LNull) else LNull)
           (vwin (b_nulls k) (b_off k) (b_len k)) (win (b_off k) (b_len k) (b_vals k))
  | RunEnd re v off len =>
      let dv := decode v in
      map (fun i => enc (nth (count_le re (off + i)) dv LNull)) (seq O len)
  | PList offs nulls off len c =>
      let dc := decode c in
      let ow := win off (S len) offs in
      map2 (fun (ok : bool) (se : nat * nat) => if ok then LList (win (fst se) (snd se - fst se) dc) else LNull)
           (vwin nulls off len) (combine ow (tl ow))
  | Struct cs nulls len =>
      let dcs := map decode cs in
      map2 (fun (ok : bool) i => if ok then LStruct (map (fun dc => nth i dc LNull) dcs) else LNull)
           (vwin nulls O len) (seq O len)
  end.

(* ------------------------------------------------------------------ specification: the hash of a logical value *)
Definition spec_fields (sp : lval -> bool -> Z -> Z) :=
  fix go (fs : list lval) (first : bool) (acc : Z) {struct fs} : Z :=
    match fs with
    | [] => acc
    | f :: r => go r false (sp f (negb first) acc)
    end.

Fixpoint spec (x : lval) (rehash : bool) (prev : Z) {struct x} : Z :=
  match x with
  | LNull => prev
  | LPrim v => if rehash then rh prev v else h v
  | LBytes v => if rehash then combine_hashes (h v) prev else h v
  | LView v => if short v then (if rehash then rhv prev v else hv v) else (if rehash then rh prev v else h v)
  | LEnc y => let d := spec y false 0 in if rehash then combine_hashes d prev else d
  | LList els => fold_left (fun acc e => combine_hashes acc (spec e false 0)) els prev
  | LStruct fs => combine_hashes prev (spec_fields spec fs true 0)
  end.

(* hash of a key row (one logical value per key column) starting from the buffer content [init] *)
Definition row_hash (row : list lval) (init : Z) : Z := spec_fields spec row true init.

(* ------------------------------------------------------------------ well-formed physical arrays *)
Definition buf_ok {A} (b : buf A) : bool :=
  (b_off b + b_len b <=? length (b_vals b))%nat &&
  match b_nulls b with None => true | Some v => (b_off b + b_len b <=? length v)%nat end.

Fixpoint forallb2 {A B} (f : A -> B -> bool) (a : list A) (b : list B) : bool :=
  match a, b with
  | x :: a', y :: b' => f x y && forallb2 f a' b'
  | _, _ => true
  end.

Fixpoint increasing (prev : nat) (l : list nat) : bool :=
  match l with [] => true | e :: r => (prev <? e)%nat && increasing e r end.
Fixpoint nondecreasing (prev : nat) (l : list nat) : bool :=
  match l with [] => true | e :: r => (prev <=? e)%nat && nondecreasing e r end.

(* the values of a dictionary / run-end array are not themselves dictionary / run-end encoded *)
Definition plain (p : phys) : bool :=
  match p with Dict _ _ | RunEnd _ _ _ _ => false | _ => true end.

(* Arrow's own array invariants; [strict] additionally asks for [plain] values *)
Fixpoint wfb (strict : bool) (p : phys) : bool :=
  match p with
  | Prim b | Bytes b => buf_ok b
  | View hb b => buf_ok b && (hb || forallb short (win (b_off b) (b_len b) (b_vals b)))
  | Dict k v =>
      buf_ok k && wfb strict v && (negb strict || plain v) &&
      forallb2 (fun (ok : bool) i => negb ok || (i <? plen v)%nat)
               (vwin (b_nulls k) (b_off k) (b_len k)) (win (b_off k) (b_len k) (b_vals k))
  | RunEnd re v off len =>
      wfb strict v && (negb strict || plain v) && (length re =? plen v)%nat && increasing O re &&
      (off + len <=? last re O)%nat
  | PList offs nulls off len c =>
      wfb strict c && (off + len + 1 <=? length offs)%nat &&
      match nulls with None => true | Some v => (off + len <=? length v)%nat end &&
      nondecreasing O (win off (S len) offs) && (last (win off (S len) offs) O <=? plen c)%nat
  | Struct cs nulls len =>
      forallb (wfb strict) cs && forallb (fun c => (plen c =? len)%nat) cs &&
      match nulls with None => true | Some v => (length v =? len)%nat end
  end.
Definition wf (p : phys) : Prop := wfb true p = true.

(* the logical key row i of a list of key columns *)
Definition col_rows (cols : list phys) (i : nat) : list lval := map (fun c => nth i (decode c) LNull) cols.

End HashLayout.

Arguments Prim {value}. Arguments Bytes {value}. Arguments View {value}. Arguments Dict {value}.
Arguments RunEnd {value}. Arguments PList {value}. Arguments Struct {value}.
Arguments LNull {value}. Arguments LPrim {value}. Arguments LBytes {value}. Arguments LView {value}.
Arguments LEnc {value}. Arguments LList {value}. Arguments LStruct {value}.

(* ------------------------------------------------------------------ correspondence with the implementation *)
Fixpoint lookup1 (t : list (Z * Z)) (k : Z) : Z :=
  match t with [] => -1 | (a, v) :: r => if a =? k then v else lookup1 r k end.
Fixpoint lookup2 (t : list (Z * Z * Z)) (s k : Z) : Z :=
  match t with [] => -1 | (a, b, v) :: r => if (a =? s) && (b =? k) then v else lookup2 r s k end.

Fixpoint lval_eqb (a b : lval Z) {struct a} : bool :=
  let leq := fix leq (x y : list (lval Z)) {struct x} : bool :=
    match x, y with
    | [], [] => true
    | u :: x', w :: y' => lval_eqb u w && leq x' y'
    | _, _ => false
    end in
  match a, b with
  | LNull, LNull => true
  | LPrim x, LPrim y | LBytes x, LBytes y | LView x, LView y => x =? y
  | LEnc x, LEnc y => lval_eqb x y
  | LList x, LList y | LStruct x, LStruct y => leq x y
  | _, _ => false
  end.

(* one run: physical key columns, initial hash buffer, observed create_hashes and
   create_hashes_with_hasher outputs *)
Record c12_run := mkrun { r_cols : list (phys Z); r_init : list Z; r_out : list Z; r_generic : list Z }.
(* a group: single-value hash tables + runs over physically different encodings of the same logical columns;
   strict = the generator promises plain dictionary / run-end values *)
Record c12_case := C12 {
  c_strict : bool;
  c_h : list (Z * Z); c_hv : list (Z * Z); c_hs : list (Z * Z * Z); c_hvs : list (Z * Z * Z);
  c_runs : list c12_run }.

Definition c12_run_ok (c : c12_case) (r : c12_run) : bool :=
  let h := lookup1 (c_h c) in
  let hv := lookup1 (c_hv c) in
  forallb (wfb Z Z.even (c_strict c)) (r_cols r) &&
  forallb (fun p => (plen Z p =? length (r_init r))%nat) (r_cols r) &&
  zlist_eqb (create_hashes Z h hv (lookup2 (c_hs c)) (lookup2 (c_hvs c)) Z.even (r_cols r) (r_init r)) (r_out r) &&
  zlist_eqb (create_hashes Z h hv (fun p v => combine_hashes (h v) p) (fun p v => combine_hashes (hv v) p) Z.even
                           (r_cols r) (r_init r)) (r_generic r).

Definition c12_same_logical (a b : c12_run) : bool :=
  list_eqb (list_eqb lval_eqb) (map (decode Z) (r_cols a)) (map (decode Z) (r_cols b)).

Definition c12_check (c : c12_case) : bool :=
  forallb (c12_run_ok c) (c_runs c) &&
  match c_runs c with [] => true | r0 :: rs => forallb (c12_same_logical r0) rs end.

(* observed points of combine_hashes *)
Definition c12_combine_check (pts : list (Z * Z * Z)) : bool :=
  forallb (fun '(l, r, o) => combine_hashes l r =? o) pts.
