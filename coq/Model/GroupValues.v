(* C13 -- group-key interning.  Executable definitions only.
   (a) GroupSpec: the abstract meaning of a group-key store.
   (b) Concrete models of GroupValuesPrimitive and GroupValuesBoolean
       (datafusion/physical-plan/src/aggregates/group_values/single_group_by/{primitive,boolean}.rs).
   Keys are tuples of nullable integer codes; the harness maps every column value to a code
   injectively per column (equal logical values <-> equal codes). *)
From DF Require Import Base.Prelude.
Open Scope Z_scope.

Definition key := list (option Z).
Definition key_eqb : key -> key -> bool := list_eqb zopt_eqb.

(* ------------------------------------------------------------------ operations / outputs *)
Inductive op :=
  | Intern (ks : list key)
  | EmitAll
  | EmitFirst (n : Z)        (* precondition 0 <= n <= len, as EmitTo::First requires *)
  | Clear.                   (* clear_shrink *)

Inductive out :=
  | OIds (ids : list Z) (len : Z)        (* intern: group id per row, len() afterwards *)
  | OEmit (keys : list key) (len : Z)    (* emit: emitted keys in order, len() afterwards *)
  | OClear (len : Z).

(* ------------------------------------------------------------------ (a) specification *)
Definition spec := list key.      (* position = group id; no duplicates *)

Fixpoint find_idx (k : key) (l : list key) (i : Z) : option Z :=
  match l with
  | [] => None
  | x :: r => if key_eqb x k then Some i else find_idx k r (i + 1)
  end.

Definition zlen {A} (l : list A) : Z := Z.of_nat (length l).

Definition spec_intern1 (s : spec) (k : key) : spec * Z :=
  match find_idx k s 0 with
  | Some i => (s, i)
  | None => (s ++ [k], zlen s)
  end.

Fixpoint spec_intern (s : spec) (ks : list key) : spec * list Z :=
  match ks with
  | [] => (s, [])
  | k :: r =>
      let '(s1, i) := spec_intern1 s k in
      let '(s2, ids) := spec_intern s1 r in
      (s2, i :: ids)
  end.

Definition spec_step (s : spec) (o : op) : spec * out :=
  match o with
  | Intern ks => let '(s', ids) := spec_intern s ks in (s', OIds ids (zlen s'))
  | EmitAll => ([], OEmit s 0)
  | EmitFirst n =>
      let s' := skipn (Z.to_nat n) s in
      (s', OEmit (firstn (Z.to_nat n) s) (zlen s'))
  | Clear => ([], OClear 0)
  end.

(* ---- relational specification of intern.
   The property fixes WHICH ids unseen keys receive (exactly len, len+1, ..) but not their order
   inside one batch (the vectorised multi-column store numbers them in a different order than
   the row order), so the specification is a relation; [spec_intern] above is one behaviour
   allowed by it (first-seen order), and [spec_intern_chk] decides the relation for observed ids. *)
Fixpoint assoc_find (k : key) (l : list (key * Z)) : option Z :=
  match l with
  | [] => None
  | (k', i) :: r => if key_eqb k' k then Some i else assoc_find k r
  end.
Fixpoint id_used (i : Z) (l : list (key * Z)) : bool :=
  match l with
  | [] => false
  | (_, j) :: r => (i =? j) || id_used i r
  end.
Fixpoint key_of_id (i : Z) (l : list (key * Z)) : option key :=
  match l with
  | [] => None
  | (k, j) :: r => if i =? j then Some k else key_of_id i r
  end.

(* pass 1: every row's id is consistent with the live keys and with the ids handed out to new
   keys earlier in this batch; collects the new (key, id) pairs *)
Fixpoint chk_rows (s : spec) (pend : list (key * Z)) (ks : list key) (ids : list Z)
  : option (list (key * Z)) :=
  match ks, ids with
  | [], [] => Some pend
  | k :: kr, i :: ir =>
      match find_idx k s 0 with
      | Some j => if i =? j then chk_rows s pend kr ir else None
      | None =>
          match assoc_find k pend with
          | Some j => if i =? j then chk_rows s pend kr ir else None
          | None =>
              if (zlen s <=? i) && negb (id_used i pend)
              then chk_rows s (pend ++ [(k, i)]) kr ir else None
          end
      end
  | _, _ => None
  end.

(* pass 2: the new ids are exactly len, len+1, .., len+k-1: lay the new keys out by id *)
Fixpoint layout (base : Z) (n : nat) (pend : list (key * Z)) : option (list key) :=
  match n with
  | O => Some []
  | S m =>
      match key_of_id base pend with
      | Some k => match layout (base + 1) m pend with Some r => Some (k :: r) | None => None end
      | None => None
      end
  end.

Definition spec_intern_chk (s : spec) (ks : list key) (ids : list Z) : option spec :=
  match chk_rows s [] ks ids with
  | Some pend =>
      match layout (zlen s) (length pend) pend with
      | Some new => Some (s ++ new)
      | None => None
      end
  | None => None
  end.

(* checking step: validates one observed output against the specification *)
Definition spec_chk_step (s : spec) (o : op) (x : out) : option spec :=
  match o, x with
  | Intern ks, OIds ids len =>
      match spec_intern_chk s ks ids with
      | Some s' => if len =? zlen s' then Some s' else None
      | None => None
      end
  | (EmitAll | EmitFirst _ | Clear), _ =>
      let '(s', y) := spec_step s o in
      match y, x with
      | OEmit k l, OEmit k' l' => if list_eqb key_eqb k k' && (l =? l') then Some s' else None
      | OClear l, OClear l' => if l =? l' then Some s' else None
      | _, _ => None
      end
  | _, _ => None
  end.

Fixpoint spec_chk_run (s : spec) (ops : list op) (obs : list out) : bool :=
  match ops, obs with
  | [], [] => true
  | o :: r, x :: xr =>
      match spec_chk_step s o x with
      | Some s' => spec_chk_run s' r xr
      | None => false
      end
  | _, _ => false
  end.

Fixpoint run {S} (step : S -> op -> S * out) (s : S) (ops : list op) : S * list out :=
  match ops with
  | [] => (s, [])
  | o :: r =>
      let '(s1, x) := step s o in
      let '(s2, xs) := run step s1 r in
      (s2, x :: xs)
  end.

(* histories respect EmitTo::First's precondition *)
Fixpoint ops_ok {S} (step : S -> op -> S * out) (len : S -> Z) (s : S) (ops : list op) : bool :=
  match ops with
  | [] => true
  | o :: r =>
      (match o with EmitFirst n => (0 <=? n) && (n <=? len s) | _ => true end)
      && ops_ok step len (fst (step s o)) r
  end.

(* ------------------------------------------------------------------ (b1) GroupValuesPrimitive *)
(* values: Vec<T::Native> (the NULL group's slot holds Default = 0);
   null_group: Option<usize>;
   map: HashTable<(group, hash)> probed with `values[g] == key` -- modelled as the list of
   group indices it contains (the hash is only a search accelerator: an entry matches iff
   values[g] is the key; hash equality is implied by key equality). *)
Record prim := { pvalues : list Z; pnull : option Z; pmap : list Z }.

Definition prim_init : prim := {| pvalues := []; pnull := None; pmap := [] |}.

Definition znth (l : list Z) (i : Z) : Z := nth (Z.to_nat i) l 0.

Definition prim_intern1 (p : prim) (v : option Z) : prim * Z :=
  match v with
  | None =>
      match pnull p with
      | Some g => (p, g)
      | None =>
          let g := zlen (pvalues p) in
          ({| pvalues := pvalues p ++ [0]; pnull := Some g; pmap := pmap p |}, g)
      end
  | Some k =>
      match find (fun g => znth (pvalues p) g =? k) (pmap p) with
      | Some g => (p, g)
      | None =>
          let g := zlen (pvalues p) in
          ({| pvalues := pvalues p ++ [k]; pnull := pnull p; pmap := pmap p ++ [g] |}, g)
      end
  end.

Fixpoint prim_intern (p : prim) (vs : list (option Z)) : prim * list Z :=
  match vs with
  | [] => (p, [])
  | v :: r =>
      let '(p1, i) := prim_intern1 p v in
      let '(p2, ids) := prim_intern p1 r in
      (p2, i :: ids)
  end.

(* build_primitive(values, null_idx) *)
Fixpoint build_from (i : Z) (vals : list Z) (null_idx : option Z) : list key :=
  match vals with
  | [] => []
  | v :: r =>
      (if zopt_eqb null_idx (Some i) then [None] else [Some v]) :: build_from (i + 1) r null_idx
  end.
Definition build_primitive (vals : list Z) (null_idx : option Z) : list key := build_from 0 vals null_idx.

Definition retain_shift (n : Z) (m : list Z) : list Z :=
  flat_map (fun g => if n <=? g then [g - n] else []) m.

(* single-column stores take the first (only) component of each key *)
Definition key1 (k : key) : option Z := match k with [v] => v | _ => None end.

Definition prim_step (p : prim) (o : op) : prim * out :=
  match o with
  | Intern ks =>
      let '(p', ids) := prim_intern p (map key1 ks) in (p', OIds ids (zlen (pvalues p')))
  | EmitAll =>
      ({| pvalues := []; pnull := None; pmap := [] |},
       OEmit (build_primitive (pvalues p) (pnull p)) 0)
  | EmitFirst n =>
      let m := retain_shift n (pmap p) in
      let '(emitted_null, kept_null) :=
        match pnull p with
        | Some v => if n <=? v then (None, Some (v - n)) else (Some v, None)
        | None => (None, None)
        end in
      let rest := skipn (Z.to_nat n) (pvalues p) in
      ({| pvalues := rest; pnull := kept_null; pmap := m |},
       OEmit (build_primitive (firstn (Z.to_nat n) (pvalues p)) emitted_null) (zlen rest))
  | Clear =>
      (* clear_shrink: values.clear(); map.clear(); null_group = None *)
      ({| pvalues := []; pnull := None; pmap := [] |}, OClear 0)
  end.

(* The clear_shrink of the pinned upstream commit (before the fix recorded in known_findings.json):
   it forgot to reset null_group.  Kept to show, by computation, what the defect was. *)
Definition prim_step_stale_clear (p : prim) (o : op) : prim * out :=
  match o with
  | Clear => ({| pvalues := []; pnull := pnull p; pmap := [] |}, OClear 0)
  | _ => prim_step p o
  end.

(* ------------------------------------------------------------------ (b2) GroupValuesBoolean *)
Record boolst := { bfalse : option Z; btrue : option Z; bnull : option Z }.
Definition bool_init : boolst := {| bfalse := None; btrue := None; bnull := None |}.

Definition b2z (o : option Z) : Z := match o with Some _ => 1 | None => 0 end.
Definition bool_len (b : boolst) : Z := b2z (bfalse b) + b2z (btrue b) + b2z (bnull b).

(* boolean values are coded false = 0, true = 1 *)
Definition bool_intern1 (b : boolst) (v : option Z) : boolst * Z :=
  match v with
  | Some 0 =>
      match bfalse b with
      | Some i => (b, i)
      | None => let i := bool_len b in ({| bfalse := Some i; btrue := btrue b; bnull := bnull b |}, i)
      end
  | Some _ =>
      match btrue b with
      | Some i => (b, i)
      | None => let i := bool_len b in ({| bfalse := bfalse b; btrue := Some i; bnull := bnull b |}, i)
      end
  | None =>
      match bnull b with
      | Some i => (b, i)
      | None => let i := bool_len b in ({| bfalse := bfalse b; btrue := btrue b; bnull := Some i |}, i)
      end
  end.

Fixpoint bool_intern (b : boolst) (vs : list (option Z)) : boolst * list Z :=
  match vs with
  | [] => (b, [])
  | v :: r =>
      let '(b1, i) := bool_intern1 b v in
      let '(b2, ids) := bool_intern b1 r in
      (b2, i :: ids)
  end.

(* slot update on emit: (emitted position if any, remaining index if any) *)
Definition emit_slot (cnt : Z) (o : option Z) : option Z * option Z :=
  match o with
  | Some i => if i <? cnt then (Some i, None) else (None, Some (i - cnt))
  | None => (None, None)
  end.

(* the emitted array: emit_count entries, bit set at the true position, null at the null position *)
Fixpoint bool_build (i : Z) (cnt : nat) (tpos npos : option Z) : list key :=
  match cnt with
  | O => []
  | S c =>
      (if zopt_eqb npos (Some i) then [None]
       else if zopt_eqb tpos (Some i) then [Some 1] else [Some 0])
      :: bool_build (i + 1) c tpos npos
  end.

Definition bool_emit (b : boolst) (cnt : Z) : boolst * list key :=
  let '(tpos, t') := emit_slot cnt (btrue b) in
  let '(_, f') := emit_slot cnt (bfalse b) in
  let '(npos, n') := emit_slot cnt (bnull b) in
  ({| bfalse := f'; btrue := t'; bnull := n' |}, bool_build 0 (Z.to_nat cnt) tpos npos).

Definition bool_step (b : boolst) (o : op) : boolst * out :=
  match o with
  | Intern ks => let '(b', ids) := bool_intern b (map key1 ks) in (b', OIds ids (bool_len b'))
  | EmitAll => let '(b', ks) := bool_emit b (bool_len b) in (b', OEmit ks (bool_len b'))
  | EmitFirst n => let '(b', ks) := bool_emit b n in (b', OEmit ks (bool_len b'))
  | Clear => (bool_init, OClear 0)
  end.

(* ------------------------------------------------------------------ correspondence *)
Definition out_eqb (a b : out) : bool :=
  match a, b with
  | OIds i l, OIds j m => zlist_eqb i j && (l =? m)
  | OEmit k l, OEmit k' m => list_eqb key_eqb k k' && (l =? m)
  | OClear l, OClear m => l =? m
  | _, _ => false
  end.

(* every store's observed outputs are validated against the (relational) specification; the two
   stores with a concrete model are additionally compared output-for-output with it:
   0 = spec only, 1 = spec + primitive model, 2 = spec + boolean model *)
Inductive c13_case := C13 (store : Z) (ops : list op) (observed : list out).

Definition c13_check (c : c13_case) : bool :=
  match c with
  | C13 store ops obs =>
      spec_chk_run [] ops obs
      && (if store =? 1 then list_eqb out_eqb (snd (run prim_step prim_init ops)) obs else true)
      && (if store =? 2 then list_eqb out_eqb (snd (run bool_step bool_init ops)) obs else true)
  end.
